(* C09 - the four products of linalg.c.  For all dimensions (zero included) and all
   contents the model returns Ok, performs row*col*(1 + c_r) stores, and every entry
   of the result is the defining sum, accumulated from zero in increasing inner index
   (so the statement needs no algebraic law and also covers the float instance). *)
From Coq Require Import List Arith Bool Lia NArith.
From LibaV Require Import C09.LinalgDefs C09.LinalgSpec C09.LinalgLemmas C09.LinalgTProofs.
Import ListNotations.

Section MulP.
  Variable T : Type.
  Variables (zero : T) (add mul : T -> T -> T).

  Local Notation get l k := (nth k l zero).
  Local Notation Mat := (Mat T zero).
  Local Notation sum := (dotsum T zero add).

  Lemma zero_out_ok m n b0 :
    length (cells b0) = m * n ->
    exists b, zero_out T zero (m * n) b0 = Ok (m * n, b) /\ nwr b = nwr b0 + m * n /\
              Mat m n (fun _ _ => zero) (cells b).
  Proof.
    intros Hlen. unfold zero_out.
    destruct (while_ghost
                (fun k (s : nat * buf T) =>
                   let '(z, b1) := s in z = k /\ SeqInv T zero (fun _ => zero) b0 k b1)
                (m * n) (fun '(z, _) => z <? m * n) (zero_cell T zero))
      with (fuel := m * n) (k := 0) (s := (0, b0)) as (s' & Hw & Hi).
    - intros k [z b1] (-> & I1) Hk. split; [apply Nat.ltb_lt; lia|].
      unfold zero_cell.
      destruct (store_seq T zero _ b0 k b1 zero I1) as (b2 & Hs & I2); [lia|reflexivity|].
      rewrite Hs. cbn [bind]. eexists. split; [reflexivity|]. split; [reflexivity|exact I2].
    - intros [z b1] (-> & _). apply Nat.ltb_ge; lia.
    - split; [reflexivity|apply SeqInv_init].
    - lia.
    - lia.
    - destruct s' as [z b1]. destruct Hi as (-> & (Hl & Hn & Hlo & _)).
      exists b1. split; [exact Hw|]. split; [exact Hn|].
      split; [congruence|]. intros i j Hi Hj. apply Hlo. apply idx_lt; assumption.
  Qed.

  Lemma mac_ok m n g X Y x y z b i j :
    Mat m n g (cells b) -> i < m -> j < n -> z = i * n + j ->
    x < length X -> y < length Y ->
    exists b', mac T add mul X Y x y z b = Ok b' /\ nwr b' = S (nwr b) /\
               Mat m n (fun i' j' => if (i' =? i) && (j' =? j)
                                     then add (g i j) (mul (get X x) (get Y y))
                                     else g i' j') (cells b').
  Proof.
    intros HM Hi Hj Hz Hx Hy. unfold mac.
    rewrite (load_ok T zero X x Hx). cbn [bind].
    rewrite (load_ok T zero Y y Hy). cbn [bind].
    rewrite (Mat_load T zero m n g _ i j z HM Hi Hj Hz). cbn [bind].
    apply Mat_store; assumption.
  Qed.

  (* the invariant shared by the k-outermost products (mulTm, mulTT) and, with the
     roles of the counters exchanged, by the others: cells before (i, j) in row-major
     order have S k terms, the others k terms *)
  Definition Gk (term : nat -> nat -> nat -> T) (k i j i' j' : nat) : T :=
    if (i' <? i) || ((i' =? i) && (j' <? j)) then sum (S k) (term i' j') else sum k (term i' j').

  (* ---------------------------------------------------------- mulmm *)
  Section MM.
    Variables (row c_r col : nat) (X Y : list T).
    Hypothesis HX : length X = row * c_r.
    Hypothesis HY : length Y = c_r * col.
    Hypothesis Urow : U32 row.
    Hypothesis Ucol : U32 col.

    Definition tmm (i j t : nat) : T := mul (get X (i * c_r + t)) (get Y (t * col + j)).

    Definition Gmm (i k j i' j' : nat) : T :=
      if i' <? i then sum c_r (tmm i' j')
      else if i' =? i then (if j' <? j then sum (S k) (tmm i' j') else sum k (tmm i' j'))
           else zero.

    Lemma mulmm_k_ok i k z0 x_ b :
      i < row -> k < c_r -> Mat row col (Gmm i k 0) (cells b) ->
      exists b', mulmm_k T add mul col X Y (i * col) x_ (i * c_r + k, k * col, z0, b)
                 = Ok (S (i * c_r + k), k * col + col, i * col + col, b') /\
                 nwr b' = nwr b + col /\ Mat row col (Gmm i (S k) 0) (cells b').
    Proof.
      intros Hi Hk HM. unfold mulmm_k.
      destruct (while_ghost
                  (fun j (s : nat * nat * buf T) =>
                     let '(y, z, b1) := s in
                     y = k * col + j /\ z = i * col + j /\ nwr b1 = nwr b + j /\
                     Mat row col (Gmm i k j) (cells b1))
                  col (fun '(y, _, _) => y <? k * col + col)
                  (mulmm_j T add mul X Y (i * c_r + k)))
        with (fuel := col) (k := 0) (s := (k * col, i * col, b)) as (s' & Hw & Hinv).
      - intros j [[y z] b1] (-> & -> & Hn & HM1) Hj. split; [apply Nat.ltb_lt; lia|].
        unfold mulmm_j.
        destruct (mac_ok row col _ X Y (i * c_r + k) (k * col + j) (i * col + j) b1 i j HM1)
          as (b2 & Hs & Hn2 & HM2); [lia|lia|reflexivity| | |].
        { rewrite HX. apply idx_lt; lia. }
        { rewrite HY. apply idx_lt; lia. }
        rewrite Hs. cbn [bind]. eexists. split; [reflexivity|].
        split; [lia|]. split; [lia|]. split; [lia|].
        eapply Mat_ext; [exact HM2|]. intros i' j' Hi' Hj'. unfold Gmm. cmpb.
      - intros [[y z] b1] (-> & _). apply Nat.ltb_ge; lia.
      - split; [lia|]. split; [lia|]. split; [lia|exact HM].
      - lia.
      - lia.
      - destruct s' as [[y z] b1]. destruct Hinv as (-> & -> & Hn & HM1).
        rewrite Hw. cbn [bind]. exists b1. split; [reflexivity|]. split; [exact Hn|].
        eapply Mat_ext; [exact HM1|]. intros i' j' Hi' Hj'. unfold Gmm. cmpb.
    Qed.

    Lemma mulmm_i_ok i z0 Zp b :
      i < row -> (0 < c_r -> Zp = i * col) -> Mat row col (Gmm i 0 0) (cells b) ->
      exists z' b', mulmm_i T add mul c_r col X Y (row - i, i * c_r, z0, Zp, b)
                    = Ok (row - i - 1, S i * c_r, z', z', b') /\
                    (0 < c_r -> z' = S i * col) /\
                    nwr b' = nwr b + c_r * col /\ Mat row col (Gmm (S i) 0 0) (cells b').
    Proof.
      intros Hi HZ HM. unfold mulmm_i.
      destruct (while_ghost
                  (fun k (s : nat * nat * nat * buf T) =>
                     let '(x, y, z, b1) := s in
                     x = i * c_r + k /\ y = k * col /\ (0 < k -> z = i * col + col) /\
                     nwr b1 = nwr b + k * col /\ Mat row col (Gmm i k 0) (cells b1))
                  c_r (fun '(x, _, _, _) => x <? i * c_r + c_r)
                  (mulmm_k T add mul col X Y Zp (i * c_r + c_r)))
        with (fuel := c_r) (k := 0) (s := (i * c_r, 0, z0, b)) as (s' & Hw & Hinv).
      - intros k [[[x y] z] b1] (-> & -> & Hz & Hn & HM1) Hk. split; [apply Nat.ltb_lt; lia|].
        rewrite HZ by lia.
        destruct (mulmm_k_ok i k z (i * c_r + c_r) b1 Hi Hk HM1) as (b2 & Hr & Hn2 & HM2).
        rewrite Hr. eexists. split; [reflexivity|].
        split; [lia|]. split; [lia|]. split; [reflexivity|]. split; [lia|exact HM2].
      - intros [[[x y] z] b1] (-> & _). apply Nat.ltb_ge; lia.
      - split; [lia|]. split; [reflexivity|]. split; [lia|]. split; [lia|exact HM].
      - lia.
      - lia.
      - destruct s' as [[[x y] z] b1]. destruct Hinv as (-> & -> & Hz & Hn & HM1).
        rewrite Hw. cbn [bind]. exists z, b1.
        split; [f_equal; f_equal; f_equal; f_equal; f_equal; lia|].
        split; [intros; rewrite Hz by lia; lia|]. split; [lia|].
        eapply Mat_ext; [exact HM1|]. intros i' j' Hi' Hj'. unfold Gmm. cmpb.
    Qed.

    Theorem mulmm_ok b0 :
      length (cells b0) = row * col ->
      exists b, mulmm T zero add mul row c_r col X Y b0 = Ok b /\
        nwr b = nwr b0 + row * col + row * c_r * col /\ length (cells b) = row * col /\
        forall i j, i < row -> j < col ->
          get (cells b) (i * col + j) = sum c_r (fun t => mul (get X (i * c_r + t)) (get Y (t * col + j))).
    Proof.
      intros Hlen. unfold mulmm. rewrite (sz_mul_id row col) by u32.
      destruct (zero_out_ok row col b0 Hlen) as (b1 & H1 & Hn1 & HM1).
      rewrite H1. cbn [bind].
      destruct (while_ghost
                  (fun i (s : nat * nat * nat * nat * buf T) =>
                     let '(rr, x, z, Zp, b2) := s in
                     rr = row - i /\ x = i * c_r /\ (0 < c_r -> Zp = i * col) /\
                     nwr b2 = nwr b1 + i * c_r * col /\ Mat row col (Gmm i 0 0) (cells b2))
                  row (fun '(rr, _, _, _, _) => negb (rr =? 0))
                  (mulmm_i T add mul c_r col X Y))
        with (fuel := row) (k := 0) (s := (row, 0, row * col, 0, b1)) as (s' & Hw & Hinv).
      - intros i [[[[rr x] z] Zp] b2] (-> & -> & HZ & Hn & HM2) Hi. split.
        + destruct (Nat.eqb_spec (row - i) 0); [lia|reflexivity].
        + destruct (mulmm_i_ok i z Zp b2 Hi HZ HM2) as (z' & b3 & Hr & HZ' & Hn3 & HM3).
          rewrite Hr. eexists. split; [reflexivity|].
          split; [lia|]. split; [reflexivity|]. split; [exact HZ'|]. split; [nia|exact HM3].
      - intros [[[[rr x] z] Zp] b2] (-> & _). destruct (Nat.eqb_spec (row - row) 0); [reflexivity|lia].
      - split; [lia|]. split; [reflexivity|]. split; [lia|]. split; [lia|].
        eapply Mat_ext; [exact HM1|]. intros i' j' Hi' Hj'. unfold Gmm. cmpb.
      - lia.
      - lia.
      - destruct s' as [[[[rr x] z] Zp] b2]. destruct Hinv as (-> & -> & HZ & Hn & HM2).
        rewrite Hw. cbn [bind]. exists b2. split; [reflexivity|]. split; [lia|].
        split; [apply (Mat_length _ _ _ _ _ _ HM2)|].
        intros i j Hi Hj. rewrite (Mat_nth _ _ _ _ _ _ i j HM2) by lia. unfold Gmm. cmpb.
    Qed.
  End MM.

  (* ---------------------------------------------------------- mulTm *)
  Section TM.
    Variables (c_r row col : nat) (X Y : list T).
    Hypothesis HX : length X = c_r * row.
    Hypothesis HY : length Y = c_r * col.
    Hypothesis Urow : U32 row.
    Hypothesis Ucol : U32 col.

    Definition tTm (i j t : nat) : T := mul (get X (t * row + i)) (get Y (t * col + j)).

    Lemma mulTm_i_ok k i y0 b :
      k < c_r -> i < row -> Mat row col (Gk tTm k i 0) (cells b) ->
      exists b', mulTm_i T add mul col X Y (k * col) (k * col + col) (k * row + i, y0, i * col, b)
                 = Ok (S (k * row + i), k * col + col, i * col + col, b') /\
                 nwr b' = nwr b + col /\ Mat row col (Gk tTm k (S i) 0) (cells b').
    Proof.
      intros Hk Hi HM. unfold mulTm_i.
      destruct (while_ghost
                  (fun j (s : nat * nat * buf T) =>
                     let '(y, z, b1) := s in
                     y = k * col + j /\ z = i * col + j /\ nwr b1 = nwr b + j /\
                     Mat row col (Gk tTm k i j) (cells b1))
                  col (fun '(y, _, _) => y <? k * col + col)
                  (mulTm_j T add mul X Y (k * row + i)))
        with (fuel := col) (k := 0) (s := (k * col, i * col, b)) as (s' & Hw & Hinv).
      - intros j [[y z] b1] (-> & -> & Hn & HM1) Hj. split; [apply Nat.ltb_lt; lia|].
        unfold mulTm_j.
        destruct (mac_ok row col _ X Y (k * row + i) (k * col + j) (i * col + j) b1 i j HM1)
          as (b2 & Hs & Hn2 & HM2); [lia|lia|reflexivity| | |].
        { rewrite HX. apply idx_lt; lia. }
        { rewrite HY. apply idx_lt; lia. }
        rewrite Hs. cbn [bind]. eexists. split; [reflexivity|].
        split; [lia|]. split; [lia|]. split; [lia|].
        eapply Mat_ext; [exact HM2|]. intros i' j' Hi' Hj'. unfold Gk. cmpb.
      - intros [[y z] b1] (-> & _). apply Nat.ltb_ge; lia.
      - split; [lia|]. split; [lia|]. split; [lia|exact HM].
      - lia.
      - lia.
      - destruct s' as [[y z] b1]. destruct Hinv as (-> & -> & Hn & HM1).
        rewrite Hw. cbn [bind]. exists b1. split; [reflexivity|]. split; [exact Hn|].
        eapply Mat_ext; [exact HM1|]. intros i' j' Hi' Hj'. unfold Gk. cmpb.
    Qed.

    Lemma mulTm_k_ok k y0 z0 b :
      k < c_r -> Mat row col (Gk tTm k 0 0) (cells b) ->
      exists y' z' b', mulTm_k T add mul row col X Y (c_r - k, k * row, y0, z0, k * col, b)
                       = Ok (c_r - k - 1, k * row + row, y', z', k * col + col, b') /\
                       nwr b' = nwr b + row * col /\ Mat row col (Gk tTm (S k) 0 0) (cells b').
    Proof.
      intros Hk HM. unfold mulTm_k.
      destruct (while_ghost
                  (fun i (s : nat * nat * nat * buf T) =>
                     let '(x, y, z, b1) := s in
                     x = k * row + i /\ z = i * col /\
                     nwr b1 = nwr b + i * col /\ Mat row col (Gk tTm k i 0) (cells b1))
                  row (fun '(x, _, _, _) => x <? k * row + row)
                  (mulTm_i T add mul col X Y (k * col) (k * col + col)))
        with (fuel := row) (k := 0) (s := (k * row, y0, 0, b)) as (s' & Hw & Hinv).
      - intros i [[[x y] z] b1] (-> & -> & Hn & HM1) Hi. split; [apply Nat.ltb_lt; lia|].
        destruct (mulTm_i_ok k i y b1 Hk Hi HM1) as (b2 & Hr & Hn2 & HM2).
        rewrite Hr. eexists. split; [reflexivity|].
        split; [lia|]. split; [lia|]. split; [lia|exact HM2].
      - intros [[[x y] z] b1] (-> & _). apply Nat.ltb_ge; lia.
      - split; [lia|]. split; [lia|]. split; [lia|exact HM].
      - lia.
      - lia.
      - destruct s' as [[[x y] z] b1]. destruct Hinv as (-> & -> & Hn & HM1).
        rewrite Hw. cbn [bind]. exists y, (row * col), b1.
        split; [reflexivity|]. split; [lia|].
        eapply Mat_ext; [exact HM1|]. intros i' j' Hi' Hj'. unfold Gk. cmpb.
    Qed.

    Theorem mulTm_ok b0 :
      length (cells b0) = row * col ->
      exists b, mulTm T zero add mul c_r row col X Y b0 = Ok b /\
        nwr b = nwr b0 + row * col + c_r * row * col /\ length (cells b) = row * col /\
        forall i j, i < row -> j < col ->
          get (cells b) (i * col + j) = sum c_r (fun t => mul (get X (t * row + i)) (get Y (t * col + j))).
    Proof.
      intros Hlen. unfold mulTm. rewrite (sz_mul_id row col) by u32.
      destruct (zero_out_ok row col b0 Hlen) as (b1 & H1 & Hn1 & HM1).
      rewrite H1. cbn [bind].
      destruct (while_ghost
                  (fun k (s : nat * nat * nat * nat * nat * buf T) =>
                     let '(cr, x, y, z, Yp, b2) := s in
                     cr = c_r - k /\ x = k * row /\ Yp = k * col /\
                     nwr b2 = nwr b1 + k * row * col /\ Mat row col (Gk tTm k 0 0) (cells b2))
                  c_r (fun '(cr, _, _, _, _, _) => negb (cr =? 0))
                  (mulTm_k T add mul row col X Y))
        with (fuel := c_r) (k := 0) (s := (c_r, 0, 0, row * col, 0, b1)) as (s' & Hw & Hinv).
      - intros k [[[[[cr x] y] z] Yp] b2] (-> & -> & -> & Hn & HM2) Hk. split.
        + destruct (Nat.eqb_spec (c_r - k) 0); [lia|reflexivity].
        + destruct (mulTm_k_ok k y z b2 Hk HM2) as (y' & z' & b3 & Hr & Hn3 & HM3).
          rewrite Hr. eexists. split; [reflexivity|].
          split; [lia|]. split; [lia|]. split; [lia|]. split; [nia|exact HM3].
      - intros [[[[[cr x] y] z] Yp] b2] (-> & _).
        destruct (Nat.eqb_spec (c_r - c_r) 0); [reflexivity|lia].
      - split; [lia|]. split; [reflexivity|]. split; [reflexivity|]. split; [lia|].
        eapply Mat_ext; [exact HM1|]. intros i' j' Hi' Hj'. unfold Gk. cmpb.
      - lia.
      - lia.
      - destruct s' as [[[[[cr x] y] z] Yp] b2]. destruct Hinv as (-> & -> & -> & Hn & HM2).
        rewrite Hw. cbn [bind]. exists b2. split; [reflexivity|]. split; [lia|].
        split; [apply (Mat_length _ _ _ _ _ _ HM2)|].
        intros i j Hi Hj. rewrite (Mat_nth _ _ _ _ _ _ i j HM2) by lia. unfold Gk. cmpb.
    Qed.
  End TM.

  (* ---------------------------------------------------------- mulTT *)
  Section TT.
    Variables (row c_r col : nat) (X Y : list T).
    Hypothesis HX : length X = c_r * row.
    Hypothesis HY : length Y = col * c_r.
    Hypothesis Urow : U32 row.
    Hypothesis Ucr : U32 c_r.
    Hypothesis Ucol : U32 col.

    Definition tTT (i j t : nat) : T := mul (get X (t * row + i)) (get Y (j * c_r + t)).

    Lemma mulTT_i_ok k i y0 b :
      k < c_r -> i < row -> Mat row col (Gk tTT k i 0) (cells b) ->
      exists y' b', mulTT_i T add mul c_r col X Y k (col * c_r) (k * row + i, y0, i * col, b)
                    = Ok (S (k * row + i), y', i * col + col, b') /\
                    nwr b' = nwr b + col /\ Mat row col (Gk tTT k (S i) 0) (cells b').
    Proof.
      intros Hk Hi HM. unfold mulTT_i.
      destruct (while_ghost
                  (fun j (s : nat * nat * buf T) =>
                     let '(y, z, b1) := s in
                     y = k + j * c_r /\ z = i * col + j /\ nwr b1 = nwr b + j /\
                     Mat row col (Gk tTT k i j) (cells b1))
                  col (fun '(y, _, _) => y <? col * c_r)
                  (mulTT_j T add mul c_r X Y (k * row + i)))
        with (fuel := col) (k := 0) (s := (k, i * col, b)) as (s' & Hw & Hinv).
      - intros j [[y z] b1] (-> & -> & Hn & HM1) Hj. split; [apply Nat.ltb_lt; nia|].
        unfold mulTT_j.
        destruct (mac_ok row col _ X Y (k * row + i) (k + j * c_r) (i * col + j) b1 i j HM1)
          as (b2 & Hs & Hn2 & HM2); [lia|lia|reflexivity| | |].
        { rewrite HX. apply idx_lt; lia. }
        { rewrite HY. replace (k + j * c_r) with (j * c_r + k) by lia. apply idx_lt; lia. }
        rewrite Hs. cbn [bind]. eexists. split; [reflexivity|].
        split; [lia|]. split; [lia|]. split; [lia|].
        eapply Mat_ext; [exact HM2|]. intros i' j' Hi' Hj'. unfold Gk.
        replace (k + j * c_r) with (j * c_r + k) by lia. cmpb.
      - intros [[y z] b1] (-> & _). apply Nat.ltb_ge; lia.
      - split; [lia|]. split; [lia|]. split; [lia|exact HM].
      - lia.
      - lia.
      - destruct s' as [[y z] b1]. destruct Hinv as (-> & -> & Hn & HM1).
        rewrite Hw. cbn [bind]. exists (k + col * c_r), b1. split; [reflexivity|]. split; [exact Hn|].
        eapply Mat_ext; [exact HM1|]. intros i' j' Hi' Hj'. unfold Gk. cmpb.
    Qed.

    Lemma mulTT_k_ok k y0 z0 b :
      k < c_r -> Mat row col (Gk tTT k 0 0) (cells b) ->
      exists y' z' b', mulTT_k T add mul c_r row col X Y (col * c_r) (c_r - k, k * row, y0, z0, k, b)
                       = Ok (c_r - k - 1, k * row + row, y', z', S k, b') /\
                       nwr b' = nwr b + row * col /\ Mat row col (Gk tTT (S k) 0 0) (cells b').
    Proof.
      intros Hk HM. unfold mulTT_k.
      destruct (while_ghost
                  (fun i (s : nat * nat * nat * buf T) =>
                     let '(x, y, z, b1) := s in
                     x = k * row + i /\ z = i * col /\
                     nwr b1 = nwr b + i * col /\ Mat row col (Gk tTT k i 0) (cells b1))
                  row (fun '(x, _, _, _) => x <? k * row + row)
                  (mulTT_i T add mul c_r col X Y k (col * c_r)))
        with (fuel := row) (k := 0) (s := (k * row, y0, 0, b)) as (s' & Hw & Hinv).
      - intros i [[[x y] z] b1] (-> & -> & Hn & HM1) Hi. split; [apply Nat.ltb_lt; lia|].
        destruct (mulTT_i_ok k i y b1 Hk Hi HM1) as (y' & b2 & Hr & Hn2 & HM2).
        rewrite Hr. eexists. split; [reflexivity|].
        split; [lia|]. split; [lia|]. split; [lia|exact HM2].
      - intros [[[x y] z] b1] (-> & _). apply Nat.ltb_ge; lia.
      - split; [lia|]. split; [lia|]. split; [lia|exact HM].
      - lia.
      - lia.
      - destruct s' as [[[x y] z] b1]. destruct Hinv as (-> & -> & Hn & HM1).
        rewrite Hw. cbn [bind]. exists y, (row * col), b1.
        split; [reflexivity|]. split; [lia|].
        eapply Mat_ext; [exact HM1|]. intros i' j' Hi' Hj'. unfold Gk. cmpb.
    Qed.

    Theorem mulTT_ok b0 :
      length (cells b0) = row * col ->
      exists b, mulTT T zero add mul row c_r col X Y b0 = Ok b /\
        nwr b = nwr b0 + row * col + c_r * row * col /\ length (cells b) = row * col /\
        forall i j, i < row -> j < col ->
          get (cells b) (i * col + j) = sum c_r (fun t => mul (get X (t * row + i)) (get Y (j * c_r + t))).
    Proof.
      intros Hlen. unfold mulTT. rewrite (sz_mul_id row col), (sz_mul_id col c_r) by u32.
      destruct (zero_out_ok row col b0 Hlen) as (b1 & H1 & Hn1 & HM1).
      rewrite H1. cbn [bind].
      destruct (while_ghost
                  (fun k (s : nat * nat * nat * nat * nat * buf T) =>
                     let '(cr, x, y, z, Yp, b2) := s in
                     cr = c_r - k /\ x = k * row /\ Yp = k /\
                     nwr b2 = nwr b1 + k * row * col /\ Mat row col (Gk tTT k 0 0) (cells b2))
                  c_r (fun '(cr, _, _, _, _, _) => negb (cr =? 0))
                  (mulTT_k T add mul c_r row col X Y (col * c_r)))
        with (fuel := c_r) (k := 0) (s := (c_r, 0, 0, row * col, 0, b1)) as (s' & Hw & Hinv).
      - intros k [[[[[cr x] y] z] Yp] b2] (-> & -> & -> & Hn & HM2) Hk. split.
        + destruct (Nat.eqb_spec (c_r - k) 0); [lia|reflexivity].
        + destruct (mulTT_k_ok k y z b2 Hk HM2) as (y' & z' & b3 & Hr & Hn3 & HM3).
          rewrite Hr. eexists. split; [reflexivity|].
          split; [lia|]. split; [lia|]. split; [lia|]. split; [nia|exact HM3].
      - intros [[[[[cr x] y] z] Yp] b2] (-> & _).
        destruct (Nat.eqb_spec (c_r - c_r) 0); [reflexivity|lia].
      - split; [lia|]. split; [reflexivity|]. split; [reflexivity|]. split; [lia|].
        eapply Mat_ext; [exact HM1|]. intros i' j' Hi' Hj'. unfold Gk. cmpb.
      - lia.
      - lia.
      - destruct s' as [[[[[cr x] y] z] Yp] b2]. destruct Hinv as (-> & -> & -> & Hn & HM2).
        rewrite Hw. cbn [bind]. exists b2. split; [reflexivity|]. split; [lia|].
        split; [apply (Mat_length _ _ _ _ _ _ HM2)|].
        intros i j Hi Hj. rewrite (Mat_nth _ _ _ _ _ _ i j HM2) by lia. unfold Gk. cmpb.
    Qed.
  End TT.

  (* ---------------------------------------------------------- mulmT *)
  Section MT.
    Variables (row col c_r : nat) (X Y : list T).
    Hypothesis HX : length X = row * c_r.
    Hypothesis HY : length Y = col * c_r.
    Hypothesis Urow : U32 row.
    Hypothesis Ucol : U32 col.
    Hypothesis Ucr : U32 c_r.

    Definition tmT (i j t : nat) : T := mul (get X (i * c_r + t)) (get Y (j * c_r + t)).

    Definition GmT (i j k i' j' : nat) : T :=
      if (i' <? i) || ((i' =? i) && (j' <? j)) then sum c_r (tmT i' j')
      else if (i' =? i) && (j' =? j) then sum k (tmT i' j') else zero.

    Lemma mulmT_j_ok i j x0 b :
      i < row -> j < col -> Mat row col (GmT i j 0) (cells b) ->
      exists b', mulmT_j T add mul c_r X Y (i * c_r) (i * c_r + c_r) (x0, j * c_r, i * col + j, b)
                 = Ok (i * c_r + c_r, j * c_r + c_r, S (i * col + j), b') /\
                 nwr b' = nwr b + c_r /\ Mat row col (GmT i (S j) 0) (cells b').
    Proof.
      intros Hi Hj HM. unfold mulmT_j.
      destruct (while_ghost
                  (fun k (s : nat * nat * buf T) =>
                     let '(x, y, b1) := s in
                     x = i * c_r + k /\ y = j * c_r + k /\ nwr b1 = nwr b + k /\
                     Mat row col (GmT i j k) (cells b1))
                  c_r (fun '(x, _, _) => x <? i * c_r + c_r)
                  (mulmT_k T add mul X Y (i * col + j)))
        with (fuel := c_r) (k := 0) (s := (i * c_r, j * c_r, b)) as (s' & Hw & Hinv).
      - intros k [[x y] b1] (-> & -> & Hn & HM1) Hk. split; [apply Nat.ltb_lt; lia|].
        unfold mulmT_k.
        destruct (mac_ok row col _ X Y (i * c_r + k) (j * c_r + k) (i * col + j) b1 i j HM1)
          as (b2 & Hs & Hn2 & HM2); [lia|lia|reflexivity| | |].
        { rewrite HX. apply idx_lt; lia. }
        { rewrite HY. apply idx_lt; lia. }
        rewrite Hs. cbn [bind]. eexists. split; [reflexivity|].
        split; [lia|]. split; [lia|]. split; [lia|].
        eapply Mat_ext; [exact HM2|]. intros i' j' Hi' Hj'. unfold GmT. cmpb.
      - intros [[x y] b1] (-> & _). apply Nat.ltb_ge; lia.
      - split; [lia|]. split; [lia|]. split; [lia|exact HM].
      - lia.
      - lia.
      - destruct s' as [[x y] b1]. destruct Hinv as (-> & -> & Hn & HM1).
        rewrite Hw. cbn [bind]. exists b1. split; [reflexivity|]. split; [exact Hn|].
        eapply Mat_ext; [exact HM1|]. intros i' j' Hi' Hj'. unfold GmT. cmpb.
    Qed.

    Lemma mulmT_i_ok i x0 y0 z b :
      i < row -> (0 < c_r -> z = i * col) -> Mat row col (GmT i 0 0) (cells b) ->
      exists x' y' z' b', mulmT_i T add mul col c_r X Y (col * c_r) (row - i, x0, y0, z, i * c_r, b)
                          = Ok (row - i - 1, x', y', z', i * c_r + c_r, b') /\
                          (0 < c_r -> z' = S i * col) /\
                          nwr b' = nwr b + col * c_r /\ Mat row col (GmT (S i) 0 0) (cells b').
    Proof.
      intros Hi Hz HM. unfold mulmT_i.
      destruct (Nat.eq_dec c_r 0) as [E0|Hpos].
      - (* inner dimension 0: y_ = Y, the loop over columns does not run, nothing is stored *)
        rewrite while_false by (apply Nat.ltb_ge; lia). cbn [bind].
        exists x0, 0, z, b. split; [reflexivity|]. split; [lia|]. split; [nia|].
        eapply Mat_ext; [exact HM|]. intros i' j' Hi' Hj'. unfold GmT. rewrite E0. cmpb.
      - rewrite Hz by lia.
        destruct (while_ghost
                    (fun j (s : nat * nat * nat * buf T) =>
                       let '(x, y, z1, b1) := s in
                       y = j * c_r /\ z1 = i * col + j /\
                       nwr b1 = nwr b + j * c_r /\ Mat row col (GmT i j 0) (cells b1))
                    col (fun '(_, y, _, _) => y <? col * c_r)
                    (mulmT_j T add mul c_r X Y (i * c_r) (i * c_r + c_r)))
          with (fuel := col) (k := 0) (s := (x0, 0, i * col, b)) as (s' & Hw & Hinv).
        + intros j [[[x y] z1] b1] (-> & -> & Hn & HM1) Hj. split; [apply Nat.ltb_lt; nia|].
          destruct (mulmT_j_ok i j x b1 Hi Hj HM1) as (b2 & Hr & Hn2 & HM2).
          rewrite Hr. eexists. split; [reflexivity|].
          split; [lia|]. split; [lia|]. split; [lia|exact HM2].
        + intros [[[x y] z1] b1] (-> & _). apply Nat.ltb_ge; lia.
        + split; [lia|]. split; [lia|]. split; [lia|exact HM].
        + lia.
        + lia.
        + destruct s' as [[[x y] z1] b1]. destruct Hinv as (-> & -> & Hn & HM1).
          rewrite Hw. cbn [bind]. exists x, (col * c_r), (i * col + col), b1.
          split; [reflexivity|]. split; [lia|]. split; [lia|].
          eapply Mat_ext; [exact HM1|]. intros i' j' Hi' Hj'. unfold GmT. cmpb.
    Qed.

    Theorem mulmT_ok b0 :
      length (cells b0) = row * col ->
      exists b, mulmT T zero add mul row col c_r X Y b0 = Ok b /\
        nwr b = nwr b0 + row * col + row * col * c_r /\ length (cells b) = row * col /\
        forall i j, i < row -> j < col ->
          get (cells b) (i * col + j) = sum c_r (fun t => mul (get X (i * c_r + t)) (get Y (j * c_r + t))).
    Proof.
      intros Hlen. unfold mulmT. rewrite (sz_mul_id row col), (sz_mul_id col c_r) by u32.
      destruct (zero_out_ok row col b0 Hlen) as (b1 & H1 & Hn1 & HM1).
      rewrite H1. cbn [bind].
      destruct (while_ghost
                  (fun i (s : nat * nat * nat * nat * nat * buf T) =>
                     let '(rr, x, y, z, Xp, b2) := s in
                     rr = row - i /\ Xp = i * c_r /\ (0 < c_r -> z = i * col) /\
                     nwr b2 = nwr b1 + i * col * c_r /\ Mat row col (GmT i 0 0) (cells b2))
                  row (fun '(rr, _, _, _, _, _) => negb (rr =? 0))
                  (mulmT_i T add mul col c_r X Y (col * c_r)))
        with (fuel := row) (k := 0) (s := (row, 0, 0, 0, 0, b1)) as (s' & Hw & Hinv).
      - intros i [[[[[rr x] y] z] Xp] b2] (-> & -> & Hz & Hn & HM2) Hi. split.
        + destruct (Nat.eqb_spec (row - i) 0); [lia|reflexivity].
        + destruct (mulmT_i_ok i x y z b2 Hi Hz HM2) as (x' & y' & z' & b3 & Hr & Hz' & Hn3 & HM3).
          rewrite Hr. eexists. split; [reflexivity|].
          split; [lia|]. split; [lia|]. split; [exact Hz'|]. split; [nia|exact HM3].
      - intros [[[[[rr x] y] z] Xp] b2] (-> & _).
        destruct (Nat.eqb_spec (row - row) 0); [reflexivity|lia].
      - split; [lia|]. split; [reflexivity|]. split; [lia|]. split; [lia|].
        eapply Mat_ext; [exact HM1|]. intros i' j' Hi' Hj'. unfold GmT. cmpb.
      - lia.
      - lia.
      - destruct s' as [[[[[rr x] y] z] Xp] b2]. destruct Hinv as (-> & -> & Hz & Hn & HM2).
        rewrite Hw. cbn [bind]. exists b2. split; [reflexivity|]. split; [lia|].
        split; [apply (Mat_length _ _ _ _ _ _ HM2)|].
        intros i j Hi Hj. rewrite (Mat_nth _ _ _ _ _ _ i j HM2) by lia. unfold GmT. cmpb.
    Qed.
  End MT.

End MulP.
