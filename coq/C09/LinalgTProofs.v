(* C09 - transposes (T1 in place, T2 out of place), diag / diag1 / diag2.
   Arbitrary element type, no algebraic law needed. *)
From Coq Require Import List Arith Bool Lia NArith.
From LibaV Require Import C09.LinalgDefs C09.LinalgSpec C09.LinalgLemmas.
Import ListNotations.

Ltac cmpb :=
  repeat (match goal with
          | |- context [?a =? ?b] => destruct (Nat.eqb_spec a b)
          | |- context [?a <=? ?b] => destruct (Nat.leb_spec a b)
          | |- context [?a <? ?b] => destruct (Nat.ltb_spec a b)
          end; cbn [andb orb negb]);
  try reflexivity; try lia;
  try (match goal with
       | |- nth (?i * _ + ?j) _ _ = nth (?j * _ + ?i) _ _ =>
           assert (i = j) by lia; subst; reflexivity
       end);
  try (subst; reflexivity).

(* discharge [U32 x] from a hypothesis [U32 y] with x <= y *)
Ltac u32 :=
  match goal with
  | H : U32 ?b |- U32 ?a => apply (U32_mono a b); [lia|exact H]
  | H : U32 ?b |- (N.of_nat ?a <= 4294967296)%N => apply U32_le; apply (U32_mono a b); [lia|exact H]
  end.

Lemma amin_min m n : amin m n = Nat.min m n.
Proof. unfold amin. destruct (Nat.ltb_spec m n); lia. Qed.

Section TP.
  Variable T : Type.
  Variable zero : T.

  Local Notation get l k := (nth k l zero).
  Local Notation Mat := (Mat T zero).

  (* ------------------------------------------------------------ T2 *)
  (* T is n x m (row i, column j), A is m x n *)
  Definition G2 (m n : nat) (A T0 : list T) (c k i j : nat) : T :=
    if (i <? c) || ((i =? c) && (j <? k)) then get A (j * n + i) else get T0 (i * m + j).

  Lemma T2_col_ok m n A T0 c b :
    U32 m -> U32 n ->
    c < n -> length A = m * n -> Mat n m (G2 m n A T0 c 0) (cells b) ->
    exists b', T2_col T m n A (c, b) = Ok (S c, b') /\ nwr b' = nwr b + m /\
               Mat n m (G2 m n A T0 (S c) 0) (cells b').
  Proof.
    intros Um Un Hc HA HM. unfold T2_col.
    destruct (while_ghost
                (fun k (s : nat * buf T) =>
                   let '(r, b1) := s in
                   r = k /\ nwr b1 = nwr b + k /\ Mat n m (G2 m n A T0 c k) (cells b1))
                m (fun '(r, _) => r <? m) (T2_inner T m n c A))
      with (fuel := m) (k := 0) (s := (0, b)) as (s' & Hw & Hi).
    - intros k [r b1] (-> & Hn & HM1) Hk. split; [apply Nat.ltb_lt; lia|].
      unfold T2_inner.
      rewrite (sz_mul_id n k), (sz_mul_id m c) by u32.
      rewrite (sz_add_id (n * k) c m n), (sz_add_id (m * c) k n m) by (try nia; assumption).
      replace (n * k + c) with (k * n + c) by lia.
      rewrite (load_ok T zero) by (rewrite HA; apply idx_lt; lia). cbn [bind].
      destruct (Mat_store T zero n m _ b1 c k (m * c + k) (get A (k * n + c)) HM1)
        as (b2 & Hs & Hn2 & HM2); [lia|lia|lia|].
      rewrite Hs. cbn [bind]. eexists. split; [reflexivity|].
      split; [reflexivity|]. split; [lia|].
      eapply Mat_ext; [exact HM2|]. intros i j Hi Hj. unfold G2. cmpb.
    - intros [r b1] (-> & _). apply Nat.ltb_ge; lia.
    - split; [reflexivity|]. split; [lia|exact HM].
    - lia.
    - lia.
    - destruct s' as [r b1]. destruct Hi as (-> & Hn & HM1).
      rewrite Hw. cbn [bind]. exists b1. split; [reflexivity|]. split; [exact Hn|].
      eapply Mat_ext; [exact HM1|]. intros i j Hi Hj. unfold G2. cmpb.
  Qed.

  Theorem T2_ok m n A b0 :
    U32 m -> U32 n ->
    length A = m * n -> length (cells b0) = n * m ->
    exists b, T2 T m n A b0 = Ok b /\ nwr b = nwr b0 + n * m /\ length (cells b) = n * m /\
      forall r c, r < m -> c < n -> get (cells b) (c * m + r) = get A (r * n + c).
  Proof.
    intros Um Un HA Hlen. unfold T2.
    destruct (while_ghost
                (fun k (s : nat * buf T) =>
                   let '(c, b1) := s in
                   c = k /\ nwr b1 = nwr b0 + k * m /\ Mat n m (G2 m n A (cells b0) k 0) (cells b1))
                n (fun '(c, _) => c <? n) (T2_col T m n A))
      with (fuel := n) (k := 0) (s := (0, b0)) as (s' & Hw & Hi).
    - intros k [c b1] (-> & Hn & HM1) Hk. split; [apply Nat.ltb_lt; lia|].
      destruct (T2_col_ok m n A (cells b0) k b1 Um Un Hk HA HM1) as (b2 & Hr & Hn2 & HM2).
      rewrite Hr. eexists. split; [reflexivity|]. split; [reflexivity|]. split; [lia|exact HM2].
    - intros [c b1] (-> & _). apply Nat.ltb_ge; lia.
    - split; [reflexivity|]. split; [lia|].
      eapply Mat_ext; [apply Mat_of_list; exact Hlen|]. intros i j Hi Hj. unfold G2. cmpb.
    - lia.
    - lia.
    - destruct s' as [c b1]. destruct Hi as (-> & Hn & HM1).
      rewrite Hw. cbn [bind]. exists b1. split; [reflexivity|]. split; [exact Hn|].
      split; [apply (Mat_length _ _ _ _ _ _ HM1)|].
      intros r c Hr Hc. rewrite (Mat_nth _ _ _ _ _ _ c r HM1) by lia. unfold G2. cmpb.
  Qed.

  (* ------------------------------------------------------------ T1 *)
  (* cell (i,j) has been exchanged with (j,i) once the pair {i,j} was visited:
     rows < r completely, row r up to column r + k *)
  Definition G1 (n : nat) (A0 : list T) (r k i j : nat) : T :=
    if (Nat.min i j <? r) || ((Nat.min i j =? r) && (Nat.max i j <? r + 1 + k))
    then get A0 (j * n + i) else get A0 (i * n + j).

  Lemma T1_row_ok n A0 r b :
    U32 n -> r < n -> Mat n n (G1 n A0 r 0) (cells b) ->
    exists b', T1_row T n (r, b) = Ok (S r, b') /\ nwr b' = nwr b + 2 * (n - 1 - r) /\
               Mat n n (G1 n A0 (S r) 0) (cells b').
  Proof.
    intros Un Hr HM. unfold T1_row.
    rewrite (u32_inc_id r n Hr Un).
    destruct (while_ghost
                (fun k (s : nat * buf T) =>
                   let '(c, b1) := s in
                   c = r + 1 + k /\ nwr b1 = nwr b + 2 * k /\ Mat n n (G1 n A0 r k) (cells b1))
                (n - 1 - r) (fun '(c, _) => c <? n) (T1_inner T n r))
      with (fuel := n) (k := 0) (s := (r + 1, b)) as (s' & Hw & Hi).
    - intros k [c b1] (-> & Hn & HM1) Hk. split; [apply Nat.ltb_lt; lia|].
      unfold T1_inner.
      rewrite (sz_mul_id n r), (sz_mul_id n (r + 1 + k)) by u32.
      rewrite (Mat_load T zero n n _ _ (r + 1 + k) r _ HM1) by lia. cbn [bind].
      rewrite (Mat_load T zero n n _ _ r (r + 1 + k) _ HM1) by lia. cbn [bind].
      assert (E1 : G1 n A0 r k (r + 1 + k) r = get A0 ((r + 1 + k) * n + r)) by (unfold G1; cmpb).
      assert (E2 : G1 n A0 r k r (r + 1 + k) = get A0 (r * n + (r + 1 + k))) by (unfold G1; cmpb).
      rewrite E1, E2.
      destruct (Mat_store T zero n n _ b1 (r + 1 + k) r (n * (r + 1 + k) + r)
                          (get A0 (r * n + (r + 1 + k))) HM1)
        as (b2 & Hs2 & Hn2 & HM2); [lia|lia|lia|].
      rewrite Hs2. cbn [bind].
      destruct (Mat_store T zero n n _ b2 r (r + 1 + k) (n * r + (r + 1 + k))
                          (get A0 ((r + 1 + k) * n + r)) HM2)
        as (b3 & Hs3 & Hn3 & HM3); [lia|lia|lia|].
      rewrite Hs3. cbn [bind]. eexists. split; [reflexivity|].
      split; [lia|]. split; [lia|].
      eapply Mat_ext; [exact HM3|]. intros i j Hi Hj. unfold G1. cmpb.
    - intros [c b1] (-> & _). apply Nat.ltb_ge; lia.
    - split; [lia|]. split; [lia|exact HM].
    - lia.
    - lia.
    - destruct s' as [c b1]. destruct Hi as (-> & Hn & HM1).
      rewrite Hw. cbn [bind]. exists b1. split; [reflexivity|]. split; [exact Hn|].
      eapply Mat_ext; [exact HM1|]. intros i j Hi Hj. unfold G1. cmpb.
  Qed.

  (* number of exchanged pairs after r rows *)
  Fixpoint tcount (n r : nat) : nat :=
    match r with O => O | S r' => tcount n r' + (n - 1 - r') end.

  Lemma tcount_closed n r : r <= n -> 2 * tcount n r + r * r + r = 2 * r * n.
  Proof. induction r as [|r IH]; intros H; simpl; [lia|]. specialize (IH ltac:(lia)). nia. Qed.

  Theorem T1_ok n b0 :
    U32 n -> length (cells b0) = n * n ->
    exists b, T1 T n b0 = Ok b /\ nwr b + n = nwr b0 + n * n /\ length (cells b) = n * n /\
      forall r c, r < n -> c < n -> get (cells b) (r * n + c) = get (cells b0) (c * n + r).
  Proof.
    intros Un Hlen. unfold T1.
    destruct (while_ghost
                (fun k (s : nat * buf T) =>
                   let '(r, b1) := s in
                   r = k /\ nwr b1 = nwr b0 + 2 * tcount n k /\ Mat n n (G1 n (cells b0) k 0) (cells b1))
                n (fun '(r, _) => r <? n) (T1_row T n))
      with (fuel := n) (k := 0) (s := (0, b0)) as (s' & Hw & Hi).
    - intros k [r b1] (-> & Hn & HM1) Hk. split; [apply Nat.ltb_lt; lia|].
      destruct (T1_row_ok n (cells b0) k b1 Un Hk HM1) as (b2 & Hr & Hn2 & HM2).
      rewrite Hr. eexists. split; [reflexivity|]. split; [reflexivity|].
      split; [simpl; lia|exact HM2].
    - intros [r b1] (-> & _). apply Nat.ltb_ge; lia.
    - split; [reflexivity|]. split; [simpl; lia|].
      eapply Mat_ext; [apply Mat_of_list; exact Hlen|]. intros i j Hi Hj. unfold G1. cmpb.
    - lia.
    - lia.
    - destruct s' as [r b1]. destruct Hi as (-> & Hn & HM1).
      rewrite Hw. cbn [bind]. exists b1. split; [reflexivity|].
      split; [pose proof (tcount_closed n n (le_n n)); nia|].
      split; [apply (Mat_length _ _ _ _ _ _ HM1)|].
      intros r c Hr Hc. rewrite (Mat_nth _ _ _ _ _ _ r c HM1) by lia. unfold G1. cmpb.
  Qed.

  (* -------------------------------------------------- involutions *)
  Theorem T2_involutive m n A b0 b1 :
    U32 m -> U32 n -> length A = m * n -> length (cells b0) = n * m -> length (cells b1) = m * n ->
    exists t u, T2 T m n A b0 = Ok t /\ T2 T n m (cells t) b1 = Ok u /\ cells u = A.
  Proof.
    intros Um Un HA H0 H1.
    destruct (T2_ok m n A b0 Um Un HA H0) as (t & Ht & _ & Hlt & Hvt).
    destruct (T2_ok n m (cells t) b1 Un Um Hlt H1) as (u & Hu & _ & Hlu & Hvu).
    exists t, u. split; [exact Ht|]. split; [exact Hu|].
    apply (mat_ext T zero m n); [exact Hlu|exact HA|].
    intros r c Hr Hc. rewrite Hvu by assumption. apply Hvt; assumption.
  Qed.

  Theorem T1_involutive n b0 :
    U32 n -> length (cells b0) = n * n ->
    exists b1 b2, T1 T n b0 = Ok b1 /\ T1 T n b1 = Ok b2 /\ cells b2 = cells b0.
  Proof.
    intros Un H0.
    destruct (T1_ok n b0 Un H0) as (b1 & H1 & _ & Hl1 & Hv1).
    destruct (T1_ok n b1 Un Hl1) as (b2 & H2 & _ & Hl2 & Hv2).
    exists b1, b2. split; [exact H1|]. split; [exact H2|].
    apply (mat_ext T zero n n); [exact Hl2|exact H0|].
    intros r c Hr Hc. rewrite Hv2 by assumption. apply Hv1; assumption.
  Qed.

  (* on square matrices the in-place and the out-of-place transpose agree *)
  Theorem T1_T2_agree n A w b0 :
    U32 n -> length A = n * n -> length (cells b0) = n * n ->
    exists b1 b2, T1 T n (mkbuf A w) = Ok b1 /\ T2 T n n A b0 = Ok b2 /\ cells b1 = cells b2.
  Proof.
    intros Un HA H0.
    destruct (T1_ok n (mkbuf A w) Un HA) as (b1 & H1 & _ & Hl1 & Hv1).
    destruct (T2_ok n n A b0 Un Un HA H0) as (b2 & H2 & _ & Hl2 & Hv2).
    exists b1, b2. split; [exact H1|]. split; [exact H2|].
    apply (mat_ext T zero n n); [exact Hl1|exact Hl2|].
    intros r c Hr Hc. rewrite Hv1, Hv2 by assumption. reflexivity.
  Qed.

  (* -------------------------------------------------- diag1, diag2 *)
  Lemma diag_get_loop n m A M b0 :
    U32 n -> length A = m * n -> M <= m -> M <= n -> length (cells b0) = M ->
    exists b, while M (fun '(i, _) => i <? M) (diag_get T n A) (0, b0) = Ok (M, b) /\
              nwr b = nwr b0 + M /\ length (cells b) = M /\
              forall i, i < M -> get (cells b) i = get A (i * n + i).
  Proof.
    intros Un HA HMm HMn Hlen.
    destruct (sz_succ_id n Un) as [EN HN].
    destruct (while_ghost
                (fun k (s : nat * buf T) =>
                   let '(i, b1) := s in
                   i = k /\ SeqInv T zero (fun i => get A (i * n + i)) b0 k b1)
                M (fun '(i, _) => i <? M) (diag_get T n A))
      with (fuel := M) (k := 0) (s := (0, b0)) as (s' & Hw & Hi).
    - intros k [i b1] (-> & I1) Hk. split; [apply Nat.ltb_lt; lia|].
      unfold diag_get. rewrite EN, (sz_mul_id (n + 1) k HN) by u32.
      replace ((n + 1) * k) with (k * n + k) by lia.
      rewrite (load_ok T zero) by (rewrite HA; apply idx_lt; lia). cbn [bind].
      destruct (store_seq T zero _ b0 k b1 (get A (k * n + k)) I1) as (b2 & Hs & I2); [lia|reflexivity|].
      rewrite Hs. cbn [bind]. eexists. split; [reflexivity|]. split; [reflexivity|exact I2].
    - intros [i b1] (-> & _). apply Nat.ltb_ge; lia.
    - split; [reflexivity|apply SeqInv_init].
    - lia.
    - lia.
    - destruct s' as [i b1]. destruct Hi as (-> & (Hl & Hn & Hlo & _)).
      exists b1. split; [exact Hw|]. split; [exact Hn|]. split; [congruence|exact Hlo].
  Qed.

  Theorem diag1_ok n A b0 :
    U32 n -> length A = n * n -> length (cells b0) = n ->
    exists b, diag1 T n A b0 = Ok b /\ nwr b = nwr b0 + n /\ length (cells b) = n /\
      forall i, i < n -> get (cells b) i = get A (i * n + i).
  Proof.
    intros Un HA Hlen. unfold diag1.
    destruct (diag_get_loop n n A n b0 Un HA (le_n n) (le_n n) Hlen) as (b & Hw & H).
    rewrite Hw. cbn [bind]. exists b. split; [reflexivity|exact H].
  Qed.

  Theorem diag2_ok m n A b0 :
    U32 n -> length A = m * n -> length (cells b0) = Nat.min m n ->
    exists b, diag2 T m n A b0 = Ok b /\ nwr b = nwr b0 + Nat.min m n /\
      length (cells b) = Nat.min m n /\
      forall i, i < Nat.min m n -> get (cells b) i = get A (i * n + i).
  Proof.
    intros Un HA Hlen. unfold diag2. rewrite amin_min.
    destruct (diag_get_loop n m A (Nat.min m n) b0 Un HA (Nat.le_min_l m n) (Nat.le_min_r m n) Hlen)
      as (b & Hw & H).
    rewrite Hw. cbn [bind]. exists b. split; [reflexivity|exact H].
  Qed.

  (* ---------------------------------------------------------- diag *)
  Definition Gd1 (n : nat) (a C0 : list T) (k i j : nat) : T :=
    if (i =? j) && (i <? k) then get a i else get C0 (i * n + j).

  Definition Gd2 (n : nat) (a C0 : list T) (r c i j : nat) : T :=
    if i =? j then get a i
    else if (i <? r) || ((i =? r) && (j <? c)) then zero
         else get C0 (i * n + j).

  (* for (...; c < hi; ++c) A[c] = 0   on row r, columns [c0, hi) not containing r *)
  Lemma diag_zero_loop n a C0 r c0 hi fuel b :
    r < n -> c0 <= hi -> hi <= n -> (hi <= r \/ r < c0) -> hi - c0 <= fuel ->
    Mat n n (Gd2 n a C0 r c0) (cells b) ->
    exists b', while fuel (fun '(c, _) => c <? hi) (diag_zero T zero (r * n)) (c0, b) = Ok (hi, b') /\
               nwr b' = nwr b + (hi - c0) /\ Mat n n (Gd2 n a C0 r hi) (cells b').
  Proof.
    intros Hr Hc Hhi Hnr Hf HM.
    destruct (while_ghost
                (fun k (s : nat * buf T) =>
                   let '(c, b1) := s in
                   c = c0 + k /\ nwr b1 = nwr b + k /\ Mat n n (Gd2 n a C0 r (c0 + k)) (cells b1))
                (hi - c0) (fun '(c, _) => c <? hi) (diag_zero T zero (r * n)))
      with (fuel := fuel) (k := 0) (s := (c0, b)) as (s' & Hw & Hi).
    - intros k [c b1] (-> & Hn & HM1) Hk. split; [apply Nat.ltb_lt; lia|].
      unfold diag_zero.
      destruct (Mat_store T zero n n _ b1 r (c0 + k) (r * n + (c0 + k)) zero HM1)
        as (b2 & Hs & Hn2 & HM2); [lia|lia|lia|].
      rewrite Hs. cbn [bind]. eexists. split; [reflexivity|].
      split; [lia|]. split; [lia|].
      eapply Mat_ext; [exact HM2|]. intros i j Hi Hj. unfold Gd2. cmpb.
    - intros [c b1] (-> & _). apply Nat.ltb_ge; lia.
    - split; [lia|]. split; [lia|]. replace (c0 + 0) with c0 by lia. exact HM.
    - lia.
    - lia.
    - destruct s' as [c b1]. destruct Hi as (-> & Hn & HM1).
      replace (c0 + (hi - c0)) with hi in * by lia.
      exists b1. split; [exact Hw|]. split; [exact Hn|exact HM1].
  Qed.

  Lemma diag_row_ok n a C0 r b :
    r < n -> Mat n n (Gd2 n a C0 r 0) (cells b) ->
    exists b', diag_row T zero n (r, r * n, b) = Ok (S r, S r * n, b') /\
               nwr b' + 1 = nwr b + n /\ Mat n n (Gd2 n a C0 (S r) 0) (cells b').
  Proof.
    intros Hr HM. unfold diag_row.
    destruct (diag_zero_loop n a C0 r 0 r r b Hr) as (b1 & H1 & Hn1 & HM1);
      [lia|lia|lia|lia|exact HM|].
    rewrite H1. cbn [bind].
    destruct (diag_zero_loop n a C0 r (S r) n n b1 Hr) as (b2 & H2 & Hn2 & HM2);
      [lia|lia|lia|lia| |].
    { eapply Mat_ext; [exact HM1|]. intros i j Hi Hj. unfold Gd2. cmpb. }
    rewrite H2. cbn [bind]. exists b2. split; [f_equal; f_equal; f_equal; lia|].
    split; [lia|].
    eapply Mat_ext; [exact HM2|]. intros i j Hi Hj. unfold Gd2. cmpb.
  Qed.

  Theorem diag_ok n a b0 :
    U32 n -> length a = n -> length (cells b0) = n * n ->
    exists b, diag T zero n a b0 = Ok b /\ nwr b = nwr b0 + n * n /\ length (cells b) = n * n /\
      forall r c, r < n -> c < n -> get (cells b) (r * n + c) = if r =? c then get a r else zero.
  Proof.
    intros Un Ha Hlen. unfold diag.
    destruct (sz_succ_id n Un) as [EN HN].
    (* first loop: the diagonal *)
    destruct (while_ghost
                (fun k (s : nat * buf T) =>
                   let '(r, b1) := s in
                   r = k /\ nwr b1 = nwr b0 + k /\ Mat n n (Gd1 n a (cells b0) k) (cells b1))
                n (fun '(r, _) => r <? n) (diag_set T n a))
      with (fuel := n) (k := 0) (s := (0, b0)) as (s1 & Hw1 & Hi1).
    { intros k [r b1] (-> & Hn & HM1) Hk. split; [apply Nat.ltb_lt; lia|].
      unfold diag_set. rewrite EN, (sz_mul_id (n + 1) k HN) by u32.
      rewrite (load_ok T zero) by lia. cbn [bind].
      destruct (Mat_store T zero n n _ b1 k k ((n + 1) * k) (get a k) HM1)
        as (b2 & Hs & Hn2 & HM2); [lia|lia|lia|].
      rewrite Hs. cbn [bind]. eexists. split; [reflexivity|].
      split; [reflexivity|]. split; [lia|].
      eapply Mat_ext; [exact HM2|]. intros i j Hi Hj. unfold Gd1. cmpb. }
    { intros [r b1] (-> & _). apply Nat.ltb_ge; lia. }
    { split; [reflexivity|]. split; [lia|].
      eapply Mat_ext; [apply Mat_of_list; exact Hlen|]. intros i j Hi Hj. unfold Gd1. cmpb. }
    { lia. }
    { lia. }
    destruct s1 as [r1 b1]. destruct Hi1 as (-> & Hn1 & HM1).
    rewrite Hw1. cbn [bind].
    (* second loop: the rows *)
    destruct (while_ghost
                (fun k (s : nat * nat * buf T) =>
                   let '(r, Ap, b2) := s in
                   r = k /\ Ap = k * n /\ nwr b2 + k = nwr b1 + k * n /\
                   Mat n n (Gd2 n a (cells b0) k 0) (cells b2))
                n (fun '(r, _, _) => r <? n) (diag_row T zero n))
      with (fuel := n) (k := 0) (s := (0, 0, b1)) as (s2 & Hw2 & Hi2).
    { intros k [[r Ap] b2] (-> & -> & Hn & HM2) Hk. split; [apply Nat.ltb_lt; lia|].
      destruct (diag_row_ok n a (cells b0) k b2 Hk HM2) as (b3 & Hr & Hn3 & HM3).
      rewrite Hr. eexists. split; [reflexivity|]. split; [reflexivity|]. split; [reflexivity|].
      split; [nia|exact HM3]. }
    { intros [[r Ap] b2] (-> & _). apply Nat.ltb_ge; lia. }
    { split; [reflexivity|]. split; [reflexivity|]. split; [lia|].
      eapply Mat_ext; [exact HM1|]. intros i j Hi Hj. unfold Gd1, Gd2. cmpb. }
    { lia. }
    { lia. }
    destruct s2 as [[r2 Ap2] b2]. destruct Hi2 as (-> & -> & Hn2 & HM2).
    rewrite Hw2. cbn [bind]. exists b2. split; [reflexivity|].
    split; [lia|]. split; [apply (Mat_length _ _ _ _ _ _ HM2)|].
    intros r c Hr Hc. rewrite (Mat_nth _ _ _ _ _ _ r c HM2) by lia. unfold Gd2. cmpb.
  Qed.

End TP.
