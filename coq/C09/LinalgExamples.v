(* C09 - non-vacuity examples: for every theorem of Properties_C09.v a concrete, non-trivial
   state that satisfies its hypotheses (array lengths matching the dimensions, stale contents
   in the result array), together with the value the model computes on it (Z instance,
   evaluated by vm_compute).  Shapes include m<n, m>n and inner dimension one.
   Generated once from checks/C09.py's reference definitions; the expected results are the
   mathematically specified ones. *)
From Coq Require Import List Arith NArith ZArith.
From LibaV Require Import C09.LinalgDefs C09.LinalgSpec C09.LinalgWide C09.LinalgWideProofs.
Import ListNotations.

Example ex_T1_3 :
  let b0 := mkbuf [100; 200; 300; 400; 500; 600; 700; 800; 900]%Z 7 in
  length (cells b0) = 9 /\
  T1 Z 3 b0 = Ok (mkbuf [100; 400; 700; 200; 500; 800; 300; 600; 900]%Z 13).
Proof. vm_compute. repeat split. Qed.

Example ex_eye1_3 :
  let b0 := mkbuf [100; 200; 300; 400; 500; 600; 700; 800; 900]%Z 7 in
  length (cells b0) = 9 /\
  eye1 Z 0%Z 1%Z 3 b0 = Ok (mkbuf [1; 0; 0; 0; 1; 0; 0; 0; 1]%Z 16).
Proof. vm_compute. repeat split. Qed.

Example ex_tri1_3 :
  let b0 := mkbuf [100; 200; 300; 400; 500; 600; 700; 800; 900]%Z 7 in
  length (cells b0) = 9 /\
  tri1 Z 0%Z 1%Z 3 b0 = Ok (mkbuf [1; 0; 0; 1; 1; 0; 1; 1; 1]%Z 16).
Proof. vm_compute. repeat split. Qed.

Example ex_diag_3 :
  let X := [2; 4; 0]%Z in
  let b0 := mkbuf [100; 200; 300; 400; 500; 600; 700; 800; 900]%Z 7 in
  length X = 3 /\ length (cells b0) = 9 /\
  diag Z 0%Z 3 X b0 = Ok (mkbuf [2; 0; 0; 0; 4; 0; 0; 0; 0]%Z 16).
Proof. vm_compute. repeat split. Qed.

Example ex_diag1_3 :
  let X := [(-1); (-3); (-3); 8; 5; (-5); 0; 3; 2]%Z in
  let b0 := mkbuf [100; 200; 300]%Z 7 in
  length X = 3 * 3 /\ length (cells b0) = 3 /\
  diag1 Z 3 X b0 = Ok (mkbuf [(-1); 5; 2]%Z 10).
Proof. vm_compute. repeat split. Qed.

Example ex_triL_3 :
  let X := [9; 4; (-4); 0; 3; 9; 4; 6; (-5)]%Z in
  let b0 := mkbuf [100; 200; 300; 400; 500; 600; 700; 800; 900]%Z 7 in
  length X = 3 * 3 /\ length (cells b0) = 9 /\
  triL Z 0%Z 3 X b0 = Ok (mkbuf [9; 0; 0; 0; 3; 0; 4; 6; (-5)]%Z 16).
Proof. vm_compute. repeat split. Qed.

Example ex_triL1_3 :
  let X := [6; 1; (-3); 6; 2; 6; 1; (-3); (-3)]%Z in
  let b0 := mkbuf [100; 200; 300; 400; 500; 600; 700; 800; 900]%Z 7 in
  length X = 3 * 3 /\ length (cells b0) = 9 /\
  triL1 Z 0%Z 1%Z 3 X b0 = Ok (mkbuf [1; 0; 0; 6; 1; 0; 1; (-3); 1]%Z 16).
Proof. vm_compute. repeat split. Qed.

Example ex_triU_3 :
  let X := [(-2); (-5); (-4); (-3); 3; 8; 9; 4; (-4)]%Z in
  let b0 := mkbuf [100; 200; 300; 400; 500; 600; 700; 800; 900]%Z 7 in
  length X = 3 * 3 /\ length (cells b0) = 9 /\
  triU Z 0%Z 3 X b0 = Ok (mkbuf [(-2); (-5); (-4); 0; 3; 8; 0; 0; (-4)]%Z 16).
Proof. vm_compute. repeat split. Qed.

Example ex_triU1_3 :
  let X := [7; 6; 1; 7; 6; 9; (-4); 9; (-1)]%Z in
  let b0 := mkbuf [100; 200; 300; 400; 500; 600; 700; 800; 900]%Z 7 in
  length X = 3 * 3 /\ length (cells b0) = 9 /\
  triU1 Z 0%Z 1%Z 3 X b0 = Ok (mkbuf [1; 6; 1; 0; 1; 9; 0; 0; 1]%Z 16).
Proof. vm_compute. repeat split. Qed.

Example ex_T2_2x3 :
  let X := [(-2); 5; (-2); 6; 7; 1]%Z in
  let b0 := mkbuf [100; 200; 300; 400; 500; 600]%Z 7 in
  length X = 2 * 3 /\ length (cells b0) = 6 /\
  T2 Z 2 3 X b0 = Ok (mkbuf [(-2); 6; 5; 7; (-2); 1]%Z 13).
Proof. vm_compute. repeat split. Qed.

Example ex_T2_3x1 :
  let X := [9; (-4); 7]%Z in
  let b0 := mkbuf [100; 200; 300]%Z 7 in
  length X = 3 * 1 /\ length (cells b0) = 3 /\
  T2 Z 3 1 X b0 = Ok (mkbuf [9; (-4); 7]%Z 10).
Proof. vm_compute. repeat split. Qed.

Example ex_eye2_2x3 :
  let b0 := mkbuf [100; 200; 300; 400; 500; 600]%Z 7 in
  length (cells b0) = 6 /\
  eye2 Z 0%Z 1%Z 2 3 b0 = Ok (mkbuf [1; 0; 0; 0; 1; 0]%Z 13).
Proof. vm_compute. repeat split. Qed.

Example ex_eye2_3x2 :
  let b0 := mkbuf [100; 200; 300; 400; 500; 600]%Z 7 in
  length (cells b0) = 6 /\
  eye2 Z 0%Z 1%Z 3 2 b0 = Ok (mkbuf [1; 0; 0; 1; 0; 0]%Z 13).
Proof. vm_compute. repeat split. Qed.

Example ex_eye2_2x2 :
  let b0 := mkbuf [100; 200; 300; 400]%Z 7 in
  length (cells b0) = 4 /\
  eye2 Z 0%Z 1%Z 2 2 b0 = Ok (mkbuf [1; 0; 0; 1]%Z 11).
Proof. vm_compute. repeat split. Qed.

Example ex_tri2_2x3 :
  let b0 := mkbuf [100; 200; 300; 400; 500; 600]%Z 7 in
  length (cells b0) = 6 /\
  tri2 Z 0%Z 1%Z 2 3 b0 = Ok (mkbuf [1; 0; 0; 1; 1; 0]%Z 13).
Proof. vm_compute. repeat split. Qed.

Example ex_tri2_3x2 :
  let b0 := mkbuf [100; 200; 300; 400; 500; 600]%Z 7 in
  length (cells b0) = 6 /\
  tri2 Z 0%Z 1%Z 3 2 b0 = Ok (mkbuf [1; 0; 1; 1; 1; 1]%Z 13).
Proof. vm_compute. repeat split. Qed.

Example ex_diag2_2x3 :
  let X := [(-1); 9; (-2); 1; (-1); 0]%Z in
  let b0 := mkbuf [100; 200]%Z 7 in
  length X = 2 * 3 /\ length (cells b0) = 2 /\
  diag2 Z 2 3 X b0 = Ok (mkbuf [(-1); (-1)]%Z 9).
Proof. vm_compute. repeat split. Qed.

Example ex_diag2_3x2 :
  let X := [7; (-5); (-2); 6; 9; (-5)]%Z in
  let b0 := mkbuf [100; 200]%Z 7 in
  length X = 3 * 2 /\ length (cells b0) = 2 /\
  diag2 Z 3 2 X b0 = Ok (mkbuf [7; 6]%Z 9).
Proof. vm_compute. repeat split. Qed.

Example ex_triL2_2x3 :
  let X := [9; 1; (-5); 9; 1; 8]%Z in
  let b0 := mkbuf [100; 200; 300; 400; 500; 600]%Z 7 in
  length X = 2 * 3 /\ length (cells b0) = 6 /\
  triL2 Z 0%Z 2 3 X b0 = Ok (mkbuf [9; 0; 0; 9; 1; 0]%Z 13).
Proof. vm_compute. repeat split. Qed.

Example ex_triL2_3x2 :
  let X := [2; (-3); (-5); (-2); 1; 6]%Z in
  let b0 := mkbuf [100; 200; 300; 400; 500; 600]%Z 7 in
  length X = 3 * 2 /\ length (cells b0) = 6 /\
  triL2 Z 0%Z 3 2 X b0 = Ok (mkbuf [2; 0; (-5); (-2); 1; 6]%Z 13).
Proof. vm_compute. repeat split. Qed.

Example ex_triU2_2x3 :
  let X := [9; 8; (-4); 4; (-5); (-4)]%Z in
  let b0 := mkbuf [100; 200; 300; 400; 500; 600]%Z 7 in
  length X = 2 * 3 /\ length (cells b0) = 6 /\
  triU2 Z 0%Z 2 3 X b0 = Ok (mkbuf [9; 8; (-4); 0; (-5); (-4)]%Z 13).
Proof. vm_compute. repeat split. Qed.

Example ex_triU2_3x2 :
  let X := [7; 4; (-2); 9; 8; (-2)]%Z in
  let b0 := mkbuf [100; 200; 300; 400; 500; 600]%Z 7 in
  length X = 3 * 2 /\ length (cells b0) = 6 /\
  triU2 Z 0%Z 3 2 X b0 = Ok (mkbuf [7; 4; 0; 9; 0; 0]%Z 13).
Proof. vm_compute. repeat split. Qed.

Example ex_mulmm_2x3x2 :
  let X := [0; (-5); 9; (-4); (-3); 3]%Z in
  let Y := [9; (-5); 3; (-4); 4; 2]%Z in
  let b0 := mkbuf [100; 200; 300; 400]%Z 7 in
  length X = 2 * 3 /\ length Y = 3 * 2 /\ length (cells b0) = 4 /\
  mulmm Z 0%Z Z.add Z.mul 2 3 2 X Y b0 = Ok (mkbuf [21; 38; (-33); 38]%Z 23).
Proof. vm_compute. repeat split. Qed.

Example ex_mulmm_3x1x2 :
  let X := [3; 9; (-2)]%Z in
  let Y := [1; (-4)]%Z in
  let b0 := mkbuf [100; 200; 300; 400; 500; 600]%Z 7 in
  length X = 3 * 1 /\ length Y = 1 * 2 /\ length (cells b0) = 6 /\
  mulmm Z 0%Z Z.add Z.mul 3 1 2 X Y b0 = Ok (mkbuf [3; (-12); 9; (-36); (-2); 8]%Z 19).
Proof. vm_compute. repeat split. Qed.

Example ex_mulTm_3x2x2 :
  let X := [1; (-2); 5; 7; (-4); 6]%Z in
  let Y := [4; (-3); (-3); 4; 6; (-5)]%Z in
  let b0 := mkbuf [100; 200; 300; 400]%Z 7 in
  length X = 3 * 2 /\ length Y = 3 * 2 /\ length (cells b0) = 4 /\
  mulTm Z 0%Z Z.add Z.mul 3 2 2 X Y b0 = Ok (mkbuf [(-35); 37; 7; 4]%Z 23).
Proof. vm_compute. repeat split. Qed.

Example ex_mulTm_1x2x3 :
  let X := [(-5); (-1)]%Z in
  let Y := [3; 5; 4]%Z in
  let b0 := mkbuf [100; 200; 300; 400; 500; 600]%Z 7 in
  length X = 1 * 2 /\ length Y = 1 * 3 /\ length (cells b0) = 6 /\
  mulTm Z 0%Z Z.add Z.mul 1 2 3 X Y b0 = Ok (mkbuf [(-15); (-25); (-20); (-3); (-5); (-4)]%Z 19).
Proof. vm_compute. repeat split. Qed.

Example ex_mulmT_2x2x3 :
  let X := [8; (-3); 6; (-1); 6; 4]%Z in
  let Y := [(-5); (-4); 8; 6; 1; 9]%Z in
  let b0 := mkbuf [100; 200; 300; 400]%Z 7 in
  length X = 2 * 3 /\ length Y = 2 * 3 /\ length (cells b0) = 4 /\
  mulmT Z 0%Z Z.add Z.mul 2 2 3 X Y b0 = Ok (mkbuf [20; 99; 13; 36]%Z 23).
Proof. vm_compute. repeat split. Qed.

Example ex_mulmT_2x3x1 :
  let X := [(-2); (-3)]%Z in
  let Y := [4; 3; (-5)]%Z in
  let b0 := mkbuf [100; 200; 300; 400; 500; 600]%Z 7 in
  length X = 2 * 1 /\ length Y = 3 * 1 /\ length (cells b0) = 6 /\
  mulmT Z 0%Z Z.add Z.mul 2 3 1 X Y b0 = Ok (mkbuf [(-8); (-6); 10; (-12); (-9); 15]%Z 19).
Proof. vm_compute. repeat split. Qed.

Example ex_mulTT_2x3x2 :
  let X := [6; 0; 8; 5; 3; 4]%Z in
  let Y := [4; 7; 6; (-4); 8; 0]%Z in
  let b0 := mkbuf [100; 200; 300; 400]%Z 7 in
  length X = 3 * 2 /\ length Y = 2 * 3 /\ length (cells b0) = 4 /\
  mulTT Z 0%Z Z.add Z.mul 2 3 2 X Y b0 = Ok (mkbuf [98; 40; 59; 40]%Z 23).
Proof. vm_compute. repeat split. Qed.

Example ex_mulTT_3x1x2 :
  let X := [(-4); 8; 9]%Z in
  let Y := [4; 0]%Z in
  let b0 := mkbuf [100; 200; 300; 400; 500; 600]%Z 7 in
  length X = 1 * 3 /\ length Y = 2 * 1 /\ length (cells b0) = 6 /\
  mulTT Z 0%Z Z.add Z.mul 3 1 2 X Y b0 = Ok (mkbuf [(-16); 0; 32; 0; 36; 0]%Z 19).
Proof. vm_compute. repeat split. Qed.

(* ---- the width hypothesis U32 (LinalgSpec.v) of the theorems is satisfiable by every a_uint
   value, and by nothing else: U32 is exactly "representable in 32 bits". *)
Example ex_U32_small : U32 0 /\ U32 1 /\ U32 3 /\ U32 1000.
Proof. unfold U32. repeat split; reflexivity. Qed.

Example ex_U32_every_a_uint : forall x : N, (x < 4294967296)%N -> U32 (N.to_nat x).
Proof. intros x H. unfold U32. rewrite N2Nat.id. exact H. Qed.

Example ex_U32_max : U32 (N.to_nat 4294967295).
Proof. apply ex_U32_every_a_uint. reflexivity. Qed.

Example ex_U32_tight : ~ U32 (N.to_nat 4294967296).
Proof. unfold U32. rewrite N2Nat.id. intro H. discriminate H. Qed.

(* the wrap of the model is real: the same offset expressions DO wrap when evaluated with a
   narrower type than the C uses (this is what a change of `a_size` to `a_uint` in
   a_real_diag1 does: (n+1)*i at n = 65537, i = 65535 is 2^32 + 65534) *)
Example ex_wrap32_bites :
  wrap32 (N.to_nat (65538 * 65535)) = N.to_nat 65534 /\ wrap64 (N.to_nat (65538 * 65535)) = N.to_nat (65538 * 65535).
Proof.
  unfold wrap32, wrap64. rewrite !N2Nat.id. split.
  - f_equal.
  - f_equal.
Qed.

(* ---- the N-indexed model (LinalgWide.v): hypotheses of the wide theorems are satisfiable ---- *)
(* a 65537 x 65537 matrix (more than 2^32 cells) that is zero except for A[65535][65535] = 9, a decoy
   at the cell a 32-bit offset would read, and A[1][1] = 3: run by vm_compute in binary *)
Example ex_diag1N_65537 :
  let A := mksparse (65537 * 65537)%N [(4295032830%N, 9%Z); (65534%N, 4%Z); (65538%N, 3%Z)] in
  (65537 < 4294967296)%N /\ slen A = (65537 * 65537)%N /\
  match diag1NZ 65537%N A 65537%N with
  | Ok w => (N.of_nat (length w) = 65537%N /\
             filter (fun p => negb (Z.eqb (snd p) 0)) w = [(1%N, 3%Z); (65535%N, 9%Z)])
  | _ => False
  end.
Proof. vm_compute. repeat split; reflexivity. Qed.

(* N = (a_size)n + 1 = 2^32 at n = UINT_MAX *)
Example ex_diag2N_uintmax :
  let A := mksparse (2 * 4294967295)%N [(4294967296%N, 8%Z); (0%N, 3%Z)] in
  slen A = (2 * 4294967295)%N /\
  diag2NZ 2%N 4294967295%N A 2%N = Ok [(0%N, 3%Z); (1%N, 8%Z)].
Proof. vm_compute. repeat split; reflexivity. Qed.

Example ex_represents :
  represents 0%Z (mksparse 4%N [(3%N, 7%Z); (0%N, 5%Z)]) [5; 0; 0; 7]%Z.
Proof.
  split; [reflexivity|]. cbn [length]. intros k Hk.
  do 4 (destruct k as [|k]; [reflexivity|]). exfalso. do 4 apply Nat.succ_lt_mono in Hk. inversion Hk.
Qed.
