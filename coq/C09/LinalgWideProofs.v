(* C09 - proofs about the N-indexed model of a_real_diag1 / a_real_diag2 (LinalgWide.v):
   1. bridge to the list model: the list model's offset expression and A_MIN are, for ALL
      arguments (wrapping ones included), the wide model's;
   2. width: for n < 2^32 and i <= n the offset (a_size)(n+1) * i does not wrap and is the
      diagonal index i*n + i;  with a 32-bit N it does wrap (witness);
   3. specification of the wide model: all of a[0..M-1] written, a[i] = A[i*n+i], no access
      out of bounds;
   4. agreement with the list model's theorem on arrays that both can represent. *)
From Coq Require Import List Arith NArith ZArith Lia.
From LibaV Require Import C09.LinalgDefs C09.LinalgSpec C09.LinalgLemmas C09.LinalgTProofs C09.LinalgWide.
Import ListNotations.

(* ------------------------------------------------------------ 1. bridge *)
Lemma wrap64_bridge x : wrap64 x = N.to_nat (wrap64N (N.of_nat x)).
Proof. reflexivity. Qed.

Lemma diag_off_bridge (n i : nat) :
  sz_mul (sz_add n 1) i = N.to_nat (diag_offN (N.of_nat n) (N.of_nat i)).
Proof.
  unfold sz_mul, sz_add, wrap64, diag_offN, szN_mul, szN_add, wrap64N.
  rewrite Nat2N.inj_mul, N2Nat.id, Nat2N.inj_add. reflexivity.
Qed.

Lemma amin_bridge (m n : nat) : amin m n = N.to_nat (aminN (N.of_nat m) (N.of_nat n)).
Proof.
  unfold amin, aminN.
  destruct (m <? n) eqn:E.
  - apply Nat.ltb_lt in E. assert (H : (N.of_nat m <? N.of_nat n)%N = true) by (apply N.ltb_lt; lia).
    rewrite H. symmetry. apply Nat2N.id.
  - apply Nat.ltb_ge in E. assert (H : (N.of_nat m <? N.of_nat n)%N = false) by (apply N.ltb_ge; lia).
    rewrite H. symmetry. apply Nat2N.id.
Qed.

(* the cell the list model's diag_get reads is the cell the wide model reads *)
Lemma diag_get_reads_wide_offset (T : Type) (n : nat) (A : list T) (i : nat) (b : buf T) :
  diag_get T n A (i, b) =
  (v <- load T A (N.to_nat (diag_offN (N.of_nat n) (N.of_nat i))) ;;
   b <- store T i v b ;; Ok (S i, b)).
Proof. unfold diag_get. rewrite diag_off_bridge. reflexivity. Qed.

(* ------------------------------------------------------------- 2. width *)
Local Open Scope N_scope.

Lemma diag_offN_id (n i : N) : n < 4294967296 -> i <= n -> diag_offN n i = i * n + i.
Proof.
  intros Hn Hi. unfold diag_offN, szN_mul, szN_add, wrap64N.
  rewrite (N.mod_small (n + 1)) by lia.
  rewrite N.mod_small; [lia|].
  apply N.le_lt_trans with (4294967296 * 4294967295); [|reflexivity].
  apply N.mul_le_mono; lia.
Qed.

(* the same expression with N held in an a_uint (the "type tidy-up" of the cast): wraps *)
Lemma diag_off_32bit_wraps :
  let n := 65537 in let i := 65535 in
  n < 4294967296 /\ i < n /\
  diag_offN n i = 4295032830 /\ wrap32N (wrap32N (n + 1) * i) = 65534.
Proof. vm_compute. repeat split; reflexivity. Qed.

Lemma diag_off_lt (m n i : N) : i < m -> i < n -> i * n + i < m * n.
Proof.
  intros Hm Hn.
  apply N.lt_le_trans with ((i + 1) * n); [lia|].
  apply N.mul_le_mono_r. lia.
Qed.

(* -------------------------------------------- 3. the wide model's spec *)
Section WideSpec.
  Variable T : Type.
  Variable zero : T.

  (* cells 0 .. k-1 of a, each with the diagonal element *)
  Definition diag_cells (n : N) (A : sparse T) (k : nat) : list (N * T) :=
    map (fun j => (N.of_nat j, lookup T zero (scells A) (N.of_nat j * n + N.of_nat j))) (seq 0 k).

  Lemma diag_iter (n M : N) (A : sparse T) (olen : N) (k : nat) :
    n < 4294967296 -> M <= n -> M <= olen -> M * n <= slen A -> (N.of_nat k <= M) ->
    Nat.iter k (diag_getN T zero n A olen) (Ok (0, [])) =
    Ok (N.of_nat k, rev (diag_cells n A k)).
  Proof.
    intros Hn HM Ho HA. induction k as [|k IH]; intros Hk.
    - reflexivity.
    - change (Nat.iter (S k) (diag_getN T zero n A olen) (Ok (0, []))) with (diag_getN T zero n A olen (Nat.iter k (diag_getN T zero n A olen) (Ok (0, [])))).
      rewrite IH by lia.
      unfold diag_getN at 1. cbn [bind].
      rewrite diag_offN_id by lia.
      unfold loadN.
      assert (Hlt : N.of_nat k * n + N.of_nat k < slen A).
      { apply N.lt_le_trans with (M * n); [apply diag_off_lt; lia|exact HA]. }
      apply N.ltb_lt in Hlt. rewrite Hlt. cbn [bind].
      assert (Hlo : N.of_nat k <? olen = true) by (apply N.ltb_lt; lia).
      rewrite Hlo.
      unfold diag_cells. rewrite seq_S, map_app, rev_app_distr. cbn [map rev app Nat.add].
      f_equal. f_equal. lia.
  Qed.

  Lemma diagN_loop_ok (n M : N) (A : sparse T) (olen : N) :
    n < 4294967296 -> M <= n -> M <= olen -> M * n <= slen A ->
    ('(_, acc) <- N.iter M (diag_getN T zero n A olen) (Ok (0, [])) ;; Ok (rev_append acc [])) =
    Ok (diag_cells n A (N.to_nat M)).
  Proof.
    intros Hn HM Ho HA.
    rewrite N2Nat.inj_iter.
    rewrite (diag_iter n M A olen (N.to_nat M)) by lia.
    cbn [bind]. rewrite rev_append_rev, app_nil_r, rev_involutive. reflexivity.
  Qed.

  (* a_real_diag1(n, A, a):  A has n*n cells, a has n cells *)
  Theorem diag1N_ok (n : N) (A : sparse T) :
    n < 4294967296 -> slen A = n * n ->
    diag1N T zero n A n = Ok (diag_cells n A (N.to_nat n)).
  Proof.
    intros Hn HA. unfold diag1N. apply diagN_loop_ok; lia.
  Qed.

  Lemma aminN_min m n : aminN m n = N.min m n.
  Proof.
    unfold aminN. destruct (m <? n) eqn:E.
    - apply N.ltb_lt in E. lia.
    - apply N.ltb_ge in E. lia.
  Qed.

  (* a_real_diag2(m, n, A, a):  A has m*n cells, a has min(m,n) cells *)
  Theorem diag2N_ok (m n : N) (A : sparse T) :
    n < 4294967296 -> slen A = m * n ->
    diag2N T zero m n A (N.min m n) = Ok (diag_cells n A (N.to_nat (N.min m n))).
  Proof.
    intros Hn HA. unfold diag2N. rewrite aminN_min. apply diagN_loop_ok; try lia.
    rewrite HA. apply N.mul_le_mono_r. lia.
  Qed.

  (* reading the result: exactly M cells, cell i is (i, A[i*n+i]) *)
  Lemma diag_cells_length n A k : length (diag_cells n A k) = k.
  Proof. unfold diag_cells. rewrite map_length, seq_length. reflexivity. Qed.

  Lemma diag_cells_nth n A k (i : nat) d : (i < k)%nat ->
    nth i (diag_cells n A k) d =
    (N.of_nat i, lookup T zero (scells A) (N.of_nat i * n + N.of_nat i)).
  Proof.
    intros H. unfold diag_cells.
    set (f := fun j : nat => (N.of_nat j, lookup T zero (scells A) (N.of_nat j * n + N.of_nat j))).
    rewrite nth_indep with (d' := f 0%nat) by (rewrite map_length, seq_length; exact H).
    rewrite map_nth, seq_nth by exact H. reflexivity.
  Qed.

  Lemma diag_cells_read n A k (i : nat) d : (i < k)%nat ->
    length (diag_cells n A k) = k /\
    nth i (diag_cells n A k) d =
    (N.of_nat i, lookup T zero (scells A) (N.of_nat i * n + N.of_nat i)).
  Proof. intros H. split; [apply diag_cells_length|apply diag_cells_nth; exact H]. Qed.
End WideSpec.

(* -------- 4. both models, same array: the results agree cell by cell --------
   [A] a list of n*n cells; [S] a sparse array that holds the same values. *)
Close Scope N_scope.

Definition represents {T : Type} (zero : T) (S : sparse T) (A : list T) : Prop :=
  slen S = N.of_nat (length A) /\
  forall k : nat, k < length A -> lookup T zero (scells S) (N.of_nat k) = nth k A zero.

Theorem diag1_models_agree (T : Type) (zero : T) (n : nat) (A : list T) (S : sparse T) (b0 : buf T) :
  U32 n -> length A = n * n -> length (cells b0) = n -> represents zero S A ->
  exists b w, diag1 T n A b0 = Ok b /\ diag1N T zero (N.of_nat n) S (N.of_nat n) = Ok w /\
    length w = n /\
    forall i, i < n -> nth i w (0%N, zero) = (N.of_nat i, nth i (cells b) zero).
Proof.
  intros Hn HA Hb [Hlen Hrep].
  destruct (diag1_ok T zero n A b0 Hn HA Hb) as (b & Hrun & _ & _ & Hcells).
  exists b, (diag_cells T zero (N.of_nat n) S n). split; [exact Hrun|]. split.
  - rewrite diag1N_ok.
    + rewrite Nat2N.id. reflexivity.
    + exact Hn.
    + rewrite Hlen, HA. apply Nat2N.inj_mul.
  - split; [apply diag_cells_length|].
    intros i Hi. rewrite diag_cells_nth by exact Hi. f_equal.
    rewrite (Hcells i Hi).
    rewrite <- Nat2N.inj_mul, <- Nat2N.inj_add. apply Hrep.
    rewrite HA. apply idx_lt; exact Hi.
Qed.

Theorem diag2_models_agree (T : Type) (zero : T) (m n : nat) (A : list T) (S : sparse T) (b0 : buf T) :
  U32 n -> length A = m * n -> length (cells b0) = Nat.min m n -> represents zero S A ->
  exists b w, diag2 T m n A b0 = Ok b /\
    diag2N T zero (N.of_nat m) (N.of_nat n) S (N.of_nat (Nat.min m n)) = Ok w /\
    length w = Nat.min m n /\
    forall i, i < Nat.min m n -> nth i w (0%N, zero) = (N.of_nat i, nth i (cells b) zero).
Proof.
  intros Hn HA Hb [Hlen Hrep].
  destruct (diag2_ok T zero m n A b0 Hn HA Hb) as (b & Hrun & _ & _ & Hcells).
  exists b, (diag_cells T zero (N.of_nat n) S (Nat.min m n)). split; [exact Hrun|]. split.
  - rewrite Nat2N.inj_min. rewrite diag2N_ok.
    + rewrite <- Nat2N.inj_min, Nat2N.id. reflexivity.
    + exact Hn.
    + rewrite Hlen, HA. apply Nat2N.inj_mul.
  - split; [apply diag_cells_length|].
    intros i Hi. rewrite diag_cells_nth by exact Hi. f_equal.
    rewrite (Hcells i Hi).
    rewrite <- Nat2N.inj_mul, <- Nat2N.inj_add. apply Hrep.
    rewrite HA. apply idx_lt; lia.
Qed.
