(* C09 - generic lemmas: the loop rule for [while], bounds-checked accesses,
   row-major index arithmetic, the "sequential writer" invariant shared by
   the pattern routines. *)
From Coq Require Import List Arith Bool Lia NArith.
From LibaV Require Import C09.LinalgDefs C09.LinalgSpec.
Import ListNotations.

(* ------------------------------------------------------------------ *)
(* while                                                              *)

Lemma while_false {S : Type} fuel (cond : S -> bool) body (s : S) :
  cond s = false -> while fuel cond body s = Ok s.
Proof. destruct fuel; simpl; intros ->; reflexivity. Qed.

(* Hoare rule with a ghost iteration counter k: I k s holds after k
   iterations; the loop runs exactly hi iterations; fuel >= remaining
   iterations is enough (OutOfFuel excluded by proof). *)
Lemma while_ghost {S : Type} (I : nat -> S -> Prop) (hi : nat) (cond : S -> bool) body :
  (forall k s, I k s -> k < hi -> cond s = true /\ exists s', body s = Ok s' /\ I (Datatypes.S k) s') ->
  (forall s, I hi s -> cond s = false) ->
  forall fuel k s, I k s -> k <= hi -> hi - k <= fuel ->
  exists s', while fuel cond body s = Ok s' /\ I hi s'.
Proof.
  intros Hstep Hexit. induction fuel as [|fuel IH]; intros k s Hi Hk Hf.
  - assert (k = hi) by lia. subst. exists s. split; [apply while_false; auto | auto].
  - destruct (Nat.eq_dec k hi) as [->|Hne].
    + exists s. split; [apply while_false; auto | auto].
    + destruct (Hstep k s Hi) as (Hc & s' & Hb & Hi'); [lia|].
      destruct (IH (Datatypes.S k) s' Hi') as (s'' & Hw & Hi''); [lia|lia|].
      exists s''. split; auto. simpl. rewrite Hc, Hb. simpl. exact Hw.
Qed.

(* ------------------------------------------------------------------ *)
(* row-major index arithmetic                                         *)

Lemma idx_lt m n r c : r < m -> c < n -> r * n + c < m * n.
Proof. intros. nia. Qed.

Lemma idx_div n r c : c < n -> (r * n + c) / n = r.
Proof.
  intros H. rewrite Nat.add_comm, Nat.div_add by lia.
  rewrite Nat.div_small by lia. reflexivity.
Qed.

Lemma idx_mod n r c : c < n -> (r * n + c) mod n = c.
Proof.
  intros H. rewrite Nat.add_comm, Nat.mod_add by lia.
  apply Nat.mod_small; lia.
Qed.

Lemma idx_inj n r c r' c' : c < n -> c' < n -> r * n + c = r' * n + c' -> r = r' /\ c = c'.
Proof.
  intros H H' E.
  assert (Hr : (r * n + c) / n = (r' * n + c') / n) by (rewrite E; reflexivity).
  rewrite !idx_div in Hr by assumption.
  assert (Hc : (r * n + c) mod n = (r' * n + c') mod n) by (rewrite E; reflexivity).
  rewrite !idx_mod in Hc by assumption. auto.
Qed.

Lemma idx_decomp n k : 0 < n -> k = (k / n) * n + k mod n /\ k mod n < n.
Proof.
  intros H. split.
  - rewrite Nat.mul_comm. apply Nat.div_mod. lia.
  - apply Nat.mod_upper_bound. lia.
Qed.

Lemma idx_div_lt m n k : k < m * n -> k / n < m.
Proof.
  intros H. destruct n as [|n]; [lia|].
  apply Nat.div_lt_upper_bound; lia.
Qed.

(* ------------------------------------------------------------------ *)
(* integer widths: none of the C's offset computations wraps when the  *)
(* dimensions are a_uint values                                         *)

Lemma wrap64_id x : (N.of_nat x < 18446744073709551616)%N -> wrap64 x = x.
Proof.
  intros H. unfold wrap64. rewrite N.mod_small by exact H. apply Nat2N.id.
Qed.

Lemma wrap32_id x : U32 x -> wrap32 x = x.
Proof.
  intros H. unfold wrap32. rewrite N.mod_small by exact H. apply Nat2N.id.
Qed.

(* (a_size)a * b with a <= 2^32 (a_uint, or an a_uint plus one) and b an a_uint *)
Lemma sz_mul_id a b : (N.of_nat a <= 4294967296)%N -> U32 b -> sz_mul a b = a * b.
Proof.
  unfold U32, sz_mul. intros Ha Hb. apply wrap64_id. rewrite Nat2N.inj_mul.
  apply N.le_lt_trans with (4294967296 * N.of_nat b)%N.
  - apply N.mul_le_mono_r. exact Ha.
  - change 18446744073709551616%N with (4294967296 * 4294967296)%N.
    apply N.mul_lt_mono_pos_l; [reflexivity|exact Hb].
Qed.

Lemma U32_le a : U32 a -> (N.of_nat a <= 4294967296)%N.
Proof. unfold U32. intros. apply N.lt_le_incl. assumption. Qed.

Lemma U32_mono a b : a <= b -> U32 b -> U32 a.
Proof. unfold U32. intros H Hb. apply N.le_lt_trans with (N.of_nat b); [lia|exact Hb]. Qed.

(* (a_size)n + 1 *)
Lemma sz_succ_id n : U32 n -> sz_add n 1 = n + 1 /\ (N.of_nat (n + 1) <= 4294967296)%N.
Proof.
  unfold U32, sz_add. intros H. split.
  - apply wrap64_id. lia.
  - lia.
Qed.

(* nr + c, mc + r: an a_size sum that stays below the (a_size) product of two a_uint values *)
Lemma sz_add_id a b m n : a + b < m * n -> U32 m -> U32 n -> sz_add a b = a + b.
Proof.
  intros H Hm Hn. unfold sz_add. apply wrap64_id.
  apply N.lt_trans with (N.of_nat (m * n)); [lia|].
  rewrite Nat2N.inj_mul. unfold U32 in *.
  change 18446744073709551616%N with (4294967296 * 4294967296)%N.
  apply N.mul_lt_mono; assumption.
Qed.

(* ++c / c = r + 1 under a guard c < n, n an a_uint *)
Lemma u32_inc_id c n : c < n -> U32 n -> u32_add c 1 = c + 1.
Proof.
  unfold U32, u32_add. intros H Hn. apply wrap32_id. unfold U32. lia.
Qed.

(* a function of (row, column) seen on the linear index *)
Definition lin {T : Type} (n : nat) (f : nat -> nat -> T) (k : nat) : T := f (k / n) (k mod n).

Lemma lin_idx {T : Type} n (f : nat -> nat -> T) r c : c < n -> lin n f (r * n + c) = f r c.
Proof. intros H. unfold lin. rewrite idx_div, idx_mod by assumption. reflexivity. Qed.

(* ------------------------------------------------------------------ *)
Section Gen.
  Variable T : Type.
  Variable d : T.          (* default of nth; instantiated with zero *)

  Lemma upd_length i (v : T) l : length (upd T i v l) = length l.
  Proof. revert i; induction l as [|h t IH]; intros [|i]; simpl; auto. Qed.

  Lemma nth_upd_same i (v : T) l : i < length l -> nth i (upd T i v l) d = v.
  Proof.
    revert i; induction l as [|h t IH]; intros [|i] H; simpl in *; try lia; auto.
    apply IH; lia.
  Qed.

  Lemma nth_upd_other i j (v : T) l : i <> j -> nth j (upd T i v l) d = nth j l d.
  Proof.
    revert i j; induction l as [|h t IH]; intros [|i] [|j] H; simpl; auto; try lia.
  Qed.

  Lemma load_ok (l : list T) i : i < length l -> load T l i = Ok (nth i l d).
  Proof.
    intros H. unfold load. rewrite (nth_error_nth' l d H). reflexivity.
  Qed.

  Lemma store_ok i (v : T) (b : buf T) :
    i < length (cells b) -> store T i v b = Ok (mkbuf (upd T i v (cells b)) (S (nwr b))).
  Proof.
    intros H. unfold store. destruct (Nat.ltb_spec i (length (cells b))); [reflexivity|lia].
  Qed.

  (* two row-major arrays of the same shape with equal entries are equal *)
  Lemma mat_ext m n (l1 l2 : list T) :
    length l1 = m * n -> length l2 = m * n ->
    (forall r c, r < m -> c < n -> nth (r * n + c) l1 d = nth (r * n + c) l2 d) ->
    l1 = l2.
  Proof.
    intros H1 H2 H. apply (nth_ext l1 l2 d d); [congruence|].
    intros k Hk. rewrite H1 in Hk.
    destruct n as [|n]; [lia|].
    destruct (idx_decomp (S n) k) as [E Hm]; [lia|].
    rewrite E. apply H; [apply idx_div_lt; assumption | assumption].
  Qed.

  (* ---------------------------------------------------------------- *)
  (* The sequential-writer invariant: cells [0, e) hold the target, the
     others are untouched, exactly e stores happened.                   *)
  Definition SeqInv (tgt : nat -> T) (b0 : buf T) (e : nat) (b : buf T) : Prop :=
    length (cells b) = length (cells b0) /\
    nwr b = nwr b0 + e /\
    (forall k, k < e -> nth k (cells b) d = tgt k) /\
    (forall k, e <= k -> nth k (cells b) d = nth k (cells b0) d).

  Lemma SeqInv_init tgt b0 : SeqInv tgt b0 0 b0.
  Proof. repeat split; auto; intros; lia. Qed.

  Lemma store_seq tgt b0 e b v :
    SeqInv tgt b0 e b -> e < length (cells b0) -> v = tgt e ->
    exists b', store T e v b = Ok b' /\ SeqInv tgt b0 (S e) b'.
  Proof.
    intros (Hl & Hn & Hlo & Hhi) He ->.
    eexists. split; [apply store_ok; lia|].
    repeat split; simpl.
    - rewrite upd_length; assumption.
    - lia.
    - intros k Hk. destruct (Nat.eq_dec k e) as [->|Hne].
      + apply nth_upd_same; lia.
      + rewrite nth_upd_other by lia. apply Hlo; lia.
    - intros k Hk. rewrite nth_upd_other by lia. apply Hhi; lia.
  Qed.

  (* for (; c < hi; ++c) *E++ = val c *)
  Lemma fillc_lt tgt b0 hi val fuel c0 e0 b :
    SeqInv tgt b0 e0 b -> c0 <= hi -> hi - c0 <= fuel ->
    e0 + (hi - c0) <= length (cells b0) ->
    (forall c, c0 <= c < hi -> val c = Ok (tgt (e0 + (c - c0)))) ->
    exists b', fillc T fuel (fun c => c <? hi) val (c0, e0, b) = Ok (hi, e0 + (hi - c0), b')
               /\ SeqInv tgt b0 (e0 + (hi - c0)) b'.
  Proof.
    intros Hinv Hc Hf Hlen Hval. unfold fillc.
    destruct (while_ghost
                (fun k (s : nat * nat * buf T) =>
                   let '(c, e, b') := s in c = c0 + k /\ e = e0 + k /\ SeqInv tgt b0 (e0 + k) b')
                (hi - c0)
                (fun '(c, E, b) => c <? hi)
                (fun '(c, E, b) => v <- val c ;; b <- store T E v b ;; Ok (S c, S E, b)))
      with (fuel := fuel) (k := 0) (s := (c0, e0, b)) as (s' & Hw & Hi).
    - intros k [[c e] b1] (-> & -> & Hi) Hk. split.
      + apply Nat.ltb_lt. lia.
      + rewrite Hval by lia.
        replace (c0 + k - c0) with k by lia. simpl.
        destruct (store_seq tgt b0 (e0 + k) b1 (tgt (e0 + k)) Hi) as (b2 & Hs & Hi2); [lia|reflexivity|].
        rewrite Hs. simpl. eexists. split; [reflexivity|].
        split; [lia|split; [lia|]]. replace (e0 + S k) with (S (e0 + k)) by lia. exact Hi2.
    - intros [[c e] b1] (-> & -> & _). apply Nat.ltb_ge. lia.
    - split; [lia|split; [lia|]]. replace (e0 + 0) with e0 by lia. exact Hinv.
    - lia.
    - lia.
    - destruct s' as [[c e] b1]. destruct Hi as (-> & -> & Hi).
      exists b1. split; [|exact Hi]. rewrite Hw. f_equal. f_equal. f_equal. lia.
  Qed.

  (* for (; c <= r; ++c) *E++ = val c      (c <=? r is convertible to c <? S r) *)
  Lemma fillc_le tgt b0 r val fuel c0 e0 b :
    SeqInv tgt b0 e0 b -> c0 <= S r -> S r - c0 <= fuel ->
    e0 + (S r - c0) <= length (cells b0) ->
    (forall c, c0 <= c <= r -> val c = Ok (tgt (e0 + (c - c0)))) ->
    exists b', fillc T fuel (fun c => c <=? r) val (c0, e0, b) = Ok (S r, e0 + (S r - c0), b')
               /\ SeqInv tgt b0 (e0 + (S r - c0)) b'.
  Proof.
    intros. change (fun c => c <=? r) with (fun c => c <? S r).
    apply fillc_lt; auto. intros; apply H3; lia.
  Qed.

  (* reading the invariant at the end *)
  Lemma SeqInv_final n (f : nat -> nat -> T) b0 m b :
    SeqInv (lin n f) b0 (m * n) b -> length (cells b0) = m * n ->
    nwr b = nwr b0 + m * n /\ length (cells b) = m * n /\
    forall r c, r < m -> c < n -> nth (r * n + c) (cells b) d = f r c.
  Proof.
    intros (Hl & Hn & Hlo & _) H0. repeat split; try congruence.
    intros r c Hr Hc. rewrite Hlo by (apply idx_lt; assumption). apply lin_idx; assumption.
  Qed.

  (* ---------------------------------------------------------------- *)
  (* row loops over states (r, E, b) and (r, A, E, b): if one row body
     extends the invariant by n cells, the loop from row lo to row M
     extends it to M * n cells.                                          *)
  Lemma rows3 (rowf : nat * nat * buf T -> res (nat * nat * buf T)) tgt b0 n lo M fuel b :
    (forall r b, lo <= r < M -> SeqInv tgt b0 (r * n) b ->
                 exists b', rowf (r, r * n, b) = Ok (S r, S r * n, b') /\ SeqInv tgt b0 (S r * n) b') ->
    SeqInv tgt b0 (lo * n) b -> lo <= M -> M - lo <= fuel ->
    exists b', while fuel (fun '(r, _, _) => r <? M) rowf (lo, lo * n, b) = Ok (M, M * n, b')
               /\ SeqInv tgt b0 (M * n) b'.
  Proof.
    intros Hrow Hinv Hlo Hf.
    destruct (while_ghost
                (fun k (s : nat * nat * buf T) =>
                   let '(r, e, b') := s in r = lo + k /\ e = r * n /\ SeqInv tgt b0 (r * n) b')
                (M - lo)
                (fun '(r, _, _) => r <? M) rowf)
      with (fuel := fuel) (k := 0) (s := (lo, lo * n, b)) as (s' & Hw & Hi).
    - intros k [[r e] b1] (-> & -> & Hi) Hk. split.
      + apply Nat.ltb_lt. lia.
      + destruct (Hrow (lo + k) b1) as (b2 & Hr & Hi2); [lia|exact Hi|].
        rewrite Hr. eexists. split; [reflexivity|]. split; [lia|split; [lia|]]. exact Hi2.
    - intros [[r e] b1] (-> & _). apply Nat.ltb_ge. lia.
    - split; [lia|split; [lia|]]. replace (lo + 0) with lo by lia. exact Hinv.
    - lia.
    - lia.
    - destruct s' as [[r e] b1]. destruct Hi as (-> & -> & Hi).
      replace (lo + (M - lo)) with M in * by lia.
      exists b1. split; [exact Hw | exact Hi].
  Qed.

  Lemma rows4 (rowf : nat * nat * nat * buf T -> res (nat * nat * nat * buf T)) tgt b0 n lo M fuel b :
    (forall r b, lo <= r < M -> SeqInv tgt b0 (r * n) b ->
                 exists b', rowf (r, r * n, r * n, b) = Ok (S r, S r * n, S r * n, b')
                            /\ SeqInv tgt b0 (S r * n) b') ->
    SeqInv tgt b0 (lo * n) b -> lo <= M -> M - lo <= fuel ->
    exists b', while fuel (fun '(r, _, _, _) => r <? M) rowf (lo, lo * n, lo * n, b)
               = Ok (M, M * n, M * n, b')
               /\ SeqInv tgt b0 (M * n) b'.
  Proof.
    intros Hrow Hinv Hlo Hf.
    destruct (while_ghost
                (fun k (s : nat * nat * nat * buf T) =>
                   let '(r, a, e, b') := s in
                   r = lo + k /\ a = r * n /\ e = r * n /\ SeqInv tgt b0 (r * n) b')
                (M - lo)
                (fun '(r, _, _, _) => r <? M) rowf)
      with (fuel := fuel) (k := 0) (s := (lo, lo * n, lo * n, b)) as (s' & Hw & Hi).
    - intros k [[[r a] e] b1] (-> & -> & -> & Hi) Hk. split.
      + apply Nat.ltb_lt. lia.
      + destruct (Hrow (lo + k) b1) as (b2 & Hr & Hi2); [lia|exact Hi|].
        rewrite Hr. eexists. split; [reflexivity|]. split; [lia|split; [lia|split; [lia|]]]. exact Hi2.
    - intros [[[r a] e] b1] (-> & _). apply Nat.ltb_ge. lia.
    - split; [lia|split; [lia|split; [lia|]]]. replace (lo + 0) with lo by lia. exact Hinv.
    - lia.
    - lia.
    - destruct s' as [[[r a] e] b1]. destruct Hi as (-> & -> & -> & Hi).
      replace (lo + (M - lo)) with M in * by lia.
      exists b1. split; [exact Hw | exact Hi].
  Qed.

  (* ---------------------------------------------------------------- *)
  (* A row-major m x n array seen as a function of (row, column).       *)
  Definition Mat (m n : nat) (g : nat -> nat -> T) (l : list T) : Prop :=
    length l = m * n /\ forall i j, i < m -> j < n -> nth (i * n + j) l d = g i j.

  Lemma Mat_ext m n g g' l :
    Mat m n g l -> (forall i j, i < m -> j < n -> g i j = g' i j) -> Mat m n g' l.
  Proof. intros [Hl H] E. split; [assumption|]. intros; rewrite H; auto. Qed.

  Lemma Mat_load m n g l i j idx :
    Mat m n g l -> i < m -> j < n -> idx = i * n + j -> load T l idx = Ok (g i j).
  Proof.
    intros [Hl H] Hi Hj ->. rewrite load_ok by (rewrite Hl; apply idx_lt; assumption).
    rewrite H by assumption. reflexivity.
  Qed.

  Lemma Mat_store m n g b i j idx v :
    Mat m n g (cells b) -> i < m -> j < n -> idx = i * n + j ->
    exists b', store T idx v b = Ok b' /\ nwr b' = S (nwr b) /\
               Mat m n (fun i' j' => if (i' =? i) && (j' =? j) then v else g i' j') (cells b').
  Proof.
    intros [Hl H] Hi Hj ->.
    assert (Hlt : i * n + j < length (cells b)) by (rewrite Hl; apply idx_lt; assumption).
    eexists. split; [apply store_ok; assumption|]. simpl. split; [reflexivity|].
    split; [rewrite upd_length; assumption|].
    intros i' j' Hi' Hj'.
    destruct (Nat.eqb_spec i' i) as [->|Hne]; simpl.
    - destruct (Nat.eqb_spec j' j) as [->|Hne].
      + apply nth_upd_same; assumption.
      + rewrite nth_upd_other by lia. apply H; assumption.
    - rewrite nth_upd_other; [apply H; assumption|].
      intros E. apply idx_inj in E; [|assumption|assumption]. lia.
  Qed.

  Lemma Mat_of_list m n l : length l = m * n -> Mat m n (fun i j => nth (i * n + j) l d) l.
  Proof. intros H. split; auto. Qed.

  Lemma Mat_nth m n g l i j : Mat m n g l -> i < m -> j < n -> nth (i * n + j) l d = g i j.
  Proof. intros [_ H]. apply H. Qed.

  Lemma Mat_length m n g l : Mat m n g l -> length l = m * n.
  Proof. intros [H _]. exact H. Qed.

End Gen.
