(* C19 - Integer square root, gcd/lcm, bit reversal and byte-order accessors are exact.
   Only statements here; proofs are in C19/*Proofs.v, the model in C19/IntDefs.v. *)
From Coq Require Import NArith List.
From LibaV Require Import C19.IntDefs C19.SqrtProofs C19.GcdProofs C19.RevProofs C19.EndianProofs.
Import ListNotations.
Local Open Scope N_scope.

(* integer square root: the largest r with r*r <= x, for every 32-bit / 64-bit x; the Newton loop never runs out
   of its 40 iterations, never divides by zero, never wraps *)
Theorem C19_u32_sqrt : forall x, x < 2 ^ 32 ->
  exists r, u32_sqrt x = Some r /\ r * r <= x < (r + 1) * (r + 1).
Proof. exact u32_sqrt_spec. Qed.
Print Assumptions C19_u32_sqrt.

Theorem C19_u64_sqrt : forall x, x < 2 ^ 64 ->
  exists r, u64_sqrt x = Some r /\ r * r <= x < (r + 1) * (r + 1).
Proof. exact u64_sqrt_spec. Qed.
Print Assumptions C19_u64_sqrt.

(* the start value of the pinned tree, 2^((bsr+1)>>1), refutes the statement: 25 -> 4 *)
Theorem C19_sqrt_pinned_start_refuted : exists x, x < 2 ^ 32 /\ isqrt_old 32 x = Some 4 /\ x = 25.
Proof. exact isqrt_old_refuted. Qed.
Print Assumptions C19_sqrt_pinned_start_refuted.

(* gcd: the Euclid loop terminates within its fuel for all word pairs; the result divides both arguments, every common
   divisor divides it (and is <= it unless it is 0), and it is 0 exactly for two zeros *)
Theorem C19_u32_gcd : forall a b, b < 2 ^ 32 ->
  exists g, u32_gcd a b = Some g /\ N.divide g a /\ N.divide g b /\
            (forall d, N.divide d a -> N.divide d b -> N.divide d g /\ (g <> 0 -> d <= g)) /\
            (g = 0 <-> a = 0 /\ b = 0).
Proof. exact (gcd_w_spec 32). Qed.
Print Assumptions C19_u32_gcd.

Theorem C19_u64_gcd : forall a b, b < 2 ^ 64 ->
  exists g, u64_gcd a b = Some g /\ N.divide g a /\ N.divide g b /\
            (forall d, N.divide d a -> N.divide d b -> N.divide d g /\ (g <> 0 -> d <= g)) /\
            (g = 0 <-> a = 0 /\ b = 0).
Proof. exact (gcd_w_spec 64). Qed.
Print Assumptions C19_u64_gcd.

(* lcm: whenever the true least common multiple is representable, it is returned, and lcm * gcd = a * b;
   in general the result is the true lcm reduced mod 2^w *)
Theorem C19_u32_lcm : forall a b, b < 2 ^ 32 -> N.lcm a b < 2 ^ 32 ->
  exists l g, u32_lcm a b = Some l /\ u32_gcd a b = Some g /\ l * g = a * b /\ l = N.lcm a b.
Proof. exact (lcm_gcd_product 32). Qed.
Print Assumptions C19_u32_lcm.

Theorem C19_u64_lcm : forall a b, b < 2 ^ 64 -> N.lcm a b < 2 ^ 64 ->
  exists l g, u64_lcm a b = Some l /\ u64_gcd a b = Some g /\ l * g = a * b /\ l = N.lcm a b.
Proof. exact (lcm_gcd_product 64). Qed.
Print Assumptions C19_u64_lcm.

Theorem C19_lcm_wraps : forall (w : nat) a b, b < 2 ^ N.of_nat w ->
  lcm_w w a b = Some (wrap (N.of_nat w) (N.lcm a b)).
Proof. exact lcm_w_correct. Qed.
Print Assumptions C19_lcm_wraps.

(* bit reversal: bit i of the result is bit w-1-i of the argument, the result is a w-bit word, reversal is an involution *)
Theorem C19_u8_rev : forall x, x < 2 ^ 8 ->
  (forall i, (i < 8)%nat -> N.testbit (u8_rev x) (N.of_nat i) = N.testbit x (N.of_nat (8 - 1 - i))) /\
  u8_rev x < 2 ^ 8 /\ u8_rev (u8_rev x) = x.
Proof.
  exact (fun x Hx => conj (fun i Hi => rev_mirror 8 u8_rev u8_rev_eq x i Hx Hi)
                          (conj (rev_range 8 u8_rev u8_rev_eq x Hx) (rev_involutive 8 u8_rev u8_rev_eq x Hx))).
Qed.
Print Assumptions C19_u8_rev.

Theorem C19_u16_rev : forall x, x < 2 ^ 16 ->
  (forall i, (i < 16)%nat -> N.testbit (u16_rev x) (N.of_nat i) = N.testbit x (N.of_nat (16 - 1 - i))) /\
  u16_rev x < 2 ^ 16 /\ u16_rev (u16_rev x) = x.
Proof.
  exact (fun x Hx => conj (fun i Hi => rev_mirror 16 u16_rev u16_rev_eq x i Hx Hi)
                          (conj (rev_range 16 u16_rev u16_rev_eq x Hx) (rev_involutive 16 u16_rev u16_rev_eq x Hx))).
Qed.
Print Assumptions C19_u16_rev.

Theorem C19_u32_rev : forall x, x < 2 ^ 32 ->
  (forall i, (i < 32)%nat -> N.testbit (u32_rev x) (N.of_nat i) = N.testbit x (N.of_nat (32 - 1 - i))) /\
  u32_rev x < 2 ^ 32 /\ u32_rev (u32_rev x) = x.
Proof.
  exact (fun x Hx => conj (fun i Hi => rev_mirror 32 u32_rev u32_rev_eq x i Hx Hi)
                          (conj (rev_range 32 u32_rev u32_rev_eq x Hx) (rev_involutive 32 u32_rev u32_rev_eq x Hx))).
Qed.
Print Assumptions C19_u32_rev.

Theorem C19_u64_rev : forall x, x < 2 ^ 64 ->
  (forall i, (i < 64)%nat -> N.testbit (u64_rev x) (N.of_nat i) = N.testbit x (N.of_nat (64 - 1 - i))) /\
  u64_rev x < 2 ^ 64 /\ u64_rev (u64_rev x) = x.
Proof.
  exact (fun x Hx => conj (fun i Hi => rev_mirror 64 u64_rev u64_rev_eq x i Hx Hi)
                          (conj (rev_range 64 u64_rev u64_rev_eq x Hx) (rev_involutive 64 u64_rev u64_rev_eq x Hx))).
Qed.
Print Assumptions C19_u64_rev.

(* byte-order accessors (n = 2, 4, 8 bytes; stated for every n): store/load are mutually inverse, and the stored
   layout is the one the name states - byte i of setl is bits 8i..8i+7, setb is the reverse list.  The model has no
   host byte order: the C accessors are written with shifts only. *)
Theorem C19_get_set_l : forall n x, x < 2 ^ (8 * N.of_nat n) -> getl n (setl n x) = x.
Proof. exact get_set_l. Qed.
Print Assumptions C19_get_set_l.

Theorem C19_set_get_l : forall n p, length p = n -> Forall (fun b => b < 2 ^ 8) p -> setl n (getl n p) = p.
Proof. exact set_get_l. Qed.
Print Assumptions C19_set_get_l.

Theorem C19_get_set_b : forall n x, x < 2 ^ (8 * N.of_nat n) -> getb n (setb n x) = x.
Proof. exact get_set_b. Qed.
Print Assumptions C19_get_set_b.

Theorem C19_set_get_b : forall n p, length p = n -> Forall (fun b => b < 2 ^ 8) p -> setb n (getb n p) = p.
Proof. exact set_get_b. Qed.
Print Assumptions C19_set_get_b.

Theorem C19_setl_layout : forall n x i, (i < n)%nat -> nth i (setl n x) 0 = (x / 2 ^ (8 * N.of_nat i)) mod 256.
Proof. exact setl_layout. Qed.
Print Assumptions C19_setl_layout.

Theorem C19_setb_layout : forall n x i, (i < n)%nat -> nth i (setb n x) 0 = (x / 2 ^ (8 * N.of_nat (n - 1 - i))) mod 256.
Proof. exact setb_layout. Qed.
Print Assumptions C19_setb_layout.
