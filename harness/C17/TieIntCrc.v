(* C17 translator tie, part 3: the table-driven updates a_crc8, a_crc{16,32,64}{m,l} (src/crc.c), messages of ANY length. *)
Set Default Timeout 120.
From Coq Require Import NArith List Bool Lia.
From LibaV Require Import C17.CrcDefs C17.BitsProofs C17.TieLemmas C19.IntDefs.
From LibaV Require C19.TieLemmas.
From Gen Require CrcGen.
Import ListNotations.
Local Open Scope N_scope.
Module T := LibaV.C19.TieLemmas.

(* Each generated loop `for (; nbyte; --nbyte) value = <update with table[...] and *p++>` satisfies the unfolding equation
   that C17.TieLemmas.byte_loop asks for, with the model's own byte update (crc8_byte / crcm_byte w / crcl_byte w) in the
   middle; byte_loop then gives the model's list recursion crc_loop for a message of any length. *)

(* ---------------------------------------------------------------- a_crc8 *)
Lemma a_crc8_eq table data : forall f n v p, True -> n <> 0 ->
  CrcGen.a_crc8_loop1 (S f) table data n v p =
  match T.load data p with
  | None => None
  | Some c => match crc8_byte table v c with
              | None => None
              | Some v1 => CrcGen.a_crc8_loop1 f table data (wrap 64 (n + 0x10000000000000000 - 1)) v1 (p + 1)
              end
  end.
Proof.
  intros f n v p Hv Hn. cbn [CrcGen.a_crc8_loop1]. replace (n =? 0) with false by (symmetry; apply N.eqb_neq; exact Hn). cbv zeta.
  change CrcGen.load with T.load. change CrcGen.wrap with wrap.
  destruct (T.load data p) as [c|]; [|reflexivity].
  unfold crc8_byte, tab_get. unfold T.load.
  destruct (nth_error table _) as [e|] eqn:E; [|reflexivity].
  reflexivity.
Qed.

Theorem tie_a_crc8 : forall table data value, Forall (fun c => c < 2 ^ 8) data ->
  N.of_nat (length data) < 2 ^ 64 -> value < 2 ^ 8 ->
  CrcGen.a_crc8 table data (N.of_nat (length data)) value = a_crc_m W8 table data value.
Proof.
  intros table data value _ Hlen Hv. unfold CrcGen.a_crc8. cbv zeta. cbn [a_crc_m a_crc_l upd_m upd_l bits].
  apply (byte_loop (fun f => CrcGen.a_crc8_loop1 f table data) data (crc8_byte table) (fun _ => True)).
  - apply a_crc8_eq.
  - reflexivity.
  - intros; exact I.
  - exact Hlen.
  - exact I.
Qed.

Theorem tie_a_crc8_l : forall table data value, Forall (fun c => c < 2 ^ 8) data ->
  N.of_nat (length data) < 2 ^ 64 -> value < 2 ^ 8 ->
  CrcGen.a_crc8 table data (N.of_nat (length data)) value = a_crc_l W8 table data value.
Proof.
  intros table data value _ Hlen Hv. unfold CrcGen.a_crc8. cbv zeta. cbn [a_crc_m a_crc_l upd_m upd_l bits].
  apply (byte_loop (fun f => CrcGen.a_crc8_loop1 f table data) data (crc8_byte table) (fun _ => True)).
  - apply a_crc8_eq.
  - reflexivity.
  - intros; exact I.
  - exact Hlen.
  - exact I.
Qed.

(* ---------------------------------------------------------------- a_crc16m *)
Lemma a_crc16m_eq table data : forall f n v p, v < 2 ^ 16 -> n <> 0 ->
  CrcGen.a_crc16m_loop1 (S f) table data n v p =
  match T.load data p with
  | None => None
  | Some c => match crcm_byte 16 table v c with
              | None => None
              | Some v1 => CrcGen.a_crc16m_loop1 f table data (wrap 64 (n + 0x10000000000000000 - 1)) v1 (p + 1)
              end
  end.
Proof.
  intros f n v p Hv Hn. cbn [CrcGen.a_crc16m_loop1]. replace (n =? 0) with false by (symmetry; apply N.eqb_neq; exact Hn). cbv zeta.
  rewrite (T.shl_int_ok v 8 16 Hv) by reflexivity; cbv iota.
  change CrcGen.load with T.load. change CrcGen.wrap with wrap.
  destruct (T.load data p) as [c|]; [|reflexivity].
  unfold crcm_byte, tab_get. change (16 - 8) with 8. unfold T.load.
  destruct (nth_error table _) as [e|] eqn:E; [|reflexivity].
  rewrite !wrap_trunc. reflexivity.
Qed.

Theorem tie_a_crc16m : forall table data value, Forall (fun c => c < 2 ^ 8) data ->
  N.of_nat (length data) < 2 ^ 64 -> value < 2 ^ 16 ->
  CrcGen.a_crc16m table data (N.of_nat (length data)) value = a_crc_m W16 table data value.
Proof.
  intros table data value _ Hlen Hv. unfold CrcGen.a_crc16m. cbv zeta. cbn [a_crc_m a_crc_l upd_m upd_l bits].
  apply (byte_loop (fun f => CrcGen.a_crc16m_loop1 f table data) data (crcm_byte 16 table) (fun v => v < 2 ^ 16)).
  - apply a_crc16m_eq.
  - reflexivity.
  - intros v c v1 _ _ U. unfold crcm_byte, tab_get in U. destruct (nth_error table _); [|discriminate]. injection U as <-. apply trunc_lt.
  - exact Hlen.
  - exact Hv.
Qed.

(* ---------------------------------------------------------------- a_crc16l *)
Lemma a_crc16l_eq table data : forall f n v p, v < 2 ^ 16 -> n <> 0 ->
  CrcGen.a_crc16l_loop1 (S f) table data n v p =
  match T.load data p with
  | None => None
  | Some c => match crcl_byte 16 table v c with
              | None => None
              | Some v1 => CrcGen.a_crc16l_loop1 f table data (wrap 64 (n + 0x10000000000000000 - 1)) v1 (p + 1)
              end
  end.
Proof.
  intros f n v p Hv Hn. cbn [CrcGen.a_crc16l_loop1]. replace (n =? 0) with false by (symmetry; apply N.eqb_neq; exact Hn). cbv zeta.
  change CrcGen.load with T.load. change CrcGen.wrap with wrap.
  destruct (T.load data p) as [c|]; [|reflexivity].
  unfold crcl_byte, tab_get. change (16 - 8) with 8. unfold T.load.
  destruct (nth_error table _) as [e|] eqn:E; [|reflexivity].
  rewrite !wrap_trunc. reflexivity.
Qed.

Theorem tie_a_crc16l : forall table data value, Forall (fun c => c < 2 ^ 8) data ->
  N.of_nat (length data) < 2 ^ 64 -> value < 2 ^ 16 ->
  CrcGen.a_crc16l table data (N.of_nat (length data)) value = a_crc_l W16 table data value.
Proof.
  intros table data value _ Hlen Hv. unfold CrcGen.a_crc16l. cbv zeta. cbn [a_crc_m a_crc_l upd_m upd_l bits].
  apply (byte_loop (fun f => CrcGen.a_crc16l_loop1 f table data) data (crcl_byte 16 table) (fun v => v < 2 ^ 16)).
  - apply a_crc16l_eq.
  - reflexivity.
  - intros v c v1 _ _ U. unfold crcl_byte, tab_get in U. destruct (nth_error table _); [|discriminate]. injection U as <-. apply trunc_lt.
  - exact Hlen.
  - exact Hv.
Qed.

(* ---------------------------------------------------------------- a_crc32m *)
Lemma a_crc32m_eq table data : Forall (fun e => e < 2 ^ 32) table -> forall f n v p, v < 2 ^ 32 -> n <> 0 ->
  CrcGen.a_crc32m_loop1 (S f) table data n v p =
  match T.load data p with
  | None => None
  | Some c => match crcm_byte 32 table v c with
              | None => None
              | Some v1 => CrcGen.a_crc32m_loop1 f table data (wrap 64 (n + 0x10000000000000000 - 1)) v1 (p + 1)
              end
  end.
Proof.
  intros Ft f n v p Hv Hn. cbn [CrcGen.a_crc32m_loop1]. replace (n =? 0) with false by (symmetry; apply N.eqb_neq; exact Hn). cbv zeta.
  change CrcGen.load with T.load. change CrcGen.wrap with wrap.
  destruct (T.load data p) as [c|]; [|reflexivity].
  unfold crcm_byte, tab_get. change (32 - 8) with 24. unfold T.load.
  destruct (nth_error table _) as [e|] eqn:E; [|reflexivity].
  rewrite (crcm_val 32 v e) by exact (nth_error_Forall _ _ _ _ Ft E). rewrite !wrap_trunc. reflexivity.
Qed.

Theorem tie_a_crc32m : forall table data value, Forall (fun e => e < 2 ^ 32) table -> Forall (fun c => c < 2 ^ 8) data ->
  N.of_nat (length data) < 2 ^ 64 -> value < 2 ^ 32 ->
  CrcGen.a_crc32m table data (N.of_nat (length data)) value = a_crc_m W32 table data value.
Proof.
  intros table data value Ft _ Hlen Hv. unfold CrcGen.a_crc32m. cbv zeta. cbn [a_crc_m a_crc_l upd_m upd_l bits].
  apply (byte_loop (fun f => CrcGen.a_crc32m_loop1 f table data) data (crcm_byte 32 table) (fun v => v < 2 ^ 32)).
  - apply a_crc32m_eq; exact Ft.
  - reflexivity.
  - intros v c v1 _ _ U. unfold crcm_byte, tab_get in U. destruct (nth_error table _); [|discriminate]. injection U as <-. apply trunc_lt.
  - exact Hlen.
  - exact Hv.
Qed.

(* ---------------------------------------------------------------- a_crc32l *)
Lemma a_crc32l_eq table data : Forall (fun e => e < 2 ^ 32) table -> forall f n v p, v < 2 ^ 32 -> n <> 0 ->
  CrcGen.a_crc32l_loop1 (S f) table data n v p =
  match T.load data p with
  | None => None
  | Some c => match crcl_byte 32 table v c with
              | None => None
              | Some v1 => CrcGen.a_crc32l_loop1 f table data (wrap 64 (n + 0x10000000000000000 - 1)) v1 (p + 1)
              end
  end.
Proof.
  intros Ft f n v p Hv Hn. cbn [CrcGen.a_crc32l_loop1]. replace (n =? 0) with false by (symmetry; apply N.eqb_neq; exact Hn). cbv zeta.
  change CrcGen.load with T.load. change CrcGen.wrap with wrap.
  destruct (T.load data p) as [c|]; [|reflexivity].
  unfold crcl_byte, tab_get. change (32 - 8) with 24. unfold T.load.
  destruct (nth_error table _) as [e|] eqn:E; [|reflexivity].
  rewrite <- (crcl_val 32 v e Hv) by exact (nth_error_Forall _ _ _ _ Ft E). rewrite !wrap_trunc. reflexivity.
Qed.

Theorem tie_a_crc32l : forall table data value, Forall (fun e => e < 2 ^ 32) table -> Forall (fun c => c < 2 ^ 8) data ->
  N.of_nat (length data) < 2 ^ 64 -> value < 2 ^ 32 ->
  CrcGen.a_crc32l table data (N.of_nat (length data)) value = a_crc_l W32 table data value.
Proof.
  intros table data value Ft _ Hlen Hv. unfold CrcGen.a_crc32l. cbv zeta. cbn [a_crc_m a_crc_l upd_m upd_l bits].
  apply (byte_loop (fun f => CrcGen.a_crc32l_loop1 f table data) data (crcl_byte 32 table) (fun v => v < 2 ^ 32)).
  - apply a_crc32l_eq; exact Ft.
  - reflexivity.
  - intros v c v1 _ _ U. unfold crcl_byte, tab_get in U. destruct (nth_error table _); [|discriminate]. injection U as <-. apply trunc_lt.
  - exact Hlen.
  - exact Hv.
Qed.

(* ---------------------------------------------------------------- a_crc64m *)
Lemma a_crc64m_eq table data : Forall (fun e => e < 2 ^ 64) table -> forall f n v p, v < 2 ^ 64 -> n <> 0 ->
  CrcGen.a_crc64m_loop1 (S f) table data n v p =
  match T.load data p with
  | None => None
  | Some c => match crcm_byte 64 table v c with
              | None => None
              | Some v1 => CrcGen.a_crc64m_loop1 f table data (wrap 64 (n + 0x10000000000000000 - 1)) v1 (p + 1)
              end
  end.
Proof.
  intros Ft f n v p Hv Hn. cbn [CrcGen.a_crc64m_loop1]. replace (n =? 0) with false by (symmetry; apply N.eqb_neq; exact Hn). cbv zeta.
  change CrcGen.load with T.load. change CrcGen.wrap with wrap.
  destruct (T.load data p) as [c|]; [|reflexivity].
  unfold crcm_byte, tab_get. change (64 - 8) with 56. unfold T.load.
  destruct (nth_error table _) as [e|] eqn:E; [|reflexivity].
  rewrite (crcm_val 64 v e) by exact (nth_error_Forall _ _ _ _ Ft E). rewrite !wrap_trunc. reflexivity.
Qed.

Theorem tie_a_crc64m : forall table data value, Forall (fun e => e < 2 ^ 64) table -> Forall (fun c => c < 2 ^ 8) data ->
  N.of_nat (length data) < 2 ^ 64 -> value < 2 ^ 64 ->
  CrcGen.a_crc64m table data (N.of_nat (length data)) value = a_crc_m W64 table data value.
Proof.
  intros table data value Ft _ Hlen Hv. unfold CrcGen.a_crc64m. cbv zeta. cbn [a_crc_m a_crc_l upd_m upd_l bits].
  apply (byte_loop (fun f => CrcGen.a_crc64m_loop1 f table data) data (crcm_byte 64 table) (fun v => v < 2 ^ 64)).
  - apply a_crc64m_eq; exact Ft.
  - reflexivity.
  - intros v c v1 _ _ U. unfold crcm_byte, tab_get in U. destruct (nth_error table _); [|discriminate]. injection U as <-. apply trunc_lt.
  - exact Hlen.
  - exact Hv.
Qed.

(* ---------------------------------------------------------------- a_crc64l *)
Lemma a_crc64l_eq table data : Forall (fun e => e < 2 ^ 64) table -> forall f n v p, v < 2 ^ 64 -> n <> 0 ->
  CrcGen.a_crc64l_loop1 (S f) table data n v p =
  match T.load data p with
  | None => None
  | Some c => match crcl_byte 64 table v c with
              | None => None
              | Some v1 => CrcGen.a_crc64l_loop1 f table data (wrap 64 (n + 0x10000000000000000 - 1)) v1 (p + 1)
              end
  end.
Proof.
  intros Ft f n v p Hv Hn. cbn [CrcGen.a_crc64l_loop1]. replace (n =? 0) with false by (symmetry; apply N.eqb_neq; exact Hn). cbv zeta.
  change CrcGen.load with T.load. change CrcGen.wrap with wrap.
  destruct (T.load data p) as [c|]; [|reflexivity].
  unfold crcl_byte, tab_get. change (64 - 8) with 56. unfold T.load.
  destruct (nth_error table _) as [e|] eqn:E; [|reflexivity].
  rewrite <- (crcl_val 64 v e Hv) by exact (nth_error_Forall _ _ _ _ Ft E). rewrite !wrap_trunc. reflexivity.
Qed.

Theorem tie_a_crc64l : forall table data value, Forall (fun e => e < 2 ^ 64) table -> Forall (fun c => c < 2 ^ 8) data ->
  N.of_nat (length data) < 2 ^ 64 -> value < 2 ^ 64 ->
  CrcGen.a_crc64l table data (N.of_nat (length data)) value = a_crc_l W64 table data value.
Proof.
  intros table data value Ft _ Hlen Hv. unfold CrcGen.a_crc64l. cbv zeta. cbn [a_crc_m a_crc_l upd_m upd_l bits].
  apply (byte_loop (fun f => CrcGen.a_crc64l_loop1 f table data) data (crcl_byte 64 table) (fun v => v < 2 ^ 64)).
  - apply a_crc64l_eq; exact Ft.
  - reflexivity.
  - intros v c v1 _ _ U. unfold crcl_byte, tab_get in U. destruct (nth_error table _); [|discriminate]. injection U as <-. apply trunc_lt.
  - exact Hlen.
  - exact Hv.
Qed.
