/* C17 correspondence driver: one operation per input line, one canonical line per operation.
   Compiled against $VERIF_REPO/src/crc.c and hash.c (a_u*_rev come from a/a.h, inline).

   T <w> <m|l> <poly>            build the table (a_crc<w>{m,l}_init); prints all 256 entries
   C <init> <data>               CRC of data with the current table, one call
   S <init> <data> <k>           two calls: first k bytes, then the rest with the value carried over
   A <init> <data>               every split point 0..n (n+1 results)
   P <init> <data> <k1> <k2>     three calls (0..k1, k1..k2, k2..n)
   X <init>                      256 one-byte messages 00..ff from init (every table index once)
   R <w> <x>                     a_u<w>_rev
   H <b|s> <init> <data>         a_hash_bkdr_ / a_hash_sdbm_
   K <b|s> <init> <data> <k>     hash in two pieces
   Z <b|s> <init> <mem>          a_hash_bkdr / a_hash_sdbm on the bytes of mem (must contain a 00,
                                 otherwise "Z err": the call would read past the object)
   N <b|s> <init>                the string forms with a NULL pointer
   numbers are hex without prefix; data is a hex string or "-" for empty.
   The data buffers are exact-size heap blocks so that ASan sees any over-read. */
#define _POSIX_C_SOURCE 200809L
#include <sys/types.h>
#include "a/a.h"
#include "a/crc.h"
#include "a/hash.h"
#include <stdio.h>
#include <stdlib.h>
#include <string.h>
#include <inttypes.h>

static a_u8 t8[0x100];
static a_u16 t16[0x100];
static a_u32 t32[0x100];
static a_u64 t64[0x100];
static int cur_w = 0;
static int cur_l = 0;

static char *line = NULL;
static size_t cap = 0;

static unsigned char *parse_hex(char const *s, size_t *n)
{
    size_t len, i;
    unsigned char *p;
    if (s[0] == '-' && s[1] == 0)
    {
        *n = 0;
        return (unsigned char *)malloc(1); /* never dereferenced by correct code when n = 0 ... */
    }
    len = strlen(s) / 2;
    p = (unsigned char *)malloc(len ? len : 1);
    for (i = 0; i < len; ++i)
    {
        unsigned int v;
        sscanf(s + 2 * i, "%2x", &v);
        p[i] = (unsigned char)v;
    }
    *n = len;
    return p;
}

/* exact-size copy of a sub-range so that ASan catches reads outside the piece */
static unsigned char *piece(unsigned char const *p, size_t from, size_t to)
{
    size_t n = to - from;
    unsigned char *q = (unsigned char *)malloc(n ? n : 1);
    if (n) { memcpy(q, p + from, n); }
    return q;
}

static a_u64 crc_call_(unsigned char const *p, size_t n, a_u64 v);

/* every call sees the message at a different alignment: the bytes are copied to the END of an exactly sized block (reads past the
   message still hit ASan's redzone) whose start is 16-aligned, so the message starts at offset 0..7 modulo 8 in turn */
static a_u64 crc_call(unsigned char const *p, size_t n, a_u64 v)
{
    static unsigned rot;
    size_t const off = rot++ & 7;
    unsigned char *blk = (unsigned char *)malloc(off + n ? off + n : 1);
    a_u64 r;
    if (n) { memcpy(blk + off, p, n); }
    r = crc_call_(blk + off, n, v);
    free(blk);
    return r;
}

static a_u64 crc_call_(unsigned char const *p, size_t n, a_u64 v)
{
    switch (cur_w)
    {
    case 8: return a_crc8(t8, p, n, (a_u8)v);
    case 16: return cur_l ? a_crc16l(t16, p, n, (a_u16)v) : a_crc16m(t16, p, n, (a_u16)v);
    case 32: return cur_l ? a_crc32l(t32, p, n, (a_u32)v) : a_crc32m(t32, p, n, (a_u32)v);
    case 64: return cur_l ? a_crc64l(t64, p, n, v) : a_crc64m(t64, p, n, v);
    default: return 0;
    }
}

static a_u64 crc_range(unsigned char const *p, size_t from, size_t to, a_u64 v)
{
    unsigned char *q = piece(p, from, to);
    a_u64 r = crc_call(q, to - from, v);
    free(q);
    return r;
}

static a_u32 hash_len(int kind, unsigned char const *p, size_t n, a_u32 v)
{
    return kind == 'b' ? a_hash_bkdr_(p, n, v) : a_hash_sdbm_(p, n, v);
}

int main(void)
{
    ssize_t got;
    while ((got = getline(&line, &cap, stdin)) > 0)
    {
        char *tok[8];
        int nt = 0;
        char *s = strtok(line, " \t\r\n");
        while (s && nt < 8)
        {
            tok[nt++] = s;
            s = strtok(NULL, " \t\r\n");
        }
        if (nt == 0) { continue; }
        switch (tok[0][0])
        {
        case 'T':
        {
            int w = atoi(tok[1]), i;
            int l = tok[2][0] == 'l';
            a_u64 poly = strtoull(tok[3], NULL, 16);
            cur_w = w;
            cur_l = l;
            /* poison first: an entry the generator does not write must not look right by accident */
            memset(t8, 0xA5, sizeof(t8));
            memset(t16, 0xA5, sizeof(t16));
            memset(t32, 0xA5, sizeof(t32));
            memset(t64, 0xA5, sizeof(t64));
            printf("T %d %c %" PRIx64, w, l ? 'l' : 'm', poly);
            switch (w)
            {
            case 8:
                if (l) { a_crc8l_init(t8, (a_u8)poly); }
                else { a_crc8m_init(t8, (a_u8)poly); }
                for (i = 0; i < 256; ++i) { printf(" %" PRIx64, (a_u64)t8[i]); }
                break;
            case 16:
                if (l) { a_crc16l_init(t16, (a_u16)poly); }
                else { a_crc16m_init(t16, (a_u16)poly); }
                for (i = 0; i < 256; ++i) { printf(" %" PRIx64, (a_u64)t16[i]); }
                break;
            case 32:
                if (l) { a_crc32l_init(t32, (a_u32)poly); }
                else { a_crc32m_init(t32, (a_u32)poly); }
                for (i = 0; i < 256; ++i) { printf(" %" PRIx64, (a_u64)t32[i]); }
                break;
            case 64:
                if (l) { a_crc64l_init(t64, poly); }
                else { a_crc64m_init(t64, poly); }
                for (i = 0; i < 256; ++i) { printf(" %" PRIx64, (a_u64)t64[i]); }
                break;
            default: break;
            }
            printf("\n");
            break;
        }
        case 'C':
        {
            size_t n;
            a_u64 init = strtoull(tok[1], NULL, 16);
            unsigned char *p = parse_hex(tok[2], &n);
            printf("C %" PRIx64 "\n", crc_range(p, 0, n, init));
            free(p);
            break;
        }
        case 'S':
        {
            size_t n, k;
            a_u64 init = strtoull(tok[1], NULL, 16), v;
            unsigned char *p = parse_hex(tok[2], &n);
            k = (size_t)strtoull(tok[3], NULL, 10);
            if (k > n) { k = n; }
            v = crc_range(p, 0, k, init);
            v = crc_range(p, k, n, v);
            printf("S %" PRIx64 "\n", v);
            free(p);
            break;
        }
        case 'P':
        {
            size_t n, k1, k2;
            a_u64 init = strtoull(tok[1], NULL, 16), v;
            unsigned char *p = parse_hex(tok[2], &n);
            k1 = (size_t)strtoull(tok[3], NULL, 10);
            k2 = (size_t)strtoull(tok[4], NULL, 10);
            if (k2 > n) { k2 = n; }
            if (k1 > k2) { k1 = k2; }
            v = crc_range(p, 0, k1, init);
            v = crc_range(p, k1, k2, v);
            v = crc_range(p, k2, n, v);
            printf("P %" PRIx64 "\n", v);
            free(p);
            break;
        }
        case 'A':
        {
            size_t n, k;
            a_u64 init = strtoull(tok[1], NULL, 16);
            unsigned char *p = parse_hex(tok[2], &n);
            printf("A");
            for (k = 0; k <= n; ++k)
            {
                a_u64 v = crc_range(p, 0, k, init);
                v = crc_range(p, k, n, v);
                printf(" %" PRIx64, v);
            }
            printf("\n");
            free(p);
            break;
        }
        case 'X':
        {
            unsigned int b;
            a_u64 init = strtoull(tok[1], NULL, 16);
            printf("X");
            for (b = 0; b < 256; ++b)
            {
                unsigned char *q = (unsigned char *)malloc(1);
                q[0] = (unsigned char)b;
                printf(" %" PRIx64, crc_call(q, 1, init));
                free(q);
            }
            printf("\n");
            break;
        }
        case 'R':
        {
            int w = atoi(tok[1]);
            a_u64 x = strtoull(tok[2], NULL, 16), r = 0;
            switch (w)
            {
            case 8: r = a_u8_rev((a_u8)x); break;
            case 16: r = a_u16_rev((a_u16)x); break;
            case 32: r = a_u32_rev((a_u32)x); break;
            case 64: r = a_u64_rev(x); break;
            default: break;
            }
            printf("R %" PRIx64 "\n", r);
            break;
        }
        case 'H':
        {
            size_t n;
            a_u32 init = (a_u32)strtoull(tok[2], NULL, 16);
            unsigned char *p = parse_hex(tok[3], &n);
            printf("H %" PRIx32 "\n", hash_len(tok[1][0], p, n, init));
            free(p);
            break;
        }
        case 'K':
        {
            size_t n, k;
            a_u32 init = (a_u32)strtoull(tok[2], NULL, 16), v;
            unsigned char *p = parse_hex(tok[3], &n), *q;
            k = (size_t)strtoull(tok[4], NULL, 10);
            if (k > n) { k = n; }
            q = piece(p, 0, k);
            v = hash_len(tok[1][0], q, k, init);
            free(q);
            q = piece(p, k, n);
            v = hash_len(tok[1][0], q, n - k, v);
            free(q);
            printf("K %" PRIx32 "\n", v);
            free(p);
            break;
        }
        case 'Z':
        {
            size_t n;
            a_u32 init = (a_u32)strtoull(tok[2], NULL, 16);
            unsigned char *p = parse_hex(tok[3], &n);
            if (n == 0 || memchr(p, 0, n) == NULL) { printf("Z err\n"); }
            else
            {
                a_u32 v = tok[1][0] == 'b' ? a_hash_bkdr(p, init) : a_hash_sdbm(p, init);
                printf("Z %" PRIx32 "\n", v);
            }
            free(p);
            break;
        }
        case 'N':
        {
            a_u32 init = (a_u32)strtoull(tok[2], NULL, 16);
            a_u32 v = tok[1][0] == 'b' ? a_hash_bkdr(NULL, init) : a_hash_sdbm(NULL, init);
            printf("N %" PRIx32 "\n", v);
            break;
        }
        default:
            printf("? %s\n", tok[0]);
            break;
        }
    }
    free(line);
    return 0;
}
