(* C17 translator tie, part 4: a_hash_bkdr, a_hash_bkdr_, a_hash_sdbm, a_hash_sdbm_ (src/hash.c), inputs of ANY length. *)
Set Default Timeout 120.
From Coq Require Import NArith List Bool Lia.
From LibaV Require Import C17.CrcDefs C17.TieLemmas C19.IntDefs.
From LibaV Require C19.TieLemmas.
From Gen Require CrcGen.
Import ListNotations.
Local Open Scope N_scope.
Module T := LibaV.C19.TieLemmas.

(* a_hash_bkdr_ / a_hash_sdbm_ : `for (; siz; --siz, ++ptr) val = val * MUL + *ptr;` over a buffer of any length;
   a_hash_bkdr / a_hash_sdbm : `if (str) for (; *str; ++str) ...` over the cells found in memory (running off the modelled
   memory before a 0 cell is an error on both sides); the NULL case is the Gallina parameter str__null = true. *)

(* ---------------------------------------------------------------- a_hash_bkdr_ *)
Lemma bkdr_len_eq data : forall f n v p, True -> n <> 0 ->
  CrcGen.a_hash_bkdr__loop1 (S f) data n v p =
  match T.load data p with
  | None => None
  | Some c => match Some (hash_step 131 v c) with
              | None => None
              | Some v1 => CrcGen.a_hash_bkdr__loop1 f data (wrap 64 (n + 0x10000000000000000 - 1)) v1 (p + 1)
              end
  end.
Proof.
  intros f n v p _ Hn. cbn [CrcGen.a_hash_bkdr__loop1]. replace (n =? 0) with false by (symmetry; apply N.eqb_neq; exact Hn).
  change CrcGen.load with T.load. change CrcGen.wrap with wrap.
  destruct (T.load data p) as [c|]; [|reflexivity]. cbv zeta. rewrite hash_step_gen. reflexivity.
Qed.

Theorem tie_a_hash_bkdr_ : forall data val, Forall (fun c => c < 2 ^ 8) data -> N.of_nat (length data) < 2 ^ 64 -> val < 2 ^ 32 ->
  CrcGen.a_hash_bkdr_ data (N.of_nat (length data)) val = Some (a_hash_bkdr_ data val).
Proof.
  intros data val _ Hlen _. unfold CrcGen.a_hash_bkdr_, a_hash_bkdr_, hash_len, BKDR. cbv zeta.
  rewrite <- (crc_loop_total (hash_step 131) data val).
  apply (byte_loop (fun f => CrcGen.a_hash_bkdr__loop1 f data) data (fun v c => Some (hash_step 131 v c)) (fun _ => True)).
  - apply bkdr_len_eq.
  - reflexivity.
  - intros; exact I.
  - exact Hlen.
  - exact I.
Qed.

(* ---------------------------------------------------------------- a_hash_bkdr *)
Lemma bkdr_str_eq flag mem : forall f v p,
  CrcGen.a_hash_bkdr_loop1 (S f) flag mem v p =
  match T.load mem p with
  | None => None
  | Some c => if c =? 0 then Some (v, p) else CrcGen.a_hash_bkdr_loop1 f flag mem (hash_step 131 v c) (p + 1)
  end.
Proof.
  intros f v p. cbn [CrcGen.a_hash_bkdr_loop1]. change CrcGen.load with T.load. change CrcGen.wrap with wrap.
  destruct (T.load mem p) as [c|]; [|reflexivity]. destruct (c =? 0); [reflexivity|].
  cbv zeta. rewrite hash_step_gen. reflexivity.
Qed.

Theorem tie_a_hash_bkdr : forall mem val, Forall (fun c => c < 2 ^ 8) mem -> val < 2 ^ 32 ->
  CrcGen.a_hash_bkdr false mem val = a_hash_bkdr (Some mem) val.
Proof.
  intros mem val _ _. unfold CrcGen.a_hash_bkdr, a_hash_bkdr, hash_str_ptr, BKDR. cbv zeta.
  rewrite <- (str_loop (fun f => CrcGen.a_hash_bkdr_loop1 f false mem) mem 131 (bkdr_str_eq false mem) val).
  destruct (CrcGen.a_hash_bkdr_loop1 (S (length mem)) false mem val 0) as [[v p]|]; reflexivity.
Qed.

Theorem tie_a_hash_bkdr_null : forall mem val, val < 2 ^ 32 -> CrcGen.a_hash_bkdr true mem val = a_hash_bkdr None val.
Proof. intros mem val _. reflexivity. Qed.

(* ---------------------------------------------------------------- a_hash_sdbm_ *)
Lemma sdbm_len_eq data : forall f n v p, True -> n <> 0 ->
  CrcGen.a_hash_sdbm__loop1 (S f) data n v p =
  match T.load data p with
  | None => None
  | Some c => match Some (hash_step 65599 v c) with
              | None => None
              | Some v1 => CrcGen.a_hash_sdbm__loop1 f data (wrap 64 (n + 0x10000000000000000 - 1)) v1 (p + 1)
              end
  end.
Proof.
  intros f n v p _ Hn. cbn [CrcGen.a_hash_sdbm__loop1]. replace (n =? 0) with false by (symmetry; apply N.eqb_neq; exact Hn).
  change CrcGen.load with T.load. change CrcGen.wrap with wrap.
  destruct (T.load data p) as [c|]; [|reflexivity]. cbv zeta. rewrite hash_step_gen. reflexivity.
Qed.

Theorem tie_a_hash_sdbm_ : forall data val, Forall (fun c => c < 2 ^ 8) data -> N.of_nat (length data) < 2 ^ 64 -> val < 2 ^ 32 ->
  CrcGen.a_hash_sdbm_ data (N.of_nat (length data)) val = Some (a_hash_sdbm_ data val).
Proof.
  intros data val _ Hlen _. unfold CrcGen.a_hash_sdbm_, a_hash_sdbm_, hash_len, SDBM. cbv zeta.
  rewrite <- (crc_loop_total (hash_step 65599) data val).
  apply (byte_loop (fun f => CrcGen.a_hash_sdbm__loop1 f data) data (fun v c => Some (hash_step 65599 v c)) (fun _ => True)).
  - apply sdbm_len_eq.
  - reflexivity.
  - intros; exact I.
  - exact Hlen.
  - exact I.
Qed.

(* ---------------------------------------------------------------- a_hash_sdbm *)
Lemma sdbm_str_eq flag mem : forall f v p,
  CrcGen.a_hash_sdbm_loop1 (S f) flag mem v p =
  match T.load mem p with
  | None => None
  | Some c => if c =? 0 then Some (v, p) else CrcGen.a_hash_sdbm_loop1 f flag mem (hash_step 65599 v c) (p + 1)
  end.
Proof.
  intros f v p. cbn [CrcGen.a_hash_sdbm_loop1]. change CrcGen.load with T.load. change CrcGen.wrap with wrap.
  destruct (T.load mem p) as [c|]; [|reflexivity]. destruct (c =? 0); [reflexivity|].
  cbv zeta. rewrite hash_step_gen. reflexivity.
Qed.

Theorem tie_a_hash_sdbm : forall mem val, Forall (fun c => c < 2 ^ 8) mem -> val < 2 ^ 32 ->
  CrcGen.a_hash_sdbm false mem val = a_hash_sdbm (Some mem) val.
Proof.
  intros mem val _ _. unfold CrcGen.a_hash_sdbm, a_hash_sdbm, hash_str_ptr, SDBM. cbv zeta.
  rewrite <- (str_loop (fun f => CrcGen.a_hash_sdbm_loop1 f false mem) mem 65599 (sdbm_str_eq false mem) val).
  destruct (CrcGen.a_hash_sdbm_loop1 (S (length mem)) false mem val 0) as [[v p]|]; reflexivity.
Qed.

Theorem tie_a_hash_sdbm_null : forall mem val, val < 2 ^ 32 -> CrcGen.a_hash_sdbm true mem val = a_hash_sdbm None val.
Proof. intros mem val _. reflexivity. Qed.
