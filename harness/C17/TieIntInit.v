(* C17 translator tie, part 2: the eight table generators a_crc{8,16,32,64}{m,l}_init (src/crc.c).
   Generated shape: an outer Fixpoint over c = 0..255 (fuel 257) that runs an inner Fixpoint of 8 shift/xor rounds (fuel 9)
   and stores the (cast) result with the checked `store`.  Per function: the unfolding equation of the inner loop with the
   model's step (m_init_step / l_init_step), the one of the outer loop with the model's entry, then C17.TieLemmas.table_loop:
   for every 256-cell table and every polynomial the regenerated generator returns exactly the model's table. *)
Set Default Timeout 120.
From Coq Require Import NArith List Bool Lia.
From LibaV Require Import C17.CrcDefs C17.RevProofs C17.TieLemmas C19.IntDefs.
From LibaV Require C19.TieLemmas.
From Gen Require CrcGen TieIntRev.
Import ListNotations.
Local Open Scope N_scope.
Module T := LibaV.C19.TieLemmas.

(* the unfolding equation of a generated inner loop `for (b = 8; b; --b) { sig = ..; value <<= 1 / >>= 1; if (sig) value ^= poly; }` *)
Ltac inner_eq L :=
  intros; cbn [L]; destruct (_ =? 0); [reflexivity|]; cbv zeta; change CrcGen.wrap with wrap;
  unfold m_init_step, l_init_step; rewrite <- ?wrap_trunc; reflexivity.

(* the generated inner loop, started with b = 8 and fuel 9, returns the 8-fold iterate of the model's step *)
Ltac inner_run L S E :=
  let R := fresh "R" in
  pose proof (count_down L S E 9%nat 8) as R; cbv beta in R; rewrite R by (first [reflexivity | compute; lia]); clear R;
  change (N.to_nat 8) with 8%nat.

Ltac outer_open L c Hc :=
  cbn [L]; replace (c =? 0x100) with false by (symmetry; apply N.eqb_neq; lia); cbv zeta.


(* ---------------------------------------------------------------- a_crc8m_init *)
Lemma m8_inner poly : forall f b v, CrcGen.a_crc8m_init_loop2 (S f) poly b v =
  if b =? 0 then Some (b, v) else CrcGen.a_crc8m_init_loop2 f poly (wrap 32 (b + 0x100000000 - 1)) (m_init_step 8 32 poly v).
Proof. inner_eq CrcGen.a_crc8m_init_loop2. Qed.

Lemma m8_outer poly : poly < 2 ^ 8 -> forall f c t, c < 256 -> CrcGen.a_crc8m_init_loop1 (S f) poly c t =
  match T.store t c (m_init_entry W8 poly c) with None => None | Some t1 => CrcGen.a_crc8m_init_loop1 f poly (wrap 32 (c + 1)) t1 end.
Proof.
  intros Hp f c t Hc. outer_open CrcGen.a_crc8m_init_loop1 c Hc. inner_run (fun f => CrcGen.a_crc8m_init_loop2 f poly) (m_init_step 8 32 poly) (m8_inner poly).
  change CrcGen.wrap with wrap. rewrite m_entry_8 by (eapply N.lt_trans; [exact Hc|reflexivity]). reflexivity.
Qed.

Theorem tie_a_crc8m_init : forall table poly, length table = 256%nat -> poly < 2 ^ 8 ->
  CrcGen.a_crc8m_init table poly = Some (a_crc_m_init W8 poly).
Proof.
  intros table poly Ht Hp. unfold a_crc_m_init. unfold CrcGen.a_crc8m_init. cbv zeta.
  pose proof (table_loop (fun f => CrcGen.a_crc8m_init_loop1 f poly) (m_init_entry W8 poly) 32) as R. cbv beta in R.
  rewrite R; [reflexivity|discriminate|apply m8_outer, Hp|reflexivity|exact Ht].
Qed.

(* ---------------------------------------------------------------- a_crc8l_init *)
Lemma l8_inner rp : forall f b v, CrcGen.a_crc8l_init_loop2 (S f) rp b v =
  if b =? 0 then Some (b, v) else CrcGen.a_crc8l_init_loop2 f rp (wrap 32 (b + 0x100000000 - 1)) (l_init_step rp v).
Proof. inner_eq CrcGen.a_crc8l_init_loop2. Qed.

Lemma l8_outer rp : rp < 2 ^ 8 -> forall f c t, c < 256 -> CrcGen.a_crc8l_init_loop1 (S f) rp c t =
  match T.store t c (l_init_entry W8 rp c) with None => None | Some t1 => CrcGen.a_crc8l_init_loop1 f rp (wrap 32 (c + 1)) t1 end.
Proof.
  intros Hr f c t Hc. outer_open CrcGen.a_crc8l_init_loop1 c Hc. inner_run (fun f => CrcGen.a_crc8l_init_loop2 f rp) (l_init_step rp) (l8_inner rp).
  change CrcGen.wrap with wrap. replace (wrap 8 (iter 8 (l_init_step rp) c)) with (l_init_entry W8 rp c) by (symmetry; apply (l_entry_cast W8)). reflexivity.
Qed.

Theorem tie_a_crc8l_init : forall table poly, length table = 256%nat -> poly < 2 ^ 8 ->
  CrcGen.a_crc8l_init table poly = Some (a_crc_l_init W8 poly).
Proof.
  intros table poly Ht Hp. unfold a_crc_l_init. cbv zeta. cbn [a_rev].
  unfold CrcGen.a_crc8l_init. rewrite (TieIntRev.tie_a_u8_rev poly Hp). cbv zeta.
  pose proof (table_loop (fun f => CrcGen.a_crc8l_init_loop1 f (a_u8_rev poly)) (l_init_entry W8 (a_u8_rev poly)) 32) as R. cbv beta in R.
  rewrite R; [reflexivity|discriminate|apply l8_outer, (a_rev_lt W8 poly Hp)|reflexivity|exact Ht].
Qed.

(* ---------------------------------------------------------------- a_crc16m_init *)
Lemma m16_inner poly : forall f b v, CrcGen.a_crc16m_init_loop2 (S f) poly b v =
  if b =? 0 then Some (b, v) else CrcGen.a_crc16m_init_loop2 f poly (wrap 32 (b + 0x100000000 - 1)) (m_init_step 16 32 poly v).
Proof. inner_eq CrcGen.a_crc16m_init_loop2. Qed.

Lemma m16_outer poly : poly < 2 ^ 16 -> forall f c t, c < 256 -> CrcGen.a_crc16m_init_loop1 (S f) poly c t =
  match T.store t c (m_init_entry W16 poly c) with None => None | Some t1 => CrcGen.a_crc16m_init_loop1 f poly (wrap 32 (c + 1)) t1 end.
Proof.
  intros Hp f c t Hc. outer_open CrcGen.a_crc16m_init_loop1 c Hc. inner_run (fun f => CrcGen.a_crc16m_init_loop2 f poly) (m_init_step 16 32 poly) (m16_inner poly).
  change CrcGen.wrap with wrap. rewrite m_entry_16. reflexivity.
Qed.

Theorem tie_a_crc16m_init : forall table poly, length table = 256%nat -> poly < 2 ^ 16 ->
  CrcGen.a_crc16m_init table poly = Some (a_crc_m_init W16 poly).
Proof.
  intros table poly Ht Hp. unfold a_crc_m_init. unfold CrcGen.a_crc16m_init. cbv zeta.
  pose proof (table_loop (fun f => CrcGen.a_crc16m_init_loop1 f poly) (m_init_entry W16 poly) 32) as R. cbv beta in R.
  rewrite R; [reflexivity|discriminate|apply m16_outer, Hp|reflexivity|exact Ht].
Qed.

(* ---------------------------------------------------------------- a_crc16l_init *)
Lemma l16_inner rp : forall f b v, CrcGen.a_crc16l_init_loop2 (S f) rp b v =
  if b =? 0 then Some (b, v) else CrcGen.a_crc16l_init_loop2 f rp (wrap 32 (b + 0x100000000 - 1)) (l_init_step rp v).
Proof. inner_eq CrcGen.a_crc16l_init_loop2. Qed.

Lemma l16_outer rp : rp < 2 ^ 16 -> forall f c t, c < 256 -> CrcGen.a_crc16l_init_loop1 (S f) rp c t =
  match T.store t c (l_init_entry W16 rp c) with None => None | Some t1 => CrcGen.a_crc16l_init_loop1 f rp (wrap 32 (c + 1)) t1 end.
Proof.
  intros Hr f c t Hc. outer_open CrcGen.a_crc16l_init_loop1 c Hc. inner_run (fun f => CrcGen.a_crc16l_init_loop2 f rp) (l_init_step rp) (l16_inner rp).
  change CrcGen.wrap with wrap. replace (wrap 16 (iter 8 (l_init_step rp) c)) with (l_init_entry W16 rp c) by (symmetry; apply (l_entry_cast W16)). reflexivity.
Qed.

Theorem tie_a_crc16l_init : forall table poly, length table = 256%nat -> poly < 2 ^ 16 ->
  CrcGen.a_crc16l_init table poly = Some (a_crc_l_init W16 poly).
Proof.
  intros table poly Ht Hp. unfold a_crc_l_init. cbv zeta. cbn [a_rev].
  unfold CrcGen.a_crc16l_init. rewrite (TieIntRev.tie_a_u16_rev poly Hp). cbv zeta.
  pose proof (table_loop (fun f => CrcGen.a_crc16l_init_loop1 f (a_u16_rev poly)) (l_init_entry W16 (a_u16_rev poly)) 32) as R. cbv beta in R.
  rewrite R; [reflexivity|discriminate|apply l16_outer, (a_rev_lt W16 poly Hp)|reflexivity|exact Ht].
Qed.

(* ---------------------------------------------------------------- a_crc32m_init *)
Lemma m32_inner poly : forall f b v, CrcGen.a_crc32m_init_loop2 (S f) poly b v =
  if b =? 0 then Some (b, v) else CrcGen.a_crc32m_init_loop2 f poly (wrap 32 (b + 0x100000000 - 1)) (m_init_step 32 32 poly v).
Proof. inner_eq CrcGen.a_crc32m_init_loop2. Qed.

Lemma m32_outer poly : poly < 2 ^ 32 -> forall f c t, c < 256 -> CrcGen.a_crc32m_init_loop1 (S f) poly c t =
  match T.store t c (m_init_entry W32 poly c) with None => None | Some t1 => CrcGen.a_crc32m_init_loop1 f poly (wrap 32 (c + 1)) t1 end.
Proof.
  intros Hp f c t Hc. outer_open CrcGen.a_crc32m_init_loop1 c Hc. inner_run (fun f => CrcGen.a_crc32m_init_loop2 f poly) (m_init_step 32 32 poly) (m32_inner poly).
  change CrcGen.wrap with wrap. rewrite m_entry_32 by exact Hp. reflexivity.
Qed.

Theorem tie_a_crc32m_init : forall table poly, length table = 256%nat -> poly < 2 ^ 32 ->
  CrcGen.a_crc32m_init table poly = Some (a_crc_m_init W32 poly).
Proof.
  intros table poly Ht Hp. unfold a_crc_m_init. unfold CrcGen.a_crc32m_init. cbv zeta.
  pose proof (table_loop (fun f => CrcGen.a_crc32m_init_loop1 f poly) (m_init_entry W32 poly) 32) as R. cbv beta in R.
  rewrite R; [reflexivity|discriminate|apply m32_outer, Hp|reflexivity|exact Ht].
Qed.

(* ---------------------------------------------------------------- a_crc32l_init *)
Lemma l32_inner rp : forall f b v, CrcGen.a_crc32l_init_loop2 (S f) rp b v =
  if b =? 0 then Some (b, v) else CrcGen.a_crc32l_init_loop2 f rp (wrap 32 (b + 0x100000000 - 1)) (l_init_step rp v).
Proof. inner_eq CrcGen.a_crc32l_init_loop2. Qed.

Lemma l32_outer rp : rp < 2 ^ 32 -> forall f c t, c < 256 -> CrcGen.a_crc32l_init_loop1 (S f) rp c t =
  match T.store t c (l_init_entry W32 rp c) with None => None | Some t1 => CrcGen.a_crc32l_init_loop1 f rp (wrap 32 (c + 1)) t1 end.
Proof.
  intros Hr f c t Hc. outer_open CrcGen.a_crc32l_init_loop1 c Hc. inner_run (fun f => CrcGen.a_crc32l_init_loop2 f rp) (l_init_step rp) (l32_inner rp).
  change CrcGen.wrap with wrap. rewrite (l_entry_full W32 rp c) by first [exact Hr | eapply N.lt_trans; [exact Hc|reflexivity]]. reflexivity.
Qed.

Theorem tie_a_crc32l_init : forall table poly, length table = 256%nat -> poly < 2 ^ 32 ->
  CrcGen.a_crc32l_init table poly = Some (a_crc_l_init W32 poly).
Proof.
  intros table poly Ht Hp. unfold a_crc_l_init. cbv zeta. cbn [a_rev].
  unfold CrcGen.a_crc32l_init. rewrite (TieIntRev.tie_a_u32_rev poly Hp). cbv zeta.
  pose proof (table_loop (fun f => CrcGen.a_crc32l_init_loop1 f (a_u32_rev poly)) (l_init_entry W32 (a_u32_rev poly)) 32) as R. cbv beta in R.
  rewrite R; [reflexivity|discriminate|apply l32_outer, (a_rev_lt W32 poly Hp)|reflexivity|exact Ht].
Qed.

(* ---------------------------------------------------------------- a_crc64m_init *)
Lemma m64_inner poly : forall f b v, CrcGen.a_crc64m_init_loop2 (S f) poly b v =
  if b =? 0 then Some (b, v) else CrcGen.a_crc64m_init_loop2 f poly (wrap 32 (b + 0x100000000 - 1)) (m_init_step 64 64 poly v).
Proof. inner_eq CrcGen.a_crc64m_init_loop2. Qed.

Lemma m64_outer poly : poly < 2 ^ 64 -> forall f c t, c < 256 -> CrcGen.a_crc64m_init_loop1 (S f) poly c t =
  match T.store t c (m_init_entry W64 poly c) with None => None | Some t1 => CrcGen.a_crc64m_init_loop1 f poly (wrap 64 (c + 1)) t1 end.
Proof.
  intros Hp f c t Hc. outer_open CrcGen.a_crc64m_init_loop1 c Hc. inner_run (fun f => CrcGen.a_crc64m_init_loop2 f poly) (m_init_step 64 64 poly) (m64_inner poly).
  change CrcGen.wrap with wrap. rewrite m_entry_64 by exact Hp. reflexivity.
Qed.

Theorem tie_a_crc64m_init : forall table poly, length table = 256%nat -> poly < 2 ^ 64 ->
  CrcGen.a_crc64m_init table poly = Some (a_crc_m_init W64 poly).
Proof.
  intros table poly Ht Hp. unfold a_crc_m_init. unfold CrcGen.a_crc64m_init. cbv zeta.
  pose proof (table_loop (fun f => CrcGen.a_crc64m_init_loop1 f poly) (m_init_entry W64 poly) 64) as R. cbv beta in R.
  rewrite R; [reflexivity|discriminate|apply m64_outer, Hp|reflexivity|exact Ht].
Qed.

(* ---------------------------------------------------------------- a_crc64l_init *)
Lemma l64_inner rp : forall f b v, CrcGen.a_crc64l_init_loop2 (S f) rp b v =
  if b =? 0 then Some (b, v) else CrcGen.a_crc64l_init_loop2 f rp (wrap 32 (b + 0x100000000 - 1)) (l_init_step rp v).
Proof. inner_eq CrcGen.a_crc64l_init_loop2. Qed.

Lemma l64_outer rp : rp < 2 ^ 64 -> forall f c t, c < 256 -> CrcGen.a_crc64l_init_loop1 (S f) rp c t =
  match T.store t c (l_init_entry W64 rp c) with None => None | Some t1 => CrcGen.a_crc64l_init_loop1 f rp (wrap 32 (c + 1)) t1 end.
Proof.
  intros Hr f c t Hc. outer_open CrcGen.a_crc64l_init_loop1 c Hc. inner_run (fun f => CrcGen.a_crc64l_init_loop2 f rp) (l_init_step rp) (l64_inner rp).
  change CrcGen.wrap with wrap. rewrite (l_entry_full W64 rp c) by first [exact Hr | eapply N.lt_trans; [exact Hc|reflexivity]]. reflexivity.
Qed.

Theorem tie_a_crc64l_init : forall table poly, length table = 256%nat -> poly < 2 ^ 64 ->
  CrcGen.a_crc64l_init table poly = Some (a_crc_l_init W64 poly).
Proof.
  intros table poly Ht Hp. unfold a_crc_l_init. cbv zeta. cbn [a_rev].
  unfold CrcGen.a_crc64l_init. rewrite (TieIntRev.tie_a_u64_rev poly Hp). cbv zeta.
  pose proof (table_loop (fun f => CrcGen.a_crc64l_init_loop1 f (a_u64_rev poly)) (l_init_entry W64 (a_u64_rev poly)) 32) as R. cbv beta in R.
  rewrite R; [reflexivity|discriminate|apply l64_outer, (a_rev_lt W64 poly Hp)|reflexivity|exact Ht].
Qed.
