(* C17 model driver: same line protocol as harness/C17/drv.c, evaluated by the extracted Gallina
   model (coq/C17/extracted/crcmodel.ml).  Only parsing/printing is hand written here. *)
open Crcmodel

(* ---- conversions between hex text and the extracted N (bit by bit; no OCaml int involved) *)
let hexval c =
  match c with
  | '0' .. '9' -> Char.code c - 48
  | 'a' .. 'f' -> Char.code c - 87
  | 'A' .. 'F' -> Char.code c - 55
  | _ -> failwith "bad hex digit"

(* bits, most significant first *)
let bits_of_hex (s : string) : bool list =
  let l = ref [] in
  for i = String.length s - 1 downto 0 do
    let v = hexval s.[i] in
    (* prepend the 4 bits of this digit so that the final list is MSB first *)
    l := ((v land 8) <> 0) :: ((v land 4) <> 0) :: ((v land 2) <> 0) :: ((v land 1) <> 0) :: !l
  done;
  !l

let n_of_bits (bs : bool list) : n =
  (* MSB first *)
  let rec go acc bs =
    match bs with
    | [] -> acc
    | b :: r ->
      let acc' =
        match acc with
        | N0 -> if b then Npos XH else N0
        | Npos p -> if b then Npos (XI p) else Npos (XO p)
      in
      go acc' r
  in
  go N0 bs

let n_of_hex s = n_of_bits (bits_of_hex s)

let n_of_int (i : int) : n = n_of_hex (Printf.sprintf "%x" i)

(* LSB-first bits of a positive *)
let rec pos_bits p = match p with XH -> [ true ] | XO q -> false :: pos_bits q | XI q -> true :: pos_bits q

let hex_of_n (x : n) : string =
  match x with
  | N0 -> "0"
  | Npos p ->
    let bs = Array.of_list (pos_bits p) in
    let nb = Array.length bs in
    let nd = (nb + 3) / 4 in
    let b = Buffer.create nd in
    for d = nd - 1 downto 0 do
      let v = ref 0 in
      for j = 3 downto 0 do
        let i = (4 * d) + j in
        v := (2 * !v) + if i < nb && bs.(i) then 1 else 0
      done;
      Buffer.add_char b "0123456789abcdef".[!v]
    done;
    Buffer.contents b

let data_of_hex (s : string) : n list =
  if s = "-" then []
  else begin
    let n = String.length s / 2 in
    let l = ref [] in
    for i = n - 1 downto 0 do
      l := n_of_hex (String.sub s (2 * i) 2) :: !l
    done;
    !l
  end

let rec firstn k l = if k <= 0 then [] else match l with [] -> [] | x :: r -> x :: firstn (k - 1) r
let rec skipn k l = if k <= 0 then l else match l with [] -> [] | _ :: r -> skipn (k - 1) r

let width_of_int w = match w with 8 -> W8 | 16 -> W16 | 32 -> W32 | 64 -> W64 | _ -> failwith "bad width"

let cur_k = ref W8
let cur_l = ref false
let cur_t : n list ref = ref []

let crc data v = if !cur_l then a_crc_l !cur_k !cur_t data v else a_crc_m !cur_k !cur_t data v

let show o = match o with Some v -> hex_of_n v | None -> "err"

let hmul kind = kind.[0] = 'b'

let () =
  let out = Buffer.create 65536 in
  (try
     while true do
       let ln = input_line stdin in
       let tok = Array.of_list (List.filter (fun s -> s <> "") (String.split_on_char ' ' (String.trim ln))) in
       if Array.length tok > 0 then begin
         (match tok.(0).[0] with
          | 'T' ->
            let w = int_of_string tok.(1) in
            let k = width_of_int w in
            let l = tok.(2).[0] = 'l' in
            let poly = n_of_hex tok.(3) in
            cur_k := k;
            cur_l := l;
            cur_t := if l then a_crc_l_init k poly else a_crc_m_init k poly;
            Buffer.add_string out (Printf.sprintf "T %d %c %s" w (if l then 'l' else 'm') (hex_of_n poly));
            List.iter (fun e -> Buffer.add_char out ' '; Buffer.add_string out (hex_of_n e)) !cur_t;
            Buffer.add_char out '\n'
          | 'C' ->
            let init = n_of_hex tok.(1) and data = data_of_hex tok.(2) in
            Buffer.add_string out ("C " ^ show (crc data init) ^ "\n")
          | 'S' ->
            let init = n_of_hex tok.(1) and data = data_of_hex tok.(2) in
            let k = int_of_string tok.(3) in
            let k = min k (List.length data) in
            let r = obind (crc (firstn k data) init) (fun v -> crc (skipn k data) v) in
            Buffer.add_string out ("S " ^ show r ^ "\n")
          | 'P' ->
            let init = n_of_hex tok.(1) and data = data_of_hex tok.(2) in
            let n = List.length data in
            let k2 = min (int_of_string tok.(4)) n in
            let k1 = min (int_of_string tok.(3)) k2 in
            let r =
              obind (crc (firstn k1 data) init) (fun v ->
                  obind (crc (firstn (k2 - k1) (skipn k1 data)) v) (fun v2 -> crc (skipn k2 data) v2))
            in
            Buffer.add_string out ("P " ^ show r ^ "\n")
          | 'A' ->
            let init = n_of_hex tok.(1) and data = data_of_hex tok.(2) in
            let n = List.length data in
            Buffer.add_string out "A";
            for k = 0 to n do
              let r = obind (crc (firstn k data) init) (fun v -> crc (skipn k data) v) in
              Buffer.add_char out ' ';
              Buffer.add_string out (show r)
            done;
            Buffer.add_char out '\n'
          | 'X' ->
            let init = n_of_hex tok.(1) in
            Buffer.add_string out "X";
            for b = 0 to 255 do
              Buffer.add_char out ' ';
              Buffer.add_string out (show (crc [ n_of_int b ] init))
            done;
            Buffer.add_char out '\n'
          | 'R' ->
            let k = width_of_int (int_of_string tok.(1)) in
            Buffer.add_string out ("R " ^ hex_of_n (a_rev k (n_of_hex tok.(2))) ^ "\n")
          | 'H' ->
            let init = n_of_hex tok.(2) and data = data_of_hex tok.(3) in
            let r = if hmul tok.(1) then a_hash_bkdr_ data init else a_hash_sdbm_ data init in
            Buffer.add_string out ("H " ^ hex_of_n r ^ "\n")
          | 'K' ->
            let init = n_of_hex tok.(2) and data = data_of_hex tok.(3) in
            let k = min (int_of_string tok.(4)) (List.length data) in
            let f d v = if hmul tok.(1) then a_hash_bkdr_ d v else a_hash_sdbm_ d v in
            Buffer.add_string out ("K " ^ hex_of_n (f (skipn k data) (f (firstn k data) init)) ^ "\n")
          | 'Z' ->
            let init = n_of_hex tok.(2) and mem = data_of_hex tok.(3) in
            let r = if hmul tok.(1) then a_hash_bkdr (Some mem) init else a_hash_sdbm (Some mem) init in
            Buffer.add_string out ("Z " ^ show r ^ "\n")
          | 'N' ->
            let init = n_of_hex tok.(2) in
            let r = if hmul tok.(1) then a_hash_bkdr None init else a_hash_sdbm None init in
            Buffer.add_string out ("N " ^ show r ^ "\n")
          | _ -> Buffer.add_string out ("? " ^ tok.(0) ^ "\n"));
         if Buffer.length out > 60000 then begin
           print_string (Buffer.contents out);
           Buffer.clear out
         end
       end
     done
   with End_of_file -> ());
  print_string (Buffer.contents out)
