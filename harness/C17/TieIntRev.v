(* C17 translator tie, part 1: a_u8_rev .. a_u64_rev (include/a/a.h) against the copies of coq/C17/CrcDefs.v.
   Gen.CrcGen is REGENERATED from the current sources by tools/c2int.py on every run; each theorem says the regenerated
   function returns the model's value for ALL words.  (The 8/16-bit versions compute in int: the overflow checks c2int writes
   for their left shifts are discharged from the operand ranges.)  Imported by TieIntInit.v (the l generators call them). *)
Set Default Timeout 120.
From Coq Require Import NArith List Bool Lia.
From LibaV Require Import C17.CrcDefs C17.TieLemmas C19.IntDefs.
From LibaV Require C19.TieLemmas.
From Gen Require CrcGen.
Import ListNotations.
Local Open Scope N_scope.
Module T := LibaV.C19.TieLemmas.

(* reduce the outermost `let` of the left / right hand side only *)
Ltac zeta1 :=
  lazymatch goal with
  | |- (let x := ?e in @?f x) = ?R => change (f e = R); cbv beta
  end.
Ltac zeta1r :=
  lazymatch goal with
  | |- ?L = Some (let x := ?e in @?f x) => change (L = Some (f e)); cbv beta
  end.

(* one line of a_u*_rev: name the value of the line (the same term on both sides once `wrap` is read as `trunc`) *)
Ltac line :=
  rewrite ?wrap_trunc;
  lazymatch goal with
  | |- (let x := ?e in _) = _ => let y := fresh "y" in set (y := e); zeta1; try zeta1r
  end.
(* the int overflow check c2int writes for `(x & m) << k` in a_u8_rev / a_u16_rev (operands promoted to int) *)
Ltac shlok :=
  rewrite (T.shl_int_ok _ _ 16) by first [eassumption | apply T.land_mask_lt; reflexivity | reflexivity]; cbv iota.

Theorem tie_a_u8_rev : forall x, x < 2 ^ 8 -> CrcGen.a_u8_rev x = Some (a_u8_rev x).
Proof.
  intros x Hx. assert (Hx' : x < 2 ^ 16) by (eapply T.pow2_le_lt; [exact Hx|reflexivity]).
  cbv beta delta [CrcGen.a_u8_rev a_u8_rev]. change CrcGen.wrap with wrap.
  shlok. line. shlok. line. shlok. line. reflexivity.
Qed.

Theorem tie_a_u16_rev : forall x, x < 2 ^ 16 -> CrcGen.a_u16_rev x = Some (a_u16_rev x).
Proof.
  intros x Hx. cbv beta delta [CrcGen.a_u16_rev a_u16_rev]. change CrcGen.wrap with wrap.
  shlok. line. shlok. line. shlok. line. shlok. line. reflexivity.
Qed.

Theorem tie_a_u32_rev : forall x, x < 2 ^ 32 -> CrcGen.a_u32_rev x = Some (a_u32_rev x).
Proof.
  intros x Hx. cbv beta delta [CrcGen.a_u32_rev a_u32_rev]. change CrcGen.wrap with wrap.
  line. line. line. line. line. reflexivity.
Qed.

Theorem tie_a_u64_rev : forall x, x < 2 ^ 64 -> CrcGen.a_u64_rev x = Some (a_u64_rev x).
Proof.
  intros x Hx. cbv beta delta [CrcGen.a_u64_rev a_u64_rev]. change CrcGen.wrap with wrap.
  line. line. line. line. line. line. reflexivity.
Qed.
