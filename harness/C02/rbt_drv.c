/* C02 correspondence harness: drives liba's red-black tree (src/rbt.c of the CURRENT tree) with the
   histories of a case file and prints one canonical line per operation.

   case file (stdin):   H <n>            new case: empty tree, all nodes free
                        I <key> <id>     a_rbt_insert of node <id> (id >= 1) carrying <key>
                        R <key>          node = a_rbt_search(key); if (node) a_rbt_remove(root, node)
                        S <key>          a_rbt_search(key)
   output (stdout):     H <n>
                        <op> <ret> root=<id> n=<count> | <id>:<left>,<right>,<parent>,<colour> ...
   Nodes are listed in in-order (walk of left/right pointers from root->node); 0 is the null pointer;
   colour is bit 0 of parent_ (0 red, 1 black; the field `color` when built with A_SIZE_POINTER <= 1);
   parent is a_rbt_parent().  Unless argv[1] is "full",
   a node is listed only when its record differs from the one printed last for the same id in this
   case (delta dump), so a line is short while every op is still compared on the whole structure.
   A node reached twice in one walk prints "CYCLE" and ends the walk (only possible if rbt.c is broken). */
#define _POSIX_C_SOURCE 200809L /* alarm(): a library loop that does not terminate must end the run, not hang the check */
#include "a/rbt.h"
#include <stdio.h>
#include <stdlib.h>
#include <string.h>
#include <unistd.h>

typedef struct
{
    a_rbt_node node;
    long key;
    int id;
    unsigned long stamp;
    int has_last;
    int last[4];
} item;

static item **items;
static int cap;
static a_rbt root;
static unsigned long stamp;
static int full;
static long count;
static int cycle;

static item *entry(void const *p)
{
    return (item *)((char *)(a_uptr)p - offsetof(item, node));
}

static int cmp(void const *lhs, void const *rhs)
{
    /* the documented contract is <0 / ==0 / >0, not -1 / 0 / +1: the magnitude varies with the keys (seeded change C01-18) */
    long a = entry(lhs)->key, b = entry(rhs)->key;
    int const mag = 1 + (int)(((unsigned long)a * 7u + (unsigned long)b * 13u) % 1000u);
    return a > b ? mag : a < b ? -mag : 0;
}

static item *get(int id)
{
    if (id >= cap)
    {
        int ncap = cap ? cap : 64, i;
        while (ncap <= id) { ncap *= 2; }
        items = (item **)realloc(items, sizeof(item *) * (size_t)ncap);
        for (i = cap; i < ncap; ++i) { items[i] = 0; }
        cap = ncap;
    }
    if (!items[id])
    {
        items[id] = (item *)calloc(1, sizeof(item));
        items[id]->id = id;
    }
    return items[id];
}

static int idof(a_rbt_node const *n) { return n ? entry(n)->id : 0; }

static void walk(a_rbt_node *n)
{
    item *it;
    int rec[4];
    if (!n || cycle) { return; }
    it = entry(n);
    if (it->stamp == stamp)
    {
        cycle = 1;
        fputs(" CYCLE", stdout);
        return;
    }
    it->stamp = stamp;
    walk(n->left);
    if (cycle) { return; }
    ++count;
    rec[0] = idof(n->left);
    rec[1] = idof(n->right);
    rec[2] = idof(a_rbt_parent(n));
#if defined(A_SIZE_POINTER) && (A_SIZE_POINTER + 0 > 1)
    rec[3] = (int)(n->parent_ & 1);
#else /* the configuration with separate parent / color fields */
    rec[3] = (int)n->color;
#endif
    if (full || !it->has_last || memcmp(rec, it->last, sizeof(rec)) != 0)
    {
        printf(" %d:%d,%d,%d,%d", it->id, rec[0], rec[1], rec[2], rec[3]);
    }
    memcpy(it->last, rec, sizeof(rec));
    it->has_last = 1;
    walk(n->right);
}

/* first pass counts the reachable nodes so that n= can be printed before the records */
static long count_nodes(a_rbt_node *n)
{
    item *it;
    if (!n) { return 0; }
    it = entry(n);
    if (it->stamp == stamp) { return 0; }
    it->stamp = stamp;
    return count_nodes(n->left) + 1 + count_nodes(n->right);
}

static void dump(char const *op, char const *ret)
{
    long n;
    ++stamp;
    n = count_nodes(root.node);
    ++stamp;
    count = 0;
    cycle = 0;
    printf("%s %s root=%d n=%ld |", op, ret, idof(root.node), n);
    walk(root.node);
    putchar('\n');
    if (full) { fflush(stdout); } /* single-case replays: keep every line before a crash */
}

int main(int argc, char *argv[])
{
    char line[256], ret[64];
    int i;
    full = argc > 1 && strcmp(argv[1], "full") == 0;
    a_rbt_root(&root);
    while (fgets(line, sizeof(line), stdin))
    {
        alarm(10); /* watchdog per input line: SIGALRM ends the process, the check restarts after the case */
        long key;
        int id;
        if (line[0] == 'H')
        {
            a_rbt_root(&root);
            for (i = 0; i < cap; ++i)
            {
                if (items[i]) { items[i]->has_last = 0; }
            }
            fflush(stdout); /* so that a crash / hang is attributed to the right case */
            fputs(line, stdout);
            if (!strchr(line, '\n')) { putchar('\n'); }
        }
        else if (line[0] == 'I' && sscanf(line + 1, "%ld %d", &key, &id) == 2 && id >= 1)
        {
            item *it = get(id);
            a_rbt_node *res;
            it->key = key;
            it->has_last = 0;
            res = a_rbt_insert(&root, &it->node, cmp);
            if (res) { sprintf(ret, "dup:%d", idof(res)); }
            else { strcpy(ret, "ok"); }
            dump("i", ret);
        }
        else if (line[0] == 'R' && sscanf(line + 1, "%ld", &key) == 1)
        {
            item probe;
            a_rbt_node *res;
            memset(&probe, 0, sizeof(probe));
            probe.key = key;
            res = a_rbt_search(&root, &probe.node, cmp);
            if (res)
            {
                a_rbt_remove(&root, res);
                entry(res)->has_last = 0;
                sprintf(ret, "rm:%d", idof(res));
            }
            else { strcpy(ret, "none"); }
            dump("r", ret);
        }
        else if (line[0] == 'S' && sscanf(line + 1, "%ld", &key) == 1)
        {
            item probe;
            a_rbt_node *res;
            memset(&probe, 0, sizeof(probe));
            probe.key = key;
            res = a_rbt_search(&root, &probe.node, cmp);
            if (res) { sprintf(ret, "found:%d", idof(res)); }
            else { strcpy(ret, "none"); }
            dump("s", ret);
        }
        else if (line[0] == '#' || line[0] == '\n') {}
        else { puts("E bad line"); }
    }
    fflush(stdout);
    for (i = 0; i < cap; ++i) { free(items[i]); }
    free(items);
    return 0;
}
