(* C02 model driver: runs the EXTRACTED Gallina model (Rbt.step / Rbt.heap_of / Rbt.root_id) on the case
   file read by harness/C02/rbt_drv.c and prints the same canonical lines.  Hand-written glue only:
   parsing, int <-> extracted positive/Z conversion, printing, delta bookkeeping; tag counting goes to
   stderr ("TAG <name> <count>", "NONTRIVIAL <cases>", "CASES <cases>", "OPS <ops>", "MAXN <nodes>"). *)
open Rbt

let rec pos_of_int n =
  if n = 1 then XH else if n land 1 = 0 then XO (pos_of_int (n lsr 1)) else XI (pos_of_int (n lsr 1))
let z_of_int n = if n = 0 then Z0 else if n > 0 then Zpos (pos_of_int n) else Zneg (pos_of_int (- n))
let rec int_of_pos = function XH -> 1 | XO p -> 2 * int_of_pos p | XI p -> 2 * int_of_pos p + 1
let int_of_ptr = function None -> 0 | Some p -> int_of_pos p

let tag_name = function
  | TI_link -> "I_link" | TI_dup -> "I_dup" | TI_root_black -> "I_root_black"
  | TI_parent_black -> "I_parent_black" | TI_parent_red -> "I_parent_red"
  | TI_case1_L -> "I_case1_L" | TI_case2_L -> "I_case2_L" | TI_case3_L -> "I_case3_L"
  | TI_case1_R -> "I_case1_R" | TI_case2_R -> "I_case2_R" | TI_case3_R -> "I_case3_R"
  | TI_case2_sub -> "I_case2_sub" | TI_case3_sub -> "I_case3_sub"
  | TF_case3_sub -> "F_case3_sub" | TF_case4_sub -> "F_case4_sub"
  | TU_leaf_red -> "U_leaf_red" | TU_leaf_black -> "U_leaf_black"
  | TU_right_only -> "U_right_only" | TU_left_only -> "U_left_only"
  | TU_succ_child -> "U_succ_child" | TU_succ_deep -> "U_succ_deep"
  | TU_child2 -> "U_child2" | TU_succ_black -> "U_succ_black" | TU_succ_red -> "U_succ_red"
  | TF_case1_L -> "F_case1_L" | TF_case2_red_L -> "F_case2_red_L" | TF_case2_black_L -> "F_case2_black_L"
  | TF_case3_L -> "F_case3_L" | TF_case4_L -> "F_case4_L"
  | TF_case1_R -> "F_case1_R" | TF_case2_red_R -> "F_case2_red_R" | TF_case2_black_R -> "F_case2_black_R"
  | TF_case3_R -> "F_case3_R" | TF_case4_R -> "F_case4_R"
  | TF_null_mirror -> "F_null_mirror" | TF_root -> "F_root"
  | TR_absent -> "R_absent" | TS_found -> "S_found" | TS_absent -> "S_absent"

(* a case is counted as non-trivial when it went through at least one rebalancing branch *)
let rebalancing = function
  | TI_case1_L | TI_case2_L | TI_case3_L | TI_case1_R | TI_case2_R | TI_case3_R
  | TF_case1_L | TF_case2_red_L | TF_case2_black_L | TF_case3_L | TF_case4_L
  | TF_case1_R | TF_case2_red_R | TF_case2_black_R | TF_case3_R | TF_case4_R -> true
  | _ -> false

let tags : (string, int) Hashtbl.t = Hashtbl.create 64
let bump name = Hashtbl.replace tags name (1 + (try Hashtbl.find tags name with Not_found -> 0))

let full = Array.length Sys.argv > 1 && Sys.argv.(1) = "full"
let last : (int, int * int * int * int) Hashtbl.t = Hashtbl.create 4096
let tree = ref E
let buf = Buffer.create 65536
let cases = ref 0 and nontrivial = ref 0 and ops = ref 0 and maxn = ref 0
let cur_nontrivial = ref false
let close_case () = if !cur_nontrivial then incr nontrivial; cur_nontrivial := false

let dump opc ret =
  let h = heap_of !tree in
  let n = List.length h in
  if n > !maxn then maxn := n;
  Buffer.add_string buf (Printf.sprintf "%c %s root=%d n=%d |" opc ret (int_of_ptr (root_id !tree)) n);
  List.iter (fun (i, nd) ->
      let i = int_of_pos i in
      let cur = (int_of_ptr nd.h_left, int_of_ptr nd.h_right, int_of_ptr nd.h_parent,
                 (match nd.h_color with Red -> 0 | Black -> 1)) in
      let same = (not full) && (try Hashtbl.find last i = cur with Not_found -> false) in
      (if not same then
         let (l, r, p, c) = cur in Buffer.add_string buf (Printf.sprintf " %d:%d,%d,%d,%d" i l r p c));
      Hashtbl.replace last i cur) h;
  Buffer.add_char buf '\n';
  if Buffer.length buf > 60000 then (print_string (Buffer.contents buf); Buffer.clear buf)

let apply o opc =
  incr ops;
  let ((t', ret), tr) = step !tree o in
  tree := t';
  List.iter (fun tg -> bump (tag_name tg); if rebalancing tg then cur_nontrivial := true) tr;
  let s = match ret with
    | RetInserted -> "ok"
    | RetDup j -> Printf.sprintf "dup:%d" (int_of_pos j)
    | RetRemoved j -> Hashtbl.remove last (int_of_pos j); Printf.sprintf "rm:%d" (int_of_pos j)
    | RetFound j -> Printf.sprintf "found:%d" (int_of_pos j)
    | RetNone -> "none"
    | RetFault -> "FAULT" in
  dump opc s

let () =
  (try
     while true do
       let line = input_line stdin in
       if String.length line > 0 then
         let rest () = String.sub line 1 (String.length line - 1) in
         match line.[0] with
         | 'H' -> close_case (); incr cases; tree := E; Hashtbl.reset last;
           Buffer.add_string buf line; Buffer.add_char buf '\n'
         | 'I' -> Scanf.sscanf (rest ()) " %d %d" (fun k i ->
             if i >= 1 then (Hashtbl.remove last i; apply (OpInsert (z_of_int k, pos_of_int i)) 'i')
             else Buffer.add_string buf "E bad line\n")
         | 'R' -> Scanf.sscanf (rest ()) " %d" (fun k -> apply (OpRemove (z_of_int k)) 'r')
         | 'S' -> Scanf.sscanf (rest ()) " %d" (fun k -> apply (OpSearch (z_of_int k)) 's')
         | '#' -> ()
         | _ -> Buffer.add_string buf "E bad line\n"
     done
   with End_of_file -> ());
  close_case ();
  print_string (Buffer.contents buf);
  let l = Hashtbl.fold (fun k v acc -> (k, v) :: acc) tags [] in
  List.iter (fun (k, v) -> Printf.eprintf "TAG %s %d\n" k v) (List.sort compare l);
  Printf.eprintf "NONTRIVIAL %d\nCASES %d\nOPS %d\nMAXN %d\n" !nontrivial !cases !ops !maxn
