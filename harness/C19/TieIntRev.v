(* C19 translator tie, part 2: bit reversal a_u8_rev .. a_u64_rev (include/a/a.h).
   The 8- and 16-bit versions compute in `int` (integer promotion): c2int writes an overflow check for each left shift, which
   the proofs discharge from the operand's range; the 32- and 64-bit versions wrap at each left shift.  Each line of the C
   is shown equal to one `stage` of the model. *)
Set Default Timeout 120.
From Coq Require Import NArith List Bool Lia.
From LibaV Require Import C19.IntDefs C19.TieLemmas.
From Gen Require IntGen.
Import ListNotations.
Local Open Scope N_scope.

(* reduce the outermost `let` of the left-hand side only *)
Ltac zeta1 :=
  lazymatch goal with
  | |- (let x := ?e in @?f x) = ?R => change (f e = R); cbv beta
  end.

(* one line of a_u8_rev / a_u16_rev: the int overflow check of the left shift, then the truncating assignment *)
Ltac int_stage w n H :=
  rewrite (shl_int_ok _ _ n) by first [exact H | apply land_mask_lt; reflexivity | reflexivity];
  cbv iota;
  lazymatch goal with
  | |- (let x := wrap w (N.lor (N.shiftr (N.land ?y ?m1) ?k) (N.shiftl (N.land ?y ?m2) ?k)) in _) = _ =>
      change (wrap w (N.lor (N.shiftr (N.land y m1) k) (N.shiftl (N.land y m2) k))) with (stage w k m1 m2 y)
  end.

Theorem tie_a_u8_rev : forall x, x < 2 ^ 8 -> IntGen.a_u8_rev x = Some (u8_rev x).
Proof.
  intros x Hx. cbv beta delta [IntGen.a_u8_rev u8_rev]. change IntGen.wrap with wrap. change 0xFF with (N.ones 8).
  rewrite (shl_int_ok x 4 8 Hx) by reflexivity. cbv iota. rewrite (stage_int0 8 4 x Hx).
  set (y1 := stage 8 4 _ _ x). zeta1.
  int_stage 8 6 Hx. set (y2 := stage 8 2 _ _ y1). zeta1.
  int_stage 8 7 Hx. set (y3 := stage 8 1 _ _ y2). zeta1.
  reflexivity.
Qed.

Theorem tie_a_u16_rev : forall x, x < 2 ^ 16 -> IntGen.a_u16_rev x = Some (u16_rev x).
Proof.
  intros x Hx. cbv beta delta [IntGen.a_u16_rev u16_rev]. change IntGen.wrap with wrap. change 0xFFFF with (N.ones 16).
  rewrite (shl_int_ok x 8 16 Hx) by reflexivity. cbv iota. rewrite (stage_int0 16 8 x Hx).
  set (y1 := stage 16 8 _ _ x). zeta1.
  int_stage 16 12 Hx. set (y2 := stage 16 4 _ _ y1). zeta1.
  int_stage 16 14 Hx. set (y3 := stage 16 2 _ _ y2). zeta1.
  int_stage 16 15 Hx. set (y4 := stage 16 1 _ _ y3). zeta1.
  reflexivity.
Qed.

(* one line of a_u32_rev / a_u64_rev: unsigned arithmetic *)
Ltac uns_stage w H :=
  lazymatch goal with
  | |- (let x := N.lor (N.shiftr (N.land ?y ?m1) ?k) (wrap w (N.shiftl (N.land ?y ?m2) ?k)) in _) = _ =>
      rewrite (stage_gen w k m1 m2 y H)
  end.

Theorem tie_a_u32_rev : forall x, x < 2 ^ 32 -> IntGen.a_u32_rev x = Some (u32_rev x).
Proof.
  intros x Hx. cbv beta delta [IntGen.a_u32_rev u32_rev]. change IntGen.wrap with wrap. change 0xFFFFFFFF with (N.ones 32).
  rewrite (stage_gen0 32 16 x Hx).
  set (y1 := stage 32 16 _ _ x). pose proof (stage_lt 32 16 (N.ones 32) (N.ones 32) x : y1 < 2 ^ 32) as H1. zeta1.
  uns_stage 32 H1. set (y2 := stage 32 8 _ _ y1). pose proof (stage_lt 32 8 _ _ y1 : y2 < 2 ^ 32) as H2. zeta1.
  uns_stage 32 H2. set (y3 := stage 32 4 _ _ y2). pose proof (stage_lt 32 4 _ _ y2 : y3 < 2 ^ 32) as H3. zeta1.
  uns_stage 32 H3. set (y4 := stage 32 2 _ _ y3). pose proof (stage_lt 32 2 _ _ y3 : y4 < 2 ^ 32) as H4. zeta1.
  uns_stage 32 H4. set (y5 := stage 32 1 _ _ y4). zeta1.
  reflexivity.
Qed.

Theorem tie_a_u64_rev : forall x, x < 2 ^ 64 -> IntGen.a_u64_rev x = Some (u64_rev x).
Proof.
  intros x Hx. cbv beta delta [IntGen.a_u64_rev u64_rev]. change IntGen.wrap with wrap. change 0xFFFFFFFFFFFFFFFF with (N.ones 64).
  rewrite (stage_gen0 64 32 x Hx).
  set (y1 := stage 64 32 _ _ x). pose proof (stage_lt 64 32 (N.ones 64) (N.ones 64) x : y1 < 2 ^ 64) as H1. zeta1.
  uns_stage 64 H1. set (y2 := stage 64 16 _ _ y1). pose proof (stage_lt 64 16 _ _ y1 : y2 < 2 ^ 64) as H2. zeta1.
  uns_stage 64 H2. set (y3 := stage 64 8 _ _ y2). pose proof (stage_lt 64 8 _ _ y2 : y3 < 2 ^ 64) as H3. zeta1.
  uns_stage 64 H3. set (y4 := stage 64 4 _ _ y3). pose proof (stage_lt 64 4 _ _ y3 : y4 < 2 ^ 64) as H4. zeta1.
  uns_stage 64 H4. set (y5 := stage 64 2 _ _ y4). pose proof (stage_lt 64 2 _ _ y4 : y5 < 2 ^ 64) as H5. zeta1.
  uns_stage 64 H5. set (y6 := stage 64 1 _ _ y5). zeta1.
  reflexivity.
Qed.
