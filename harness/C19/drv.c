/* C19 harness: one case per line "<fn> <hex args...>", one canonical result line per case. */
#include "a/a.h"
#include "a/math.h"
#include <stdio.h>
#include <stdlib.h>
#include <string.h>

static unsigned long long arg[16];
static int nargs;

int main(int argc, char **argv)
{
    char line[512];
    if (argc > 2 && strcmp(argv[1], "sweep32") == 0)
    { /* exhaustive search oracle: every 32-bit argument in shard k of n against the specification */
        unsigned long long k = strtoull(argv[2], 0, 10), n = strtoull(argv[3], 0, 10);
        unsigned long long lo = (1ULL << 32) * k / n, hi = (1ULL << 32) * (k + 1) / n, x, bad = 0;
        for (x = lo; x < hi; ++x)
        {
            unsigned long long r = a_u32_sqrt((a_u32)x);
            if (!(r * r <= x && x < (r + 1) * (r + 1)))
            {
                if (bad < 5) { printf("BAD %llx %llx\n", x, r); }
                ++bad;
            }
        }
        printf("SWEEP %llu %llu bad=%llu\n", lo, hi, bad);
        return 0;
    }
    while (fgets(line, sizeof(line), stdin))
    {
        char *fn = strtok(line, " \n"), *t;
        unsigned char b[8];
        int i;
        if (!fn) { continue; }
        nargs = 0;
        while ((t = strtok(0, " \n")) && nargs < 16) { arg[nargs++] = strtoull(t, 0, 16); }
#define A0 arg[0]
#define A1 arg[1]
        if (!strcmp(fn, "sqrt32")) { printf("%llx\n", (unsigned long long)a_u32_sqrt((a_u32)A0)); }
        else if (!strcmp(fn, "sqrt64")) { printf("%llx\n", (unsigned long long)a_u64_sqrt((a_u64)A0)); }
        else if (!strcmp(fn, "gcd32")) { printf("%llx\n", (unsigned long long)a_u32_gcd((a_u32)A0, (a_u32)A1)); }
        else if (!strcmp(fn, "gcd64")) { printf("%llx\n", (unsigned long long)a_u64_gcd((a_u64)A0, (a_u64)A1)); }
        else if (!strcmp(fn, "lcm32")) { printf("%llx\n", (unsigned long long)a_u32_lcm((a_u32)A0, (a_u32)A1)); }
        else if (!strcmp(fn, "lcm64")) { printf("%llx\n", (unsigned long long)a_u64_lcm((a_u64)A0, (a_u64)A1)); }
        else if (!strcmp(fn, "rev8")) { printf("%llx\n", (unsigned long long)a_u8_rev((a_u8)A0)); }
        else if (!strcmp(fn, "rev16")) { printf("%llx\n", (unsigned long long)a_u16_rev((a_u16)A0)); }
        else if (!strcmp(fn, "rev32")) { printf("%llx\n", (unsigned long long)a_u32_rev((a_u32)A0)); }
        else if (!strcmp(fn, "rev64")) { printf("%llx\n", (unsigned long long)a_u64_rev((a_u64)A0)); }
        else if (!strncmp(fn, "set", 3))
        {
            int big = fn[3] == 'b', n = atoi(fn + 4) / 8;
            memset(b, 0xEE, sizeof(b));
            if (n == 2) { if (big) { a_u16_setb(b, (a_u16)A0); } else { a_u16_setl(b, (a_u16)A0); } }
            else if (n == 4) { if (big) { a_u32_setb(b, (a_u32)A0); } else { a_u32_setl(b, (a_u32)A0); } }
            else { if (big) { a_u64_setb(b, (a_u64)A0); } else { a_u64_setl(b, (a_u64)A0); } }
            for (i = 0; i < n; ++i) { printf(i ? " %x" : "%x", b[i]); }
            printf("\n");
        }
        else if (!strncmp(fn, "get", 3))
        {
            int big = fn[3] == 'b', n = atoi(fn + 4) / 8;
            unsigned long long r;
            for (i = 0; i < n; ++i) { b[i] = (unsigned char)arg[i]; }
            if (n == 2) { r = big ? a_u16_getb(b) : a_u16_getl(b); }
            else if (n == 4) { r = big ? a_u32_getb(b) : a_u32_getl(b); }
            else { r = big ? a_u64_getb(b) : a_u64_getl(b); }
            printf("%llx\n", r);
        }
        else { printf("?\n"); }
    }
    return 0;
}
