(* C19 translator tie, part 3: byte-order accessors a_u{16,32,64}_{get,set}{l,b} (include/a/a.h).
   Memory is a list of byte cells; every read is a checked `load`, every write a checked `store` (outside the list = None).
   get: for every buffer with at least n cells the generated function returns the model's value; set: the first n cells
   become the model's byte list and the rest of the buffer is unchanged. *)
Set Default Timeout 120.
From Coq Require Import NArith List Bool Lia.
From LibaV Require Import C19.IntDefs C19.TieLemmas.
From Gen Require IntGen.
Import ListNotations.
Local Open Scope N_scope.

(* b has at least one more cell: name it *)
Ltac need_cons b H :=
  let c := fresh "c" in
  destruct b as [|c b]; [cbn [length] in H; lia | cbn [length] in H; apply le_S_n in H].

(* closed index / shift-count arithmetic *)
Ltac calc :=
  repeat match goal with
  | |- context [N.to_nat ?e] => let v := eval vm_compute in (N.to_nat e) in progress change (N.to_nat e) with v
  | |- context [8 * N.of_nat ?n] => let v := eval vm_compute in (8 * N.of_nat n) in progress change (8 * N.of_nat n) with v
  end.

Ltac run_get f :=
  cbv beta zeta delta [f IntGen.load]; calc; cbn [nth_error]; change IntGen.wrap with wrap.

Ltac model_get :=
  cbv beta iota zeta delta [getl getb seq fold_left nth]; calc; rewrite ?lor_0_l'.

Theorem tie_a_u16_getl : forall p, (2 <= length p)%nat -> Forall (fun c => c < 2 ^ 8) p -> IntGen.a_u16_getl p = Some (getl 2 p).
Proof.
  intros p H F. do 2 need_cons p H. pose proof (Forall_inv F) as F0. pose proof (Forall_inv (Forall_inv_tail F)) as F1.
  run_get IntGen.a_u16_getl.
  rewrite (shl_int_ok c 0 8 F0) by reflexivity. rewrite (shl_int_ok c0 8 8 F1) by reflexivity. cbv iota.
  model_get. reflexivity.
Qed.

Theorem tie_a_u16_getb : forall p, (2 <= length p)%nat -> Forall (fun c => c < 2 ^ 8) p -> IntGen.a_u16_getb p = Some (getb 2 p).
Proof.
  intros p H F. do 2 need_cons p H. pose proof (Forall_inv F) as F0. pose proof (Forall_inv (Forall_inv_tail F)) as F1.
  run_get IntGen.a_u16_getb.
  rewrite (shl_int_ok c0 0 8 F1) by reflexivity. rewrite (shl_int_ok c 8 8 F0) by reflexivity. cbv iota.
  model_get. f_equal. f_equal. apply N.lor_comm.
Qed.

Theorem tie_a_u32_getl : forall p, (4 <= length p)%nat -> Forall (fun c => c < 2 ^ 8) p -> IntGen.a_u32_getl p = Some (getl 4 p).
Proof.
  intros p H _. do 4 need_cons p H. run_get IntGen.a_u32_getl. model_get. rewrite !wrap_lor. reflexivity.
Qed.

Theorem tie_a_u32_getb : forall p, (4 <= length p)%nat -> Forall (fun c => c < 2 ^ 8) p -> IntGen.a_u32_getb p = Some (getb 4 p).
Proof.
  intros p H _. do 4 need_cons p H. run_get IntGen.a_u32_getb. model_get. rewrite !wrap_lor. reflexivity.
Qed.

Theorem tie_a_u64_getl : forall p, (8 <= length p)%nat -> Forall (fun c => c < 2 ^ 8) p -> IntGen.a_u64_getl p = Some (getl 8 p).
Proof.
  intros p H _. do 8 need_cons p H. run_get IntGen.a_u64_getl. model_get. rewrite !wrap_lor. reflexivity.
Qed.

Theorem tie_a_u64_getb : forall p, (8 <= length p)%nat -> Forall (fun c => c < 2 ^ 8) p -> IntGen.a_u64_getb p = Some (getb 8 p).
Proof.
  intros p H _. do 8 need_cons p H. run_get IntGen.a_u64_getb. model_get. rewrite !wrap_lor. reflexivity.
Qed.

(* stores: the first n cells are overwritten, the rest of the buffer is kept *)
Ltac run_set f :=
  cbv beta zeta delta [f IntGen.store]; calc; cbn [IntGen.upd]; change IntGen.wrap with wrap.

Ltac model_set :=
  cbv beta iota zeta delta [setl setb seq map app skipn byte_of]; calc.

Theorem tie_a_u16_setl : forall b x, x < 2 ^ 16 -> (2 <= length b)%nat -> IntGen.a_u16_setl b x = Some (setl 2 x ++ skipn 2 b).
Proof. intros b x _ H. do 2 need_cons b H. run_set IntGen.a_u16_setl. model_set. reflexivity. Qed.

Theorem tie_a_u16_setb : forall b x, x < 2 ^ 16 -> (2 <= length b)%nat -> IntGen.a_u16_setb b x = Some (setb 2 x ++ skipn 2 b).
Proof. intros b x _ H. do 2 need_cons b H. run_set IntGen.a_u16_setb. model_set. reflexivity. Qed.

Theorem tie_a_u32_setl : forall b x, x < 2 ^ 32 -> (4 <= length b)%nat -> IntGen.a_u32_setl b x = Some (setl 4 x ++ skipn 4 b).
Proof. intros b x _ H. do 4 need_cons b H. run_set IntGen.a_u32_setl. model_set. reflexivity. Qed.

Theorem tie_a_u32_setb : forall b x, x < 2 ^ 32 -> (4 <= length b)%nat -> IntGen.a_u32_setb b x = Some (setb 4 x ++ skipn 4 b).
Proof. intros b x _ H. do 4 need_cons b H. run_set IntGen.a_u32_setb. model_set. reflexivity. Qed.

Theorem tie_a_u64_setl : forall b x, x < 2 ^ 64 -> (8 <= length b)%nat -> IntGen.a_u64_setl b x = Some (setl 8 x ++ skipn 8 b).
Proof. intros b x _ H. do 8 need_cons b H. run_set IntGen.a_u64_setl. model_set. reflexivity. Qed.

Theorem tie_a_u64_setb : forall b x, x < 2 ^ 64 -> (8 <= length b)%nat -> IntGen.a_u64_setb b x = Some (setb 8 x ++ skipn 8 b).
Proof. intros b x _ H. do 8 need_cons b H. run_set IntGen.a_u64_setb. model_set. reflexivity. Qed.
