(* C19 model driver: same input/output protocol as drv.c, executing the extracted Gallina model. *)
open Intmodel

let n_of_hex (s : string) : n =
  let acc = ref N0 in
  let push b =
    acc := (match !acc with
            | N0 -> if b then Npos XH else N0
            | Npos p -> if b then Npos (XI p) else Npos (XO p)) in
  String.iter (fun c ->
      let v = match c with
        | '0'..'9' -> Char.code c - 48
        | 'a'..'f' -> Char.code c - 87
        | 'A'..'F' -> Char.code c - 55
        | _ -> failwith "hex" in
      for i = 3 downto 0 do push ((v lsr i) land 1 = 1) done) s;
  !acc

let hex_of_n (x : n) : string =
  match x with
  | N0 -> "0"
  | Npos p ->
     let rec bits p = match p with XH -> [1] | XO q -> 0 :: bits q | XI q -> 1 :: bits q in
     let bl = Array.of_list (bits p) in
     let nb = Array.length bl in
     let nd = (nb + 3) / 4 in
     let b = Buffer.create nd in
     for d = nd - 1 downto 0 do
       let v = ref 0 in
       for i = 3 downto 0 do
         let k = 4 * d + i in
         v := !v * 2 + (if k < nb then bl.(k) else 0)
       done;
       Buffer.add_char b "0123456789abcdef".[!v]
     done;
     Buffer.contents b

let rec nat_of_int i = if i <= 0 then O else S (nat_of_int (i - 1))
let opt = function Some x -> hex_of_n x | None -> "ERR"

let () =
  try
    while true do
      let line = input_line stdin in
      match String.split_on_char ' ' (String.trim line) |> List.filter (fun s -> s <> "") with
      | [] -> ()
      | fn :: args ->
         let a = List.map n_of_hex args in
         let a0 () = List.nth a 0 and a1 () = List.nth a 1 in
         let out =
           match fn with
           | "sqrt32" -> opt (u32_sqrt (a0 ()))
           | "sqrt64" -> opt (u64_sqrt (a0 ()))
           | "gcd32" -> opt (u32_gcd (a0 ()) (a1 ()))
           | "gcd64" -> opt (u64_gcd (a0 ()) (a1 ()))
           | "lcm32" -> opt (u32_lcm (a0 ()) (a1 ()))
           | "lcm64" -> opt (u64_lcm (a0 ()) (a1 ()))
           | "rev8" -> hex_of_n (u8_rev (a0 ()))
           | "rev16" -> hex_of_n (u16_rev (a0 ()))
           | "rev32" -> hex_of_n (u32_rev (a0 ()))
           | "rev64" -> hex_of_n (u64_rev (a0 ()))
           | _ when String.length fn > 4 && String.sub fn 0 3 = "set" ->
              let nb = int_of_string (String.sub fn 4 (String.length fn - 4)) / 8 in
              let l = if fn.[3] = 'b' then setb (nat_of_int nb) (a0 ()) else setl (nat_of_int nb) (a0 ()) in
              String.concat " " (List.map hex_of_n l)
           | _ when String.length fn > 4 && String.sub fn 0 3 = "get" ->
              let nb = int_of_string (String.sub fn 4 (String.length fn - 4)) / 8 in
              hex_of_n (if fn.[3] = 'b' then getb (nat_of_int nb) a else getl (nat_of_int nb) a)
           | _ -> "?" in
         print_string out; print_char '\n'
    done
  with End_of_file -> ()
