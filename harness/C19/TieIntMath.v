(* C19 translator tie, part 1: gcd, lcm, integer square root (src/math.c).
   Gen.IntGen is REGENERATED from the current sources by tools/c2int.py on every run (machine arithmetic written out, every
   division / shift / signed operation checked, loops as fuel-indexed Fixpoints); each theorem says that the regenerated
   function equals the hand model of coq/C19/IntDefs.v - the object of Properties_C19.v - for ALL in-range arguments.
   Fuel passed by the generated call sites (checks/C19.py): 66 / 130 for the Euclid loops (= gcd_fuel 32 / 64 of the model),
   40 for the Newton loops (= sqrt_fuel); the model's theorems show these suffice. *)
Set Default Timeout 120.
From Coq Require Import NArith ZArith List Bool Lia.
From LibaV Require Import C19.IntDefs C19.TieLemmas.
From Gen Require IntGen.
Import ListNotations.
Local Open Scope N_scope.

Lemma gcd32_loop : forall fuel a b,
  match IntGen.a_u32_gcd_loop1 fuel a b with Some (a', _) => Some a' | None => None end = gcd_loop fuel a b.
Proof.
  induction fuel as [|f IH]; intros a b; [reflexivity|].
  cbn [IntGen.a_u32_gcd_loop1 gcd_loop].
  destruct (b =? 0) eqn:E; [reflexivity|]. apply IH.
Qed.

Lemma gcd64_loop : forall fuel a b,
  match IntGen.a_u64_gcd_loop1 fuel a b with Some (a', _) => Some a' | None => None end = gcd_loop fuel a b.
Proof.
  induction fuel as [|f IH]; intros a b; [reflexivity|].
  cbn [IntGen.a_u64_gcd_loop1 gcd_loop].
  destruct (b =? 0) eqn:E; [reflexivity|]. apply IH.
Qed.

Theorem tie_a_u32_gcd : forall a b, a < 2 ^ 32 -> b < 2 ^ 32 -> IntGen.a_u32_gcd a b = u32_gcd a b.
Proof.
  intros a b _ _. unfold IntGen.a_u32_gcd, u32_gcd, gcd_w.
  replace (gcd_fuel 32) with 66%nat by reflexivity. rewrite <- gcd32_loop.
  destruct (IntGen.a_u32_gcd_loop1 66 a b) as [[a' b']|]; reflexivity.
Qed.

Theorem tie_a_u64_gcd : forall a b, a < 2 ^ 64 -> b < 2 ^ 64 -> IntGen.a_u64_gcd a b = u64_gcd a b.
Proof.
  intros a b _ _. unfold IntGen.a_u64_gcd, u64_gcd, gcd_w.
  replace (gcd_fuel 64) with 130%nat by reflexivity. rewrite <- gcd64_loop.
  destruct (IntGen.a_u64_gcd_loop1 130 a b) as [[a' b']|]; reflexivity.
Qed.

Theorem tie_a_u32_lcm : forall a b, a < 2 ^ 32 -> b < 2 ^ 32 -> IntGen.a_u32_lcm a b = u32_lcm a b.
Proof.
  intros a b Ha Hb. unfold IntGen.a_u32_lcm, u32_lcm, lcm_w.
  rewrite (tie_a_u32_gcd a b Ha Hb). unfold u32_gcd.
  destruct (gcd_w 32 a b) as [r|]; [|reflexivity].
  cbv zeta. destruct (r =? 0); reflexivity.
Qed.

Theorem tie_a_u64_lcm : forall a b, a < 2 ^ 64 -> b < 2 ^ 64 -> IntGen.a_u64_lcm a b = u64_lcm a b.
Proof.
  intros a b Ha Hb. unfold IntGen.a_u64_lcm, u64_lcm, lcm_w.
  rewrite (tie_a_u64_gcd a b Ha Hb). unfold u64_gcd.
  destruct (gcd_w 64 a b) as [r|]; [|reflexivity].
  cbv zeta. destruct (r =? 0); reflexivity.
Qed.

(* ---- sqrt *)
Lemma sqrt32_loop : forall fuel x x1,
  match IntGen.a_u32_sqrt_loop1 fuel x x1 with Some (x0, _) => Some x0 | None => None end = newton fuel 32 x x1.
Proof.
  induction fuel as [|f IH]; intros x x1; [reflexivity|].
  cbn [IntGen.a_u32_sqrt_loop1 newton]. cbv zeta.
  destruct (x1 =? 0); [reflexivity|].
  change (IntGen.wrap 32) with (wrap 32).
  destruct (_ <? x1); [apply IH | reflexivity].
Qed.

Lemma sqrt64_loop : forall fuel x x1,
  match IntGen.a_u64_sqrt_loop1 fuel x x1 with Some (x0, _) => Some x0 | None => None end = newton fuel 64 x x1.
Proof.
  induction fuel as [|f IH]; intros x x1; [reflexivity|].
  cbn [IntGen.a_u64_sqrt_loop1 newton]. cbv zeta.
  destruct (x1 =? 0); [reflexivity|].
  change (IntGen.wrap 64) with (wrap 64).
  destruct (_ <? x1); [apply IH | reflexivity].
Qed.

Lemma log2_lt_w w x : 1 < x -> x < 2 ^ w -> N.log2 x < w.
Proof. intros H1 H2. apply N.log2_lt_pow2; lia. Qed.

Lemma half_lt l w : l < w -> N.shiftr (l + 2) 1 < w \/ w < 3.
Proof.
  intros H. rewrite N.shiftr_div_pow2. change (2 ^ 1) with 2.
  destruct (N.ltb_spec w 3); [right; assumption|left].
  apply N.div_lt_upper_bound; lia.
Qed.

Theorem tie_a_u32_sqrt : forall x, x < 2 ^ 32 -> IntGen.a_u32_sqrt x = u32_sqrt x.
Proof.
  intros x Hx. unfold IntGen.a_u32_sqrt, u32_sqrt, isqrt, isqrt_with. cbv zeta.
  change (32 / 2) with 16. change (IntGen.wrap 16) with (wrap 16).
  destruct (x <=? 1) eqn:E1; [reflexivity|]. apply N.leb_gt in E1.
  pose proof (log2_lt_w 32 x E1 Hx) as Hl.
  replace (x =? 0) with false by (symmetry; apply N.eqb_neq; lia).
  set (l := N.log2 x) in *.
  replace (Z.sub (Z.of_N 31) (Z.of_N (31 - l))) with (Z.of_N l) by lia.
  replace (Z.add (Z.of_N l) (Z.of_N 2)) with (Z.of_N (l + 2)) by lia.
  rewrite z_shiftr_of_N, N2Z.id.
  rewrite (zrange_ok l) by (eapply N.lt_trans; [exact Hl|reflexivity]).
  rewrite (zrange_ok (l + 2)) by (change (2 ^ 31) with 2147483648; lia).
  rewrite znonneg.
  destruct (half_lt l 32 Hl) as [Hh|Hh]; [|lia].
  replace (32 <=? N.shiftr (l + 2) 1) with false by (symmetry; apply N.leb_gt; lia).
  rewrite <- sqrt32_loop. unfold sqrt_fuel, sqrt_start, bsr. change (IntGen.wrap 32) with (wrap 32).
  destruct (IntGen.a_u32_sqrt_loop1 40 x _) as [[x0 x1]|]; reflexivity.
Qed.

Theorem tie_a_u64_sqrt : forall x, x < 2 ^ 64 -> IntGen.a_u64_sqrt x = u64_sqrt x.
Proof.
  intros x Hx. unfold IntGen.a_u64_sqrt, u64_sqrt, isqrt, isqrt_with. cbv zeta.
  change (64 / 2) with 32. change (IntGen.wrap 32) with (wrap 32).
  destruct (x <=? 1) eqn:E1; [reflexivity|]. apply N.leb_gt in E1.
  pose proof (log2_lt_w 64 x E1 Hx) as Hl.
  replace (x =? 0) with false by (symmetry; apply N.eqb_neq; lia).
  set (l := N.log2 x) in *.
  replace (Z.sub (Z.of_N 63) (Z.of_N (63 - l))) with (Z.of_N l) by lia.
  replace (Z.add (Z.of_N l) (Z.of_N 2)) with (Z.of_N (l + 2)) by lia.
  rewrite z_shiftr_of_N, N2Z.id.
  rewrite (zrange_ok l) by (eapply N.lt_trans; [exact Hl|reflexivity]).
  rewrite (zrange_ok (l + 2)) by (change (2 ^ 31) with 2147483648; lia).
  rewrite znonneg.
  destruct (half_lt l 64 Hl) as [Hh|Hh]; [|lia].
  replace (64 <=? N.shiftr (l + 2) 1) with false by (symmetry; apply N.leb_gt; lia).
  rewrite <- sqrt64_loop. unfold sqrt_fuel, sqrt_start, bsr. change (IntGen.wrap 64) with (wrap 64).
  destruct (IntGen.a_u64_sqrt_loop1 40 x _) as [[x0 x1]|]; reflexivity.
Qed.
