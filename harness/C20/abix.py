#!/usr/bin/env python3
"""abix - the C20 comparison on the OTHER data models the project supports (cross targets).

For every target of TARGETS and both real widths, from the CURRENT tree:

  C side   clang's front end FOR THAT TARGET (`clang --target=<triple> -ffreestanding -nostdlibinc
           -isystem harness/C20/stubs`, nothing is linked or run):
             pass 1  JSON AST of include/a/*.h plus a block of enum constants (size / alignment /
                     signedness of every C base type) -> the target's own base-type table -> the same
                     translator as on the host (abi2coq.c_decls_of_ast) resolves every typedef;
             pass 2  a generated probe: _Static_assert(__builtin_types_compatible_p) that every
                     prototype / variable as RESOLVED by the translator is the real declaration (the
                     target's compiler certifies the resolver), and enum constants read back from the
                     AST: sizeof/_Alignof of every record, offsetof/size/alignment of every member,
                     size/alignment of the fixed-width types, and for every foreign fn / static of
                     lib.rs whether the C type is IDENTICAL to the C rendering of the Rust declaration
                     (u64 -> __UINT64_TYPE__, usize -> __SIZE_TYPE__, c_int -> int, real -> double/float,
                     repr(C) struct x -> struct a_x ...).
  Rust side rustc FOR THE PAIRED RUST TARGET computes the layout of every repr(C) struct (as parsed
           from lib.rs; the parser is certified by rustc on the host) in a `#![no_core]` crate with
           `#[rustc_layout(...)]` (RUSTC_BOOTSTRAP=1; needs no target libraries): size, alignment,
           member offsets, and size/alignment of every member type and of the primitives.
  compare  abi2coq.py_mismatches (the independent oracle of the host path) on the target's two
           declaration lists and the two compilers' layouts.  checks/C20.py also evaluates the
           target-parametric Coq model (coq/C20/AbiTarget.v: abi_mismatches_t, vm_compute) on the target's
           lists with the layout parameters observed here (model_applies: pointer size, alignment of the
           8- and 16-byte scalars), compares its layout with both compilers' and re-proves the reflection
           theorems against the lists.

Only the Python standard library is used.
"""
import json
import os
import re
import subprocess
from pathlib import Path

import abi2coq as A

HERE = Path(__file__).resolve().parent
STUBS = HERE / "stubs"


class Target:
    def __init__(self, triple, rust, model, clang_args=(), host=False, char_unsigned=False, long32=False):
        self.triple = triple            # clang --target
        self.rust = rust                # rustc --target paired with it
        self.model = model              # data model (text)
        self.clang_args = tuple(clang_args)
        self.host = host
        # core::ffi of the Rust target (library/core/src/ffi/primitives.rs): c_char is u8 on ARM /
        # AArch64 (non-Apple, non-Windows), c_long is 32 bits on Windows and on 32-bit targets
        self.ffi = dict(A.RUST_FFI)
        if char_unsigned:
            self.ffi["c_char"] = "u8"
        if long32:
            self.ffi["c_long"], self.ffi["c_ulong"] = "i32", "u32"

    @property
    def ident(self):
        return re.sub(r"\W", "_", self.triple)

    def cmd(self):
        return ["clang", "--target=" + self.triple, "-ffreestanding", "-nostdlibinc", "-isystem", str(STUBS)] + list(self.clang_args)


TARGETS = [
    Target("x86_64-pc-linux-gnu", "x86_64-unknown-linux-gnu", "LP64 (host, sanity)", host=True),
    Target("i686-pc-linux-gnu", "i686-unknown-linux-gnu", "ILP32, 8-byte scalars aligned to 4", long32=True),
    Target("x86_64-w64-windows-gnu", "x86_64-pc-windows-gnu", "LLP64 (MinGW-w64, cmake/UseMinGW64.cmake)", long32=True),
    Target("x86_64-pc-windows-msvc", "x86_64-pc-windows-msvc", "LLP64 (MSVC)", long32=True),
    Target("aarch64-unknown-linux-gnu", "aarch64-unknown-linux-gnu", "LP64, char unsigned", char_unsigned=True),
    Target("arm-none-eabi", "thumbv7em-none-eabi", "ILP32, char unsigned, -fshort-enums (cmake/UseArmNoneEabi.cmake)",
           clang_args=("-fshort-enums",), char_unsigned=True, long32=True),
]

# (Rust primitive, C type with the same meaning on every target): the pairing of a clang target with a
# rustc target is checked on these
PRIMS = [("u8", "__UINT8_TYPE__"), ("i8", "__INT8_TYPE__"), ("u16", "__UINT16_TYPE__"), ("i16", "__INT16_TYPE__"),
         ("u32", "__UINT32_TYPE__"), ("i32", "__INT32_TYPE__"), ("u64", "__UINT64_TYPE__"), ("i64", "__INT64_TYPE__"),
         ("usize", "__SIZE_TYPE__"), ("isize", "__INTPTR_TYPE__"), ("f32", "float"), ("f64", "double"),
         ("bool", "_Bool"), ("*const u8", "void *"), ('extern "C" fn()', "void (*)(void)")]
RUST_AS_C = {"u8": "__UINT8_TYPE__", "i8": "__INT8_TYPE__", "u16": "__UINT16_TYPE__", "i16": "__INT16_TYPE__",
             "u32": "__UINT32_TYPE__", "i32": "__INT32_TYPE__", "u64": "__UINT64_TYPE__", "i64": "__INT64_TYPE__",
             "usize": "__SIZE_TYPE__", "isize": "__INTPTR_TYPE__", "u128": "unsigned __int128", "i128": "__int128"}
FFI_AS_C = {"c_char": "char", "c_schar": "signed char", "c_uchar": "unsigned char", "c_short": "short",
            "c_ushort": "unsigned short", "c_int": "int", "c_uint": "unsigned int", "c_long": "long",
            "c_ulong": "unsigned long", "c_longlong": "long long", "c_ulonglong": "unsigned long long",
            "c_float": "float", "c_double": "double"}


# --------------------------------------------------------------------------- small helpers

def run(cmd, timeout=120, env=None):
    p = subprocess.run(cmd, stdout=subprocess.PIPE, stderr=subprocess.PIPE, text=True, timeout=timeout, env=env)
    return p.returncode, p.stdout, p.stderr


def const_value(node):
    """value of an EnumConstantDecl of clang's JSON AST (first evaluated ConstantExpr below it)"""
    while node is not None:
        if "value" in node:
            return int(node["value"])
        inner = node.get("inner")
        node = inner[0] if inner else None
    return None


def enum_constants(nodes, prefix):
    out = {}
    for x in nodes:
        if x.get("kind") == "EnumDecl" and x.get("name", "").startswith(prefix):
            for c in x.get("inner", []):
                if c.get("kind") == "EnumConstantDecl":
                    out[c["name"]] = const_value(c)
    return out


def json_docs(text):
    """the JSON documents of a filtered AST dump (`Dumping x:` lines between them)"""
    dec = json.JSONDecoder()
    i, out = 0, []
    while True:
        i = text.find("{", i)
        if i < 0:
            return out
        obj, j = dec.raw_decode(text[i:])
        out.append(obj)
        i += j


def map_ty(t, f):
    """copy of a Ty tree with f applied to every leaf copy"""
    n = A.Ty(t.kind, **{s: getattr(t, s) for s in A.Ty.__slots__[1:]})
    if t.kind in ("ptr", "arr"):
        n.to = map_ty(t.to, f)
    elif t.kind == "fn":
        n.params = [map_ty(p, f) for p in t.params]
        n.ret = map_ty(t.ret, f)
    return f(n) or n


# --------------------------------------------------------------------------- Rust side for a target

def retarget_rust(d, tg, ptr):
    """the Rust declaration list as it reads on the target: usize/isize have the pointer's width, the
    core::ffi aliases are the target's"""
    def leaf(t):
        if t.kind == "int":
            if t.ffi:
                prim = tg.ffi[t.ffi]
                b = A.RUST_PRIMS[prim]
                t.size, t.sign, t.name = b[1], b[2], prim
            if t.name in ("usize", "isize"):
                t.size = ptr
        return t
    n = A.Decls()
    n.structs = [(s, u, [(fn, map_ty(ft, leaf)) for fn, ft in fs]) for (s, u, fs) in d.structs]
    n.funs = [(f, [map_ty(p, leaf) for p in ps], map_ty(r, leaf)) for (f, ps, r) in d.funs]
    n.vars = [(v, map_ty(t, leaf)) for v, t in d.vars]
    n.meta = d.meta
    return n


def rust_nocore_render(t):
    """type text for the no_core layout crate: references and pointers to void have the layout of
    thin raw pointers"""
    k = t.kind
    if k == "ptr" and t.to.kind != "fn":
        inner = "u8" if t.to.kind == "void" else rust_nocore_render(t.to)
        return ("*const " if t.to.const else "*mut ") + inner
    if k == "ptr":
        f = t.to
        ret = "" if f.ret.kind == "void" else " -> " + rust_nocore_render(f.ret)
        return "%sextern \"C\" fn(%s)%s" % ("unsafe " if t.unsafe else "", ", ".join(rust_nocore_render(p) for p in f.params), ret)
    if k == "arr":
        return "[%s; %d]" % (rust_nocore_render(t.to), t.n)
    if k == "void":
        return "()"
    return A.rust_render(t)


NOCORE_HEAD = """#![feature(no_core, lang_items, rustc_attrs)]
#![no_core]
#![allow(dead_code, non_camel_case_types, internal_features, improper_ctypes_definitions)]
#![crate_type = "rlib"]
#[lang = "pointee_sized"] pub trait PointeeSized {}
#[lang = "meta_sized"] pub trait MetaSized: PointeeSized {}
#[lang = "sized"] pub trait Sized: MetaSized {}
#[lang = "copy"] pub trait Copy {}
"""


def rust_nocore_probe(r):
    """-> (text, {line: item}).  One item per line; rustc reports each layout as a diagnostic whose
    span starts on that line."""
    lines = NOCORE_HEAD.rstrip("\n").split("\n")
    items = {}
    for i, (p, _) in enumerate(PRIMS):
        lines.append("#[rustc_layout(size, align)] type verif_p%d = %s;" % (i, p))
        items[len(lines)] = ("P", i)
    for si, (n, u, fs) in enumerate(r.structs):
        lines.append("#[rustc_layout(debug)] #[repr(C)] pub struct %s { %s }"
                     % (n, ", ".join("pub %s: %s" % (fn, rust_nocore_render(ft)) for fn, ft in fs)))
        items[len(lines)] = ("S", si)
        for fi, (fn, ft) in enumerate(fs):
            lines.append("#[rustc_layout(size, align)] type verif_f%d_%d = %s;" % (si, fi, rust_nocore_render(ft)))
            items[len(lines)] = ("F", si, fi)
    return "\n".join(lines) + "\n", items


def rust_target_layout(r, tg, workdir, tag):
    """-> (prims {name: (size, align)}, canonical S/F lines) as computed by rustc for tg.rust, or
    raises AbiError"""
    text, items = rust_nocore_probe(r)
    src = Path(workdir) / ("nocore_%s.rs" % tag)
    src.write_text(text)
    env = dict(os.environ)
    env["RUSTC_BOOTSTRAP"] = "1"
    rc, out, err = run(["rustc", "--target", tg.rust, "--edition", "2018", "--emit=metadata", "--error-format=json",
                        "-o", str(Path(workdir) / ("nocore_%s.rmeta" % tag)), str(src)], env=env)
    got = {}
    other = []
    for ln in err.splitlines():
        if not ln.startswith("{"):
            if ln.strip():
                other.append(ln)
            continue
        d = json.loads(ln)
        msg = d.get("message", "")
        sp = d.get("spans") or []
        item = items.get(sp[0]["line_start"]) if sp else None
        m_sz = re.match(r"size: Size\((\d+) bytes\)", msg)
        m_al = re.match(r"align: AbiAlign \{ abi: Align\((\d+) bytes\) \}", msg)
        if item is None or d.get("level") != "error":
            if "aborting due to" not in msg and d.get("level") == "error":
                other.append(msg[:300])
            continue
        e = got.setdefault(item, {})
        if m_sz:
            e["size"] = int(m_sz.group(1))
        elif m_al:
            e["align"] = int(m_al.group(1))
        elif msg.startswith("layout_of("):
            m1 = re.search(r"size: Size\((\d+) bytes\)", msg)
            m2 = re.search(r"abi: Align\((\d+) bytes\)", msg)
            m3 = re.search(r"offsets: \[(.*?)\]", msg, flags=re.S)
            if m1 and m2 and m3:
                e["size"], e["align"] = int(m1.group(1)), int(m2.group(1))
                e["offsets"] = [int(x) for x in re.findall(r"Size\((\d+) bytes\)", m3.group(1))]
            else:
                other.append("unparsed layout: " + msg[:200])
        else:
            other.append(msg[:300])
    missing = [it for it in items.values() if "size" not in got.get(it, {}) or "align" not in got.get(it, {})]
    if other or missing:
        raise A.AbiError("rustc --target %s on %s: %s; %d layouts missing" % (tg.rust, src, "; ".join(other)[:600], len(missing)))
    prims = {PRIMS[i][0]: (got[("P", i)]["size"], got[("P", i)]["align"]) for i in range(len(PRIMS))}
    lines = []
    for si, (n, u, fs) in enumerate(r.structs):
        s = got[("S", si)]
        if len(s.get("offsets", [])) != len(fs):
            raise A.AbiError("rustc --target %s: %d member offsets for %s, %d members" % (tg.rust, len(s.get("offsets", [])), n, len(fs)))
        lines.append("S %s struct %d %d %d" % (n, s["size"], s["align"], len(fs)))
        for fi, (fn, ft) in enumerate(fs):
            f = got[("F", si, fi)]
            lines.append("F %s %d %s %d %d %d" % (n, fi, fn, s["offsets"][fi], f["size"], f["align"]))
    return prims, lines, src


# --------------------------------------------------------------------------- C side for a target

BASE_KEYS = [k for k in A.C_BASE if k != "void"]


def base_block():
    o = ["", "enum verif_base {"]
    tail = ["#ifdef __SIZEOF_INT128__", "enum verif_base128 {"]
    for i, k in enumerate(BASE_KEYS):
        dst = tail if "__int128" in k else o
        dst.append("  verif_b%d_s = sizeof(%s), verif_b%d_a = _Alignof(%s)," % (i, k, i, k))
        if A.C_BASE[k][0] == "int":
            dst.append("  verif_b%d_n = ((%s)-1 < (%s)0)," % (i, k, k))
    o.append("  verif_b_ps = sizeof(void *), verif_b_pa = _Alignof(void *),")
    o.append("  verif_b_fs = sizeof(void (*)(void)), verif_b_fa = _Alignof(void (*)(void))")
    o.append("};")
    tail += ["  verif_b128_end = 0", "};", "#endif"]
    return "\n".join(o + tail) + "\n"


def base_table(consts):
    """the target's C base types: {name: C_BASE-like entry}, {name: align}, pointer (size, align)"""
    base, align = {"void": ("void",)}, {}
    for i, k in enumerate(BASE_KEYS):
        s, a = consts.get("verif_b%d_s" % i), consts.get("verif_b%d_a" % i)
        if s is None:
            continue                    # no __int128 on this target
        b = A.C_BASE[k]
        align[k] = a
        if b[0] == "bool":
            base[k] = ("bool",)
            if (s, a) != (1, 1):
                raise A.AbiError("_Bool is %d/%d on this target; the type language has a 1-byte bool" % (s, a))
        elif b[0] == "flt":
            base[k] = ("flt", s)
        else:
            neg = consts.get("verif_b%d_n" % i)
            sign = "c" if k == "char" else ("s" if neg else "u")
            if k != "char" and sign != b[2]:
                raise A.AbiError("%s has signedness %s on this target" % (k, sign))
            base[k] = ("int", s, sign)
    ptr = (consts["verif_b_ps"], consts["verif_b_pa"])
    fptr = (consts["verif_b_fs"], consts["verif_b_fa"])
    if ptr != fptr:
        raise A.AbiError("object and function pointers differ (%s vs %s)" % (ptr, fptr))
    return base, align, ptr


def rust_as_c(t):
    """a Rust-side Ty as the C type that has its meaning on every target (fixed-width integers through
    the compiler's own __UINTn_TYPE__ macros, core::ffi aliases as the C type they name, struct x as
    struct a_x); None when there is no such rendering"""
    bad = []

    def leaf(n):
        if n.kind == "int":
            n.name = FFI_AS_C[n.ffi] if n.ffi else RUST_AS_C.get(n.name)
            if n.name is None:
                bad.append(1)
        elif n.kind == "flt":
            n.name = None
        elif n.kind == "rec":
            n.name, n.tag = "a_" + n.name, "struct"
        elif n.kind == "unsupported":
            bad.append(1)
        return n
    c = map_ty(t, leaf)
    return None if bad else c


def byval_recs(t, out):
    if t.kind == "rec":
        out.add(t.name)
    elif t.kind == "arr":
        byval_recs(t.to, out)
    elif t.kind == "fn":
        for p in t.params:
            byval_recs(p, out)
        byval_recs(t.ret, out)
    return out


def c_target_probe(c, r):
    """pass 2 translation unit; -> (text, index) where index names what each constant is"""
    hdrs = c.meta.get("headers", [])
    o = ["#include <stddef.h>"] + ['#include "a/%s"' % h for h in hdrs]
    o.append("#define FS(T, f) sizeof(((T *)0)->f)")
    o.append("#define FA(T, f) _Alignof(__typeof__(((T *)0)->f))")
    for (n, ps, rt) in c.funs:
        ft = c.meta.get("fnty", {}).get(n)
        if ft is not None:
            o.append('_Static_assert(__builtin_types_compatible_p(__typeof__(%s), %s), "resolved prototype of %s");'
                     % (n, A.c_render(ft), n))
    for (n, t) in c.vars:
        if not A.has_unsupported(t):
            o.append('_Static_assert(__builtin_types_compatible_p(__typeof__(%s), %s), "resolved type of %s");'
                     % (n, A.c_render(t), n))
    o.append("enum verif_layout {")
    for si, (n, u, fs) in enumerate(c.structs):
        T = ("union " if u else "struct ") + n
        o.append("  verif_L%d_S = sizeof(%s), verif_L%d_A = _Alignof(%s)," % (si, T, si, T))
        for fi, (fn, ft) in enumerate(fs):
            o.append("  verif_L%d_%d_O = offsetof(%s, %s), verif_L%d_%d_S = FS(%s, %s), verif_L%d_%d_A = FA(%s, %s),"
                     % (si, fi, T, fn, si, fi, T, fn, si, fi, T, fn))
    o.append("  verif_L_end = 0\n};")
    o.append("enum verif_prim {")
    for i, (_, ctype) in enumerate(PRIMS):
        o.append("  verif_P%d_S = sizeof(%s), verif_P%d_A = _Alignof(%s)," % (i, ctype, i, ctype))
    o.append("  verif_P_end = 0\n};")
    # identity of the C declaration with the C rendering of the Rust declaration
    crecs = {n for (n, u, fs) in c.structs}
    cfun = {n for (n, ps, rt) in c.funs}
    cvar = {n for (n, t) in c.vars}
    o.append("enum verif_ident {")
    ident = {}
    for k, (n, ps, rt) in enumerate(r.funs):
        if n not in cfun or any(A.has_unsupported(p) for p in ps) or A.has_unsupported(rt):
            continue
        ft = rust_as_c(A.T_fn(ps, rt))
        if ft is None or not byval_recs(ft, set()) <= crecs:
            continue
        o.append("  verif_If%d = __builtin_types_compatible_p(__typeof__(%s), %s)," % (k, n, A.c_render(ft)))
        ident["verif_If%d" % k] = n
    for k, (n, t) in enumerate(r.vars):
        if n not in cvar or A.has_unsupported(t):
            continue
        vt = rust_as_c(t)
        if vt is None or not byval_recs(vt, set()) <= crecs:
            continue
        o.append("  verif_Iv%d = __builtin_types_compatible_p(__typeof__(%s), %s)," % (k, n, A.c_render(vt)))
        ident["verif_Iv%d" % k] = n
    o.append("  verif_I_end = 0\n};")
    return "\n".join(o) + "\n", ident


def c_target(repo, cfg, workdir, real, tg, r_host):
    """-> dict(c=Decls, base, align, ptr, lines=[canonical S/F], prims, ident={name: 0/1}, probe=Path)"""
    workdir = Path(workdir)
    ast, hdrs, src = A.clang_ast(repo, cfg, workdir, real, extra_args=tg.cmd()[1:], extra_src=base_block())
    consts = enum_constants(ast["inner"], "verif_base")
    base, align, ptr = base_table(consts)
    c = A.c_decls_of_ast(ast, hdrs, src, base)
    skipped = [s[0] for s in c.structs if any(A.has_unsupported(ft) for _, ft in s[2])]
    c.structs = [s for s in c.structs if s[0] not in skipped]
    r = retarget_rust(r_host, tg, ptr[0])
    text, ident_names = c_target_probe(c, r)
    probe = workdir / ("xprobe_r%d.c" % real)
    probe.write_text(text)
    cmd = tg.cmd() + ["-std=c11", "-w", "-I", str(Path(repo) / "include"), "-DA_EXPORTS", '-DA_HAVE_H="%s"' % cfg,
                      "-fsyntax-only", "-Xclang", "-ast-dump=json", "-Xclang", "-ast-dump-filter=verif_", str(probe)]
    rc, out, err = run(cmd)
    if rc != 0:
        m = re.search(r'resolved (?:prototype|type) of (\w+)', err)
        raise A.AbiError("clang --target=%s rejects the probe %s%s: %s"
                         % (tg.triple, probe, " (the translator mis-resolved %s)" % m.group(1) if m else "",
                            " ".join(err.split())[-500:]))
    k = {}
    for doc in json_docs(out):
        k.update(enum_constants([doc], "verif_"))
    lines = []
    for si, (n, u, fs) in enumerate(c.structs):
        lines.append("S %s %s %d %d %d" % (n, "union" if u else "struct", k["verif_L%d_S" % si], k["verif_L%d_A" % si], len(fs)))
        for fi, (fn, ft) in enumerate(fs):
            lines.append("F %s %d %s %d %d %d" % (n, fi, fn, k["verif_L%d_%d_O" % (si, fi)], k["verif_L%d_%d_S" % (si, fi)],
                                                  k["verif_L%d_%d_A" % (si, fi)]))
    prims = {PRIMS[i][0]: (k["verif_P%d_S" % i], k["verif_P%d_A" % i]) for i in range(len(PRIMS))}
    ident = {name: k[cn] for cn, name in ident_names.items()}
    return {"c": c, "r": r, "base": base, "align": align, "ptr": ptr, "lines": lines, "prims": prims, "ident": ident,
            "probe": probe, "skipped": skipped, "cmd": cmd}


# --------------------------------------------------------------------------- one target, one width

def model_applies(res):
    """Does the target fit the parametric layout model of coq/C20/AbiTarget.v, and with which
    parameters?  The model has: pointers of one size aligned to it; 1-, 2- and 4-byte scalars aligned
    to their size; one alignment for all 8-byte scalars (t_a8), one for all 16-byte scalars (t_a16).
    -> (True, "", (t_ptr, t_a8, t_a16)) or (False, why, None); judged on what the two compilers report"""
    ps, pa = res["ptr"]
    if ps != pa or ps not in (4, 8):
        return False, "pointers are %d/%d" % (ps, pa), None
    a8, a16 = set(), set()
    scal = [(n, s, a) for n, (s, a) in sorted(res["prims"].items())] + [(n, s, a) for n, (s, a) in sorted(res["rust_prims"].items())]
    used = set()

    def walk(t):
        if t.kind in ("int", "flt"):
            used.add(t.name)
        elif t.kind in ("ptr", "arr"):
            walk(t.to)
        elif t.kind == "fn":
            for p in t.params:
                walk(p)
            walk(t.ret)
    for (n, u, fs) in res["c"].structs:
        for _, ft in fs:
            walk(ft)
    for name in sorted(x for x in used if x):
        b = res["base"].get(name)
        if b and len(b) > 1:
            scal.append(("C " + name, b[1], res["align"].get(name)))
    for name, s, a in scal:
        if s in (1, 2, 4):
            if a != s:
                return False, "%s is %d/%d, the layout model aligns 1-, 2- and 4-byte scalars to their size" % (name, s, a), None
        elif s == 8:
            a8.add(a)
        elif s == 16:
            a16.add(a)
        else:
            return False, "%s has size %d" % (name, s), None
    if len(a8) > 1 or len(a16) > 1:
        return False, "8-byte scalars have alignments %s, 16-byte ones %s: the layout model has one of each" % (sorted(a8), sorted(a16)), None
    return True, "", (ps, (sorted(a8) or [8])[0], (sorted(a16) or [16])[0])


def one(repo, cfg, workdir, real, tag, tg, r_host):
    """everything for (target, width); never raises: {"error": text} on a front-end / probe failure"""
    try:
        res = c_target(repo, cfg, workdir, real, tg, r_host)
        rprims, rlines, rsrc = rust_target_layout(res["r"], tg, workdir, tag)
    except (A.AbiError, subprocess.TimeoutExpired, KeyError, ValueError) as e:
        return {"error": "%s: %s" % (type(e).__name__, str(e)[:900])}
    res["rust_prims"], res["rust_lines"], res["rust_probe"] = rprims, rlines, rsrc
    res["pairing"] = [(p, res["prims"][p], rprims[p]) for p, _ in PRIMS if res["prims"][p] != rprims[p]]
    res["mismatches"] = A.py_mismatches(res["r"], res["c"], rlines, res["lines"])
    res["model"], res["model_why"], res["tg"] = model_applies(res)
    return res


# --------------------------------------------------------------------------- focused probe of one mismatch

def decl_name(key):
    m = re.match(r"(fn|static|struct)/(\w+)", key)
    return (m.group(1), m.group(2)) if m else ("", key)


def leaf_assert(ct, rt, what, out):
    """descend two types in parallel to the first place they differ in kind; compare integers by size and
    signedness, everything else by type compatibility"""
    while ct.kind == rt.kind and ct.kind in ("ptr", "arr") and ct.to.kind != "fn" and rt.to.kind != "fn":
        ct, rt = ct.to, rt.to
        what += " (pointee)" if "pointee" not in what else ""
    k = sum(1 for ln in out if ln.startswith("typedef ")) // 2
    a, b = "verif_c%d" % k, "verif_r%d" % k
    if ct.kind == "void" or rt.kind == "void" or A.has_unsupported(ct):
        out.append("/* %s: C `%s`, Rust `%s` */" % (what, A.coq_ty(ct), A.coq_ty(rt)))
        if A.has_unsupported(ct):
            out.append('_Static_assert(0, "%s: the C type is outside the type language (%s)");' % (what, A.coq_ty(ct).replace('"', "'")))
        return
    out.append("typedef %s;" % A.c_render(ct, a))
    out.append("typedef %s;" % A.c_render(rt, b))
    if ct.kind == "int" and rt.kind == "int":
        out.append('_Static_assert(sizeof(%s) == sizeof(%s) && ((%s)-1 < 0) == ((%s)-1 < 0), "%s: size / signedness of the C type differ from the Rust declaration");'
                   % (a, b, a, b, what))
    else:
        out.append('_Static_assert(__builtin_types_compatible_p(%s, %s), "%s: the C type differs from the Rust declaration");' % (a, b, what))


def focused_probe(res, kind, name, items, workdir, tg, repo, cfg, tag):
    """a small translation unit that fails to compile for the target exactly where the declaration
    `name` disagrees; -> (path, clang's message)"""
    c, r = res["c"], res["r"]
    o = ["/* %s on %s: lib.rs vs the headers */" % (name, tg.triple), "#include <stddef.h>"]
    o += ['#include "a/%s"' % h for h in c.meta.get("headers", [])]
    if kind in ("fn", "static"):
        cf = {n: (ps, rt) for (n, ps, rt) in c.funs}
        rf = {n: (ps, rt) for (n, ps, rt) in r.funs}
        cv, rv = dict(c.vars), dict(r.vars)
        if kind == "fn" and name in cf and name in rf:
            ft = c.meta.get("fnty", {}).get(name)
            if ft is not None:
                o.append('_Static_assert(__builtin_types_compatible_p(__typeof__(%s), %s), "the translator\'s reading of %s");'
                         % (name, A.c_render(ft), name))
            rc_ = rust_as_c(A.T_fn(rf[name][0], rf[name][1]))
            if rc_ is not None:
                o.append("/* lib.rs declares: %s */" % A.c_render(rc_, name))
                for key, what, det in items:
                    m = re.search(r"/param/(\d+)$", key)
                    if m and int(m.group(1)) < len(cf[name][0]):
                        i = int(m.group(1))
                        leaf_assert(cf[name][0][i], rc_.params[i], "%s parameter %d" % (name, i), o)
                    elif key.endswith("/ret"):
                        leaf_assert(cf[name][1], rc_.ret, "%s result" % name, o)
                    elif key.endswith("/arity"):
                        o.append('_Static_assert(0, "%s");' % what.replace('"', "'"))
        elif kind == "static" and name in cv and name in rv:
            rc_ = rust_as_c(rv[name])
            if rc_ is not None:
                leaf_assert(cv[name], rc_, "static %s" % name, o)
    else:
        cn = "a_" + name
        rl = A.parse_layout_lines(res["rust_lines"]).get(name)
        cs = {n: (u, fs) for (n, u, fs) in c.structs}.get(cn)
        if rl and cs:
            T = ("union " if cs[0] else "struct ") + cn
            o.append('_Static_assert(sizeof(%s) == %d, "%s: size, rustc --target %s has %d");' % (T, rl["size"], name, tg.rust, rl["size"]))
            o.append('_Static_assert(_Alignof(%s) == %d, "%s: alignment, rustc has %d");' % (T, rl["align"], name, rl["align"]))
            for i, ((cfn, cft), rf_) in enumerate(zip(cs[1], rl["fields"])):
                o.append('_Static_assert(offsetof(%s, %s) == %d, "%s.%s: offset, rustc has %d");' % (T, cfn, rf_[1], name, rf_[0], rf_[1]))
                o.append('_Static_assert(sizeof(((%s *)0)->%s) == %d, "%s.%s: size, rustc has %d");' % (T, cfn, rf_[2], name, rf_[0], rf_[2]))
    if not any(ln.startswith("_Static_assert") for ln in o):
        o.append('_Static_assert(0, "%s");' % "; ".join(w for _, w, _ in items).replace('"', "'")[:400])
    p = Path(workdir) / ("mismatch_%s_%s.c" % (name, tag))
    p.write_text("\n".join(o) + "\n")
    cmd = tg.cmd() + ["-std=c11", "-w", "-I", str(Path(repo) / "include"), "-DA_EXPORTS", '-DA_HAVE_H="%s"' % cfg,
                      "-fsyntax-only", str(p)]
    rc, out, err = run(cmd)
    msgs = [ln.strip() for ln in err.splitlines() if "error:" in ln]
    return p, cmd, msgs[:8]
