/* Stub <string.h> for the cross-target front-end runs of checks/C20.py (see math.h here).
   include/a/str.h includes <string.h> but its declarations and inline functions name nothing of it
   (found by trying: the headers compile for every target with this file empty). */
#ifndef VERIF_C20_STUB_STRING_H
#define VERIF_C20_STUB_STRING_H
#include <stddef.h>
#endif
