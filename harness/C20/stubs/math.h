/* Stub <math.h> for the cross-target front-end runs of checks/C20.py (harness/C20/abix.py):
   clang --target=<T> -ffreestanding -nostdlibinc -isystem harness/C20/stubs -fsyntax-only.
   Nothing is linked or run.  It declares exactly what the liba headers name when the configuration
   header sets A_HAVE_EXPM1 / LOG1P / HYPOT / ATAN2 / ASINH / ACOSH / ATANH (include/a/math.h then
   defines a_real_expm1 ... as the C library function); found by trying: with an empty file the probe's
   __typeof__(a_real_atan2) is an undeclared identifier, nothing else of <math.h> is needed. */
#ifndef VERIF_C20_STUB_MATH_H
#define VERIF_C20_STUB_MATH_H
#define VERIF_C20_M1(n) double n(double); float n##f(float); long double n##l(long double);
#define VERIF_C20_M2(n) double n(double, double); float n##f(float, float); long double n##l(long double, long double);
VERIF_C20_M1(expm1)
VERIF_C20_M1(log1p)
VERIF_C20_M1(asinh)
VERIF_C20_M1(acosh)
VERIF_C20_M1(atanh)
VERIF_C20_M2(hypot)
VERIF_C20_M2(atan2)
#undef VERIF_C20_M1
#undef VERIF_C20_M2
#endif
