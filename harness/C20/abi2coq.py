#!/usr/bin/env python3
"""abi2coq - declarations -> Rocq data for property C20 (Rust mirror ABI).

C side   : clang's JSON AST of the CURRENT headers ($REPO/include/a/*.h), typedefs resolved by a
           small C type-name parser (clang prints types in standard type-name syntax).
Rust side: a purpose-built tokenizer/parser of the CURRENT $REPO/src/lib.rs for
           `#[repr(C)] struct`, `extern "C" { fn ...; static ...; }`, `type X = T;`, `mod`, and
           `#[cfg(...)]` on those items (features: "float" on/off).  Anything in item position
           that is not understood is a loud error (AbiError).

Both sides are rendered in the same type language (coq/C20/AbiDefs.v : cty) as a Coq file, and as
probe programs (C for gcc/clang, Rust for rustc) that make the compilers print the layout the
model must reproduce and type-check the parsed signatures against the real declarations.

Only the Python standard library is used.  The module is imported by checks/C20.py; it can also be
run by hand:  abi2coq.py <repo> <outdir>
"""
import json
import re
import subprocess
import sys
from pathlib import Path


class AbiError(Exception):
    pass


# --------------------------------------------------------------------------- type IR

class Ty:
    """kind: void bool int flt ptr arr rec fn unsupported"""
    __slots__ = ("kind", "size", "sign", "to", "n", "name", "tag", "params", "ret", "variadic", "why", "const",
                 "isref", "unsafe", "ffi")

    def __init__(self, kind, **kw):
        self.kind = kind
        for s in self.__slots__[1:]:
            setattr(self, s, kw.get(s))
        self.const = bool(kw.get("const"))

    def with_const(self):
        t = Ty(self.kind)
        for s in self.__slots__[1:]:
            setattr(t, s, getattr(self, s))
        t.const = True
        return t

    def __repr__(self):
        return coq_ty(self)


def T_void(): return Ty("void")
def T_bool(): return Ty("bool")
def T_int(size, sign, name=None): return Ty("int", size=size, sign=sign, name=name)
def T_flt(size): return Ty("flt", size=size)
def T_ptr(to): return Ty("ptr", to=to)
def T_arr(to, n): return Ty("arr", to=to, n=n)
def T_rec(name, tag="struct"): return Ty("rec", name=name, tag=tag)
def T_fn(params, ret, variadic=False): return Ty("fn", params=params, ret=ret, variadic=variadic)
def T_unsupported(why): return Ty("unsupported", why=why)


def coq_str(s):
    return '"' + s.replace('"', '""') + '"'


def coq_ty(t):
    k = t.kind
    if k == "void":
        return "Void"
    if k == "bool":
        return "Bool"
    if k == "int":
        return "(Int %d %s)" % (t.size, {"s": "Signed", "u": "Unsigned", "c": "PlainChar"}[t.sign])
    if k == "flt":
        return "(Flt %d)" % t.size
    if k == "ptr":
        if t.to.kind == "fn":
            f = t.to
            if f.variadic:
                return "(Unsupported %s)" % coq_str("variadic function pointer")
            return "(FnPtr [%s] %s)" % ("; ".join(coq_ty(p) for p in f.params), coq_ty(f.ret))
        return "(Ptr %s)" % coq_ty(t.to)
    if k == "arr":
        return "(Arr %s %d)" % (coq_ty(t.to), t.n)
    if k == "rec":
        return "(Rec %s)" % coq_str(t.name)
    if k == "fn":
        return "(Unsupported %s)" % coq_str("bare function type")
    if k == "unsupported":
        return "(Unsupported %s)" % coq_str(t.why)
    raise AbiError("coq_ty: " + k)


class Decls:
    def __init__(self):
        self.structs = []   # (name, is_union, [(fname, Ty)])
        self.funs = []      # (name, [Ty], Ty)
        self.vars = []      # (name, Ty)
        self.meta = {}


def coq_decls(name, d):
    out = ["Definition %s : decls := {|" % name, "  d_structs := ["]
    ss = []
    for (n, u, fs) in d.structs:
        ss.append("    {| s_name := %s; s_union := %s; s_fields := [%s] |}" % (
            coq_str(n), "true" if u else "false",
            "; ".join("(%s, %s)" % (coq_str(fn), coq_ty(ft)) for fn, ft in fs)))
    out.append(";\n".join(ss))
    out.append("  ];")
    out.append("  d_funs := [")
    out.append(";\n".join("    {| f_name := %s; f_params := [%s]; f_ret := %s |}" % (
        coq_str(n), "; ".join(coq_ty(p) for p in ps), coq_ty(r)) for (n, ps, r) in d.funs))
    out.append("  ];")
    out.append("  d_vars := [")
    out.append(";\n".join("    {| v_name := %s; v_ty := %s |}" % (coq_str(n), coq_ty(t)) for n, t in d.vars))
    out.append("  ] |}.")
    return "\n".join(out) + "\n"


# --------------------------------------------------------------------------- C side

C_BASE = {
    "void": ("void",), "_Bool": ("bool",),
    "char": ("int", 1, "c"), "signed char": ("int", 1, "s"), "unsigned char": ("int", 1, "u"),
    "short": ("int", 2, "s"), "unsigned short": ("int", 2, "u"),
    "int": ("int", 4, "s"), "unsigned int": ("int", 4, "u"),
    "long": ("int", 8, "s"), "unsigned long": ("int", 8, "u"),
    "long long": ("int", 8, "s"), "unsigned long long": ("int", 8, "u"),
    "__int128": ("int", 16, "s"), "unsigned __int128": ("int", 16, "u"),
    "float": ("flt", 4), "double": ("flt", 8), "long double": ("flt", 16),
}
C_SPEC_WORDS = {"void", "_Bool", "char", "short", "int", "long", "signed", "unsigned", "float", "double",
                "__int128"}
C_QUALS = {"const", "volatile", "restrict", "__restrict", "_Nullable", "_Nonnull"}


def c_tokens(s):
    toks = re.findall(r"[A-Za-z_]\w*|\d+|\.\.\.|[()\[\]*,]", s)
    if "".join(toks) != re.sub(r"\s+", "", s):
        raise AbiError("C type not tokenizable: %r" % s)
    return toks


class CTypes:
    """Resolves clang type spellings to Ty using the typedef table of the translation unit."""

    def __init__(self, typedefs, base=None):
        self.typedefs = typedefs   # name -> underlying spelling
        self.cache = {}
        self.base = C_BASE if base is None else base    # another target's table (abix.py)

    def parse(self, spelling):
        if spelling in self.cache:
            return self.cache[spelling]
        toks = c_tokens(spelling)
        t, i = self._type_name(toks, 0)
        if i != len(toks):
            raise AbiError("trailing tokens in C type %r at %d" % (spelling, i))
        self.cache[spelling] = t
        return t

    def _base_from_words(self, words):
        ws = [w for w in words if w != "signed" or words == ["signed"] or "char" in words]
        # normalise: "unsigned" alone = unsigned int, "long int" = long, "signed char" stays
        has_unsigned = "unsigned" in ws
        core = [w for w in ws if w not in ("unsigned", "signed", "int")]
        if "char" in core:
            key = "unsigned char" if has_unsigned else ("signed char" if "signed" in words else "char")
        elif core == []:
            key = "unsigned int" if has_unsigned else "int"
        else:
            key = " ".join(core)
            if has_unsigned:
                key = "unsigned " + key
        if key not in self.base:
            raise AbiError("unknown C base type %r" % " ".join(words))
        b = self.base[key]
        if len(b) == 1:
            return Ty(b[0])
        if b[0] == "int":
            return T_int(b[1], b[2], key)
        t = T_flt(b[1])
        t.name = key        # spelling, for c_render (long double has the size of double on some targets)
        return t

    def _type_name(self, toks, i):
        const = False
        words = []
        base = None
        while i < len(toks):
            t = toks[i]
            if t in C_QUALS:
                const = const or t == "const"
                i += 1
            elif t in ("struct", "union", "enum"):
                if i + 1 >= len(toks):
                    raise AbiError("anonymous %s in type" % t)
                nm = toks[i + 1]
                if t == "enum":
                    base = T_unsupported("enum " + nm)
                elif nm.startswith("__"):
                    base = T_unsupported("builtin record " + nm)
                else:
                    base = T_rec(nm, t)
                i += 2
            elif t in C_SPEC_WORDS:
                words.append(t)
                i += 1
            elif re.match(r"[A-Za-z_]", t) and base is None and not words:
                if t not in self.typedefs:
                    raise AbiError("unknown C type name %r" % t)
                base = self.parse(self.typedefs[t])
                i += 1
            else:
                break
        if words:
            if base is not None:
                raise AbiError("mixed specifiers")
            base = self._base_from_words(words)
        if base is None:
            raise AbiError("no type specifier at token %d of %r" % (i, toks))
        if const:
            base = base.with_const()
        wrap, i = self._abs_decl(toks, i)
        return wrap(base), i

    def _abs_decl(self, toks, i):
        ptrs = []          # const flag of each pointer
        while i < len(toks) and toks[i] == "*":
            i += 1
            c = False
            while i < len(toks) and toks[i] in C_QUALS:
                c = c or toks[i] == "const"
                i += 1
            ptrs.append(c)
        inner = None
        if i < len(toks) and toks[i] == "(" and i + 1 < len(toks) and toks[i + 1] in ("*", "(", "["):
            inner, i = self._abs_decl(toks, i + 1)
            if i >= len(toks) or toks[i] != ")":
                raise AbiError("expected ) in declarator")
            i += 1
        suffixes = []
        while i < len(toks) and toks[i] in ("[", "("):
            if toks[i] == "[":
                if i + 2 >= len(toks) or not toks[i + 1].isdigit() or toks[i + 2] != "]":
                    raise AbiError("unsupported array declarator in %r" % toks)
                suffixes.append(("arr", int(toks[i + 1])))
                i += 3
            else:
                i += 1
                params, variadic = [], False
                if toks[i] == ")":
                    variadic = True     # K&R unprototyped
                    i += 1
                else:
                    while True:
                        if toks[i] == "...":
                            variadic = True
                            i += 1
                        else:
                            p, i = self._type_name(toks, i)
                            params.append(p)
                        if toks[i] == ",":
                            i += 1
                            continue
                        if toks[i] == ")":
                            i += 1
                            break
                        raise AbiError("bad parameter list in %r" % toks)
                    if len(params) == 1 and params[0].kind == "void" and not variadic:
                        params = []
                suffixes.append(("fn", params, variadic))

        def wrap(base):
            t = base
            for c in ptrs:
                t = T_ptr(t)
                if c:
                    t = t.with_const()
            for s in reversed(suffixes):
                if s[0] == "arr":
                    t = T_arr(t, s[1])
                else:
                    t = T_fn([adjust_param(p) for p in s[1]], t, s[2])
            return inner(t) if inner else t
        return wrap, i


def adjust_param(p):
    """C parameter adjustment: array -> pointer to element, function -> pointer to function."""
    if p.kind == "arr":
        return T_ptr(p.to)
    if p.kind == "fn":
        return T_ptr(p)
    return p


def c_render(t, inner=""):
    """Render a Ty (C side, typedefs already resolved) back as a C type-name, `inner` being the
    declarator built so far.  Used to let gcc check the resolver: the rendering must be compatible
    with the real declaration."""
    k = t.kind
    q = "const " if t.const else ""
    if k in ("void", "bool", "int", "flt"):
        if k == "void":
            b = "void"
        elif k == "bool":
            b = "_Bool"
        elif k == "flt":
            b = t.name or {4: "float", 8: "double", 16: "long double"}[t.size]
        elif t.name:
            b = t.name
        else:
            b = {(1, "c"): "char", (1, "s"): "signed char", (1, "u"): "unsigned char", (2, "s"): "short",
                 (2, "u"): "unsigned short", (4, "s"): "int", (4, "u"): "unsigned int", (8, "s"): "long",
                 (8, "u"): "unsigned long", (16, "s"): "__int128", (16, "u"): "unsigned __int128"}[(t.size, t.sign)]
        return (q + b + " " + inner).strip()
    if k == "rec":
        return (q + t.tag + " " + t.name + " " + inner).strip()
    if k == "ptr":
        d = "*" + ("const " if t.const else "") + inner
        if t.to.kind in ("arr", "fn"):
            d = "(" + d + ")"
        return c_render(t.to, d)
    if k == "arr":
        return c_render(t.to, "%s[%d]" % (inner, t.n))
    if k == "fn":
        ps = ", ".join(c_render(p) for p in t.params) or "void"
        if t.variadic:
            ps = (ps + ", ...") if t.params else ""
        return c_render(t.ret, "%s(%s)" % (inner, ps))
    raise AbiError("cannot render " + k)


def clang_ast(repo, cfg_header, workdir, real, extra_args=(), extra_src=""):
    """extra_args / extra_src: other targets (abix.py): front-end options and text appended to the
    translation unit (constants the caller reads back from the AST)"""
    workdir = Path(workdir)
    workdir.mkdir(parents=True, exist_ok=True)
    hdrs = sorted(p.name for p in (Path(repo) / "include" / "a").glob("*.h"))
    if not hdrs:
        raise AbiError("no headers under %s/include/a" % repo)
    src = workdir / ("all_r%d.c" % real)
    src.write_text("".join('#include "a/%s"\n' % h for h in hdrs) + extra_src)
    cmd = ["clang", "-std=c11"] + list(extra_args) + ["-I", str(Path(repo) / "include"), "-DA_EXPORTS",
           '-DA_HAVE_H="%s"' % cfg_header, "-fsyntax-only", "-Xclang", "-ast-dump=json", str(src)]
    p = subprocess.run(cmd, stdout=subprocess.PIPE, stderr=subprocess.PIPE, text=True, timeout=120)
    if p.returncode != 0:
        raise AbiError("clang failed on the headers:\n" + p.stderr[-2000:])
    return json.loads(p.stdout), hdrs, src


LAYOUT_ATTRS = ("PackedAttr", "AlignedAttr", "MaxFieldAlignmentAttr", "MSStructAttr")


def c_decls(repo, cfg_header, workdir, real):
    """All named a_* records (complete definitions), all a_* functions with external linkage and all
    a_* extern variables of the current headers."""
    ast, hdrs, src = clang_ast(repo, cfg_header, workdir, real)
    return c_decls_of_ast(ast, hdrs, src)


def c_decls_of_ast(ast, hdrs, src, base=None):
    """the declaration list of a translation unit's AST; base: table of the base types (default: the
    host's C_BASE; abix.py passes the table it read from the target's own front end)"""
    typedefs = {}
    for x in ast["inner"]:
        if x["kind"] == "TypedefDecl":
            typedefs[x["name"]] = x["type"]["qualType"]
    ct = CTypes(typedefs, base)
    d = Decls()
    d.meta = {"headers": hdrs, "src": str(src), "ctypes": ct, "spellings": {}, "fnty": {}, "recs": {}}
    seen_fn = {}
    for x in ast["inner"]:
        k = x["kind"]
        name = x.get("name", "")
        if k == "RecordDecl" and x.get("completeDefinition") and name.startswith("a_"):
            fields = []
            for f in x.get("inner", []):
                fk = f["kind"]
                if fk == "FieldDecl":
                    if f.get("isBitfield"):
                        ft = T_unsupported("bit-field")
                    else:
                        try:
                            ft = ct.parse(f["type"]["qualType"])
                        except AbiError as e:
                            ft = T_unsupported(str(e)[:60])
                    fields.append((f.get("name", "_anon%d" % len(fields)), ft))
                elif fk in LAYOUT_ATTRS:
                    fields.append(("_attr", T_unsupported(fk)))
                elif fk in ("RecordDecl", "IndirectFieldDecl"):
                    fields.append(("_nested", T_unsupported("nested anonymous record")))
            d.structs.append((name, x.get("tagUsed") == "union", fields))
        elif k == "FunctionDecl" and name.startswith("a_"):
            if x.get("storageClass") == "static":
                continue
            try:
                ft = ct.parse(x["type"]["qualType"])
                if ft.kind != "fn":
                    raise AbiError("not a function type")
                params, ret = ft.params, ft.ret
                if ft.variadic:
                    params = params + [T_unsupported("variadic")]
            except AbiError as e:
                params, ret = [T_unsupported(str(e)[:60])], T_unsupported(str(e)[:60])
            if name in seen_fn:
                continue          # redeclaration (clang has already checked compatibility)
            seen_fn[name] = 1
            d.funs.append((name, params, ret))
            d.meta["spellings"][name] = x["type"]["qualType"]
            if not has_unsupported(ret) and not any(has_unsupported(p) for p in params):
                d.meta["fnty"][name] = ft
        elif k == "VarDecl" and name.startswith("a_") and x.get("storageClass") != "static":
            try:
                vt = ct.parse(x["type"]["qualType"])
            except AbiError as e:
                vt = T_unsupported(str(e)[:60])
            d.vars.append((name, vt))
    return d


# --------------------------------------------------------------------------- Rust side

class _Toks(list):
    """token list; append((kind, text, line)) records the offset of the token start as 4th item"""
    pos = 0

    def append(self, t):
        list.append(self, (t[0], t[1], t[2], self.pos))


def rust_tokens(src):
    """Tokens of a Rust source file: (kind, text, line, offset).  kinds: id num str chr life punct.
    Comments (incl. doc comments) are dropped."""
    toks = _Toks()
    i, n, line = 0, len(src), 1
    while i < n:
        toks.pos = i
        c = src[i]
        if c == "\n":
            line += 1
            i += 1
        elif c in " \t\r":
            i += 1
        elif src.startswith("//", i):
            j = src.find("\n", i)
            i = n if j < 0 else j
        elif src.startswith("/*", i):
            depth, j = 1, i + 2
            while j < n and depth:
                if src.startswith("/*", j):
                    depth += 1
                    j += 2
                elif src.startswith("*/", j):
                    depth -= 1
                    j += 2
                else:
                    if src[j] == "\n":
                        line += 1
                    j += 1
            if depth:
                raise AbiError("lib.rs: unterminated block comment")
            i = j
        elif c == '"' or (c in "br" and re.match(r'(b?r#*"|b")', src[i:])):
            m = re.match(r'b?r(#*)"', src[i:])
            if m:
                close = '"' + m.group(1)
                j = src.find(close, i + m.end())
                if j < 0:
                    raise AbiError("lib.rs:%d: unterminated raw string" % line)
                text = src[i:j + len(close)]
            else:
                j = i + (2 if c == "b" else 1)
                while j < n and src[j] != '"':
                    j += 2 if src[j] == "\\" else 1
                if j >= n:
                    raise AbiError("lib.rs:%d: unterminated string" % line)
                text = src[i:j + 1]
            toks.append(("str", text, line))
            line += text.count("\n")
            i += len(text)
        elif c == "'":
            m = re.match(r"'(\\.[^']*|[^'\\])'", src[i:])
            if m:
                toks.append(("chr", m.group(0), line))
                i += m.end()
            else:
                m = re.match(r"'[A-Za-z_]\w*", src[i:])
                if not m:
                    raise AbiError("lib.rs:%d: stray quote" % line)
                toks.append(("life", m.group(0), line))
                i += m.end()
        elif c.isalpha() or c == "_":
            m = re.match(r"[A-Za-z_]\w*", src[i:])
            toks.append(("id", m.group(0), line))
            i += m.end()
        elif c.isdigit():
            m = re.match(r"0x[0-9A-Fa-f_]+\w*|0b[01_]+\w*|0o[0-7_]+\w*|\d[\d_]*(\.\d[\d_]*)?([eE][+-]?\d+)?\w*", src[i:])
            toks.append(("num", m.group(0), line))
            i += m.end()
        else:
            for p in ("->", "=>", "::", "..=", "...", "..", "&&", "||", "==", "!=", "<=", ">=", "<<", ">>"):
                if src.startswith(p, i):
                    toks.append(("punct", p, line))
                    i += len(p)
                    break
            else:
                toks.append(("punct", c, line))
                i += 1
    return toks


RUST_PRIMS = {
    "u8": ("int", 1, "u"), "i8": ("int", 1, "s"), "u16": ("int", 2, "u"), "i16": ("int", 2, "s"),
    "u32": ("int", 4, "u"), "i32": ("int", 4, "s"), "u64": ("int", 8, "u"), "i64": ("int", 8, "s"),
    "u128": ("int", 16, "u"), "i128": ("int", 16, "s"), "usize": ("int", 8, "u"), "isize": ("int", 8, "s"),
    "f32": ("flt", 4), "f64": ("flt", 8), "bool": ("bool",),
}
# names re-exported from core::ffi / std::os::raw (x86-64 Linux); each one used is re-checked by rustc
# in the probe (the rendered primitive must be the same type)
RUST_FFI = {
    "c_char": "i8", "c_schar": "i8", "c_uchar": "u8", "c_short": "i16", "c_ushort": "u16", "c_int": "i32",
    "c_uint": "u32", "c_long": "i64", "c_ulong": "u64", "c_longlong": "i64", "c_ulonglong": "u64",
    "c_float": "f32", "c_double": "f64",
}


def cfg_eval(toks, feats):
    """toks: token texts of a cfg predicate.  Supports feature = "x", not(), all(), any()."""
    pos = [0]

    def peek():
        return toks[pos[0]] if pos[0] < len(toks) else None

    def eat(x=None):
        t = peek()
        if t is None or (x is not None and t != x):
            raise AbiError("cfg: expected %r, got %r in %r" % (x, t, toks))
        pos[0] += 1
        return t

    def pred():
        t = eat()
        if t == "feature":
            eat("=")
            s = eat()
            return s.strip('"') in feats
        if t in ("not", "all", "any"):
            eat("(")
            vals = []
            while peek() != ")":
                vals.append(pred())
                if peek() == ",":
                    eat(",")
            eat(")")
            if t == "not":
                if len(vals) != 1:
                    raise AbiError("cfg: not() takes one predicate")
                return not vals[0]
            return all(vals) if t == "all" else any(vals)
        raise AbiError("cfg: unsupported predicate %r in %r" % (t, toks))
    v = pred()
    if pos[0] != len(toks):
        raise AbiError("cfg: trailing tokens in %r" % toks)
    return v


class RustParser:
    def __init__(self, src, feats):
        self.toks = rust_tokens(src)
        self.feats = set(feats)
        self.i = 0
        self.aliases = {}       # name -> Ty
        self.alias_seen = set()
        self.structs = []       # (name, [(fname, Ty)], line)   repr(C) only
        self.other_structs = set()
        self.funs = []          # (name, [Ty], Ty, line)
        self.vars = []
        self.ffi_used = set()
        self.uses = set()
        self.modpath = ()
        self.mod_close = {}     # module path -> offset of its closing brace (root: end of file)

    # -- token helpers
    def peek(self, k=0):
        j = self.i + k
        return self.toks[j] if j < len(self.toks) else ("eof", "", -1, -1)

    def text(self, k=0):
        return self.peek(k)[1]

    def eat(self, x=None):
        t = self.peek()
        if t[0] == "eof" or (x is not None and t[1] != x):
            raise AbiError("lib.rs:%d: expected %r, got %r" % (t[2], x, t[1]))
        self.i += 1
        return t[1]

    def err(self, msg):
        raise AbiError("lib.rs:%d: %s" % (self.peek()[2], msg))

    def skip_balanced(self, open_, close):
        """self.i is just after an `open_`; skip to just after the matching close."""
        depth = 1
        while depth:
            t = self.eat()
            if t in "([{" and len(t) == 1:
                depth += 1
            elif t in ")]}" and len(t) == 1:
                depth -= 1

    def attrs(self):
        """Parse a run of outer/inner attributes; returns (enabled, repr_c, others)."""
        enabled, repr_c, others = True, False, []
        while self.text() == "#":
            self.eat("#")
            if self.text() == "!":
                self.eat("!")
            self.eat("[")
            start = self.i
            self.skip_balanced("[", "]")
            body = [t[1] for t in self.toks[start:self.i - 1]]
            if body and body[0] == "cfg":
                if body[1] != "(" or body[-1] != ")":
                    self.err("malformed cfg")
                enabled = enabled and cfg_eval(body[2:-1], self.feats)
            elif body and body[0] == "repr":
                inner = [b for b in body[2:-1] if b != ","]
                if inner == ["C"]:
                    repr_c = True
                elif "C" in inner:
                    self.err("repr(%s): only plain repr(C) is modelled" % " ".join(inner))
                else:
                    others.append("repr(%s)" % ",".join(inner))
            elif body and body[0] == "cfg_attr":
                # only cfg_attr(<pred>, no_std)-like crate attributes are tolerated; on items loud
                others.append("cfg_attr:" + " ".join(body[2:-1]))
            else:
                others.append(body[0] if body else "")
        return enabled, repr_c, others

    # -- types
    def parse_type(self):
        t = self.text()
        if t == "*":
            self.eat()
            q = self.eat()
            if q not in ("const", "mut"):
                self.err("raw pointer needs const/mut")
            to = self.parse_type()
            return T_ptr(to.with_const() if q == "const" else to)
        if t in ("&", "&&"):
            self.eat()
            n = 2 if t == "&&" else 1
            if self.peek()[0] == "life":
                self.eat()
            mut = False
            if self.text() == "mut":
                self.eat()
                mut = True
            to = self.parse_type()
            r = T_ptr(to if mut else to.with_const())
            r.isref = True
            if n == 2:
                r = T_ptr(r.with_const())
                r.isref = True
            return r
        if t == "[":
            self.eat()
            el = self.parse_type()
            if self.text() != ";":
                self.err("slice type is not FFI-safe / unsupported")
            self.eat(";")
            kind, num, ln = self.peek()[:3]
            if kind != "num":
                self.err("array length must be a literal")
            self.eat()
            m = re.match(r"(0x[0-9A-Fa-f_]+|0b[01_]+|0o[0-7_]+|\d[\d_]*)(usize)?$", num)
            if not m:
                self.err("unsupported array length %r" % num)
            self.eat("]")
            return T_arr(el, int(m.group(1).replace("_", ""), 0))
        if t in ("unsafe", "extern", "fn"):
            is_unsafe = t == "unsafe"
            if t == "unsafe":
                self.eat()
            if self.text() == "extern":
                self.eat()
                if self.peek()[0] == "str":
                    if self.text() != '"C"':
                        self.err("function pointer ABI %s unsupported" % self.text())
                    self.eat()
            else:
                self.err("function pointer without extern \"C\"")
            self.eat("fn")
            self.eat("(")
            params, variadic = [], False
            while self.text() != ")":
                if self.text() == "...":
                    self.eat()
                    variadic = True
                else:
                    if self.peek()[0] == "id" and self.text(1) == ":":
                        self.eat()
                        self.eat(":")
                    params.append(self.parse_type())
                if self.text() == ",":
                    self.eat()
            self.eat(")")
            ret = T_void()
            if self.text() == "->":
                self.eat()
                ret = self.parse_type()
            r = T_ptr(T_fn(params, ret, variadic))
            r.unsafe = is_unsafe
            return r
        if t == "(":
            if self.text(1) == ")":
                self.eat()
                self.eat()
                return T_void()
            self.err("tuple types unsupported")
        if self.peek()[0] == "id":
            path = [self.eat()]
            while self.text() == "::":
                self.eat()
                path.append(self.eat())
            name = path[-1]
            if self.text() == "<":
                self.err("generic type %s<...> unsupported" % name)
            return self.named_type(name)
        self.err("unsupported type syntax at %r" % t)

    def named_type(self, name):
        if name in self.aliases:
            return self.aliases[name]
        if name in RUST_PRIMS:
            b = RUST_PRIMS[name]
            return Ty(b[0]) if len(b) == 1 else (T_int(b[1], b[2], name) if b[0] == "int" else T_flt(b[1]))
        if name in RUST_FFI:
            self.ffi_used.add(name)
            t = self.named_type(RUST_FFI[name])
            t = Ty(t.kind, **{s: getattr(t, s) for s in Ty.__slots__[1:]})
            t.ffi = name        # the alias it was written as (another target may define it differently: abix.py)
            return t
        if name == "c_void":
            return T_void()
        return T_rec(name)      # must turn out to be a repr(C) struct (checked at the end)

    # -- items
    def parse_items(self, until=None):
        while True:
            k, t, ln = self.peek()[:3]
            if k == "eof":
                if until:
                    self.err("unexpected end of file")
                return
            if t == until:
                return
            enabled, repr_c, others = self.attrs()
            k, t, ln = self.peek()[:3]
            if k == "eof" or t == until:
                return          # trailing inner attributes
            start = self.i
            # visibility
            if t == "pub":
                self.eat()
                if self.text() == "(":
                    self.eat()
                    self.skip_balanced("(", ")")
                t = self.text()
            if t == "unsafe" and self.text(1) == "extern":
                self.eat()
                t = self.text()
            if t == "extern" and self.text(1) == "crate":
                self.skip_to_semicolon()
            elif t == "extern" and (self.text(1) == "{" or (self.peek(1)[0] == "str" and self.text(2) == "{")):
                self.eat()
                abi = '"C"'
                if self.peek()[0] == "str":
                    abi = self.eat()
                self.eat("{")
                if not enabled:
                    self.skip_balanced("{", "}")
                else:
                    if abi != '"C"':
                        self.err("extern block with ABI %s unsupported" % abi)
                    if any(o not in ("allow", "doc") for o in others):
                        self.err("attribute %r on extern block unsupported" % others)
                    self.parse_foreign_items()
            elif t == "struct" or t == "union":
                self.eat()
                name = self.eat()
                if enabled and any(o.startswith("cfg_attr") and "repr" in o for o in others):
                    self.err("struct %s: conditional repr attribute unsupported" % name)
                if not enabled:
                    self.skip_item_rest()
                elif repr_c:
                    if t == "union":
                        self.err("repr(C) union %s unsupported" % name)
                    if any(o.startswith("repr") for o in others):
                        self.err("struct %s: %s unsupported" % (name, others))
                    if self.text() != "{":
                        self.err("repr(C) struct %s: only named-field structs without generics are supported" % name)
                    self.eat("{")
                    self.structs.append((name, self.parse_fields(), ln, self.modpath))
                else:
                    self.other_structs.add(name)
                    self.skip_item_rest()
            elif t == "type":
                self.eat()
                name = self.eat()
                if self.text() != "=":
                    self.err("generic type alias unsupported")
                self.eat("=")
                if enabled:
                    ty = self.parse_type()
                    self.eat(";")
                    if name in self.alias_seen:
                        self.err("type alias %s defined twice for this configuration" % name)
                    self.alias_seen.add(name)
                    self.aliases[name] = ty
                else:
                    self.skip_to_semicolon()
            elif t == "mod":
                self.eat()
                modname = self.eat()
                if self.text() == ";":
                    self.err("out-of-line module unsupported")
                self.eat("{")
                if enabled:
                    saved = self.modpath
                    self.modpath = saved + (modname,)
                    self.parse_items(until="}")
                    self.mod_close[self.modpath] = self.peek()[3]
                    self.modpath = saved
                    self.eat("}")
                else:
                    self.skip_balanced("{", "}")
            elif t == "use":
                j = self.i
                self.skip_to_semicolon()
                if enabled:
                    for tk in self.toks[j:self.i]:
                        if tk[0] == "id":
                            self.uses.add(tk[1])
            elif t in ("const", "static") and self.text(1) != "fn" and self.text(1) not in ("unsafe", "extern"):
                self.skip_to_semicolon()
            elif t in ("fn", "impl", "enum", "trait", "const", "unsafe", "async", "macro_rules", "extern", "default"):
                self.skip_item_rest()
            else:
                self.err("unsupported item starting with %r" % t)

    def skip_to_semicolon(self):
        depth = 0
        while True:
            t = self.eat()
            if len(t) == 1 and t in "([{":
                depth += 1
            elif len(t) == 1 and t in ")]}":
                depth -= 1
            elif t == ";" and depth == 0:
                return

    def skip_item_rest(self):
        """skip to the end of an item that ends with a {...} block or with ';' (whichever first at depth 0)"""
        depth = 0
        while True:
            t = self.eat()
            if t == "{" and depth == 0:
                self.skip_balanced("{", "}")
                return
            if len(t) == 1 and t in "([":
                depth += 1
            elif len(t) == 1 and t in ")]":
                depth -= 1
            elif t == ";" and depth == 0:
                return

    def parse_fields(self):
        fields = []
        while self.text() != "}":
            enabled, repr_c, others = self.attrs()
            if self.text() == "pub":
                self.eat()
                if self.text() == "(":
                    self.eat()
                    self.skip_balanced("(", ")")
            name = self.eat()
            self.eat(":")
            ty = self.parse_type()
            if enabled:
                fields.append((name, ty))
            if self.text() == ",":
                self.eat()
            elif self.text() != "}":
                self.err("expected , or } in struct")
        self.eat("}")
        return fields

    def parse_foreign_items(self):
        while self.text() != "}":
            enabled, repr_c, others = self.attrs()
            for o in others:
                if o in ("link_name", "link_ordinal", "no_mangle", "export_name"):
                    self.err("attribute %s on a foreign item unsupported" % o)
            ln = self.peek()[2]
            if self.text() == "pub":
                self.eat()
                if self.text() == "(":
                    self.eat()
                    self.skip_balanced("(", ")")
            if self.text() in ("safe", "unsafe"):
                self.eat()
            t = self.eat()
            if t == "fn":
                name = self.eat()
                if self.text() == "<":
                    self.err("generic foreign fn unsupported")
                self.eat("(")
                params = []
                while self.text() != ")":
                    self.attrs()
                    if self.text() == "...":
                        self.eat()
                        params.append(T_unsupported("variadic"))
                    else:
                        if self.text() == "mut":
                            self.eat()
                        self.eat()          # pattern: identifier or _
                        self.eat(":")
                        params.append(self.parse_type())
                    if self.text() == ",":
                        self.eat()
                self.eat(")")
                ret = T_void()
                if self.text() == "->":
                    self.eat()
                    if self.text() == "!":
                        self.err("diverging foreign fn unsupported")
                    ret = self.parse_type()
                self.eat(";")
                if enabled:
                    self.funs.append((name, params, ret, ln, self.modpath))
            elif t == "static":
                if self.text() == "mut":
                    self.eat()
                name = self.eat()
                self.eat(":")
                ty = self.parse_type()
                self.eat(";")
                if enabled:
                    self.vars.append((name, ty, ln, self.modpath))
            elif t == "type":
                self.err("extern type unsupported")
            else:
                self.err("unsupported foreign item %r" % t)
        self.eat("}")


def rust_decls(repo, float_feature):
    """repr(C) structs, foreign functions and foreign statics of the current src/lib.rs for one
    configuration of the `float` feature."""
    src = (Path(repo) / "src" / "lib.rs").read_text()
    feats = {"float"} if float_feature else set()
    # two passes: aliases (type real = ...) may be used before their definition
    p0 = RustParser(src, feats)
    p0.parse_items()
    p = RustParser(src, feats)
    p.aliases = dict(p0.aliases)
    p.parse_items()
    d = Decls()
    names = {s[0] for s in p.structs}
    # dependency order: a struct after the structs it holds by value
    def byval(t):
        if t.kind == "rec":
            return {t.name}
        if t.kind == "arr":
            return byval(t.to)
        return set()
    remaining = list(p.structs)
    emitted = []
    while remaining:
        progress = False
        for s in list(remaining):
            deps = set()
            for _, ft in s[1]:
                deps |= byval(ft)
            if all(x in emitted or x not in names for x in deps):
                d.structs.append((s[0], False, s[1]))
                emitted.append(s[0])
                remaining.remove(s)
                progress = True
        if not progress:
            raise AbiError("lib.rs: recursive by-value structs: %s" % [s[0] for s in remaining])
    seen = set()
    for (n, ps, r, ln, mp) in p.funs:
        if n in seen:
            raise AbiError("lib.rs:%d: foreign fn %s declared twice" % (ln, n))
        seen.add(n)
        d.funs.append((n, ps, r))
    for (n, t, ln, mp) in p.vars:
        d.vars.append((n, t))
    # every named type must be a repr(C) struct of this file
    def check(t, where):
        if t.kind == "rec" and t.name not in names:
            why = "not repr(C)" if t.name in p.other_structs else "unknown type"
            raise AbiError("lib.rs: %s uses %s which is %s" % (where, t.name, why))
        if t.kind in ("ptr", "arr"):
            check(t.to, where)
        if t.kind == "fn":
            for q in t.params:
                check(q, where)
            check(t.ret, where)
    for (n, u, fs) in d.structs:
        for fn, ft in fs:
            check(ft, "struct %s.%s" % (n, fn))
    for (n, ps, r) in d.funs:
        for q in ps + [r]:
            check(q, "fn " + n)
    for (n, t) in d.vars:
        check(t, "static " + n)
    d.meta = {"ffi_used": sorted(p.ffi_used), "lines": {s[0]: s[2] for s in p.structs},
              "fn_lines": {f[0]: f[3] for f in p.funs}, "var_lines": {v[0]: v[2] for v in p.vars},
              "uses": p.uses, "src": src, "mod_close": dict(p.mod_close),
              "struct_mod": {s[0]: s[3] for s in p.structs}, "fn_mod": {f[0]: f[4] for f in p.funs},
              "var_mod": {v[0]: v[3] for v in p.vars}}
    for n in p.ffi_used:
        if n not in p.uses:
            raise AbiError("lib.rs: %s is used but never imported from core::ffi / std::os::raw" % n)
    return d


# --------------------------------------------------------------------------- Coq emission

GEN_HEADER = """(* GENERATED by /verif/harness/C20/abi2coq.py on every run of checks/C20.py - do not edit.
   C side  : clang JSON AST of %(repo)s/include/a/*.h
   Rust side: %(repo)s/src/lib.rs *)
From Coq Require Import NArith List String.
From LibaV Require Import C20.AbiDefs.
Import ListNotations.
Local Open Scope string_scope.
Local Open Scope list_scope.
Local Open Scope N_scope.
Set Printing Width 1000000.
Set Printing Depth 1000000.

"""


def emit_decls_file(repo, named):
    """named: list of (coq_name, Decls).  Definitions plus the evaluations the check parses."""
    out = [GEN_HEADER % {"repo": repo}]
    for n, d in named:
        out.append(coq_decls(n, d))
    return "\n".join(out)


def emit_eval_file(module, pairs, dumps):
    """pairs: [(tag, rust_name, c_name)] -> mismatches; dumps: [name] -> layout dumps."""
    out = ["From Coq Require Import NArith List String.",
           "From LibaV Require Import C20.AbiDefs.", "Require Import %s." % module,
           "Import ListNotations.", "Local Open Scope string_scope.", "Local Open Scope N_scope.",
           "Set Printing Width 1000000.", "Set Printing Depth 1000000.", ""]
    for n in dumps:
        out.append('Eval vm_compute in ("BEGIN-DUMP %s", dump_decls %s, "END-DUMP").' % (n, n))
    for tag, r, c in pairs:
        out.append('Eval vm_compute in ("BEGIN-MM %s", abi_mismatches %s %s, "END-MM").' % (tag, r, c))
    return "\n".join(out) + "\n"


def emit_thm_file(module, pairs):
    out = ["(* GENERATED: reflection theorems re-checked against the regenerated declaration lists *)",
           "From Coq Require Import NArith List String.",
           "From LibaV Require Import C20.AbiDefs C20.AbiSpec C20.AbiProofs.", "Require Import %s." % module, ""]
    for tag, r, c in pairs:
        out.append("Theorem liba_abi_%s : abi_compatible %s %s = true.\nProof. vm_compute. reflexivity. Qed." % (tag, r, c))
        out.append("Print Assumptions liba_abi_%s." % tag)
        out.append("Theorem liba_abi_%s_agree : abi_agree %s %s.\nProof. exact (abi_compatible_sound _ _ liba_abi_%s). Qed."
                   % (tag, r, c, tag))
        out.append("Print Assumptions liba_abi_%s_agree." % tag)
        out.append("Theorem liba_layouts_%s_wf : decls_layout_wf %s /\\ decls_layout_wf %s.\n"
                   "Proof. split; apply decls_layout_wf_all. Qed." % (tag, r, c))
        out.append("Print Assumptions liba_layouts_%s_wf." % tag)
        out.append("")
    return "\n".join(out) + "\n"


def coq_target(tg):
    """tg: (pointer size, alignment of 8-byte scalars, alignment of 16-byte scalars) -> AbiTarget.target"""
    return "{| t_ptr := %d; t_a8 := %d; t_a16 := %d |}" % tuple(tg)


def emit_eval_file_t(module, pairs, dumps, tg):
    """as emit_eval_file, through the target-parametric model of coq/C20/AbiTarget.v"""
    out = ["From Coq Require Import NArith List String.",
           "From LibaV Require Import C20.AbiDefs C20.AbiTarget.", "Require Import %s." % module,
           "Import ListNotations.", "Local Open Scope string_scope.", "Local Open Scope N_scope.",
           "Set Printing Width 1000000.", "Set Printing Depth 1000000.", "",
           "Definition tg : target := %s." % coq_target(tg),
           'Eval vm_compute in ("BEGIN-TARGET-OK", target_ok tg, "END-TARGET-OK").']
    for n in dumps:
        out.append('Eval vm_compute in ("BEGIN-DUMP %s", dump_decls_t tg %s, "END-DUMP").' % (n, n))
    for tag, r, c in pairs:
        out.append('Eval vm_compute in ("BEGIN-MM %s", abi_mismatches_t tg %s %s, "END-MM").' % (tag, r, c))
    return "\n".join(out) + "\n"


def emit_thm_file_t(module, pairs, tg):
    """as emit_thm_file, for a cross target: the reflection theorems of the parametric model"""
    out = ["(* GENERATED: reflection theorems for a cross target, re-checked against the declaration lists regenerated",
           "   with that target's compiler front ends *)",
           "From Coq Require Import NArith List String.",
           "From LibaV Require Import C20.AbiDefs C20.AbiSpec C20.AbiProofs C20.AbiTarget.", "Require Import %s." % module, "",
           "Definition tg : target := %s." % coq_target(tg),
           "Lemma tg_ok : target_ok tg = true.\nProof. vm_compute. reflexivity. Qed.", ""]
    for tag, r, c in pairs:
        out.append("Theorem liba_abi_%s : abi_compatible_t tg %s %s = true.\nProof. vm_compute. reflexivity. Qed." % (tag, r, c))
        out.append("Print Assumptions liba_abi_%s." % tag)
        out.append("Theorem liba_abi_%s_agree : abi_agree_t tg %s %s.\nProof. exact (abi_compatible_t_sound tg _ _ liba_abi_%s). Qed."
                   % (tag, r, c, tag))
        out.append("Print Assumptions liba_abi_%s_agree." % tag)
        out.append("Theorem liba_layouts_%s_wf : decls_layout_wf_t tg %s /\\ decls_layout_wf_t tg %s.\n"
                   "Proof. split; apply (decls_layout_wf_t_all tg tg_ok). Qed." % (tag, r, c))
        out.append("Print Assumptions liba_layouts_%s_wf." % tag)
        out.append("")
    return "\n".join(out) + "\n"


def parse_coq_strings(block):
    return [m.replace('""', '"') for m in re.findall(r'"((?:[^"]|"")*)"', block)]


def parse_eval_output(out):
    """-> ({name: [dump lines]}, {tag: [mismatch terms]})"""
    dumps, mms = {}, {}
    for m in re.finditer(r'"BEGIN-DUMP (\w+)",\s*(.*?),\s*"END-DUMP"', out, flags=re.S):
        dumps[m.group(1)] = parse_coq_strings(m.group(2))
    for m in re.finditer(r'"BEGIN-MM (\w+)",\s*(.*?),\s*"END-MM"', out, flags=re.S):
        body = m.group(2).strip()
        items = []
        if body.startswith("["):
            body = body[1:body.rindex("]")]
            depth, cur, instr = 0, "", False
            for ch in body:
                if ch == '"':
                    instr = not instr
                if not instr:
                    if ch in "([":
                        depth += 1
                    elif ch in ")]":
                        depth -= 1
                    elif ch == ";" and depth == 0:
                        items.append(" ".join(cur.split()))
                        cur = ""
                        continue
                cur += ch
            if cur.strip():
                items.append(" ".join(cur.split()))
        mms[m.group(1)] = items
    return dumps, mms


# --------------------------------------------------------------------------- compiler probes

def has_unsupported(t):
    if t.kind == "unsupported":
        return True
    if t.kind in ("ptr", "arr"):
        return has_unsupported(t.to)
    if t.kind == "fn":
        return t.variadic or has_unsupported(t.ret) or any(has_unsupported(p) for p in t.params)
    return False


def c_probe(d, extra_defs="", headers=None):
    """C program printing the layout of every record of d (same canonical lines as dump_decls), the
    size/signedness of the base types, and statically asserting that every parsed prototype /
    variable type, re-rendered with all typedefs resolved, is compatible with the real declaration."""
    hdrs = d.meta.get("headers", []) if headers is None else headers
    o = ["#include <stdio.h>", "#include <stddef.h>"]
    o += ['#include "a/%s"' % h for h in hdrs]
    o.append(extra_defs)
    o.append("#define FS(T, f) sizeof(((T *)0)->f)")
    o.append("#define FA(T, f) _Alignof(__typeof__(((T *)0)->f))")
    for (n, ps, r) in d.funs:
        ft = d.meta.get("fnty", {}).get(n)
        if ft is None:
            continue
        o.append('_Static_assert(__builtin_types_compatible_p(__typeof__(%s), %s), "resolved prototype of %s");'
                 % (n, c_render(ft), n))
    for (n, t) in d.vars:
        if not has_unsupported(t):
            o.append('_Static_assert(__builtin_types_compatible_p(__typeof__(%s), %s), "resolved type of %s");'
                     % (n, c_render(t), n))
    o.append("int main(void) {")
    for key, b in C_BASE.items():
        if key in ("void",):
            continue
        if key == "_Bool":
            o.append('  printf("B %s|%%zu|%%zu|u\\n", sizeof(%s), _Alignof(%s));' % (key, key, key))
        elif b[0] == "flt":
            o.append('  printf("B %s|%%zu|%%zu|f\\n", sizeof(%s), _Alignof(%s));' % (key, key, key))
        else:
            o.append('  printf("B %s|%%zu|%%zu|%%c\\n", sizeof(%s), _Alignof(%s), ((%s)-1 < (%s)0) ? \'s\' : \'u\');'
                     % (key, key, key, key, key))
    o.append('  printf("B void *|%zu|%zu|p\\n", sizeof(void *), _Alignof(void *));')
    o.append('  printf("B void (*)(void)|%zu|%zu|p\\n", sizeof(void (*)(void)), _Alignof(void (*)(void)));')
    for (n, u, fs) in d.structs:
        T = ("union " if u else "struct ") + n
        o.append('  printf("S %s %s %%zu %%zu %d\\n", sizeof(%s), _Alignof(%s));'
                 % (n, "union" if u else "struct", len(fs), T, T))
        for i, (fn, ft) in enumerate(fs):
            o.append('  printf("F %s %d %s %%zu %%zu %%zu\\n", offsetof(%s, %s), FS(%s, %s), FA(%s, %s));'
                     % (n, i, fn, T, fn, T, fn, T, fn))
    o.append("  return 0;\n}")
    return "\n".join(o) + "\n"


def rust_render(t):
    k = t.kind
    if k == "void":
        return "()"
    if k == "bool":
        return "bool"
    if k == "int":
        return t.name or (("i" if t.sign == "s" else "u") + str(8 * t.size))
    if k == "flt":
        return "f%d" % (8 * t.size)
    if k == "rec":
        return t.name
    if k == "arr":
        return "[%s; %d]" % (rust_render(t.to), t.n)
    if k == "ptr":
        if t.to.kind == "fn":
            f = t.to
            ret = "" if f.ret.kind == "void" else " -> " + rust_render(f.ret)
            return "%sextern \"C\" fn(%s)%s" % ("unsafe " if t.unsafe else "",
                                               ", ".join(rust_render(p) for p in f.params), ret)
        inner = "core::ffi::c_void" if t.to.kind == "void" else rust_render(t.to)
        if t.isref:
            return ("&" if t.to.const else "&mut ") + inner
        return ("*const " if t.to.const else "*mut ") + inner
    raise AbiError("cannot render %s for Rust" % k)


def rust_probe(d, src=None):
    """Copy of lib.rs with one child module per module that declares something: prints the layout of
    every repr(C) struct (size_of/align_of/offset_of!, private fields included) and makes rustc
    type-check every parsed signature / field type / static type, rendered with aliases resolved,
    against the real item."""
    src = d.meta["src"] if src is None else src
    mods = {}
    for (n, u, fs) in d.structs:
        mods.setdefault(d.meta["struct_mod"].get(n, ()), {"s": [], "f": [], "v": []})["s"].append((n, fs))
    for (n, ps, r) in d.funs:
        mods.setdefault(d.meta["fn_mod"].get(n, ()), {"s": [], "f": [], "v": []})["f"].append((n, ps, r))
    for (n, t) in d.vars:
        mods.setdefault(d.meta["var_mod"].get(n, ()), {"s": [], "f": [], "v": []})["v"].append((n, t))
    inserts = []
    calls = []
    for mp, items in mods.items():
        o = ["\n#[allow(dead_code, unused, non_snake_case, missing_docs, clippy::all)]",
             "pub mod __verif_c20 {", "    use super::*;",
             "    use core::mem::{align_of, offset_of, size_of};",
             "    fn fsa<S, T>(_f: fn(&S) -> &T) -> (usize, usize) { (size_of::<T>(), align_of::<T>()) }",
             "    pub fn dump() {"]
        for (n, fs) in items["s"]:
            o.append('        println!("S %s struct {} {} %d", size_of::<%s>(), align_of::<%s>());' % (n, len(fs), n, n))
            for i, (fn, ft) in enumerate(fs):
                o.append('        { fn g<\'a>(x: &\'a %s) -> &\'a %s { &x.%s } let (s, a) = fsa(g as fn(&%s) -> &%s);'
                         ' println!("F %s %d %s {} {} {}", offset_of!(%s, %s), s, a); }'
                         % (n, rust_render(ft), fn, n, rust_render(ft), n, i, fn, n, fn))
        o.append("    }")
        o.append("    pub unsafe fn sigs() {")
        for (n, ps, r) in items["f"]:
            if any(has_unsupported(p) for p in ps) or has_unsupported(r):
                continue
            ret = "" if r.kind == "void" else " -> " + rust_render(r)
            o.append('        let _: unsafe extern "C" fn(%s)%s = %s;' % (", ".join(rust_render(p) for p in ps), ret, n))
        for (n, t) in items["v"]:
            o.append("        let _: *const %s = core::ptr::addr_of!(%s);" % (rust_render(t), n))
        o.append("    }")
        o.append("}\n")
        pos = len(src) if mp == () else d.meta["mod_close"][mp]
        inserts.append((pos, "\n".join(o)))
        calls.append("::".join(("crate",) + mp + ("__verif_c20", "dump")) + "();")
    out = src
    for pos, text in sorted(inserts, reverse=True):
        out = out[:pos] + text + out[pos:]
    prims = ["u8", "i8", "u16", "i16", "u32", "i32", "u64", "i64", "u128", "i128", "usize", "isize", "f32", "f64",
             "bool", "*const u8", "extern \"C\" fn()"]
    main = ["\n#[allow(missing_docs)]", "pub fn main() {"]
    for p in prims:
        main.append('    println!("B %s|{}|{}", core::mem::size_of::<%s>(), core::mem::align_of::<%s>());'
                    % (p.replace('"', "'"), p, p))
    main += ["    " + c for c in calls]
    main.append("}\n")
    return out + "\n".join(main)


# --------------------------------------------------------------------------- search oracle (no Coq model involved)

RUST_ONLY = ("crc8", "crc16", "crc32", "crc64")     # must equal AbiDefs.rust_only (checked by the check)


def py_compat(r, c):
    """The compatibility relation of DESIGN.md C20, written independently of the Gallina [compat]."""
    if r.kind == "unsupported" or c.kind == "unsupported":
        return False
    if r.kind != c.kind:
        return False
    k = r.kind
    if k in ("void", "bool"):
        return True
    if k == "int":
        return r.size == c.size and (r.sign == c.sign or (c.sign == "c" and r.sign in ("s", "u")))
    if k == "flt":
        return r.size == c.size
    if k == "rec":
        return "a_" + r.name == c.name
    if k == "arr":
        return r.n == c.n and py_compat(r.to, c.to)
    if k == "ptr":
        if (r.to.kind == "fn") != (c.to.kind == "fn"):
            return False
        if r.to.kind == "fn":
            f, g = r.to, c.to
            return (not f.variadic and not g.variadic and len(f.params) == len(g.params)
                    and all(py_compat(x, y) for x, y in zip(f.params, g.params)) and py_compat(f.ret, g.ret))
        if r.to.kind == "void" or c.to.kind == "void":
            return True
        if py_compat(r.to, c.to):
            return True
        return r.to.kind == "arr" and py_compat(r.to.to, c.to)
    return False


def parse_layout_lines(lines):
    """canonical S/F lines -> {name: {"kind","size","align","n","fields":[(fname, off, size, align)]}}"""
    res = {}
    for ln in lines:
        w = ln.split()
        if not w:
            continue
        if w[0] == "S":
            res[w[1]] = {"kind": w[2], "size": int(w[3]), "align": int(w[4]), "n": int(w[5]), "fields": []}
        elif w[0] == "F":
            res[w[1]]["fields"].append((w[3], int(w[4]), int(w[5]), int(w[6])))
    return res


def ty_str(t):
    return coq_ty(t)


def py_mismatches(rd, cd, rust_lines, c_lines):
    """The property itself, evaluated on what the COMPILERS report for the current sources (layouts)
    and on the parsed declarations (signatures).  Returns [(key, what, detail-dict)]."""
    out = []
    have_layouts = rust_lines is not None and c_lines is not None
    rl, cl = parse_layout_lines(rust_lines or []), parse_layout_lines(c_lines or [])
    cstructs = {n: fs for (n, u, fs) in cd.structs}
    for (n, u, fs) in rd.structs:
        cn = "a_" + n
        if cn not in cstructs:
            if n not in RUST_ONLY:
                out.append(("struct/%s/no-mirror" % n, "repr(C) struct %s has no C record %s and is not a known "
                            "Rust-only type" % (n, cn), {"struct": n}))
            continue
        if not have_layouts:
            # a compiler probe failed: only names, counts and types can be compared
            cfs = cstructs[cn]
            if len(fs) != len(cfs):
                out.append(("struct/%s/n" % n, "%s: %d fields in Rust, %d in C" % (n, len(fs), len(cfs)),
                            {"struct": n, "rust": len(fs), "c": len(cfs)}))
            for i, ((fn, ft), (cfn, cft)) in enumerate(zip(fs, cfs)):
                if not (fn == cfn or fn + "_" == cfn):
                    out.append(("struct/%s/field/%d/name" % (n, i), "%s field %d is `%s` in Rust but `%s` in C" % (n, i, fn, cfn),
                                {"struct": n, "index": i, "rust": fn, "c": cfn}))
                if not py_compat(ft, cft):
                    out.append(("struct/%s/field/%d/type" % (n, i), "%s.%s: type %s in Rust vs %s in C" % (n, fn, ty_str(ft), ty_str(cft)),
                                {"struct": n, "index": i, "field": fn, "rust": ty_str(ft), "c": ty_str(cft)}))
            continue
        if n not in rl or cn not in cl:
            out.append(("struct/%s/no-layout" % n, "a compiler reported no layout for %s / %s" % (n, cn), {}))
            continue
        a, b = rl[n], cl[cn]
        for what in ("kind", "size", "align", "n"):
            if a[what] != b[what]:
                out.append(("struct/%s/%s" % (n, what), "%s: %s %s in Rust, %s in C (%s)" % (n, what, a[what], b[what], cn),
                            {"struct": n, "rust": a[what], "c": b[what]}))
        cfs = cstructs[cn]
        for i, ((fn, ft), fa) in enumerate(zip(fs, a["fields"])):
            if i >= len(cfs) or i >= len(b["fields"]):
                break
            cfn, cft = cfs[i]
            fb = b["fields"][i]
            if not (fn == cfn or fn + "_" == cfn):
                out.append(("struct/%s/field/%d/name" % (n, i), "%s field %d is `%s` in Rust but `%s` in C" % (n, i, fn, cfn),
                            {"struct": n, "index": i, "rust": fn, "c": cfn}))
            for j, what in ((1, "offset"), (2, "size"), (3, "align")):
                if fa[j] != fb[j]:
                    out.append(("struct/%s/field/%d/%s" % (n, i, what),
                                "%s.%s: %s %d (rustc) vs %d (C compiler, %s.%s)" % (n, fn, what, fa[j], fb[j], cn, cfn),
                                {"struct": n, "index": i, "field": fn, "rust": fa[j], "c": fb[j]}))
            if not py_compat(ft, cft):
                out.append(("struct/%s/field/%d/type" % (n, i), "%s.%s: type %s in Rust vs %s in C" % (n, fn, ty_str(ft), ty_str(cft)),
                            {"struct": n, "index": i, "field": fn, "rust": ty_str(ft), "c": ty_str(cft)}))
    cfun = {n: (ps, r) for (n, ps, r) in cd.funs}
    for (n, ps, r) in rd.funs:
        if n not in cfun:
            out.append(("fn/%s/missing" % n, "foreign fn %s is not declared by the headers" % n, {"fn": n}))
            continue
        cps, cr = cfun[n]
        if len(ps) != len(cps):
            out.append(("fn/%s/arity" % n, "%s: %d parameters in Rust, %d in C" % (n, len(ps), len(cps)),
                        {"fn": n, "rust": len(ps), "c": len(cps)}))
        for i, (x, y) in enumerate(zip(ps, cps)):
            if not py_compat(x, y):
                out.append(("fn/%s/param/%d" % (n, i), "%s parameter %d: %s in Rust vs %s in C" % (n, i, ty_str(x), ty_str(y)),
                            {"fn": n, "index": i, "rust": ty_str(x), "c": ty_str(y)}))
        if not py_compat(r, cr):
            out.append(("fn/%s/ret" % n, "%s result: %s in Rust vs %s in C" % (n, ty_str(r), ty_str(cr)),
                        {"fn": n, "rust": ty_str(r), "c": ty_str(cr)}))
    cvar = dict(cd.vars)
    for (n, t) in rd.vars:
        if n not in cvar:
            out.append(("static/%s/missing" % n, "foreign static %s is not declared by the headers" % n, {"static": n}))
        elif not py_compat(t, cvar[n]):
            out.append(("static/%s/type" % n, "static %s: %s in Rust vs %s in C" % (n, ty_str(t), ty_str(cvar[n])),
                        {"static": n, "rust": ty_str(t), "c": ty_str(cvar[n])}))
    return out


MM_KEY = {
    "MM_no_mirror": "struct/%s/no-mirror", "MM_kind": "struct/%s/kind", "MM_size": "struct/%s/size",
    "MM_align": "struct/%s/align", "MM_nfields": "struct/%s/n",
    "MM_field_name": "struct/%s/field/%s/name", "MM_field_off": "struct/%s/field/%s/offset",
    "MM_field_size": "struct/%s/field/%s/size", "MM_field_align": "struct/%s/field/%s/align",
    "MM_field_ty": "struct/%s/field/%s/type",
    "MM_fn_missing": "fn/%s/missing", "MM_arity": "fn/%s/arity", "MM_param": "fn/%s/param/%s", "MM_ret": "fn/%s/ret",
    "MM_var_missing": "static/%s/missing", "MM_var_ty": "static/%s/type",
}


def mm_key(term):
    """key (same scheme as py_mismatches) of a mismatch term printed by Coq"""
    m = re.match(r'(\w+)(?:\s+"((?:[^"]|"")*)")?(?:\s+(\d+))?', term)
    if not m:
        return "model/" + term
    c, name, idx = m.group(1), m.group(2), m.group(3)
    fmt = MM_KEY.get(c)
    if fmt is None:
        return "model/" + c
    n = fmt.count("%s")
    return fmt % ((name, idx)[:n])


# --------------------------------------------------------------------------- synthetic declarations

SYN_SCALARS = [
    # (rust, c)
    ("u8", "unsigned char"), ("i8", "signed char"), ("u8", "char"), ("u16", "unsigned short"), ("i16", "short"),
    ("u32", "unsigned int"), ("i32", "int"), ("u64", "unsigned long"), ("i64", "long"), ("usize", "unsigned long"),
    ("i64", "long long"), ("f32", "float"), ("f64", "double"), ("bool", "_Bool"),
    ("*const f64", "const double *"), ("*mut u8", "void *"), ("*mut u32", "unsigned int *"),
    ('extern "C" fn(f64, f64) -> f64', "double (*%s)(double, double)"),
    ('unsafe extern "C" fn(*const u16, usize) -> u16', "unsigned short (*%s)(const unsigned short *, unsigned long)"),
    ("u128", "unsigned __int128"),
]
SYN_WEIGHTS = [4, 2, 3, 3, 2, 4, 3, 3, 2, 3, 1, 4, 5, 3, 3, 2, 2, 2, 1, 1]


def synth_sources(rng, n):
    """n random repr(C) structs (Rust) and their C counterparts; ~40% of the C ones are perturbed
    (field inserted / removed / retyped / swapped / array length / signedness / renamed), plus a few
    C-only unions.  Returns (lib_rs_text, header_text, [perturbation notes])."""
    rs = ["#![allow(non_camel_case_types, dead_code)]", "// synthetic declarations (checks/C20.py)"]
    hs = ["#ifndef SYNTH_H", "#define SYNTH_H"]
    notes = []
    made = []      # names of structs usable by value (unperturbed only, so that nesting stays comparable)

    def field_type(depth=0):
        r = rng.random()
        if made and r < 0.12 and depth == 0:
            k = rng.choice(made)
            return ("s%d" % k, "struct a_s%d %%s" % k)
        if made and r < 0.18:
            k = rng.choice(made)
            return ("*mut s%d" % k, "struct a_s%d *%%s" % k)
        if r < 0.34 and depth == 0:
            el_r, el_c = field_type(1)
            ln = rng.choice([1, 2, 3, 3, 4, 5, 7, 8, 9, 16])
            if "(*%s)" in el_c:
                return ("[%s; %d]" % (el_r, ln), el_c.replace("(*%s)", "(*%%s[%d])" % ln))
            return ("[%s; %d]" % (el_r, ln), el_c + "[%d]" % ln)
        a, b = rng.choices(SYN_SCALARS, SYN_WEIGHTS)[0]
        return (a, b if "%s" in b else b + " %s")

    for k in range(n):
        nf = rng.choice([1, 2, 2, 3, 3, 4, 5, 6, 8])
        fields = [("f%d" % i,) + field_type() for i in range(nf)]
        cfields = list(fields)
        note = None
        if rng.random() < 0.4:
            kind = rng.choice(["insert", "remove", "retype", "swap", "arrlen", "sign", "rename", "retype"])
            i = rng.randrange(len(cfields))
            if kind == "insert":
                a, b = rng.choices(SYN_SCALARS, SYN_WEIGHTS)[0]
                cfields.insert(i, ("extra", a, b if "%s" in b else b + " %s"))
            elif kind == "remove" and len(cfields) > 1:
                del cfields[i]
            elif kind == "retype":
                a, b = rng.choices(SYN_SCALARS, SYN_WEIGHTS)[0]
                cfields[i] = (cfields[i][0], a, b if "%s" in b else b + " %s")
            elif kind == "swap" and len(cfields) > 1:
                j = (i + 1) % len(cfields)
                cfields[i], cfields[j] = cfields[j], cfields[i]
            elif kind == "arrlen":
                f = cfields[i]
                m = re.search(r"\[(\d+)\]", f[2])
                if m:
                    cfields[i] = (f[0], f[1], f[2].replace("[%s]" % m.group(1), "[%d]" % (int(m.group(1)) + rng.choice([1, 1, 2]))))
                else:
                    kind = None
            elif kind == "sign":
                f = cfields[i]
                if f[2].startswith("unsigned int") or f[2].startswith("unsigned long") or f[2].startswith("unsigned short"):
                    cfields[i] = (f[0], f[1], f[2][len("unsigned "):])
                elif f[2].startswith(("int ", "long ", "short ")):
                    cfields[i] = (f[0], f[1], "unsigned " + f[2])
                else:
                    kind = None
            elif kind == "rename":
                f = cfields[i]
                cfields[i] = (rng.choice([f[0] + "_", f[0] + "x"]), f[1], f[2])
            else:
                kind = None
            if kind:
                note = "s%d: %s at %d" % (k, kind, i)
        rs.append("#[repr(C)]\npub struct s%d {" % k)
        for (fn, rt, ct) in fields:
            rs.append("    %s%s: %s," % (rng.choice(["pub ", "", "pub "]), fn, rt))
        rs.append("}")
        if note is None and rng.random() < 0.04:
            note = "s%d: no C record" % k          # a repr(C) struct that mirrors nothing
        else:
            hs.append("struct a_s%d {" % k)
            for (fn, rt, ct) in cfields:
                hs.append("    %s;" % (ct % fn))
            hs.append("};")
        if note:
            notes.append(note)
        else:
            made.append(k)
        if rng.random() < 0.12:
            hs.append("union a_u%d {" % k)
            for i in range(rng.choice([1, 2, 3, 4])):
                a, b = rng.choices(SYN_SCALARS, SYN_WEIGHTS)[0]
                b = b if "%s" in b else b + " %s"
                if rng.random() < 0.3:
                    b = b + "[%d]" % rng.choice([2, 3, 5]) if "(*%s)" not in b else b
                hs.append("    %s;" % (b % ("m%d" % i)))
            hs.append("};")
    # a few foreign functions over the synthetic types, some perturbed
    rs.append('extern "C" {')
    for k in range(max(2, n // 3)):
        np_ = rng.randrange(0, 5)
        ps = [rng.choices(SYN_SCALARS[:17], SYN_WEIGHTS[:17])[0] for _ in range(np_)]
        ret = rng.choice([None] + [x for x in SYN_SCALARS[:15]])
        cps = list(ps)
        cret = ret
        if rng.random() < 0.35:
            kind = rng.choice(["ret", "param", "arity"])
            if kind == "ret":
                cret = rng.choice([None] + [x for x in SYN_SCALARS[:15]])
            elif kind == "param" and cps:
                cps[rng.randrange(len(cps))] = rng.choices(SYN_SCALARS[:17], SYN_WEIGHTS[:17])[0]
            else:
                cps.append(rng.choice(SYN_SCALARS[:15]))
            notes.append("a_fn%d: %s" % (k, kind))
        rs.append("    fn a_fn%d(%s)%s;" % (k, ", ".join("p%d: %s" % (i, p[0]) for i, p in enumerate(ps)),
                                            "" if ret is None else " -> " + ret[0]))
        hs.append("extern %s a_fn%d(%s);" % ("void" if cret is None else cret[1],
                                             k, ", ".join((p[1] if "%s" not in p[1] else p[1] % "") for p in cps) or "void"))
    for k in range(max(1, n // 10)):
        a, b = rng.choice(SYN_SCALARS[:14])
        r = rng.random()
        rs.append("    static a_v%d: %s;" % (k, a))
        if r < 0.15:
            notes.append("a_v%d: missing" % k)
        elif r < 0.35:
            a2, b2 = rng.choice(SYN_SCALARS[:14])
            hs.append("extern %s const a_v%d;" % (b2, k))
            notes.append("a_v%d: retyped" % k)
        else:
            hs.append("extern %s const a_v%d;" % (b, k))
        if rng.random() < 0.3:
            rs.append("    fn a_missing%d(x: f64) -> f64;" % k)
            notes.append("a_missing%d: not in the header" % k)
    rs.append("}")
    hs.append("#endif")
    return "\n".join(rs) + "\n", "\n".join(hs) + "\n", notes


if __name__ == "__main__":
    repo = sys.argv[1] if len(sys.argv) > 1 else "/repo"
    outdir = Path(sys.argv[2] if len(sys.argv) > 2 else "/tmp/abi2coq_out")
    outdir.mkdir(parents=True, exist_ok=True)
    named = []
    for real in (8, 4):
        cfg = outdir / ("cfg_r%d.h" % real)
        cfg.write_text("#define A_SIZE_REAL %d\n" % real)
        named.append(("c_f%d" % (real * 8), c_decls(repo, cfg, outdir, real)))
        named.append(("rust_f%d" % (real * 8), rust_decls(repo, real == 4)))
    (outdir / "AbiGen.v").write_text(emit_decls_file(repo, named))
    pairs = [("f64", "rust_f64", "c_f64"), ("f32", "rust_f32", "c_f32")]
    (outdir / "AbiGenEval.v").write_text(emit_eval_file("AbiGen", pairs, [n for n, _ in named]))
    (outdir / "AbiGenThm.v").write_text(emit_thm_file("AbiGen", pairs))
    print("wrote", outdir)
