#!/usr/bin/env python3
"""abi2coq - declarations -> Rocq data for property C20 (Rust mirror ABI).

C side   : clang's JSON AST of the CURRENT headers ($REPO/include/a/*.h), typedefs resolved by a
           small C type-name parser (clang prints types in standard type-name syntax).
Rust side: a purpose-built tokenizer/parser of the CURRENT $REPO/src/lib.rs for
           `#[repr(C)] struct`, `extern "C" { fn ...; static ...; }`, `type X = T;`, `mod`, and
           `#[cfg(...)]` on those items (features: "float" on/off).  Anything in item position
           that is not understood is a loud error (AbiError).

Both sides are rendered in the same type language (coq/C20/AbiDefs.v : cty) as a Coq file, and as
probe programs (C for gcc/clang, Rust for rustc) that make the compilers print the layout the
model must reproduce and type-check the parsed signatures against the real declarations.

Only the Python standard library is used.  The module is imported by checks/C20.py; it can also be
run by hand:  abi2coq.py <repo> <outdir>
"""
import json
import re
import subprocess
import sys
from pathlib import Path


class AbiError(Exception):
    pass


# --------------------------------------------------------------------------- type IR

class Ty:
    """kind: void bool int flt ptr arr rec fn unsupported"""
    __slots__ = ("kind", "size", "sign", "to", "n", "name", "tag", "params", "ret", "variadic", "why", "const")

    def __init__(self, kind, **kw):
        self.kind = kind
        for s in self.__slots__[1:]:
            setattr(self, s, kw.get(s))
        self.const = bool(kw.get("const"))

    def with_const(self):
        t = Ty(self.kind)
        for s in self.__slots__[1:]:
            setattr(t, s, getattr(self, s))
        t.const = True
        return t

    def __repr__(self):
        return coq_ty(self)


def T_void(): return Ty("void")
def T_bool(): return Ty("bool")
def T_int(size, sign): return Ty("int", size=size, sign=sign)
def T_flt(size): return Ty("flt", size=size)
def T_ptr(to): return Ty("ptr", to=to)
def T_arr(to, n): return Ty("arr", to=to, n=n)
def T_rec(name, tag="struct"): return Ty("rec", name=name, tag=tag)
def T_fn(params, ret, variadic=False): return Ty("fn", params=params, ret=ret, variadic=variadic)
def T_unsupported(why): return Ty("unsupported", why=why)


def coq_str(s):
    return '"' + s.replace('"', '""') + '"'


def coq_ty(t):
    k = t.kind
    if k == "void":
        return "Void"
    if k == "bool":
        return "Bool"
    if k == "int":
        return "(Int %d %s)" % (t.size, {"s": "Signed", "u": "Unsigned", "c": "PlainChar"}[t.sign])
    if k == "flt":
        return "(Flt %d)" % t.size
    if k == "ptr":
        if t.to.kind == "fn":
            f = t.to
            if f.variadic:
                return "(Unsupported %s)" % coq_str("variadic function pointer")
            return "(FnPtr [%s] %s)" % ("; ".join(coq_ty(p) for p in f.params), coq_ty(f.ret))
        return "(Ptr %s)" % coq_ty(t.to)
    if k == "arr":
        return "(Arr %s %d)" % (coq_ty(t.to), t.n)
    if k == "rec":
        return "(Rec %s)" % coq_str(t.name)
    if k == "fn":
        return "(Unsupported %s)" % coq_str("bare function type")
    if k == "unsupported":
        return "(Unsupported %s)" % coq_str(t.why)
    raise AbiError("coq_ty: " + k)


class Decls:
    def __init__(self):
        self.structs = []   # (name, is_union, [(fname, Ty)])
        self.funs = []      # (name, [Ty], Ty)
        self.vars = []      # (name, Ty)
        self.meta = {}


def coq_decls(name, d):
    out = ["Definition %s : decls := {|" % name, "  d_structs := ["]
    ss = []
    for (n, u, fs) in d.structs:
        ss.append("    {| s_name := %s; s_union := %s; s_fields := [%s] |}" % (
            coq_str(n), "true" if u else "false",
            "; ".join("(%s, %s)" % (coq_str(fn), coq_ty(ft)) for fn, ft in fs)))
    out.append(";\n".join(ss))
    out.append("  ];")
    out.append("  d_funs := [")
    out.append(";\n".join("    {| f_name := %s; f_params := [%s]; f_ret := %s |}" % (
        coq_str(n), "; ".join(coq_ty(p) for p in ps), coq_ty(r)) for (n, ps, r) in d.funs))
    out.append("  ];")
    out.append("  d_vars := [")
    out.append(";\n".join("    {| v_name := %s; v_ty := %s |}" % (coq_str(n), coq_ty(t)) for n, t in d.vars))
    out.append("  ] |}.")
    return "\n".join(out) + "\n"


# --------------------------------------------------------------------------- C side

C_BASE = {
    "void": ("void",), "_Bool": ("bool",),
    "char": ("int", 1, "c"), "signed char": ("int", 1, "s"), "unsigned char": ("int", 1, "u"),
    "short": ("int", 2, "s"), "unsigned short": ("int", 2, "u"),
    "int": ("int", 4, "s"), "unsigned int": ("int", 4, "u"),
    "long": ("int", 8, "s"), "unsigned long": ("int", 8, "u"),
    "long long": ("int", 8, "s"), "unsigned long long": ("int", 8, "u"),
    "__int128": ("int", 16, "s"), "unsigned __int128": ("int", 16, "u"),
    "float": ("flt", 4), "double": ("flt", 8), "long double": ("flt", 16),
}
C_SPEC_WORDS = {"void", "_Bool", "char", "short", "int", "long", "signed", "unsigned", "float", "double",
                "__int128"}
C_QUALS = {"const", "volatile", "restrict", "__restrict", "_Nullable", "_Nonnull"}


def c_tokens(s):
    toks = re.findall(r"[A-Za-z_]\w*|\d+|\.\.\.|[()\[\]*,]", s)
    if "".join(toks) != re.sub(r"\s+", "", s):
        raise AbiError("C type not tokenizable: %r" % s)
    return toks


class CTypes:
    """Resolves clang type spellings to Ty using the typedef table of the translation unit."""

    def __init__(self, typedefs):
        self.typedefs = typedefs   # name -> underlying spelling
        self.cache = {}

    def parse(self, spelling):
        if spelling in self.cache:
            return self.cache[spelling]
        toks = c_tokens(spelling)
        t, i = self._type_name(toks, 0)
        if i != len(toks):
            raise AbiError("trailing tokens in C type %r at %d" % (spelling, i))
        self.cache[spelling] = t
        return t

    def _base_from_words(self, words):
        ws = [w for w in words if w != "signed" or words == ["signed"] or "char" in words]
        # normalise: "unsigned" alone = unsigned int, "long int" = long, "signed char" stays
        has_unsigned = "unsigned" in ws
        core = [w for w in ws if w not in ("unsigned", "signed", "int")]
        if "char" in core:
            key = "unsigned char" if has_unsigned else ("signed char" if "signed" in words else "char")
        elif core == []:
            key = "unsigned int" if has_unsigned else "int"
        else:
            key = " ".join(core)
            if has_unsigned:
                key = "unsigned " + key
        if key not in C_BASE:
            raise AbiError("unknown C base type %r" % " ".join(words))
        b = C_BASE[key]
        return Ty(b[0]) if len(b) == 1 else (T_int(b[1], b[2]) if b[0] == "int" else T_flt(b[1]))

    def _type_name(self, toks, i):
        const = False
        words = []
        base = None
        while i < len(toks):
            t = toks[i]
            if t in C_QUALS:
                const = const or t == "const"
                i += 1
            elif t in ("struct", "union", "enum"):
                if i + 1 >= len(toks):
                    raise AbiError("anonymous %s in type" % t)
                nm = toks[i + 1]
                if t == "enum":
                    base = T_unsupported("enum " + nm)
                else:
                    base = T_rec(nm, t)
                i += 2
            elif t in C_SPEC_WORDS:
                words.append(t)
                i += 1
            elif re.match(r"[A-Za-z_]", t) and base is None and not words:
                if t not in self.typedefs:
                    raise AbiError("unknown C type name %r" % t)
                base = self.parse(self.typedefs[t])
                i += 1
            else:
                break
        if words:
            if base is not None:
                raise AbiError("mixed specifiers")
            base = self._base_from_words(words)
        if base is None:
            raise AbiError("no type specifier at token %d of %r" % (i, toks))
        if const:
            base = base.with_const()
        wrap, i = self._abs_decl(toks, i)
        return wrap(base), i

    def _abs_decl(self, toks, i):
        ptrs = []          # const flag of each pointer
        while i < len(toks) and toks[i] == "*":
            i += 1
            c = False
            while i < len(toks) and toks[i] in C_QUALS:
                c = c or toks[i] == "const"
                i += 1
            ptrs.append(c)
        inner = None
        if i < len(toks) and toks[i] == "(" and i + 1 < len(toks) and toks[i + 1] in ("*", "(", "["):
            inner, i = self._abs_decl(toks, i + 1)
            if i >= len(toks) or toks[i] != ")":
                raise AbiError("expected ) in declarator")
            i += 1
        suffixes = []
        while i < len(toks) and toks[i] in ("[", "("):
            if toks[i] == "[":
                if i + 2 >= len(toks) or not toks[i + 1].isdigit() or toks[i + 2] != "]":
                    raise AbiError("unsupported array declarator in %r" % toks)
                suffixes.append(("arr", int(toks[i + 1])))
                i += 3
            else:
                i += 1
                params, variadic = [], False
                if toks[i] == ")":
                    variadic = True     # K&R unprototyped
                    i += 1
                else:
                    while True:
                        if toks[i] == "...":
                            variadic = True
                            i += 1
                        else:
                            p, i = self._type_name(toks, i)
                            params.append(p)
                        if toks[i] == ",":
                            i += 1
                            continue
                        if toks[i] == ")":
                            i += 1
                            break
                        raise AbiError("bad parameter list in %r" % toks)
                    if len(params) == 1 and params[0].kind == "void" and not variadic:
                        params = []
                suffixes.append(("fn", params, variadic))

        def wrap(base):
            t = base
            for c in ptrs:
                t = T_ptr(t)
                if c:
                    t = t.with_const()
            for s in reversed(suffixes):
                if s[0] == "arr":
                    t = T_arr(t, s[1])
                else:
                    t = T_fn([adjust_param(p) for p in s[1]], t, s[2])
            return inner(t) if inner else t
        return wrap, i


def adjust_param(p):
    """C parameter adjustment: array -> pointer to element, function -> pointer to function."""
    if p.kind == "arr":
        return T_ptr(p.to)
    if p.kind == "fn":
        return T_ptr(p)
    return p


def c_render(t, inner=""):
    """Render a Ty (C side, typedefs already resolved) back as a C type-name, `inner` being the
    declarator built so far.  Used to let gcc check the resolver: the rendering must be compatible
    with the real declaration."""
    k = t.kind
    q = "const " if t.const else ""
    if k in ("void", "bool", "int", "flt"):
        if k == "void":
            b = "void"
        elif k == "bool":
            b = "_Bool"
        elif k == "flt":
            b = {4: "float", 8: "double", 16: "long double"}[t.size]
        else:
            b = {(1, "c"): "char", (1, "s"): "signed char", (1, "u"): "unsigned char", (2, "s"): "short",
                 (2, "u"): "unsigned short", (4, "s"): "int", (4, "u"): "unsigned int", (8, "s"): "long",
                 (8, "u"): "unsigned long", (16, "s"): "__int128", (16, "u"): "unsigned __int128"}[(t.size, t.sign)]
        return (q + b + " " + inner).strip()
    if k == "rec":
        return (q + t.tag + " " + t.name + " " + inner).strip()
    if k == "ptr":
        d = "*" + ("const " if t.const else "") + inner
        if t.to.kind in ("arr", "fn"):
            d = "(" + d + ")"
        return c_render(t.to, d)
    if k == "arr":
        return c_render(t.to, "%s[%d]" % (inner, t.n))
    if k == "fn":
        ps = ", ".join(c_render(p) for p in t.params) or "void"
        if t.variadic:
            ps = (ps + ", ...") if t.params else ""
        return c_render(t.ret, "%s(%s)" % (inner, ps))
    raise AbiError("cannot render " + k)


def clang_ast(repo, cfg_header, workdir, real):
    workdir = Path(workdir)
    workdir.mkdir(parents=True, exist_ok=True)
    hdrs = sorted(p.name for p in (Path(repo) / "include" / "a").glob("*.h"))
    if not hdrs:
        raise AbiError("no headers under %s/include/a" % repo)
    src = workdir / ("all_r%d.c" % real)
    src.write_text("".join('#include "a/%s"\n' % h for h in hdrs))
    cmd = ["clang", "-std=c11", "-I", str(Path(repo) / "include"), "-DA_EXPORTS",
           '-DA_HAVE_H="%s"' % cfg_header, "-fsyntax-only", "-Xclang", "-ast-dump=json", str(src)]
    p = subprocess.run(cmd, stdout=subprocess.PIPE, stderr=subprocess.PIPE, text=True, timeout=120)
    if p.returncode != 0:
        raise AbiError("clang failed on the headers:\n" + p.stderr[-2000:])
    return json.loads(p.stdout), hdrs, src


LAYOUT_ATTRS = ("PackedAttr", "AlignedAttr", "MaxFieldAlignmentAttr", "MSStructAttr")


def c_decls(repo, cfg_header, workdir, real):
    """All named a_* records (complete definitions), all a_* functions with external linkage and all
    a_* extern variables of the current headers."""
    ast, hdrs, src = clang_ast(repo, cfg_header, workdir, real)
    typedefs = {}
    for x in ast["inner"]:
        if x["kind"] == "TypedefDecl":
            typedefs[x["name"]] = x["type"]["qualType"]
    ct = CTypes(typedefs)
    d = Decls()
    d.meta = {"headers": hdrs, "src": str(src), "ctypes": ct, "spellings": {}, "fnty": {}, "recs": {}}
    seen_fn = {}
    for x in ast["inner"]:
        k = x["kind"]
        name = x.get("name", "")
        if k == "RecordDecl" and x.get("completeDefinition") and name.startswith("a_"):
            fields = []
            for f in x.get("inner", []):
                fk = f["kind"]
                if fk == "FieldDecl":
                    if f.get("isBitfield"):
                        ft = T_unsupported("bit-field")
                    else:
                        try:
                            ft = ct.parse(f["type"]["qualType"])
                        except AbiError as e:
                            ft = T_unsupported(str(e)[:60])
                    fields.append((f.get("name", "_anon%d" % len(fields)), ft))
                elif fk in LAYOUT_ATTRS:
                    fields.append(("_attr", T_unsupported(fk)))
                elif fk in ("RecordDecl", "IndirectFieldDecl"):
                    fields.append(("_nested", T_unsupported("nested anonymous record")))
            d.structs.append((name, x.get("tagUsed") == "union", fields))
        elif k == "FunctionDecl" and name.startswith("a_"):
            if x.get("storageClass") == "static":
                continue
            try:
                ft = ct.parse(x["type"]["qualType"])
                if ft.kind != "fn":
                    raise AbiError("not a function type")
                params, ret = ft.params, ft.ret
                if ft.variadic:
                    params = params + [T_unsupported("variadic")]
            except AbiError as e:
                params, ret = [T_unsupported(str(e)[:60])], T_unsupported(str(e)[:60])
            if name in seen_fn:
                continue          # redeclaration (clang has already checked compatibility)
            seen_fn[name] = 1
            d.funs.append((name, params, ret))
            d.meta["spellings"][name] = x["type"]["qualType"]
            if ret.kind != "unsupported" and not any(p.kind == "unsupported" for p in params):
                d.meta["fnty"][name] = ft
        elif k == "VarDecl" and name.startswith("a_") and x.get("storageClass") != "static":
            try:
                vt = ct.parse(x["type"]["qualType"])
            except AbiError as e:
                vt = T_unsupported(str(e)[:60])
            d.vars.append((name, vt))
    return d


# --------------------------------------------------------------------------- Rust side

def rust_tokens(src):
    """Tokens of a Rust source file: (kind, text, line).  kinds: id num str chr life punct.
    Comments (incl. doc comments) are dropped."""
    toks = []
    i, n, line = 0, len(src), 1
    while i < n:
        c = src[i]
        if c == "\n":
            line += 1
            i += 1
        elif c in " \t\r":
            i += 1
        elif src.startswith("//", i):
            j = src.find("\n", i)
            i = n if j < 0 else j
        elif src.startswith("/*", i):
            depth, j = 1, i + 2
            while j < n and depth:
                if src.startswith("/*", j):
                    depth += 1
                    j += 2
                elif src.startswith("*/", j):
                    depth -= 1
                    j += 2
                else:
                    if src[j] == "\n":
                        line += 1
                    j += 1
            if depth:
                raise AbiError("lib.rs: unterminated block comment")
            i = j
        elif c == '"' or (c in "br" and re.match(r'(b?r#*"|b")', src[i:])):
            m = re.match(r'b?r(#*)"', src[i:])
            if m:
                close = '"' + m.group(1)
                j = src.find(close, i + m.end())
                if j < 0:
                    raise AbiError("lib.rs:%d: unterminated raw string" % line)
                text = src[i:j + len(close)]
            else:
                j = i + (2 if c == "b" else 1)
                while j < n and src[j] != '"':
                    j += 2 if src[j] == "\\" else 1
                if j >= n:
                    raise AbiError("lib.rs:%d: unterminated string" % line)
                text = src[i:j + 1]
            toks.append(("str", text, line))
            line += text.count("\n")
            i += len(text)
        elif c == "'":
            m = re.match(r"'(\\.[^']*|[^'\\])'", src[i:])
            if m:
                toks.append(("chr", m.group(0), line))
                i += m.end()
            else:
                m = re.match(r"'[A-Za-z_]\w*", src[i:])
                if not m:
                    raise AbiError("lib.rs:%d: stray quote" % line)
                toks.append(("life", m.group(0), line))
                i += m.end()
        elif c.isalpha() or c == "_":
            m = re.match(r"[A-Za-z_]\w*", src[i:])
            toks.append(("id", m.group(0), line))
            i += m.end()
        elif c.isdigit():
            m = re.match(r"0x[0-9A-Fa-f_]+\w*|0b[01_]+\w*|0o[0-7_]+\w*|\d[\d_]*(\.\d[\d_]*)?([eE][+-]?\d+)?\w*", src[i:])
            toks.append(("num", m.group(0), line))
            i += m.end()
        else:
            for p in ("->", "=>", "::", "..=", "...", "..", "&&", "||", "==", "!=", "<=", ">=", "<<", ">>"):
                if src.startswith(p, i):
                    toks.append(("punct", p, line))
                    i += len(p)
                    break
            else:
                toks.append(("punct", c, line))
                i += 1
    return toks


RUST_PRIMS = {
    "u8": ("int", 1, "u"), "i8": ("int", 1, "s"), "u16": ("int", 2, "u"), "i16": ("int", 2, "s"),
    "u32": ("int", 4, "u"), "i32": ("int", 4, "s"), "u64": ("int", 8, "u"), "i64": ("int", 8, "s"),
    "u128": ("int", 16, "u"), "i128": ("int", 16, "s"), "usize": ("int", 8, "u"), "isize": ("int", 8, "s"),
    "f32": ("flt", 4), "f64": ("flt", 8), "bool": ("bool",),
}
# names re-exported from core::ffi / std::os::raw (x86-64 Linux); each one used is re-checked by rustc
# in the probe (the rendered primitive must be the same type)
RUST_FFI = {
    "c_char": "i8", "c_schar": "i8", "c_uchar": "u8", "c_short": "i16", "c_ushort": "u16", "c_int": "i32",
    "c_uint": "u32", "c_long": "i64", "c_ulong": "u64", "c_longlong": "i64", "c_ulonglong": "u64",
    "c_float": "f32", "c_double": "f64",
}


def cfg_eval(toks, feats):
    """toks: token texts of a cfg predicate.  Supports feature = "x", not(), all(), any()."""
    pos = [0]

    def peek():
        return toks[pos[0]] if pos[0] < len(toks) else None

    def eat(x=None):
        t = peek()
        if t is None or (x is not None and t != x):
            raise AbiError("cfg: expected %r, got %r in %r" % (x, t, toks))
        pos[0] += 1
        return t

    def pred():
        t = eat()
        if t == "feature":
            eat("=")
            s = eat()
            return s.strip('"') in feats
        if t in ("not", "all", "any"):
            eat("(")
            vals = []
            while peek() != ")":
                vals.append(pred())
                if peek() == ",":
                    eat(",")
            eat(")")
            if t == "not":
                if len(vals) != 1:
                    raise AbiError("cfg: not() takes one predicate")
                return not vals[0]
            return all(vals) if t == "all" else any(vals)
        raise AbiError("cfg: unsupported predicate %r in %r" % (t, toks))
    v = pred()
    if pos[0] != len(toks):
        raise AbiError("cfg: trailing tokens in %r" % toks)
    return v


class RustParser:
    def __init__(self, src, feats):
        self.toks = rust_tokens(src)
        self.feats = set(feats)
        self.i = 0
        self.aliases = {}       # name -> Ty
        self.alias_seen = set()
        self.structs = []       # (name, [(fname, Ty)], line)   repr(C) only
        self.other_structs = set()
        self.funs = []          # (name, [Ty], Ty, line)
        self.vars = []
        self.ffi_used = set()
        self.uses = set()

    # -- token helpers
    def peek(self, k=0):
        j = self.i + k
        return self.toks[j] if j < len(self.toks) else ("eof", "", -1)

    def text(self, k=0):
        return self.peek(k)[1]

    def eat(self, x=None):
        t = self.peek()
        if t[0] == "eof" or (x is not None and t[1] != x):
            raise AbiError("lib.rs:%d: expected %r, got %r" % (t[2], x, t[1]))
        self.i += 1
        return t[1]

    def err(self, msg):
        raise AbiError("lib.rs:%d: %s" % (self.peek()[2], msg))

    def skip_balanced(self, open_, close):
        """self.i is just after an `open_`; skip to just after the matching close."""
        depth = 1
        while depth:
            t = self.eat()
            if t in "([{" and len(t) == 1:
                depth += 1
            elif t in ")]}" and len(t) == 1:
                depth -= 1

    def attrs(self):
        """Parse a run of outer/inner attributes; returns (enabled, repr_c, others)."""
        enabled, repr_c, others = True, False, []
        while self.text() == "#":
            self.eat("#")
            if self.text() == "!":
                self.eat("!")
            self.eat("[")
            start = self.i
            self.skip_balanced("[", "]")
            body = [t[1] for t in self.toks[start:self.i - 1]]
            if body and body[0] == "cfg":
                if body[1] != "(" or body[-1] != ")":
                    self.err("malformed cfg")
                enabled = enabled and cfg_eval(body[2:-1], self.feats)
            elif body and body[0] == "repr":
                inner = [b for b in body[2:-1] if b != ","]
                if inner == ["C"]:
                    repr_c = True
                else:
                    others.append("repr(%s)" % ",".join(inner))
            elif body and body[0] == "cfg_attr":
                # only cfg_attr(<pred>, no_std)-like crate attributes are tolerated; on items loud
                others.append("cfg_attr:" + " ".join(body[2:-1]))
            else:
                others.append(body[0] if body else "")
        return enabled, repr_c, others

    # -- types
    def parse_type(self):
        t = self.text()
        if t == "*":
            self.eat()
            q = self.eat()
            if q not in ("const", "mut"):
                self.err("raw pointer needs const/mut")
            to = self.parse_type()
            return T_ptr(to.with_const() if q == "const" else to)
        if t in ("&", "&&"):
            self.eat()
            n = 2 if t == "&&" else 1
            if self.peek()[0] == "life":
                self.eat()
            mut = False
            if self.text() == "mut":
                self.eat()
                mut = True
            to = self.parse_type()
            r = T_ptr(to if mut else to.with_const())
            return T_ptr(r.with_const()) if n == 2 else r
        if t == "[":
            self.eat()
            el = self.parse_type()
            if self.text() != ";":
                self.err("slice type is not FFI-safe / unsupported")
            self.eat(";")
            kind, num, ln = self.peek()
            if kind != "num":
                self.err("array length must be a literal")
            self.eat()
            m = re.match(r"(0x[0-9A-Fa-f_]+|0b[01_]+|0o[0-7_]+|\d[\d_]*)(usize)?$", num)
            if not m:
                self.err("unsupported array length %r" % num)
            self.eat("]")
            return T_arr(el, int(m.group(1).replace("_", ""), 0))
        if t in ("unsafe", "extern", "fn"):
            if t == "unsafe":
                self.eat()
            if self.text() == "extern":
                self.eat()
                if self.peek()[0] == "str":
                    if self.text() != '"C"':
                        self.err("function pointer ABI %s unsupported" % self.text())
                    self.eat()
            else:
                self.err("function pointer without extern \"C\"")
            self.eat("fn")
            self.eat("(")
            params, variadic = [], False
            while self.text() != ")":
                if self.text() == "...":
                    self.eat()
                    variadic = True
                else:
                    if self.peek()[0] == "id" and self.text(1) == ":":
                        self.eat()
                        self.eat(":")
                    params.append(self.parse_type())
                if self.text() == ",":
                    self.eat()
            self.eat(")")
            ret = T_void()
            if self.text() == "->":
                self.eat()
                ret = self.parse_type()
            return T_ptr(T_fn(params, ret, variadic))
        if t == "(":
            if self.text(1) == ")":
                self.eat()
                self.eat()
                return T_void()
            self.err("tuple types unsupported")
        if self.peek()[0] == "id":
            path = [self.eat()]
            while self.text() == "::":
                self.eat()
                path.append(self.eat())
            name = path[-1]
            if self.text() == "<":
                self.err("generic type %s<...> unsupported" % name)
            return self.named_type(name)
        self.err("unsupported type syntax at %r" % t)

    def named_type(self, name):
        if name in self.aliases:
            return self.aliases[name]
        if name in RUST_PRIMS:
            b = RUST_PRIMS[name]
            return Ty(b[0]) if len(b) == 1 else (T_int(b[1], b[2]) if b[0] == "int" else T_flt(b[1]))
        if name in RUST_FFI:
            self.ffi_used.add(name)
            return self.named_type(RUST_FFI[name])
        if name == "c_void":
            return T_void()
        return T_rec(name)      # must turn out to be a repr(C) struct (checked at the end)

    # -- items
    def parse_items(self, until=None):
        while True:
            k, t, ln = self.peek()
            if k == "eof":
                if until:
                    self.err("unexpected end of file")
                return
            if t == until:
                return
            enabled, repr_c, others = self.attrs()
            k, t, ln = self.peek()
            if k == "eof" or t == until:
                return          # trailing inner attributes
            start = self.i
            # visibility
            if t == "pub":
                self.eat()
                if self.text() == "(":
                    self.eat()
                    self.skip_balanced("(", ")")
                t = self.text()
            if t == "unsafe" and self.text(1) == "extern":
                self.eat()
                t = self.text()
            if t == "extern" and self.text(1) == "crate":
                self.skip_to_semicolon()
            elif t == "extern" and (self.text(1) == "{" or (self.peek(1)[0] == "str" and self.text(2) == "{")):
                self.eat()
                abi = '"C"'
                if self.peek()[0] == "str":
                    abi = self.eat()
                self.eat("{")
                if not enabled:
                    self.skip_balanced("{", "}")
                else:
                    if abi != '"C"':
                        self.err("extern block with ABI %s unsupported" % abi)
                    if any(o not in ("allow", "doc") for o in others):
                        self.err("attribute %r on extern block unsupported" % others)
                    self.parse_foreign_items()
            elif t == "struct" or t == "union":
                self.eat()
                name = self.eat()
                if not enabled:
                    self.skip_item_rest()
                elif repr_c:
                    if t == "union":
                        self.err("repr(C) union %s unsupported" % name)
                    if any(o.startswith("repr") for o in others):
                        self.err("struct %s: %s unsupported" % (name, others))
                    if self.text() != "{":
                        self.err("repr(C) struct %s: only named-field structs without generics are supported" % name)
                    self.eat("{")
                    self.structs.append((name, self.parse_fields(), ln))
                else:
                    self.other_structs.add(name)
                    self.skip_item_rest()
            elif t == "type":
                self.eat()
                name = self.eat()
                if self.text() != "=":
                    self.err("generic type alias unsupported")
                self.eat("=")
                if enabled:
                    ty = self.parse_type()
                    self.eat(";")
                    if name in self.alias_seen:
                        self.err("type alias %s defined twice for this configuration" % name)
                    self.alias_seen.add(name)
                    self.aliases[name] = ty
                else:
                    self.skip_to_semicolon()
            elif t == "mod":
                self.eat()
                self.eat()
                if self.text() == ";":
                    self.err("out-of-line module unsupported")
                self.eat("{")
                if enabled:
                    self.parse_items(until="}")
                    self.eat("}")
                else:
                    self.skip_balanced("{", "}")
            elif t == "use":
                j = self.i
                self.skip_to_semicolon()
                if enabled:
                    for tk in self.toks[j:self.i]:
                        if tk[0] == "id":
                            self.uses.add(tk[1])
            elif t in ("const", "static") and self.text(1) != "fn" and self.text(1) not in ("unsafe", "extern"):
                self.skip_to_semicolon()
            elif t in ("fn", "impl", "enum", "trait", "const", "unsafe", "async", "macro_rules", "extern", "default"):
                self.skip_item_rest()
            else:
                self.err("unsupported item starting with %r" % t)

    def skip_to_semicolon(self):
        depth = 0
        while True:
            t = self.eat()
            if len(t) == 1 and t in "([{":
                depth += 1
            elif len(t) == 1 and t in ")]}":
                depth -= 1
            elif t == ";" and depth == 0:
                return

    def skip_item_rest(self):
        """skip to the end of an item that ends with a {...} block or with ';' (whichever first at depth 0)"""
        depth = 0
        while True:
            t = self.eat()
            if t == "{" and depth == 0:
                self.skip_balanced("{", "}")
                return
            if len(t) == 1 and t in "([":
                depth += 1
            elif len(t) == 1 and t in ")]":
                depth -= 1
            elif t == ";" and depth == 0:
                return

    def parse_fields(self):
        fields = []
        while self.text() != "}":
            enabled, repr_c, others = self.attrs()
            if self.text() == "pub":
                self.eat()
                if self.text() == "(":
                    self.eat()
                    self.skip_balanced("(", ")")
            name = self.eat()
            self.eat(":")
            ty = self.parse_type()
            if enabled:
                fields.append((name, ty))
            if self.text() == ",":
                self.eat()
            elif self.text() != "}":
                self.err("expected , or } in struct")
        self.eat("}")
        return fields

    def parse_foreign_items(self):
        while self.text() != "}":
            enabled, repr_c, others = self.attrs()
            for o in others:
                if o in ("link_name", "link_ordinal", "no_mangle", "export_name"):
                    self.err("attribute %s on a foreign item unsupported" % o)
            ln = self.peek()[2]
            if self.text() == "pub":
                self.eat()
                if self.text() == "(":
                    self.eat()
                    self.skip_balanced("(", ")")
            if self.text() in ("safe", "unsafe"):
                self.eat()
            t = self.eat()
            if t == "fn":
                name = self.eat()
                if self.text() == "<":
                    self.err("generic foreign fn unsupported")
                self.eat("(")
                params = []
                while self.text() != ")":
                    self.attrs()
                    if self.text() == "...":
                        self.eat()
                        params.append(T_unsupported("variadic"))
                    else:
                        if self.text() == "mut":
                            self.eat()
                        self.eat()          # pattern: identifier or _
                        self.eat(":")
                        params.append(self.parse_type())
                    if self.text() == ",":
                        self.eat()
                self.eat(")")
                ret = T_void()
                if self.text() == "->":
                    self.eat()
                    if self.text() == "!":
                        self.err("diverging foreign fn unsupported")
                    ret = self.parse_type()
                self.eat(";")
                if enabled:
                    self.funs.append((name, params, ret, ln))
            elif t == "static":
                if self.text() == "mut":
                    self.eat()
                name = self.eat()
                self.eat(":")
                ty = self.parse_type()
                self.eat(";")
                if enabled:
                    self.vars.append((name, ty, ln))
            elif t == "type":
                self.err("extern type unsupported")
            else:
                self.err("unsupported foreign item %r" % t)
        self.eat("}")


def rust_decls(repo, float_feature):
    """repr(C) structs, foreign functions and foreign statics of the current src/lib.rs for one
    configuration of the `float` feature."""
    src = (Path(repo) / "src" / "lib.rs").read_text()
    feats = {"float"} if float_feature else set()
    # two passes: aliases (type real = ...) may be used before their definition
    p0 = RustParser(src, feats)
    p0.parse_items()
    p = RustParser(src, feats)
    p.aliases = dict(p0.aliases)
    p.parse_items()
    d = Decls()
    names = {s[0] for s in p.structs}
    # dependency order: a struct after the structs it holds by value
    def byval(t):
        if t.kind == "rec":
            return {t.name}
        if t.kind == "arr":
            return byval(t.to)
        return set()
    remaining = list(p.structs)
    emitted = []
    while remaining:
        progress = False
        for s in list(remaining):
            deps = set()
            for _, ft in s[1]:
                deps |= byval(ft)
            if all(x in emitted or x not in names for x in deps):
                d.structs.append((s[0], False, s[1]))
                emitted.append(s[0])
                remaining.remove(s)
                progress = True
        if not progress:
            raise AbiError("lib.rs: recursive by-value structs: %s" % [s[0] for s in remaining])
    seen = set()
    for (n, ps, r, ln) in p.funs:
        if n in seen:
            raise AbiError("lib.rs:%d: foreign fn %s declared twice" % (ln, n))
        seen.add(n)
        d.funs.append((n, ps, r))
    for (n, t, ln) in p.vars:
        d.vars.append((n, t))
    # every named type must be a repr(C) struct of this file
    def check(t, where):
        if t.kind == "rec" and t.name not in names:
            why = "not repr(C)" if t.name in p.other_structs else "unknown type"
            raise AbiError("lib.rs: %s uses %s which is %s" % (where, t.name, why))
        if t.kind in ("ptr", "arr"):
            check(t.to, where)
        if t.kind == "fn":
            for q in t.params:
                check(q, where)
            check(t.ret, where)
    for (n, u, fs) in d.structs:
        for fn, ft in fs:
            check(ft, "struct %s.%s" % (n, fn))
    for (n, ps, r) in d.funs:
        for q in ps + [r]:
            check(q, "fn " + n)
    for (n, t) in d.vars:
        check(t, "static " + n)
    d.meta = {"ffi_used": sorted(p.ffi_used), "lines": {s[0]: s[2] for s in p.structs},
              "fn_lines": {f[0]: f[3] for f in p.funs}, "var_lines": {v[0]: v[2] for v in p.vars},
              "uses": p.uses}
    for n in p.ffi_used:
        if n not in p.uses:
            raise AbiError("lib.rs: %s is used but never imported from core::ffi / std::os::raw" % n)
    return d


# --------------------------------------------------------------------------- Coq emission

GEN_HEADER = """(* GENERATED by /verif/harness/C20/abi2coq.py on every run of checks/C20.py - do not edit.
   C side  : clang JSON AST of %(repo)s/include/a/*.h
   Rust side: %(repo)s/src/lib.rs *)
From Coq Require Import NArith List String.
From LibaV Require Import C20.AbiDefs.
Import ListNotations.
Local Open Scope string_scope.
Local Open Scope list_scope.
Local Open Scope N_scope.
Set Printing Width 1000000.
Set Printing Depth 1000000.

"""


def emit_decls_file(repo, named):
    """named: list of (coq_name, Decls).  Definitions plus the evaluations the check parses."""
    out = [GEN_HEADER % {"repo": repo}]
    for n, d in named:
        out.append(coq_decls(n, d))
    return "\n".join(out)


def emit_eval_file(module, pairs, dumps):
    """pairs: [(tag, rust_name, c_name)] -> mismatches; dumps: [name] -> layout dumps."""
    out = ["From Coq Require Import NArith List String.",
           "From LibaV Require Import C20.AbiDefs.", "Require Import %s." % module,
           "Import ListNotations.", "Local Open Scope string_scope.", "Local Open Scope N_scope.",
           "Set Printing Width 1000000.", "Set Printing Depth 1000000.", ""]
    for n in dumps:
        out.append('Eval vm_compute in ("BEGIN-DUMP %s", dump_decls %s, "END-DUMP").' % (n, n))
    for tag, r, c in pairs:
        out.append('Eval vm_compute in ("BEGIN-MM %s", abi_mismatches %s %s, "END-MM").' % (tag, r, c))
    return "\n".join(out) + "\n"


def emit_thm_file(module, pairs):
    out = ["(* GENERATED: reflection theorems re-checked against the regenerated declaration lists *)",
           "From Coq Require Import NArith List String.",
           "From LibaV Require Import C20.AbiDefs C20.AbiProofs.", "Require Import %s." % module, ""]
    for tag, r, c in pairs:
        out.append("Theorem liba_abi_%s : abi_compatible %s %s = true.\nProof. vm_compute. reflexivity. Qed." % (tag, r, c))
        out.append("Print Assumptions liba_abi_%s." % tag)
        out.append("Theorem liba_abi_%s_agree : abi_agree %s %s.\nProof. exact (abi_compatible_sound _ _ liba_abi_%s). Qed."
                   % (tag, r, c, tag))
        out.append("Print Assumptions liba_abi_%s_agree." % tag)
        out.append("Theorem liba_layouts_%s_wf : decls_layout_wf %s /\\ decls_layout_wf %s.\n"
                   "Proof. split; apply decls_layout_wf_all. Qed." % (tag, r, c))
        out.append("Print Assumptions liba_layouts_%s_wf." % tag)
        out.append("")
    return "\n".join(out) + "\n"


def parse_coq_strings(block):
    return [m.replace('""', '"') for m in re.findall(r'"((?:[^"]|"")*)"', block)]


def parse_eval_output(out):
    """-> ({name: [dump lines]}, {tag: [mismatch terms]})"""
    dumps, mms = {}, {}
    for m in re.finditer(r'"BEGIN-DUMP (\w+)",\s*(.*?),\s*"END-DUMP"', out, flags=re.S):
        dumps[m.group(1)] = parse_coq_strings(m.group(2))
    for m in re.finditer(r'"BEGIN-MM (\w+)",\s*(.*?),\s*"END-MM"', out, flags=re.S):
        body = m.group(2).strip()
        items = []
        if body.startswith("["):
            body = body[1:body.rindex("]")]
            depth, cur, instr = 0, "", False
            for ch in body:
                if ch == '"':
                    instr = not instr
                if not instr:
                    if ch in "([":
                        depth += 1
                    elif ch in ")]":
                        depth -= 1
                    elif ch == ";" and depth == 0:
                        items.append(" ".join(cur.split()))
                        cur = ""
                        continue
                cur += ch
            if cur.strip():
                items.append(" ".join(cur.split()))
        mms[m.group(1)] = items
    return dumps, mms


if __name__ == "__main__":
    repo = sys.argv[1] if len(sys.argv) > 1 else "/repo"
    outdir = Path(sys.argv[2] if len(sys.argv) > 2 else "/tmp/abi2coq_out")
    outdir.mkdir(parents=True, exist_ok=True)
    named = []
    for real in (8, 4):
        cfg = outdir / ("cfg_r%d.h" % real)
        cfg.write_text("#define A_SIZE_REAL %d\n" % real)
        named.append(("c_f%d" % (real * 8), c_decls(repo, cfg, outdir, real)))
        named.append(("rust_f%d" % (real * 8), rust_decls(repo, real == 4)))
    (outdir / "AbiGen.v").write_text(emit_decls_file(repo, named))
    pairs = [("f64", "rust_f64", "c_f64"), ("f32", "rust_f32", "c_f32")]
    (outdir / "AbiGenEval.v").write_text(emit_eval_file("AbiGen", pairs, [n for n, _ in named]))
    (outdir / "AbiGenThm.v").write_text(emit_thm_file("AbiGen", pairs))
    print("wrote", outdir)
