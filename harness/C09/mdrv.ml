(* C09 model driver: runs the EXTRACTED Gallina model (Linalg_model.runZ, the Z instance of
   coq/C09/LinalgDefs.v) on the case file read from stdin and prints one canonical line per case.
   Case line:   op d1 d2 d3 nx x1..xnx ny y1..yny no o1..ono      (all decimal integers)
   Output line: op d1 d2 d3 ok v1 .. vno nwr=<writes>   |   op d1 d2 d3 oob   |   op d1 d2 d3 fuel  *)
open Linalg_model

let rec nat_of_int n = if n <= 0 then O else S (nat_of_int (n - 1))
let rec int_of_nat = function O -> 0 | S n -> 1 + int_of_nat n

let rec pos_of_int n =
  if n = 1 then XH
  else if n land 1 = 1 then XI (pos_of_int (n lsr 1)) else XO (pos_of_int (n lsr 1))
let z_of_int n = if n = 0 then Z0 else if n > 0 then Zpos (pos_of_int n) else Zneg (pos_of_int (-n))

(* results fit OCaml's 63-bit int for every generated case (|v| < 2^53); printed via a string
   conversion that does not assume it *)
let rec pos_to_string p =
  (* decimal via int when small enough, else fall back to bit string with a marker *)
  let rec go p acc sh ok = match p with
    | XH -> (acc lor (1 lsl sh), ok && sh < 61)
    | XO q -> go q acc (sh + 1) (ok && sh < 61)
    | XI q -> go q (acc lor (1 lsl sh)) (sh + 1) (ok && sh < 61) in
  let (v, ok) = go p 0 0 true in
  if ok then string_of_int v else
    let rec bits p = match p with XH -> "1" | XO q -> bits q ^ "0" | XI q -> bits q ^ "1" in
    "0b" ^ bits p
let z_to_string = function
  | Z0 -> "0" | Zpos p -> pos_to_string p | Zneg p -> "-" ^ pos_to_string p

let op_of_string = function
  | "T1" -> OpT1 | "T2" -> OpT2 | "eye1" -> OpEye1 | "eye2" -> OpEye2
  | "tri1" -> OpTri1 | "tri2" -> OpTri2 | "diag" -> OpDiag | "diag1" -> OpDiag1
  | "diag2" -> OpDiag2 | "triL" -> OpTriL | "triL1" -> OpTriL1 | "triL2" -> OpTriL2
  | "triU" -> OpTriU | "triU1" -> OpTriU1 | "triU2" -> OpTriU2 | "mulmm" -> OpMulmm
  | "mulTm" -> OpMulTm | "mulmT" -> OpMulmT | "mulTT" -> OpMulTT
  | s -> failwith ("unknown op " ^ s)

let () =
  let buf = Buffer.create 65536 in
  (try
    while true do
      let line = input_line stdin in
      let toks = List.filter (fun s -> s <> "") (String.split_on_char ' ' (String.trim line)) in
      match toks with
      | [] -> ()
      | name :: rest ->
        let a = Array.of_list (List.map int_of_string rest) in
        let d1 = a.(0) and d2 = a.(1) and d3 = a.(2) in
        let pos = ref 3 in
        let take () =
          let n = a.(!pos) in
          let l = List.init n (fun i -> z_of_int a.(!pos + 1 + i)) in
          pos := !pos + 1 + n; l in
        let x = take () in let y = take () in let o = take () in
        Buffer.add_string buf (Printf.sprintf "%s %d %d %d" name d1 d2 d3);
        (match runZ (op_of_string name) (nat_of_int d1) (nat_of_int d2) (nat_of_int d3) x y o with
         | Ok (cells, nw) ->
           Buffer.add_string buf " ok";
           List.iter (fun v -> Buffer.add_char buf ' '; Buffer.add_string buf (z_to_string v)) cells;
           Buffer.add_string buf (Printf.sprintf " nwr=%d" (int_of_nat nw))
         | OutOfFuel -> Buffer.add_string buf " fuel"
         | OutOfBounds -> Buffer.add_string buf " oob");
        Buffer.add_char buf '\n';
        if Buffer.length buf > 60000 then (print_string (Buffer.contents buf); Buffer.clear buf)
    done
  with End_of_file -> ());
  print_string (Buffer.contents buf)
