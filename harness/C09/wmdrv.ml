(* C09 "wide" model driver: runs the EXTRACTED N-indexed model of a_real_diag1 / a_real_diag2
   (Linalg_model.diag1NZ / diag2NZ, coq/C09/LinalgWide.v) on the sparse case file read from stdin.
   Case line:   op d1 d2 K i1 v1 .. iK vK     (A[i_j] = v_j, later assignments win, every other cell 0;
                                               A has d1*d1 (diag1) or d1*d2 (diag2) cells)
   Output line: op d1 d2 ok i:v ...           the non-zero cells of the result, ascending index
                op d1 d2 oob | fuel
   Same format as harness/C09/wdrv.c.  OCaml ints are 63 bit: every index of the generated cases
   (< 2^40) fits; the model itself computes in Coq's binary N. *)
open Linalg_model

let rec pos_of_int n =
  if n = 1 then XH
  else if n land 1 = 1 then XI (pos_of_int (n lsr 1)) else XO (pos_of_int (n lsr 1))
let n_of_int n = if n = 0 then N0 else Npos (pos_of_int n)
let z_of_int n = if n = 0 then Z0 else if n > 0 then Zpos (pos_of_int n) else Zneg (pos_of_int (-n))
let rec int_of_pos = function XH -> 1 | XO q -> 2 * int_of_pos q | XI q -> 2 * int_of_pos q + 1
let int_of_n = function N0 -> 0 | Npos p -> int_of_pos p
let int_of_z = function Z0 -> 0 | Zpos p -> int_of_pos p | Zneg p -> - (int_of_pos p)

(* N product without OCaml overflow concerns: the array length is handed to the model as an N
   computed by the model's own multiplication *)
let () =
  (try
    while true do
      let line = input_line stdin in
      let toks = List.filter (fun s -> s <> "") (String.split_on_char ' ' (String.trim line)) in
      match toks with
      | [] -> ()
      | name :: rest ->
        let a = Array.of_list (List.map int_of_string rest) in
        let d1 = a.(0) and d2 = a.(1) and k = a.(2) in
        (* later assignments win = first match of the reversed list *)
        let cells = ref [] in
        for j = 0 to k - 1 do
          cells := (n_of_int a.(3 + 2 * j), z_of_int a.(4 + 2 * j)) :: !cells
        done;
        let len = if name = "diag1" then N.mul (n_of_int d1) (n_of_int d1) else N.mul (n_of_int d1) (n_of_int d2) in
        let sp = { slen = len; scells = !cells } in
        let r =
          if name = "diag1" then diag1NZ (n_of_int d1) sp (n_of_int d1)
          else if name = "diag2" then diag2NZ (n_of_int d1) (n_of_int d2) sp (n_of_int (min d1 d2))
          else failwith ("unknown op " ^ name) in
        let b = Buffer.create 256 in
        Buffer.add_string b (Printf.sprintf "%s %d %d" name d1 d2);
        (match r with
         | Ok l ->
           Buffer.add_string b " ok";
           List.iter (fun (i, v) ->
               if v <> Z0 then Buffer.add_string b (Printf.sprintf " %d:%d" (int_of_n i) (int_of_z v))) l
         | OutOfFuel -> Buffer.add_string b " fuel"
         | OutOfBounds -> Buffer.add_string b " oob");
        print_endline (Buffer.contents b)
    done
  with End_of_file -> ())
