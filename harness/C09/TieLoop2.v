(* All-dimensions translator tie of C09, part 2: the pattern generators a_real_eye1, eye2, tri1, tri2 (see TieLoop1.v for the
   conventions).  Each `for (...; c < hi; ++c) *E++ = v` is the model's [fillc]; `while (++c < n)` is entered by the model with c
   already incremented.  Theorems: tie_a_real_eye1 / eye2 / tri1 / tri2, every dimension with U32, every array.
   (The uniform loop lemmas of this file were written out by a script once; the file is maintained as it stands.) *)
From Coq Require Import ZArith NArith List Bool Arith Lia.
From LibaV Require Import Common.NumOps C09.LinalgDefs C09.LinalgSpec C09.LinalgLemmas C09.LoopTieLemmas.
From Gen Require Import GenLoop TieLoopBase.
Import ListNotations.

Section Tie.
  Context {T : Type} (O : NumOps T).
  Local Notation z := (ofZ O 0).
  Local Notation o := (ofZ O 1).

  (* ------------------------------------------------------------------------------------------------ eye1 *)
  Lemma eye1_l2 (r : nat) (Hr : U32 r) : forall fg fm c E b, r - c < fg -> r - c <= fm ->   (* for tie_a_real_eye1 *)
    gen_a_real_eye1_loop2 O fg r (cells b) c E = ores rho3 (fillc T fm (fun c => c <? r) (fun _ => Ok z) (c, E, b)).
  Proof. fill_tie (@gen_a_real_eye1_loop2) (fun f (s : nat * nat * buf T) => gen_a_real_eye1_loop2 O f r (cells (snd s)) (fst (fst s)) (snd (fst s))) (fun s : nat * nat * buf T => r - fst (fst s)). Qed.
  Lemma eye1_l3 (n : nat) (Hn : U32 n) : forall fg fm c E b, c < n -> n - S c < fg -> n - S c <= fm ->   (* for tie_a_real_eye1 *)
    gen_a_real_eye1_loop3 O fg n (cells b) c E = ores rho3 (fillc T fm (fun c => c <? n) (fun _ => Ok z) (S c, E, b)).
  Proof.
    fillpre_tie (@gen_a_real_eye1_loop3)
      (fun f (s : nat * nat * buf T) => match fst (fst s) with S c => gen_a_real_eye1_loop3 O f n (cells (snd s)) c (snd (fst s)) | 0 => None end)
      (fun s : nat * nat * buf T => n - fst (fst s)) (fun s : nat * nat * buf T => 1 <= fst (fst s) <= n).
  Qed.

  Lemma eye1_l1 ( n : nat) (Hn : U32 n) (Hb : n <= n) : forall fg fm r E b, n - r < fg -> n - r <= fm ->   (* for tie_a_real_eye1 *)
    gen_a_real_eye1_loop1 O fg n (cells b) r E = ores cells3 (while fm (fun '(r, _, _) => r <? n) (eye_row T z o n) (r, E, b)).
  Proof.
    intros fg fm r E b Hg Hm.
    refine (while_tie (fun f (s : nat * nat * buf T) => gen_a_real_eye1_loop1 O f n (cells (snd s)) (fst (fst s)) (snd (fst s))) _ _ cells3 (fun s : nat * nat * buf T => n - fst (fst s))
              (fun _ => True) _ _ fg fm (r, E, b) I Hg Hm).
    - intros f [[r0 E0] b0] _. cbn [fst snd gen_a_real_eye1_loop1]. cond_case Er. unfold eye_row.
      use_fill (eye1_l2 r0 ltac:(u32) (S r0) r0 0 E0 b0 ltac:(lia) ltac:(lia)) c1 E1 b1 F1.
      apply fillc_lt_exit in F1; [subst c1|lia].
      unfold store. repeat sim_step; try reflexivity. rewrite Nat.add_1_r.
      match goal with |- context [gen_a_real_eye1_loop3 O _ n ?l r0 (S E1)] =>
        use_fill (eye1_l3 n Hn (S (n - r0)) n r0 (S E1) (mkbuf l (S (nwr b1))) ltac:(lia) ltac:(lia) ltac:(lia)) c2 E2 b2 F2 end.
      close_row.
    - intros [[r0 E0] b0] s' _ Er Hbd. apply Nat.ltb_lt in Er. unfold eye_row in Hbd. inv_res Hbd. split; [exact I|lia].
  Qed.

  Theorem tie_a_real_eye1 : forall (n : nat) (E : list T) (w : nat), U32 n ->
    gen_a_real_eye1 O n E 0 = ores (@cells T) (eye1 T z o n (mkbuf E w)).
  Proof.
    intros n E w Hn. unfold gen_a_real_eye1, eye1.
    pose proof (eye1_l1 n Hn (le_n n) (S n) n 0 0 (mkbuf E w) ltac:(lia) ltac:(lia)) as H. cbn [cells] in H. rewrite H. clear H.
    destruct (while n (fun '(r, _, _) => r <? n) (eye_row T z o n) (0, 0, mkbuf E w)) as [[[r1 E1] b1]| |]; reflexivity.
  Qed.

  (* ------------------------------------------------------------------------------------------------ eye2 *)
  Lemma eye2_l2 (r : nat) (Hr : U32 r) : forall fg fm c E b, r - c < fg -> r - c <= fm ->   (* for tie_a_real_eye2 *)
    gen_a_real_eye2_loop2 O fg r (cells b) c E = ores rho3 (fillc T fm (fun c => c <? r) (fun _ => Ok z) (c, E, b)).
  Proof. fill_tie (@gen_a_real_eye2_loop2) (fun f (s : nat * nat * buf T) => gen_a_real_eye2_loop2 O f r (cells (snd s)) (fst (fst s)) (snd (fst s))) (fun s : nat * nat * buf T => r - fst (fst s)). Qed.
  Lemma eye2_l3 (n : nat) (Hn : U32 n) : forall fg fm c E b, c < n -> n - S c < fg -> n - S c <= fm ->   (* for tie_a_real_eye2 *)
    gen_a_real_eye2_loop3 O fg n (cells b) c E = ores rho3 (fillc T fm (fun c => c <? n) (fun _ => Ok z) (S c, E, b)).
  Proof.
    fillpre_tie (@gen_a_real_eye2_loop3)
      (fun f (s : nat * nat * buf T) => match fst (fst s) with S c => gen_a_real_eye2_loop3 O f n (cells (snd s)) c (snd (fst s)) | 0 => None end)
      (fun s : nat * nat * buf T => n - fst (fst s)) (fun s : nat * nat * buf T => 1 <= fst (fst s) <= n).
  Qed.
  Lemma eye2_l5 (n : nat) (Hn : U32 n) : forall fg fm c E b, n - c < fg -> n - c <= fm ->   (* for tie_a_real_eye2 *)
    gen_a_real_eye2_loop5 O fg n (cells b) c E = ores rho3 (fillc T fm (fun c => c <? n) (fun _ => Ok z) (c, E, b)).
  Proof. fill_tie (@gen_a_real_eye2_loop5) (fun f (s : nat * nat * buf T) => gen_a_real_eye2_loop5 O f n (cells (snd s)) (fst (fst s)) (snd (fst s))) (fun s : nat * nat * buf T => n - fst (fst s)). Qed.

  Lemma eye2_l1 (M n : nat) (Hn : U32 n) (Hb : M <= n) : forall fg fm r E b, M - r < fg -> M - r <= fm ->   (* for tie_a_real_eye2 *)
    gen_a_real_eye2_loop1 O fg M n (cells b) r E = ores cellsE (while fm (fun '(r, _, _) => r <? M) (eye_row T z o n) (r, E, b)).
  Proof.
    intros fg fm r E b Hg Hm.
    refine (while_tie (fun f (s : nat * nat * buf T) => gen_a_real_eye2_loop1 O f M n (cells (snd s)) (fst (fst s)) (snd (fst s))) _ _ cellsE (fun s : nat * nat * buf T => M - fst (fst s))
              (fun _ => True) _ _ fg fm (r, E, b) I Hg Hm).
    - intros f [[r0 E0] b0] _. cbn [fst snd gen_a_real_eye2_loop1]. cond_case Er. unfold eye_row.
      use_fill (eye2_l2 r0 ltac:(u32) (S r0) r0 0 E0 b0 ltac:(lia) ltac:(lia)) c1 E1 b1 F1.
      apply fillc_lt_exit in F1; [subst c1|lia].
      unfold store. repeat sim_step; try reflexivity. rewrite Nat.add_1_r.
      match goal with |- context [gen_a_real_eye2_loop3 O _ n ?l r0 (S E1)] =>
        use_fill (eye2_l3 n Hn (S (n - r0)) n r0 (S E1) (mkbuf l (S (nwr b1))) ltac:(lia) ltac:(lia) ltac:(lia)) c2 E2 b2 F2 end.
      close_row.
    - intros [[r0 E0] b0] s' _ Er Hbd. apply Nat.ltb_lt in Er. unfold eye_row in Hbd. inv_res Hbd. split; [exact I|lia].
  Qed.

  Lemma eye2_l4 (m n : nat) (Hm_ : U32 m) (Hn : U32 n) : forall fg fm r E b, m - r < fg -> m - r <= fm ->   (* for tie_a_real_eye2 *)
    gen_a_real_eye2_loop4 O fg m n (cells b) r E = ores cells3 (while fm (fun '(r, _, _) => r <? m) (const_row T n z) (r, E, b)).
  Proof.
    intros fg fm r E b Hg Hm.
    refine (while_tie (fun f (s : nat * nat * buf T) => gen_a_real_eye2_loop4 O f m n (cells (snd s)) (fst (fst s)) (snd (fst s))) _ _ cells3
              (fun s : nat * nat * buf T => m - fst (fst s)) (fun _ => True) _ _ fg fm (r, E, b) I Hg Hm).
    - intros f [[r0 E0] b0] _. cbn [fst snd gen_a_real_eye2_loop4]. cond_case Er. unfold const_row.
      use_fill (eye2_l5 n Hn (S n) n 0 E0 b0 ltac:(lia) ltac:(lia)) c1 E1 b1 F1.
      close_row.
    - intros [[r0 E0] b0] s' _ Er Hbd. apply Nat.ltb_lt in Er. unfold const_row in Hbd. inv_res Hbd. split; [exact I|lia].
  Qed.

  Theorem tie_a_real_eye2 : forall (m n : nat) (E : list T) (w : nat), U32 m -> U32 n ->
    gen_a_real_eye2 O m n E 0 = ores (@cells T) (eye2 T z o m n (mkbuf E w)).
  Proof.
    intros m n E w Hm Hn. unfold gen_a_real_eye2, eye2, amin. cbv zeta.
    set (M := if m <? n then m else n).
    assert (HM : M <= n /\ M <= m) by (unfold M; destruct (m <? n) eqn:E0; [apply Nat.ltb_lt in E0|apply Nat.ltb_ge in E0]; lia).
    pose proof (eye2_l1 M n Hn (proj1 HM) (S M) M 0 0 (mkbuf E w) ltac:(lia) ltac:(lia)) as H. cbn [cells] in H. rewrite H. clear H.
    destruct (while M (fun '(r, _, _) => r <? M) (eye_row T z o n) (0, 0, mkbuf E w)) as [[[r1 E1] b1]| |]; cbn [ores cellsE bind fst snd]; try reflexivity.
    rewrite (eye2_l4 m n Hm Hn (S (m - n)) m n E1 b1) by lia.
    match goal with |- context [while m ?c ?bd ?s] => destruct (while m c bd s) as [[[r2 E2] b2]| |] end; reflexivity.
  Qed.

  (* ------------------------------------------------------------------------------------------------ tri1 *)
  Lemma tri1_l2 (r : nat) (Hr : U32 (S r)) : forall fg fm c E b, S r - c < fg -> S r - c <= fm ->   (* for tie_a_real_tri1 *)
    gen_a_real_tri1_loop2 O fg r (cells b) c E = ores rho3 (fillc T fm (fun c => c <=? r) (fun _ => Ok o) (c, E, b)).
  Proof. fill_tie (@gen_a_real_tri1_loop2) (fun f (s : nat * nat * buf T) => gen_a_real_tri1_loop2 O f r (cells (snd s)) (fst (fst s)) (snd (fst s))) (fun s : nat * nat * buf T => S r - fst (fst s)). Qed.
  Lemma tri1_l3 (n : nat) (Hn : U32 n) : forall fg fm c E b, n - c < fg -> n - c <= fm ->   (* for tie_a_real_tri1 *)
    gen_a_real_tri1_loop3 O fg n (cells b) c E = ores rho3 (fillc T fm (fun c => c <? n) (fun _ => Ok z) (c, E, b)).
  Proof. fill_tie (@gen_a_real_tri1_loop3) (fun f (s : nat * nat * buf T) => gen_a_real_tri1_loop3 O f n (cells (snd s)) (fst (fst s)) (snd (fst s))) (fun s : nat * nat * buf T => n - fst (fst s)). Qed.

  Lemma tri1_l1 ( n : nat) (Hn : U32 n) (Hb : n <= n) : forall fg fm r E b, n - r < fg -> n - r <= fm ->   (* for tie_a_real_tri1 *)
    gen_a_real_tri1_loop1 O fg n (cells b) r E = ores cells3 (while fm (fun '(r, _, _) => r <? n) (tri_row T z o n) (r, E, b)).
  Proof.
    intros fg fm r E b Hg Hm.
    refine (while_tie (fun f (s : nat * nat * buf T) => gen_a_real_tri1_loop1 O f n (cells (snd s)) (fst (fst s)) (snd (fst s))) _ _ cells3 (fun s : nat * nat * buf T => n - fst (fst s))
              (fun _ => True) _ _ fg fm (r, E, b) I Hg Hm).
    - intros f [[r0 E0] b0] _. cbn [fst snd gen_a_real_tri1_loop1]. cond_case Er. unfold tri_row.
      use_fill (tri1_l2 r0 ltac:(u32) (S (S r0)) (S r0) 0 E0 b0 ltac:(lia) ltac:(lia)) c1 E1 b1 F1.
      apply fillc_le_exit in F1; [subst c1|lia].
      use_fill (tri1_l3 n Hn (S (n - S r0)) n (S r0) E1 b1 ltac:(lia) ltac:(lia)) c2 E2 b2 F2.
      close_row.
    - intros [[r0 E0] b0] s' _ Er Hbd. apply Nat.ltb_lt in Er. unfold tri_row in Hbd. inv_res Hbd. split; [exact I|lia].
  Qed.

  Theorem tie_a_real_tri1 : forall (n : nat) (E : list T) (w : nat), U32 n ->
    gen_a_real_tri1 O n E 0 = ores (@cells T) (tri1 T z o n (mkbuf E w)).
  Proof.
    intros n E w Hn. unfold gen_a_real_tri1, tri1.
    pose proof (tri1_l1 n Hn (le_n n) (S n) n 0 0 (mkbuf E w) ltac:(lia) ltac:(lia)) as H. cbn [cells] in H. rewrite H. clear H.
    destruct (while n (fun '(r, _, _) => r <? n) (tri_row T z o n) (0, 0, mkbuf E w)) as [[[r1 E1] b1]| |]; reflexivity.
  Qed.

  (* ------------------------------------------------------------------------------------------------ tri2 *)
  Lemma tri2_l2 (r : nat) (Hr : U32 (S r)) : forall fg fm c E b, S r - c < fg -> S r - c <= fm ->   (* for tie_a_real_tri2 *)
    gen_a_real_tri2_loop2 O fg r (cells b) c E = ores rho3 (fillc T fm (fun c => c <=? r) (fun _ => Ok o) (c, E, b)).
  Proof. fill_tie (@gen_a_real_tri2_loop2) (fun f (s : nat * nat * buf T) => gen_a_real_tri2_loop2 O f r (cells (snd s)) (fst (fst s)) (snd (fst s))) (fun s : nat * nat * buf T => S r - fst (fst s)). Qed.
  Lemma tri2_l3 (n : nat) (Hn : U32 n) : forall fg fm c E b, n - c < fg -> n - c <= fm ->   (* for tie_a_real_tri2 *)
    gen_a_real_tri2_loop3 O fg n (cells b) c E = ores rho3 (fillc T fm (fun c => c <? n) (fun _ => Ok z) (c, E, b)).
  Proof. fill_tie (@gen_a_real_tri2_loop3) (fun f (s : nat * nat * buf T) => gen_a_real_tri2_loop3 O f n (cells (snd s)) (fst (fst s)) (snd (fst s))) (fun s : nat * nat * buf T => n - fst (fst s)). Qed.
  Lemma tri2_l5 (n : nat) (Hn : U32 n) : forall fg fm c E b, n - c < fg -> n - c <= fm ->   (* for tie_a_real_tri2 *)
    gen_a_real_tri2_loop5 O fg n (cells b) c E = ores rho3 (fillc T fm (fun c => c <? n) (fun _ => Ok o) (c, E, b)).
  Proof. fill_tie (@gen_a_real_tri2_loop5) (fun f (s : nat * nat * buf T) => gen_a_real_tri2_loop5 O f n (cells (snd s)) (fst (fst s)) (snd (fst s))) (fun s : nat * nat * buf T => n - fst (fst s)). Qed.

  Lemma tri2_l1 (M n : nat) (Hn : U32 n) (Hb : M <= n) : forall fg fm r E b, M - r < fg -> M - r <= fm ->   (* for tie_a_real_tri2 *)
    gen_a_real_tri2_loop1 O fg M n (cells b) r E = ores cellsE (while fm (fun '(r, _, _) => r <? M) (tri_row T z o n) (r, E, b)).
  Proof.
    intros fg fm r E b Hg Hm.
    refine (while_tie (fun f (s : nat * nat * buf T) => gen_a_real_tri2_loop1 O f M n (cells (snd s)) (fst (fst s)) (snd (fst s))) _ _ cellsE (fun s : nat * nat * buf T => M - fst (fst s))
              (fun _ => True) _ _ fg fm (r, E, b) I Hg Hm).
    - intros f [[r0 E0] b0] _. cbn [fst snd gen_a_real_tri2_loop1]. cond_case Er. unfold tri_row.
      use_fill (tri2_l2 r0 ltac:(u32) (S (S r0)) (S r0) 0 E0 b0 ltac:(lia) ltac:(lia)) c1 E1 b1 F1.
      apply fillc_le_exit in F1; [subst c1|lia].
      use_fill (tri2_l3 n Hn (S (n - S r0)) n (S r0) E1 b1 ltac:(lia) ltac:(lia)) c2 E2 b2 F2.
      close_row.
    - intros [[r0 E0] b0] s' _ Er Hbd. apply Nat.ltb_lt in Er. unfold tri_row in Hbd. inv_res Hbd. split; [exact I|lia].
  Qed.

  Lemma tri2_l4 (m n : nat) (Hm_ : U32 m) (Hn : U32 n) : forall fg fm r E b, m - r < fg -> m - r <= fm ->   (* for tie_a_real_tri2 *)
    gen_a_real_tri2_loop4 O fg m n (cells b) r E = ores cells3 (while fm (fun '(r, _, _) => r <? m) (const_row T n o) (r, E, b)).
  Proof.
    intros fg fm r E b Hg Hm.
    refine (while_tie (fun f (s : nat * nat * buf T) => gen_a_real_tri2_loop4 O f m n (cells (snd s)) (fst (fst s)) (snd (fst s))) _ _ cells3
              (fun s : nat * nat * buf T => m - fst (fst s)) (fun _ => True) _ _ fg fm (r, E, b) I Hg Hm).
    - intros f [[r0 E0] b0] _. cbn [fst snd gen_a_real_tri2_loop4]. cond_case Er. unfold const_row.
      use_fill (tri2_l5 n Hn (S n) n 0 E0 b0 ltac:(lia) ltac:(lia)) c1 E1 b1 F1.
      close_row.
    - intros [[r0 E0] b0] s' _ Er Hbd. apply Nat.ltb_lt in Er. unfold const_row in Hbd. inv_res Hbd. split; [exact I|lia].
  Qed.

  Theorem tie_a_real_tri2 : forall (m n : nat) (E : list T) (w : nat), U32 m -> U32 n ->
    gen_a_real_tri2 O m n E 0 = ores (@cells T) (tri2 T z o m n (mkbuf E w)).
  Proof.
    intros m n E w Hm Hn. unfold gen_a_real_tri2, tri2, amin. cbv zeta.
    set (M := if m <? n then m else n).
    assert (HM : M <= n /\ M <= m) by (unfold M; destruct (m <? n) eqn:E0; [apply Nat.ltb_lt in E0|apply Nat.ltb_ge in E0]; lia).
    pose proof (tri2_l1 M n Hn (proj1 HM) (S M) M 0 0 (mkbuf E w) ltac:(lia) ltac:(lia)) as H. cbn [cells] in H. rewrite H. clear H.
    destruct (while M (fun '(r, _, _) => r <? M) (tri_row T z o n) (0, 0, mkbuf E w)) as [[[r1 E1] b1]| |]; cbn [ores cellsE bind fst snd]; try reflexivity.
    rewrite (tri2_l4 m n Hm Hn (S (m - n)) m n E1 b1) by lia.
    match goal with |- context [while m ?c ?bd ?s] => destruct (while m c bd s) as [[[r2 E2] b2]| |] end; reflexivity.
  Qed.
End Tie.
