#!/usr/bin/env python3
"""Writes harness/C09/TieLinalg*.v and harness/C09/tie_names.txt: for every routine of src/linalg.c and every shape with all
dimensions in 0..3, the statement that the UNROLLED translation of the C (tools/c2coq.py, bounded symbolic execution with the
dimensions fixed and the arrays exactly sized) computes, for ALL array contents and every NumOps instance, the cells that the
hand model coq/C09/LinalgDefs.v (`run`) computes.  The tie files are committed; the check regenerates only Gen.GenLinalg."""
import itertools
import sys

D = (0, 1, 2, 3)
# name -> (C parameter names of the dimensions, [(array name, role, size function)], op constructor); role: X | Y | O
R = {
    "T1": (["n"], [("A", "O", lambda n: n * n)], "OpT1"),
    "T2": (["m", "n"], [("A", "X", lambda m, n: m * n), ("T", "O", lambda m, n: m * n)], "OpT2"),
    "eye1": (["n"], [("E", "O", lambda n: n * n)], "OpEye1"),
    "eye2": (["m", "n"], [("E", "O", lambda m, n: m * n)], "OpEye2"),
    "tri1": (["n"], [("L", "O", lambda n: n * n)], "OpTri1"),
    "tri2": (["m", "n"], [("L", "O", lambda m, n: m * n)], "OpTri2"),
    "diag": (["n"], [("a", "X", lambda n: n), ("A", "O", lambda n: n * n)], "OpDiag"),
    "diag1": (["n"], [("A", "X", lambda n: n * n), ("a", "O", lambda n: n)], "OpDiag1"),
    "diag2": (["m", "n"], [("A", "X", lambda m, n: m * n), ("a", "O", lambda m, n: min(m, n))], "OpDiag2"),
    "triL": (["n"], [("A", "X", lambda n: n * n), ("L", "O", lambda n: n * n)], "OpTriL"),
    "triL1": (["n"], [("A", "X", lambda n: n * n), ("L", "O", lambda n: n * n)], "OpTriL1"),
    "triL2": (["m", "n"], [("A", "X", lambda m, n: m * n), ("L", "O", lambda m, n: m * n)], "OpTriL2"),
    "triU": (["n"], [("A", "X", lambda n: n * n), ("U", "O", lambda n: n * n)], "OpTriU"),
    "triU1": (["n"], [("A", "X", lambda n: n * n), ("U", "O", lambda n: n * n)], "OpTriU1"),
    "triU2": (["m", "n"], [("A", "X", lambda m, n: m * n), ("U", "O", lambda m, n: m * n)], "OpTriU2"),
    "mulmm": (["row", "c_r", "col"], [("X", "X", lambda r, k, c: r * k), ("Y", "Y", lambda r, k, c: k * c), ("Z", "O", lambda r, k, c: r * c)], "OpMulmm"),
    "mulTm": (["c_r", "row", "col"], [("X", "X", lambda k, r, c: k * r), ("Y", "Y", lambda k, r, c: k * c), ("Z", "O", lambda k, r, c: r * c)], "OpMulTm"),
    "mulmT": (["row", "col", "c_r"], [("X", "X", lambda r, c, k: r * k), ("Y", "Y", lambda r, c, k: c * k), ("Z", "O", lambda r, c, k: r * c)], "OpMulmT"),
    "mulTT": (["row", "c_r", "col"], [("X", "X", lambda r, k, c: k * r), ("Y", "Y", lambda r, k, c: c * k), ("Z", "O", lambda r, k, c: r * c)], "OpMulTT"),
}
HEAD = """(* GENERATED ONCE by harness/C09/mk_tie.py and committed: tie between the UNROLLED translation of src/linalg.c (module
   Gen.GenLinalg, regenerated on every run by tools/c2coq.py with the dimensions fixed and the arrays exactly sized - a read or
   write outside an array is a translation error) and the hand model C09/LinalgDefs.v.  For every routine and every shape
   with all dimensions in 0..3: for ALL array contents and EVERY NumOps instance the model's run returns exactly the cells the
   translated C computes, operation for operation (both sides reduce to the same term).  The theorems of Properties_C09.v
   then speak about every dimension; these statements pin the model to the code on the small shapes. *)
From Coq Require Import ZArith List.
From LibaV Require Import Common.NumOps C09.LinalgDefs.
From Gen Require Import GenLinalg.
Import ListNotations.

Section Tie.
  Context {T : Type} (O : NumOps T).
  Local Notation run := (LinalgDefs.run T (ofZ O 0) (ofZ O 1) (add O) (mul O)).
"""
names, thms = [], []
for rn, (dims, arrs, op) in R.items():
    for shape in itertools.product(D, repeat=len(dims)):
        sizes = [(a, role, f(*shape)) for a, role, f in arrs]
        spec = "a_real_%s@%s;%s" % (rn, ",".join("%s=%d" % kv for kv in zip(dims, shape)), ",".join("%s=%d" % (a, n) for a, _, n in sizes))
        names.append(spec)
        gen = "gen_a_real_%s_%s" % (rn, "_".join("%s%d" % kv for kv in zip(dims, shape)))
        binders = [["%s%d" % (a.lower() if a != "a" else "v", i) for i in range(n)] for a, _, n in sizes]
        # avoid clashes between arrays named a and A
        binders = [["%s_%d" % (("in%d" % k), i) for i in range(n)] for k, (a, _, n) in enumerate(sizes)]
        allb = [b for bs in binders for b in bs]
        lists = {"X": "[]", "Y": "[]", "O": "[]"}
        for (a, role, n), bs in zip(sizes, binders):
            lists[role] = "[" + "; ".join(bs) + "]"
        nout = [n for a, role, n in sizes if role == "O"][0]
        outs = ["o%d" % i for i in range(nout)]
        d3 = list(shape) + [0] * (3 - len(shape))
        pat = "(" + ", ".join(outs) + ")" if nout > 1 else (outs[0] if outs else "")
        quant = ("forall %s, " % " ".join(allb)) if allb else ""
        if nout == 0:
            rhs = "Ok ([], w)"
        else:
            rhs = "Ok (let %s := %s O %s in [%s], w)" % (("'" + pat) if nout > 1 else pat, gen, " ".join(allb), "; ".join(outs))
        thms.append("  Theorem tie_%s_%s : %sexists w,\n    run %s %d %d %d %s %s %s =\n    %s.\n  Proof. intros. eexists. cbv. reflexivity. Qed.\n" % (
            rn, "x".join(str(d) for d in shape), quant, op, d3[0], d3[1], d3[2], lists["X"], lists["Y"], lists["O"], rhs))
K = 8
out_dir = sys.argv[1]
for k in range(K):
    part = thms[k::K]
    open("%s/TieLinalg%d.v" % (out_dir, k + 1), "w").write(HEAD + "\n" + "\n".join(part) + "End Tie.\n")
open("%s/tie_names.txt" % out_dir, "w").write("\n".join(names) + "\n")
print(len(names), "specialisations,", len(thms), "theorems")
