/* C09 "wide" implementation driver: a_real_diag1 / a_real_diag2 of $VERIF_REPO/src/linalg.c on matrices with
   more than 2^32 cells, where the width of the integer type in which the C computes `N * i` is observable.

   The input matrix is a private anonymous MAP_NORESERVE mapping of exactly m*n doubles (only the pages that are
   touched exist: the K cells set by the case and the <= min(m,n) diagonal cells read by the routine; untouched
   cells read as +0.0), placed between two PROT_NONE pages (a read outside the matrix by more than the page
   slack faults and is reported by the sanitizer).  The result array sits between canary cells.

   Case line:   op d1 d2 K i1 v1 .. iK vK      (op = diag1 | diag2; d2 ignored for diag1; indices and values
                                                 decimal; A[i_j] = v_j, every other cell of A is 0)
   Output line: op d1 d2 <status> i:v ...       status as in drv.c (ok | guard-lo@k | guard-hi@k | input);
                                                 the NON-ZERO cells of the result array, ascending index
   Same format from harness/C09/wmdrv.ml (the extracted N-indexed model).  */
#define _GNU_SOURCE
#include "a/linalg.h"
#include <stdint.h>
#include <stdio.h>
#include <stdlib.h>
#include <string.h>
#include <sys/mman.h>
#include <unistd.h>

#define GUARD 48
static const uint64_t CANARY = 0x7ff4dead0000beefULL;

static double from_bits(uint64_t u) { double d; memcpy(&d, &u, 8); return d; }
static uint64_t to_bits(double d) { uint64_t u; memcpy(&u, &d, 8); return u; }

int main(void)
{
    char *line = NULL;
    size_t cap = 0;
    size_t const pg = (size_t)sysconf(_SC_PAGESIZE);
    while (getline(&line, &cap, stdin) > 0)
    {
        char op[16];
        unsigned long long d1, d2, K, k;
        int off = 0, st = 0;
        char *p = line;
        unsigned long long cells, M;
        size_t bytes, maplen, i;
        char *base;
        double *A, *Ob, *O;
        unsigned long long *idx;
        double *val;
        if (sscanf(p, "%15s %llu %llu %llu%n", op, &d1, &d2, &K, &off) != 4) { continue; }
        p += off;
        if (!strcmp(op, "diag1")) { cells = d1 * d1; M = d1; }
        else if (!strcmp(op, "diag2")) { cells = d1 * d2; M = d1 < d2 ? d1 : d2; }
        else { printf("%s %llu %llu unknown-op\n", op, d1, d2); fflush(stdout); continue; }
        bytes = (size_t)cells * sizeof(double);
        maplen = ((bytes + pg - 1) / pg) * pg + 2 * pg;
        base = (char *)mmap(NULL, maplen, PROT_NONE, MAP_PRIVATE | MAP_ANONYMOUS | MAP_NORESERVE, -1, 0);
        if (base == MAP_FAILED) { printf("%s %llu %llu no-memory\n", op, d1, d2); fflush(stdout); continue; }
        if (maplen > 2 * pg)
        {
            mprotect(base + pg, maplen - 2 * pg, PROT_READ | PROT_WRITE);
#ifdef MADV_NOHUGEPAGE
            madvise(base + pg, maplen - 2 * pg, MADV_NOHUGEPAGE);
#endif
        }
        /* the matrix ENDS at the upper guard page (overreads fault at once); underreads have < 1 page of slack */
        A = (double *)(base + maplen - pg - bytes);
        idx = (unsigned long long *)malloc(sizeof(*idx) * (K + 1));
        val = (double *)malloc(sizeof(*val) * (K + 1));
        for (k = 0; k < K; ++k)
        {
            long long v;
            if (sscanf(p, "%llu %lld%n", &idx[k], &v, &off) != 2) { fprintf(stderr, "short line\n"); return 3; }
            p += off;
            val[k] = (double)v;
            if (idx[k] >= cells) { fprintf(stderr, "index outside the matrix\n"); return 3; }
            A[idx[k]] = val[k];
        }
        Ob = (double *)malloc(sizeof(double) * ((size_t)M + 2 * GUARD));
        O = Ob + GUARD;
        for (i = 0; i < GUARD; ++i) { Ob[i] = from_bits(CANARY); O[M + i] = from_bits(CANARY); }
        for (i = 0; i < M; ++i) { O[i] = 7777; } /* stale contents */
        if (op[4] == '1') { a_real_diag1((a_uint)d1, A, O); }
        else { a_real_diag2((a_uint)d1, (a_uint)d2, A, O); }
        printf("%s %llu %llu ", op, d1, d2);
        for (i = 0; i < GUARD; ++i)
        {
            if (to_bits(Ob[GUARD - 1 - i]) != CANARY) { printf("%sguard-lo@%u", st++ ? "+" : "", (unsigned)(i + 1)); break; }
        }
        for (i = 0; i < GUARD; ++i)
        {
            if (to_bits(O[M + i]) != CANARY) { printf("%sguard-hi@%u", st++ ? "+" : "", (unsigned)i); break; }
        }
        for (k = K; k-- > 0;)
        {
            /* later assignments of the same index win: compare against the last one only */
            unsigned long long j;
            int last = 1;
            for (j = k + 1; j < K; ++j) { if (idx[j] == idx[k]) { last = 0; break; } }
            if (last && to_bits(A[idx[k]]) != to_bits(val[k])) { printf("%sinput", st++ ? "+" : ""); break; }
        }
        if (!st) { printf("ok"); }
        for (i = 0; i < M; ++i)
        {
            if (O[i] != 0 || to_bits(O[i]) != 0)
            {
                if (O[i] == (double)(long long)O[i]) { printf(" %llu:%lld", (unsigned long long)i, (long long)O[i]); }
                else { printf(" %llu:x%016llx", (unsigned long long)i, (unsigned long long)to_bits(O[i])); }
            }
        }
        printf("\n");
        fflush(stdout);
        free(Ob); free(idx); free(val);
        munmap(base, maplen);
    }
    free(line);
    return 0;
}
