/* C09 implementation driver: calls the routines of $VERIF_REPO/src/linalg.c on the case file read
   from stdin and prints one canonical line per case (same format as harness/C09/mdrv.ml).

   Case line:   op d1 d2 d3 nx x1..xnx ny y1..yny no o1..ono
                values are decimal integers or x<16 hex digits> (bit pattern of a double)
   Output line: op d1 d2 d3 <status> v1 .. vno
                status = ok | a '+'-joined list of: guard-lo@k guard-hi@k (a canary cell k cells before /
                after the result array was overwritten), input (an input array was modified),
                fpe (FE_INEXACT/INVALID/OVERFLOW/UNDERFLOW raised; only checked in integer mode)
   argv[1] = "hex": print every value as x<bits> and do not test the FP flags (bit-exact float run).

   Input arrays are exact-size heap blocks (ASan sees any out-of-bounds read); the result array sits
   between two canary zones of GUARD cells inside one heap block (overruns up to GUARD cells are
   reported per case without aborting, larger ones abort under ASan).  Nothing here depends on how
   linalg.c is written, only on its documented interface. */
#define _GNU_SOURCE
#include "a/linalg.h"
#include <fenv.h>
#include <stdint.h>
#include <stdio.h>
#include <stdlib.h>
#include <string.h>

#define GUARD 48
static const uint64_t CANARY = 0x7ff4dead0000beefULL; /* a signalling-NaN pattern: never produced by the routines */

static double from_bits(uint64_t u) { double d; memcpy(&d, &u, 8); return d; }
static uint64_t to_bits(double d) { uint64_t u; memcpy(&u, &d, 8); return u; }

static char *tok(char **p)
{
    char *s = *p, *e;
    while (*s == ' ' || *s == '\t') ++s;
    if (*s == 0 || *s == '\n' || *s == '\r') { *p = s; return NULL; }
    e = s;
    while (*e && *e != ' ' && *e != '\t' && *e != '\n' && *e != '\r') ++e;
    if (*e) { *e = 0; *p = e + 1; } else { *p = e; }
    return s;
}

static double val(char const *t)
{
    if (t[0] == 'x') { return from_bits(strtoull(t + 1, NULL, 16)); }
    return (double)strtoll(t, NULL, 10);
}

static long num(char **p)
{
    char *t = tok(p);
    if (!t) { fprintf(stderr, "short line\n"); exit(3); }
    return strtol(t, NULL, 10);
}

static double *arr(char **p, size_t *n, size_t guard)
{
    size_t i;
    double *a;
    *n = (size_t)num(p);
    a = (double *)malloc(sizeof(double) * (*n + 2 * guard) + (*n + guard == 0));
    for (i = 0; i < guard; ++i) { a[i] = from_bits(CANARY); a[guard + *n + i] = from_bits(CANARY); }
    for (i = 0; i < *n; ++i)
    {
        char *t = tok(p);
        if (!t) { fprintf(stderr, "short line\n"); exit(3); }
        a[guard + i] = val(t);
    }
    return a;
}

static void print_val(double v, int hex)
{
    if (!hex && v == (double)(long long)v && v > -9.1e15 && v < 9.1e15 && !(v == 0 && to_bits(v) != 0))
    {
        printf(" %lld", (long long)v);
    }
    else { printf(" x%016llx", (unsigned long long)to_bits(v)); }
}

int main(int argc, char **argv)
{
    int hex = argc > 1 && strcmp(argv[1], "hex") == 0;
    char *line = NULL;
    size_t cap = 0;
    static char obuf[1 << 16];
    setvbuf(stdout, obuf, _IOFBF, sizeof(obuf));
    while (getline(&line, &cap, stdin) > 0)
    {
        char *p = line;
        char *op = tok(&p);
        unsigned d1, d2, d3;
        size_t nx, ny, no, i;
        double *X, *Y, *Ob, *O, *X0, *Y0;
        int known = 1, st = 0, fl;
        if (!op) { continue; }
        d1 = (unsigned)num(&p); d2 = (unsigned)num(&p); d3 = (unsigned)num(&p);
        X = arr(&p, &nx, 0); Y = arr(&p, &ny, 0); Ob = arr(&p, &no, GUARD);
        O = Ob + GUARD;
        X0 = (double *)malloc(sizeof(double) * nx + 1); memcpy(X0, X, sizeof(double) * nx);
        Y0 = (double *)malloc(sizeof(double) * ny + 1); memcpy(Y0, Y, sizeof(double) * ny);
        feclearexcept(FE_ALL_EXCEPT);
        if (!strcmp(op, "T1")) { a_real_T1(d1, O); }
        else if (!strcmp(op, "T2")) { a_real_T2(d1, d2, X, O); }
        else if (!strcmp(op, "eye1")) { a_real_eye1(d1, O); }
        else if (!strcmp(op, "eye2")) { a_real_eye2(d1, d2, O); }
        else if (!strcmp(op, "tri1")) { a_real_tri1(d1, O); }
        else if (!strcmp(op, "tri2")) { a_real_tri2(d1, d2, O); }
        else if (!strcmp(op, "diag")) { a_real_diag(d1, X, O); }
        else if (!strcmp(op, "diag1")) { a_real_diag1(d1, X, O); }
        else if (!strcmp(op, "diag2")) { a_real_diag2(d1, d2, X, O); }
        else if (!strcmp(op, "triL")) { a_real_triL(d1, X, O); }
        else if (!strcmp(op, "triL1")) { a_real_triL1(d1, X, O); }
        else if (!strcmp(op, "triL2")) { a_real_triL2(d1, d2, X, O); }
        else if (!strcmp(op, "triU")) { a_real_triU(d1, X, O); }
        else if (!strcmp(op, "triU1")) { a_real_triU1(d1, X, O); }
        else if (!strcmp(op, "triU2")) { a_real_triU2(d1, d2, X, O); }
        else if (!strncmp(op, "mul", 3))
        {
            /* when one operand's contents are a prefix of the other's, BOTH are passed as the same read-only buffer (two shapes read
               from one array: allowed for const restrict operands that are not modified); the result must not depend on that */
            double const *Xp = X, *Yp = Y;
            size_t const mn = nx < ny ? nx : ny;
            if (mn && !memcmp(X, Y, sizeof(double) * mn)) { if (nx >= ny) { Yp = X; } else { Xp = Y; } }
            if (!strcmp(op, "mulmm")) { a_real_mulmm(d1, d2, d3, Xp, Yp, O); }
            else if (!strcmp(op, "mulTm")) { a_real_mulTm(d1, d2, d3, Xp, Yp, O); }
            else if (!strcmp(op, "mulmT")) { a_real_mulmT(d1, d2, d3, Xp, Yp, O); }
            else if (!strcmp(op, "mulTT")) { a_real_mulTT(d1, d2, d3, Xp, Yp, O); }
            else { known = 0; }
        }
        else { known = 0; }
        fl = fetestexcept(FE_INEXACT | FE_INVALID | FE_OVERFLOW | FE_UNDERFLOW | FE_DIVBYZERO);
        printf("%s %u %u %u ", op, d1, d2, d3);
        if (!known) { printf("unknown-op\n"); goto next; }
        for (i = 0; i < GUARD; ++i)
        {
            if (to_bits(Ob[GUARD - 1 - i]) != CANARY) { printf("%sguard-lo@%u", st++ ? "+" : "", (unsigned)(i + 1)); break; }
        }
        for (i = 0; i < GUARD; ++i)
        {
            if (to_bits(O[no + i]) != CANARY) { printf("%sguard-hi@%u", st++ ? "+" : "", (unsigned)i); break; }
        }
        if (memcmp(X0, X, sizeof(double) * nx) || memcmp(Y0, Y, sizeof(double) * ny)) { printf("%sinput", st++ ? "+" : ""); }
        if (!hex && fl) { printf("%sfpe", st++ ? "+" : ""); }
        if (!st) { printf("ok"); }
        for (i = 0; i < no; ++i) { print_val(O[i], hex); }
        printf("\n");
    next:
        fflush(stdout); /* so that a sanitizer abort in the next case leaves every finished line visible */
        free(X); free(Y); free(Ob); free(X0); free(Y0);
    }
    free(line);
    return 0;
}
