(* All-dimensions translator tie of C09, part 5: the products a_real_mulmm and a_real_mulTm (see TieLoop1.v for the conventions).
   Four loops each: the zeroing of Z, then three nested pointer loops; the outermost `for (x = X; row--; Z = z)` counts its a_uint
   down, which the generated code renders as structural recursion on it and the model as a [while] on `row != 0`.
   Theorems tie_a_real_mulmm / mulTm: every triple of dimensions with U32 row, U32 col (the product (a_size)row * col), every
   three arrays of any length. *)
From Coq Require Import ZArith NArith List Bool Arith Lia.
From LibaV Require Import Common.NumOps C09.LinalgDefs C09.LinalgSpec C09.LinalgLemmas C09.LoopTieLemmas.
From Gen Require Import GenLoop TieLoopBase.
Import ListNotations.

Section Tie.
  Context {T : Type} (O : NumOps T).
  Local Notation z := (ofZ O 0).
  Local Notation st2 := (nat * buf T)%type.
  Local Notation st3 := (nat * nat * buf T)%type.
  Local Notation st4 := (nat * nat * nat * buf T)%type.
  Definition cz (s : st2) : list T * nat := (cells (snd s), fst s).

  (* ------------------------------------------------------------------------------------------------ mulmm *)
  Lemma mulmm_l1 (z_ : nat) : forall fg fm zc b, z_ - zc < fg -> z_ - zc <= fm ->   (* for tie_a_real_mulmm *)
    gen_a_real_mulmm_loop1 O fg z_ (cells b) zc = ores cz (while fm (fun '(zc, _) => zc <? z_) (zero_cell T z) (zc, b)).
  Proof.
    intros fg fm zc b Hg Hm.
    refine (while_tie (fun f (s : st2) => gen_a_real_mulmm_loop1 O f z_ (cells (snd s)) (fst s)) _ _ cz (fun s : st2 => z_ - fst s)
              (fun _ => True) _ _ fg fm (zc, b) I Hg Hm).
    - intros f [z0 b0] _. cbn [fst snd gen_a_real_mulmm_loop1]. cond_case Ez. unfold zero_cell. sim.
    - intros [z0 b0] s' _ Ez Hb. apply Nat.ltb_lt in Ez. unfold zero_cell in Hb. inv_body Hb. cbn [fst snd]. split; [exact I|lia].
  Qed.

  Lemma mulmm_l4 (X Y : list T) (x y_ : nat) : forall fg fm y zc b, y_ - y < fg -> y_ - y <= fm ->   (* for tie_a_real_mulmm *)
    gen_a_real_mulmm_loop4 O fg y_ x X Y (cells b) y zc =
    ores (fun s : st3 => (cells (snd s), fst (fst s), snd (fst s))) (while fm (fun '(y, _, _) => y <? y_) (mulmm_j T (add O) (mul O) X Y x) (y, zc, b)).
  Proof.
    intros fg fm y zc b Hg Hm.
    refine (while_tie (fun f (s : st3) => gen_a_real_mulmm_loop4 O f y_ x X Y (cells (snd s)) (fst (fst s)) (snd (fst s))) _ _ _
              (fun s : st3 => y_ - fst (fst s)) (fun _ => True) _ _ fg fm (y, zc, b) I Hg Hm).
    - intros f [[y0 z0] b0] _. cbn [fst snd gen_a_real_mulmm_loop4]. cond_case Ey. unfold mulmm_j, mac. sim.
    - intros [[y0 z0] b0] s' _ Ey Hb. apply Nat.ltb_lt in Ey. unfold mulmm_j, mac in Hb. inv_body Hb. cbn [fst snd]. split; [exact I|lia].
  Qed.

  Definition rho4 (s : st4) : list T * nat * nat * nat := (cells (snd s), fst (fst (fst s)), snd (fst s), snd (fst (fst s))).

  (* state of the model's k loop: (x, y, z, b); the generated loop returns (cells, x, z, y) *)
  Lemma mulmm_l3 (X Y : list T) (col Zp x_ : nat) : forall fg fm x y zc b, x_ - x < fg -> x_ - x <= fm ->   (* for tie_a_real_mulmm *)
    gen_a_real_mulmm_loop3 O fg x_ col Zp X Y (cells b) x zc y =
    ores rho4 (while fm (fun '(x, _, _, _) => x <? x_) (mulmm_k T (add O) (mul O) col X Y Zp x_) (x, y, zc, b)).
  Proof.
    intros fg fm x y zc b Hg Hm.
    refine (while_tie (fun f (s : st4) => gen_a_real_mulmm_loop3 O f x_ col Zp X Y (cells (snd s)) (fst (fst (fst s))) (snd (fst s)) (snd (fst (fst s))))
              _ _ rho4 (fun s : st4 => x_ - fst (fst (fst s))) (fun _ => True) _ _ fg fm (x, y, zc, b) I Hg Hm).
    - intros f [[[x0 y0] z0] b0] _. cbn [fst snd gen_a_real_mulmm_loop3]. cond_case Ex. unfold mulmm_k. cbv zeta.
      rewrite (mulmm_l4 X Y x0 (y0 + col) (S (y0 + col - y0)) col y0 Zp b0) by lia.
      destruct (while col (fun '(y, _, _) => y <? y0 + col) (mulmm_j T (add O) (mul O) X Y x0) (y0, Zp, b0)) as [[[y1 z1] b1]| |];
        cbn [ores bind fst snd]; try reflexivity.
      rewrite Nat.add_1_r. reflexivity.
    - intros [[[x0 y0] z0] b0] s' _ Ex Hb. apply Nat.ltb_lt in Ex. unfold mulmm_k in Hb. inv_res Hb. split; [exact I|lia].
  Qed.

  (* the row loop: `for (x = X; row--; Z = z)` - structural on row in the generated code, the model counts row down *)
  Lemma mulmm_l2 (X Y : list T) (c_r col : nat) : forall row fm x zc Zp b, row <= fm ->   (* for tie_a_real_mulmm *)
    gen_a_real_mulmm_loop2 O row c_r 0 col X Y (cells b) Zp x zc =
    ores (fun s : nat * nat * nat * nat * buf T => cells (snd s))
      (while fm (fun '(row, _, _, _, _) => negb (row =? 0)) (mulmm_i T (add O) (mul O) c_r col X Y) (row, x, zc, Zp, b)).
  Proof.
    induction row as [|row IH]; intros fm x zc Zp b Hf.
    - destruct fm; reflexivity.
    - destruct fm as [|fm]; [lia|]. cbn [gen_a_real_mulmm_loop2 while Nat.eqb negb]. unfold mulmm_i at 1. cbv zeta.
      rewrite (mulmm_l3 X Y col Zp (x + c_r) (S (x + c_r - x)) c_r x 0 zc b) by lia.
      match goal with |- context [ores rho4 ?wl] => destruct wl as [[[[x1 y1] z1] b1]| |] end; cbn [ores rho4 bind fst snd]; try reflexivity.
      cbn [Nat.sub]. rewrite ?Nat.sub_0_r. apply IH. lia.
  Qed.

  Theorem tie_a_real_mulmm : forall (row c_r col : nat) (X Y Zc : list T) (w : nat), U32 row -> U32 col ->
    gen_a_real_mulmm O row c_r col X 0 Y 0 Zc 0 = ores (@cells T) (mulmm T z (add O) (mul O) row c_r col X Y (mkbuf Zc w)).
  Proof.
    intros row c_r col X Y Zc w Hr Hc. unfold gen_a_real_mulmm, mulmm. cbv zeta. rewrite sz_mul_u32 by assumption.
    rewrite fits64_mul by assumption. cbn [Nat.add]. unfold zero_out.
    pose proof (mulmm_l1 (row * col) (S (row * col - 0)) (row * col) 0 (mkbuf Zc w) ltac:(lia) ltac:(lia)) as H. cbn [cells] in H. rewrite H. clear H.
    destruct (while (row * col) (fun '(zc, _) => zc <? row * col) (zero_cell T z) (0, mkbuf Zc w)) as [[z1 b1]| |]; cbn [ores cz bind fst snd]; try reflexivity.
    rewrite (mulmm_l2 X Y c_r col row row 0 z1 0 b1) by lia.
    match goal with |- context [while row ?c ?bd ?s] => destruct (while row c bd s) as [[[[[r2 x2] z2] Z2] b2]| |] end; reflexivity.
  Qed.

  (* ------------------------------------------------------------------------------------------------ mulTm *)
  Lemma mulTm_l1 (z_ : nat) : forall fg fm zc b, z_ - zc < fg -> z_ - zc <= fm ->   (* for tie_a_real_mulTm *)
    gen_a_real_mulTm_loop1 O fg z_ (cells b) zc = ores cz (while fm (fun '(zc, _) => zc <? z_) (zero_cell T z) (zc, b)).
  Proof.
    intros fg fm zc b Hg Hm.
    refine (while_tie (fun f (s : st2) => gen_a_real_mulTm_loop1 O f z_ (cells (snd s)) (fst s)) _ _ cz (fun s : st2 => z_ - fst s)
              (fun _ => True) _ _ fg fm (zc, b) I Hg Hm).
    - intros f [z0 b0] _. cbn [fst snd gen_a_real_mulTm_loop1]. cond_case Ez. unfold zero_cell. sim.
    - intros [z0 b0] s' _ Ez Hb. apply Nat.ltb_lt in Ez. unfold zero_cell in Hb. inv_body Hb. cbn [fst snd]. split; [exact I|lia].
  Qed.

  Lemma mulTm_l4 (X Y : list T) (x y_ : nat) : forall fg fm y zc b, y_ - y < fg -> y_ - y <= fm ->   (* for tie_a_real_mulTm *)
    gen_a_real_mulTm_loop4 O fg y_ x X Y (cells b) y zc =
    ores (fun s : st3 => (cells (snd s), fst (fst s), snd (fst s))) (while fm (fun '(y, _, _) => y <? y_) (mulTm_j T (add O) (mul O) X Y x) (y, zc, b)).
  Proof.
    intros fg fm y zc b Hg Hm.
    refine (while_tie (fun f (s : st3) => gen_a_real_mulTm_loop4 O f y_ x X Y (cells (snd s)) (fst (fst s)) (snd (fst s))) _ _ _
              (fun s : st3 => y_ - fst (fst s)) (fun _ => True) _ _ fg fm (y, zc, b) I Hg Hm).
    - intros f [[y0 z0] b0] _. cbn [fst snd gen_a_real_mulTm_loop4]. cond_case Ey. unfold mulTm_j, mac. sim.
    - intros [[y0 z0] b0] s' _ Ey Hb. apply Nat.ltb_lt in Ey. unfold mulTm_j, mac in Hb. inv_body Hb. cbn [fst snd]. split; [exact I|lia].
  Qed.

  (* state of the model's i loop: (x, y, z, b); the generated loop returns (cells, x, z) *)
  Definition rho4xz (s : st4) : list T * nat * nat := (cells (snd s), fst (fst (fst s)), snd (fst s)).
  Lemma mulTm_l3 (X Y : list T) (col Yp x_ : nat) : forall fg fm x y zc b, x_ - x < fg -> x_ - x <= fm ->   (* for tie_a_real_mulTm *)
    gen_a_real_mulTm_loop3 O fg x_ Yp (Yp + col) X Y (cells b) x zc =
    ores rho4xz (while fm (fun '(x, _, _, _) => x <? x_) (mulTm_i T (add O) (mul O) col X Y Yp (Yp + col)) (x, y, zc, b)).
  Proof.
    intros fg fm x y zc b Hg Hm.
    refine (while_tie (fun f (s : st4) => gen_a_real_mulTm_loop3 O f x_ Yp (Yp + col) X Y (cells (snd s)) (fst (fst (fst s))) (snd (fst s)))
              _ _ rho4xz (fun s : st4 => x_ - fst (fst (fst s))) (fun _ => True) _ _ fg fm (x, y, zc, b) I Hg Hm).
    - intros f [[[x0 y0] z0] b0] _. cbn [fst snd gen_a_real_mulTm_loop3]. cond_case Ex. unfold mulTm_i.
      rewrite (mulTm_l4 X Y x0 (Yp + col) (S (Yp + col - Yp)) col Yp z0 b0) by lia.
      match goal with |- context [ores _ ?wl] => destruct wl as [[[y1 z1] b1]| |] end; cbn [ores bind fst snd]; try reflexivity.
      rewrite Nat.add_1_r. reflexivity.
    - intros [[[x0 y0] z0] b0] s' _ Ex Hb. apply Nat.ltb_lt in Ex. unfold mulTm_i in Hb. inv_res Hb. split; [exact I|lia].
  Qed.

  Lemma mulTm_l2 (X Y : list T) (row col : nat) : forall c_r fm x y zc Yp b, c_r <= fm ->   (* for tie_a_real_mulTm *)
    gen_a_real_mulTm_loop2 O c_r row col 0 X Y (cells b) Yp zc x =
    ores (fun s : nat * nat * nat * nat * nat * buf T => cells (snd s))
      (while fm (fun '(c_r, _, _, _, _, _) => negb (c_r =? 0)) (mulTm_k T (add O) (mul O) row col X Y) (c_r, x, y, zc, Yp, b)).
  Proof.
    induction c_r as [|c_r IH]; intros fm x y zc Yp b Hf.
    - destruct fm; reflexivity.
    - destruct fm as [|fm]; [lia|]. cbn [gen_a_real_mulTm_loop2 while Nat.eqb negb]. unfold mulTm_k at 1. cbv zeta.
      rewrite (mulTm_l3 X Y col Yp (x + row) (S (x + row - x)) row x y 0 b) by lia.
      match goal with |- context [ores rho4xz ?wl] => destruct wl as [[[[x1 y1] z1] b1]| |] end; cbn [ores rho4xz bind fst snd]; try reflexivity.
      cbn [Nat.sub]. rewrite ?Nat.sub_0_r. apply IH. lia.
  Qed.

  Theorem tie_a_real_mulTm : forall (c_r row col : nat) (X Y Zc : list T) (w : nat), U32 row -> U32 col ->
    gen_a_real_mulTm O c_r row col X 0 Y 0 Zc 0 = ores (@cells T) (mulTm T z (add O) (mul O) c_r row col X Y (mkbuf Zc w)).
  Proof.
    intros c_r row col X Y Zc w Hr Hc. unfold gen_a_real_mulTm, mulTm. cbv zeta. rewrite sz_mul_u32 by assumption.
    rewrite fits64_mul by assumption. cbn [Nat.add]. unfold zero_out.
    pose proof (mulTm_l1 (row * col) (S (row * col - 0)) (row * col) 0 (mkbuf Zc w) ltac:(lia) ltac:(lia)) as H. cbn [cells] in H. rewrite H. clear H.
    destruct (while (row * col) (fun '(zc, _) => zc <? row * col) (zero_cell T z) (0, mkbuf Zc w)) as [[z1 b1]| |]; cbn [ores cz bind fst snd]; try reflexivity.
    rewrite (mulTm_l2 X Y row col c_r c_r 0 0 z1 0 b1) by lia.
    match goal with |- context [while c_r ?c ?bd ?s] => destruct (while c_r c bd s) as [[[[[[r2 x2] y2] z2] Y2] b2]| |] end; reflexivity.
  Qed.
End Tie.
