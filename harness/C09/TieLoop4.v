(* All-dimensions translator tie of C09, part 4: a_real_diag, diag1, diag2 (see TieLoop1.v for the conventions).  The offset
   N * i with N = (a_size)n + 1 is checked to fit 64 bits by the generated code and wraps in the model; for U32 n it does neither
   (LoopTieLemmas.sz_diag_off).  Theorems: tie_a_real_diag / diag1 / diag2, every dimension with U32, every pair of arrays. *)
From Coq Require Import ZArith NArith List Bool Arith Lia.
From LibaV Require Import Common.NumOps C09.LinalgDefs C09.LinalgSpec C09.LinalgLemmas C09.LoopTieLemmas.
From Gen Require Import GenLoop TieLoopBase.
Import ListNotations.

Section Tie.
  Context {T : Type} (O : NumOps T).
  Local Notation z := (ofZ O 0).
  Local Notation st2 := (nat * buf T)%type.
  Definition cells2 (s : st2) : list T := cells (snd s).
  Definition cellsc (s : st2) : list T * nat := (cells (snd s), fst s).

  Lemma fits64_succ_mul n r : U32 n -> U32 r -> fits 64 ((n + 1) * r) = true.
  Proof. intros. apply fits64_lt, U32_succ_mul_64; assumption. Qed.
  Lemma fits64_succ n : U32 n -> fits 64 (n + 1) = true.
  Proof. intros H. apply fits64_lt. unfold U32 in H. lia. Qed.

  (* ------------------------------------------------------------------------------------------------ diag1, diag2 *)
  Lemma diag1_l1 (n : nat) (Ain : list T) (Hn : U32 n) : forall fg fm i b, n - i < fg -> n - i <= fm ->   (* for tie_a_real_diag1 *)
    gen_a_real_diag1_loop1 O fg n 0 0 (n + 1) Ain (cells b) i = ores cells2 (while fm (fun '(i, _) => i <? n) (diag_get T n Ain) (i, b)).
  Proof.
    intros fg fm i b Hg Hm.
    refine (while_tie (fun f (s : st2) => gen_a_real_diag1_loop1 O f n 0 0 (n + 1) Ain (cells (snd s)) (fst s)) _ _ cells2
              (fun s : st2 => n - fst s) (fun _ => True) _ _ fg fm (i, b) I Hg Hm).
    - intros f [i0 b0] _. cbn [fst snd gen_a_real_diag1_loop1]. cond_case Ei. unfold diag_get.
      rewrite sz_diag_off by u32. rewrite fits64_succ_mul by u32. sim.
    - intros [i0 b0] s' _ Ei Hbd. apply Nat.ltb_lt in Ei. unfold diag_get in Hbd. inv_body Hbd. cbn [fst snd]. split; [exact I|lia].
  Qed.
  Theorem tie_a_real_diag1 : forall (n : nat) (Ain a : list T) (w : nat), U32 n ->
    gen_a_real_diag1 O n Ain 0 a 0 = ores (@cells T) (diag1 T n Ain (mkbuf a w)).
  Proof.
    intros n Ain a w Hn. unfold gen_a_real_diag1, diag1. cbv zeta. rewrite fits64_succ by exact Hn.
    pose proof (diag1_l1 n Ain Hn (S n) n 0 (mkbuf a w) ltac:(lia) ltac:(lia)) as H. cbn [cells] in H. rewrite H. clear H.
    destruct (while n (fun '(i, _) => i <? n) (diag_get T n Ain) (0, mkbuf a w)) as [[i1 b1]| |]; reflexivity.
  Qed.

  Lemma diag2_l1 (M n : nat) (Ain : list T) (Hn : U32 n) (HM : M <= n) : forall fg fm i b, M - i < fg -> M - i <= fm ->   (* for tie_a_real_diag2 *)
    gen_a_real_diag2_loop1 O fg M 0 0 (n + 1) Ain (cells b) i = ores cells2 (while fm (fun '(i, _) => i <? M) (diag_get T n Ain) (i, b)).
  Proof.
    intros fg fm i b Hg Hm.
    refine (while_tie (fun f (s : st2) => gen_a_real_diag2_loop1 O f M 0 0 (n + 1) Ain (cells (snd s)) (fst s)) _ _ cells2
              (fun s : st2 => M - fst s) (fun _ => True) _ _ fg fm (i, b) I Hg Hm).
    - intros f [i0 b0] _. cbn [fst snd gen_a_real_diag2_loop1]. cond_case Ei. unfold diag_get.
      rewrite sz_diag_off by u32. rewrite fits64_succ_mul by u32. sim.
    - intros [i0 b0] s' _ Ei Hbd. apply Nat.ltb_lt in Ei. unfold diag_get in Hbd. inv_body Hbd. cbn [fst snd]. split; [exact I|lia].
  Qed.
  Theorem tie_a_real_diag2 : forall (m n : nat) (Ain a : list T) (w : nat), U32 m -> U32 n ->
    gen_a_real_diag2 O m n Ain 0 a 0 = ores (@cells T) (diag2 T m n Ain (mkbuf a w)).
  Proof.
    intros m n Ain a w Hm Hn. unfold gen_a_real_diag2, diag2, amin. cbv zeta. rewrite fits64_succ by exact Hn.
    set (M := if m <? n then m else n).
    assert (HM : M <= n) by (unfold M; destruct (m <? n) eqn:E0; [apply Nat.ltb_lt in E0|apply Nat.ltb_ge in E0]; lia).
    pose proof (diag2_l1 M n Ain Hn HM (S M) M 0 (mkbuf a w) ltac:(lia) ltac:(lia)) as H. cbn [cells] in H. rewrite H. clear H.
    destruct (while M (fun '(i, _) => i <? M) (diag_get T n Ain) (0, mkbuf a w)) as [[i1 b1]| |]; reflexivity.
  Qed.

  (* ------------------------------------------------------------------------------------------------ diag *)
  Lemma diag_l1 (n : nat) (ain : list T) (Hn : U32 n) : forall fg fm r b, n - r < fg -> n - r <= fm ->   (* for tie_a_real_diag *)
    gen_a_real_diag_loop1 O fg n 0 (n + 1) 0 ain (cells b) r = ores cells2 (while fm (fun '(r, _) => r <? n) (diag_set T n ain) (r, b)).
  Proof.
    intros fg fm r b Hg Hm.
    refine (while_tie (fun f (s : st2) => gen_a_real_diag_loop1 O f n 0 (n + 1) 0 ain (cells (snd s)) (fst s)) _ _ cells2
              (fun s : st2 => n - fst s) (fun _ => True) _ _ fg fm (r, b) I Hg Hm).
    - intros f [r0 b0] _. cbn [fst snd gen_a_real_diag_loop1]. cond_case Er. unfold diag_set.
      rewrite sz_diag_off by u32. unfold load, store, bind. cbn [Nat.add].
      destruct (nth_error ain r0); [|reflexivity]. rewrite fits64_succ_mul by u32. sim.
    - intros [r0 b0] s' _ Er Hbd. apply Nat.ltb_lt in Er. unfold diag_set in Hbd. inv_body Hbd. cbn [fst snd]. split; [exact I|lia].
  Qed.

  Lemma diag_l3 (r Ap : nat) (Hr : U32 r) : forall fg fm c b, r - c < fg -> r - c <= fm ->   (* for tie_a_real_diag *)
    gen_a_real_diag_loop3 O fg r Ap (cells b) c = ores cellsc (while fm (fun '(c, _) => c <? r) (diag_zero T z Ap) (c, b)).
  Proof.
    intros fg fm c b Hg Hm.
    refine (while_tie (fun f (s : st2) => gen_a_real_diag_loop3 O f r Ap (cells (snd s)) (fst s)) _ _ cellsc
              (fun s : st2 => r - fst s) (fun _ => True) _ _ fg fm (c, b) I Hg Hm).
    - intros f [c0 b0] _. cbn [fst snd gen_a_real_diag_loop3]. cond_case Ec. unfold diag_zero. sim.
    - intros [c0 b0] s' _ Ec Hbd. apply Nat.ltb_lt in Ec. unfold diag_zero in Hbd. inv_body Hbd. cbn [fst snd]. split; [exact I|lia].
  Qed.

  (* while (++c < n) A[c] = 0: the model enters with c already incremented *)
  Lemma diag_l4 (n Ap : nat) (Hn : U32 n) : forall fg fm c b, c < n -> n - S c < fg -> n - S c <= fm ->   (* for tie_a_real_diag *)
    gen_a_real_diag_loop4 O fg n Ap (cells b) c = ores cellsc (while fm (fun '(c, _) => c <? n) (diag_zero T z Ap) (S c, b)).
  Proof.
    intros fg fm c b Hc Hg Hm.
    refine (while_tie (fun f (s : st2) => match fst s with S c => gen_a_real_diag_loop4 O f n Ap (cells (snd s)) c | 0 => None end) _ _ cellsc
              (fun s : st2 => n - fst s) (fun s : st2 => 1 <= fst s <= n) _ _ fg fm (S c, b) _ Hg Hm).
    - intros f [[|c0] b0] HI; cbn [fst snd] in HI; [lia|]. cbn [fst snd gen_a_real_diag_loop4]. rewrite !Nat.add_1_r.
      rewrite fits32_U by u32. cond_case Ec. unfold diag_zero. sim.
    - intros [c0 b0] s' HI Ec Hbd. cbn [fst snd] in HI. apply Nat.ltb_lt in Ec. unfold diag_zero in Hbd. inv_body Hbd. cbn [fst snd]. split; lia.
    - cbn [fst snd]. lia.
  Qed.

  Lemma diag_l2 (n : nat) (Hn : U32 n) : forall fg fm r Ap b, n - r < fg -> n - r <= fm ->   (* for tie_a_real_diag *)
    gen_a_real_diag_loop2 O fg n (cells b) r Ap = ores cells3 (while fm (fun '(r, _, _) => r <? n) (diag_row T z n) (r, Ap, b)).
  Proof.
    intros fg fm r Ap b Hg Hm.
    refine (while_tie (fun f (s : nat * nat * buf T) => gen_a_real_diag_loop2 O f n (cells (snd s)) (fst (fst s)) (snd (fst s))) _ _ cells3
              (fun s : nat * nat * buf T => n - fst (fst s)) (fun _ => True) _ _ fg fm (r, Ap, b) I Hg Hm).
    - intros f [[r0 A0] b0] _. cbn [fst snd gen_a_real_diag_loop2]. cond_case Er. unfold diag_row.
      rewrite (diag_l3 r0 A0 ltac:(u32) (S r0) r0 0 b0) by lia.
      destruct (while r0 (fun '(c, _) => c <? r0) (diag_zero T z A0) (0, b0)) as [[c1 b1]| |] eqn:F1; cbn [ores cellsc bind fst snd]; try reflexivity.
      apply diag_zero_exit in F1; [subst c1|lia].
      rewrite (diag_l4 n A0 Hn (S (n - r0)) n r0 b1) by lia.
      destruct (while n (fun '(c, _) => c <? n) (diag_zero T z A0) (S r0, b1)) as [[c2 b2]| |]; cbn [ores cellsc bind fst snd]; try reflexivity.
      close_row.
    - intros [[r0 A0] b0] s' _ Er Hbd. apply Nat.ltb_lt in Er. unfold diag_row in Hbd. inv_res Hbd. split; [exact I|lia].
  Qed.

  Theorem tie_a_real_diag : forall (n : nat) (ain A : list T) (w : nat), U32 n ->
    gen_a_real_diag O n ain 0 A 0 = ores (@cells T) (diag T z n ain (mkbuf A w)).
  Proof.
    intros n ain A w Hn. unfold gen_a_real_diag, diag. cbv zeta. rewrite fits64_succ by exact Hn.
    pose proof (diag_l1 n ain Hn (S n) n 0 (mkbuf A w) ltac:(lia) ltac:(lia)) as H. cbn [cells] in H. rewrite H. clear H.
    destruct (while n (fun '(r, _) => r <? n) (diag_set T n ain) (0, mkbuf A w)) as [[r1 b1]| |]; cbn [ores bind]; try reflexivity. unfold cells2. cbn [fst snd].
    rewrite (diag_l2 n Hn (S n) n 0 0 b1) by lia.
    destruct (while n (fun '(r, _, _) => r <? n) (diag_row T z n) (0, 0, b1)) as [[[r2 A2] b2]| |]; reflexivity.
  Qed.
End Tie.
