(* All-dimensions translator tie of C09, part 1: a_real_T1 and a_real_T2 of src/linalg.c.
   Module Gen.GenLoop is regenerated on every run by tools/c2arr.py from the CURRENT source: every loop is a Fixpoint on fuel (nested
   loops: one Fixpoint per level, the outer calling the inner), the arrays are lists with checked access, the a_uint counters are
   nat with `++c` checked to fit 32 bits, the row-major offsets `(a_size)n * r`, `nr + c` are checked to fit 64 bits (None otherwise).
   The hand model C09/LinalgDefs.v - the one the theorems of Properties_C09.v are about - has the same loops as [while]s and computes
   the same offsets with the C's wrap-around; under the model's own hypothesis that the dimensions are a_uint values (U32) neither
   side wraps.  For EVERY NumOps instance, EVERY dimension with U32, every array of any length (too short: the model's OutOfBounds
   is the generated program's None) and any initial write count w:
       gen_a_real_T1 O n A 0 = cells of (T1 T n (mkbuf A w)),   likewise T2;
   the model's OutOfFuel never stands against a result of the generated program (each loop lemma carries the measure that bounds
   both fuels).  The loop lemmas go through C09/LoopTieLemmas.while_tie. *)
From Coq Require Import ZArith NArith List Bool Arith Lia.
From LibaV Require Import Common.NumOps C09.LinalgDefs C09.LinalgSpec C09.LinalgLemmas C09.LoopTieLemmas.
From Gen Require Import GenLoop TieLoopBase.
Import ListNotations.

Section Tie.
  Context {T : Type} (O : NumOps T).

  Lemma T1_inner_tie (n r : nat) (Hn : U32 n) (Hr : r < n) : forall fg fm c b, n - c < fg -> n - c <= fm ->   (* for tie_a_real_T1 *)
    gen_a_real_T1_loop2 O fg n 0 r (n * r) (cells b) c =
    ores (fun s : nat * buf T => (cells (snd s), fst s)) (while fm (fun '(c, _) => c <? n) (T1_inner T n r) (c, b)).
  Proof.
    intros fg fm c b Hg Hm.
    refine (while_tie (fun f (s : nat * buf T) => gen_a_real_T1_loop2 O f n 0 r (n * r) (cells (snd s)) (fst s))
             (fun '(c, _) => c <? n) (T1_inner T n r) (fun s => (cells (snd s), fst s)) (fun s => n - fst s) (fun _ => True)
             _ _ fg fm (c, b) I Hg Hm).
    - intros f [c0 b0] _. cbn [fst snd gen_a_real_T1_loop2]. destruct (c0 <? n) eqn:Ec; [|reflexivity]. apply Nat.ltb_lt in Ec.
      unfold T1_inner. sim.
    - intros [c0 b0] s' _ Ec Hb. apply Nat.ltb_lt in Ec. unfold T1_inner in Hb. inv_body Hb. cbn [fst]. split; [exact I|lia].
  Qed.

  Definition cells_of (r : res (buf T)) : option (list T) := ores (@cells T) r.

  Lemma T1_outer_tie (n : nat) (Hn : U32 n) : forall fg fm r b, n - r < fg -> n - r <= fm ->   (* for tie_a_real_T1 *)
    gen_a_real_T1_loop1 O fg n 0 (cells b) r =
    ores (fun s : nat * buf T => cells (snd s)) (while fm (fun '(r, _) => r <? n) (T1_row T n) (r, b)).
  Proof.
    intros fg fm r b Hg Hm.
    refine (while_tie (fun f (s : nat * buf T) => gen_a_real_T1_loop1 O f n 0 (cells (snd s)) (fst s))
             (fun '(r, _) => r <? n) (T1_row T n) (fun s => cells (snd s)) (fun s => n - fst s) (fun _ => True)
             _ _ fg fm (r, b) I Hg Hm).
    - intros f [r0 b0] _. cbn [fst snd gen_a_real_T1_loop1]. destruct (r0 <? n) eqn:Er; [|reflexivity]. apply Nat.ltb_lt in Er.
      unfold T1_row. rewrite (u32_inc_id r0 n Er Hn). repeat sim_step.
      rewrite (T1_inner_tie n r0 Hn Er (S (n - (r0 + 1))) n (r0 + 1) b0) by lia.
      destruct (while n (fun '(c, _) => c <? n) (T1_inner T n r0) (r0 + 1, b0)) as [[c1 b1]| |]; cbn [ores bind fst snd]; try reflexivity.
      repeat sim_step. rewrite Nat.add_1_r. reflexivity.
    - intros [r0 b0] s' _ Er Hb. apply Nat.ltb_lt in Er. unfold T1_row, bind in Hb.
      destruct (while n (fun '(c, _) => c <? n) (T1_inner T n r0) (u32_add r0 1, b0)) as [[c1 b1]| |]; try discriminate Hb.
      injection Hb as <-. cbn [fst]. split; [exact I|lia].
  Qed.

  Theorem tie_a_real_T1 : forall (n : nat) (A : list T) (w : nat), U32 n ->
    gen_a_real_T1 O n A 0 = cells_of (T1 T n (mkbuf A w)).
  Proof.
    intros n A w Hn. unfold gen_a_real_T1, T1, cells_of.
    pose proof (T1_outer_tie n Hn (S n) n 0 (mkbuf A w) ltac:(lia) ltac:(lia)) as H. cbn [cells] in H. rewrite H. clear H.
    destruct (while n (fun '(r, _) => r <? n) (T1_row T n) (0, mkbuf A w)) as [[r1 b1]| |]; reflexivity.
  Qed.

  (* ------------------------------------------------------------------------------------------------ T2 *)
  Lemma T2_inner_tie (m n c : nat) (Ain : list T) (Hm_ : U32 m) (Hn : U32 n) (Hc : c < n) : forall fg fm r b, m - r < fg -> m - r <= fm ->   (* for tie_a_real_T2 *)
    gen_a_real_T2_loop2 O fg m n 0 (m * c) 0 c Ain (cells b) r =
    ores (fun s : nat * buf T => (cells (snd s), fst s)) (while fm (fun '(r, _) => r <? m) (T2_inner T m n c Ain) (r, b)).
  Proof.
    intros fg fm r b Hg Hm.
    refine (while_tie (fun f (s : nat * buf T) => gen_a_real_T2_loop2 O f m n 0 (m * c) 0 c Ain (cells (snd s)) (fst s))
             _ _ (fun s => (cells (snd s), fst s)) (fun s => m - fst s) (fun _ => True) _ _ fg fm (r, b) I Hg Hm).
    - intros f [r0 b0] _. cbn [fst snd gen_a_real_T2_loop2]. cond_case Er. unfold T2_inner. sim.
    - intros [r0 b0] s' _ Er Hb. apply Nat.ltb_lt in Er. unfold T2_inner in Hb. inv_body Hb. cbn [fst]. split; [exact I|lia].
  Qed.

  Lemma T2_outer_tie (m n : nat) (Ain : list T) (Hm_ : U32 m) (Hn : U32 n) : forall fg fm c b, n - c < fg -> n - c <= fm ->   (* for tie_a_real_T2 *)
    gen_a_real_T2_loop1 O fg n m 0 0 Ain (cells b) c =
    ores (fun s : nat * buf T => cells (snd s)) (while fm (fun '(c, _) => c <? n) (T2_col T m n Ain) (c, b)).
  Proof.
    intros fg fm c b Hg Hm.
    refine (while_tie (fun f (s : nat * buf T) => gen_a_real_T2_loop1 O f n m 0 0 Ain (cells (snd s)) (fst s))
             _ _ (fun s => cells (snd s)) (fun s => n - fst s) (fun _ => True) _ _ fg fm (c, b) I Hg Hm).
    - intros f [c0 b0] _. cbn [fst snd gen_a_real_T2_loop1]. cond_case Ec. unfold T2_col. repeat sim_step.
      rewrite (T2_inner_tie m n c0 Ain Hm_ Hn Ec (S m) m 0 b0) by lia.
      destruct (while m (fun '(r, _) => r <? m) (T2_inner T m n c0 Ain) (0, b0)) as [[r1 b1]| |]; cbn [ores bind fst snd]; try reflexivity.
      repeat sim_step. rewrite Nat.add_1_r. reflexivity.
    - intros [c0 b0] s' _ Ec Hb. apply Nat.ltb_lt in Ec. unfold T2_col in Hb. inv_res Hb. split; [exact I|lia].
  Qed.

  Theorem tie_a_real_T2 : forall (m n : nat) (Ain Tb : list T) (w : nat), U32 m -> U32 n ->
    gen_a_real_T2 O m n Ain 0 Tb 0 = cells_of (T2 T m n Ain (mkbuf Tb w)).
  Proof.
    intros m n Ain Tb w Hm Hn. unfold gen_a_real_T2, T2, cells_of.
    pose proof (T2_outer_tie m n Ain Hm Hn (S n) n 0 (mkbuf Tb w) ltac:(lia) ltac:(lia)) as H. cbn [cells] in H. rewrite H. clear H.
    destruct (while n (fun '(c, _) => c <? n) (T2_col T m n Ain) (0, mkbuf Tb w)) as [[c1 b1]| |]; reflexivity.
  Qed.
End Tie.
