(* All-dimensions translator tie of C09, part 3: the triangle extractors a_real_triL, triL1, triL2, triU, triU1, triU2 (see
   TieLoop1.v for the conventions; the input matrix is a second array read at the moving row offset).  Theorems:
   tie_a_real_triL / triL1 / triL2 / triU / triU1 / triU2, every dimension with U32, every pair of arrays.
   (The uniform loop lemmas of this file were written out by a script once; the file is maintained as it stands.) *)
From Coq Require Import ZArith NArith List Bool Arith Lia.
From LibaV Require Import Common.NumOps C09.LinalgDefs C09.LinalgSpec C09.LinalgLemmas C09.LoopTieLemmas.
From Gen Require Import GenLoop TieLoopBase.
Import ListNotations.

Section Tie.
  Context {T : Type} (O : NumOps T).
  Local Notation z := (ofZ O 0).
  Local Notation o := (ofZ O 1).
  Local Notation st4 := (nat * nat * nat * buf T)%type.
  Definition cells4 (s : st4) : list T := cells (snd s).
  Definition cellsLA (s : st4) : list T * nat * nat := (cells (snd s), snd (fst s), snd (fst (fst s))).
  Definition cellsL (s : st4) : list T * nat := (cells (snd s), snd (fst s)).

  (* ------------------------------------------------------------------------------------------------ triL *)
  Lemma triL_l2 (r Ap : nat) (Ain : list T) (Hr : U32 (S r)) : forall fg fm c E b, S r - c < fg -> S r - c <= fm ->   (* for tie_a_real_triL *)
    gen_a_real_triL_loop2 O fg r Ap Ain (cells b) c E = ores rho3 (fillc T fm (fun c => c <=? r) (fun c => load T Ain (Ap + c)) (c, E, b)).
  Proof. fill_tie (@gen_a_real_triL_loop2) (fun f (s : nat * nat * buf T) => gen_a_real_triL_loop2 O f r Ap Ain (cells (snd s)) (fst (fst s)) (snd (fst s))) (fun s : nat * nat * buf T => S r - fst (fst s)). Qed.
  Lemma triL_l3 (n : nat) (Hn : U32 n) : forall fg fm c E b, n - c < fg -> n - c <= fm ->   (* for tie_a_real_triL *)
    gen_a_real_triL_loop3 O fg n (cells b) c E = ores rho3 (fillc T fm (fun c => c <? n) (fun _ => Ok z) (c, E, b)).
  Proof. fill_tie (@gen_a_real_triL_loop3) (fun f (s : nat * nat * buf T) => gen_a_real_triL_loop3 O f n (cells (snd s)) (fst (fst s)) (snd (fst s))) (fun s : nat * nat * buf T => n - fst (fst s)). Qed.

  Lemma triL_l1 ( n : nat) (Ain : list T) (Hn : U32 n) (Hb : n <= n) : forall fg fm r A L b, n - r < fg -> n - r <= fm ->   (* for tie_a_real_triL *)
    gen_a_real_triL_loop1 O fg n Ain (cells b) r L A = ores cells4 (while fm (fun '(r, _, _, _) => r <? n) (triL_row T z n Ain) (r, A, L, b)).
  Proof.
    intros fg fm r A L b Hg Hm.
    refine (while_tie (fun f (s : st4) => gen_a_real_triL_loop1 O f n Ain (cells (snd s)) (fst (fst (fst s))) (snd (fst s)) (snd (fst (fst s)))) _ _ cells4 (fun s : st4 => n - fst (fst (fst s)))
              (fun _ => True) _ _ fg fm (r, A, L, b) I Hg Hm).
    - intros f [[[r0 A0] L0] b0] _. cbn [fst snd gen_a_real_triL_loop1]. cond_case Er. unfold triL_row.
      use_fill (triL_l2 r0 A0 Ain ltac:(u32) (S (S r0)) (S r0) 0 L0 b0 ltac:(lia) ltac:(lia)) c1 E1 b1 F1.
      apply fillc_le_exit in F1; [subst c1|lia].
      use_fill (triL_l3 n Hn (S (n - S r0)) n (S r0) E1 b1 ltac:(lia) ltac:(lia)) c2 E2 b2 F2.
      close_row.
    - intros [[[r0 A0] L0] b0] s' _ Er Hbd. apply Nat.ltb_lt in Er. unfold triL_row in Hbd. inv_res Hbd. split; [exact I|lia].
  Qed.

  Theorem tie_a_real_triL : forall (n : nat) (Ain L : list T) (w : nat), U32 n ->
    gen_a_real_triL O n Ain 0 L 0 = ores (@cells T) (triL T z n Ain (mkbuf L w)).
  Proof.
    intros n Ain L w Hn. unfold gen_a_real_triL, triL.
    pose proof (triL_l1 n Ain Hn (le_n n) (S n) n 0 0 0 (mkbuf L w) ltac:(lia) ltac:(lia)) as H. cbn [cells] in H. rewrite H. clear H.
    destruct (while n (fun '(r, _, _, _) => r <? n) (triL_row T z n Ain) (0, 0, 0, mkbuf L w)) as [[[[r1 A1] L1] b1]| |]; reflexivity.
  Qed.

  (* ------------------------------------------------------------------------------------------------ triL2 *)
  Lemma triL2_l2 (r Ap : nat) (Ain : list T) (Hr : U32 (S r)) : forall fg fm c E b, S r - c < fg -> S r - c <= fm ->   (* for tie_a_real_triL2 *)
    gen_a_real_triL2_loop2 O fg r Ap Ain (cells b) c E = ores rho3 (fillc T fm (fun c => c <=? r) (fun c => load T Ain (Ap + c)) (c, E, b)).
  Proof. fill_tie (@gen_a_real_triL2_loop2) (fun f (s : nat * nat * buf T) => gen_a_real_triL2_loop2 O f r Ap Ain (cells (snd s)) (fst (fst s)) (snd (fst s))) (fun s : nat * nat * buf T => S r - fst (fst s)). Qed.
  Lemma triL2_l3 (n : nat) (Hn : U32 n) : forall fg fm c E b, n - c < fg -> n - c <= fm ->   (* for tie_a_real_triL2 *)
    gen_a_real_triL2_loop3 O fg n (cells b) c E = ores rho3 (fillc T fm (fun c => c <? n) (fun _ => Ok z) (c, E, b)).
  Proof. fill_tie (@gen_a_real_triL2_loop3) (fun f (s : nat * nat * buf T) => gen_a_real_triL2_loop3 O f n (cells (snd s)) (fst (fst s)) (snd (fst s))) (fun s : nat * nat * buf T => n - fst (fst s)). Qed.

  Lemma triL2_l1 (M n : nat) (Ain : list T) (Hn : U32 n) (Hb : M <= n) : forall fg fm r A L b, M - r < fg -> M - r <= fm ->   (* for tie_a_real_triL2 *)
    gen_a_real_triL2_loop1 O fg M n Ain (cells b) r L A = ores cellsLA (while fm (fun '(r, _, _, _) => r <? M) (triL_row T z n Ain) (r, A, L, b)).
  Proof.
    intros fg fm r A L b Hg Hm.
    refine (while_tie (fun f (s : st4) => gen_a_real_triL2_loop1 O f M n Ain (cells (snd s)) (fst (fst (fst s))) (snd (fst s)) (snd (fst (fst s)))) _ _ cellsLA (fun s : st4 => M - fst (fst (fst s)))
              (fun _ => True) _ _ fg fm (r, A, L, b) I Hg Hm).
    - intros f [[[r0 A0] L0] b0] _. cbn [fst snd gen_a_real_triL2_loop1]. cond_case Er. unfold triL_row.
      use_fill (triL2_l2 r0 A0 Ain ltac:(u32) (S (S r0)) (S r0) 0 L0 b0 ltac:(lia) ltac:(lia)) c1 E1 b1 F1.
      apply fillc_le_exit in F1; [subst c1|lia].
      use_fill (triL2_l3 n Hn (S (n - S r0)) n (S r0) E1 b1 ltac:(lia) ltac:(lia)) c2 E2 b2 F2.
      close_row.
    - intros [[[r0 A0] L0] b0] s' _ Er Hbd. apply Nat.ltb_lt in Er. unfold triL_row in Hbd. inv_res Hbd. split; [exact I|lia].
  Qed.

  (* for (c = 0; c < n; ++c) *L++ = *A++;   state (c, A, L, b) *)
  Lemma triL2_l5 (n : nat) (Ain : list T) (Hn : U32 n) : forall fg fm c A L b, n - c < fg -> n - c <= fm ->   (* for tie_a_real_triL2 *)
    gen_a_real_triL2_loop5 O fg n Ain (cells b) c L A =
    ores (fun s : st4 => (cells (snd s), fst (fst (fst s)), snd (fst s), snd (fst (fst s)))) (while fm (fun '(c, _, _, _) => c <? n) (copy_cell T Ain) (c, A, L, b)).
  Proof.
    intros fg fm c A L b Hg Hm.
    refine (while_tie (fun f (s : st4) => gen_a_real_triL2_loop5 O f n Ain (cells (snd s)) (fst (fst (fst s))) (snd (fst s)) (snd (fst (fst s)))) _ _ _
              (fun s : st4 => n - fst (fst (fst s))) (fun _ => True) _ _ fg fm (c, A, L, b) I Hg Hm).
    - intros f [[[c0 A0] L0] b0] _. cbn [fst snd gen_a_real_triL2_loop5]. cond_case Ec. unfold copy_cell. sim.
    - intros [[[c0 A0] L0] b0] s' _ Ec Hbd. apply Nat.ltb_lt in Ec. unfold copy_cell in Hbd. inv_body Hbd. cbn [fst snd]. split; [exact I|lia].
  Qed.

  Lemma triL2_l4 (m n : nat) (Ain : list T) (Hm_ : U32 m) (Hn : U32 n) : forall fg fm r A L b, m - r < fg -> m - r <= fm ->   (* for tie_a_real_triL2 *)
    gen_a_real_triL2_loop4 O fg m n Ain (cells b) r L A = ores cells4 (while fm (fun '(r, _, _, _) => r <? m) (copy_row T n Ain) (r, A, L, b)).
  Proof.
    intros fg fm r A L b Hg Hm.
    refine (while_tie (fun f (s : st4) => gen_a_real_triL2_loop4 O f m n Ain (cells (snd s)) (fst (fst (fst s))) (snd (fst s)) (snd (fst (fst s)))) _ _ cells4
              (fun s : st4 => m - fst (fst (fst s))) (fun _ => True) _ _ fg fm (r, A, L, b) I Hg Hm).
    - intros f [[[r0 A0] L0] b0] _. cbn [fst snd gen_a_real_triL2_loop4]. cond_case Er. unfold copy_row.
      pose proof (triL2_l5 n Ain Hn (S n) n 0 A0 L0 b0 ltac:(lia) ltac:(lia)) as h. rewrite h. clear h.
      match goal with |- context [while n ?c ?bd ?s] => destruct (while n c bd s) as [[[[c1 A1] L1] b1]| |] end; cbn [ores bind fst snd]; try reflexivity.
      close_row.
    - intros [[[r0 A0] L0] b0] s' _ Er Hbd. apply Nat.ltb_lt in Er. unfold copy_row in Hbd. inv_res Hbd. split; [exact I|lia].
  Qed.

  Theorem tie_a_real_triL2 : forall (m n : nat) (Ain L : list T) (w : nat), U32 m -> U32 n ->
    gen_a_real_triL2 O m n Ain 0 L 0 = ores (@cells T) (triL2 T z m n Ain (mkbuf L w)).
  Proof.
    intros m n Ain L w Hm Hn. unfold gen_a_real_triL2, triL2, amin. cbv zeta.
    set (M := if m <? n then m else n).
    assert (HM : M <= n /\ M <= m) by (unfold M; destruct (m <? n) eqn:E0; [apply Nat.ltb_lt in E0|apply Nat.ltb_ge in E0]; lia).
    pose proof (triL2_l1 M n Ain Hn (proj1 HM) (S M) M 0 0 0 (mkbuf L w) ltac:(lia) ltac:(lia)) as H. cbn [cells] in H. rewrite H. clear H.
    destruct (while M (fun '(r, _, _, _) => r <? M) (triL_row T z n Ain) (0, 0, 0, mkbuf L w)) as [[[[r1 A1] L1] b1]| |]; cbn [ores cellsLA bind fst snd]; try reflexivity.
    rewrite (triL2_l4 m n Ain Hm Hn (S (m - n)) m n A1 L1 b1) by lia.
    match goal with |- context [while m ?c ?bd ?s] => destruct (while m c bd s) as [[[[r2 A2] L2] b2]| |] end; reflexivity.
  Qed.

  (* ------------------------------------------------------------------------------------------------ triL1 *)
  Lemma triL1_l2 (r Ap : nat) (Ain : list T) (Hr : U32 r) : forall fg fm c E b, r - c < fg -> r - c <= fm ->   (* for tie_a_real_triL1 *)
    gen_a_real_triL1_loop2 O fg r Ap Ain (cells b) c E = ores rho3 (fillc T fm (fun c => c <? r) (fun c => load T Ain (Ap + c)) (c, E, b)).
  Proof. fill_tie (@gen_a_real_triL1_loop2) (fun f (s : nat * nat * buf T) => gen_a_real_triL1_loop2 O f r Ap Ain (cells (snd s)) (fst (fst s)) (snd (fst s))) (fun s : nat * nat * buf T => r - fst (fst s)). Qed.
  Lemma triL1_l3 (n : nat) (Hn : U32 n) : forall fg fm c E b, c < n -> n - S c < fg -> n - S c <= fm ->   (* for tie_a_real_triL1 *)
    gen_a_real_triL1_loop3 O fg n (cells b) c E = ores rho3 (fillc T fm (fun c => c <? n) (fun _ => Ok z) (S c, E, b)).
  Proof.
    fillpre_tie (@gen_a_real_triL1_loop3)
      (fun f (s : nat * nat * buf T) => match fst (fst s) with S c => gen_a_real_triL1_loop3 O f n (cells (snd s)) c (snd (fst s)) | 0 => None end)
      (fun s : nat * nat * buf T => n - fst (fst s)) (fun s : nat * nat * buf T => 1 <= fst (fst s) <= n).
  Qed.

  Lemma triL1_l1 ( n : nat) (Ain : list T) (Hn : U32 n) (Hb : n <= n) : forall fg fm r A L b, n - r < fg -> n - r <= fm ->   (* for tie_a_real_triL1 *)
    gen_a_real_triL1_loop1 O fg n Ain (cells b) r L A = ores cells4 (while fm (fun '(r, _, _, _) => r <? n) (triL1_row T z o n Ain) (r, A, L, b)).
  Proof.
    intros fg fm r A L b Hg Hm.
    refine (while_tie (fun f (s : st4) => gen_a_real_triL1_loop1 O f n Ain (cells (snd s)) (fst (fst (fst s))) (snd (fst s)) (snd (fst (fst s)))) _ _ cells4 (fun s : st4 => n - fst (fst (fst s)))
              (fun _ => True) _ _ fg fm (r, A, L, b) I Hg Hm).
    - intros f [[[r0 A0] L0] b0] _. cbn [fst snd gen_a_real_triL1_loop1]. cond_case Er. unfold triL1_row.
      use_fill (triL1_l2 r0 A0 Ain ltac:(u32) (S r0) r0 0 L0 b0 ltac:(lia) ltac:(lia)) c1 E1 b1 F1.
      apply fillc_lt_exit in F1; [subst c1|lia].
      unfold store. repeat sim_step; try reflexivity. rewrite Nat.add_1_r.
      match goal with |- context [gen_a_real_triL1_loop3 O _ n ?l r0 (S E1)] =>
        use_fill (triL1_l3 n Hn (S (n - r0)) n r0 (S E1) (mkbuf l (S (nwr b1))) ltac:(lia) ltac:(lia) ltac:(lia)) c2 E2 b2 F2 end.
      close_row.
    - intros [[[r0 A0] L0] b0] s' _ Er Hbd. apply Nat.ltb_lt in Er. unfold triL1_row in Hbd. inv_res Hbd. split; [exact I|lia].
  Qed.

  Theorem tie_a_real_triL1 : forall (n : nat) (Ain L : list T) (w : nat), U32 n ->
    gen_a_real_triL1 O n Ain 0 L 0 = ores (@cells T) (triL1 T z o n Ain (mkbuf L w)).
  Proof.
    intros n Ain L w Hn. unfold gen_a_real_triL1, triL1.
    pose proof (triL1_l1 n Ain Hn (le_n n) (S n) n 0 0 0 (mkbuf L w) ltac:(lia) ltac:(lia)) as H. cbn [cells] in H. rewrite H. clear H.
    destruct (while n (fun '(r, _, _, _) => r <? n) (triL1_row T z o n Ain) (0, 0, 0, mkbuf L w)) as [[[[r1 A1] L1] b1]| |]; reflexivity.
  Qed.

  (* ------------------------------------------------------------------------------------------------ triU *)
  Lemma triU_l2 (r : nat) (Hr : U32 r) : forall fg fm c E b, r - c < fg -> r - c <= fm ->   (* for tie_a_real_triU *)
    gen_a_real_triU_loop2 O fg r (cells b) c E = ores rho3 (fillc T fm (fun c => c <? r) (fun _ => Ok z) (c, E, b)).
  Proof. fill_tie (@gen_a_real_triU_loop2) (fun f (s : nat * nat * buf T) => gen_a_real_triU_loop2 O f r (cells (snd s)) (fst (fst s)) (snd (fst s))) (fun s : nat * nat * buf T => r - fst (fst s)). Qed.
  Lemma triU_l3 (n Ap : nat) (Ain : list T) (Hn : U32 n) : forall fg fm c E b, n - c < fg -> n - c <= fm ->   (* for tie_a_real_triU *)
    gen_a_real_triU_loop3 O fg n Ap Ain (cells b) c E = ores rho3 (fillc T fm (fun c => c <? n) (fun c => load T Ain (Ap + c)) (c, E, b)).
  Proof. fill_tie (@gen_a_real_triU_loop3) (fun f (s : nat * nat * buf T) => gen_a_real_triU_loop3 O f n Ap Ain (cells (snd s)) (fst (fst s)) (snd (fst s))) (fun s : nat * nat * buf T => n - fst (fst s)). Qed.

  Lemma triU_l1 ( n : nat) (Ain : list T) (Hn : U32 n) (Hb : n <= n) : forall fg fm r A L b, n - r < fg -> n - r <= fm ->   (* for tie_a_real_triU *)
    gen_a_real_triU_loop1 O fg n Ain (cells b) r L A = ores cells4 (while fm (fun '(r, _, _, _) => r <? n) (triU_row T z n Ain) (r, A, L, b)).
  Proof.
    intros fg fm r A L b Hg Hm.
    refine (while_tie (fun f (s : st4) => gen_a_real_triU_loop1 O f n Ain (cells (snd s)) (fst (fst (fst s))) (snd (fst s)) (snd (fst (fst s)))) _ _ cells4 (fun s : st4 => n - fst (fst (fst s)))
              (fun _ => True) _ _ fg fm (r, A, L, b) I Hg Hm).
    - intros f [[[r0 A0] L0] b0] _. cbn [fst snd gen_a_real_triU_loop1]. cond_case Er. unfold triU_row.
      use_fill (triU_l2 r0 ltac:(u32) (S r0) r0 0 L0 b0 ltac:(lia) ltac:(lia)) c1 E1 b1 F1.
      apply fillc_lt_exit in F1; [subst c1|lia].
      use_fill (triU_l3 n A0 Ain Hn (S (n - r0)) n r0 E1 b1 ltac:(lia) ltac:(lia)) c2 E2 b2 F2.
      close_row.
    - intros [[[r0 A0] L0] b0] s' _ Er Hbd. apply Nat.ltb_lt in Er. unfold triU_row in Hbd. inv_res Hbd. split; [exact I|lia].
  Qed.

  Theorem tie_a_real_triU : forall (n : nat) (Ain L : list T) (w : nat), U32 n ->
    gen_a_real_triU O n Ain 0 L 0 = ores (@cells T) (triU T z n Ain (mkbuf L w)).
  Proof.
    intros n Ain L w Hn. unfold gen_a_real_triU, triU.
    pose proof (triU_l1 n Ain Hn (le_n n) (S n) n 0 0 0 (mkbuf L w) ltac:(lia) ltac:(lia)) as H. cbn [cells] in H. rewrite H. clear H.
    destruct (while n (fun '(r, _, _, _) => r <? n) (triU_row T z n Ain) (0, 0, 0, mkbuf L w)) as [[[[r1 A1] L1] b1]| |]; reflexivity.
  Qed.

  (* ------------------------------------------------------------------------------------------------ triU2 *)
  Lemma triU2_l2 (r : nat) (Hr : U32 r) : forall fg fm c E b, r - c < fg -> r - c <= fm ->   (* for tie_a_real_triU2 *)
    gen_a_real_triU2_loop2 O fg r (cells b) c E = ores rho3 (fillc T fm (fun c => c <? r) (fun _ => Ok z) (c, E, b)).
  Proof. fill_tie (@gen_a_real_triU2_loop2) (fun f (s : nat * nat * buf T) => gen_a_real_triU2_loop2 O f r (cells (snd s)) (fst (fst s)) (snd (fst s))) (fun s : nat * nat * buf T => r - fst (fst s)). Qed.
  Lemma triU2_l3 (n Ap : nat) (Ain : list T) (Hn : U32 n) : forall fg fm c E b, n - c < fg -> n - c <= fm ->   (* for tie_a_real_triU2 *)
    gen_a_real_triU2_loop3 O fg n Ap Ain (cells b) c E = ores rho3 (fillc T fm (fun c => c <? n) (fun c => load T Ain (Ap + c)) (c, E, b)).
  Proof. fill_tie (@gen_a_real_triU2_loop3) (fun f (s : nat * nat * buf T) => gen_a_real_triU2_loop3 O f n Ap Ain (cells (snd s)) (fst (fst s)) (snd (fst s))) (fun s : nat * nat * buf T => n - fst (fst s)). Qed.

  Lemma triU2_l1 (M n : nat) (Ain : list T) (Hn : U32 n) (Hb : M <= n) : forall fg fm r A L b, M - r < fg -> M - r <= fm ->   (* for tie_a_real_triU2 *)
    gen_a_real_triU2_loop1 O fg M n Ain (cells b) r L A = ores cellsL (while fm (fun '(r, _, _, _) => r <? M) (triU_row T z n Ain) (r, A, L, b)).
  Proof.
    intros fg fm r A L b Hg Hm.
    refine (while_tie (fun f (s : st4) => gen_a_real_triU2_loop1 O f M n Ain (cells (snd s)) (fst (fst (fst s))) (snd (fst s)) (snd (fst (fst s)))) _ _ cellsL (fun s : st4 => M - fst (fst (fst s)))
              (fun _ => True) _ _ fg fm (r, A, L, b) I Hg Hm).
    - intros f [[[r0 A0] L0] b0] _. cbn [fst snd gen_a_real_triU2_loop1]. cond_case Er. unfold triU_row.
      use_fill (triU2_l2 r0 ltac:(u32) (S r0) r0 0 L0 b0 ltac:(lia) ltac:(lia)) c1 E1 b1 F1.
      apply fillc_lt_exit in F1; [subst c1|lia].
      use_fill (triU2_l3 n A0 Ain Hn (S (n - r0)) n r0 E1 b1 ltac:(lia) ltac:(lia)) c2 E2 b2 F2.
      close_row.
    - intros [[[r0 A0] L0] b0] s' _ Er Hbd. apply Nat.ltb_lt in Er. unfold triU_row in Hbd. inv_res Hbd. split; [exact I|lia].
  Qed.
  Lemma triU2_l5 (n : nat) (Hn : U32 n) : forall fg fm c E b, n - c < fg -> n - c <= fm ->   (* for tie_a_real_triU2 *)
    gen_a_real_triU2_loop5 O fg n (cells b) c E = ores rho3 (fillc T fm (fun c => c <? n) (fun _ => Ok z) (c, E, b)).
  Proof. fill_tie (@gen_a_real_triU2_loop5) (fun f (s : nat * nat * buf T) => gen_a_real_triU2_loop5 O f n (cells (snd s)) (fst (fst s)) (snd (fst s))) (fun s : nat * nat * buf T => n - fst (fst s)). Qed.

  Lemma triU2_l4 (m n : nat) (Hm_ : U32 m) (Hn : U32 n) : forall fg fm r E b, m - r < fg -> m - r <= fm ->   (* for tie_a_real_triU2 *)
    gen_a_real_triU2_loop4 O fg m n (cells b) r E = ores cells3 (while fm (fun '(r, _, _) => r <? m) (const_row T n z) (r, E, b)).
  Proof.
    intros fg fm r E b Hg Hm.
    refine (while_tie (fun f (s : nat * nat * buf T) => gen_a_real_triU2_loop4 O f m n (cells (snd s)) (fst (fst s)) (snd (fst s))) _ _ cells3
              (fun s : nat * nat * buf T => m - fst (fst s)) (fun _ => True) _ _ fg fm (r, E, b) I Hg Hm).
    - intros f [[r0 E0] b0] _. cbn [fst snd gen_a_real_triU2_loop4]. cond_case Er. unfold const_row.
      use_fill (triU2_l5 n Hn (S n) n 0 E0 b0 ltac:(lia) ltac:(lia)) c1 E1 b1 F1.
      close_row.
    - intros [[r0 E0] b0] s' _ Er Hbd. apply Nat.ltb_lt in Er. unfold const_row in Hbd. inv_res Hbd. split; [exact I|lia].
  Qed.

  Theorem tie_a_real_triU2 : forall (m n : nat) (Ain U : list T) (w : nat), U32 m -> U32 n ->
    gen_a_real_triU2 O m n Ain 0 U 0 = ores (@cells T) (triU2 T z m n Ain (mkbuf U w)).
  Proof.
    intros m n Ain U w Hm Hn. unfold gen_a_real_triU2, triU2, amin. cbv zeta.
    set (M := if m <? n then m else n).
    assert (HM : M <= n /\ M <= m) by (unfold M; destruct (m <? n) eqn:E0; [apply Nat.ltb_lt in E0|apply Nat.ltb_ge in E0]; lia).
    pose proof (triU2_l1 M n Ain Hn (proj1 HM) (S M) M 0 0 0 (mkbuf U w) ltac:(lia) ltac:(lia)) as H. cbn [cells] in H. rewrite H. clear H.
    destruct (while M (fun '(r, _, _, _) => r <? M) (triU_row T z n Ain) (0, 0, 0, mkbuf U w)) as [[[[r1 A1] L1] b1]| |]; cbn [ores cellsL bind fst snd]; try reflexivity.
    rewrite (triU2_l4 m n Hm Hn (S (m - n)) m n L1 b1) by lia.
    match goal with |- context [while m ?c ?bd ?s] => destruct (while m c bd s) as [[[r2 E2] b2]| |] end; reflexivity.
  Qed.

  (* ------------------------------------------------------------------------------------------------ triU1 *)
  Lemma triU1_l2 (r : nat) (Hr : U32 r) : forall fg fm c E b, r - c < fg -> r - c <= fm ->   (* for tie_a_real_triU1 *)
    gen_a_real_triU1_loop2 O fg r (cells b) c E = ores rho3 (fillc T fm (fun c => c <? r) (fun _ => Ok z) (c, E, b)).
  Proof. fill_tie (@gen_a_real_triU1_loop2) (fun f (s : nat * nat * buf T) => gen_a_real_triU1_loop2 O f r (cells (snd s)) (fst (fst s)) (snd (fst s))) (fun s : nat * nat * buf T => r - fst (fst s)). Qed.
  Lemma triU1_l3 (n Ap : nat) (Ain : list T) (Hn : U32 n) : forall fg fm c E b, c < n -> n - S c < fg -> n - S c <= fm ->   (* for tie_a_real_triU1 *)
    gen_a_real_triU1_loop3 O fg n Ap Ain (cells b) c E = ores rho3 (fillc T fm (fun c => c <? n) (fun c => load T Ain (Ap + c)) (S c, E, b)).
  Proof.
    fillpre_tie (@gen_a_real_triU1_loop3)
      (fun f (s : nat * nat * buf T) => match fst (fst s) with S c => gen_a_real_triU1_loop3 O f n Ap Ain (cells (snd s)) c (snd (fst s)) | 0 => None end)
      (fun s : nat * nat * buf T => n - fst (fst s)) (fun s : nat * nat * buf T => 1 <= fst (fst s) <= n).
  Qed.

  Lemma triU1_l1 ( n : nat) (Ain : list T) (Hn : U32 n) (Hb : n <= n) : forall fg fm r A L b, n - r < fg -> n - r <= fm ->   (* for tie_a_real_triU1 *)
    gen_a_real_triU1_loop1 O fg n Ain (cells b) r L A = ores cells4 (while fm (fun '(r, _, _, _) => r <? n) (triU1_row T z o n Ain) (r, A, L, b)).
  Proof.
    intros fg fm r A L b Hg Hm.
    refine (while_tie (fun f (s : st4) => gen_a_real_triU1_loop1 O f n Ain (cells (snd s)) (fst (fst (fst s))) (snd (fst s)) (snd (fst (fst s)))) _ _ cells4 (fun s : st4 => n - fst (fst (fst s)))
              (fun _ => True) _ _ fg fm (r, A, L, b) I Hg Hm).
    - intros f [[[r0 A0] L0] b0] _. cbn [fst snd gen_a_real_triU1_loop1]. cond_case Er. unfold triU1_row.
      use_fill (triU1_l2 r0 ltac:(u32) (S r0) r0 0 L0 b0 ltac:(lia) ltac:(lia)) c1 E1 b1 F1.
      apply fillc_lt_exit in F1; [subst c1|lia].
      unfold store. repeat sim_step; try reflexivity. rewrite Nat.add_1_r.
      match goal with |- context [gen_a_real_triU1_loop3 O _ n A0 Ain ?l r0 (S E1)] =>
        use_fill (triU1_l3 n A0 Ain Hn (S (n - r0)) n r0 (S E1) (mkbuf l (S (nwr b1))) ltac:(lia) ltac:(lia) ltac:(lia)) c2 E2 b2 F2 end.
      close_row.
    - intros [[[r0 A0] L0] b0] s' _ Er Hbd. apply Nat.ltb_lt in Er. unfold triU1_row in Hbd. inv_res Hbd. split; [exact I|lia].
  Qed.

  Theorem tie_a_real_triU1 : forall (n : nat) (Ain L : list T) (w : nat), U32 n ->
    gen_a_real_triU1 O n Ain 0 L 0 = ores (@cells T) (triU1 T z o n Ain (mkbuf L w)).
  Proof.
    intros n Ain L w Hn. unfold gen_a_real_triU1, triU1.
    pose proof (triU1_l1 n Ain Hn (le_n n) (S n) n 0 0 0 (mkbuf L w) ltac:(lia) ltac:(lia)) as H. cbn [cells] in H. rewrite H. clear H.
    destruct (while n (fun '(r, _, _, _) => r <? n) (triU1_row T z o n Ain) (0, 0, 0, mkbuf L w)) as [[[[r1 A1] L1] b1]| |]; reflexivity.
  Qed.
End Tie.
