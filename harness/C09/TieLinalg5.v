(* GENERATED ONCE by harness/C09/mk_tie.py and committed: tie between the UNROLLED translation of src/linalg.c (module
   Gen.GenLinalg, regenerated on every run by tools/c2coq.py with the dimensions fixed and the arrays exactly sized - a read or
   write outside an array is a translation error) and the hand model C09/LinalgDefs.v.  For every routine and every shape
   with all dimensions in 0..3: for ALL array contents and EVERY NumOps instance the model's run returns exactly the cells the
   translated C computes, operation for operation (both sides reduce to the same term).  The theorems of Properties_C09.v
   then speak about every dimension; these statements pin the model to the code on the small shapes. *)
From Coq Require Import ZArith List.
From LibaV Require Import Common.NumOps C09.LinalgDefs.
From Gen Require Import GenLinalg.
Import ListNotations.

Section Tie.
  Context {T : Type} (O : NumOps T).
  Local Notation run := (LinalgDefs.run T (ofZ O 0) (ofZ O 1) (add O) (mul O)).

  Theorem tie_T2_0x0 : exists w,
    run OpT2 0 0 0 [] [] [] =
    Ok ([], w).
  Proof. intros. eexists. cbv. reflexivity. Qed.

  Theorem tie_T2_2x0 : exists w,
    run OpT2 2 0 0 [] [] [] =
    Ok ([], w).
  Proof. intros. eexists. cbv. reflexivity. Qed.

  Theorem tie_eye1_0 : exists w,
    run OpEye1 0 0 0 [] [] [] =
    Ok ([], w).
  Proof. intros. eexists. cbv. reflexivity. Qed.

  Theorem tie_eye2_1x0 : exists w,
    run OpEye2 1 0 0 [] [] [] =
    Ok ([], w).
  Proof. intros. eexists. cbv. reflexivity. Qed.

  Theorem tie_eye2_3x0 : exists w,
    run OpEye2 3 0 0 [] [] [] =
    Ok ([], w).
  Proof. intros. eexists. cbv. reflexivity. Qed.

  Theorem tie_tri2_0x0 : exists w,
    run OpTri2 0 0 0 [] [] [] =
    Ok ([], w).
  Proof. intros. eexists. cbv. reflexivity. Qed.

  Theorem tie_tri2_2x0 : exists w,
    run OpTri2 2 0 0 [] [] [] =
    Ok ([], w).
  Proof. intros. eexists. cbv. reflexivity. Qed.

  Theorem tie_diag_0 : exists w,
    run OpDiag 0 0 0 [] [] [] =
    Ok ([], w).
  Proof. intros. eexists. cbv. reflexivity. Qed.

  Theorem tie_diag2_0x0 : exists w,
    run OpDiag2 0 0 0 [] [] [] =
    Ok ([], w).
  Proof. intros. eexists. cbv. reflexivity. Qed.

  Theorem tie_diag2_2x0 : exists w,
    run OpDiag2 2 0 0 [] [] [] =
    Ok ([], w).
  Proof. intros. eexists. cbv. reflexivity. Qed.

  Theorem tie_triL_0 : exists w,
    run OpTriL 0 0 0 [] [] [] =
    Ok ([], w).
  Proof. intros. eexists. cbv. reflexivity. Qed.

  Theorem tie_triL2_0x0 : exists w,
    run OpTriL2 0 0 0 [] [] [] =
    Ok ([], w).
  Proof. intros. eexists. cbv. reflexivity. Qed.

  Theorem tie_triL2_2x0 : exists w,
    run OpTriL2 2 0 0 [] [] [] =
    Ok ([], w).
  Proof. intros. eexists. cbv. reflexivity. Qed.

  Theorem tie_triU_0 : exists w,
    run OpTriU 0 0 0 [] [] [] =
    Ok ([], w).
  Proof. intros. eexists. cbv. reflexivity. Qed.

  Theorem tie_triU2_0x0 : exists w,
    run OpTriU2 0 0 0 [] [] [] =
    Ok ([], w).
  Proof. intros. eexists. cbv. reflexivity. Qed.

  Theorem tie_triU2_2x0 : exists w,
    run OpTriU2 2 0 0 [] [] [] =
    Ok ([], w).
  Proof. intros. eexists. cbv. reflexivity. Qed.

  Theorem tie_mulmm_0x0x0 : exists w,
    run OpMulmm 0 0 0 [] [] [] =
    Ok ([], w).
  Proof. intros. eexists. cbv. reflexivity. Qed.

  Theorem tie_mulmm_0x2x0 : exists w,
    run OpMulmm 0 2 0 [] [] [] =
    Ok ([], w).
  Proof. intros. eexists. cbv. reflexivity. Qed.

  Theorem tie_mulmm_1x0x0 : exists w,
    run OpMulmm 1 0 0 [] [] [] =
    Ok ([], w).
  Proof. intros. eexists. cbv. reflexivity. Qed.

  Theorem tie_mulmm_1x2x0 : forall in0_0 in0_1, exists w,
    run OpMulmm 1 2 0 [in0_0; in0_1] [] [] =
    Ok ([], w).
  Proof. intros. eexists. cbv. reflexivity. Qed.

  Theorem tie_mulmm_2x0x0 : exists w,
    run OpMulmm 2 0 0 [] [] [] =
    Ok ([], w).
  Proof. intros. eexists. cbv. reflexivity. Qed.

  Theorem tie_mulmm_2x2x0 : forall in0_0 in0_1 in0_2 in0_3, exists w,
    run OpMulmm 2 2 0 [in0_0; in0_1; in0_2; in0_3] [] [] =
    Ok ([], w).
  Proof. intros. eexists. cbv. reflexivity. Qed.

  Theorem tie_mulmm_3x0x0 : exists w,
    run OpMulmm 3 0 0 [] [] [] =
    Ok ([], w).
  Proof. intros. eexists. cbv. reflexivity. Qed.

  Theorem tie_mulmm_3x2x0 : forall in0_0 in0_1 in0_2 in0_3 in0_4 in0_5, exists w,
    run OpMulmm 3 2 0 [in0_0; in0_1; in0_2; in0_3; in0_4; in0_5] [] [] =
    Ok ([], w).
  Proof. intros. eexists. cbv. reflexivity. Qed.

  Theorem tie_mulTm_0x0x0 : exists w,
    run OpMulTm 0 0 0 [] [] [] =
    Ok ([], w).
  Proof. intros. eexists. cbv. reflexivity. Qed.

  Theorem tie_mulTm_0x2x0 : exists w,
    run OpMulTm 0 2 0 [] [] [] =
    Ok ([], w).
  Proof. intros. eexists. cbv. reflexivity. Qed.

  Theorem tie_mulTm_1x0x0 : exists w,
    run OpMulTm 1 0 0 [] [] [] =
    Ok ([], w).
  Proof. intros. eexists. cbv. reflexivity. Qed.

  Theorem tie_mulTm_1x2x0 : forall in0_0 in0_1, exists w,
    run OpMulTm 1 2 0 [in0_0; in0_1] [] [] =
    Ok ([], w).
  Proof. intros. eexists. cbv. reflexivity. Qed.

  Theorem tie_mulTm_2x0x0 : exists w,
    run OpMulTm 2 0 0 [] [] [] =
    Ok ([], w).
  Proof. intros. eexists. cbv. reflexivity. Qed.

  Theorem tie_mulTm_2x2x0 : forall in0_0 in0_1 in0_2 in0_3, exists w,
    run OpMulTm 2 2 0 [in0_0; in0_1; in0_2; in0_3] [] [] =
    Ok ([], w).
  Proof. intros. eexists. cbv. reflexivity. Qed.

  Theorem tie_mulTm_3x0x0 : exists w,
    run OpMulTm 3 0 0 [] [] [] =
    Ok ([], w).
  Proof. intros. eexists. cbv. reflexivity. Qed.

  Theorem tie_mulTm_3x2x0 : forall in0_0 in0_1 in0_2 in0_3 in0_4 in0_5, exists w,
    run OpMulTm 3 2 0 [in0_0; in0_1; in0_2; in0_3; in0_4; in0_5] [] [] =
    Ok ([], w).
  Proof. intros. eexists. cbv. reflexivity. Qed.

  Theorem tie_mulmT_0x0x0 : exists w,
    run OpMulmT 0 0 0 [] [] [] =
    Ok ([], w).
  Proof. intros. eexists. cbv. reflexivity. Qed.

  Theorem tie_mulmT_0x2x0 : exists w,
    run OpMulmT 0 2 0 [] [] [] =
    Ok ([], w).
  Proof. intros. eexists. cbv. reflexivity. Qed.

  Theorem tie_mulmT_1x0x0 : exists w,
    run OpMulmT 1 0 0 [] [] [] =
    Ok ([], w).
  Proof. intros. eexists. cbv. reflexivity. Qed.

  Theorem tie_mulmT_1x2x0 : forall in2_0 in2_1, exists w,
    run OpMulmT 1 2 0 [] [] [in2_0; in2_1] =
    Ok (let '(o0, o1) := gen_a_real_mulmT_row1_col2_c_r0 O in2_0 in2_1 in [o0; o1], w).
  Proof. intros. eexists. cbv. reflexivity. Qed.

  Theorem tie_mulmT_2x0x0 : exists w,
    run OpMulmT 2 0 0 [] [] [] =
    Ok ([], w).
  Proof. intros. eexists. cbv. reflexivity. Qed.

  Theorem tie_mulmT_2x2x0 : forall in2_0 in2_1 in2_2 in2_3, exists w,
    run OpMulmT 2 2 0 [] [] [in2_0; in2_1; in2_2; in2_3] =
    Ok (let '(o0, o1, o2, o3) := gen_a_real_mulmT_row2_col2_c_r0 O in2_0 in2_1 in2_2 in2_3 in [o0; o1; o2; o3], w).
  Proof. intros. eexists. cbv. reflexivity. Qed.

  Theorem tie_mulmT_3x0x0 : exists w,
    run OpMulmT 3 0 0 [] [] [] =
    Ok ([], w).
  Proof. intros. eexists. cbv. reflexivity. Qed.

  Theorem tie_mulmT_3x2x0 : forall in2_0 in2_1 in2_2 in2_3 in2_4 in2_5, exists w,
    run OpMulmT 3 2 0 [] [] [in2_0; in2_1; in2_2; in2_3; in2_4; in2_5] =
    Ok (let '(o0, o1, o2, o3, o4, o5) := gen_a_real_mulmT_row3_col2_c_r0 O in2_0 in2_1 in2_2 in2_3 in2_4 in2_5 in [o0; o1; o2; o3; o4; o5], w).
  Proof. intros. eexists. cbv. reflexivity. Qed.

  Theorem tie_mulTT_0x0x0 : exists w,
    run OpMulTT 0 0 0 [] [] [] =
    Ok ([], w).
  Proof. intros. eexists. cbv. reflexivity. Qed.

  Theorem tie_mulTT_0x2x0 : exists w,
    run OpMulTT 0 2 0 [] [] [] =
    Ok ([], w).
  Proof. intros. eexists. cbv. reflexivity. Qed.

  Theorem tie_mulTT_1x0x0 : exists w,
    run OpMulTT 1 0 0 [] [] [] =
    Ok ([], w).
  Proof. intros. eexists. cbv. reflexivity. Qed.

  Theorem tie_mulTT_1x2x0 : forall in0_0 in0_1, exists w,
    run OpMulTT 1 2 0 [in0_0; in0_1] [] [] =
    Ok ([], w).
  Proof. intros. eexists. cbv. reflexivity. Qed.

  Theorem tie_mulTT_2x0x0 : exists w,
    run OpMulTT 2 0 0 [] [] [] =
    Ok ([], w).
  Proof. intros. eexists. cbv. reflexivity. Qed.

  Theorem tie_mulTT_2x2x0 : forall in0_0 in0_1 in0_2 in0_3, exists w,
    run OpMulTT 2 2 0 [in0_0; in0_1; in0_2; in0_3] [] [] =
    Ok ([], w).
  Proof. intros. eexists. cbv. reflexivity. Qed.

  Theorem tie_mulTT_3x0x0 : exists w,
    run OpMulTT 3 0 0 [] [] [] =
    Ok ([], w).
  Proof. intros. eexists. cbv. reflexivity. Qed.

  Theorem tie_mulTT_3x2x0 : forall in0_0 in0_1 in0_2 in0_3 in0_4 in0_5, exists w,
    run OpMulTT 3 2 0 [in0_0; in0_1; in0_2; in0_3; in0_4; in0_5] [] [] =
    Ok ([], w).
  Proof. intros. eexists. cbv. reflexivity. Qed.
End Tie.
