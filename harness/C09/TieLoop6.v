(* All-dimensions translator tie of C09, part 6: the products a_real_mulTT and a_real_mulmT (see TieLoop5.v).  Here one loop
   advances its cursor by a stride (y += n, resp. y advanced c_r times by the dot product) up to y_ = col * c_r: the measure of
   those loops is LoopTieLemmas.steps (passes left = ceil((y_ - y) / stride)), which is what bounds the model's fuel `col`.
   Theorems tie_a_real_mulTT / mulmT: every triple of dimensions with U32 row, U32 col, U32 c_r, every three arrays. *)
From Coq Require Import ZArith NArith List Bool Arith Lia.
From LibaV Require Import Common.NumOps C09.LinalgDefs C09.LinalgSpec C09.LinalgLemmas C09.LoopTieLemmas.
From Gen Require Import GenLoop TieLoopBase.
Import ListNotations.

Section Tie.
  Context {T : Type} (O : NumOps T).
  Local Notation z := (ofZ O 0).
  Local Notation st2 := (nat * buf T)%type.
  Local Notation st3 := (nat * nat * buf T)%type.
  Local Notation st4 := (nat * nat * nat * buf T)%type.
  Definition cz (s : st2) : list T * nat := (cells (snd s), fst s).
  Definition rho3yz (s : st3) : list T * nat * nat := (cells (snd s), fst (fst s), snd (fst s)).
  Definition rho4xz (s : st4) : list T * nat * nat := (cells (snd s), fst (fst (fst s)), snd (fst s)).

  (* ------------------------------------------------------------------------------------------------ mulTT *)
  Lemma mulTT_l1 (z_ : nat) : forall fg fm zc b, z_ - zc < fg -> z_ - zc <= fm ->   (* for tie_a_real_mulTT *)
    gen_a_real_mulTT_loop1 O fg z_ (cells b) zc = ores cz (while fm (fun '(zc, _) => zc <? z_) (zero_cell T z) (zc, b)).
  Proof.
    intros fg fm zc b Hg Hm.
    refine (while_tie (fun f (s : st2) => gen_a_real_mulTT_loop1 O f z_ (cells (snd s)) (fst s)) _ _ cz (fun s : st2 => z_ - fst s)
              (fun _ => True) _ _ fg fm (zc, b) I Hg Hm).
    - intros f [z0 b0] _. cbn [fst snd gen_a_real_mulTT_loop1]. cond_case Ez. unfold zero_cell. sim.
    - intros [z0 b0] s' _ Ez Hb. apply Nat.ltb_lt in Ez. unfold zero_cell in Hb. inv_body Hb. cbn [fst snd]. split; [exact I|lia].
  Qed.

  (* for (y = Y; y < y_; y += n): the cursor strides by n >= 1 *)
  Lemma mulTT_l4 (X Y : list T) (n x y_ : nat) (Hn : 1 <= n) : forall fg fm y zc b, steps y_ y n < fg -> steps y_ y n <= fm ->   (* for tie_a_real_mulTT *)
    gen_a_real_mulTT_loop4 O fg y_ n x X Y (cells b) y zc =
    ores rho3yz (while fm (fun '(y, _, _) => y <? y_) (mulTT_j T (add O) (mul O) n X Y x) (y, zc, b)).
  Proof.
    intros fg fm y zc b Hg Hm.
    refine (while_tie (fun f (s : st3) => gen_a_real_mulTT_loop4 O f y_ n x X Y (cells (snd s)) (fst (fst s)) (snd (fst s))) _ _ rho3yz
              (fun s : st3 => steps y_ (fst (fst s)) n) (fun _ => True) _ _ fg fm (y, zc, b) I Hg Hm).
    - intros f [[y0 z0] b0] _. cbn [fst snd gen_a_real_mulTT_loop4]. cond_case Ey. unfold mulTT_j, mac. sim.
    - intros [[y0 z0] b0] s' _ Ey Hb. apply Nat.ltb_lt in Ey. unfold mulTT_j, mac in Hb. inv_body Hb. cbn [fst snd].
      split; [exact I|apply steps_dec; assumption].
  Qed.

  Lemma mulTT_l3 (X Y : list T) (n col Yp x_ : nat) (Hn : 1 <= n) : forall fg fm x y zc b, x_ - x < fg -> x_ - x <= fm ->   (* for tie_a_real_mulTT *)
    gen_a_real_mulTT_loop3 O fg x_ Yp (col * n) n X Y (cells b) x zc =
    ores rho4xz (while fm (fun '(x, _, _, _) => x <? x_) (mulTT_i T (add O) (mul O) n col X Y Yp (col * n)) (x, y, zc, b)).
  Proof.
    intros fg fm x y zc b Hg Hm.
    refine (while_tie (fun f (s : st4) => gen_a_real_mulTT_loop3 O f x_ Yp (col * n) n X Y (cells (snd s)) (fst (fst (fst s))) (snd (fst s)))
              _ _ rho4xz (fun s : st4 => x_ - fst (fst (fst s))) (fun _ => True) _ _ fg fm (x, y, zc, b) I Hg Hm).
    - intros f [[[x0 y0] z0] b0] _. cbn [fst snd gen_a_real_mulTT_loop3]. cond_case Ex. unfold mulTT_i.
      rewrite (mulTT_l4 X Y n x0 (col * n) Hn (S (col * n - Yp)) col Yp z0 b0
                 (proj2 (Nat.lt_succ_r _ _) (steps_le_diff n (col * n) Yp Hn)) (steps_le_mul n col Yp Hn)).
      match goal with |- context [ores _ ?wl] => destruct wl as [[[y1 z1] b1]| |] end; cbn [ores rho3yz bind fst snd]; try reflexivity.
      rewrite Nat.add_1_r. reflexivity.
    - intros [[[x0 y0] z0] b0] s' _ Ex Hb. apply Nat.ltb_lt in Ex. unfold mulTT_i in Hb. inv_res Hb. split; [exact I|lia].
  Qed.

  Lemma mulTT_l2 (X Y : list T) (n row col : nat) : forall c_r fm x y zc Yp b, c_r <= n -> c_r <= fm ->   (* for tie_a_real_mulTT *)
    gen_a_real_mulTT_loop2 O c_r row 0 (col * n) n X Y (cells b) Yp zc x =
    ores (fun s : nat * nat * nat * nat * nat * buf T => cells (snd s))
      (while fm (fun '(c_r, _, _, _, _, _) => negb (c_r =? 0)) (mulTT_k T (add O) (mul O) n row col X Y (col * n)) (c_r, x, y, zc, Yp, b)).
  Proof.
    induction c_r as [|c_r IH]; intros fm x y zc Yp b Hcn Hf.
    - destruct fm; reflexivity.
    - destruct fm as [|fm]; [lia|]. cbn [gen_a_real_mulTT_loop2 while Nat.eqb negb]. unfold mulTT_k at 1. cbv zeta.
      rewrite (mulTT_l3 X Y n col Yp (x + row) ltac:(lia) (S (x + row - x)) row x y 0 b) by lia.
      match goal with |- context [ores rho4xz ?wl] => destruct wl as [[[[x1 y1] z1] b1]| |] end; cbn [ores rho4xz bind fst snd]; try reflexivity.
      cbn [Nat.sub]. rewrite ?Nat.sub_0_r, Nat.add_1_r. apply IH; lia.
  Qed.

  Theorem tie_a_real_mulTT : forall (row c_r col : nat) (X Y Zc : list T) (w : nat), U32 row -> U32 c_r -> U32 col ->
    gen_a_real_mulTT O row c_r col X 0 Y 0 Zc 0 = ores (@cells T) (mulTT T z (add O) (mul O) row c_r col X Y (mkbuf Zc w)).
  Proof.
    intros row c_r col X Y Zc w Hr Hk Hc. unfold gen_a_real_mulTT, mulTT. cbv zeta. rewrite !sz_mul_u32 by assumption.
    rewrite !fits64_mul by assumption. cbn [Nat.add]. unfold zero_out.
    pose proof (mulTT_l1 (row * col) (S (row * col - 0)) (row * col) 0 (mkbuf Zc w) ltac:(lia) ltac:(lia)) as H. cbn [cells] in H. rewrite H. clear H.
    destruct (while (row * col) (fun '(zc, _) => zc <? row * col) (zero_cell T z) (0, mkbuf Zc w)) as [[z1 b1]| |]; cbn [ores cz bind fst snd]; try reflexivity.
    rewrite (mulTT_l2 X Y c_r row col c_r c_r 0 0 z1 0 b1) by lia.
    match goal with |- context [while c_r ?c ?bd ?s] => destruct (while c_r c bd s) as [[[[[[r2 x2] y2] z2] Y2] b2]| |] end; reflexivity.
  Qed.

  (* ------------------------------------------------------------------------------------------------ mulmT *)
  Lemma mulmT_l1 (z_ : nat) : forall fg fm zc b, z_ - zc < fg -> z_ - zc <= fm ->   (* for tie_a_real_mulmT *)
    gen_a_real_mulmT_loop1 O fg z_ (cells b) zc = ores (fun s : st2 => cells (snd s)) (while fm (fun '(zc, _) => zc <? z_) (zero_cell T z) (zc, b)).
  Proof.
    intros fg fm zc b Hg Hm.
    refine (while_tie (fun f (s : st2) => gen_a_real_mulmT_loop1 O f z_ (cells (snd s)) (fst s)) _ _ _ (fun s : st2 => z_ - fst s)
              (fun _ => True) _ _ fg fm (zc, b) I Hg Hm).
    - intros f [z0 b0] _. cbn [fst snd gen_a_real_mulmT_loop1]. cond_case Ez. unfold zero_cell. sim.
    - intros [z0 b0] s' _ Ez Hb. apply Nat.ltb_lt in Ez. unfold zero_cell in Hb. inv_body Hb. cbn [fst snd]. split; [exact I|lia].
  Qed.

  (* the dot product: state (x, y, b) *)
  Lemma mulmT_l4 (X Y : list T) (zc x_ : nat) : forall fg fm x y b, x_ - x < fg -> x_ - x <= fm ->   (* for tie_a_real_mulmT *)
    gen_a_real_mulmT_loop4 O fg x_ zc X Y (cells b) x y =
    ores rho3yz (while fm (fun '(x, _, _) => x <? x_) (mulmT_k T (add O) (mul O) X Y zc) (x, y, b)).
  Proof.
    intros fg fm x y b Hg Hm.
    refine (while_tie (fun f (s : st3) => gen_a_real_mulmT_loop4 O f x_ zc X Y (cells (snd s)) (fst (fst s)) (snd (fst s))) _ _ rho3yz
              (fun s : st3 => x_ - fst (fst s)) (fun _ => True) _ _ fg fm (x, y, b) I Hg Hm).
    - intros f [[x0 y0] b0] _. cbn [fst snd gen_a_real_mulmT_loop4]. cond_case Ex. unfold mulmT_k, mac. sim.
    - intros [[x0 y0] b0] s' _ Ex Hb. apply Nat.ltb_lt in Ex. unfold mulmT_k, mac in Hb. inv_body Hb. cbn [fst snd]. split; [exact I|lia].
  Qed.

  (* for (y = Y; y < y_; ++z): y advances by c_r in the dot product; state (x, y, z, b), the generated loop returns (cells, z, y) *)
  Definition rho4zy (s : st4) : list T * nat * nat := (cells (snd s), snd (fst s), snd (fst (fst s))).
  Lemma mulmT_l3 (X Y : list T) (c_r col Xp : nat) : forall fg fm x y zc b, steps (col * c_r) y c_r < fg -> steps (col * c_r) y c_r <= fm ->   (* for tie_a_real_mulmT *)
    gen_a_real_mulmT_loop3 O fg (col * c_r) Xp (Xp + c_r) X Y (cells b) zc y =
    ores rho4zy (while fm (fun '(_, y, _, _) => y <? col * c_r) (mulmT_j T (add O) (mul O) c_r X Y Xp (Xp + c_r)) (x, y, zc, b)).
  Proof.
    intros fg fm x y zc b Hg Hm.
    refine (while_tie (fun f (s : st4) => gen_a_real_mulmT_loop3 O f (col * c_r) Xp (Xp + c_r) X Y (cells (snd s)) (snd (fst s)) (snd (fst (fst s))))
              _ _ rho4zy (fun s : st4 => steps (col * c_r) (snd (fst (fst s))) c_r) (fun _ => True) _ _ fg fm (x, y, zc, b) I Hg Hm).
    - intros f [[[x0 y0] z0] b0] _. cbn [fst snd gen_a_real_mulmT_loop3]. cond_case Ey. unfold mulmT_j.
      rewrite (mulmT_l4 X Y z0 (Xp + c_r) (S (Xp + c_r - Xp)) c_r Xp y0 b0) by lia.
      match goal with |- context [ores _ ?wl] => destruct wl as [[[x1 y1] b1]| |] end; cbn [ores rho3yz bind fst snd]; try reflexivity.
      rewrite Nat.add_1_r. reflexivity.
    - intros [[[x0 y0] z0] b0] s' _ Ey Hb. apply Nat.ltb_lt in Ey. unfold mulmT_j, bind in Hb.
      destruct (while c_r (fun '(x, _, _) => x <? Xp + c_r) (mulmT_k T (add O) (mul O) X Y z0) (Xp, y0, b0)) as [[[x1 y1] b1]| |] eqn:F; try discriminate Hb.
      apply mulmT_k_exit in F; [|lia]. destruct F as [-> ->]. injection Hb as <-. cbn [fst snd].
      split; [exact I|]. replace (Xp + c_r - Xp) with c_r by lia. apply steps_dec; [nia|exact Ey].
  Qed.

  Lemma mulmT_l2 (X Y : list T) (c_r col : nat) : forall row fm x y zc Xp b, row <= fm ->   (* for tie_a_real_mulmT *)
    gen_a_real_mulmT_loop2 O row c_r 0 (col * c_r) X Y (cells b) Xp zc =
    ores (fun s : nat * nat * nat * nat * nat * buf T => cells (snd s))
      (while fm (fun '(row, _, _, _, _, _) => negb (row =? 0)) (mulmT_i T (add O) (mul O) col c_r X Y (col * c_r)) (row, x, y, zc, Xp, b)).
  Proof.
    induction row as [|row IH]; intros fm x y zc Xp b Hf.
    - destruct fm; reflexivity.
    - destruct fm as [|fm]; [lia|]. cbn [gen_a_real_mulmT_loop2 while Nat.eqb negb]. unfold mulmT_i at 1. cbv zeta.
      assert (Hs : steps (col * c_r) 0 c_r <= col /\ steps (col * c_r) 0 c_r < S (col * c_r - 0)).
      { destruct c_r as [|k]; [rewrite Nat.mul_0_r; unfold steps; cbn; lia|].
        split; [apply steps_le_mul; lia|apply Nat.lt_succ_r, steps_le_diff; lia]. }
      rewrite (mulmT_l3 X Y c_r col Xp (S (col * c_r - 0)) col x 0 zc b (proj2 Hs) (proj1 Hs)).
      match goal with |- context [ores rho4zy ?wl] => destruct wl as [[[[x1 y1] z1] b1]| |] end; cbn [ores rho4zy bind fst snd]; try reflexivity.
      cbn [Nat.sub]. rewrite ?Nat.sub_0_r. apply IH. lia.
  Qed.

  Theorem tie_a_real_mulmT : forall (row col c_r : nat) (X Y Zc : list T) (w : nat), U32 row -> U32 col -> U32 c_r ->
    gen_a_real_mulmT O row col c_r X 0 Y 0 Zc 0 = ores (@cells T) (mulmT T z (add O) (mul O) row col c_r X Y (mkbuf Zc w)).
  Proof.
    intros row col c_r X Y Zc w Hr Hc Hk. unfold gen_a_real_mulmT, mulmT. cbv zeta. rewrite !sz_mul_u32 by assumption.
    rewrite !fits64_mul by assumption. cbn [Nat.add]. unfold zero_out.
    pose proof (mulmT_l1 (row * col) (S (row * col - 0)) (row * col) 0 (mkbuf Zc w) ltac:(lia) ltac:(lia)) as H. cbn [cells] in H. rewrite H. clear H.
    destruct (while (row * col) (fun '(zc, _) => zc <? row * col) (zero_cell T z) (0, mkbuf Zc w)) as [[z1 b1]| |]; cbn [ores bind fst snd]; try reflexivity.
    rewrite (mulmT_l2 X Y c_r col row row 0 0 0 0 b1) by lia.
    match goal with |- context [while row ?c ?bd ?s] => destruct (while row c bd s) as [[[[[[r2 x2] y2] z2] X2] b2]| |] end; reflexivity.
  Qed.
End Tie.
