(* Helper of the all-dimensions translator tie of C09 (no tie theorem here): the generated prelude of Gen.GenLoop (checked store,
   `fits`) related to the vocabulary of the hand model C09/LinalgDefs.v (store with its write counter, wrapping a_uint / a_size
   arithmetic), and the tactics that line one pass of a generated loop Fixpoint up with the body of the model's [while]. *)
From Coq Require Import ZArith NArith List Bool Arith Lia.
From LibaV Require Import Common.NumOps C09.LinalgDefs C09.LinalgSpec C09.LinalgLemmas C09.LoopTieLemmas.
From Gen Require Import GenLoop.
Import ListNotations.

Lemma fits32_U (x : nat) : U32 x -> fits 32 x = true.
Proof. unfold U32, fits. intros H. apply N.ltb_lt. exact H. Qed.
Lemma fits64_lt (x : nat) : (N.of_nat x < 18446744073709551616)%N -> fits 64 x = true.
Proof. unfold fits. intros H. apply N.ltb_lt. exact H. Qed.
Lemma fits64_mul a b : U32 a -> U32 b -> fits 64 (a * b) = true.
Proof. intros. apply fits64_lt, U32_mul_64; assumption. Qed.
Lemma fits64_muladd a b c : U32 a -> U32 b -> U32 c -> fits 64 (a * b + c) = true.
Proof. intros. apply fits64_lt, U32_muladd_64; assumption. Qed.

(* the generated checked store and the model's store meet on the cells *)
Lemma upd_gen {T} (m : list T) (i : nat) (v : T) :
  GenLoop.upd m i v = if i <? length m then Some (LinalgDefs.upd T i v m) else None.
Proof.
  unfold GenLoop.upd. destruct (i <? length m) eqn:E; [|reflexivity]. apply Nat.ltb_lt in E. rewrite upd_is_splice by exact E. reflexivity.
Qed.


(* dimensions and counters below them are a_uint values *)
Ltac u32 :=
  solve [ assumption
        | match goal with H : U32 ?b |- U32 ?a => apply (U32_mono a b); [lia | exact H] end ].

(* one step of the case analysis that lines a generated loop pass up with the model's loop body *)
Ltac sim_step :=
  first
  [ progress cbn [cells nwr fst snd bind Nat.add]
  | rewrite upd_gen
  | rewrite sz_mul_u32 by u32
  | rewrite fits64_mul by u32
  | rewrite fits64_muladd by u32
  | rewrite sz_muladd_u32 by u32
  | rewrite fits32_U by u32
  | match goal with |- context [match nth_error ?l ?i with Some _ => _ | None => _ end] => destruct (nth_error l i) end
  | match goal with |- context [if ?i <? length ?m then _ else _] => destruct (i <? length m) end ].
Ltac sim := unfold load, store, bind; repeat sim_step; rewrite ?Nat.add_1_r; try reflexivity.

(* the body returned Ok s': take it apart to see what s' is *)
Ltac inv_body H :=
  unfold load, store, bind in H;
  repeat match type of H with
         | context [match nth_error ?l ?i with Some _ => _ | None => _ end] => destruct (nth_error l i); try discriminate H
         | context [if ?c then _ else _] => destruct c; try discriminate H
         end;
  cbn [cells nwr fst snd] in H; injection H as <-.

(* ------------------------------------------------------------------------------------------------ the cell-filling loops
   state of the model's [fillc]: (c, cursor, buffer); what the generated loop returns: (cells, c, cursor) *)
Definition rho3 {T} (s : nat * nat * buf T) : list T * nat * nat := let '(c, E, b) := s in (cells b, c, E).

Ltac cond_case Ec :=
  match goal with |- context [if ?c then _ else _] => destruct c eqn:Ec; [|reflexivity] end;
  first [apply Nat.ltb_lt in Ec | apply Nat.leb_le in Ec].

(* for (..; c < hi; ++c) *E++ = v(c);   G : the generated loop applied to the model state, mu : what is left to do *)
Ltac fill_tie loop G mu :=
  let fg := fresh "fg" in let fm := fresh "fm" in let c := fresh "c" in let E := fresh "E" in let b := fresh "b" in
  let Hg := fresh "Hg" in let Hm := fresh "Hm" in let Ec := fresh "Ec" in let Hb := fresh "Hb" in
  intros fg fm c E b Hg Hm; unfold fillc;
  refine (while_tie G _ _ rho3 mu (fun _ => True) _ _ fg fm (c, E, b) I Hg Hm);
  [ intros ? [[? ?] ?] _; cbn [fst snd loop]; cond_case Ec; sim
  | intros [[? ?] ?] ? _ Ec Hb; first [apply Nat.ltb_lt in Ec | apply Nat.leb_le in Ec]; inv_body Hb; cbn [fst snd]; split; [exact I|lia] ].

(* while (++c < hi) *E++ = v(c):  the model enters with c already incremented; G takes the model's c = S (the generated loop's c) *)
Ltac fillpre_tie loop G mu Inv :=
  let fg := fresh "fg" in let fm := fresh "fm" in let c := fresh "c" in let E := fresh "E" in let b := fresh "b" in
  let Hc := fresh "Hc" in let Hg := fresh "Hg" in let Hm := fresh "Hm" in let Ec := fresh "Ec" in let Hb := fresh "Hb" in
  let HI := fresh "HI" in
  intros fg fm c E b Hc Hg Hm; unfold fillc;
  refine (while_tie G _ _ rho3 mu Inv _ _ fg fm (S c, E, b) _ Hg Hm);
  [ intros ? [[[|?] ?] ?] HI; cbn [fst snd] in HI; [lia|]; cbn [fst snd loop]; rewrite !Nat.add_1_r; rewrite fits32_U by u32; cond_case Ec; sim
  | intros [[? ?] ?] ? HI Ec Hb; cbn [fst snd] in HI; first [apply Nat.ltb_lt in Ec | apply Nat.leb_le in Ec]; inv_body Hb; cbn [fst snd]; split; lia
  | cbn [fst snd]; lia ].

(* the body of an outer loop returned Ok s': go through its inner loops and stores to see what s' is *)
Ltac inv_res H :=
  unfold bind, store in H;
  repeat (match type of H with
          | match ?x with Ok _ => _ | OutOfFuel => _ | OutOfBounds => _ end = _ => destruct x as [?| |]; try discriminate H
          | (if ?c then _ else _) = _ => destruct c; try discriminate H
          end;
          repeat match goal with p : (_ * _)%type |- _ => destruct p end);
  injection H as <-; cbn [fst snd].

(* a generated inner loop call rewritten with its lemma (pf), then cases on what the model's loop returned *)
Ltac use_fill pf c1 E1 b1 F1 :=
  let h := fresh "h" in
  pose proof pf as h; cbn [cells] in h; rewrite h; clear h;
  match goal with |- context [ores rho3 ?x] => destruct x as [[[c1 E1] b1]| |] eqn:F1 end; cbn [ores rho3 bind]; try reflexivity.
Ltac close_row := unfold store; repeat sim_step; rewrite ?Nat.add_1_r; try reflexivity.
Definition cells3 {T} (s : nat * nat * buf T) : list T := cells (snd s).
Definition cellsE {T} (s : nat * nat * buf T) : list T * nat := (cells (snd s), snd (fst s)).
