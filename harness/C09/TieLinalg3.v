(* GENERATED ONCE by harness/C09/mk_tie.py and committed: tie between the UNROLLED translation of src/linalg.c (module
   Gen.GenLinalg, regenerated on every run by tools/c2coq.py with the dimensions fixed and the arrays exactly sized - a read or
   write outside an array is a translation error) and the hand model C09/LinalgDefs.v.  For every routine and every shape
   with all dimensions in 0..3: for ALL array contents and EVERY NumOps instance the model's run returns exactly the cells the
   translated C computes, operation for operation (both sides reduce to the same term).  The theorems of Properties_C09.v
   then speak about every dimension; these statements pin the model to the code on the small shapes. *)
From Coq Require Import ZArith List.
From LibaV Require Import Common.NumOps C09.LinalgDefs.
From Gen Require Import GenLinalg.
Import ListNotations.

Section Tie.
  Context {T : Type} (O : NumOps T).
  Local Notation run := (LinalgDefs.run T (ofZ O 0) (ofZ O 1) (add O) (mul O)).

  Theorem tie_T1_2 : forall in0_0 in0_1 in0_2 in0_3, exists w,
    run OpT1 2 0 0 [] [] [in0_0; in0_1; in0_2; in0_3] =
    Ok (let '(o0, o1, o2, o3) := gen_a_real_T1_n2 O in0_0 in0_1 in0_2 in0_3 in [o0; o1; o2; o3], w).
  Proof. intros. eexists. cbv. reflexivity. Qed.

  Theorem tie_T2_1x2 : forall in0_0 in0_1 in1_0 in1_1, exists w,
    run OpT2 1 2 0 [in0_0; in0_1] [] [in1_0; in1_1] =
    Ok (let '(o0, o1) := gen_a_real_T2_m1_n2 O in0_0 in0_1 in1_0 in1_1 in [o0; o1], w).
  Proof. intros. eexists. cbv. reflexivity. Qed.

  Theorem tie_T2_3x2 : forall in0_0 in0_1 in0_2 in0_3 in0_4 in0_5 in1_0 in1_1 in1_2 in1_3 in1_4 in1_5, exists w,
    run OpT2 3 2 0 [in0_0; in0_1; in0_2; in0_3; in0_4; in0_5] [] [in1_0; in1_1; in1_2; in1_3; in1_4; in1_5] =
    Ok (let '(o0, o1, o2, o3, o4, o5) := gen_a_real_T2_m3_n2 O in0_0 in0_1 in0_2 in0_3 in0_4 in0_5 in1_0 in1_1 in1_2 in1_3 in1_4 in1_5 in [o0; o1; o2; o3; o4; o5], w).
  Proof. intros. eexists. cbv. reflexivity. Qed.

  Theorem tie_eye2_0x2 : exists w,
    run OpEye2 0 2 0 [] [] [] =
    Ok ([], w).
  Proof. intros. eexists. cbv. reflexivity. Qed.

  Theorem tie_eye2_2x2 : forall in0_0 in0_1 in0_2 in0_3, exists w,
    run OpEye2 2 2 0 [] [] [in0_0; in0_1; in0_2; in0_3] =
    Ok (let '(o0, o1, o2, o3) := gen_a_real_eye2_m2_n2 O in0_0 in0_1 in0_2 in0_3 in [o0; o1; o2; o3], w).
  Proof. intros. eexists. cbv. reflexivity. Qed.

  Theorem tie_tri1_2 : forall in0_0 in0_1 in0_2 in0_3, exists w,
    run OpTri1 2 0 0 [] [] [in0_0; in0_1; in0_2; in0_3] =
    Ok (let '(o0, o1, o2, o3) := gen_a_real_tri1_n2 O in0_0 in0_1 in0_2 in0_3 in [o0; o1; o2; o3], w).
  Proof. intros. eexists. cbv. reflexivity. Qed.

  Theorem tie_tri2_1x2 : forall in0_0 in0_1, exists w,
    run OpTri2 1 2 0 [] [] [in0_0; in0_1] =
    Ok (let '(o0, o1) := gen_a_real_tri2_m1_n2 O in0_0 in0_1 in [o0; o1], w).
  Proof. intros. eexists. cbv. reflexivity. Qed.

  Theorem tie_tri2_3x2 : forall in0_0 in0_1 in0_2 in0_3 in0_4 in0_5, exists w,
    run OpTri2 3 2 0 [] [] [in0_0; in0_1; in0_2; in0_3; in0_4; in0_5] =
    Ok (let '(o0, o1, o2, o3, o4, o5) := gen_a_real_tri2_m3_n2 O in0_0 in0_1 in0_2 in0_3 in0_4 in0_5 in [o0; o1; o2; o3; o4; o5], w).
  Proof. intros. eexists. cbv. reflexivity. Qed.

  Theorem tie_diag1_2 : forall in0_0 in0_1 in0_2 in0_3 in1_0 in1_1, exists w,
    run OpDiag1 2 0 0 [in0_0; in0_1; in0_2; in0_3] [] [in1_0; in1_1] =
    Ok (let '(o0, o1) := gen_a_real_diag1_n2 O in0_0 in0_1 in0_2 in0_3 in1_0 in1_1 in [o0; o1], w).
  Proof. intros. eexists. cbv. reflexivity. Qed.

  Theorem tie_diag2_1x2 : forall in0_0 in0_1 in1_0, exists w,
    run OpDiag2 1 2 0 [in0_0; in0_1] [] [in1_0] =
    Ok (let o0 := gen_a_real_diag2_m1_n2 O in0_0 in0_1 in1_0 in [o0], w).
  Proof. intros. eexists. cbv. reflexivity. Qed.

  Theorem tie_diag2_3x2 : forall in0_0 in0_1 in0_2 in0_3 in0_4 in0_5 in1_0 in1_1, exists w,
    run OpDiag2 3 2 0 [in0_0; in0_1; in0_2; in0_3; in0_4; in0_5] [] [in1_0; in1_1] =
    Ok (let '(o0, o1) := gen_a_real_diag2_m3_n2 O in0_0 in0_1 in0_2 in0_3 in0_4 in0_5 in1_0 in1_1 in [o0; o1], w).
  Proof. intros. eexists. cbv. reflexivity. Qed.

  Theorem tie_triL1_2 : forall in0_0 in0_1 in0_2 in0_3 in1_0 in1_1 in1_2 in1_3, exists w,
    run OpTriL1 2 0 0 [in0_0; in0_1; in0_2; in0_3] [] [in1_0; in1_1; in1_2; in1_3] =
    Ok (let '(o0, o1, o2, o3) := gen_a_real_triL1_n2 O in0_0 in0_1 in0_2 in0_3 in1_0 in1_1 in1_2 in1_3 in [o0; o1; o2; o3], w).
  Proof. intros. eexists. cbv. reflexivity. Qed.

  Theorem tie_triL2_1x2 : forall in0_0 in0_1 in1_0 in1_1, exists w,
    run OpTriL2 1 2 0 [in0_0; in0_1] [] [in1_0; in1_1] =
    Ok (let '(o0, o1) := gen_a_real_triL2_m1_n2 O in0_0 in0_1 in1_0 in1_1 in [o0; o1], w).
  Proof. intros. eexists. cbv. reflexivity. Qed.

  Theorem tie_triL2_3x2 : forall in0_0 in0_1 in0_2 in0_3 in0_4 in0_5 in1_0 in1_1 in1_2 in1_3 in1_4 in1_5, exists w,
    run OpTriL2 3 2 0 [in0_0; in0_1; in0_2; in0_3; in0_4; in0_5] [] [in1_0; in1_1; in1_2; in1_3; in1_4; in1_5] =
    Ok (let '(o0, o1, o2, o3, o4, o5) := gen_a_real_triL2_m3_n2 O in0_0 in0_1 in0_2 in0_3 in0_4 in0_5 in1_0 in1_1 in1_2 in1_3 in1_4 in1_5 in [o0; o1; o2; o3; o4; o5], w).
  Proof. intros. eexists. cbv. reflexivity. Qed.

  Theorem tie_triU1_2 : forall in0_0 in0_1 in0_2 in0_3 in1_0 in1_1 in1_2 in1_3, exists w,
    run OpTriU1 2 0 0 [in0_0; in0_1; in0_2; in0_3] [] [in1_0; in1_1; in1_2; in1_3] =
    Ok (let '(o0, o1, o2, o3) := gen_a_real_triU1_n2 O in0_0 in0_1 in0_2 in0_3 in1_0 in1_1 in1_2 in1_3 in [o0; o1; o2; o3], w).
  Proof. intros. eexists. cbv. reflexivity. Qed.

  Theorem tie_triU2_1x2 : forall in0_0 in0_1 in1_0 in1_1, exists w,
    run OpTriU2 1 2 0 [in0_0; in0_1] [] [in1_0; in1_1] =
    Ok (let '(o0, o1) := gen_a_real_triU2_m1_n2 O in0_0 in0_1 in1_0 in1_1 in [o0; o1], w).
  Proof. intros. eexists. cbv. reflexivity. Qed.

  Theorem tie_triU2_3x2 : forall in0_0 in0_1 in0_2 in0_3 in0_4 in0_5 in1_0 in1_1 in1_2 in1_3 in1_4 in1_5, exists w,
    run OpTriU2 3 2 0 [in0_0; in0_1; in0_2; in0_3; in0_4; in0_5] [] [in1_0; in1_1; in1_2; in1_3; in1_4; in1_5] =
    Ok (let '(o0, o1, o2, o3, o4, o5) := gen_a_real_triU2_m3_n2 O in0_0 in0_1 in0_2 in0_3 in0_4 in0_5 in1_0 in1_1 in1_2 in1_3 in1_4 in1_5 in [o0; o1; o2; o3; o4; o5], w).
  Proof. intros. eexists. cbv. reflexivity. Qed.

  Theorem tie_mulmm_0x1x2 : forall in1_0 in1_1, exists w,
    run OpMulmm 0 1 2 [] [in1_0; in1_1] [] =
    Ok ([], w).
  Proof. intros. eexists. cbv. reflexivity. Qed.

  Theorem tie_mulmm_0x3x2 : forall in1_0 in1_1 in1_2 in1_3 in1_4 in1_5, exists w,
    run OpMulmm 0 3 2 [] [in1_0; in1_1; in1_2; in1_3; in1_4; in1_5] [] =
    Ok ([], w).
  Proof. intros. eexists. cbv. reflexivity. Qed.

  Theorem tie_mulmm_1x1x2 : forall in0_0 in1_0 in1_1 in2_0 in2_1, exists w,
    run OpMulmm 1 1 2 [in0_0] [in1_0; in1_1] [in2_0; in2_1] =
    Ok (let '(o0, o1) := gen_a_real_mulmm_row1_c_r1_col2 O in0_0 in1_0 in1_1 in2_0 in2_1 in [o0; o1], w).
  Proof. intros. eexists. cbv. reflexivity. Qed.

  Theorem tie_mulmm_1x3x2 : forall in0_0 in0_1 in0_2 in1_0 in1_1 in1_2 in1_3 in1_4 in1_5 in2_0 in2_1, exists w,
    run OpMulmm 1 3 2 [in0_0; in0_1; in0_2] [in1_0; in1_1; in1_2; in1_3; in1_4; in1_5] [in2_0; in2_1] =
    Ok (let '(o0, o1) := gen_a_real_mulmm_row1_c_r3_col2 O in0_0 in0_1 in0_2 in1_0 in1_1 in1_2 in1_3 in1_4 in1_5 in2_0 in2_1 in [o0; o1], w).
  Proof. intros. eexists. cbv. reflexivity. Qed.

  Theorem tie_mulmm_2x1x2 : forall in0_0 in0_1 in1_0 in1_1 in2_0 in2_1 in2_2 in2_3, exists w,
    run OpMulmm 2 1 2 [in0_0; in0_1] [in1_0; in1_1] [in2_0; in2_1; in2_2; in2_3] =
    Ok (let '(o0, o1, o2, o3) := gen_a_real_mulmm_row2_c_r1_col2 O in0_0 in0_1 in1_0 in1_1 in2_0 in2_1 in2_2 in2_3 in [o0; o1; o2; o3], w).
  Proof. intros. eexists. cbv. reflexivity. Qed.

  Theorem tie_mulmm_2x3x2 : forall in0_0 in0_1 in0_2 in0_3 in0_4 in0_5 in1_0 in1_1 in1_2 in1_3 in1_4 in1_5 in2_0 in2_1 in2_2 in2_3, exists w,
    run OpMulmm 2 3 2 [in0_0; in0_1; in0_2; in0_3; in0_4; in0_5] [in1_0; in1_1; in1_2; in1_3; in1_4; in1_5] [in2_0; in2_1; in2_2; in2_3] =
    Ok (let '(o0, o1, o2, o3) := gen_a_real_mulmm_row2_c_r3_col2 O in0_0 in0_1 in0_2 in0_3 in0_4 in0_5 in1_0 in1_1 in1_2 in1_3 in1_4 in1_5 in2_0 in2_1 in2_2 in2_3 in [o0; o1; o2; o3], w).
  Proof. intros. eexists. cbv. reflexivity. Qed.

  Theorem tie_mulmm_3x1x2 : forall in0_0 in0_1 in0_2 in1_0 in1_1 in2_0 in2_1 in2_2 in2_3 in2_4 in2_5, exists w,
    run OpMulmm 3 1 2 [in0_0; in0_1; in0_2] [in1_0; in1_1] [in2_0; in2_1; in2_2; in2_3; in2_4; in2_5] =
    Ok (let '(o0, o1, o2, o3, o4, o5) := gen_a_real_mulmm_row3_c_r1_col2 O in0_0 in0_1 in0_2 in1_0 in1_1 in2_0 in2_1 in2_2 in2_3 in2_4 in2_5 in [o0; o1; o2; o3; o4; o5], w).
  Proof. intros. eexists. cbv. reflexivity. Qed.

  Theorem tie_mulmm_3x3x2 : forall in0_0 in0_1 in0_2 in0_3 in0_4 in0_5 in0_6 in0_7 in0_8 in1_0 in1_1 in1_2 in1_3 in1_4 in1_5 in2_0 in2_1 in2_2 in2_3 in2_4 in2_5, exists w,
    run OpMulmm 3 3 2 [in0_0; in0_1; in0_2; in0_3; in0_4; in0_5; in0_6; in0_7; in0_8] [in1_0; in1_1; in1_2; in1_3; in1_4; in1_5] [in2_0; in2_1; in2_2; in2_3; in2_4; in2_5] =
    Ok (let '(o0, o1, o2, o3, o4, o5) := gen_a_real_mulmm_row3_c_r3_col2 O in0_0 in0_1 in0_2 in0_3 in0_4 in0_5 in0_6 in0_7 in0_8 in1_0 in1_1 in1_2 in1_3 in1_4 in1_5 in2_0 in2_1 in2_2 in2_3 in2_4 in2_5 in [o0; o1; o2; o3; o4; o5], w).
  Proof. intros. eexists. cbv. reflexivity. Qed.

  Theorem tie_mulTm_0x1x2 : forall in2_0 in2_1, exists w,
    run OpMulTm 0 1 2 [] [] [in2_0; in2_1] =
    Ok (let '(o0, o1) := gen_a_real_mulTm_c_r0_row1_col2 O in2_0 in2_1 in [o0; o1], w).
  Proof. intros. eexists. cbv. reflexivity. Qed.

  Theorem tie_mulTm_0x3x2 : forall in2_0 in2_1 in2_2 in2_3 in2_4 in2_5, exists w,
    run OpMulTm 0 3 2 [] [] [in2_0; in2_1; in2_2; in2_3; in2_4; in2_5] =
    Ok (let '(o0, o1, o2, o3, o4, o5) := gen_a_real_mulTm_c_r0_row3_col2 O in2_0 in2_1 in2_2 in2_3 in2_4 in2_5 in [o0; o1; o2; o3; o4; o5], w).
  Proof. intros. eexists. cbv. reflexivity. Qed.

  Theorem tie_mulTm_1x1x2 : forall in0_0 in1_0 in1_1 in2_0 in2_1, exists w,
    run OpMulTm 1 1 2 [in0_0] [in1_0; in1_1] [in2_0; in2_1] =
    Ok (let '(o0, o1) := gen_a_real_mulTm_c_r1_row1_col2 O in0_0 in1_0 in1_1 in2_0 in2_1 in [o0; o1], w).
  Proof. intros. eexists. cbv. reflexivity. Qed.

  Theorem tie_mulTm_1x3x2 : forall in0_0 in0_1 in0_2 in1_0 in1_1 in2_0 in2_1 in2_2 in2_3 in2_4 in2_5, exists w,
    run OpMulTm 1 3 2 [in0_0; in0_1; in0_2] [in1_0; in1_1] [in2_0; in2_1; in2_2; in2_3; in2_4; in2_5] =
    Ok (let '(o0, o1, o2, o3, o4, o5) := gen_a_real_mulTm_c_r1_row3_col2 O in0_0 in0_1 in0_2 in1_0 in1_1 in2_0 in2_1 in2_2 in2_3 in2_4 in2_5 in [o0; o1; o2; o3; o4; o5], w).
  Proof. intros. eexists. cbv. reflexivity. Qed.

  Theorem tie_mulTm_2x1x2 : forall in0_0 in0_1 in1_0 in1_1 in1_2 in1_3 in2_0 in2_1, exists w,
    run OpMulTm 2 1 2 [in0_0; in0_1] [in1_0; in1_1; in1_2; in1_3] [in2_0; in2_1] =
    Ok (let '(o0, o1) := gen_a_real_mulTm_c_r2_row1_col2 O in0_0 in0_1 in1_0 in1_1 in1_2 in1_3 in2_0 in2_1 in [o0; o1], w).
  Proof. intros. eexists. cbv. reflexivity. Qed.

  Theorem tie_mulTm_2x3x2 : forall in0_0 in0_1 in0_2 in0_3 in0_4 in0_5 in1_0 in1_1 in1_2 in1_3 in2_0 in2_1 in2_2 in2_3 in2_4 in2_5, exists w,
    run OpMulTm 2 3 2 [in0_0; in0_1; in0_2; in0_3; in0_4; in0_5] [in1_0; in1_1; in1_2; in1_3] [in2_0; in2_1; in2_2; in2_3; in2_4; in2_5] =
    Ok (let '(o0, o1, o2, o3, o4, o5) := gen_a_real_mulTm_c_r2_row3_col2 O in0_0 in0_1 in0_2 in0_3 in0_4 in0_5 in1_0 in1_1 in1_2 in1_3 in2_0 in2_1 in2_2 in2_3 in2_4 in2_5 in [o0; o1; o2; o3; o4; o5], w).
  Proof. intros. eexists. cbv. reflexivity. Qed.

  Theorem tie_mulTm_3x1x2 : forall in0_0 in0_1 in0_2 in1_0 in1_1 in1_2 in1_3 in1_4 in1_5 in2_0 in2_1, exists w,
    run OpMulTm 3 1 2 [in0_0; in0_1; in0_2] [in1_0; in1_1; in1_2; in1_3; in1_4; in1_5] [in2_0; in2_1] =
    Ok (let '(o0, o1) := gen_a_real_mulTm_c_r3_row1_col2 O in0_0 in0_1 in0_2 in1_0 in1_1 in1_2 in1_3 in1_4 in1_5 in2_0 in2_1 in [o0; o1], w).
  Proof. intros. eexists. cbv. reflexivity. Qed.

  Theorem tie_mulTm_3x3x2 : forall in0_0 in0_1 in0_2 in0_3 in0_4 in0_5 in0_6 in0_7 in0_8 in1_0 in1_1 in1_2 in1_3 in1_4 in1_5 in2_0 in2_1 in2_2 in2_3 in2_4 in2_5, exists w,
    run OpMulTm 3 3 2 [in0_0; in0_1; in0_2; in0_3; in0_4; in0_5; in0_6; in0_7; in0_8] [in1_0; in1_1; in1_2; in1_3; in1_4; in1_5] [in2_0; in2_1; in2_2; in2_3; in2_4; in2_5] =
    Ok (let '(o0, o1, o2, o3, o4, o5) := gen_a_real_mulTm_c_r3_row3_col2 O in0_0 in0_1 in0_2 in0_3 in0_4 in0_5 in0_6 in0_7 in0_8 in1_0 in1_1 in1_2 in1_3 in1_4 in1_5 in2_0 in2_1 in2_2 in2_3 in2_4 in2_5 in [o0; o1; o2; o3; o4; o5], w).
  Proof. intros. eexists. cbv. reflexivity. Qed.

  Theorem tie_mulmT_0x1x2 : forall in1_0 in1_1, exists w,
    run OpMulmT 0 1 2 [] [in1_0; in1_1] [] =
    Ok ([], w).
  Proof. intros. eexists. cbv. reflexivity. Qed.

  Theorem tie_mulmT_0x3x2 : forall in1_0 in1_1 in1_2 in1_3 in1_4 in1_5, exists w,
    run OpMulmT 0 3 2 [] [in1_0; in1_1; in1_2; in1_3; in1_4; in1_5] [] =
    Ok ([], w).
  Proof. intros. eexists. cbv. reflexivity. Qed.

  Theorem tie_mulmT_1x1x2 : forall in0_0 in0_1 in1_0 in1_1 in2_0, exists w,
    run OpMulmT 1 1 2 [in0_0; in0_1] [in1_0; in1_1] [in2_0] =
    Ok (let o0 := gen_a_real_mulmT_row1_col1_c_r2 O in0_0 in0_1 in1_0 in1_1 in2_0 in [o0], w).
  Proof. intros. eexists. cbv. reflexivity. Qed.

  Theorem tie_mulmT_1x3x2 : forall in0_0 in0_1 in1_0 in1_1 in1_2 in1_3 in1_4 in1_5 in2_0 in2_1 in2_2, exists w,
    run OpMulmT 1 3 2 [in0_0; in0_1] [in1_0; in1_1; in1_2; in1_3; in1_4; in1_5] [in2_0; in2_1; in2_2] =
    Ok (let '(o0, o1, o2) := gen_a_real_mulmT_row1_col3_c_r2 O in0_0 in0_1 in1_0 in1_1 in1_2 in1_3 in1_4 in1_5 in2_0 in2_1 in2_2 in [o0; o1; o2], w).
  Proof. intros. eexists. cbv. reflexivity. Qed.

  Theorem tie_mulmT_2x1x2 : forall in0_0 in0_1 in0_2 in0_3 in1_0 in1_1 in2_0 in2_1, exists w,
    run OpMulmT 2 1 2 [in0_0; in0_1; in0_2; in0_3] [in1_0; in1_1] [in2_0; in2_1] =
    Ok (let '(o0, o1) := gen_a_real_mulmT_row2_col1_c_r2 O in0_0 in0_1 in0_2 in0_3 in1_0 in1_1 in2_0 in2_1 in [o0; o1], w).
  Proof. intros. eexists. cbv. reflexivity. Qed.

  Theorem tie_mulmT_2x3x2 : forall in0_0 in0_1 in0_2 in0_3 in1_0 in1_1 in1_2 in1_3 in1_4 in1_5 in2_0 in2_1 in2_2 in2_3 in2_4 in2_5, exists w,
    run OpMulmT 2 3 2 [in0_0; in0_1; in0_2; in0_3] [in1_0; in1_1; in1_2; in1_3; in1_4; in1_5] [in2_0; in2_1; in2_2; in2_3; in2_4; in2_5] =
    Ok (let '(o0, o1, o2, o3, o4, o5) := gen_a_real_mulmT_row2_col3_c_r2 O in0_0 in0_1 in0_2 in0_3 in1_0 in1_1 in1_2 in1_3 in1_4 in1_5 in2_0 in2_1 in2_2 in2_3 in2_4 in2_5 in [o0; o1; o2; o3; o4; o5], w).
  Proof. intros. eexists. cbv. reflexivity. Qed.

  Theorem tie_mulmT_3x1x2 : forall in0_0 in0_1 in0_2 in0_3 in0_4 in0_5 in1_0 in1_1 in2_0 in2_1 in2_2, exists w,
    run OpMulmT 3 1 2 [in0_0; in0_1; in0_2; in0_3; in0_4; in0_5] [in1_0; in1_1] [in2_0; in2_1; in2_2] =
    Ok (let '(o0, o1, o2) := gen_a_real_mulmT_row3_col1_c_r2 O in0_0 in0_1 in0_2 in0_3 in0_4 in0_5 in1_0 in1_1 in2_0 in2_1 in2_2 in [o0; o1; o2], w).
  Proof. intros. eexists. cbv. reflexivity. Qed.

  Theorem tie_mulmT_3x3x2 : forall in0_0 in0_1 in0_2 in0_3 in0_4 in0_5 in1_0 in1_1 in1_2 in1_3 in1_4 in1_5 in2_0 in2_1 in2_2 in2_3 in2_4 in2_5 in2_6 in2_7 in2_8, exists w,
    run OpMulmT 3 3 2 [in0_0; in0_1; in0_2; in0_3; in0_4; in0_5] [in1_0; in1_1; in1_2; in1_3; in1_4; in1_5] [in2_0; in2_1; in2_2; in2_3; in2_4; in2_5; in2_6; in2_7; in2_8] =
    Ok (let '(o0, o1, o2, o3, o4, o5, o6, o7, o8) := gen_a_real_mulmT_row3_col3_c_r2 O in0_0 in0_1 in0_2 in0_3 in0_4 in0_5 in1_0 in1_1 in1_2 in1_3 in1_4 in1_5 in2_0 in2_1 in2_2 in2_3 in2_4 in2_5 in2_6 in2_7 in2_8 in [o0; o1; o2; o3; o4; o5; o6; o7; o8], w).
  Proof. intros. eexists. cbv. reflexivity. Qed.

  Theorem tie_mulTT_0x1x2 : forall in1_0 in1_1, exists w,
    run OpMulTT 0 1 2 [] [in1_0; in1_1] [] =
    Ok ([], w).
  Proof. intros. eexists. cbv. reflexivity. Qed.

  Theorem tie_mulTT_0x3x2 : forall in1_0 in1_1 in1_2 in1_3 in1_4 in1_5, exists w,
    run OpMulTT 0 3 2 [] [in1_0; in1_1; in1_2; in1_3; in1_4; in1_5] [] =
    Ok ([], w).
  Proof. intros. eexists. cbv. reflexivity. Qed.

  Theorem tie_mulTT_1x1x2 : forall in0_0 in1_0 in1_1 in2_0 in2_1, exists w,
    run OpMulTT 1 1 2 [in0_0] [in1_0; in1_1] [in2_0; in2_1] =
    Ok (let '(o0, o1) := gen_a_real_mulTT_row1_c_r1_col2 O in0_0 in1_0 in1_1 in2_0 in2_1 in [o0; o1], w).
  Proof. intros. eexists. cbv. reflexivity. Qed.

  Theorem tie_mulTT_1x3x2 : forall in0_0 in0_1 in0_2 in1_0 in1_1 in1_2 in1_3 in1_4 in1_5 in2_0 in2_1, exists w,
    run OpMulTT 1 3 2 [in0_0; in0_1; in0_2] [in1_0; in1_1; in1_2; in1_3; in1_4; in1_5] [in2_0; in2_1] =
    Ok (let '(o0, o1) := gen_a_real_mulTT_row1_c_r3_col2 O in0_0 in0_1 in0_2 in1_0 in1_1 in1_2 in1_3 in1_4 in1_5 in2_0 in2_1 in [o0; o1], w).
  Proof. intros. eexists. cbv. reflexivity. Qed.

  Theorem tie_mulTT_2x1x2 : forall in0_0 in0_1 in1_0 in1_1 in2_0 in2_1 in2_2 in2_3, exists w,
    run OpMulTT 2 1 2 [in0_0; in0_1] [in1_0; in1_1] [in2_0; in2_1; in2_2; in2_3] =
    Ok (let '(o0, o1, o2, o3) := gen_a_real_mulTT_row2_c_r1_col2 O in0_0 in0_1 in1_0 in1_1 in2_0 in2_1 in2_2 in2_3 in [o0; o1; o2; o3], w).
  Proof. intros. eexists. cbv. reflexivity. Qed.

  Theorem tie_mulTT_2x3x2 : forall in0_0 in0_1 in0_2 in0_3 in0_4 in0_5 in1_0 in1_1 in1_2 in1_3 in1_4 in1_5 in2_0 in2_1 in2_2 in2_3, exists w,
    run OpMulTT 2 3 2 [in0_0; in0_1; in0_2; in0_3; in0_4; in0_5] [in1_0; in1_1; in1_2; in1_3; in1_4; in1_5] [in2_0; in2_1; in2_2; in2_3] =
    Ok (let '(o0, o1, o2, o3) := gen_a_real_mulTT_row2_c_r3_col2 O in0_0 in0_1 in0_2 in0_3 in0_4 in0_5 in1_0 in1_1 in1_2 in1_3 in1_4 in1_5 in2_0 in2_1 in2_2 in2_3 in [o0; o1; o2; o3], w).
  Proof. intros. eexists. cbv. reflexivity. Qed.

  Theorem tie_mulTT_3x1x2 : forall in0_0 in0_1 in0_2 in1_0 in1_1 in2_0 in2_1 in2_2 in2_3 in2_4 in2_5, exists w,
    run OpMulTT 3 1 2 [in0_0; in0_1; in0_2] [in1_0; in1_1] [in2_0; in2_1; in2_2; in2_3; in2_4; in2_5] =
    Ok (let '(o0, o1, o2, o3, o4, o5) := gen_a_real_mulTT_row3_c_r1_col2 O in0_0 in0_1 in0_2 in1_0 in1_1 in2_0 in2_1 in2_2 in2_3 in2_4 in2_5 in [o0; o1; o2; o3; o4; o5], w).
  Proof. intros. eexists. cbv. reflexivity. Qed.

  Theorem tie_mulTT_3x3x2 : forall in0_0 in0_1 in0_2 in0_3 in0_4 in0_5 in0_6 in0_7 in0_8 in1_0 in1_1 in1_2 in1_3 in1_4 in1_5 in2_0 in2_1 in2_2 in2_3 in2_4 in2_5, exists w,
    run OpMulTT 3 3 2 [in0_0; in0_1; in0_2; in0_3; in0_4; in0_5; in0_6; in0_7; in0_8] [in1_0; in1_1; in1_2; in1_3; in1_4; in1_5] [in2_0; in2_1; in2_2; in2_3; in2_4; in2_5] =
    Ok (let '(o0, o1, o2, o3, o4, o5) := gen_a_real_mulTT_row3_c_r3_col2 O in0_0 in0_1 in0_2 in0_3 in0_4 in0_5 in0_6 in0_7 in0_8 in1_0 in1_1 in1_2 in1_3 in1_4 in1_5 in2_0 in2_1 in2_2 in2_3 in2_4 in2_5 in [o0; o1; o2; o3; o4; o5], w).
  Proof. intros. eexists. cbv. reflexivity. Qed.
End Tie.
