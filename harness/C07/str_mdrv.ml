(* C07 (string part) model driver: reads the same case file as harness/C06/drv.c run in "c07"
   mode, runs the extracted ledger machine (coq/C07/StrFaultDefs.v, [fstep]) and prints the same
   canonical lines.  Only glue lives here: parsing, resolving size expressions against the model's
   own state, topping up a schedule that ends in '*', printing. *)
open Strfault

let rec pos_of_int i =
  if i = 1 then XH
  else if i land 1 = 0 then XO (pos_of_int (i lsr 1))
  else XI (pos_of_int (i lsr 1))
let n_of_int i = if i = 0 then N0 else Npos (pos_of_int i)
let rec int_of_pos = function
  | XH -> 1
  | XO p -> 2 * int_of_pos p
  | XI p -> 2 * int_of_pos p + 1
let int_of_n = function N0 -> 0 | Npos p -> int_of_pos p
let z_of_int i =
  if i = 0 then Z0 else if i > 0 then Zpos (pos_of_int i) else Zneg (pos_of_int (- i))
let int_of_z = function Z0 -> 0 | Zpos p -> int_of_pos p | Zneg p -> - (int_of_pos p)

(* decimal literal of any size (a_size arguments may exceed OCaml's int) *)
let n_of_string s =
  let times10 x = let x2 = N.add x x in let x4 = N.add x2 x2 in let x5 = N.add x4 x in N.add x5 x5 in
  let acc = ref N0 in
  String.iter (fun c ->
      if c >= '0' && c <= '9' then
        acc := N.add (times10 !acc) (n_of_int (Char.code c - 48))) s;
  !acc

let byte_tab = Array.init 256 n_of_int

let hexv c =
  if c >= '0' && c <= '9' then Char.code c - 48
  else if c >= 'a' && c <= 'f' then Char.code c - 87
  else 0

let parse_blob tok =
  if tok = "-" then [||]
  else Array.init (String.length tok / 2) (fun i -> hexv tok.[2 * i] * 16 + hexv tok.[2 * i + 1])

(* size expression, see drv.c: decimal | '=' | [NMR][+-]k with saturating subtraction *)
let parse_size tok (t : str) bloblen : n =
  if tok = "=" then n_of_int bloblen
  else if tok.[0] >= '0' && tok.[0] <= '9' then n_of_string tok
  else begin
    let nu = int_of_n t.num and me = int_of_n t.mem in
    let base = match tok.[0] with
      | 'N' -> nu
      | 'M' -> me
      | _ -> if me >= nu then me - nu else 0 in
    let k = int_of_string (String.sub tok 2 (String.length tok - 2)) in
    if tok.[1] = '+' then n_of_int (base + k)
    else n_of_int (if base >= k then base - k else 0)
  end

let make_data blob n : n list =
  let bl = Array.length blob in
  List.init n (fun i -> if bl = 0 then N0 else byte_tab.(blob.(i mod bl)))

let buf = Buffer.create 65536

let add_hex (l : n list) =
  if l = [] then Buffer.add_char buf '-'
  else List.iter (fun b -> Buffer.add_string buf (Printf.sprintf "%02x" (int_of_n b))) l

let add_str name (s : str) =
  match s.ptr with
  | None ->
    Buffer.add_string buf (Printf.sprintf " %s=0,%d,%d,0,-" name (int_of_n s.num) (int_of_n s.mem))
  | Some b ->
    Buffer.add_string buf (Printf.sprintf " %s=1,%d,%d,%d," name (int_of_n s.num) (int_of_n s.mem)
                             (List.length b));
    add_hex b

let add_ev = function
  | EvMalloc (n, ok) -> Buffer.add_string buf (Printf.sprintf "M%d%c" (int_of_n n) (if ok then '+' else '-'))
  | EvRealloc (o, n, ok) ->
    Buffer.add_string buf (Printf.sprintf "R%d>%d%c" (int_of_n o) (int_of_n n) (if ok then '+' else '-'))
  | EvFree o -> Buffer.add_string buf (Printf.sprintf "F%d" (int_of_n o))
  | EvFreeNull -> Buffer.add_string buf "F0"

let tgt_of tok = if tok = "B" then TB else TA

let add_obj name (sl : slot) (s : str) =
  match sl with
  | SAbsent -> Buffer.add_string buf (Printf.sprintf " %s=3,0,0,0,-" name)
  | _ -> add_str name s

(* schedule: "1101" (then every request is granted) or "110*" (the last digit for ever) *)
let tail_fail = ref false

let parse_sched s =
  let n = String.length s in
  if n >= 2 && s.[n - 1] = '*' then begin
    tail_fail := (s.[n - 2] = '0');
    List.init (n - 1) (fun i -> s.[i] = '1')
  end else begin
    tail_fail := false;
    List.init n (fun i -> s.[i] = '1')
  end

let with_sched (st : fstate) sc = { st with base = { st.base with sch = sc } }

let top_up (st : fstate) =
  if !tail_fail && List.length st.base.sch < 8
  then with_sched st (st.base.sch @ [false; false; false; false; false; false; false; false])
  else st

let () =
  let st = ref (f_init []) in
  let k = ref 0 in
  (try
     while true do
       let line = input_line stdin in
       let tok = Array.of_list (List.filter (fun s -> s <> "") (String.split_on_char ' ' (String.trim line))) in
       if Array.length tok > 0 then begin
         match tok.(0) with
         | "case" ->
           st := f_init [];
           tail_fail := false;
           k := 0;
           print_string ("case " ^ tok.(1) ^ "\n")
         | "sched" ->
           let s = if Array.length tok > 1 then tok.(1) else "" in
           st := with_sched !st (parse_sched s)
         | "end" ->
           tail_fail := false;
           let fin = destroy (with_sched !st []) in
           let l = live_list fin.led in
           Buffer.clear buf;
           Buffer.add_string buf (Printf.sprintf "end live=%d" (List.length l));
           List.iteri (fun i (_, n) -> Buffer.add_string buf (Printf.sprintf "%c%d" (if i = 0 then ':' else ',') (int_of_n n))) l;
           if fin.led.lerr then Buffer.add_string buf " LEDGER-ERROR";
           Buffer.add_char buf '\n';
           print_string (Buffer.contents buf)
         | o ->
           st := top_up !st;
           let fs = !st in
           let m = fs.base in
           let t = if Array.length tok > 1 then tgt_of tok.(1) else TA in
           let ts = sel t m in
           let data bi si =
             let blob = parse_blob tok.(bi) in
             let n = int_of_n (parse_size tok.(si) ts (Array.length blob)) in
             make_data blob n in
           let set bi = let blob = parse_blob tok.(bi) in make_data blob (Array.length blob) in
           let opv =
             match o with
             | "ctor" -> Some (FCtor t)
             | "new" -> Some (FNew t)
             | "die" -> Some (FDie t)
             | "dtor" -> Some (FOp (ODtor t))
             | "swap" -> Some (FOp OSwap)
             | "exit" -> Some (FOp (OExit t))
             | "setm" -> Some (FOp (OSetm (t, parse_size tok.(2) ts 0)))
             | "setm_" -> Some (FOp (OSetm_ (t, parse_size tok.(2) ts 0)))
             | "setn" -> Some (FOp (OSetn (t, parse_size tok.(2) ts 0)))
             | "setn_" -> Some (FOp (OSetn_ (t, parse_size tok.(2) ts 0)))
             | "getc" -> Some (FOp (OGetc t))
             | "getc_" -> Some (FOp (OGetc_ t))
             | "catc" -> Some (FOp (OCatc (t, z_of_int (int_of_string tok.(2)))))
             | "catc_" -> Some (FOp (OCatc_ (t, z_of_int (int_of_string tok.(2)))))
             | "getn" -> Some (FOp (OGetn (t, tok.(2) = "1", parse_size tok.(3) ts 0)))
             | "getn_" -> Some (FOp (OGetn_ (t, tok.(2) = "1", parse_size tok.(3) ts 0)))
             | "catn" -> Some (FOp (OCatn (t, data 2 3)))
             | "catn_" -> Some (FOp (OCatn_ (t, data 2 3)))
             | "cats" -> Some (FOp (OCats (t, data 2 3)))
             | "cats_" -> Some (FOp (OCats_ (t, data 2 3)))
             | "cmpn" -> Some (FOp (OCmpn (t, data 2 3)))
             | "cmps" -> Some (FOp (OCmps (t, data 2 3)))
             | "cat" -> Some (FOp (OCat (t, tok.(2) = "1")))
             | "cat_" -> Some (FOp (OCat_ (t, tok.(2) = "1")))
             | "catf" -> Some (FOp (OCatf (t, data 3 4)))
             | "rtrim" -> Some (FOp (ORtrim (t, set 2)))
             | "rtrim_" -> Some (FOp (ORtrim_ (t, set 2)))
             | "ltrim" -> Some (FOp (OLtrim (t, set 2)))
             | "ltrim_" -> Some (FOp (OLtrim_ (t, set 2)))
             | "trim" -> Some (FOp (OTrim (t, set 2)))
             | "trim_" -> Some (FOp (OTrim_ (t, set 2)))
             | "utf" -> Some (FOp (OUtf (t, n_of_string tok.(2))))
             | "cmp" -> Some (FOp (OCmp t))
             | _ -> None in
           Buffer.clear buf;
           Buffer.add_string buf (Printf.sprintf "%d %s r=" !k o);
           incr k;
           (match opv with
            | None -> Buffer.add_string buf "BADOP -\n"
            | Some opv ->
              let ((st', r), evs) = fstep opv fs in
              st := st';
              (match r with
               | FSkip -> Buffer.add_string buf "skip"
               | FR (RInt z) -> Buffer.add_string buf (Printf.sprintf "i%d" (int_of_z z))
               | FR (RSize (n, d)) -> Buffer.add_string buf (Printf.sprintf "z%d:" (int_of_n n)); add_hex d
               | FR (RPtr None) -> Buffer.add_string buf "p0"
               | FR (RPtr (Some b)) -> Buffer.add_char buf 'p'; add_hex b
               | FR RVoid -> Buffer.add_char buf 'v'
               | FR RFault -> Buffer.add_char buf 'F');
              add_obj "A" st'.slA st'.base.sA;
              add_obj "B" st'.slB st'.base.sB;
              Buffer.add_string buf " ev=";
              if evs = [] then Buffer.add_char buf '-'
              else List.iteri (fun i e -> if i > 0 then Buffer.add_char buf ','; add_ev e) evs;
              if st'.led.lerr then Buffer.add_string buf " LEDGER-ERROR";
              Buffer.add_char buf '\n');
           print_string (Buffer.contents buf)
       end
     done
   with End_of_file -> ())
