(* C07 (queue part) model driver: reads the same case file as harness/C07/que_drv.c, runs the
   extracted repaired queue machine (coq/C07/QueFaultDefs.v [qf_step], on top of C05's [q_step])
   and prints the same canonical lines.  Only glue lives here: parsing, topping up a schedule that
   ends in '*', printing. *)
open Quefault

let rec pos_of_int i = if i <= 1 then XH else if i land 1 = 0 then XO (pos_of_int (i lsr 1)) else XI (pos_of_int (i lsr 1))
let n_of_int i = if i <= 0 then N0 else Npos (pos_of_int i)
let rec int_of_pos = function XH -> 1 | XO p -> 2 * int_of_pos p | XI p -> 2 * int_of_pos p + 1
let int_of_n = function N0 -> 0 | Npos p -> int_of_pos p
let int_of_z = function Z0 -> 0 | Zpos p -> int_of_pos p | Zneg p -> - (int_of_pos p)
let z_of_int i = if i = 0 then Z0 else if i > 0 then Zpos (pos_of_int i) else Zneg (pos_of_int (-i))
let rec int_of_nat = function O -> 0 | S k -> 1 + int_of_nat k

let rec pos_of_u64 (x : int64) =
  if Int64.equal x 1L then XH
  else
    let rest = Int64.shift_right_logical x 1 in
    if Int64.equal (Int64.logand x 1L) 0L then XO (pos_of_u64 rest) else XI (pos_of_u64 rest)
let n_of_u64 x = if Int64.equal x 0L then N0 else Npos (pos_of_u64 x)
let n_of_size s = n_of_u64 (Int64.of_string ("0u" ^ s))
let z_of_diff s =
  let x = Int64.of_string s in
  if Int64.equal x 0L then Z0
  else if Int64.compare x 0L > 0 then Zpos (pos_of_u64 x)
  else Zneg (pos_of_u64 (Int64.neg x))

let ids l = "[" ^ String.concat "," (List.map (fun x -> string_of_int (int_of_n x)) l) ^ "]"

let dump_q (w : qworld) =
  let b = Buffer.create 128 in
  let fuel = fuel_of w in
  let vals = ref [] in
  List.iter (fun s ->
      let q = getq w s in
      let f = ring_of w.w_h (qaddr s) fuel and bk = ring_of_back w.w_h (qaddr s) fuel in
      let sh = function Some l -> ids l | None -> "BROKEN" in
      (match f with Some l -> vals := !vals @ l | None -> ());
      Buffer.add_string b
        (Printf.sprintf " %s:n=%d,z=%d,m=%d,f=%s,b=%s,p=%s" (if s then "B" else "A")
           (int_of_n q.q_num) (int_of_n q.q_siz) (int_of_n q.q_mem) (sh f) (sh bk) (ids q.q_pool)))
    [false; true];
  Buffer.add_string b " v=[";
  Buffer.add_string b
    (String.concat ","
       (List.map (fun x -> Printf.sprintf "%d:%s" (int_of_n x)
                     (match vget w.w_val x with Some v -> string_of_int (int_of_z v) | None -> "?")) !vals));
  Buffer.add_string b "] t=[";
  Buffer.add_string b
    (String.concat ","
       (List.rev_map (function
            | RNode (sz, ok) -> Printf.sprintf "N%d:%d" (int_of_n sz) (if ok then 1 else 0)
            | RPool (sz, ok) -> Printf.sprintf "P%d:%d" (int_of_n sz) (if ok then 1 else 0)
            | RResize (sz, ok) -> Printf.sprintf "R%d:%d" (int_of_n sz) (if ok then 1 else 0)) w.w_trace));
  Buffer.add_string b (Printf.sprintf "] L=%d" (int_of_nat (live_blocks w)));
  Buffer.contents b

let sel s = (s = "1" || s = "B")
let flag s = (s = "1")
let ni s = n_of_int (int_of_string s)
let zi s = z_of_int (int_of_string s)

let parse_qop op a =
  match op, a with
  | "reset", [ s; z ] -> QReset (sel s, ni z)
  | "push_fore", [ s; v ] -> QPushFore (sel s, zi v)
  | "push_back", [ s; v ] -> QPushBack (sel s, zi v)
  | "pull_fore", [ s ] -> QPullFore (sel s)
  | "pull_back", [ s ] -> QPullBack (sel s)
  | "insert", [ s; i; v ] -> QInsert (sel s, n_of_size i, zi v)
  | "remove", [ s; i ] -> QRemove (sel s, n_of_size i)
  | "at", [ s; i ] -> QAt (sel s, z_of_diff i)
  | "fore", [ s ] -> QFore (sel s)
  | "back", [ s ] -> QBack (sel s)
  | "sort_fore", [ s; c ] -> QSortFore (sel s, flag c)
  | "sort_back", [ s; c ] -> QSortBack (sel s, flag c)
  | "push_sort", [ s; c; k ] -> QPushSort (sel s, flag c, zi k)
  | "swap_e", [ l; r ] -> QSwapElem (ni l, ni r)
  | "swap", [ s1; s2 ] -> QSwap (sel s1, sel s2)
  | "drop", [ s ] -> QDrop (sel s)
  | "setz", [ s; z ] -> QSetz (sel s, ni z)
  | _ -> failwith ("bad queue op " ^ op)

let tail_fail = ref false

let parse_sched s =
  let n = String.length s in
  if n >= 2 && s.[n - 1] = '*' then begin
    tail_fail := (s.[n - 2] = '0');
    List.init (n - 1) (fun i -> s.[i] = '1')
  end else begin
    tail_fail := false;
    List.init n (fun i -> s.[i] = '1')
  end

let top_up (w : qworld) =
  if !tail_fail && List.length w.w_sched < 8
  then set_sched w (w.w_sched @ [false; false; false; false; false; false; false; false])
  else w

(* "asfound": a_que_drop / a_que_setz as in the tree before proposed_fixes/C07-que-*.diff (C05's
   q_step); the check uses it only to recognise such a tree and to keep the tie meaningful on it *)
let asfound = Array.length Sys.argv > 1 && Sys.argv.(1) = "asfound"
let step w o = if asfound then qo_step w o else qf_step w o

let () =
  let st = ref None in
  let k = ref 0 in
  let out = Buffer.create (1 lsl 16) in
  let flush_out () = print_string (Buffer.contents out); Buffer.clear out in
  (try
     while true do
       let line = input_line stdin in
       let toks = List.filter (fun s -> s <> "") (String.split_on_char ' ' (String.trim line)) in
       (match toks with
        | [] -> ()
        | [ "case"; id ] ->
            st := Some q_world0;
            tail_fail := false;
            k := 0;
            Buffer.add_string out ("case " ^ id ^ "\n")
        | "sched" :: rest ->
            (match !st with
             | Some w -> st := Some (set_sched w (parse_sched (match rest with s :: _ -> s | [] -> "")))
             | None -> ())
        | [ "end" ] ->
            tail_fail := false;
            (match !st with
             | Some w ->
                 (match q_destroy (set_sched w []) with
                  | Ok w' -> Buffer.add_string out (Printf.sprintf "end live=%d\n" (int_of_nat (live_blocks w')))
                  | _ -> Buffer.add_string out "end fault\n")
             | None -> Buffer.add_string out "end live=? dead\n");
            st := None
        | op :: args -> (
            match !st with
            | None -> Buffer.add_string out (Printf.sprintf "%d %s dead\n" !k op); incr k
            | Some w -> (
                let w = top_up w in
                Buffer.add_string out (Printf.sprintf "%d %s " !k op);
                incr k;
                match step w (parse_qop op args) with
                | Ok (w', r) ->
                    st := Some w';
                    Buffer.add_string out (Printf.sprintf "r=%d%s\n" (int_of_z r) (dump_q w'))
                | Fault -> st := None; Buffer.add_string out "fault\n"
                | NoFuel -> st := None; Buffer.add_string out "nofuel\n")));
       if Buffer.length out > 60000 then flush_out ()
     done
   with End_of_file -> ());
  flush_out ()
