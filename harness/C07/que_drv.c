/* C07 (queue part) implementation driver: runs src/que.c (compiled from $VERIF_REPO) on a case
   file and prints one canonical line per operation; harness/C07/que_mdrv.ml (the extracted Rocq
   model) reads the same file and must print the same lines.

     case <id> / sched <0/1...>[*] / <op> <args> ... / end

   a_alloc is replaced by a shim that
     - answers from the schedule (one digit per request of size > 0; "110*" repeats the last
       digit for ever; an exhausted schedule grants),
     - logs every request as <kind><size>:<answer>  (N node, P pool array, R resize of a node),
     - keeps a ledger of EVERY live block (element nodes and pool arrays) and aborts with a
       HARNESS line when a release or resize names a block that is not live,
     - names node blocks 3,4,5,... in allocation order (the name follows the block through realloc).
   Each line ends with L=<number of live blocks>; "end" runs a_que_dtor on both objects and prints
   the number of blocks still live.  Built with ASan+UBSan; LeakSanitizer watches as well. */
#include "a/que.h"
#include <stdio.h>
#include <stdlib.h>
#include <string.h>

#define MAXB 4096
static struct
{
    void *addr;
    size_t size;
    int id; /* node name, 0 = pool array */
} blk[MAXB];
static int nblk, next_id;
static char sched[4096];
static size_t nsched, isched;
static char sched_tail;
static char trace[8192];
static int expect_node;
static a_que que[2];

static int bfind(void const *p)
{
    int i;
    for (i = 0; i < nblk; ++i)
    {
        if (blk[i].addr == p) { return i; }
    }
    return -1;
}

static int qid(a_list const *p)
{
    int i;
    if (p == &que[0].head_) { return 1; }
    if (p == &que[1].head_) { return 2; }
    i = bfind(p);
    return (i < 0 || blk[i].id == 0) ? -1 : blk[i].id;
}

static a_list *qptr(int id)
{
    int i;
    for (i = 0; i < nblk; ++i)
    {
        if (blk[i].id == id) { return (a_list *)blk[i].addr; }
    }
    return A_NULL;
}

static void harness_abort(char const *what)
{
    printf("\nHARNESS: %s\n", what);
    fflush(stdout);
    abort();
}

/* a destructor without side effects on the queue: it only counts its calls.  a_que_drop / a_que_setz get it instead of NULL so that
   "a failed operation leaves the previous contents intact" also covers the elements themselves: a call that reports failure must not
   have destroyed any element (the model is the dtor = NULL one; a counting destructor does not change what it describes) */
static long ndtor;
static void count_dtor(void *p)
{
    (void)p;
    ++ndtor;
}

static void *shim(void *addr, a_size size)
{
    int ok, i;
    char kind;
    void *p;
    i = addr ? bfind(addr) : -1;
    if (addr && i < 0) { harness_abort("a_alloc on a block that is not live"); }
    if (size == 0)
    {
        if (addr)
        {
            blk[i] = blk[--nblk];
            free(addr);
        }
        return A_NULL;
    }
    if (isched < nsched) { ok = sched[isched++] == '1'; }
    else if (sched_tail) { ok = sched_tail == '1'; }
    else { ok = 1; }
    if (!addr) { kind = expect_node ? 'N' : 'P'; }
    else { kind = blk[i].id ? 'R' : 'P'; }
    sprintf(trace + strlen(trace), "%s%c%lu:%d", trace[0] ? "," : "", kind, (unsigned long)size, ok);
    if (!ok) { return A_NULL; }
    /* always move, so that a stale pointer is caught by ASan */
    p = malloc(size);
    if (!p) { abort(); }
    memset(p, 0xA5, size);
    if (addr)
    {
        memcpy(p, addr, blk[i].size < size ? blk[i].size : size);
        free(addr);
        blk[i].addr = p;
        blk[i].size = size;
    }
    else
    {
        if (nblk >= MAXB) { abort(); }
        blk[nblk].addr = p;
        blk[nblk].size = size;
        blk[nblk].id = kind == 'N' ? next_id++ : 0;
        ++nblk;
    }
    return p;
}

static void pid_(int id)
{
    if (id < 0) { (void)putchar('?'); }
    else { printf("%d", id); }
}

static int walk(a_que const *q, int fwd, int *ids, int *cnt)
{
    a_list const *const head = &q->head_;
    a_list const *it = fwd ? head->next : head->prev;
    int n = 0;
    while (it != head)
    {
        int const id = qid(it);
        if (id < 3 || n > nblk) { return 0; }
        ids[n++] = id;
        it = fwd ? it->next : it->prev;
    }
    *cnt = n;
    return 1;
}

static int dump_q(void)
{
    static int f[MAXB + 2], b[MAXB + 2], all[2 * MAXB + 4];
    int s, i, nall = 0, good = 1;
    for (s = 0; s < 2; ++s)
    {
        a_que const *q = &que[s];
        int nf = 0, nb = 0;
        int const okf = walk(q, 1, f, &nf), okb = walk(q, 0, b, &nb);
        printf(" %c:n=%lu,z=%lu,m=%lu,f=", s ? 'B' : 'A', (unsigned long)a_que_num(q), (unsigned long)a_que_siz(q),
               (unsigned long)q->mem_);
        if (okf)
        {
            (void)putchar('[');
            for (i = 0; i < nf; ++i)
            {
                printf("%s%d", i ? "," : "", f[i]);
                all[nall++] = f[i];
            }
            (void)putchar(']');
        }
        else
        {
            printf("BROKEN");
            good = 0;
        }
        printf(",b=");
        if (okb)
        {
            (void)putchar('[');
            for (i = 0; i < nb; ++i) { printf("%s%d", i ? "," : "", b[i]); }
            (void)putchar(']');
        }
        else
        {
            printf("BROKEN");
            good = 0;
        }
        printf(",p=[");
        for (i = (int)q->cur_; i-- > 0;)
        {
            int const id = qid(q->ptr_[i]);
            if (id < 0) { good = 0; }
            pid_(id);
            if (i) { (void)putchar(','); }
        }
        (void)putchar(']');
    }
    printf(" v=[");
    for (i = 0; i < nall; ++i)
    {
        a_list *p = qptr(all[i]);
        printf("%s%d:%d", i ? "," : "", all[i], p ? (int)*(unsigned char *)(p + 1) : -1);
    }
    printf("] t=[%s] L=%d\n", trace, nblk);
    return good;
}

static int cmp_small(void const *lhs, void const *rhs)
{
    int const a = *(unsigned char const *)lhs, b = *(unsigned char const *)rhs;
    return (a > b) - (a < b);
}

static int cmp_large(void const *lhs, void const *rhs)
{
    int const a = *(unsigned char const *)lhs, b = *(unsigned char const *)rhs;
    return (a < b) - (a > b);
}

static void put(void *p, long v)
{
    if (p) { *(unsigned char *)p = (unsigned char)v; }
}

static long ret_id(void *p)
{
    if (!p) { return 0; }
    return qid((a_list *)p - 1);
}

static int sel(char const *t) { return t[0] == '1' || t[0] == 'B'; }

static int run_q(char const *op, char **t, int n, long *res)
{
    int const s = n > 0 ? sel(t[0]) : 0;
    a_que *const q = &que[s];
    *res = 0;
    trace[0] = 0;
    expect_node = 0;
    if (!strcmp(op, "reset") && n == 2)
    {
        a_que_dtor(q, A_NULL);
        a_que_ctor(q, (a_size)strtoull(t[1], A_NULL, 10));
    }
    else if (!strcmp(op, "push_fore") && n == 2)
    {
        void *p;
        expect_node = 1;
        p = a_que_push_fore(q);
        put(p, atol(t[1]));
        *res = ret_id(p);
    }
    else if (!strcmp(op, "push_back") && n == 2)
    {
        void *p;
        expect_node = 1;
        p = a_que_push_back(q);
        put(p, atol(t[1]));
        *res = ret_id(p);
    }
    else if (!strcmp(op, "pull_fore") && n == 1) { *res = ret_id(a_que_pull_fore(q)); }
    else if (!strcmp(op, "pull_back") && n == 1) { *res = ret_id(a_que_pull_back(q)); }
    else if (!strcmp(op, "insert") && n == 3)
    {
        void *p;
        expect_node = 1;
        p = a_que_insert(q, (a_size)strtoull(t[1], A_NULL, 10));
        put(p, atol(t[2]));
        *res = ret_id(p);
    }
    else if (!strcmp(op, "remove") && n == 2) { *res = ret_id(a_que_remove(q, (a_size)strtoull(t[1], A_NULL, 10))); }
    else if (!strcmp(op, "at") && n == 2) { *res = ret_id(a_que_at(q, (a_diff)strtoll(t[1], A_NULL, 10))); }
    else if (!strcmp(op, "fore") && n == 1) { *res = ret_id(a_que_fore(q)); }
    else if (!strcmp(op, "back") && n == 1) { *res = ret_id(a_que_back(q)); }
    else if (!strcmp(op, "sort_fore") && n == 2) { a_que_sort_fore(q, t[1][0] == '1' ? cmp_small : cmp_large); }
    else if (!strcmp(op, "sort_back") && n == 2) { a_que_sort_back(q, t[1][0] == '1' ? cmp_small : cmp_large); }
    else if (!strcmp(op, "push_sort") && n == 3)
    {
        unsigned char const key = (unsigned char)atol(t[2]);
        void *p;
        expect_node = 1;
        p = a_que_push_sort(q, &key, t[1][0] == '1' ? cmp_small : cmp_large);
        put(p, key);
        *res = ret_id(p);
    }
    else if (!strcmp(op, "swap_e") && n == 2)
    {
        a_list *const l = qptr(atoi(t[0])), *const r = qptr(atoi(t[1]));
        if (!l || !r) { return 0; }
        a_que_swap_(l + 1, r + 1);
    }
    else if (!strcmp(op, "swap") && n == 2) { a_que_swap(&que[sel(t[0])], &que[sel(t[1])]); }
    else if (!strcmp(op, "drop") && n == 1)
    {
        long const before = ndtor;
        *res = a_que_drop(q, count_dtor);
        if (*res != 0 && ndtor != before) { harness_abort("a_que_drop reported failure but had already called the element destructor"); }
    }
    else if (!strcmp(op, "setz") && n == 2)
    {
        long const before = ndtor;
        *res = a_que_setz(q, (a_size)strtoull(t[1], A_NULL, 10), count_dtor);
        if (*res != 0 && ndtor != before) { harness_abort("a_que_setz reported failure but had already called the element destructor"); }
    }
    else { return 0; }
    return 1;
}

static void set_sched(char const *src)
{
    size_t n;
    snprintf(sched, sizeof(sched), "%s", src);
    n = strlen(sched);
    sched_tail = 0;
    if (n >= 2 && sched[n - 1] == '*')
    {
        sched_tail = sched[n - 2];
        sched[--n] = 0;
    }
    nsched = n;
    isched = 0;
}

int main(void)
{
    static char line[8192];
    int dead = 1;
    long k = 0;
    a_alloc = shim;
    while (fgets(line, sizeof(line), stdin))
    {
        char *tok[300];
        int nt = 0;
        char *p = strtok(line, " \t\r\n");
        while (p && nt < 300)
        {
            tok[nt++] = p;
            p = strtok(A_NULL, " \t\r\n");
        }
        if (nt == 0) { continue; }
        if (!strcmp(tok[0], "case") && nt == 2)
        {
            nblk = 0;
            next_id = 3;
            set_sched("");
            trace[0] = 0;
            a_que_ctor(&que[0], 8);
            a_que_ctor(&que[1], 8);
            dead = 0;
            k = 0;
            printf("case %s\n", tok[1]);
            fflush(stdout);
            continue;
        }
        if (!strcmp(tok[0], "sched"))
        {
            set_sched(nt > 1 ? tok[1] : "");
            continue;
        }
        if (!strcmp(tok[0], "end"))
        {
            int i;
            set_sched("");
            trace[0] = 0;
            if (!dead)
            {
                a_que_dtor(&que[0], A_NULL);
                a_que_dtor(&que[1], A_NULL);
            }
            printf("end live=%d%s\n", nblk, dead ? " dead" : "");
            fflush(stdout);
            /* what a defect left behind is given back by name */
            for (i = 0; i < nblk; ++i) { free(blk[i].addr); }
            nblk = 0;
            dead = 1;
            continue;
        }
        if (dead)
        {
            printf("%ld %s dead\n", k++, tok[0]);
            continue;
        }
        {
            long res;
            printf("%ld %s ", k++, tok[0]);
            fflush(stdout);
            if (run_q(tok[0], tok + 1, nt - 1, &res))
            {
                printf("r=%ld", res);
                if (!dump_q()) { dead = 1; }
            }
            else
            {
                puts("fault");
                dead = 1;
            }
            fflush(stdout);
        }
    }
    return 0;
}
