/* C06 correspondence driver: runs a case file against liba's a_str (src/str.c, src/utf.c,
   src/a.c compiled from $VERIF_REPO) and prints one canonical line per operation.
   The model driver harness/C06/mdrv.ml reads the same file and must print the same lines.

   Allocation goes through a replacement a_alloc that
     - logs every request (M<size>+/-  R<old>><size>+/-  F<old>  F0),
     - fails the requests scheduled by the case ("sched 1101": one digit per request of size > 0),
     - always moves on realloc and fills fresh bytes with 0xA5 (canonical "indeterminate"),
     - keeps a ledger of live blocks (sizes are printed; "end live=<n>" at the end of a case).
   Built with -fsanitize=address,undefined: an out-of-block access aborts the process; the check
   (checks/C06.py) turns the abort into a failing input.

   Line format (one per operation; the model driver prints the same):
     <k> <op> r=<ret> A=<ptr>,<num>,<mem>,<block size>,<block hex> B=... ev=<allocator events> acc=<..> q=<..>
   ptr: 0 NULL, 1 live block, 2 neither (3 = object absent, c07 mode only).  The last two tokens (not in c07 mode) come from
   the READ-ONLY API, evaluated on both objects after every operation:
     acc=ok | acc=BAD:<function>:<got>:<want>:<object><index>
       (also BAD:a_str_new|a_str_ctor|A_STR_INIT:<ptr!=NULL>,<num>,<mem>:0,0,0:<object>0 when "mk" did not give the empty state)
       a_str_ptr/len/mem against the fields; a_str_at for every index 0..mem+1 (boundary set when mem > 64) and huge indices;
       a_str_at_ for every index < mem (its precondition; only with a block); a_str_of for every index -(num+2)..mem+1 and
       PTRDIFF_MIN/MAX.  Expected values are recomputed here from the fields.
     q=<A>;<B>;<c>   with h = (k * 2654435761 + 12345) mod 2^32 (k = operation number, scrambled to reach every index class)
                     <X> = <a_str_ptr>,<a_str_len>,<a_str_mem>,<a_str_at_(h%mem)>,<a_str_at(h/7%(mem+2))>,
                           <a_str_of(h/3%(num+mem+3)-(num+1))>,<a_utf_len(x,&stop)>,<stop>,<a_utf_len(x,NULL)>
                     <c> = sign of a_str_cmp_(a_str_ptr(A), h/5%(len(A)+1), a_str_ptr(B), a_str_len(B))
       pointers are printed as offsets into the object's block: '-' NULL, decimal offset (0..block size), 'W' anything else;
       'x' = not called (a_str_at_ without a block or with mem 0; a_utf_len / a_str_cmp_ when num > mem, out of contract).
       The model (coq/C06/StrAccDefs.v probe_str / probe_cmp) computes the same values.
   Case directive "mk <a><b>" (before the first operation, not in c07 mode) rebuilds the two objects: s = a_str_ctor on static
   storage / a_str_dtor, h = a_str_new / a_str_die (the object itself is a heap block), i = A_STR_INIT initialiser / a_str_dtor.
   Operation "catv" is "catf" through a direct a_str_catv(ctx, fmt, va_list) call.

   With an argument ("c07") the driver also serves checks/C07_str.py: objects have a life cycle
   (ctor T / new T / die T; operations on an absent object print r=skip), the caller's free of the
   block returned by a_str_exit is part of the logged trace, "sched 110*" repeats its last digit
   for ever, and "end" destroys what exists and prints the sizes of the blocks still live. */
#if !defined _GNU_SOURCE
#define _GNU_SOURCE
#endif
#include "a/str.h"
#include "a/utf.h"
#include <stdio.h>
#include <stdlib.h>
#include <string.h>
#include <stdarg.h>

#define POISON 0xA5
#define MAXBLK 64

static struct { void *p; size_t n; } led[MAXBLK];
static int nled;
static char const *sched = "";
static char sched_tail; /* '0' / '1': the answer once the schedule string is used up ("...*") */
static int logging;
static int c07;
static char evbuf[4096];
static size_t evlen;

static void evlog(char const *fmt, ...)
{
    va_list va;
    if (!logging) { return; }
    va_start(va, fmt);
    if (evlen && evlen < sizeof(evbuf) - 1) { evbuf[evlen++] = ','; }
    evlen += (size_t)vsnprintf(evbuf + evlen, sizeof(evbuf) - evlen, fmt, va);
    if (evlen >= sizeof(evbuf)) { evlen = sizeof(evbuf) - 1; }
    va_end(va);
}

static int led_find(void *p)
{
    int i;
    for (i = 0; i < nled; ++i)
    {
        if (led[i].p == p) { return i; }
    }
    return -1;
}

static void *shim(void *addr, a_size size)
{
    int ok = 1, i = addr ? led_find(addr) : -1;
    unsigned char *p;
    if (addr && i < 0)
    {
        printf("HARNESS: a_alloc on a block that is not live\n");
        fflush(stdout);
        abort();
    }
    if (size == 0)
    {
        if (addr)
        {
            evlog("F%zu", led[i].n);
            free(addr);
            led[i] = led[--nled];
        }
        else { evlog("F0"); }
        return NULL;
    }
    if (*sched) { ok = (*sched++ == '1'); }
    else if (sched_tail) { ok = (sched_tail == '1'); }
    if (!addr)
    {
        evlog("M%zu%c", (size_t)size, ok ? '+' : '-');
        if (!ok) { return NULL; }
        if (nled == MAXBLK) { abort(); }
        p = (unsigned char *)malloc(size);
        memset(p, POISON, size);
        led[nled].p = p;
        led[nled++].n = size;
        return p;
    }
    evlog("R%zu>%zu%c", led[i].n, (size_t)size, ok ? '+' : '-');
    if (!ok) { return NULL; }
    p = (unsigned char *)malloc(size);
    {
        size_t k = led[i].n < size ? led[i].n : size;
        memcpy(p, addr, k);
        memset(p + k, POISON, size - k);
    }
    free(addr);
    led[i].p = p;
    led[i].n = size;
    return p;
}

/* ------------------------------------------------------------------ parsing helpers */
static a_str S[2];
static a_str *P[2]; /* the object in slot A / B: &S[i] (stack), from a_str_new (heap), or NULL (absent) */
static int heap[2];

static int hexv(int c)
{
    if (c >= '0' && c <= '9') { return c - '0'; }
    if (c >= 'a' && c <= 'f') { return c - 'a' + 10; }
    return -1;
}

/* blob token: "-" = empty, else hex */
static size_t parse_blob(char const *tok, unsigned char *out, size_t cap)
{
    size_t n = 0;
    if (tok[0] == '-') { return 0; }
    while (tok[0] && tok[1] && n < cap)
    {
        out[n++] = (unsigned char)(hexv(tok[0]) * 16 + hexv(tok[1]));
        tok += 2;
    }
    return n;
}

/* size expression: decimal | '=' (blob length) | [NMR][+-]k, relative to string t before the op;
   subtraction saturates at 0 */
static a_size parse_size(char const *tok, a_str const *t, size_t bloblen)
{
    a_size base;
    if (tok[0] == '=') { return bloblen; }
    if (tok[0] >= '0' && tok[0] <= '9') { return (a_size)strtoull(tok, NULL, 10); }
    switch (tok[0])
    {
    case 'N': base = t->num_; break;
    case 'M': base = t->mem_; break;
    default: base = t->mem_ >= t->num_ ? t->mem_ - t->num_ : 0; break; /* 'R' */
    }
    {
        a_size k = (a_size)strtoull(tok + 2, NULL, 10);
        if (tok[1] == '+') { return base + k; }
        return base >= k ? base - k : 0;
    }
}

/* data = blob cycled to the resolved length (always followed by a NUL) */
static unsigned char *make_data(unsigned char const *blob, size_t bloblen, size_t n)
{
    unsigned char *d = (unsigned char *)malloc(n + 1);
    size_t i;
    for (i = 0; i < n; ++i) { d[i] = bloblen ? blob[i % bloblen] : 0; }
    d[n] = 0;
    return d;
}

static void print_hex(unsigned char const *p, size_t n)
{
    size_t i;
    if (n == 0) { putchar('-'); }
    for (i = 0; i < n; ++i) { printf("%02x", p[i]); }
}

static void print_str(char const *name, a_str const *s)
{
    int i;
    if (!s)
    {
        printf(" %s=3,0,0,0,-", name);
        return;
    }
    i = s->ptr_ ? led_find(s->ptr_) : -1;
    printf(" %s=%d,%zu,%zu,", name, s->ptr_ ? (i >= 0 ? 1 : 2) : 0, (size_t)s->num_, (size_t)s->mem_);
    if (i >= 0)
    {
        printf("%zu,", led[i].n);
        print_hex((unsigned char const *)s->ptr_, led[i].n);
    }
    else { printf("0,-"); }
}

static int sign(int x) { return (x > 0) - (x < 0); }

/* ------------------------------------------------------------------ read-only API (tokens acc= and q=) */
static char accbuf[256];
static char mkbad[96]; /* a constructor that did not produce {NULL, 0, 0}: reported by the next acc= token */

/* canonical pointer: '-' NULL, offset into the block of s, 'W' */
static char const *cptr(a_str const *s, char const *p, char *out, size_t cap)
{
    int i = s->ptr_ ? led_find(s->ptr_) : -1;
    if (!p) { snprintf(out, cap, "-"); }
    else if (i >= 0 && p >= s->ptr_ && (size_t)(p - s->ptr_) <= led[i].n) { snprintf(out, cap, "%zu", (size_t)(p - s->ptr_)); }
    else { snprintf(out, cap, "W"); }
    return out;
}

static void acc_bad(char const *fn, char const *got, char const *want, char obj, long long idx)
{
    if (!accbuf[0]) { snprintf(accbuf, sizeof(accbuf), "BAD:%s:%s:%s:%c%lld", fn, got, want, obj, idx); }
}

static void acc_ptr_eq(a_str const *s, char const *fn, char const *got, char const *want, char obj, long long idx)
{
    if (got != want)
    {
        char g[32], w[32];
        acc_bad(fn, cptr(s, got, g, sizeof(g)), cptr(s, want, w, sizeof(w)), obj, idx);
    }
}

static void acc_num_eq(char const *fn, a_size got, a_size want, char obj)
{
    if (got != want)
    {
        char g[32], w[32];
        snprintf(g, sizeof(g), "%zu", (size_t)got);
        snprintf(w, sizeof(w), "%zu", (size_t)want);
        acc_bad(fn, g, w, obj, 0);
    }
}

static void acc_at(a_str const *s, a_size idx, char obj)
{
    acc_ptr_eq(s, "a_str_at", a_str_at(s, idx), idx < s->mem_ ? s->ptr_ + idx : NULL, obj, (long long)idx);
    if (s->ptr_ && idx < s->mem_) { acc_ptr_eq(s, "a_str_at_", a_str_at_(s, idx), s->ptr_ + idx, obj, (long long)idx); }
}

static void acc_of(a_str const *s, a_diff idx, char obj)
{
    a_size n = idx >= 0 ? (a_size)idx : (a_size)idx + s->num_; /* unsigned wrap intended */
    acc_ptr_eq(s, "a_str_of", a_str_of(s, idx), n < s->mem_ ? s->ptr_ + n : NULL, obj, (long long)idx);
}

static void acc_check(a_str const *s, char obj)
{
    a_size const num = s->num_, mem = s->mem_;
    a_size i;
    acc_ptr_eq(s, "a_str_ptr", a_str_ptr(s), s->ptr_, obj, 0);
    acc_num_eq("a_str_len", a_str_len(s), num, obj);
    acc_num_eq("a_str_mem", a_str_mem(s), mem, obj);
    if (mem <= 64 && num <= 64)
    {
        a_diff j;
        for (i = 0; i <= mem + 1; ++i) { acc_at(s, i, obj); }
        for (j = -(a_diff)num - 2; j <= (a_diff)mem + 1; ++j) { acc_of(s, j, obj); }
    }
    else if (mem < ((a_size)1 << 62) && num < ((a_size)1 << 62))
    {
        a_size const at[] = {0, 1, num - 1, num, num + 1, mem / 2, mem - 2, mem - 1, mem, mem + 1};
        for (i = 0; i < sizeof(at) / sizeof(at[0]); ++i)
        {
            acc_at(s, at[i], obj);
            if (at[i] < ((a_size)1 << 62))
            {
                acc_of(s, (a_diff)at[i], obj);
                acc_of(s, -(a_diff)at[i], obj);
                acc_of(s, -(a_diff)at[i] - (a_diff)num, obj);
            }
        }
    }
    acc_at(s, (a_size)-1, obj);
    acc_at(s, (a_size)1 << 63, obj);
    acc_at(s, ((a_size)1 << 32) + 1, obj);
    acc_of(s, (a_diff)(((a_size)1 << 63) - 1), obj);
    acc_of(s, -(a_diff)(((a_size)1 << 63) - 1) - 1, obj);
    acc_of(s, (a_diff)1 << 32, obj);
    acc_of(s, -((a_diff)1 << 32), obj);
}

static a_size mix(long k) { return (a_size)(((unsigned long long)k * 2654435761ULL + 12345ULL) & 0xffffffffULL); }

/* one object's part of the q= token */
static void q_str(a_str const *s, long k)
{
    char b0[32], b1[32], b2[32], b3[32];
    a_size const num = s->num_, mem = s->mem_, h = mix(k);
    a_diff const oi = (a_diff)(h / 3 % (num + mem + 3)) - (a_diff)(num + 1);
    if (s->ptr_ && mem) { cptr(s, a_str_at_(s, h % mem), b1, sizeof(b1)); }
    else { snprintf(b1, sizeof(b1), "x"); }
    printf("%s,%zu,%zu,%s,%s,%s,", cptr(s, a_str_ptr(s), b0, sizeof(b0)), (size_t)a_str_len(s), (size_t)a_str_mem(s), b1,
           cptr(s, a_str_at(s, h / 7 % (mem + 2)), b2, sizeof(b2)), cptr(s, a_str_of(s, oi), b3, sizeof(b3)));
    if (num <= mem)
    {
        a_size stop = (a_size)-7, n1, n0;
        n1 = a_utf_len(s, &stop);
        n0 = a_utf_len(s, NULL);
        printf("%zu,%zu,%zu", (size_t)n1, (size_t)stop, (size_t)n0);
    }
    else { printf("x,x,x"); }
}

static void print_acc(a_str const *a, a_str const *b, long k)
{
    snprintf(accbuf, sizeof(accbuf), "%s", mkbad);
    mkbad[0] = 0;
    acc_check(a, 'A');
    acc_check(b, 'B');
    printf(" acc=%s q=", accbuf[0] ? accbuf : "ok");
    q_str(a, k);
    putchar(';');
    q_str(b, k);
    if (a->num_ <= a->mem_ && b->num_ <= b->mem_)
    {
        printf(";%d", sign(a_str_cmp_(a_str_ptr(a), mix(k) / 5 % (a_str_len(a) + 1), a_str_ptr(b), a_str_len(b))));
    }
    else { printf(";x"); }
}

/* a_str_catv called directly with a va_list (operation "catv") */
static int catfv(a_str *ctx, char const *fmt, ...)
{
    int res;
    va_list va;
    va_start(va, fmt);
    res = a_str_catv(ctx, fmt, va);
    va_end(va);
    return res;
}
#define CATF(...) (direct ? catfv(__VA_ARGS__) : a_str_catf(__VA_ARGS__))

/* (re)build object i: 's' a_str_ctor on static storage, 'h' a_str_new, 'i' A_STR_INIT */
static void destroy(int i)
{
    if (P[i] && heap[i]) { a_str_die(P[i]); }
    else if (P[i]) { a_str_dtor(P[i]); }
    P[i] = NULL;
    heap[i] = 0;
}

static void make(int i, char how)
{
    static a_str const init = A_STR_INIT;
    char const *fn = how == 'h' ? "a_str_new" : how == 'i' ? "A_STR_INIT" : "a_str_ctor";
    destroy(i);
    if (how == 'h')
    {
        P[i] = a_str_new();
        heap[i] = 1;
        if (!P[i])
        {
            printf("HARNESS: a_str_new failed without a fault schedule\n");
            fflush(stdout);
            abort();
        }
    }
    else
    {
        P[i] = &S[i];
        memset(P[i], POISON, sizeof(a_str));
        if (how == 'i') { *P[i] = init; }
        else { a_str_ctor(P[i]); }
    }
    if (P[i]->ptr_ || P[i]->num_ || P[i]->mem_)
    {
        if (!mkbad[0])
        {
            snprintf(mkbad, sizeof(mkbad), "BAD:%s:%d,%zu,%zu:0,0,0:%c0", fn, P[i]->ptr_ != NULL, (size_t)P[i]->num_,
                     (size_t)P[i]->mem_, 'A' + i);
        }
        P[i]->ptr_ = NULL; /* continue the case from the constructed state */
        P[i]->num_ = 0;
        P[i]->mem_ = 0;
    }
}

#define MAXTOK 8
static unsigned char blob[1 << 16];
static char ref[1 << 16];

static void set_sched(char *dst, size_t cap, char const *src)
{
    size_t n;
    snprintf(dst, cap, "%s", src);
    n = strlen(dst);
    sched_tail = 0;
    if (n >= 2 && dst[n - 1] == '*')
    {
        sched_tail = dst[n - 2];
        dst[n - 1] = 0;
    }
    sched = dst;
}

int main(int argc, char **argv)
{
    char *line = NULL;
    size_t cap = 0;
    long k = 0;
    c07 = argc > 1;
    (void)argv;
    a_alloc = shim;
    while (getline(&line, &cap, stdin) > 0)
    {
        char *tok[MAXTOK] = {0};
        int nt = 0;
        char *sv = NULL, *w;
        for (w = strtok_r(line, " \r\n", &sv); w && nt < MAXTOK; w = strtok_r(NULL, " \r\n", &sv)) { tok[nt++] = w; }
        if (nt == 0) { continue; }
        if (strcmp(tok[0], "case") == 0)
        {
            static char schedbuf[4096];
            set_sched(schedbuf, sizeof(schedbuf), "");
            a_str_ctor(&S[0]);
            a_str_ctor(&S[1]);
            P[0] = &S[0];
            P[1] = &S[1];
            heap[0] = heap[1] = 0;
            k = 0;
            printf("case %s\n", tok[1]);
            fflush(stdout);
            continue;
        }
        if (strcmp(tok[0], "sched") == 0)
        {
            static char schedbuf2[4096];
            set_sched(schedbuf2, sizeof(schedbuf2), nt > 1 ? tok[1] : "");
            continue;
        }
        if (strcmp(tok[0], "mk") == 0)
        {
            if (!c07 && nt > 1 && tok[1][0] && tok[1][1])
            {
                make(0, tok[1][0]);
                make(1, tok[1][1]);
            }
            continue;
        }
        if (strcmp(tok[0], "end") == 0)
        {
            int i;
            sched = "";
            sched_tail = 0;
            for (i = 0; i < 2; ++i) { destroy(i); }
            printf("end live=%d", nled);
            for (i = 0; i < nled; ++i) { printf("%c%zu", i ? ',' : ':', led[i].n); }
            printf("\n");
            fflush(stdout);
            if (!c07)
            {
                /* a leak has been reported; it must not change the cases that follow */
                for (i = 0; i < nled; ++i) { free(led[i].p); }
                nled = 0;
                mkbad[0] = 0;
            }
            continue;
        }
        {
            char const *o = tok[0];
            int ti = (nt > 1 && tok[1][0] == 'B') ? 1 : 0;
            a_str *t = P[ti], *u = P[1 - ti];
            int both = strcmp(o, "swap") == 0 || strcmp(o, "cmp") == 0 ||
                       ((strcmp(o, "cat") == 0 || strcmp(o, "cat_") == 0) && tok[2][0] != '1');
            int life = strcmp(o, "ctor") == 0 || strcmp(o, "new") == 0 || strcmp(o, "die") == 0;
            if (strcmp(o, "swap") == 0)
            {
                t = P[0];
                u = P[1];
            }
            evlen = 0;
            evbuf[0] = 0;
            printf("%ld %s r=", k++, o);
            fflush(stdout);
            logging = 1;
            if (life)
            {
                if (strcmp(o, "ctor") == 0)
                {
                    if (t) { printf("skip"); }
                    else
                    {
                        P[ti] = &S[ti];
                        heap[ti] = 0;
                        a_str_ctor(P[ti]);
                        printf("v");
                    }
                }
                else if (strcmp(o, "new") == 0)
                {
                    if (t) { printf("skip"); }
                    else
                    {
                        P[ti] = a_str_new();
                        heap[ti] = P[ti] != NULL;
                        printf("i%d", P[ti] != NULL);
                    }
                }
                else
                {
                    if (t && heap[ti]) { a_str_die(t); }
                    else if (t) { a_str_dtor(t); }
                    else { a_str_die(NULL); }
                    P[ti] = NULL;
                    heap[ti] = 0;
                    printf("v");
                }
            }
            else if (!t || (both && !u)) { printf("skip"); }
            else if (strcmp(o, "dtor") == 0)
            {
                a_str_dtor(t);
                printf("v");
            }
            else if (strcmp(o, "swap") == 0)
            {
                a_str_swap(P[0], P[1]);
                printf("v");
            }
            else if (strcmp(o, "exit") == 0)
            {
                char *p = a_str_exit(t);
                logging = c07; /* C07: the caller's free belongs to the trace */
                if (p)
                {
                    int i = led_find(p);
                    printf("p");
                    if (i >= 0) { print_hex((unsigned char *)p, led[i].n); }
                    else { printf("wild"); }
                    a_alloc(p, 0);
                }
                else { printf("p0"); }
            }
            else if (strcmp(o, "setm") == 0) { printf("i%d", a_str_setm(t, parse_size(tok[2], t, 0))); }
            else if (strcmp(o, "setm_") == 0) { printf("i%d", a_str_setm_(t, parse_size(tok[2], t, 0))); }
            else if (strcmp(o, "setn") == 0) { printf("i%d", a_str_setn(t, parse_size(tok[2], t, 0))); }
            else if (strcmp(o, "setn_") == 0)
            {
                a_str_setn_(t, parse_size(tok[2], t, 0));
                printf("v");
            }
            else if (strcmp(o, "getc") == 0) { printf("i%d", a_str_getc(t)); }
            else if (strcmp(o, "getc_") == 0) { printf("i%d", a_str_getc_(t)); }
            else if (strcmp(o, "catc") == 0) { printf("i%d", a_str_catc(t, atoi(tok[2]))); }
            else if (strcmp(o, "catc_") == 0) { printf("i%d", a_str_catc_(t, atoi(tok[2]))); }
            else if (strcmp(o, "getn") == 0 || strcmp(o, "getn_") == 0)
            {
                int want = tok[2][0] == '1';
                a_size nbyte = parse_size(tok[3], t, 0), r;
                size_t room = (size_t)(t->num_ < nbyte ? t->num_ : nbyte);
                unsigned char *d = (unsigned char *)malloc(room + 1);
                r = o[4] ? a_str_getn_(t, want ? d : NULL, nbyte) : a_str_getn(t, want ? d : NULL, nbyte);
                printf("z%zu:", (size_t)r);
                print_hex(d, want ? (size_t)r : 0);
                free(d);
            }
            else if (strcmp(o, "catn") == 0 || strcmp(o, "catn_") == 0 ||
                     strcmp(o, "cats") == 0 || strcmp(o, "cats_") == 0 ||
                     strcmp(o, "cmpn") == 0 || strcmp(o, "cmps") == 0)
            {
                size_t bl = parse_blob(tok[2], blob, sizeof(blob));
                size_t n = (size_t)parse_size(tok[3], t, bl);
                unsigned char *d = make_data(blob, bl, n);
                if (strcmp(o, "catn") == 0) { printf("i%d", a_str_catn(t, n ? d : NULL, n)); }
                else if (strcmp(o, "catn_") == 0) { printf("i%d", a_str_catn_(t, n ? d : NULL, n)); }
                else if (strcmp(o, "cats") == 0) { printf("i%d", a_str_cats(t, d)); }
                else if (strcmp(o, "cats_") == 0) { printf("i%d", a_str_cats_(t, d)); }
                else if (strcmp(o, "cmpn") == 0) { printf("i%d", sign(a_str_cmpn(t, d, n))); }
                else { printf("i%d", sign(a_str_cmps(t, d))); }
                free(d);
            }
            else if (strcmp(o, "cat") == 0) { printf("i%d", a_str_cat(t, tok[2][0] == '1' ? t : u)); }
            else if (strcmp(o, "cat_") == 0) { printf("i%d", a_str_cat_(t, tok[2][0] == '1' ? t : u)); }
            else if (strcmp(o, "catf") == 0 || strcmp(o, "catv") == 0)
            {
                int const direct = o[3] == 'v';
                char mode = tok[2][0];
                size_t bl = parse_blob(tok[3], blob, sizeof(blob));
                size_t n = (size_t)parse_size(tok[4], t, bl), rn = 0;
                unsigned char *d = make_data(blob, bl, n);
                int r = 0;
                if (mode == 'c' && n == 0) { mode = 's'; }
                if (mode == 's')
                {
                    rn = (size_t)snprintf(ref, sizeof(ref), "%s", (char *)d);
                    r = CATF(t, "%s", (char *)d);
                }
                else if (mode == 'l')
                {
                    char *f = (char *)malloc(2 * n + 1);
                    size_t i, j = 0;
                    for (i = 0; i < n; ++i)
                    {
                        f[j++] = (char)d[i];
                        if (d[i] == '%') { f[j++] = '%'; }
                    }
                    f[j] = 0;
                    rn = (size_t)snprintf(ref, sizeof(ref), f, 0);
                    r = CATF(t, f, 0);
                    free(f);
                }
                else if (mode == 'c')
                {
                    size_t h = n / 2;
                    rn = (size_t)snprintf(ref, sizeof(ref), "%.*s%c%s", (int)h, (char *)d, (int)d[h], (char *)d + h + 1);
                    r = CATF(t, "%.*s%c%s", (int)h, (char *)d, (int)d[h], (char *)d + h + 1);
                }
                else if (mode == 'd')
                {
                    rn = (size_t)snprintf(ref, sizeof(ref), "%d", atoi(tok[5]));
                    r = CATF(t, "%d", atoi(tok[5]));
                }
                else if (mode == 'x')
                {
                    rn = (size_t)snprintf(ref, sizeof(ref), "[%6x]", (unsigned)strtoul(tok[5], NULL, 10));
                    r = CATF(t, "[%6x]", (unsigned)strtoul(tok[5], NULL, 10));
                }
                else
                {
                    rn = (size_t)snprintf(ref, sizeof(ref), "%05u|%-4s|", (unsigned)strtoul(tok[5], NULL, 10), "ab");
                    r = CATF(t, "%05u|%-4s|", (unsigned)strtoul(tok[5], NULL, 10), "ab");
                }
                if (rn != n || memcmp(ref, d, n) != 0) { printf("BADGEN:"); }
                printf("i%d", r);
                free(d);
            }
            else if (strstr(o, "trim"))
            {
                size_t bl = parse_blob(tok[2], blob, sizeof(blob));
                char *set = (char *)make_data(blob, bl, bl);
                if (strcmp(o, "rtrim") == 0) { a_str_rtrim(t, set, bl); }
                else if (strcmp(o, "rtrim_") == 0) { a_str_rtrim_(t, set, bl); }
                else if (strcmp(o, "ltrim") == 0) { a_str_ltrim(t, set, bl); }
                else if (strcmp(o, "ltrim_") == 0) { a_str_ltrim_(t, set, bl); }
                else if (strcmp(o, "trim") == 0) { a_str_trim(t, set, bl); }
                else { a_str_trim_(t, set, bl); }
                printf("v");
                free(set);
            }
            else if (strcmp(o, "utf") == 0) { printf("i%d", a_utf_catc(t, (a_u32)strtoul(tok[2], NULL, 10))); }
            else if (strcmp(o, "cmp") == 0) { printf("i%d", sign(a_str_cmp(t, u))); }
            else { printf("BADOP"); }
            logging = 0;
            print_str("A", P[0]);
            print_str("B", P[1]);
            printf(" ev=%s", evlen ? evbuf : "-");
            if (!c07 && P[0] && P[1]) { print_acc(P[0], P[1], k - 1); }
            printf("\n");
            fflush(stdout);
        }
    }
    free(line);
    return 0;
}
