/* C06: comparisons with operands of 2^31 .. 2^32+ bytes (a length tie-break computed in a type narrower than a_size
   goes wrong only there).  The long operand is a sparse read-only zero mapping (MAP_NORESERVE): memcmp reads at most
   the length of the shorter operand, so nothing large is ever touched.
   stdin : one case per line   <content as hex bytes | - for a never-allocated string> <n in hex>
   stdout: one line per case   cmpn=<sign> cmp_=<sign> rcmp_=<sign>   (a_str_cmpn(s, Z, n); a_str_cmp_(p, len, Z, n);
                                                                       a_str_cmp_(Z, n, p, len)) */
#ifndef _GNU_SOURCE
#define _GNU_SOURCE 1
#endif
#include "a/str.h"
#include <stdio.h>
#include <stdlib.h>
#include <string.h>
#include <sys/mman.h>

static int sign(int x) { return (x > 0) - (x < 0); }

int main(void)
{
    static char line[1 << 16];
    size_t const span = ((size_t)1 << 33) + 4096;
    unsigned char *Z = (unsigned char *)mmap(0, span, PROT_READ, MAP_PRIVATE | MAP_ANONYMOUS | MAP_NORESERVE, -1, 0);
    if (Z == MAP_FAILED) { printf("HARNESS: mmap failed\n"); return 2; }
    while (fgets(line, sizeof(line), stdin))
    {
        char *hex = strtok(line, " \n");
        char *ns = strtok(0, " \n");
        unsigned long long n;
        a_str s = A_STR_INIT;
        if (!hex || !ns) { continue; }
        n = strtoull(ns, 0, 16);
        if (n > span) { printf("HARNESS: n too large\n"); continue; }
        if (hex[0] != '-')
        {
            size_t i, len = strlen(hex) / 2;
            for (i = 0; i < len; ++i)
            {
                unsigned int b;
                sscanf(hex + 2 * i, "%2x", &b);
                if (a_str_catc_(&s, (int)b) == ~0) { printf("HARNESS: alloc\n"); fflush(stdout); return 2; }
            }
        }
        printf("cmpn=%d cmp_=%d rcmp_=%d\n", sign(a_str_cmpn(&s, Z, (a_size)n)),
               sign(a_str_cmp_(a_str_ptr(&s), a_str_len(&s), Z, (a_size)n)),
               sign(a_str_cmp_(Z, (a_size)n, a_str_ptr(&s), a_str_len(&s))));
        a_str_dtor(&s);
    }
    return 0;
}
