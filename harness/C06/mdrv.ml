(* C06 model driver: reads the same case file as drv.c, runs the extracted Gallina model
   (coq/C06/StrDefs.v, [step]) and prints the same canonical lines.  Only glue lives here:
   parsing, resolving size expressions against the model's own state, printing.

   Line format (see harness/C06/drv.c):
     <k> <op> r=<ret> A=<ptr>,<num>,<mem>,<block size>,<block hex> B=... ev=<events> acc=ok q=<A>;<B>;<c>
   acc=ok is the constant the correct code gives (the C driver compares every accessor with the
   fields over whole index ranges); q= is the model's value of the read-only API after the
   operation: coq/C06/StrAccDefs.v [probe_str k] for both objects (a_str_ptr, a_str_len, a_str_mem,
   a_str_at_, a_str_at, a_str_of at indices derived from k (StrAccDefs.mix), a_utf_len with and without stop) and
   [probe_cmp k] (a_str_cmp_ on a prefix of A against B).  Pointers: '-' NULL, offset into the
   block, 'F' undefined pointer arithmetic in the model; 'x' = not called.
   "mk ..." (how the C objects are built) does not concern the model; "catv" is "catf". *)
open Strmodel

let rec pos_of_int i =
  if i = 1 then XH
  else if i land 1 = 0 then XO (pos_of_int (i lsr 1))
  else XI (pos_of_int (i lsr 1))
let n_of_int i = if i = 0 then N0 else Npos (pos_of_int i)
let rec int_of_pos = function
  | XH -> 1
  | XO p -> 2 * int_of_pos p
  | XI p -> 2 * int_of_pos p + 1
let int_of_n = function N0 -> 0 | Npos p -> int_of_pos p
let z_of_int i =
  if i = 0 then Z0 else if i > 0 then Zpos (pos_of_int i) else Zneg (pos_of_int (- i))
let int_of_z = function Z0 -> 0 | Zpos p -> int_of_pos p | Zneg p -> - (int_of_pos p)

(* decimal literal of any size (a_size arguments may exceed OCaml's int) *)
let n_of_string s =
  let times10 x = let x2 = N.add x x in let x4 = N.add x2 x2 in let x5 = N.add x4 x in N.add x5 x5 in
  let acc = ref N0 in
  String.iter (fun c ->
      if c >= '0' && c <= '9' then
        acc := N.add (times10 !acc) (n_of_int (Char.code c - 48))) s;
  !acc

let byte_tab = Array.init 256 n_of_int

let hexv c =
  if c >= '0' && c <= '9' then Char.code c - 48
  else if c >= 'a' && c <= 'f' then Char.code c - 87
  else 0

let parse_blob tok =
  if tok = "-" then [||]
  else Array.init (String.length tok / 2) (fun i -> hexv tok.[2 * i] * 16 + hexv tok.[2 * i + 1])

(* size expression, see drv.c: decimal | '=' | [NMR][+-]k with saturating subtraction *)
let parse_size tok (t : str) bloblen : n =
  if tok = "=" then n_of_int bloblen
  else if tok.[0] >= '0' && tok.[0] <= '9' then n_of_string tok
  else begin
    let nu = int_of_n t.num and me = int_of_n t.mem in
    let base = match tok.[0] with
      | 'N' -> nu
      | 'M' -> me
      | _ -> if me >= nu then me - nu else 0 in
    let k = int_of_string (String.sub tok 2 (String.length tok - 2)) in
    if tok.[1] = '+' then n_of_int (base + k)
    else n_of_int (if base >= k then base - k else 0)
  end

let make_data blob n : n list =
  let bl = Array.length blob in
  List.init n (fun i -> if bl = 0 then N0 else byte_tab.(blob.(i mod bl)))

let buf = Buffer.create 65536

let add_hex (l : n list) =
  if l = [] then Buffer.add_char buf '-'
  else List.iter (fun b -> Buffer.add_string buf (Printf.sprintf "%02x" (int_of_n b))) l

let add_str name (s : str) =
  match s.ptr with
  | None ->
    Buffer.add_string buf (Printf.sprintf " %s=0,%d,%d,0,-" name (int_of_n s.num) (int_of_n s.mem))
  | Some b ->
    Buffer.add_string buf (Printf.sprintf " %s=1,%d,%d,%d," name (int_of_n s.num) (int_of_n s.mem)
                             (List.length b));
    add_hex b

let add_ev = function
  | EvMalloc (n, ok) -> Buffer.add_string buf (Printf.sprintf "M%d%c" (int_of_n n) (if ok then '+' else '-'))
  | EvRealloc (o, n, ok) ->
    Buffer.add_string buf (Printf.sprintf "R%d>%d%c" (int_of_n o) (int_of_n n) (if ok then '+' else '-'))
  | EvFree o -> Buffer.add_string buf (Printf.sprintf "F%d" (int_of_n o))
  | EvFreeNull -> Buffer.add_string buf "F0"

let tgt_of tok = if tok = "B" then TB else TA

let aptr_s = function ANull -> "-" | AOff o -> string_of_int (int_of_n o) | AFault -> "F"

let add_probe k (s : str) =
  let p = probe_str k s in
  Buffer.add_string buf
    (Printf.sprintf "%s,%d,%d,%s,%s,%s," (aptr_s p.q_ptr) (int_of_n p.q_len) (int_of_n p.q_mem)
       (match p.q_at_ with None -> "x" | Some a -> aptr_s a) (aptr_s p.q_at) (aptr_s p.q_of));
  match p.q_utf with
  | None -> Buffer.add_string buf "x,x,x"
  | Some (NRet (c1, Some st), NRet (c0, None)) ->
    Buffer.add_string buf (Printf.sprintf "%d,%d,%d" (int_of_n c1) (int_of_n st) (int_of_n c0))
  | Some _ -> Buffer.add_string buf "F,F,F"

let () =
  let st = ref (m_init []) in
  let k = ref 0 in
  (try
     while true do
       let line = input_line stdin in
       let tok = Array.of_list (List.filter (fun s -> s <> "") (String.split_on_char ' ' (String.trim line))) in
       if Array.length tok > 0 then begin
         match tok.(0) with
         | "case" ->
           st := m_init [];
           k := 0;
           print_string ("case " ^ tok.(1) ^ "\n")
         | "sched" ->
           let s = if Array.length tok > 1 then tok.(1) else "" in
           st := { !st with sch = List.init (String.length s) (fun i -> s.[i] = '1') }
         | "mk" -> ()
         | "end" -> print_string "end live=0\n"
         | o ->
           let m = !st in
           let t = if Array.length tok > 1 then tgt_of tok.(1) else TA in
           let ts = sel t m in
           let data bi si =
             let blob = parse_blob tok.(bi) in
             let n = int_of_n (parse_size tok.(si) ts (Array.length blob)) in
             make_data blob n in
           let set bi = let blob = parse_blob tok.(bi) in make_data blob (Array.length blob) in
           let opv =
             match o with
             | "dtor" -> Some (ODtor t)
             | "swap" -> Some OSwap
             | "exit" -> Some (OExit t)
             | "setm" -> Some (OSetm (t, parse_size tok.(2) ts 0))
             | "setm_" -> Some (OSetm_ (t, parse_size tok.(2) ts 0))
             | "setn" -> Some (OSetn (t, parse_size tok.(2) ts 0))
             | "setn_" -> Some (OSetn_ (t, parse_size tok.(2) ts 0))
             | "getc" -> Some (OGetc t)
             | "getc_" -> Some (OGetc_ t)
             | "catc" -> Some (OCatc (t, z_of_int (int_of_string tok.(2))))
             | "catc_" -> Some (OCatc_ (t, z_of_int (int_of_string tok.(2))))
             | "getn" -> Some (OGetn (t, tok.(2) = "1", parse_size tok.(3) ts 0))
             | "getn_" -> Some (OGetn_ (t, tok.(2) = "1", parse_size tok.(3) ts 0))
             | "catn" -> Some (OCatn (t, data 2 3))
             | "catn_" -> Some (OCatn_ (t, data 2 3))
             | "cats" -> Some (OCats (t, data 2 3))
             | "cats_" -> Some (OCats_ (t, data 2 3))
             | "cmpn" -> Some (OCmpn (t, data 2 3))
             | "cmps" -> Some (OCmps (t, data 2 3))
             | "cat" -> Some (OCat (t, tok.(2) = "1"))
             | "cat_" -> Some (OCat_ (t, tok.(2) = "1"))
             | "catf" | "catv" -> Some (OCatf (t, data 3 4))
             | "rtrim" -> Some (ORtrim (t, set 2))
             | "rtrim_" -> Some (ORtrim_ (t, set 2))
             | "ltrim" -> Some (OLtrim (t, set 2))
             | "ltrim_" -> Some (OLtrim_ (t, set 2))
             | "trim" -> Some (OTrim (t, set 2))
             | "trim_" -> Some (OTrim_ (t, set 2))
             | "utf" -> Some (OUtf (t, n_of_string tok.(2)))
             | "cmp" -> Some (OCmp t)
             | _ -> None in
           Buffer.clear buf;
           Buffer.add_string buf (Printf.sprintf "%d %s r=" !k o);
           incr k;
           (match opv with
            | None -> Buffer.add_string buf "BADOP -\n"
            | Some opv ->
              let ((m', r), evs) = step opv m in
              st := m';
              (match r with
               | RInt z -> Buffer.add_string buf (Printf.sprintf "i%d" (int_of_z z))
               | RSize (n, d) -> Buffer.add_string buf (Printf.sprintf "z%d:" (int_of_n n)); add_hex d
               | RPtr None -> Buffer.add_string buf "p0"
               | RPtr (Some b) -> Buffer.add_char buf 'p'; add_hex b
               | RVoid -> Buffer.add_char buf 'v'
               | RFault -> Buffer.add_char buf 'F');
              add_str "A" m'.sA;
              add_str "B" m'.sB;
              Buffer.add_string buf " ev=";
              if evs = [] then Buffer.add_char buf '-'
              else List.iteri (fun i e -> if i > 0 then Buffer.add_char buf ','; add_ev e) evs;
              let kn = n_of_int (!k - 1) in
              Buffer.add_string buf " acc=ok q=";
              add_probe kn m'.sA;
              Buffer.add_char buf ';';
              add_probe kn m'.sB;
              Buffer.add_char buf ';';
              (match probe_cmp kn m' with
               | None -> Buffer.add_char buf 'x'
               | Some None -> Buffer.add_char buf 'F'
               | Some (Some z) -> Buffer.add_string buf (string_of_int (int_of_z z)));
              Buffer.add_char buf '\n');
           print_string (Buffer.contents buf)
       end
     done
   with End_of_file -> ())
