(* C04 model driver: reads the same case file as drv.c, runs the extracted Gallina model
   (Vecmodel.wstep_lex) and prints the same canonical lines.  Only parsing and printing live here. *)
open Vecmodel

(* ---- conversions between text and the extracted binary numbers ---- *)
let ndouble = function N0 -> N0 | Npos p -> Npos (XO p)
let nsdouble = function N0 -> Npos XH | Npos p -> Npos (XI p)

let n_of_hex (s : string) : n =
  let r = ref N0 in
  String.iter (fun c ->
      let d = match c with
        | '0' .. '9' -> Char.code c - 48
        | 'a' .. 'f' -> Char.code c - 87
        | 'A' .. 'F' -> Char.code c - 55
        | _ -> failwith ("bad hex digit in " ^ s) in
      for k = 3 downto 0 do
        r := if (d lsr k) land 1 = 1 then nsdouble !r else ndouble !r
      done) s;
  !r

let rec i64_of_pos = function
  | XH -> 1L
  | XO p -> Int64.shift_left (i64_of_pos p) 1
  | XI p -> Int64.logor (Int64.shift_left (i64_of_pos p) 1) 1L
let i64_of_n = function N0 -> 0L | Npos p -> i64_of_pos p
let dec n = Printf.sprintf "%Lu" (i64_of_n n)
let int_of_n n = Int64.to_int (i64_of_n n)

let n_of_int (i : int) : n = n_of_hex (Printf.sprintf "%x" i)

let elem_of_hex (s : string) : elem =
  if s = "-" || s = "_" then []
  else begin
    let l = ref [] in
    let k = String.length s / 2 in
    for i = k - 1 downto 0 do
      l := n_of_int (int_of_string ("0x" ^ String.sub s (2 * i) 2)) :: !l
    done;
    !l
  end

let hex_of_elem (e : elem) : string =
  String.concat "" (List.map (fun b -> Printf.sprintf "%02x" (int_of_n b)) e)

let elems_of (s : string) : elem list =
  if s = "-" then [] else List.map elem_of_hex (String.split_on_char ',' s)

(* ---- printing ---- *)
let buf = Buffer.create 65536
let pr s = Buffer.add_string buf s

let pr_ret = function
  | RVoid -> pr "void"
  | RInt rc -> pr ("rc=" ^ dec rc)
  | RPtr (None, _) -> pr "ptr=NULL"
  | RPtr (Some off, c) ->
      pr ("ptr=" ^ dec off ^ ":");
      (match c with Some e -> pr (hex_of_elem e) | None -> pr "?")
  | RFound None -> pr "found=none"
  | RFound (Some e) -> pr ("found=" ^ hex_of_elem e)

let pr_event = function
  | EvMalloc (sz, ok) -> pr ("M" ^ dec sz ^ (if ok then "+" else "-"))
  | EvRealloc (sz, ok) -> pr ("R" ^ dec sz ^ (if ok then "+" else "-"))
  | EvFree -> pr "F"
  | EvBad -> pr "BAD"

let pr_list f l =
  List.iteri (fun i x -> if i > 0 then pr ","; f x) l

let err_name = function
  | OutOfBounds -> "OutOfBounds" | OutOfFuel -> "OutOfFuel"
  | Misaligned -> "Misaligned" | Overlap -> "Overlap"

let pr_out (o : out) =
  (match o.o_err with
   | Some e -> pr ("MODEL-ERROR:" ^ err_name e)
   | None -> pr_ret o.o_ret);
  pr " d=["; pr_list (fun e -> pr (hex_of_elem e)) o.o_dtor;
  pr "] e=["; pr_list pr_event o.o_ev; pr "]"

let rec take k l = if k <= 0 then [] else match l with [] -> [] | x :: t -> x :: take (k - 1) t

let pr_arr tag (present : bool) (hasptr : bool) (a : arr option) =
  match a with
  | None -> pr (" " ^ tag ^ ":nil")
  | Some a ->
      ignore present;
      pr (Printf.sprintf " %s:z=%s,n=%s,m=%s,p=%d[" tag (dec a.a_siz) (dec a.a_num) (dec a.a_mem)
            (if hasptr then 1 else 0));
      (* live elements: min(num, mem) of them, as the C driver prints *)
      let cmp_lt x y = Int64.unsigned_compare (i64_of_n x) (i64_of_n y) < 0 in
      let k = if cmp_lt a.a_num a.a_mem then a.a_num else a.a_mem in
      let k = int_of_n k in
      if hasptr then pr_list (fun e -> pr (hex_of_elem e)) (take k a.a_sl);
      pr "]"

let pr_vec (w : world) (which : bool) =
  let tag = if which then "v1" else "v0" in
  match (if which then w.w_v1 else w.w_v0) with
  | None -> pr_arr tag false false None
  | Some (_, v) -> pr_arr tag true (v.v_ptr <> None) (Some v.v_arr)

let pr_buf (w : world) =
  match w.w_b with
  | None -> pr_arr "b" false false None
  | Some b -> pr_arr "b" true true (Some b.b_arr)

let pr_ledger (w : world) =
  let c = List.length w.w_heap.h_live in
  let tot = List.fold_left (fun acc (_, sz) -> Int64.add acc (i64_of_n sz)) 0L w.w_heap.h_live in
  pr (Printf.sprintf " L=%d:%Lu" c tot)

(* ---- parsing operations ---- *)
let flag s = String.length s > 0 && s.[0] = '1'

let parse_op (t : string list) : op option =
  match t with
  | ["setm"; m] -> Some (OSetm (n_of_hex m))
  | ["setn"; n; d; f] -> Some (OSetn (n_of_hex n, flag d, elem_of_hex f))
  | ["setz"; z; d] -> Some (OSetz (n_of_hex z, flag d))
  | ["sort"] -> Some OSort
  | ["sortf"] -> Some OSortFore
  | ["sortb"] -> Some OSortBack
  | ["pushs"; k] -> Some (OPushSort (elem_of_hex k))
  | ["search"; k] -> Some (OSearch (elem_of_hex k))
  | ["ins"; i; v] -> Some (OInsert (n_of_hex i, elem_of_hex v))
  | ["pushf"; v] -> Some (OPushFore (elem_of_hex v))
  | ["pushb"; v] -> Some (OPushBack (elem_of_hex v))
  | ["rem"; i] -> Some (ORemove (n_of_hex i))
  | ["pullf"] -> Some OPullFore
  | ["pullb"] -> Some OPullBack
  | "store" :: i :: vs :: _ -> Some (OStore (n_of_hex i, elems_of vs))
  | ["erase"; i; c; d] -> Some (OErase (n_of_hex i, n_of_hex c, flag d))
  | ["at"; i] -> Some (OAt (n_of_hex i))
  | ["of"; i] -> Some (OOf (n_of_hex i))
  | ["top"] -> Some OTop
  | ["end"] -> Some OEnd
  | _ -> None

let () =
  let w = ref (init_world [] (n_of_hex "10000")) in
  let hist = ref 0 in
  let out = stdout in
  (try
     while true do
       let line = input_line stdin in
       let t = List.filter (fun s -> s <> "") (String.split_on_char ' ' line) in
       (match t with
        | [] -> ()
        | ["H"; lim; sch] ->
            let sched = if sch = "-" then []
              else List.init (String.length sch) (fun i -> sch.[i] = '1') in
            w := init_world sched (n_of_hex lim);
            pr (Printf.sprintf "H %d\n" !hist);
            incr hist
        | _ ->
            let step (o : wop) (show : world -> unit) =
              let (w1, r) = wstep_lex !w o in
              w := w1; pr_out r; show w1; pr_ledger w1; pr "\n" in
            (match t with
             | ["vn"; wh; z] -> step (WVNew (flag wh, n_of_hex z)) (fun w -> pr_vec w (flag wh))
             | ["vd"; wh; d] -> step (WVDie (flag wh, flag d)) (fun w -> pr_vec w (flag wh))
             | ["vs"] -> step WVSwap (fun w -> pr_vec w false; pr_vec w true)
             | "v" :: wh :: rest ->
                 (match parse_op rest with
                  | Some o -> step (WV (flag wh, o)) (fun w -> pr_vec w (flag wh))
                  | None -> pr "?op\n")
             | ["bn"; z; n] -> step (WBNew (n_of_hex z, n_of_hex n)) pr_buf
             | ["bd"; d] -> step (WBDie (flag d)) pr_buf
             | "b" :: rest ->
                 (match parse_op rest with
                  | Some o -> step (WB o) pr_buf
                  | None -> pr "?op\n")
             | _ -> pr "?line\n"));
       if Buffer.length buf > 60000 then begin Buffer.output_buffer out buf; Buffer.clear buf end
     done
   with End_of_file -> ());
  Buffer.output_buffer out buf
