(* C04 model driver: reads the same case file as drv.c, runs the extracted Gallina model
   (Vecmodel.wstep_lex) and prints the same canonical lines.  Only parsing and printing live here.

   CASE LINES and OUTPUT LINE: exactly as documented at the top of harness/C04/drv.c:
     <ret> d=[..] e=[..] [x:z=..,n=..,m=..,p=..] <container>.. L=<blocks>:<bytes>
     <container> = " v0:nil" | " v0:z=<siz>,n=<num>,m=<mem>,p=<0|1>,o=<owned>[e,..] acc=<A>"
                   <owned> = what the model's ledger (w_heap.h_live) records for the storage block: its size, for
                   the buffer its size minus BUF_HDR = 24; 0 without storage; "?" if the block is not live
   What stands for the entry points the model has no separate code for (coq/C04/AccDefs.v, AccProofs.v):
     acc=ok        Vecmodel.vec_acc_check / buf_acc_check: the model's accessors (arr_at_, arr_top_, arr_end_,
                   arr_at, arr_of, arr_top, arr_end, the field accessors) evaluated on the state just printed
                   and compared with the same expected values as in drv.c (acc=MODEL-BAD if that ever fails;
                   theorem accessor_verdict_ok: it cannot in a state satisfying the invariant)
     push / pull   Vecmodel.oPush / oPull (= OPushBack / OPullBack, theorem aliases_are_push_back_pull_back)
     vc / bc       the world step of vn / bn (theorem new_die_are_ctor_dtor: new = a_alloc + ctor)
     vx / bx       the world step of vd / bd (die = dtor + a_alloc(ctx, 0)); the x: token is the structure
                   Vecmodel.wdtor_vec / wdtor_buf (a_vec_dtor / a_buf_dtor) leave behind *)
open Vecmodel

(* ---- conversions between text and the extracted binary numbers ---- *)
let ndouble = function N0 -> N0 | Npos p -> Npos (XO p)
let nsdouble = function N0 -> Npos XH | Npos p -> Npos (XI p)

let n_of_hex (s : string) : n =
  let r = ref N0 in
  String.iter (fun c ->
      let d = match c with
        | '0' .. '9' -> Char.code c - 48
        | 'a' .. 'f' -> Char.code c - 87
        | 'A' .. 'F' -> Char.code c - 55
        | _ -> failwith ("bad hex digit in " ^ s) in
      for k = 3 downto 0 do
        r := if (d lsr k) land 1 = 1 then nsdouble !r else ndouble !r
      done) s;
  !r

let rec i64_of_pos = function
  | XH -> 1L
  | XO p -> Int64.shift_left (i64_of_pos p) 1
  | XI p -> Int64.logor (Int64.shift_left (i64_of_pos p) 1) 1L
let i64_of_n = function N0 -> 0L | Npos p -> i64_of_pos p
let dec n = Printf.sprintf "%Lu" (i64_of_n n)
let int_of_n n = Int64.to_int (i64_of_n n)

let n_of_int (i : int) : n = n_of_hex (Printf.sprintf "%x" i)

let elem_of_hex (s : string) : elem =
  if s = "-" || s = "_" then []
  else begin
    let l = ref [] in
    let k = String.length s / 2 in
    for i = k - 1 downto 0 do
      l := n_of_int (int_of_string ("0x" ^ String.sub s (2 * i) 2)) :: !l
    done;
    !l
  end

let hex_of_elem (e : elem) : string =
  String.concat "" (List.map (fun b -> Printf.sprintf "%02x" (int_of_n b)) e)

let elems_of (s : string) : elem list =
  if s = "-" then [] else List.map elem_of_hex (String.split_on_char ',' s)

(* ---- printing ---- *)
let buf = Buffer.create 65536
let pr s = Buffer.add_string buf s

let pr_ret = function
  | RVoid -> pr "void"
  | RInt rc -> pr ("rc=" ^ dec rc)
  | RPtr (None, _) -> pr "ptr=NULL"
  | RPtr (Some off, c) ->
      pr ("ptr=" ^ dec off ^ ":");
      (match c with Some e -> pr (hex_of_elem e) | None -> pr "?")
  | RFound None -> pr "found=none"
  | RFound (Some e) -> pr ("found=" ^ hex_of_elem e)

let pr_event = function
  | EvMalloc (sz, ok) -> pr ("M" ^ dec sz ^ (if ok then "+" else "-"))
  | EvRealloc (sz, ok) -> pr ("R" ^ dec sz ^ (if ok then "+" else "-"))
  | EvFree -> pr "F"
  | EvBad -> pr "BAD"

let pr_list f l =
  List.iteri (fun i x -> if i > 0 then pr ","; f x) l

let err_name = function
  | OutOfBounds -> "OutOfBounds" | OutOfFuel -> "OutOfFuel"
  | Misaligned -> "Misaligned" | Overlap -> "Overlap"

let pr_out (o : out) =
  (match o.o_err with
   | Some e -> pr ("MODEL-ERROR:" ^ err_name e)
   | None -> pr_ret o.o_ret);
  pr " d=["; pr_list (fun e -> pr (hex_of_elem e)) o.o_dtor;
  pr "] e=["; pr_list pr_event o.o_ev; pr "]"

let rec take k l = if k <= 0 then [] else match l with [] -> [] | x :: t -> x :: take (k - 1) t

let pr_arr tag (present : bool) (hasptr : bool) (owned : string) (a : arr option) =
  match a with
  | None -> pr (" " ^ tag ^ ":nil")
  | Some a ->
      ignore present;
      pr (Printf.sprintf " %s:z=%s,n=%s,m=%s,p=%d,o=%s[" tag (dec a.a_siz) (dec a.a_num) (dec a.a_mem)
            (if hasptr then 1 else 0) owned);
      (* live elements: min(num, mem) of them, as the C driver prints *)
      let cmp_lt x y = Int64.unsigned_compare (i64_of_n x) (i64_of_n y) < 0 in
      let k = if cmp_lt a.a_num a.a_mem then a.a_num else a.a_mem in
      let k = int_of_n k in
      if hasptr then pr_list (fun e -> pr (hex_of_elem e)) (take k a.a_sl);
      pr "]"

let pr_acc ok = pr (if ok then " acc=ok" else " acc=MODEL-BAD")

(* bytes the ledger records for block id, minus a header *)
let owned (w : world) (id : n) (hdr : int64) : string =
  match List.find_opt (fun (i, _) -> i = id) w.w_heap.h_live with
  | Some (_, sz) when Int64.unsigned_compare (i64_of_n sz) hdr >= 0 ->
      Printf.sprintf "%Lu" (Int64.sub (i64_of_n sz) hdr)
  | _ -> "?"

let pr_vec (w : world) (which : bool) =
  let tag = if which then "v1" else "v0" in
  match (if which then w.w_v1 else w.w_v0) with
  | None -> pr_arr tag false false "" None
  | Some (_, v) ->
      let o = match v.v_ptr with None -> "0" | Some id -> owned w id 0L in
      pr_arr tag true (v.v_ptr <> None) o (Some v.v_arr); pr_acc (vec_acc_check v)

let pr_buf (w : world) =
  match w.w_b with
  | None -> pr_arr "b" false false "" None
  | Some b -> pr_arr "b" true true (owned w b.b_blk 24L) (Some b.b_arr); pr_acc (buf_acc_check b)

(* the structure as a_vec_dtor / a_buf_dtor left it (computed on the state BEFORE the step) *)
let pr_dtor_left (a : (arr * bool) option) =
  match a with
  | None -> ()
  | Some (a, hasptr) -> pr (Printf.sprintf " x:z=%s,n=%s,m=%s,p=%d" (dec a.a_siz) (dec a.a_num) (dec a.a_mem)
                    (if hasptr then 1 else 0))

let pr_ledger (w : world) =
  let c = List.length w.w_heap.h_live in
  let tot = List.fold_left (fun acc (_, sz) -> Int64.add acc (i64_of_n sz)) 0L w.w_heap.h_live in
  pr (Printf.sprintf " L=%d:%Lu" c tot)

(* ---- parsing operations ---- *)
let flag s = String.length s > 0 && s.[0] = '1'

let parse_op (t : string list) : op option =
  match t with
  | ["setm"; m] -> Some (OSetm (n_of_hex m))
  | ["setn"; n; d; f] -> Some (OSetn (n_of_hex n, flag d, elem_of_hex f))
  | ["setz"; z; d] -> Some (OSetz (n_of_hex z, flag d))
  | ["sort"] -> Some OSort
  | ["sortf"] -> Some OSortFore
  | ["sortb"] -> Some OSortBack
  | ["pushs"; k] -> Some (OPushSort (elem_of_hex k))
  | ["search"; k] -> Some (OSearch (elem_of_hex k))
  | ["ins"; i; v] -> Some (OInsert (n_of_hex i, elem_of_hex v))
  | ["pushf"; v] -> Some (OPushFore (elem_of_hex v))
  | ["pushb"; v] -> Some (OPushBack (elem_of_hex v))
  | ["push"; v] -> Some (oPush (elem_of_hex v))
  | ["rem"; i] -> Some (ORemove (n_of_hex i))
  | ["pullf"] -> Some OPullFore
  | ["pullb"] -> Some OPullBack
  | ["pull"] -> Some oPull
  | "store" :: i :: vs :: _ -> Some (OStore (n_of_hex i, elems_of vs))
  | ["erase"; i; c; d] -> Some (OErase (n_of_hex i, n_of_hex c, flag d))
  | ["at"; i] -> Some (OAt (n_of_hex i))
  | ["of"; i] -> Some (OOf (n_of_hex i))
  | ["top"] -> Some OTop
  | ["end"] -> Some OEnd
  | _ -> None

let () =
  let w = ref (init_world [] (n_of_hex "10000")) in
  let hist = ref 0 in
  let out = stdout in
  (try
     while true do
       let line = input_line stdin in
       let t = List.filter (fun s -> s <> "") (String.split_on_char ' ' line) in
       (match t with
        | [] -> ()
        | ["H"; lim; sch] ->
            let sched = if sch = "-" then []
              else List.init (String.length sch) (fun i -> sch.[i] = '1') in
            w := init_world sched (n_of_hex lim);
            pr (Printf.sprintf "H %d\n" !hist);
            incr hist
        | _ ->
            let step (o : wop) (show : world -> unit) =
              let (w1, r) = wstep_lex !w o in
              w := w1; pr_out r; show w1; pr_ledger w1; pr "\n" in
            (match t with
             | ["vn"; wh; z] | ["vc"; wh; z] -> step (WVNew (flag wh, n_of_hex z)) (fun w -> pr_vec w (flag wh))
             | ["vd"; wh; d] -> step (WVDie (flag wh, flag d)) (fun w -> pr_vec w (flag wh))
             | ["vx"; wh; d] ->
                 let left = wdtor_vec !w (flag wh) (flag d) in
                 step (WVDie (flag wh, flag d)) (fun w -> pr_dtor_left left; pr_vec w (flag wh))
             | ["vs"] -> step WVSwap (fun w -> pr_vec w false; pr_vec w true)
             | "v" :: wh :: rest ->
                 (match parse_op rest with
                  | Some o -> step (WV (flag wh, o)) (fun w -> pr_vec w (flag wh))
                  | None -> pr "?op\n")
             | ["bn"; z; n] | ["bc"; z; n] -> step (WBNew (n_of_hex z, n_of_hex n)) pr_buf
             | ["bd"; d] -> step (WBDie (flag d)) pr_buf
             | ["bx"; d] ->
                 let left = wdtor_buf !w (flag d) in
                 step (WBDie (flag d)) (fun w -> pr_dtor_left left; pr_buf w)
             | "b" :: rest ->
                 (match parse_op rest with
                  | Some o -> step (WB o) pr_buf
                  | None -> pr "?op\n")
             | _ -> pr "?line\n"));
       if Buffer.length buf > 60000 then begin Buffer.output_buffer out buf; Buffer.clear buf end
     done
   with End_of_file -> ());
  Buffer.output_buffer out buf
