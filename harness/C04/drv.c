/* C04 correspondence driver: executes histories of a_vec_* / a_buf_* calls read from stdin against
   the library sources of the CURRENT tree and prints one canonical line per operation.
   The same case file is consumed by harness/C04/mdrv.ml (the extracted Gallina model).
   a_alloc is replaced by a shim that answers from the history's fault schedule, refuses requests
   above the history's limit, fills fresh memory with 0xA5 and keeps a ledger of live blocks. */
#include "a/a.h"
#include "a/vec.h"
#include "a/buf.h"
#include <stdio.h>
#include <stdlib.h>
#include <string.h>

/* ------------------------------------------------------------------ allocator shim */
#define MAXBLK 64
static struct { void *p; size_t n; } blk[MAXBLK];
static char sched[4096];
static size_t sched_n, sched_i;
static size_t limit_ = 65536;
static char evbuf[4096];
static size_t evlen;

static void ev(char const *fmt, size_t n, int ok)
{
    if (evlen + 64 < sizeof(evbuf))
    {
        if (evlen) { evbuf[evlen++] = ','; }
        evlen += (size_t)sprintf(evbuf + evlen, fmt, n, ok ? '+' : '-');
    }
}

static int blk_find(void *p)
{
    int i;
    for (i = 0; i < MAXBLK; ++i) { if (blk[i].p == p && p) { return i; } }
    return -1;
}

static void *shim(void *addr, a_size size)
{
    int i, ans, ok;
    if (!size)
    {
        if (addr)
        {
            i = blk_find(addr);
            if (i < 0) { ev("BAD", 0, 0); return A_NULL; }
            free(addr);
            blk[i].p = A_NULL;
            ev("F", 0, 0);
        }
        return A_NULL;
    }
    ans = sched_i < sched_n ? sched[sched_i] == '1' : 1;
    if (sched_i < sched_n) { ++sched_i; }
    ok = ans && size <= limit_;
    if (!addr)
    {
        void *p;
        if (!ok) { ev("M%zu%c", size, 0); return A_NULL; }
        p = malloc(size);
        if (!p) { abort(); }
        memset(p, 0xA5, size);
        for (i = 0; i < MAXBLK && blk[i].p; ++i) {}
        if (i == MAXBLK) { abort(); }
        blk[i].p = p;
        blk[i].n = size;
        ev("M%zu%c", size, 1);
        return p;
    }
    i = blk_find(addr);
    if (i < 0) { ev("BAD", 0, 0); return A_NULL; }
    if (!ok) { ev("R%zu%c", size, 0); return A_NULL; }
    {
        size_t const old = blk[i].n;
        void *p = realloc(addr, size);
        if (!p) { abort(); }
        if (size > old) { memset((char *)p + old, 0xA5, size - old); }
        blk[i].p = p;
        blk[i].n = size;
        ev("R%zu%c", size, 1);
        return p;
    }
}

static void ledger(void)
{
    int i, c = 0;
    size_t tot = 0;
    for (i = 0; i < MAXBLK; ++i) { if (blk[i].p) { ++c; tot += blk[i].n; } }
    printf(" L=%d:%zu", c, tot);
}

static void free_all(void)
{
    int i;
    for (i = 0; i < MAXBLK; ++i) { if (blk[i].p) { free(blk[i].p); blk[i].p = A_NULL; } }
}

/* ------------------------------------------------------------------ callbacks */
static size_t cur_siz = 1;
static char *dtbuf;           /* destructor log: grows as needed (libc malloc, not the shim) */
static size_t dtcap;
static size_t dtlen;
static void dt_room(size_t extra)
{
    if (dtlen + extra + 8 > dtcap)
    {
        size_t cap = dtcap ? dtcap * 2 : (1u << 16);
        while (dtlen + extra + 8 > cap) { cap *= 2; }
        dtbuf = (char *)realloc(dtbuf, cap);
        if (!dtbuf) { abort(); }
        dtcap = cap;
    }
}

static void hexout(char *dst, size_t *len, size_t cap, void const *p, size_t n)
{
    size_t i;
    unsigned char const *b = (unsigned char const *)p;
    for (i = 0; i < n && *len + 3 < cap; ++i) { *len += (size_t)sprintf(dst + *len, "%02x", b[i]); }
}

static void dtor_cb(void *p)
{
    dt_room(2 * cur_siz + 2);
    if (dtlen) { dtbuf[dtlen++] = ','; }
    hexout(dtbuf, &dtlen, dtcap, p, cur_siz);
}

static int cmp_cb(void const *l, void const *r) { return memcmp(l, r, cur_siz); }
static int copy_cb(void *d, void const *s) { memcpy(d, s, cur_siz); return 0; }

/* ------------------------------------------------------------------ parsing */
static unsigned long long hexnum(char const *s) { return strtoull(s, 0, 16); }

/* element: hex digits, "-" = empty; result padded with 0 / truncated to siz bytes */
static void parse_elem(char const *s, unsigned char *dst, size_t siz)
{
    size_t i = 0;
    memset(dst, 0, siz);
    if (s[0] == '-') { return; }
    while (s[0] && s[1] && i < siz)
    {
        unsigned v;
        sscanf(s, "%2x", &v);
        dst[i++] = (unsigned char)v;
        s += 2;
    }
}

static void print_hex(void const *p, size_t n)
{
    size_t i;
    unsigned char const *b = (unsigned char const *)p;
    for (i = 0; i < n; ++i) { printf("%02x", b[i]); }
}

/* ------------------------------------------------------------------ state */
static a_vec *V[2];
static a_buf *B;

static void print_ptr(void const *base, size_t siz, size_t lim, void const *p)
{
    if (!p) { printf("ptr=NULL"); return; }
    {
        size_t const off = (size_t)((char const *)p - (char const *)base);
        printf("ptr=%zu:", off);
        if (siz && off / siz < lim) { print_hex(p, siz); }
        else { printf("?"); }
    }
}

static void print_tail(void)
{
    printf(" d=[%.*s] e=[%.*s]", (int)dtlen, dtbuf ? dtbuf : "", (int)evlen, evbuf);
}

static void print_arr(char const *tag, int present, void const *base, size_t siz, size_t num, size_t mem)
{
    size_t i, n = num < mem ? num : mem;
    if (!present) { printf(" %s:nil", tag); return; }
    printf(" %s:z=%zu,n=%zu,m=%zu,p=%d[", tag, siz, num, mem, base != A_NULL);
    for (i = 0; i < n && base; ++i)
    {
        if (i) { putchar(','); }
        print_hex((char const *)base + i * siz, siz);
    }
    printf("]");
}

static void print_vec(int w)
{
    a_vec *v = V[w];
    if (v) { print_arr(w ? "v1" : "v0", 1, v->ptr_, v->siz_, v->num_, v->mem_); }
    else { print_arr(w ? "v1" : "v0", 0, 0, 0, 0, 0); }
}

static void print_buf(void)
{
    if (B) { print_arr("b", 1, a_buf_ptr(B), B->siz_, B->num_, B->mem_); }
    else { print_arr("b", 0, 0, 0, 0, 0); }
}

#define MAXTOK 8
static char *tok[MAXTOK];
static int ntok;

static unsigned char e1[4096];
static unsigned char *many;

/* one container operation; isbuf selects the a_buf_* entry points */
static void do_op(int isbuf, int w, char **t, int nt)
{
    a_vec *v = isbuf ? A_NULL : V[w];
    a_buf *b = isbuf ? B : A_NULL;
    char const *o = t[0];
    size_t siz, num;
    void *base;
    if (isbuf ? !b : !v) { printf("void"); return; }
    siz = isbuf ? b->siz_ : v->siz_;
    cur_siz = siz;
#define BASE (isbuf ? a_buf_ptr(B) : V[w]->ptr_)
#define NUM (isbuf ? B->num_ : V[w]->num_)
#define MEM (isbuf ? B->mem_ : V[w]->mem_)
    if (!strcmp(o, "setm"))
    {
        if (isbuf)
        {
            a_buf *nb = a_buf_setm(b, (a_size)hexnum(t[1]));
            if (nb) { B = nb; }
            printf("rc=%d", nb ? A_SUCCESS : A_OMEMORY);
        }
        else { printf("rc=%d", a_vec_setm(v, (a_size)hexnum(t[1]))); }
    }
    else if (!strcmp(o, "setn"))
    {
        a_size const n = (a_size)hexnum(t[1]);
        int const d = t[2][0] == '1';
        size_t const old = NUM;
        size_t i;
        parse_elem(t[3], e1, siz);
        if (isbuf)
        {
            a_buf_setn(b, n, d ? dtor_cb : 0);
            for (i = old; i < b->num_; ++i) { memcpy(a_buf_at_(b, i), e1, siz); }
            printf("void");
        }
        else
        {
            int const rc = a_vec_setn(v, n, d ? dtor_cb : 0);
            if (rc == 0) { for (i = old; i < v->num_; ++i) { memcpy(a_vec_at_(v, i), e1, siz); } }
            printf("rc=%d", rc);
        }
    }
    else if (!strcmp(o, "setz"))
    {
        a_size const z = (a_size)hexnum(t[1]);
        int const d = t[2][0] == '1';
        if (isbuf) { a_buf_setz(b, z, d ? dtor_cb : 0); }
        else { a_vec_setz(v, z, d ? dtor_cb : 0); }
        printf("void");
    }
    else if (!strcmp(o, "sort"))
    {
        if (isbuf) { a_buf_sort(b, cmp_cb); } else { a_vec_sort(v, cmp_cb); }
        printf("void");
    }
    else if (!strcmp(o, "sortf"))
    {
        if (isbuf) { a_buf_sort_fore(b, cmp_cb); } else { a_vec_sort_fore(v, cmp_cb); }
        printf("void");
    }
    else if (!strcmp(o, "sortb"))
    {
        if (isbuf) { a_buf_sort_back(b, cmp_cb); } else { a_vec_sort_back(v, cmp_cb); }
        printf("void");
    }
    else if (!strcmp(o, "pushs") || !strcmp(o, "ins") || !strcmp(o, "pushf") || !strcmp(o, "pushb"))
    {
        void *p;
        if (!strcmp(o, "pushs"))
        {
            parse_elem(t[1], e1, siz);
            p = isbuf ? a_buf_push_sort(b, e1, cmp_cb) : a_vec_push_sort(v, e1, cmp_cb);
        }
        else if (!strcmp(o, "ins"))
        {
            a_size const idx = (a_size)hexnum(t[1]);
            parse_elem(t[2], e1, siz);
            p = isbuf ? a_buf_insert(b, idx) : a_vec_insert(v, idx);
        }
        else if (!strcmp(o, "pushf"))
        {
            parse_elem(t[1], e1, siz);
            p = isbuf ? a_buf_push_fore(b) : a_vec_push_fore(v);
        }
        else
        {
            parse_elem(t[1], e1, siz);
            p = isbuf ? a_buf_push_back(b) : a_vec_push_back(v);
        }
        if (p) { memcpy(p, e1, siz); }
        print_ptr(BASE, siz, NUM, p);
    }
    else if (!strcmp(o, "search"))
    {
        void *p;
        parse_elem(t[1], e1, siz);
        p = isbuf ? a_buf_search(b, e1, cmp_cb) : a_vec_search(v, e1, cmp_cb);
        printf("found=");
        if (p) { print_hex(p, siz); } else { printf("none"); }
    }
    else if (!strcmp(o, "rem") || !strcmp(o, "pullf") || !strcmp(o, "pullb"))
    {
        void *p;
        if (!strcmp(o, "rem"))
        {
            a_size const idx = (a_size)hexnum(t[1]);
            p = isbuf ? a_buf_remove(b, idx) : a_vec_remove(v, idx);
        }
        else if (!strcmp(o, "pullf")) { p = isbuf ? a_buf_pull_fore(b) : a_vec_pull_fore(v); }
        else { p = isbuf ? a_buf_pull_back(b) : a_vec_pull_back(v); }
        print_ptr(BASE, siz, MEM, p);
    }
    else if (!strcmp(o, "store"))
    {
        a_size const idx = (a_size)hexnum(t[1]);
        int const usecopy = nt > 3 && t[3][0] == '1';
        size_t cnt = 0;
        char *s = t[2];
        int rc;
        free(many);
        {
            size_t commas = 1;
            char const *c;
            for (c = s; *c; ++c) { commas += *c == ','; }
            many = (unsigned char *)malloc(commas * siz + 1);
        }
        if (strcmp(s, "-"))
        {
            char *q = s;
            for (;;)
            {
                char *c = strchr(q, ',');
                if (c) { *c = 0; }
                parse_elem(q[0] == '_' ? "-" : q, many + cnt * siz, siz);
                ++cnt;
                if (!c) { break; }
                q = c + 1;
            }
        }
        rc = isbuf ? a_buf_store(b, idx, many, cnt, usecopy ? copy_cb : 0)
                   : a_vec_store(v, idx, many, cnt, usecopy ? copy_cb : 0);
        printf("rc=%d", rc);
    }
    else if (!strcmp(o, "erase"))
    {
        a_size const idx = (a_size)hexnum(t[1]);
        a_size const cnt = (a_size)hexnum(t[2]);
        int const d = t[3][0] == '1';
        int const rc = isbuf ? a_buf_erase(b, idx, cnt, d ? dtor_cb : 0)
                             : a_vec_erase(v, idx, cnt, d ? dtor_cb : 0);
        printf("rc=%d", rc);
    }
    else if (!strcmp(o, "at"))
    {
        a_size const idx = (a_size)hexnum(t[1]);
        print_ptr(BASE, siz, NUM, isbuf ? a_buf_at(b, idx) : a_vec_at(v, idx));
    }
    else if (!strcmp(o, "of"))
    {
        a_diff const idx = (a_diff)(a_size)hexnum(t[1]);
        print_ptr(BASE, siz, NUM, isbuf ? a_buf_of(b, idx) : a_vec_of(v, idx));
    }
    else if (!strcmp(o, "top"))
    {
        print_ptr(BASE, siz, NUM, isbuf ? a_buf_top(b) : a_vec_top(v));
    }
    else if (!strcmp(o, "end"))
    {
        print_ptr(BASE, siz, 0, isbuf ? a_buf_end(b) : a_vec_end(v));
    }
    else { printf("?op"); }
    (void)num;
    (void)base;
}

int main(void)
{
    static char line[1 << 20];
    int const linebuf = getenv("C04_LINEBUF") != 0;
    long hist = 0;
    a_alloc = shim;
    while (fgets(line, sizeof(line), stdin))
    {
        char *s = line;
        ntok = 0;
        while (ntok < MAXTOK)
        {
            while (*s == ' ' || *s == '\n') { *s++ = 0; }
            if (!*s) { break; }
            tok[ntok++] = s;
            while (*s && *s != ' ' && *s != '\n') { ++s; }
        }
        if (!ntok) { continue; }
        dtlen = 0;
        evlen = 0;
        if (!strcmp(tok[0], "H"))
        {
            /* new history: drop whatever the previous one left, reset the allocator */
            fflush(stdout);
            free_all();
            V[0] = V[1] = A_NULL;
            B = A_NULL;
            limit_ = (size_t)hexnum(tok[1]);
            sched_n = 0;
            sched_i = 0;
            if (strcmp(tok[2], "-"))
            {
                sched_n = strlen(tok[2]);
                if (sched_n >= sizeof(sched)) { sched_n = sizeof(sched) - 1; }
                memcpy(sched, tok[2], sched_n);
            }
            printf("H %ld\n", hist++);
            fflush(stdout); /* a crash is attributed to the last history announced */
            continue;
        }
        if (!strcmp(tok[0], "vn"))
        {
            int const w = tok[1][0] == '1';
            if (!V[w]) { V[w] = a_vec_new((a_size)hexnum(tok[2])); }
            printf("void");
            print_tail();
            print_vec(w);
        }
        else if (!strcmp(tok[0], "vd"))
        {
            int const w = tok[1][0] == '1';
            if (V[w])
            {
                cur_siz = V[w]->siz_;
                a_vec_die(V[w], tok[2][0] == '1' ? dtor_cb : 0);
                V[w] = A_NULL;
            }
            printf("void");
            print_tail();
            print_vec(w);
        }
        else if (!strcmp(tok[0], "vs"))
        {
            if (V[0] && V[1]) { a_vec_swap(V[0], V[1]); }
            printf("void");
            print_tail();
            print_vec(0);
            print_vec(1);
        }
        else if (!strcmp(tok[0], "v"))
        {
            int const w = tok[1][0] == '1';
            do_op(0, w, tok + 2, ntok - 2);
            print_tail();
            print_vec(w);
        }
        else if (!strcmp(tok[0], "bn"))
        {
            if (!B) { B = a_buf_new((a_size)hexnum(tok[1]), (a_size)hexnum(tok[2])); }
            printf("void");
            print_tail();
            print_buf();
        }
        else if (!strcmp(tok[0], "bd"))
        {
            if (B)
            {
                cur_siz = B->siz_;
                a_buf_die(B, tok[1][0] == '1' ? dtor_cb : 0);
                B = A_NULL;
            }
            printf("void");
            print_tail();
            print_buf();
        }
        else if (!strcmp(tok[0], "b"))
        {
            do_op(1, 0, tok + 1, ntok - 1);
            print_tail();
            print_buf();
        }
        else { printf("?line"); }
        ledger();
        putchar('\n');
        if (linebuf) { fflush(stdout); }
    }
    fflush(stdout);
    free_all();
    free(many);
    return 0;
}
