/* C04 correspondence driver: executes histories of a_vec_* / a_buf_* calls read from stdin against
   the library sources of the CURRENT tree and prints one canonical line per operation.
   The same case file is consumed by harness/C04/mdrv.ml (the extracted Gallina model).
   a_alloc is replaced by a shim that answers from the history's fault schedule, refuses requests
   above the history's limit, fills fresh memory with 0xA5 and keeps a ledger of live blocks.

   CASE LINES (numbers are hexadecimal, elements are hex byte strings, "-" = empty)
     H <limit> <schedule|->        new history (allocator limit, fault schedule of 0/1 answers)
     vn <w> <siz> | vc <w> <siz>   vector w (0/1): a_vec_new  |  a_alloc(sizeof(a_vec)) + a_vec_ctor
     vd <w> <d>   | vx <w> <d>     a_vec_die  |  a_vec_dtor + a_alloc(ctx, 0)      (d = 1: with destructor)
     vs                            a_vec_swap(v0, v1)
     bn <siz> <num> | bc <siz> <num>   a_buf_new  |  a_alloc(sizeof(a_buf) + siz * num) + a_buf_ctor
     bd <d>       | bx <d>         a_buf_die  |  a_buf_dtor + a_alloc(ctx, 0)
     v <w> <op> ... | b <op> ...   one operation on vector w / on the buffer, <op> one of
        setm m | setn n d fill | setz z d | sort | sortf | sortb | pushs key | search key | ins idx v |
        pushf v | pushb v | push v (alias a_vec_push / a_buf_push) | rem idx | pullf | pullb |
        pull (alias a_vec_pull / a_buf_pull) | store idx v,v,.. copyflag | erase idx cnt d | at idx | of idx |
        top | end
   OUTPUT LINE (one per case line other than H, which prints "H <k>")
     <ret> d=[<destroyed elements>] e=[<allocator events>] [x:z=..,n=..,m=..,p=..] <container>.. L=<blocks>:<bytes>
     <ret>       void | rc=<int> | ptr=NULL | ptr=<byte offset>:<element hex or ?> | found=<hex>|none
     e=[..]      M<size>+/- malloc, R<size>+/- realloc, F free, BAD release of a block that is not live
     x:..        only after vx / bx: the fields of the structure as a_vec_dtor / a_buf_dtor left them
     <container> " v0:nil" or " v0:z=<siz>,n=<num>,m=<mem>,p=<0|1>,o=<owned>[e,e,..] acc=<A>"  (v0 | v1 | b; fields
                 are read directly from the structure; <owned> = bytes of element storage the allocator shim
                 recorded for the container: size of the live block ptr_ points to, for the buffer the block
                 size minus sizeof(a_buf); "?" if the storage pointer is not a live block), where <A> is the
                 verdict on the inline accessors of vec.h / buf.h, all evaluated on the state just printed:
                   ok                              every accessor agrees with the fields
                   BAD:<function>:<got>:<want>     first accessor that does not (pointers as byte offsets from
                                                   the base of the owned storage, NULL as "NULL")
                 accessors evaluated (unchecked ones only where their precondition holds):
                   a_vec_ptr a_vec_siz a_vec_num a_vec_mem; a_vec_at_ and a_vec_at at 0, num-1, num, mem-1
                   (those < mem); a_vec_at at mem and SIZE_MAX (NULL); a_vec_top_ (num > 0), a_vec_top,
                   a_vec_of(-1) (= top), a_vec_of(0); a_vec_end_ (storage present), a_vec_end;
                   the same list for a_buf_* (a_buf_ptr = ctx + 1; buf.h has no a_buf_end_).
   ELEMENT SIZES ABOVE ELEM_MAX (65536 = the largest allocator limit, so no such element can exist in correct
   code): the driver never reads or writes element bytes - no element is parsed, stored, dumped or handed to a
   callback; every element prints as "?".  Only rc / returned offset / num / mem / allocator trace / owned bytes
   are observed.  The unchecked accessors are evaluated only on slots that lie inside the owned bytes.
   Never an address, never a decimal float. */
#include "a/a.h"
#include "a/vec.h"
#include "a/buf.h"
#include <stdio.h>
#include <stdlib.h>
#include <string.h>

/* ------------------------------------------------------------------ allocator shim */
#define MAXBLK 64
static struct { void *p; size_t n; } blk[MAXBLK];
static char sched[4096];
static size_t sched_n, sched_i;
static size_t limit_ = 65536;
static char evbuf[4096];
static size_t evlen;

static void ev(char const *fmt, size_t n, int ok)
{
    if (evlen + 64 < sizeof(evbuf))
    {
        if (evlen) { evbuf[evlen++] = ','; }
        evlen += (size_t)sprintf(evbuf + evlen, fmt, n, ok ? '+' : '-');
    }
}

static int blk_find(void *p)
{
    int i;
    for (i = 0; i < MAXBLK; ++i) { if (blk[i].p == p && p) { return i; } }
    return -1;
}

static void *shim(void *addr, a_size size)
{
    int i, ans, ok;
    if (!size)
    {
        if (addr)
        {
            i = blk_find(addr);
            if (i < 0) { ev("BAD", 0, 0); return A_NULL; }
            free(addr);
            blk[i].p = A_NULL;
            ev("F", 0, 0);
        }
        return A_NULL;
    }
    ans = sched_i < sched_n ? sched[sched_i] == '1' : 1;
    if (sched_i < sched_n) { ++sched_i; }
    ok = ans && size <= limit_;
    if (!addr)
    {
        void *p;
        if (!ok) { ev("M%zu%c", size, 0); return A_NULL; }
        p = malloc(size);
        if (!p) { abort(); }
        memset(p, 0xA5, size);
        for (i = 0; i < MAXBLK && blk[i].p; ++i) {}
        if (i == MAXBLK) { abort(); }
        blk[i].p = p;
        blk[i].n = size;
        ev("M%zu%c", size, 1);
        return p;
    }
    i = blk_find(addr);
    if (i < 0) { ev("BAD", 0, 0); return A_NULL; }
    if (!ok) { ev("R%zu%c", size, 0); return A_NULL; }
    {
        size_t const old = blk[i].n;
        void *p = realloc(addr, size);
        if (!p) { abort(); }
        if (size > old) { memset((char *)p + old, 0xA5, size - old); }
        blk[i].p = p;
        blk[i].n = size;
        ev("R%zu%c", size, 1);
        return p;
    }
}

static void ledger(void)
{
    int i, c = 0;
    size_t tot = 0;
    for (i = 0; i < MAXBLK; ++i) { if (blk[i].p) { ++c; tot += blk[i].n; } }
    printf(" L=%d:%zu", c, tot);
}

static void free_all(void)
{
    int i;
    for (i = 0; i < MAXBLK; ++i) { if (blk[i].p) { free(blk[i].p); blk[i].p = A_NULL; } }
}

/* ------------------------------------------------------------------ callbacks */
#define ELEM_MAX 65536
#define HUGE(siz) ((siz) > ELEM_MAX)
static size_t cur_siz = 1;
static char *dtbuf;           /* destructor log: grows as needed (libc malloc, not the shim) */
static size_t dtcap;
static size_t dtlen;
static void dt_room(size_t extra)
{
    if (dtlen + extra + 8 > dtcap)
    {
        size_t cap = dtcap ? dtcap * 2 : (1u << 16);
        while (dtlen + extra + 8 > cap) { cap *= 2; }
        dtbuf = (char *)realloc(dtbuf, cap);
        if (!dtbuf) { abort(); }
        dtcap = cap;
    }
}

static void hexout(char *dst, size_t *len, size_t cap, void const *p, size_t n)
{
    size_t i;
    unsigned char const *b = (unsigned char const *)p;
    for (i = 0; i < n && *len + 3 < cap; ++i) { *len += (size_t)sprintf(dst + *len, "%02x", b[i]); }
}

static void dtor_cb(void *p)
{
    dt_room(HUGE(cur_siz) ? 4 : 2 * cur_siz + 2);
    if (dtlen) { dtbuf[dtlen++] = ','; }
    if (HUGE(cur_siz)) { dtbuf[dtlen++] = '?'; return; }
    hexout(dtbuf, &dtlen, dtcap, p, cur_siz);
}

static int cmp_cb(void const *l, void const *r) { return HUGE(cur_siz) ? 0 : memcmp(l, r, cur_siz); }
static int copy_cb(void *d, void const *s)
{
    if (!HUGE(cur_siz)) { memcpy(d, s, cur_siz); }
    return 0;
}

/* ------------------------------------------------------------------ parsing */
static unsigned long long hexnum(char const *s) { return strtoull(s, 0, 16); }

/* element: hex digits, "-" = empty; result padded with 0 / truncated to siz bytes */
static void parse_elem(char const *s, unsigned char *dst, size_t siz)
{
    size_t i = 0;
    if (HUGE(siz)) { return; }
    memset(dst, 0, siz);
    if (s[0] == '-') { return; }
    while (s[0] && s[1] && i < siz)
    {
        unsigned v;
        sscanf(s, "%2x", &v);
        dst[i++] = (unsigned char)v;
        s += 2;
    }
}

static void print_hex(void const *p, size_t n)
{
    size_t i;
    unsigned char const *b = (unsigned char const *)p;
    for (i = 0; i < n; ++i) { printf("%02x", b[i]); }
}

/* ------------------------------------------------------------------ state */
static a_vec *V[2];
static a_buf *B;

static void print_ptr(void const *base, size_t siz, size_t lim, void const *p)
{
    if (!p) { printf("ptr=NULL"); return; }
    {
        size_t const off = (size_t)((char const *)p - (char const *)base);
        printf("ptr=%zu:", off);
        if (siz && !HUGE(siz) && off / siz < lim) { print_hex(p, siz); }
        else { printf("?"); }
    }
}

static void print_tail(void)
{
    printf(" d=[%.*s] e=[%.*s]", (int)dtlen, dtbuf ? dtbuf : "", (int)evlen, evbuf);
}

/* owned: bytes of element storage recorded by the shim, (size_t)-1 = the storage is not a live block */
static void print_arr(char const *tag, int present, void const *base, size_t siz, size_t num, size_t mem,
                      size_t owned)
{
    size_t i, n = num < mem ? num : mem;
    if (!present) { printf(" %s:nil", tag); return; }
    printf(" %s:z=%zu,n=%zu,m=%zu,p=%d,o=", tag, siz, num, mem, base != A_NULL);
    if (owned == (size_t)-1) { printf("?["); }
    else { printf("%zu[", owned); }
    if (HUGE(siz) && n > 16) { n = 16; }
    for (i = 0; i < n && base; ++i)
    {
        if (i) { putchar(','); }
        if (HUGE(siz)) { putchar('?'); }
        else { print_hex((char const *)base + i * siz, siz); }
    }
    printf("]");
}

static size_t owned_vec(a_vec const *v)
{
    int i;
    if (!v->ptr_) { return 0; }
    i = blk_find(v->ptr_);
    return i < 0 ? (size_t)-1 : blk[i].n;
}

static size_t owned_buf(a_buf const *b)
{
    int const i = blk_find((void *)b);
    return i < 0 || blk[i].n < sizeof(a_buf) ? (size_t)-1 : blk[i].n - sizeof(a_buf);
}


/* ------------------------------------------------------------------ accessors
   Every inline accessor of vec.h / buf.h is evaluated on the state just printed and compared with what the
   fields imply.  The first disagreement is remembered: acc=BAD:<function>:<got>:<want>. */
static char accbuf[160];
static int accbad;

static void acc_num(char const *fn, size_t got, size_t want)
{
    if (!accbad && got != want)
    {
        accbad = 1;
        sprintf(accbuf, "BAD:%s:%zu:%zu", fn, got, want);
    }
}

/* want: byte offset from base, or (size_t)-1 for NULL */
static void acc_ptr(char const *fn, void const *base, void const *got, size_t want)
{
    int const wn = want == (size_t)-1;
    if (accbad) { return; }
    if (wn ? got == A_NULL : (got != A_NULL && (size_t)((char const *)got - (char const *)base) == want)) { return; }
    accbad = 1;
    {
        int n = sprintf(accbuf, "BAD:%s:", fn);
        if (got) { n += sprintf(accbuf + n, "%zu:", (size_t)((char const *)got - (char const *)base)); }
        else { n += sprintf(accbuf + n, "NULL:"); }
        if (wn) { sprintf(accbuf + n, "NULL"); }
        else { sprintf(accbuf + n, "%zu", want); }
    }
}

#define NIL ((size_t)-1)
static void acc_vec(a_vec const *v)
{
    char const *const base = (char const *)v->ptr_;
    size_t const siz = v->siz_, num = v->num_, mem = v->mem_;
    size_t probe[4], i;
    accbad = 0;
    if (a_vec_ptr(v) != v->ptr_)
    {
        accbad = 1;
        sprintf(accbuf, "BAD:a_vec_ptr:%s:%s", a_vec_ptr(v) ? "other" : "NULL", v->ptr_ ? "base" : "NULL");
    }
    acc_num("a_vec_siz", a_vec_siz(v), siz);
    acc_num("a_vec_num", a_vec_num(v), num);
    acc_num("a_vec_mem", a_vec_mem(v), mem);
    /* broken state (count above capacity, capacity without the storage for it): the unchecked accessors have no
       meaning and are not called */
    if (num > mem || (mem && !base) || (mem && (owned_vec(v) == NIL || siz > owned_vec(v) / mem))) { goto done; }
    probe[0] = 0; probe[1] = num - 1; probe[2] = num; probe[3] = mem - 1;
    for (i = 0; i < 4; ++i)
    {
        size_t const k = probe[i];
        if (k < mem)
        {
            acc_ptr("a_vec_at_", base, a_vec_at_(v, k), siz * k);
            acc_ptr("a_vec_at", base, a_vec_at(v, k), siz * k);
        }
        else { acc_ptr("a_vec_at", base, a_vec_at(v, k), NIL); }
    }
    acc_ptr("a_vec_at", base, a_vec_at(v, mem), NIL);
    acc_ptr("a_vec_at", base, a_vec_at(v, A_SIZE_MAX), NIL);
    if (num)
    {
        acc_ptr("a_vec_top_", base, a_vec_top_(v), siz * (num - 1));
        acc_ptr("a_vec_top", base, a_vec_top(v), siz * (num - 1));
        acc_ptr("a_vec_of", base, a_vec_of(v, -1), siz * (num - 1));
    }
    else { acc_ptr("a_vec_top", base, a_vec_top(v), NIL); }
    acc_ptr("a_vec_of", base, a_vec_of(v, 0), mem ? 0 : NIL);
    if (base)
    {
        acc_ptr("a_vec_end_", base, a_vec_end_(v), siz * num);
        acc_ptr("a_vec_end", base, a_vec_end(v), siz * num);
    }
    else { acc_ptr("a_vec_end", base, a_vec_end(v), NIL); }
done:
    printf(" acc=%s", accbad ? accbuf : "ok");
}

static void acc_buf(a_buf const *b)
{
    char const *const base = (char const *)(b + 1);
    size_t const siz = b->siz_, num = b->num_, mem = b->mem_;
    size_t probe[4], i;
    accbad = 0;
    acc_ptr("a_buf_ptr", base, a_buf_ptr(b), 0);
    acc_num("a_buf_siz", a_buf_siz(b), siz);
    acc_num("a_buf_num", a_buf_num(b), num);
    acc_num("a_buf_mem", a_buf_mem(b), mem);
    if (num > mem || (mem && (owned_buf(b) == NIL || siz > owned_buf(b) / mem))) { goto done; }
    probe[0] = 0; probe[1] = num - 1; probe[2] = num; probe[3] = mem - 1;
    for (i = 0; i < 4; ++i)
    {
        size_t const k = probe[i];
        if (k < mem)
        {
            acc_ptr("a_buf_at_", base, a_buf_at_(b, k), siz * k);
            acc_ptr("a_buf_at", base, a_buf_at(b, k), siz * k);
        }
        else { acc_ptr("a_buf_at", base, a_buf_at(b, k), NIL); }
    }
    acc_ptr("a_buf_at", base, a_buf_at(b, mem), NIL);
    acc_ptr("a_buf_at", base, a_buf_at(b, A_SIZE_MAX), NIL);
    if (num)
    {
        acc_ptr("a_buf_top_", base, a_buf_top_(b), siz * (num - 1));
        acc_ptr("a_buf_top", base, a_buf_top(b), siz * (num - 1));
        acc_ptr("a_buf_of", base, a_buf_of(b, -1), siz * (num - 1));
    }
    else { acc_ptr("a_buf_top", base, a_buf_top(b), NIL); }
    acc_ptr("a_buf_of", base, a_buf_of(b, 0), mem ? 0 : NIL);
    acc_ptr("a_buf_end", base, a_buf_end(b), siz * num);
done:
    printf(" acc=%s", accbad ? accbuf : "ok");
}

static void print_vec(int w)
{
    a_vec *v = V[w];
    if (v) { print_arr(w ? "v1" : "v0", 1, v->ptr_, v->siz_, v->num_, v->mem_, owned_vec(v)); acc_vec(v); }
    else { print_arr(w ? "v1" : "v0", 0, 0, 0, 0, 0, 0); }
}

static void print_buf(void)
{
    if (B) { print_arr("b", 1, B + 1, B->siz_, B->num_, B->mem_, owned_buf(B)); acc_buf(B); }
    else { print_arr("b", 0, 0, 0, 0, 0, 0); }
}

#define MAXTOK 8
static char *tok[MAXTOK];
static int ntok;

static unsigned char e1[ELEM_MAX];
static unsigned char *many;

/* one container operation; isbuf selects the a_buf_* entry points */
static void do_op(int isbuf, int w, char **t, int nt)
{
    a_vec *v = isbuf ? A_NULL : V[w];
    a_buf *b = isbuf ? B : A_NULL;
    char const *o = t[0];
    size_t siz, num;
    void *base;
    if (isbuf ? !b : !v) { printf("void"); return; }
    siz = isbuf ? b->siz_ : v->siz_;
    cur_siz = siz;
#define BASE (isbuf ? a_buf_ptr(B) : V[w]->ptr_)
#define NUM (isbuf ? B->num_ : V[w]->num_)
#define MEM (isbuf ? B->mem_ : V[w]->mem_)
    if (!strcmp(o, "setm"))
    {
        if (isbuf)
        {
            a_buf *nb = a_buf_setm(b, (a_size)hexnum(t[1]));
            if (nb) { B = nb; }
            printf("rc=%d", nb ? A_SUCCESS : A_OMEMORY);
        }
        else { printf("rc=%d", a_vec_setm(v, (a_size)hexnum(t[1]))); }
    }
    else if (!strcmp(o, "setn"))
    {
        a_size const n = (a_size)hexnum(t[1]);
        int const d = t[2][0] == '1';
        size_t const old = NUM;
        size_t i;
        parse_elem(t[3], e1, siz);
        if (isbuf)
        {
            a_buf_setn(b, n, d ? dtor_cb : 0);
            for (i = old; i < b->num_ && !HUGE(siz); ++i) { memcpy(a_buf_at_(b, i), e1, siz); }
            printf("void");
        }
        else
        {
            int const rc = a_vec_setn(v, n, d ? dtor_cb : 0);
            if (rc == 0) { for (i = old; i < v->num_ && !HUGE(siz); ++i) { memcpy(a_vec_at_(v, i), e1, siz); } }
            printf("rc=%d", rc);
        }
    }
    else if (!strcmp(o, "setz"))
    {
        a_size const z = (a_size)hexnum(t[1]);
        int const d = t[2][0] == '1';
        if (isbuf) { a_buf_setz(b, z, d ? dtor_cb : 0); }
        else { a_vec_setz(v, z, d ? dtor_cb : 0); }
        printf("void");
    }
    else if (!strcmp(o, "sort"))
    {
        if (isbuf) { a_buf_sort(b, cmp_cb); } else { a_vec_sort(v, cmp_cb); }
        printf("void");
    }
    else if (!strcmp(o, "sortf"))
    {
        if (isbuf) { a_buf_sort_fore(b, cmp_cb); } else { a_vec_sort_fore(v, cmp_cb); }
        printf("void");
    }
    else if (!strcmp(o, "sortb"))
    {
        if (isbuf) { a_buf_sort_back(b, cmp_cb); } else { a_vec_sort_back(v, cmp_cb); }
        printf("void");
    }
    else if (!strcmp(o, "pushs") || !strcmp(o, "ins") || !strcmp(o, "pushf") || !strcmp(o, "pushb") ||
             !strcmp(o, "push"))
    {
        void *p;
        if (!strcmp(o, "pushs"))
        {
            parse_elem(t[1], e1, siz);
            p = isbuf ? a_buf_push_sort(b, e1, cmp_cb) : a_vec_push_sort(v, e1, cmp_cb);
        }
        else if (!strcmp(o, "ins"))
        {
            a_size const idx = (a_size)hexnum(t[1]);
            parse_elem(t[2], e1, siz);
            p = isbuf ? a_buf_insert(b, idx) : a_vec_insert(v, idx);
        }
        else if (!strcmp(o, "pushf"))
        {
            parse_elem(t[1], e1, siz);
            p = isbuf ? a_buf_push_fore(b) : a_vec_push_fore(v);
        }
        else if (!strcmp(o, "push"))
        {
            parse_elem(t[1], e1, siz);
            p = isbuf ? a_buf_push(b) : a_vec_push(v);
        }
        else
        {
            parse_elem(t[1], e1, siz);
            p = isbuf ? a_buf_push_back(b) : a_vec_push_back(v);
        }
        if (p && !HUGE(siz)) { memcpy(p, e1, siz); }
        print_ptr(BASE, siz, NUM, p);
    }
    else if (!strcmp(o, "search"))
    {
        void *p;
        parse_elem(t[1], e1, siz);
        p = isbuf ? a_buf_search(b, e1, cmp_cb) : a_vec_search(v, e1, cmp_cb);
        printf("found=");
        if (p) { print_hex(p, siz); } else { printf("none"); }
    }
    else if (!strcmp(o, "rem") || !strcmp(o, "pullf") || !strcmp(o, "pullb") || !strcmp(o, "pull"))
    {
        void *p;
        if (!strcmp(o, "rem"))
        {
            a_size const idx = (a_size)hexnum(t[1]);
            p = isbuf ? a_buf_remove(b, idx) : a_vec_remove(v, idx);
        }
        else if (!strcmp(o, "pullf")) { p = isbuf ? a_buf_pull_fore(b) : a_vec_pull_fore(v); }
        else if (!strcmp(o, "pull")) { p = isbuf ? a_buf_pull(b) : a_vec_pull(v); }
        else { p = isbuf ? a_buf_pull_back(b) : a_vec_pull_back(v); }
        print_ptr(BASE, siz, MEM, p);
    }
    else if (!strcmp(o, "store"))
    {
        a_size const idx = (a_size)hexnum(t[1]);
        int const usecopy = nt > 3 && t[3][0] == '1';
        size_t cnt = 0;
        char *s = t[2];
        int rc;
        free(many);
        {
            size_t commas = 1;
            char const *c;
            for (c = s; *c; ++c) { commas += *c == ','; }
            many = (unsigned char *)malloc(HUGE(siz) ? 1 : commas * siz + 1);
        }
        if (HUGE(siz)) { cnt = strcmp(s, "-") ? 1 : 0; } /* a count only: nothing may be copied (and nothing can fit) */
        else if (strcmp(s, "-"))
        {
            char *q = s;
            for (;;)
            {
                char *c = strchr(q, ',');
                if (c) { *c = 0; }
                parse_elem(q[0] == '_' ? "-" : q, many + cnt * siz, siz);
                ++cnt;
                if (!c) { break; }
                q = c + 1;
            }
        }
        rc = isbuf ? a_buf_store(b, idx, many, cnt, usecopy ? copy_cb : 0)
                   : a_vec_store(v, idx, many, cnt, usecopy ? copy_cb : 0);
        printf("rc=%d", rc);
    }
    else if (!strcmp(o, "erase"))
    {
        a_size const idx = (a_size)hexnum(t[1]);
        a_size const cnt = (a_size)hexnum(t[2]);
        int const d = t[3][0] == '1';
        int const rc = isbuf ? a_buf_erase(b, idx, cnt, d ? dtor_cb : 0)
                             : a_vec_erase(v, idx, cnt, d ? dtor_cb : 0);
        printf("rc=%d", rc);
    }
    else if (!strcmp(o, "at"))
    {
        a_size const idx = (a_size)hexnum(t[1]);
        print_ptr(BASE, siz, NUM, isbuf ? a_buf_at(b, idx) : a_vec_at(v, idx));
    }
    else if (!strcmp(o, "of"))
    {
        a_diff const idx = (a_diff)(a_size)hexnum(t[1]);
        print_ptr(BASE, siz, NUM, isbuf ? a_buf_of(b, idx) : a_vec_of(v, idx));
    }
    else if (!strcmp(o, "top"))
    {
        print_ptr(BASE, siz, NUM, isbuf ? a_buf_top(b) : a_vec_top(v));
    }
    else if (!strcmp(o, "end"))
    {
        print_ptr(BASE, siz, 0, isbuf ? a_buf_end(b) : a_vec_end(v));
    }
    else { printf("?op"); }
    (void)num;
    (void)base;
}

int main(void)
{
    static char line[1 << 20];
    int const linebuf = getenv("C04_LINEBUF") != 0;
    long hist = 0;
    a_alloc = shim;
    while (fgets(line, sizeof(line), stdin))
    {
        char *s = line;
        ntok = 0;
        while (ntok < MAXTOK)
        {
            while (*s == ' ' || *s == '\n') { *s++ = 0; }
            if (!*s) { break; }
            tok[ntok++] = s;
            while (*s && *s != ' ' && *s != '\n') { ++s; }
        }
        if (!ntok) { continue; }
        dtlen = 0;
        evlen = 0;
        if (!strcmp(tok[0], "H"))
        {
            /* new history: drop whatever the previous one left, reset the allocator */
            fflush(stdout);
            free_all();
            V[0] = V[1] = A_NULL;
            B = A_NULL;
            limit_ = (size_t)hexnum(tok[1]);
            sched_n = 0;
            sched_i = 0;
            if (strcmp(tok[2], "-"))
            {
                sched_n = strlen(tok[2]);
                if (sched_n >= sizeof(sched)) { sched_n = sizeof(sched) - 1; }
                memcpy(sched, tok[2], sched_n);
            }
            printf("H %ld\n", hist++);
            fflush(stdout); /* a crash is attributed to the last history announced */
            continue;
        }
        if (!strcmp(tok[0], "vn") || !strcmp(tok[0], "vc"))
        {
            int const w = tok[1][0] == '1';
            if (!V[w])
            {
                if (tok[0][1] == 'n') { V[w] = a_vec_new((a_size)hexnum(tok[2])); }
                else
                {
                    /* the same construction by hand: the structure comes from a_alloc (0xA5-filled), a_vec_ctor
                       has to initialise every field */
                    a_vec *const ctx = (a_vec *)a_alloc(A_NULL, sizeof(a_vec));
                    if (ctx) { a_vec_ctor(ctx, (a_size)hexnum(tok[2])); }
                    V[w] = ctx;
                }
            }
            printf("void");
            print_tail();
            print_vec(w);
        }
        else if (!strcmp(tok[0], "vd"))
        {
            int const w = tok[1][0] == '1';
            if (V[w])
            {
                cur_siz = V[w]->siz_;
                a_vec_die(V[w], tok[2][0] == '1' ? dtor_cb : 0);
                V[w] = A_NULL;
            }
            printf("void");
            print_tail();
            print_vec(w);
        }
        else if (!strcmp(tok[0], "vx"))
        {
            int const w = tok[1][0] == '1';
            a_vec *const ctx = V[w];
            size_t z = 0, n = 0, m = 0;
            int p = 0;
            if (ctx)
            {
                cur_siz = ctx->siz_;
                a_vec_dtor(ctx, tok[2][0] == '1' ? dtor_cb : 0);
                z = ctx->siz_; n = ctx->num_; m = ctx->mem_; p = ctx->ptr_ != A_NULL;
                a_alloc(ctx, 0);
                V[w] = A_NULL;
            }
            printf("void");
            print_tail();
            if (ctx) { printf(" x:z=%zu,n=%zu,m=%zu,p=%d", z, n, m, p); }
            print_vec(w);
        }
        else if (!strcmp(tok[0], "vs"))
        {
            if (V[0] && V[1]) { a_vec_swap(V[0], V[1]); }
            printf("void");
            print_tail();
            print_vec(0);
            print_vec(1);
        }
        else if (!strcmp(tok[0], "v"))
        {
            int const w = tok[1][0] == '1';
            do_op(0, w, tok + 2, ntok - 2);
            print_tail();
            print_vec(w);
        }
        else if (!strcmp(tok[0], "bn") || !strcmp(tok[0], "bc"))
        {
            if (!B)
            {
                a_size const siz = (a_size)hexnum(tok[1]), num = (a_size)hexnum(tok[2]);
                if (tok[0][1] == 'n') { B = a_buf_new(siz, num); }
                else
                {
                    a_buf *const ctx = (a_buf *)a_alloc(A_NULL, sizeof(a_buf) + (siz ? siz : 1) * num);
                    if (ctx) { a_buf_ctor(ctx, siz, num); }
                    B = ctx;
                }
            }
            printf("void");
            print_tail();
            print_buf();
        }
        else if (!strcmp(tok[0], "bd"))
        {
            if (B)
            {
                cur_siz = B->siz_;
                a_buf_die(B, tok[1][0] == '1' ? dtor_cb : 0);
                B = A_NULL;
            }
            printf("void");
            print_tail();
            print_buf();
        }
        else if (!strcmp(tok[0], "bx"))
        {
            a_buf *const ctx = B;
            size_t z = 0, n = 0, m = 0;
            if (ctx)
            {
                cur_siz = ctx->siz_;
                a_buf_dtor(ctx, tok[1][0] == '1' ? dtor_cb : 0);
                z = ctx->siz_; n = ctx->num_; m = ctx->mem_;
                a_alloc(ctx, 0);
                B = A_NULL;
            }
            printf("void");
            print_tail();
            if (ctx) { printf(" x:z=%zu,n=%zu,m=%zu,p=1", z, n, m); }
            print_buf();
        }
        else if (!strcmp(tok[0], "b"))
        {
            do_op(1, 0, tok + 1, ntok - 1);
            print_tail();
            print_buf();
        }
        else { printf("?line"); }
        ledger();
        putchar('\n');
        if (linebuf) { fflush(stdout); }
    }
    fflush(stdout);
    free_all();
    free(many);
    return 0;
}
