(* All-lengths translator tie, part 3: the array helpers of src/math.c - copy, swap, fill, zero (element loops), push and
   roll in their single and block forms (memmove / memcpy through a_move / a_copy).  Module Gen.GenLoop is regenerated on every
   run by tools/c2arr.py from the CURRENT source.  Memory is one `list T` per array with offsets into it (copy and swap take
   both pointers into ONE array, like the model, so overlapping arguments are covered); loads are nth_error, stores the checked
   update, a_move / a_copy the block move "read all cells, then write" on a BYTE count (the bodies of a_copy / a_move in src/a.c
   are checked to be memcpy / memmove by the translator).  For EVERY NumOps instance, count, stride, offsets, array length
   (too short: both sides None) and content the generated function equals the hand model of C11/MathDefs.v:
     - element loops (copy_, swap, swap_, fill, zero): no hypothesis (they count n down to 0; pointers are not bounded);
     - block operations (copy, the push and roll functions): under `in64 (8 * n)` - the byte count sizeof(a_real) * n must not wrap, the
       generated code returns None when it would (for the block forms `in64 (8 * block_n)`: every count used is <= block_n). *)
From Coq Require Import ZArith NArith List Bool Arith Lia.
From LibaV Require Import Common.NumOps C11.MathDefs C11.LoopTieLemmas.
From Gen Require Import GenLoop TieLoopBase.
Import ListNotations.

Section Tie.
  Context {T : Type} (O : NumOps T).

  (* ---------------------------------------------------------------- element loops: copy_, swap, swap_, fill, zero *)
  Lemma copy__loop dc sc : forall n m d s, gen_a_real_copy__loop1 O n dc sc m d s = real_copy_ n m d dc s sc.   (* for tie_a_real_copy_ *)
  Proof.
    intros n; induction n as [|n IH]; intros; [reflexivity|].
    cbn [gen_a_real_copy__loop1 real_copy_]. unfold MathDefs.bind.
    destruct (nth_error m s) as [v|]; [|reflexivity]. rewrite upd_eq.
    destruct (MathDefs.upd m d v) as [m'|]; [apply IH|reflexivity].
  Qed.
  Theorem tie_a_real_copy_ : forall n m d dc s sc, gen_a_real_copy_ O n m d dc s sc = real_copy_ n m d dc s sc.
  Proof. intros. apply copy__loop. Qed.

  Lemma swap__loop lc rc : forall n m l r, gen_a_real_swap__loop1 O n lc rc m l r = real_swap_ n m l lc r rc.   (* for tie_a_real_swap_ *)
  Proof.
    intros n; induction n as [|n IH]; intros; [reflexivity|].
    cbn [gen_a_real_swap__loop1 real_swap_]. unfold MathDefs.bind.
    destruct (nth_error m l) as [a|]; [|reflexivity]. destruct (nth_error m r) as [b|]; [|reflexivity].
    rewrite upd_eq. destruct (MathDefs.upd m l b) as [m1|]; [|reflexivity].
    rewrite upd_eq. destruct (MathDefs.upd m1 r a) as [m2|]; [apply IH|reflexivity].
  Qed.
  Theorem tie_a_real_swap_ : forall n m l lc r rc, gen_a_real_swap_ O n m l lc r rc = real_swap_ n m l lc r rc.
  Proof. intros. apply swap__loop. Qed.

  Lemma swap_loop : forall n m l r, gen_a_real_swap_loop1 O n m l r = real_swap_ n m l 1 r 1.   (* for tie_a_real_swap *)
  Proof.
    intros n; induction n as [|n IH]; intros; [reflexivity|].
    cbn [gen_a_real_swap_loop1 real_swap_]. unfold MathDefs.bind.
    destruct (nth_error m l) as [a|]; [|reflexivity]. destruct (nth_error m r) as [b|]; [|reflexivity].
    rewrite upd_eq. destruct (MathDefs.upd m l b) as [m1|]; [|reflexivity].
    rewrite upd_eq. destruct (MathDefs.upd m1 r a) as [m2|]; [apply IH|reflexivity].
  Qed.
  Theorem tie_a_real_swap : forall n m l r, gen_a_real_swap O n m l r = real_swap n m l r.
  Proof. intros. apply swap_loop. Qed.

  Lemma fill_loop v : forall n p i, gen_a_real_fill_loop1 O n v p i = fill_from n p i v.   (* for tie_a_real_fill *)
  Proof.
    intros n; induction n as [|n IH]; intros; [reflexivity|].
    cbn [gen_a_real_fill_loop1 fill_from]. unfold MathDefs.bind. rewrite upd_eq.
    destruct (MathDefs.upd p i v) as [p'|]; [|reflexivity]. rewrite Nat.add_1_r. apply IH.
  Qed.
  Theorem tie_a_real_fill : forall n p v, gen_a_real_fill O n p 0 v = real_fill n p v.
  Proof. intros. apply fill_loop. Qed.

  Lemma zero_loop : forall n p i, gen_a_real_zero_loop1 O n p i = fill_from n p i (ofZ O 0).   (* for tie_a_real_zero *)
  Proof.
    intros n; induction n as [|n IH]; intros; [reflexivity|].
    cbn [gen_a_real_zero_loop1 fill_from]. unfold MathDefs.bind. rewrite upd_eq.
    destruct (MathDefs.upd p i (ofZ O 0)) as [p'|]; [|reflexivity]. rewrite Nat.add_1_r. apply IH.
  Qed.
  Theorem tie_a_real_zero : forall n p, gen_a_real_zero O n p 0 = real_zero O n p.
  Proof. intros. apply zero_loop. Qed.

  (* ---------------------------------------------------------------- block operations: byte counts 8 * n must not wrap *)
  Theorem tie_a_real_copy : forall n m d s, in64 (8 * n) -> gen_a_real_copy O n m d s = real_copy n m d s.
  Proof.
    intros n m d s Hn. unfold gen_a_real_copy, real_copy. rewrite (fits64 _ Hn). apply blk_move_cells.
  Qed.

  Ltac blk := unfold MathDefs.bind; rewrite ?upd_eq; opt_cases; reflexivity.

  Theorem tie_a_real_push_fore : forall p n x, in64 (8 * n) -> gen_a_real_push_fore O p 0 n x = real_push_fore p n x.
  Proof.
    intros p n x Hn. unfold gen_a_real_push_fore, real_push_fore. destruct n as [|n]; [reflexivity|].
    rewrite fits64 by (apply in64_le with (8 * S n); [lia|exact Hn]). rewrite blk_move_cells. cbn [Nat.add]. blk.
  Qed.
  Theorem tie_a_real_push_back : forall p n x, in64 (8 * n) -> gen_a_real_push_back O p 0 n x = real_push_back p n x.
  Proof.
    intros p n x Hn. unfold gen_a_real_push_back, real_push_back. destruct n as [|n]; [reflexivity|].
    rewrite fits64 by (apply in64_le with (8 * S n); [lia|exact Hn]). rewrite blk_move_cells. cbn [Nat.add]. blk.
  Qed.
  Theorem tie_a_real_roll_fore : forall p n, in64 (8 * n) -> gen_a_real_roll_fore O p 0 n = real_roll_fore p n.
  Proof.
    intros p n Hn. unfold gen_a_real_roll_fore, real_roll_fore. destruct n as [|n]; [reflexivity|].
    rewrite fits64 by (apply in64_le with (8 * S n); [lia|exact Hn]). rewrite blk_move_cells. cbn [Nat.add]. blk.
  Qed.
  Theorem tie_a_real_roll_back : forall p n, in64 (8 * n) -> gen_a_real_roll_back O p 0 n = real_roll_back p n.
  Proof.
    intros p n Hn. unfold gen_a_real_roll_back, real_roll_back. destruct n as [|n]; [reflexivity|].
    rewrite fits64 by (apply in64_le with (8 * S n); [lia|exact Hn]). rewrite blk_move_cells. cbn [Nat.add]. blk.
  Qed.

  (* block forms: n = min(cache_n, block_n) cells of the cache enter the block *)
  Theorem tie_a_real_push_fore_ : forall block block_n cache cache_n, in64 (8 * block_n) ->
    gen_a_real_push_fore_ O block 0 block_n cache 0 cache_n = real_push_fore_ block block_n cache cache_n.
  Proof.
    intros block block_n cache cache_n Hn. unfold gen_a_real_push_fore_, real_push_fore_. cbn [Nat.add].
    set (n := if cache_n <? block_n then cache_n else block_n).
    assert (Hnb : n <= block_n /\ n <= cache_n).
    { unfold n. destruct (cache_n <? block_n) eqn:E; [apply Nat.ltb_lt in E|apply Nat.ltb_ge in E]; lia. }
    destruct Hnb as [Hb Hc]. cbv zeta. destruct (n =? 0); [reflexivity|].
    rewrite (proj2 (Nat.leb_le n block_n) Hb), (proj2 (Nat.leb_le n cache_n) Hc).
    rewrite !fits64 by (apply in64_le with (8 * block_n); [lia|exact Hn]). rewrite blk_move_cells.
    unfold MathDefs.bind at 1 2. destruct (MathDefs.sub_ block 0 (block_n - n)) as [d|]; [|reflexivity].
    destruct (MathDefs.blit block n d) as [b1|]; [|reflexivity]. rewrite blk_move_cells. reflexivity.
  Qed.
  Theorem tie_a_real_push_back_ : forall block block_n cache cache_n, in64 (8 * block_n) ->
    gen_a_real_push_back_ O block 0 block_n cache 0 cache_n = real_push_back_ block block_n cache cache_n.
  Proof.
    intros block block_n cache cache_n Hn. unfold gen_a_real_push_back_, real_push_back_. cbn [Nat.add].
    set (n := if cache_n <? block_n then cache_n else block_n).
    assert (Hnb : n <= block_n /\ n <= cache_n).
    { unfold n. destruct (cache_n <? block_n) eqn:E; [apply Nat.ltb_lt in E|apply Nat.ltb_ge in E]; lia. }
    destruct Hnb as [Hb Hc]. cbv zeta. destruct (n =? 0); [reflexivity|].
    rewrite (proj2 (Nat.leb_le n block_n) Hb), (proj2 (Nat.leb_le n cache_n) Hc).
    rewrite !fits64 by (apply in64_le with (8 * block_n); [lia|exact Hn]). rewrite blk_move_cells.
    unfold MathDefs.bind at 1 2. destruct (MathDefs.sub_ block n (block_n - n)) as [d|]; [|reflexivity].
    destruct (MathDefs.blit block 0 d) as [b1|]; [|reflexivity]. rewrite blk_move_cells. reflexivity.
  Qed.

  (* rotation through a scratch buffer: result = (block, scratch buffer) *)
  Theorem tie_a_real_roll_fore_ : forall block block_n shift shift_n, in64 (8 * block_n) ->
    gen_a_real_roll_fore_ O block 0 block_n shift 0 shift_n = real_roll_fore_ block block_n shift shift_n.
  Proof.
    intros block block_n shift shift_n Hn. unfold gen_a_real_roll_fore_, real_roll_fore_. cbn [Nat.add].
    destruct (block_n =? 0) eqn:E0; [reflexivity|]. apply Nat.eqb_neq in E0. cbn [negb]. cbv zeta.
    assert (Hs : shift_n mod block_n <= block_n) by (apply Nat.lt_le_incl, Nat.mod_upper_bound; exact E0).
    rewrite (proj2 (Nat.leb_le _ _) Hs).
    rewrite !fits64 by (apply in64_le with (8 * block_n); [lia|exact Hn]).
    repeat (rewrite ?blk_move_cells; unfold MathDefs.bind; opt_step); reflexivity.
  Qed.
  Theorem tie_a_real_roll_back_ : forall block block_n shift shift_n, in64 (8 * block_n) ->
    gen_a_real_roll_back_ O block 0 block_n shift 0 shift_n = real_roll_back_ block block_n shift shift_n.
  Proof.
    intros block block_n shift shift_n Hn. unfold gen_a_real_roll_back_, real_roll_back_. cbn [Nat.add].
    destruct (block_n =? 0) eqn:E0; [reflexivity|]. apply Nat.eqb_neq in E0. cbn [negb]. cbv zeta.
    assert (Hs : shift_n mod block_n <= block_n) by (apply Nat.lt_le_incl, Nat.mod_upper_bound; exact E0).
    rewrite (proj2 (Nat.leb_le _ _) Hs).
    rewrite !fits64 by (apply in64_le with (8 * block_n); [lia|exact Hn]).
    repeat (rewrite ?blk_move_cells; unfold MathDefs.bind; opt_step); reflexivity.
  Qed.
End Tie.
