(* Tie between the model REGENERATED from src/math.c by tools/c2coq.py (module Gen.GenMath, rewritten on every run; configuration:
   every A_HAVE_* switch off, so the built-in fallback bodies are what is translated) and the hand-written model C11/MathDefs.v
   about which the theorems of Properties_C11.v are proved.  Scalar functions only (the array helpers are loops; a_real_expm1
   evaluates its polynomials in a loop): rad2deg, deg2rad, atan2, log1p, asinh, acosh, atanh, norm2, norm3, cart2pol, pol2cart,
   cart2sph, sph2cart.

   Two laws of the instance are used.  [ofZ_m1]: the C literal -1 is `ofZ (-1)` for the translator and `- #1`/`#(-1)` in the
   model.  [inf_law]: a/a.h writes infinity as DBL_MAX * DBL_MAX, the model as 1 / 0; in binary64 both are +inf
   (tie_law_inf_F64 below), over the reals they differ (1/0 = 0 in Coq) - but over the reals no value is infinite, so the
   branches that return the constant are dead there: section TieNoInf proves the norm ties from that fact instead. *)
From Coq Require Import ZArith Bool Reals Lra.
From LibaV Require Import Common.NumOps Common.ROps Common.FloatOps C11.MathDefs.
From Gen Require Import GenMath.

Definition DBL_MAX_m : Z := Eval vm_compute in (2 ^ 53 - 1)%Z.   (* DBL_MAX = (2^53 - 1) * 2^971 *)

Section Tie.
  Context {T : Type} (O : NumOps T).
  Hypothesis ofZ_m1 : ofZ O (-1) = opp O (ofZ O 1).
  Hypothesis inf_law : mul O (ofD O DBL_MAX_m 971) (ofD O DBL_MAX_m 971) = div O (ofZ O 1) (ofZ O 0).

  Ltac tie := intros; pose proof inf_law as IL; unfold DBL_MAX_m in IL;
              cbv delta -[add sub mul div opp abs sqrt ltb leb eqb ofZ ofD fn1 fn2 negb andb orb] beta iota zeta;
              rewrite ?ofZ_m1, ?IL; clear IL;
              repeat (match goal with |- context [if ?c then _ else _] =>
                        lazymatch c with context [if _ then _ else _] => fail | _ => destruct c end end; cbn [negb andb orb fst snd]);
              reflexivity.

  Theorem tie_a_real_rad2deg : forall x, gen_a_real_rad2deg O x = real_rad2deg O x.  Proof. tie. Qed.
  Theorem tie_a_real_deg2rad : forall x, gen_a_real_deg2rad O x = real_deg2rad O x.  Proof. tie. Qed.
  Theorem tie_a_real_atan2 : forall y x, gen_a_real_atan2 O y x = real_atan2 O y x.  Proof. tie. Qed.
  Theorem tie_a_real_log1p : forall x, gen_a_real_log1p O x = real_log1p O x.  Proof. tie. Qed.
  Theorem tie_a_real_asinh : forall x, gen_a_real_asinh O x = real_asinh O x.  Proof. tie. Qed.
  Theorem tie_a_real_acosh : forall x, gen_a_real_acosh O x = real_acosh O x.  Proof. tie. Qed.
  Theorem tie_a_real_atanh : forall x, gen_a_real_atanh O x = real_atanh O x.  Proof. tie. Qed.
  Theorem tie_a_real_norm2 : forall x y, gen_a_real_norm2 O x y = real_norm2 O x y.  Proof. tie. Qed.
  Theorem tie_a_real_norm3 : forall x y z, gen_a_real_norm3 O x y z = real_norm3 O x y z.  Proof. tie. Qed.
  Theorem tie_a_real_cart2pol : forall x y, gen_a_real_cart2pol O x y = real_cart2pol O x y.  Proof. tie. Qed.
  Theorem tie_a_real_pol2cart : forall r t, gen_a_real_pol2cart O r t = real_pol2cart O r t.  Proof. tie. Qed.
  Theorem tie_a_real_cart2sph : forall x y z, gen_a_real_cart2sph O x y z = real_cart2sph O x y z.  Proof. tie. Qed.
  Theorem tie_a_real_sph2cart : forall r t a, gen_a_real_sph2cart O r t a = real_sph2cart O r t a.  Proof. tie. Qed.
End Tie.

(* the same four ties for an instance in which no value is infinite (the reals): the constant is never returned *)
Section TieNoInf.
  Context {T : Type} (O : NumOps T).
  Hypothesis no_inf : forall x, andb (eqb O (add O x x) x) (negb (eqb O x (ofZ O 0))) = false.

  Ltac tie := intros; cbv delta -[add sub mul div opp abs sqrt ltb leb eqb ofZ ofD fn1 fn2 negb andb orb] beta iota zeta;
              rewrite ?no_inf;
              repeat (match goal with |- context [if ?c then _ else _] =>
                        lazymatch c with context [if _ then _ else _] => fail | _ => destruct c end end; cbn [negb andb orb fst snd]);
              reflexivity.

  Theorem tie_noinf_a_real_norm2 : forall x y, gen_a_real_norm2 O x y = real_norm2 O x y.  Proof. tie. Qed.
  Theorem tie_noinf_a_real_norm3 : forall x y z, gen_a_real_norm3 O x y z = real_norm3 O x y z.  Proof. tie. Qed.
  Theorem tie_noinf_a_real_cart2pol : forall x y, gen_a_real_cart2pol O x y = real_cart2pol O x y.  Proof. tie. Qed.
  Theorem tie_noinf_a_real_cart2sph : forall x y z, gen_a_real_cart2sph O x y z = real_cart2sph O x y z.  Proof. tie. Qed.
End TieNoInf.

Theorem tie_law_noinf_R : forall x : R, andb (eqb R_ops (add R_ops x x) x) (negb (eqb R_ops x (ofZ R_ops 0))) = false.
Proof.
  intros x. cbn [eqb add ofZ R_ops]. destruct (Reqb_spec (x + x) x) as [E|E]; [|reflexivity].
  destruct (Reqb_spec x (IZR 0)) as [E0|E0]; [reflexivity|]. exfalso. apply E0. cbn. lra.
Qed.

Theorem tie_law_m1_R : ofZ R_ops (-1) = opp R_ops (ofZ R_ops 1).  Proof. reflexivity. Qed.
Theorem tie_law_m1_F64 : ofZ F64_ops (-1) = opp F64_ops (ofZ F64_ops 1).  Proof. vm_compute. reflexivity. Qed.
Theorem tie_law_inf_F64 : mul F64_ops (ofD F64_ops DBL_MAX_m 971) (ofD F64_ops DBL_MAX_m 971) = div F64_ops (ofZ F64_ops 1) (ofZ F64_ops 0).
Proof. vm_compute. reflexivity. Qed.
