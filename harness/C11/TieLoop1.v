(* All-lengths translator tie, part 1: the reductions of src/math.c.
   Module Gen.GenLoop is regenerated on every run by tools/c2arr.py from the CURRENT source: each loop is a Fixpoint (not
   unrolled), the array a `list T` read with nth_error (None = outside the array), the pointer an offset into it.  For EVERY
   NumOps instance, every count n, stride c, array (of any length - too short: both sides None) and cell values, the
   generated function called with its pointer at offset 0 equals the hand model of C11/MathDefs.v.  No hypothesis is needed:
   these loops count n down to 0 (structural recursion on n) and do no other integer arithmetic; `p += c` moves a pointer,
   which the generated code does not bound (only accesses are checked), exactly like the model. *)
From Coq Require Import ZArith NArith List Bool Arith Lia.
From LibaV Require Import Common.NumOps C11.MathDefs C11.LoopTieLemmas.
From Gen Require Import GenLoop TieLoopBase.
Import ListNotations.

Section Tie.
  Context {T : Type} (O : NumOps T).

  (* one loop = the model's reduction continued from cell i with accumulator r *)
  Ltac red_loop loop :=
    let n := fresh "n" in let IH := fresh "IH" in
    intros n; induction n as [|n IH]; intros;
    [ reflexivity
    | rewrite red_acc_S; cbn [loop];
      match goal with |- context [nth_error ?p ?i] => destruct (nth_error p i) end; [apply IH | reflexivity] ].

  Lemma sum_loop p : forall n i r, gen_a_real_sum_loop1 O n p i r = red_acc (fun r v => add O r v) n p i 1 r.   (* for tie_a_real_sum *)
  Proof. red_loop (@gen_a_real_sum_loop1). Qed.
  Lemma sum__loop p c : forall n i r, gen_a_real_sum__loop1 O n c p i r = red_acc (fun r v => add O r v) n p i c r.   (* for tie_a_real_sum_ *)
  Proof. red_loop (@gen_a_real_sum__loop1). Qed.
  Lemma sum1_loop p : forall n i r, gen_a_real_sum1_loop1 O n p i r = red_acc (fun r v => add O r (c_abs O v)) n p i 1 r.   (* for tie_a_real_sum1 *)
  Proof. red_loop (@gen_a_real_sum1_loop1). Qed.
  Lemma sum1__loop p c : forall n i r, gen_a_real_sum1__loop1 O n c p i r = red_acc (fun r v => add O r (c_abs O v)) n p i c r.   (* for tie_a_real_sum1_ *)
  Proof. red_loop (@gen_a_real_sum1__loop1). Qed.
  Lemma sum2_loop p : forall n i r, gen_a_real_sum2_loop1 O n p i r = red_acc (fun r v => add O r (mul O v v)) n p i 1 r.   (* for tie_a_real_sum2 *)
  Proof. red_loop (@gen_a_real_sum2_loop1). Qed.
  Lemma sum2__loop p c : forall n i r, gen_a_real_sum2__loop1 O n c p i r = red_acc (fun r v => add O r (mul O v v)) n p i c r.   (* for tie_a_real_sum2_ *)
  Proof. red_loop (@gen_a_real_sum2__loop1). Qed.
  Lemma mean_loop p k : forall n i r, gen_a_real_mean_loop1 O n k p i r = red_acc (fun r v => add O r (mul O v k)) n p i 1 r.   (* for tie_a_real_mean *)
  Proof. red_loop (@gen_a_real_mean_loop1). Qed.
  Lemma mean__loop p c k : forall n i r, gen_a_real_mean__loop1 O n c k p i r = red_acc (fun r v => add O r (mul O v k)) n p i c r.   (* for tie_a_real_mean_ *)
  Proof. red_loop (@gen_a_real_mean__loop1). Qed.

  Theorem tie_a_real_sum : forall n p, gen_a_real_sum O n p 0 = real_sum O n p.
  Proof. intros. apply sum_loop. Qed.
  Theorem tie_a_real_sum_ : forall n p c, gen_a_real_sum_ O n p 0 c = real_sum_ O n p c.
  Proof. intros. apply sum__loop. Qed.
  Theorem tie_a_real_sum1 : forall n p, gen_a_real_sum1 O n p 0 = real_sum1 O n p.
  Proof. intros. apply sum1_loop. Qed.
  Theorem tie_a_real_sum1_ : forall n p c, gen_a_real_sum1_ O n p 0 c = real_sum1_ O n p c.
  Proof. intros. apply sum1__loop. Qed.
  Theorem tie_a_real_sum2 : forall n p, gen_a_real_sum2 O n p 0 = real_sum2 O n p.
  Proof. intros. apply sum2_loop. Qed.
  Theorem tie_a_real_sum2_ : forall n p c, gen_a_real_sum2_ O n p 0 c = real_sum2_ O n p c.
  Proof. intros. apply sum2__loop. Qed.
  Theorem tie_a_real_mean : forall n p, gen_a_real_mean O n p 0 = real_mean O n p.
  Proof. intros. apply mean_loop. Qed.
  Theorem tie_a_real_mean_ : forall n p c, gen_a_real_mean_ O n p 0 c = real_mean_ O n p c.
  Proof. intros. apply mean__loop. Qed.

  (* dot products: two arrays, two offsets *)
  Lemma dot_loop X Y : forall n i j r, gen_a_real_dot_loop1 O n X Y i j r = dot_acc O n X i 1 Y j 1 r.   (* for tie_a_real_dot *)
  Proof.
    intros n; induction n as [|n IH]; intros; [reflexivity|].
    rewrite dot_acc_S; cbn [gen_a_real_dot_loop1].
    destruct (nth_error X i); [|reflexivity]. destruct (nth_error Y j); [apply IH | reflexivity].
  Qed.
  Lemma dot__loop X Y xc yc : forall n i j r, gen_a_real_dot__loop1 O n xc yc X Y i j r = dot_acc O n X i xc Y j yc r.   (* for tie_a_real_dot_ *)
  Proof.
    intros n; induction n as [|n IH]; intros; [reflexivity|].
    rewrite dot_acc_S; cbn [gen_a_real_dot__loop1].
    destruct (nth_error X i); [|reflexivity]. destruct (nth_error Y j); [apply IH | reflexivity].
  Qed.

  Theorem tie_a_real_dot : forall n X Y, gen_a_real_dot O n X 0 Y 0 = real_dot O n X Y.
  Proof. intros. apply dot_loop. Qed.
  Theorem tie_a_real_dot_ : forall n X Xc Y Yc, gen_a_real_dot_ O n X 0 Xc Y 0 Yc = real_dot_ O n X Xc Y Yc.
  Proof. intros. apply dot__loop. Qed.
End Tie.
