(* GENERATED ONCE by harness/C11/mk_tie_arr.py and committed: tie between the UNROLLED translation of the reductions and array
   helpers of src/math.c (module Gen.GenArr, regenerated on every run by tools/c2coq.py with counts and strides fixed and the arrays
   exactly sized - an access outside an array is a translation error) and the list model C11/MathDefs.v: for every function and
   every small count / stride combination, for ALL cell values and EVERY NumOps instance, the model returns exactly what the
   translated C computes, operation for operation. *)
From Coq Require Import ZArith List.
From LibaV Require Import Common.NumOps C11.MathDefs.
From Gen Require Import GenArr.
Import ListNotations.

Section Tie.
  Context {T : Type} (O : NumOps T).

  Theorem tie_sum_n2 : forall p0 p1, 
    real_sum O 2 [p0; p1] =
    Some (gen_a_real_sum_n2 O p0 p1).
  Proof. intros. cbv. reflexivity. Qed.

  Theorem tie_sum__n1c1 : forall p0, 
    real_sum_ O 1 [p0] 1 =
    Some (gen_a_real_sum__n1_c1 O p0).
  Proof. intros. cbv. reflexivity. Qed.

  Theorem tie_sum__n3c1 : forall p0 p1 p2, 
    real_sum_ O 3 [p0; p1; p2] 1 =
    Some (gen_a_real_sum__n3_c1 O p0 p1 p2).
  Proof. intros. cbv. reflexivity. Qed.

  Theorem tie_sum1__n0c0 : 
    real_sum1_ O 0 [] 0 =
    Some (gen_a_real_sum1__n0_c0 O).
  Proof. intros. cbv. reflexivity. Qed.

  Theorem tie_sum1__n2c0 : forall p0, 
    real_sum1_ O 2 [p0] 0 =
    Some (gen_a_real_sum1__n2_c0 O p0).
  Proof. intros. cbv. reflexivity. Qed.

  Theorem tie_sum2_n0 : 
    real_sum2 O 0 [] =
    Some (gen_a_real_sum2_n0 O).
  Proof. intros. cbv. reflexivity. Qed.

  Theorem tie_sum2__n0c2 : 
    real_sum2_ O 0 [] 2 =
    Some (gen_a_real_sum2__n0_c2 O).
  Proof. intros. cbv. reflexivity. Qed.

  Theorem tie_sum2__n2c2 : forall p0 p1 p2, 
    real_sum2_ O 2 [p0; p1; p2] 2 =
    Some (gen_a_real_sum2__n2_c2 O p0 p1 p2).
  Proof. intros. cbv. reflexivity. Qed.

  Theorem tie_mean_n2 : forall p0 p1, 
    real_mean O 2 [p0; p1] =
    Some (gen_a_real_mean_n2 O p0 p1).
  Proof. intros. cbv. reflexivity. Qed.

  Theorem tie_mean__n1c1 : forall p0, 
    real_mean_ O 1 [p0] 1 =
    Some (gen_a_real_mean__n1_c1 O p0).
  Proof. intros. cbv. reflexivity. Qed.

  Theorem tie_mean__n3c1 : forall p0 p1 p2, 
    real_mean_ O 3 [p0; p1; p2] 1 =
    Some (gen_a_real_mean__n3_c1 O p0 p1 p2).
  Proof. intros. cbv. reflexivity. Qed.

  Theorem tie_dot__n0x0y0 : 
    real_dot_ O 0 [] 0 [] 0 =
    Some (gen_a_real_dot__n0_Xc0_Yc0 O).
  Proof. intros. cbv. reflexivity. Qed.

  Theorem tie_dot__n0x2y0 : 
    real_dot_ O 0 [] 2 [] 0 =
    Some (gen_a_real_dot__n0_Xc2_Yc0 O).
  Proof. intros. cbv. reflexivity. Qed.

  Theorem tie_dot__n1x1y0 : forall X0 Y0, 
    real_dot_ O 1 [X0] 1 [Y0] 0 =
    Some (gen_a_real_dot__n1_Xc1_Yc0 O X0 Y0).
  Proof. intros. cbv. reflexivity. Qed.

  Theorem tie_dot__n2x0y0 : forall X0 Y0, 
    real_dot_ O 2 [X0] 0 [Y0] 0 =
    Some (gen_a_real_dot__n2_Xc0_Yc0 O X0 Y0).
  Proof. intros. cbv. reflexivity. Qed.

  Theorem tie_dot__n2x2y0 : forall X0 X1 X2 Y0, 
    real_dot_ O 2 [X0; X1; X2] 2 [Y0] 0 =
    Some (gen_a_real_dot__n2_Xc2_Yc0 O X0 X1 X2 Y0).
  Proof. intros. cbv. reflexivity. Qed.

  Theorem tie_dot__n3x1y0 : forall X0 X1 X2 Y0, 
    real_dot_ O 3 [X0; X1; X2] 1 [Y0] 0 =
    Some (gen_a_real_dot__n3_Xc1_Yc0 O X0 X1 X2 Y0).
  Proof. intros. cbv. reflexivity. Qed.

  Theorem tie_copy_n0 : forall dst0, 
    @real_copy T 0 ([dst0] ++ []) 0 1 =
    (let odst0 := gen_a_real_copy_n0 O dst0 in Some ([odst0] ++ [])).
  Proof. intros. cbv. reflexivity. Qed.

  Theorem tie_roll_fore_n0 : forall p0, 
    @real_roll_fore T [p0] 0 =
    (let op0 := gen_a_real_roll_fore_n0 O p0 in Some [op0]).
  Proof. intros. cbv. reflexivity. Qed.

  Theorem tie_push_fore_n1 : forall p0 p1 x, 
    @real_push_fore T [p0; p1] 1 x =
    (let '(op0, op1) := gen_a_real_push_fore_n1 O p0 p1 x in Some [op0; op1]).
  Proof. intros. cbv. reflexivity. Qed.

  Theorem tie_fill_n2 : forall p0 p1 p2 v, 
    @real_fill T 2 [p0; p1; p2] v =
    (let '(op0, op1, op2) := gen_a_real_fill_n2 O p0 p1 p2 v in Some [op0; op1; op2]).
  Proof. intros. cbv. reflexivity. Qed.

  Theorem tie_copy_n3 : forall dst0 dst1 dst2 dst3 src0 src1 src2, 
    @real_copy T 3 ([dst0; dst1; dst2; dst3] ++ [src0; src1; src2]) 0 4 =
    (let '(odst0, odst1, odst2, odst3) := gen_a_real_copy_n3 O dst0 dst1 dst2 dst3 src0 src1 src2 in Some ([odst0; odst1; odst2; odst3] ++ [src0; src1; src2])).
  Proof. intros. cbv. reflexivity. Qed.

  Theorem tie_roll_fore_n3 : forall p0 p1 p2 p3, 
    @real_roll_fore T [p0; p1; p2; p3] 3 =
    (let '(op0, op1, op2, op3) := gen_a_real_roll_fore_n3 O p0 p1 p2 p3 in Some [op0; op1; op2; op3]).
  Proof. intros. cbv. reflexivity. Qed.

  Theorem tie_copy__n0d0s2 : 
    @real_copy_ T 0 ([] ++ []) 0 0 0 2 =
    Some ([] ++ []).
  Proof. intros. cbv. reflexivity. Qed.

  Theorem tie_copy__n0d1s2 : 
    @real_copy_ T 0 ([] ++ []) 0 1 0 2 =
    Some ([] ++ []).
  Proof. intros. cbv. reflexivity. Qed.

  Theorem tie_copy__n0d2s2 : 
    @real_copy_ T 0 ([] ++ []) 0 2 0 2 =
    Some ([] ++ []).
  Proof. intros. cbv. reflexivity. Qed.

  Theorem tie_copy__n1d0s2 : forall dst0 src0, 
    @real_copy_ T 1 ([dst0] ++ [src0]) 0 0 1 2 =
    (let odst0 := gen_a_real_copy__n1_dc0_sc2 O dst0 src0 in Some ([odst0] ++ [src0])).
  Proof. intros. cbv. reflexivity. Qed.

  Theorem tie_copy__n1d1s2 : forall dst0 src0, 
    @real_copy_ T 1 ([dst0] ++ [src0]) 0 1 1 2 =
    (let odst0 := gen_a_real_copy__n1_dc1_sc2 O dst0 src0 in Some ([odst0] ++ [src0])).
  Proof. intros. cbv. reflexivity. Qed.

  Theorem tie_copy__n1d2s2 : forall dst0 src0, 
    @real_copy_ T 1 ([dst0] ++ [src0]) 0 2 1 2 =
    (let odst0 := gen_a_real_copy__n1_dc2_sc2 O dst0 src0 in Some ([odst0] ++ [src0])).
  Proof. intros. cbv. reflexivity. Qed.

  Theorem tie_copy__n2d0s2 : forall dst0 src0 src1 src2, 
    @real_copy_ T 2 ([dst0] ++ [src0; src1; src2]) 0 0 1 2 =
    (let odst0 := gen_a_real_copy__n2_dc0_sc2 O dst0 src0 src1 src2 in Some ([odst0] ++ [src0; src1; src2])).
  Proof. intros. cbv. reflexivity. Qed.

  Theorem tie_copy__n2d1s2 : forall dst0 dst1 src0 src1 src2, 
    @real_copy_ T 2 ([dst0; dst1] ++ [src0; src1; src2]) 0 1 2 2 =
    (let '(odst0, odst1) := gen_a_real_copy__n2_dc1_sc2 O dst0 dst1 src0 src1 src2 in Some ([odst0; odst1] ++ [src0; src1; src2])).
  Proof. intros. cbv. reflexivity. Qed.

  Theorem tie_copy__n2d2s2 : forall dst0 dst1 dst2 src0 src1 src2, 
    @real_copy_ T 2 ([dst0; dst1; dst2] ++ [src0; src1; src2]) 0 2 3 2 =
    (let '(odst0, odst1, odst2) := gen_a_real_copy__n2_dc2_sc2 O dst0 dst1 dst2 src0 src1 src2 in Some ([odst0; odst1; odst2] ++ [src0; src1; src2])).
  Proof. intros. cbv. reflexivity. Qed.

  Theorem tie_copy__n3d0s2 : forall dst0 src0 src1 src2 src3 src4, 
    @real_copy_ T 3 ([dst0] ++ [src0; src1; src2; src3; src4]) 0 0 1 2 =
    (let odst0 := gen_a_real_copy__n3_dc0_sc2 O dst0 src0 src1 src2 src3 src4 in Some ([odst0] ++ [src0; src1; src2; src3; src4])).
  Proof. intros. cbv. reflexivity. Qed.

  Theorem tie_copy__n3d1s2 : forall dst0 dst1 dst2 src0 src1 src2 src3 src4, 
    @real_copy_ T 3 ([dst0; dst1; dst2] ++ [src0; src1; src2; src3; src4]) 0 1 3 2 =
    (let '(odst0, odst1, odst2) := gen_a_real_copy__n3_dc1_sc2 O dst0 dst1 dst2 src0 src1 src2 src3 src4 in Some ([odst0; odst1; odst2] ++ [src0; src1; src2; src3; src4])).
  Proof. intros. cbv. reflexivity. Qed.

  Theorem tie_copy__n3d2s2 : forall dst0 dst1 dst2 dst3 dst4 src0 src1 src2 src3 src4, 
    @real_copy_ T 3 ([dst0; dst1; dst2; dst3; dst4] ++ [src0; src1; src2; src3; src4]) 0 2 5 2 =
    (let '(odst0, odst1, odst2, odst3, odst4) := gen_a_real_copy__n3_dc2_sc2 O dst0 dst1 dst2 dst3 dst4 src0 src1 src2 src3 src4 in Some ([odst0; odst1; odst2; odst3; odst4] ++ [src0; src1; src2; src3; src4])).
  Proof. intros. cbv. reflexivity. Qed.

  Theorem tie_push_fore__b0c1 : forall cachep0, 
    @real_push_fore_ T [] 0 [cachep0] 1 =
    Some [].
  Proof. intros. cbv. reflexivity. Qed.

  Theorem tie_roll_fore__b0s2 : forall shiftp0, 
    @real_roll_fore_ T [] 0 [shiftp0] 2 =
    (let oshiftp0 := gen_a_real_roll_fore__block_n0_shift_n2 O shiftp0 in Some ([], [oshiftp0])).
  Proof. intros. cbv. reflexivity. Qed.

  Theorem tie_push_fore__b1c0 : forall blockp0, 
    @real_push_fore_ T [blockp0] 1 [] 0 =
    (let oblockp0 := gen_a_real_push_fore__block_n1_cache_n0 O blockp0 in Some [oblockp0]).
  Proof. intros. cbv. reflexivity. Qed.

  Theorem tie_roll_fore__b1s1 : forall blockp0 shiftp0, 
    @real_roll_fore_ T [blockp0] 1 [shiftp0] 1 =
    (let '(oblockp0, oshiftp0) := gen_a_real_roll_fore__block_n1_shift_n1 O blockp0 shiftp0 in Some ([oblockp0], [oshiftp0])).
  Proof. intros. cbv. reflexivity. Qed.

  Theorem tie_push_fore__b1c4 : forall blockp0 cachep0 cachep1 cachep2 cachep3, 
    @real_push_fore_ T [blockp0] 1 [cachep0; cachep1; cachep2; cachep3] 4 =
    (let oblockp0 := gen_a_real_push_fore__block_n1_cache_n4 O blockp0 cachep0 cachep1 cachep2 cachep3 in Some [oblockp0]).
  Proof. intros. cbv. reflexivity. Qed.

  Theorem tie_roll_fore__b2s0 : forall blockp0 blockp1 shiftp0, 
    @real_roll_fore_ T [blockp0; blockp1] 2 [shiftp0] 0 =
    (let '(oblockp0, oblockp1, oshiftp0) := gen_a_real_roll_fore__block_n2_shift_n0 O blockp0 blockp1 shiftp0 in Some ([oblockp0; oblockp1], [oshiftp0])).
  Proof. intros. cbv. reflexivity. Qed.

  Theorem tie_push_fore__b2c2 : forall blockp0 blockp1 cachep0 cachep1, 
    @real_push_fore_ T [blockp0; blockp1] 2 [cachep0; cachep1] 2 =
    (let '(oblockp0, oblockp1) := gen_a_real_push_fore__block_n2_cache_n2 O blockp0 blockp1 cachep0 cachep1 in Some [oblockp0; oblockp1]).
  Proof. intros. cbv. reflexivity. Qed.

  Theorem tie_roll_fore__b2s4 : forall blockp0 blockp1 shiftp0, 
    @real_roll_fore_ T [blockp0; blockp1] 2 [shiftp0] 4 =
    (let '(oblockp0, oblockp1, oshiftp0) := gen_a_real_roll_fore__block_n2_shift_n4 O blockp0 blockp1 shiftp0 in Some ([oblockp0; oblockp1], [oshiftp0])).
  Proof. intros. cbv. reflexivity. Qed.

  Theorem tie_push_fore__b3c1 : forall blockp0 blockp1 blockp2 cachep0, 
    @real_push_fore_ T [blockp0; blockp1; blockp2] 3 [cachep0] 1 =
    (let '(oblockp0, oblockp1, oblockp2) := gen_a_real_push_fore__block_n3_cache_n1 O blockp0 blockp1 blockp2 cachep0 in Some [oblockp0; oblockp1; oblockp2]).
  Proof. intros. cbv. reflexivity. Qed.

  Theorem tie_roll_fore__b3s2 : forall blockp0 blockp1 blockp2 shiftp0 shiftp1, 
    @real_roll_fore_ T [blockp0; blockp1; blockp2] 3 [shiftp0; shiftp1] 2 =
    (let '(oblockp0, oblockp1, oblockp2, oshiftp0, oshiftp1) := gen_a_real_roll_fore__block_n3_shift_n2 O blockp0 blockp1 blockp2 shiftp0 shiftp1 in Some ([oblockp0; oblockp1; oblockp2], [oshiftp0; oshiftp1])).
  Proof. intros. cbv. reflexivity. Qed.
End Tie.
