(* All-lengths translator tie, part 2: a_real_norm / a_real_norm_ of src/math.c (two index loops `for (i = 0; i < n * c; i += c)`
   with a `return` inside the first).  Module Gen.GenLoop is regenerated on every run by tools/c2arr.py from the CURRENT source;
   the index loops are Fixpoints on fuel (the call site passes S (n * c)), `n * c` and `i + c` are followed by a check that the
   result fits 64 bits (None otherwise) - the model's comment "n * c and i + c are assumed not to wrap" is the hypothesis
   `in64 (n * c)` of the theorems here (`in64 n` for the unit stride: the count is an a_size).
   For EVERY NumOps instance, count, stride, array and cell values:
     tie_a_real_norm(_)        model defined (every cell p[0], p[c], .. p[(n-1)c] inside the array) -> generated = model;
     tie_a_real_norm(_)_short  model None (some cell outside)  -> generated = None or = Some infinity: the C returns
                               A_REAL_INF at the first infinite cell without reading the later ones, the model asks for all
                               cells up front (the model is the stricter of the two; this is the only difference);
   under two laws of the instance: [inf_law] a/a.h writes infinity DBL_MAX * DBL_MAX, the model 1 / 0 (equal in binary64:
   tie_law_inf_F64 of TieMath.v; over the reals no value is infinite and the constant is never returned: the tie_noinf theorems), and
   [leb00] 0 <= 0 (with stride 0 the C gets its 0 from `if (w <= 0) return 0`, the model returns 0 outright). *)
From Coq Require Import ZArith NArith List Bool Arith Lia.
From LibaV Require Import Common.NumOps C11.MathDefs C11.LoopTieLemmas.
From Gen Require Import GenLoop TieLoopBase.
Import ListNotations.

Definition DBL_MAX_m : Z := 9007199254740991.   (* DBL_MAX = (2^53 - 1) * 2^971 *)

Section Norm.
  Context {T : Type} (O : NumOps T).
  (* what a/a.h writes for A_REAL_INF: DBL_MAX * DBL_MAX *)
  Definition gen_inf : T := mul O (ofD O DBL_MAX_m 971) (ofD O DBL_MAX_m 971).

  Definition scan_result (cells : list T) (w : T) : option (T + T) :=
    match norm_scan O cells w with None => Some (inr gen_inf) | Some w' => Some (inl w') end.

  Lemma norm__scan p c nc (Hc : c <> 0) (Hnc : in64 nc) :   (* for tie_a_real_norm_ *)
    forall k fuel i w cells, i + k * c = nc -> nc - i < fuel -> strided k p i c = Some cells ->
      gen_a_real_norm__loop1 O fuel nc c 0 p i w = scan_result cells w.
  Proof.
    induction k as [|k IH]; intros fuel i w cells Hi Hf Hs.
    - apply strided_0_inv in Hs. subst cells. destruct fuel as [|f]; [lia|].
      unfold scan_result. cbn [gen_a_real_norm__loop1 norm_scan].
      replace (i <? nc) with false by (symmetry; apply Nat.ltb_ge; lia). reflexivity.
    - apply strided_S_inv in Hs. destruct Hs as (v & rest & Hv & Hr & ->).
      destruct fuel as [|f]; [lia|].
      unfold scan_result. cbn [gen_a_real_norm__loop1 norm_scan Nat.add].
      replace (i <? nc) with true by (symmetry; apply Nat.ltb_lt; lia).
      rewrite Hv. unfold isinf, gtb.
      destruct (eqb O (add O (abs O v) (abs O v)) (abs O v) && negb (eqb O (abs O v) (ofZ O 0))); [reflexivity|].
      rewrite fits64 by (apply in64_le with nc; [lia|assumption]).
      apply IH; [lia | lia | exact Hr].
  Qed.

  Lemma norm__sq p c nc wm (Hc : c <> 0) (Hnc : in64 nc) :   (* for tie_a_real_norm_ *)
    forall k fuel i s cells, i + k * c = nc -> nc - i < fuel -> strided k p i c = Some cells ->
      gen_a_real_norm__loop2 O fuel nc c 0 wm p i s =
      Some (fold_left (fun s p => let x := div O p wm in add O s (mul O x x)) cells s).
  Proof.
    induction k as [|k IH]; intros fuel i s cells Hi Hf Hs.
    - apply strided_0_inv in Hs. subst cells. destruct fuel as [|f]; [lia|].
      cbn [gen_a_real_norm__loop2 fold_left].
      replace (i <? nc) with false by (symmetry; apply Nat.ltb_ge; lia). reflexivity.
    - apply strided_S_inv in Hs. destruct Hs as (v & rest & Hv & Hr & ->).
      destruct fuel as [|f]; [lia|].
      cbn [gen_a_real_norm__loop2 fold_left Nat.add].
      replace (i <? nc) with true by (symmetry; apply Nat.ltb_lt; lia).
      rewrite Hv. rewrite fits64 by (apply in64_le with nc; [lia|assumption]).
      apply IH; [lia | lia | exact Hr].
  Qed.

  (* the same two loops with the index stepping by one *)
  Lemma norm_scan1 p n (Hn : in64 n) :   (* for tie_a_real_norm *)
    forall k fuel i w cells, i + k = n -> n - i < fuel -> strided k p i 1 = Some cells ->
      gen_a_real_norm_loop1 O fuel n 0 p i w = scan_result cells w.
  Proof.
    induction k as [|k IH]; intros fuel i w cells Hi Hf Hs.
    - apply strided_0_inv in Hs. subst cells. destruct fuel as [|f]; [lia|].
      unfold scan_result. cbn [gen_a_real_norm_loop1 norm_scan].
      replace (i <? n) with false by (symmetry; apply Nat.ltb_ge; lia). reflexivity.
    - apply strided_S_inv in Hs. destruct Hs as (v & rest & Hv & Hr & ->).
      destruct fuel as [|f]; [lia|].
      unfold scan_result. cbn [gen_a_real_norm_loop1 norm_scan Nat.add].
      replace (i <? n) with true by (symmetry; apply Nat.ltb_lt; lia).
      rewrite Hv. unfold isinf, gtb.
      destruct (eqb O (add O (abs O v) (abs O v)) (abs O v) && negb (eqb O (abs O v) (ofZ O 0))); [reflexivity|].
      rewrite fits64 by (apply in64_le with n; [lia|assumption]).
      apply IH; [lia | lia | exact Hr].
  Qed.

  Lemma norm_sq1 p n wm (Hn : in64 n) :   (* for tie_a_real_norm *)
    forall k fuel i s cells, i + k = n -> n - i < fuel -> strided k p i 1 = Some cells ->
      gen_a_real_norm_loop2 O fuel n 0 wm p i s =
      Some (fold_left (fun s p => let x := div O p wm in add O s (mul O x x)) cells s).
  Proof.
    induction k as [|k IH]; intros fuel i s cells Hi Hf Hs.
    - apply strided_0_inv in Hs. subst cells. destruct fuel as [|f]; [lia|].
      cbn [gen_a_real_norm_loop2 fold_left].
      replace (i <? n) with false by (symmetry; apply Nat.ltb_ge; lia). reflexivity.
    - apply strided_S_inv in Hs. destruct Hs as (v & rest & Hv & Hr & ->).
      destruct fuel as [|f]; [lia|].
      cbn [gen_a_real_norm_loop2 fold_left Nat.add].
      replace (i <? n) with true by (symmetry; apply Nat.ltb_lt; lia).
      rewrite Hv. rewrite fits64 by (apply in64_le with n; [lia|assumption]).
      apply IH; [lia | lia | exact Hr].
  Qed.

  (* the functions, with the constant returned for an infinite cell still the generated one *)
  Lemma norm_with : forall n p cells, in64 n -> strided n p 0 1 = Some cells ->   (* for tie_a_real_norm *)
    gen_a_real_norm O n p 0 = Some (norm_cells_with O gen_inf cells).
  Proof.
    intros n p cells Hn Hs. unfold gen_a_real_norm.
    rewrite (norm_scan1 p n Hn n (S n) 0 (ofZ O 0) cells) by (try lia; exact Hs).
    unfold scan_result, norm_cells_with. destruct (norm_scan O cells (ofZ O 0)) as [w|]; [|reflexivity].
    destruct (leb O w (ofZ O 0)); [reflexivity|].
    rewrite (norm_sq1 p n w Hn n (S n) 0 (ofZ O 0) cells) by (try lia; exact Hs). reflexivity.
  Qed.

  Lemma norm__with : forall n p c cells, c <> 0 -> in64 (n * c) -> strided n p 0 c = Some cells ->   (* for tie_a_real_norm_ *)
    gen_a_real_norm_ O n p 0 c = Some (norm_cells_with O gen_inf cells).
  Proof.
    intros n p c cells Hc Hn Hs. unfold gen_a_real_norm_. rewrite (fits64 _ Hn).
    rewrite (norm__scan p c (n * c) Hc Hn n (S (n * c)) 0 (ofZ O 0) cells) by (try lia; exact Hs).
    unfold scan_result, norm_cells_with. destruct (norm_scan O cells (ofZ O 0)) as [w|]; [|reflexivity].
    destruct (leb O w (ofZ O 0)); [reflexivity|].
    rewrite (norm__sq p c (n * c) w Hc Hn n (S (n * c)) 0 (ofZ O 0) cells) by (try lia; exact Hs). reflexivity.
  Qed.

  (* stride 0: neither loop runs *)
  Lemma norm__stride0 : forall n p, gen_a_real_norm_ O n p 0 0 = Some (if leb O (ofZ O 0) (ofZ O 0) then ofZ O 0 else mul O (sqrt O (ofZ O 0)) (ofZ O 0)).   (* for tie_a_real_norm_ *)
  Proof.
    intros n p. unfold gen_a_real_norm_. rewrite Nat.mul_0_r. cbn. destruct (leb O (ofZ O 0) (ofZ O 0)); reflexivity.
  Qed.

  (* an array that is too short for the model: the code stops at the end of the array (None) unless it met an infinite cell first *)
  Lemma norm__scan_short p c nc (Hc : c <> 0) (Hnc : in64 nc) :   (* for tie_a_real_norm__short *)
    forall k fuel i w, i + k * c = nc -> strided k p i c = None ->
      gen_a_real_norm__loop1 O fuel nc c 0 p i w = None \/ gen_a_real_norm__loop1 O fuel nc c 0 p i w = Some (inr gen_inf).
  Proof.
    induction k as [|k IH]; intros fuel i w Hi Hs; [discriminate Hs|].
    destruct fuel as [|f]; [left; reflexivity|].
    rewrite strided_S in Hs. cbn [gen_a_real_norm__loop1 Nat.add].
    replace (i <? nc) with true by (symmetry; apply Nat.ltb_lt; lia).
    destruct (nth_error p i) as [v|]; [|left; reflexivity].
    destruct (eqb O (add O (abs O v) (abs O v)) (abs O v) && negb (eqb O (abs O v) (ofZ O 0))); [right; reflexivity|].
    rewrite fits64 by (apply in64_le with nc; [lia|assumption]).
    apply IH; [lia|]. destruct (strided k p (i + c) c); [discriminate Hs|reflexivity].
  Qed.
  Lemma norm_scan1_short p n (Hn : in64 n) :   (* for tie_a_real_norm_short *)
    forall k fuel i w, i + k = n -> strided k p i 1 = None ->
      gen_a_real_norm_loop1 O fuel n 0 p i w = None \/ gen_a_real_norm_loop1 O fuel n 0 p i w = Some (inr gen_inf).
  Proof.
    induction k as [|k IH]; intros fuel i w Hi Hs; [discriminate Hs|].
    destruct fuel as [|f]; [left; reflexivity|].
    rewrite strided_S in Hs. cbn [gen_a_real_norm_loop1 Nat.add].
    replace (i <? n) with true by (symmetry; apply Nat.ltb_lt; lia).
    destruct (nth_error p i) as [v|]; [|left; reflexivity].
    destruct (eqb O (add O (abs O v) (abs O v)) (abs O v) && negb (eqb O (abs O v) (ofZ O 0))); [right; reflexivity|].
    rewrite fits64 by (apply in64_le with n; [lia|assumption]).
    apply IH; [lia|]. destruct (strided k p (i + 1) 1); [discriminate Hs|reflexivity].
  Qed.

  Lemma norm_short_with : forall n p, in64 n -> strided n p 0 1 = None ->   (* for tie_a_real_norm_short *)
    gen_a_real_norm O n p 0 = None \/ gen_a_real_norm O n p 0 = Some gen_inf.
  Proof.
    intros n p Hn Hs. unfold gen_a_real_norm.
    destruct (norm_scan1_short p n Hn n (S n) 0 (ofZ O 0) (eq_refl _) Hs) as [E|E]; rewrite E; [left|right]; reflexivity.
  Qed.
  Lemma norm__short_with : forall n p c, c <> 0 -> in64 (n * c) -> strided n p 0 c = None ->   (* for tie_a_real_norm__short *)
    gen_a_real_norm_ O n p 0 c = None \/ gen_a_real_norm_ O n p 0 c = Some gen_inf.
  Proof.
    intros n p c Hc Hn Hs. unfold gen_a_real_norm_. rewrite (fits64 _ Hn).
    destruct (norm__scan_short p c (n * c) Hc Hn n (S (n * c)) 0 (ofZ O 0) (eq_refl _) Hs) as [E|E]; rewrite E; [left|right]; reflexivity.
  Qed.

  (* ------------------------------------------------------------------------------------------------ the tie theorems *)
  Section WithInf.
    (* a/a.h writes infinity as DBL_MAX * DBL_MAX, the model as 1 / 0: equal in binary64 (tie_law_inf_F64 of TieMath.v) *)
    Hypothesis inf_law : gen_inf = c_inf O.
    (* 0 <= 0 (the C returns 0 through `if (w <= 0)` when the stride is 0, the model says 0 outright) *)
    Hypothesis leb00 : leb O (ofZ O 0) (ofZ O 0) = true.

    Theorem tie_a_real_norm : forall n p, in64 n -> real_norm O n p <> None -> gen_a_real_norm O n p 0 = real_norm O n p.
    Proof.
      intros n p Hn Hd. unfold real_norm in *. destruct (strided n p 0 1) as [cells|] eqn:Hs; [|exfalso; apply Hd; reflexivity].
      rewrite (norm_with n p cells Hn Hs). cbn [option_map]. rewrite norm_cells_is_with, inf_law. reflexivity.
    Qed.
    Theorem tie_a_real_norm_short : forall n p, in64 n -> real_norm O n p = None ->
      gen_a_real_norm O n p 0 = None \/ gen_a_real_norm O n p 0 = Some (c_inf O).
    Proof.
      intros n p Hn Hd. unfold real_norm in Hd. destruct (strided n p 0 1) as [cells|] eqn:Hs; [discriminate Hd|].
      rewrite <- inf_law. apply norm_short_with; assumption.
    Qed.
    Theorem tie_a_real_norm_ : forall n p c, in64 (n * c) -> real_norm_ O n p c <> None -> gen_a_real_norm_ O n p 0 c = real_norm_ O n p c.
    Proof.
      intros n p c Hn Hd. unfold real_norm_ in *. destruct c as [|c].
      - cbn [Nat.eqb]. rewrite norm__stride0, leb00. reflexivity.
      - cbn [Nat.eqb] in *. destruct (strided n p 0 (S c)) as [cells|] eqn:Hs; [|exfalso; apply Hd; reflexivity].
        rewrite (norm__with n p (S c) cells (Nat.neq_succ_0 c) Hn Hs). cbn [option_map]. rewrite norm_cells_is_with, inf_law. reflexivity.
    Qed.
    Theorem tie_a_real_norm__short : forall n p c, in64 (n * c) -> real_norm_ O n p c = None ->
      gen_a_real_norm_ O n p 0 c = None \/ gen_a_real_norm_ O n p 0 c = Some (c_inf O).
    Proof.
      intros n p c Hn Hd. unfold real_norm_ in Hd. destruct c as [|c]; [discriminate Hd|]. cbn [Nat.eqb] in Hd.
      destruct (strided n p 0 (S c)) as [cells|] eqn:Hs; [discriminate Hd|].
      rewrite <- inf_law. apply norm__short_with; [apply Nat.neq_succ_0|assumption|assumption].
    Qed.
  End WithInf.

  Section NoInf.
    (* an instance in which no value is infinite (the reals, tie_law_noinf_R of TieMath.v): the constant is never returned *)
    Hypothesis no_inf : forall x, andb (eqb O (add O x x) x) (negb (eqb O x (ofZ O 0))) = false.
    Hypothesis leb00 : leb O (ofZ O 0) (ofZ O 0) = true.

    Theorem tie_noinf_a_real_norm : forall n p, in64 n -> real_norm O n p <> None -> gen_a_real_norm O n p 0 = real_norm O n p.
    Proof.
      intros n p Hn Hd. unfold real_norm in *. destruct (strided n p 0 1) as [cells|] eqn:Hs; [|exfalso; apply Hd; reflexivity].
      rewrite (norm_with n p cells Hn Hs). cbn [option_map]. rewrite (norm_cells_with_noinf O no_inf). reflexivity.
    Qed.
    Theorem tie_noinf_a_real_norm_ : forall n p c, in64 (n * c) -> real_norm_ O n p c <> None -> gen_a_real_norm_ O n p 0 c = real_norm_ O n p c.
    Proof.
      intros n p c Hn Hd. unfold real_norm_ in *. destruct c as [|c].
      - cbn [Nat.eqb]. rewrite norm__stride0, leb00. reflexivity.
      - cbn [Nat.eqb] in *. destruct (strided n p 0 (S c)) as [cells|] eqn:Hs; [|exfalso; apply Hd; reflexivity].
        rewrite (norm__with n p (S c) cells (Nat.neq_succ_0 c) Hn Hs). cbn [option_map]. rewrite (norm_cells_with_noinf O no_inf). reflexivity.
    Qed.
  End NoInf.
End Norm.
