#!/opt/veriftools/pyvenv/bin/python3
"""C11 reference evaluator (run with python3-vt: needs mpmath).

stdin : one line per case   "<fn> <width 8|4> <arg bits>... | <got bits>..."   (bit patterns of doubles, "nan" for NaN;
        for width 4 the values are floats widened to double).
stdout: one line per case   "<worst error in units of eps*|ref|> <ref1> <ref2> ..."  or  "skip <reason>".
The error of an output is |got - ref| / (eps * max(|ref|, smallest normal)), eps = 2^-52 (width 8) or 2^-23 (width 4);
it is "inf" when a non-finite/special expectation (NaN outside the domain, +-inf at a pole or on overflow, exact 0)
is not met.  References are computed with mpmath at 80 significant digits from the EXACT binary arguments.
"""
import struct
import sys

from mpmath import mp, mpf, inf, nan, isnan, isinf, log, log1p, expm1, asinh, acosh, atanh, atan2, sqrt, cos, sin, pi

mp.dps = 80


def val(tok):
    if tok == "nan":
        return nan
    d = struct.unpack("<d", struct.pack("<Q", int(tok, 16)))[0]
    return mpf(d)


def hyp(*xs):
    return sqrt(sum(x * x for x in xs))


def reference(fn, a):
    """list of expected mathematical values; the strings 'nan' / 'zero+' etc. never needed: out-of-domain -> nan"""
    if fn == "asinh":
        return [asinh(a[0])]
    if fn == "acosh":
        return [acosh(a[0])] if a[0] >= 1 else [nan]
    if fn == "atanh":
        if abs(a[0]) > 1:
            return [nan]
        if abs(a[0]) == 1:
            return [inf * a[0]]
        return [atanh(a[0])]
    if fn == "expm1":
        return [expm1(a[0])]
    if fn == "log1p":
        if a[0] < -1:
            return [nan]
        if a[0] == -1:
            return [-inf]
        return [log1p(a[0])]
    if fn == "atan2":
        return [atan2(a[0], a[1])]
    if fn in ("hypot", "norm2", "norm3", "normv"):
        return [hyp(*a)]
    if fn == "c2p":
        return [hyp(a[0], a[1]), atan2(a[1], a[0])]
    if fn == "p2c":
        return [a[0] * cos(a[1]), a[0] * sin(a[1])]
    if fn == "c2s":
        r = hyp(a[0], a[1])
        return [hyp(a[0], a[1], a[2]), atan2(a[1], a[0]), atan2(a[2], r)]
    if fn == "s2c":
        return [a[0] * cos(a[2]) * cos(a[1]), a[0] * cos(a[2]) * sin(a[1]), a[0] * sin(a[2])]
    if fn == "r2d":
        return [a[0] * 180 / pi]
    if fn == "d2r":
        return [a[0] * pi / 180]
    raise KeyError(fn)


def main():
    for line in sys.stdin:
        line = line.strip()
        if not line:
            continue
        left, right = line.split("|")
        lt = left.split()
        fn, width = lt[0], int(lt[1])
        args = [val(t) for t in lt[2:]]
        got = [val(t) for t in right.split()]
        eps = mpf(2) ** (-52 if width == 8 else -23)
        tiny = mpf(2) ** (-1022 if width == 8 else -126)
        big = (2 - eps) * mpf(2) ** (1023 if width == 8 else 127)
        try:
            ref = reference(fn, args)
        except Exception as ex:  # noqa: BLE001
            print("skip %s" % type(ex).__name__)
            continue
        worst = mpf(0)
        for g, e in zip(got, ref):
            if isnan(e):
                err = mpf(0) if isnan(g) else inf
            elif isinf(e):
                err = mpf(0) if (not isnan(g) and g == e) else inf
            elif isnan(g):
                err = inf
            elif abs(e) > big * (1 + eps):
                # the true value is not representable: overflow to infinity (or the largest number) is the correct answer
                err = mpf(0) if (isinf(g) and (g > 0) == (e > 0)) or abs(g) == big else inf
            elif isinf(g):
                err = mpf(0) if abs(e) > big * (1 - 4 * eps) and (g > 0) == (e > 0) else inf
            elif e == 0:
                err = mpf(0) if g == 0 else inf
            else:
                err = abs(g - e) / (eps * max(abs(e), tiny))
            if err > worst or isinf(err):
                worst = err if not isinf(err) else inf
                if isinf(err):
                    break
        if len(got) != len(ref):
            worst = inf
        print(("inf" if isinf(worst) else "%.4f" % float(min(worst, mpf(10) ** 30))) + " " +
              " ".join("nan" if isnan(e) else (mp.nstr(e, 25) if not isinf(e) else ("inf" if e > 0 else "-inf")) for e in ref))
        sys.stdout.flush()


if __name__ == "__main__":
    main()
