(* Helper of the all-lengths translator tie of C11 (no tie theorem here): the vocabulary of the module Gen.GenLoop - generated on
   every run by tools/c2arr.py from the current src/math.c - related to the vocabulary of the hand model C11/MathDefs.v.
   The generated prelude defines its own checked update / block read / block write with the same bodies as the model's, and the
   block move on a BYTE count; the no-wrap checks `fits w x` hold under the hypotheses `in64 x` of the tie theorems. *)
From Coq Require Import ZArith NArith List Bool Arith Lia.
From LibaV Require Import Common.NumOps C11.MathDefs C11.LoopTieLemmas.
From Gen Require Import GenLoop.
Import ListNotations.

Lemma fits64 (x : nat) : in64 x -> fits 64 x = true.
Proof. unfold in64, fits. intros H. apply N.ltb_lt. exact H. Qed.

Lemma upd_eq {T} (m : list T) i v : GenLoop.upd m i v = MathDefs.upd m i v.
Proof. reflexivity. Qed.
Lemma sub_eq {T} (m : list T) o l : GenLoop.sub_ m o l = MathDefs.sub_ m o l.
Proof. reflexivity. Qed.
Lemma blit_eq {T} (m : list T) o d : GenLoop.blit m o d = MathDefs.blit m o d.
Proof. reflexivity. Qed.

(* a block move of 8 * n bytes moves n cells: read them all, then write them *)
Lemma blk_move_cells {T} (md : list T) (d : nat) (ms : list T) (s n : nat) :
  blk_move md d ms s 8 (8 * n) = MathDefs.bind (MathDefs.sub_ ms s n) (MathDefs.blit md d).
Proof.
  unfold blk_move. rewrite (Nat.mul_comm 8 n), Nat.mod_mul, Nat.div_mul by discriminate.
  cbn [Nat.eqb]. reflexivity.
Qed.

Lemma blk_set_cells {T} (m : list T) (d : nat) (v : T) (n : nat) :
  blk_set m d v 8 (8 * n) = MathDefs.blit m d (repeat v n).
Proof.
  unfold blk_set. rewrite (Nat.mul_comm 8 n), Nat.mod_mul, Nat.div_mul by discriminate.
  cbn [Nat.eqb]. reflexivity.
Qed.

(* case analysis on one checked operation of the goal (a scrutinee that is not itself a match) *)
Ltac opt_step :=
  match goal with
  | |- context [match ?x with Some _ => _ | None => _ end] =>
      lazymatch x with
      | context [match _ with Some _ => _ | None => _ end] => fail
      | _ => destruct x
      end
  end.
(* ... on all of them *)
Ltac opt_cases :=
  repeat match goal with
         | |- context [match ?x with Some _ => _ | None => _ end] =>
             lazymatch x with
             | context [match _ with Some _ => _ | None => _ end] => fail
             | _ => destruct x
             end
         end.
