#!/usr/bin/env python3
"""Writes harness/C11/TieArr*.v and harness/C11/tie_arr_names.txt: the reductions and array helpers of src/math.c, UNROLLED by
tools/c2coq.py for small counts / strides with exactly sized arrays, against the list model of coq/C11/MathDefs.v - for ALL cell
values and every NumOps instance."""
import itertools
import sys

names, thms = [], []


def lst(bs):
    return "[" + "; ".join(bs) + "]"


def need(n, c):
    return (n - 1) * c + 1 if n > 0 else 0


def add(cname, spec_ints, arrays, scalars, hand, tag):
    """arrays: [(C name, length, const?)]; hand: function (binders dict) -> (lhs term, rhs builder from output names)"""
    spec = "%s@%s;%s" % (cname, ",".join("%s=%d" % kv for kv in spec_ints), ",".join("%s=%d" % (a, n) for a, n, _ in arrays))
    names.append(spec)
    gen = "gen_%s%s" % (cname, "".join("_%s%d" % kv for kv in spec_ints))
    B = {a: ["%s%d" % (a.replace("_", ""), i) for i in range(n)] for a, n, _ in arrays}
    allb = [b for a, n, _ in arrays for b in B[a]] + scalars
    outs = {a: ["o%s%d" % (a.replace("_", ""), i) for i in range(n)] for a, n, k in arrays if not k}
    lhs, rhs_of = hand(B, outs)
    flat = [o for a, n, k in arrays if not k for o in outs[a]]
    call = "%s O %s" % (gen, " ".join(allb)) if allb else "%s O" % gen
    ret = rhs_of is None
    if ret:
        rhs = "Some (%s)" % call
    elif not flat:
        rhs = rhs_of
    else:
        pat = ("'(" + ", ".join(flat) + ")") if len(flat) > 1 else flat[0]
        rhs = "(let %s := %s in %s)" % (pat, call, rhs_of)
    q = ("forall %s, " % " ".join(allb)) if allb else ""
    thms.append("  Theorem tie_%s_%s : %s\n    %s =\n    %s.\n  Proof. intros. cbv. reflexivity. Qed.\n" % (cname[7:], tag, q, lhs, rhs))


N = (0, 1, 2, 3)
C = (0, 1, 2)
for f in ("sum", "sum1", "sum2", "mean"):
    for n in N:
        add("a_real_" + f, [("n", n)], [("p", n, True)], [], lambda B, o, f=f, n=n: ("real_%s O %d %s" % (f, n, lst(B["p"])), None), "n%d" % n)
    for n, c in itertools.product(N, C):
        add("a_real_%s_" % f, [("n", n), ("c", c)], [("p", need(n, c), True)], [],
            lambda B, o, f=f, n=n, c=c: ("real_%s_ O %d %s %d" % (f, n, lst(B["p"]), c), None), "n%dc%d" % (n, c))
for n in N:
    add("a_real_dot", [("n", n)], [("X", n, True), ("Y", n, True)], [], lambda B, o, n=n: ("real_dot O %d %s %s" % (n, lst(B["X"]), lst(B["Y"])), None), "n%d" % n)
for n, xc, yc in itertools.product(N, C, C):
    add("a_real_dot_", [("n", n), ("Xc", xc), ("Yc", yc)], [("X", need(n, xc), True), ("Y", need(n, yc), True)], [],
        lambda B, o, n=n, xc=xc, yc=yc: ("real_dot_ O %d %s %d %s %d" % (n, lst(B["X"]), xc, lst(B["Y"]), yc), None), "n%dx%dy%d" % (n, xc, yc))
for n in N:
    add("a_real_copy", [("n", n)], [("dst", n + 1, False), ("src", n, True)], [],
        lambda B, o, n=n: ("@real_copy T %d (%s ++ %s) 0 %d" % (n, lst(B["dst"]), lst(B["src"]), n + 1), "Some (%s ++ %s)" % (lst(o["dst"]), lst(B["src"]))), "n%d" % n)
    add("a_real_swap", [("n", n)], [("lhs", n, False), ("rhs", n + 1, False)], [],
        lambda B, o, n=n: ("@real_swap T %d (%s ++ %s) 0 %d" % (n, lst(B["lhs"]), lst(B["rhs"]), n), "Some (%s ++ %s)" % (lst(o["lhs"]), lst(o["rhs"]))), "n%d" % n)
    add("a_real_fill", [("n", n)], [("p", n + 1, False)], ["v"], lambda B, o, n=n: ("@real_fill T %d %s v" % (n, lst(B["p"])), "Some %s" % lst(o["p"])), "n%d" % n)
    add("a_real_zero", [("n", n)], [("p", n + 1, False)], [], lambda B, o, n=n: ("real_zero O %d %s" % (n, lst(B["p"])), "Some %s" % lst(o["p"])), "n%d" % n)
    for f in ("push_fore", "push_back"):
        add("a_real_" + f, [("n", n)], [("p", n + 1, False)], ["x"], lambda B, o, n=n, f=f: ("@real_%s T %s %d x" % (f, lst(B["p"]), n), "Some %s" % lst(o["p"])), "n%d" % n)
    for f in ("roll_fore", "roll_back"):
        add("a_real_" + f, [("n", n)], [("p", n + 1, False)], [], lambda B, o, n=n, f=f: ("@real_%s T %s %d" % (f, lst(B["p"]), n), "Some %s" % lst(o["p"])), "n%d" % n)
for n, dc, sc in itertools.product((0, 1, 2, 3), C, C):
    ld, ls = need(n, dc), need(n, sc)
    add("a_real_copy_", [("n", n), ("dc", dc), ("sc", sc)], [("dst", ld, False), ("src", ls, True)], [],
        lambda B, o, n=n, dc=dc, sc=sc, ld=ld: ("@real_copy_ T %d (%s ++ %s) 0 %d %d %d" % (n, lst(B["dst"]), lst(B["src"]), dc, ld, sc),
                                              "Some (%s ++ %s)" % (lst(o["dst"]), lst(B["src"]))), "n%dd%ds%d" % (n, dc, sc))
    add("a_real_swap_", [("n", n), ("lc", dc), ("rc", sc)], [("lhs", ld, False), ("rhs", ls, False)], [],
        lambda B, o, n=n, dc=dc, sc=sc, ld=ld: ("@real_swap_ T %d (%s ++ %s) 0 %d %d %d" % (n, lst(B["lhs"]), lst(B["rhs"]), dc, ld, sc),
                                              "Some (%s ++ %s)" % (lst(o["lhs"]), lst(o["rhs"]))), "n%dl%dr%d" % (n, dc, sc))
for bn, cn in itertools.product((0, 1, 2, 3), (0, 1, 2, 4)):
    for f in ("push_fore_", "push_back_"):
        add("a_real_" + f, [("block_n", bn), ("cache_n", cn)], [("block_p", bn, False), ("cache_p", cn, True)], [],
            lambda B, o, bn=bn, cn=cn, f=f: ("@real_%s T %s %d %s %d" % (f, lst(B["block_p"]), bn, lst(B["cache_p"]), cn), "Some %s" % lst(o["block_p"])), "b%dc%d" % (bn, cn))
    for f in ("roll_fore_", "roll_back_"):
        sl = (cn % bn) if bn else 0
        add("a_real_" + f, [("block_n", bn), ("shift_n", cn)], [("block_p", bn, False), ("shift_p", max(sl, 1), False)], [],
            lambda B, o, bn=bn, cn=cn, f=f: ("@real_%s T %s %d %s %d" % (f, lst(B["block_p"]), bn, lst(B["shift_p"]), cn),
                                             "Some (%s, %s)" % (lst(o["block_p"]), lst(o["shift_p"]))), "b%ds%d" % (bn, cn))
HEAD = """(* GENERATED ONCE by harness/C11/mk_tie_arr.py and committed: tie between the UNROLLED translation of the reductions and array
   helpers of src/math.c (module Gen.GenArr, regenerated on every run by tools/c2coq.py with counts and strides fixed and the arrays
   exactly sized - an access outside an array is a translation error) and the list model C11/MathDefs.v: for every function and
   every small count / stride combination, for ALL cell values and EVERY NumOps instance, the model returns exactly what the
   translated C computes, operation for operation. *)
From Coq Require Import ZArith List.
From LibaV Require Import Common.NumOps C11.MathDefs.
From Gen Require Import GenArr.
Import ListNotations.

Section Tie.
  Context {T : Type} (O : NumOps T).
"""
K = 6
d = sys.argv[1]
for k in range(K):
    open("%s/TieArr%d.v" % (d, k + 1), "w").write(HEAD + "\n" + "\n".join(thms[k::K]) + "End Tie.\n")
open("%s/tie_arr_names.txt" % d, "w").write("\n".join(names) + "\n")
print(len(names), "specialisations")
