/* C11 harness: the real helpers of src/math.c / include/a/math.h.
   One line per case: "<fn> <hex> <hex> ...": numbers are 16-hex-digit bit patterns of doubles (converted to a_real),
   integers (counts, strides, offsets) are plain hex.  One output line per case: results as bit patterns of the
   value converted to double ("nan" for any NaN).  The same source serves
     - the bit-exact run   (A_HAVE_*=0, a_real=double, libm entry points replaced by harness/common/libm_subst.c),
     - the accuracy runs   (A_HAVE_*=0/1, a_real=double/float, the real libm).
   Array arguments live in heap blocks of exactly the stated length, so that AddressSanitizer sees any access outside them;
   every cell of the block (not only the cells the function should touch) is printed afterwards. */
#include "a/math.h"
#include "common/fharness.h"

static a_real *blk(int off, int n)
{
    int i;
    a_real *p = (a_real *)malloc(sizeof(a_real) * (size_t)(n > 0 ? n : 1));
    for (i = 0; i < n; ++i) { p[i] = (a_real)f_arg[off + i]; }
    return p;
}
static void dump(a_real const *p, int n)
{
    int i;
    for (i = 0; i < n; ++i) { put((double)p[i]); }
}
#define IS(s) (!strcmp(f_fn, s))
#define N(i) ((a_size)f_raw[i])
#define X(i) ((a_real)f_arg[i])

int main(void)
{
    static char line[1 << 16];
    while (fgets(line, sizeof(line), stdin))
    {
        if (!f_read(line)) { continue; }
        if (IS("asinh")) { put((double)a_real_asinh(X(0))); }
        else if (IS("acosh")) { put((double)a_real_acosh(X(0))); }
        else if (IS("atanh")) { put((double)a_real_atanh(X(0))); }
        else if (IS("expm1")) { put((double)a_real_expm1(X(0))); }
        else if (IS("log1p")) { put((double)a_real_log1p(X(0))); }
        else if (IS("atan2")) { put((double)a_real_atan2(X(0), X(1))); }
        else if (IS("hypot")) { put((double)a_real_hypot(X(0), X(1))); }
        else if (IS("norm2")) { put((double)a_real_norm2(X(0), X(1))); }
        else if (IS("norm3")) { put((double)a_real_norm3(X(0), X(1), X(2))); }
        else if (IS("r2d")) { put((double)a_real_rad2deg(X(0))); }
        else if (IS("d2r")) { put((double)a_real_deg2rad(X(0))); }
        else if (IS("c2p"))
        {
            a_real r, t;
            a_real_cart2pol(X(0), X(1), &r, &t);
            put((double)r); put((double)t);
        }
        else if (IS("p2c"))
        {
            a_real x, y;
            a_real_pol2cart(X(0), X(1), &x, &y);
            put((double)x); put((double)y);
        }
        else if (IS("c2s"))
        {
            a_real r, t, al;
            a_real_cart2sph(X(0), X(1), X(2), &r, &t, &al);
            put((double)r); put((double)t); put((double)al);
        }
        else if (IS("s2c"))
        {
            a_real x, y, z;
            a_real_sph2cart(X(0), X(1), X(2), &x, &y, &z);
            put((double)x); put((double)y); put((double)z);
        }
        /* ---- reductions: "<fn> n p..." and "<fn>_ n c p..." (the block is exactly the given cells) */
        else if (IS("norm") || IS("sum") || IS("sum1") || IS("sum2") || IS("mean"))
        {
            int len = f_n - 1;
            a_real *p = blk(1, len), r;
            if (IS("norm")) { r = a_real_norm(N(0), p); }
            else if (IS("sum")) { r = a_real_sum(N(0), p); }
            else if (IS("sum1")) { r = a_real_sum1(N(0), p); }
            else if (IS("sum2")) { r = a_real_sum2(N(0), p); }
            else { r = a_real_mean(N(0), p); }
            put(1.0); put((double)r);
            free(p);
        }
        else if (IS("norm_") || IS("sum_") || IS("sum1_") || IS("sum2_") || IS("mean_"))
        {
            int len = f_n - 2;
            a_real *p = blk(2, len), r;
            if (IS("norm_")) { r = a_real_norm_(N(0), p, N(1)); }
            else if (IS("sum_")) { r = a_real_sum_(N(0), p, N(1)); }
            else if (IS("sum1_")) { r = a_real_sum1_(N(0), p, N(1)); }
            else if (IS("sum2_")) { r = a_real_sum2_(N(0), p, N(1)); }
            else { r = a_real_mean_(N(0), p, N(1)); }
            put(1.0); put((double)r);
            free(p);
        }
        else if (IS("dot")) /* dot n x1..xn y1..yn */
        {
            int n = (int)N(0);
            a_real *x = blk(1, n), *y = blk(1 + n, n);
            put(1.0); put((double)a_real_dot(N(0), x, y));
            free(x); free(y);
        }
        else if (IS("dot_")) /* dot_ n xc yc lx X[lx] Y[rest] */
        {
            int lx = (int)N(3), ly = f_n - 4 - lx;
            a_real *x = blk(4, lx), *y = blk(4 + lx, ly);
            put(1.0); put((double)a_real_dot_(N(0), x, N(1), y, N(2)));
            free(x); free(y);
        }
        /* ---- copy / swap in one memory block m: the two array arguments are m + offset */
        else if (IS("copy")) /* copy n d s m... */
        {
            int len = f_n - 3;
            a_real *m = blk(3, len);
            a_real_copy(N(0), m + N(1), m + N(2));
            put(1.0); dump(m, len); free(m);
        }
        else if (IS("copy_")) /* copy_ n d dc s sc m... */
        {
            int len = f_n - 5;
            a_real *m = blk(5, len);
            a_real_copy_(N(0), m + N(1), N(2), m + N(3), N(4));
            put(1.0); dump(m, len); free(m);
        }
        else if (IS("swap")) /* swap n l r m... */
        {
            int len = f_n - 3;
            a_real *m = blk(3, len);
            a_real_swap(N(0), m + N(1), m + N(2));
            put(1.0); dump(m, len); free(m);
        }
        else if (IS("swap_")) /* swap_ n l lc r rc m... */
        {
            int len = f_n - 5;
            a_real *m = blk(5, len);
            a_real_swap_(N(0), m + N(1), N(2), m + N(3), N(4));
            put(1.0); dump(m, len); free(m);
        }
        else if (IS("fill")) /* fill n v p... */
        {
            int len = f_n - 2;
            a_real *p = blk(2, len);
            a_real_fill(N(0), p, X(1));
            put(1.0); dump(p, len); free(p);
        }
        else if (IS("zero")) /* zero n p... */
        {
            int len = f_n - 1;
            a_real *p = blk(1, len);
            a_real_zero(N(0), p);
            put(1.0); dump(p, len); free(p);
        }
        /* ---- push / roll */
        else if (IS("pushf") || IS("pushb")) /* pushf n x p... */
        {
            int len = f_n - 2;
            a_real *p = blk(2, len);
            if (IS("pushf")) { a_real_push_fore(p, N(0), X(1)); }
            else { a_real_push_back(p, N(0), X(1)); }
            put(1.0); dump(p, len); free(p);
        }
        else if (IS("rollf") || IS("rollb")) /* rollf n p... */
        {
            int len = f_n - 1;
            a_real *p = blk(1, len);
            if (IS("rollf")) { a_real_roll_fore(p, N(0)); }
            else { a_real_roll_back(p, N(0)); }
            put(1.0); dump(p, len); free(p);
        }
        else if (IS("pushf_") || IS("pushb_")) /* pushf_ block_n cache_n lb block[lb] cache[rest] */
        {
            int lb = (int)N(2), lc = f_n - 3 - lb;
            a_real *b = blk(3, lb), *c = blk(3 + lb, lc);
            if (IS("pushf_")) { a_real_push_fore_(b, N(0), c, N(1)); }
            else { a_real_push_back_(b, N(0), c, N(1)); }
            put(1.0); dump(b, lb); free(b); free(c);
        }
        else if (IS("rollf_") || IS("rollb_")) /* rollf_ block_n shift_n lb block[lb] shift[rest] */
        {
            int lb = (int)N(2), ls = f_n - 3 - lb;
            a_real *b = blk(3, lb), *s = blk(3 + lb, ls);
            if (IS("rollf_")) { a_real_roll_fore_(b, N(0), s, N(1)); }
            else { a_real_roll_back_(b, N(0), s, N(1)); }
            put(1.0); dump(b, lb); dump(s, ls); free(b); free(s);
        }
        else { printf(" unknown"); }
        printf("\n");
        fflush(stdout);
    }
    return 0;
}
