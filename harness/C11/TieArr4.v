(* GENERATED ONCE by harness/C11/mk_tie_arr.py and committed: tie between the UNROLLED translation of the reductions and array
   helpers of src/math.c (module Gen.GenArr, regenerated on every run by tools/c2coq.py with counts and strides fixed and the arrays
   exactly sized - an access outside an array is a translation error) and the list model C11/MathDefs.v: for every function and
   every small count / stride combination, for ALL cell values and EVERY NumOps instance, the model returns exactly what the
   translated C computes, operation for operation. *)
From Coq Require Import ZArith List.
From LibaV Require Import Common.NumOps C11.MathDefs.
From Gen Require Import GenArr.
Import ListNotations.

Section Tie.
  Context {T : Type} (O : NumOps T).

  Theorem tie_sum_n3 : forall p0 p1 p2, 
    real_sum O 3 [p0; p1; p2] =
    Some (gen_a_real_sum_n3 O p0 p1 p2).
  Proof. intros. cbv. reflexivity. Qed.

  Theorem tie_sum__n1c2 : forall p0, 
    real_sum_ O 1 [p0] 2 =
    Some (gen_a_real_sum__n1_c2 O p0).
  Proof. intros. cbv. reflexivity. Qed.

  Theorem tie_sum__n3c2 : forall p0 p1 p2 p3 p4, 
    real_sum_ O 3 [p0; p1; p2; p3; p4] 2 =
    Some (gen_a_real_sum__n3_c2 O p0 p1 p2 p3 p4).
  Proof. intros. cbv. reflexivity. Qed.

  Theorem tie_sum1__n0c1 : 
    real_sum1_ O 0 [] 1 =
    Some (gen_a_real_sum1__n0_c1 O).
  Proof. intros. cbv. reflexivity. Qed.

  Theorem tie_sum1__n2c1 : forall p0 p1, 
    real_sum1_ O 2 [p0; p1] 1 =
    Some (gen_a_real_sum1__n2_c1 O p0 p1).
  Proof. intros. cbv. reflexivity. Qed.

  Theorem tie_sum2_n1 : forall p0, 
    real_sum2 O 1 [p0] =
    Some (gen_a_real_sum2_n1 O p0).
  Proof. intros. cbv. reflexivity. Qed.

  Theorem tie_sum2__n1c0 : forall p0, 
    real_sum2_ O 1 [p0] 0 =
    Some (gen_a_real_sum2__n1_c0 O p0).
  Proof. intros. cbv. reflexivity. Qed.

  Theorem tie_sum2__n3c0 : forall p0, 
    real_sum2_ O 3 [p0] 0 =
    Some (gen_a_real_sum2__n3_c0 O p0).
  Proof. intros. cbv. reflexivity. Qed.

  Theorem tie_mean_n3 : forall p0 p1 p2, 
    real_mean O 3 [p0; p1; p2] =
    Some (gen_a_real_mean_n3 O p0 p1 p2).
  Proof. intros. cbv. reflexivity. Qed.

  Theorem tie_mean__n1c2 : forall p0, 
    real_mean_ O 1 [p0] 2 =
    Some (gen_a_real_mean__n1_c2 O p0).
  Proof. intros. cbv. reflexivity. Qed.

  Theorem tie_mean__n3c2 : forall p0 p1 p2 p3 p4, 
    real_mean_ O 3 [p0; p1; p2; p3; p4] 2 =
    Some (gen_a_real_mean__n3_c2 O p0 p1 p2 p3 p4).
  Proof. intros. cbv. reflexivity. Qed.

  Theorem tie_dot__n0x0y1 : 
    real_dot_ O 0 [] 0 [] 1 =
    Some (gen_a_real_dot__n0_Xc0_Yc1 O).
  Proof. intros. cbv. reflexivity. Qed.

  Theorem tie_dot__n0x2y1 : 
    real_dot_ O 0 [] 2 [] 1 =
    Some (gen_a_real_dot__n0_Xc2_Yc1 O).
  Proof. intros. cbv. reflexivity. Qed.

  Theorem tie_dot__n1x1y1 : forall X0 Y0, 
    real_dot_ O 1 [X0] 1 [Y0] 1 =
    Some (gen_a_real_dot__n1_Xc1_Yc1 O X0 Y0).
  Proof. intros. cbv. reflexivity. Qed.

  Theorem tie_dot__n2x0y1 : forall X0 Y0 Y1, 
    real_dot_ O 2 [X0] 0 [Y0; Y1] 1 =
    Some (gen_a_real_dot__n2_Xc0_Yc1 O X0 Y0 Y1).
  Proof. intros. cbv. reflexivity. Qed.

  Theorem tie_dot__n2x2y1 : forall X0 X1 X2 Y0 Y1, 
    real_dot_ O 2 [X0; X1; X2] 2 [Y0; Y1] 1 =
    Some (gen_a_real_dot__n2_Xc2_Yc1 O X0 X1 X2 Y0 Y1).
  Proof. intros. cbv. reflexivity. Qed.

  Theorem tie_dot__n3x1y1 : forall X0 X1 X2 Y0 Y1 Y2, 
    real_dot_ O 3 [X0; X1; X2] 1 [Y0; Y1; Y2] 1 =
    Some (gen_a_real_dot__n3_Xc1_Yc1 O X0 X1 X2 Y0 Y1 Y2).
  Proof. intros. cbv. reflexivity. Qed.

  Theorem tie_swap_n0 : forall rhs0, 
    @real_swap T 0 ([] ++ [rhs0]) 0 0 =
    (let orhs0 := gen_a_real_swap_n0 O rhs0 in Some ([] ++ [orhs0])).
  Proof. intros. cbv. reflexivity. Qed.

  Theorem tie_roll_back_n0 : forall p0, 
    @real_roll_back T [p0] 0 =
    (let op0 := gen_a_real_roll_back_n0 O p0 in Some [op0]).
  Proof. intros. cbv. reflexivity. Qed.

  Theorem tie_push_back_n1 : forall p0 p1 x, 
    @real_push_back T [p0; p1] 1 x =
    (let '(op0, op1) := gen_a_real_push_back_n1 O p0 p1 x in Some [op0; op1]).
  Proof. intros. cbv. reflexivity. Qed.

  Theorem tie_zero_n2 : forall p0 p1 p2, 
    real_zero O 2 [p0; p1; p2] =
    (let '(op0, op1, op2) := gen_a_real_zero_n2 O p0 p1 p2 in Some [op0; op1; op2]).
  Proof. intros. cbv. reflexivity. Qed.

  Theorem tie_swap_n3 : forall lhs0 lhs1 lhs2 rhs0 rhs1 rhs2 rhs3, 
    @real_swap T 3 ([lhs0; lhs1; lhs2] ++ [rhs0; rhs1; rhs2; rhs3]) 0 3 =
    (let '(olhs0, olhs1, olhs2, orhs0, orhs1, orhs2, orhs3) := gen_a_real_swap_n3 O lhs0 lhs1 lhs2 rhs0 rhs1 rhs2 rhs3 in Some ([olhs0; olhs1; olhs2] ++ [orhs0; orhs1; orhs2; orhs3])).
  Proof. intros. cbv. reflexivity. Qed.

  Theorem tie_roll_back_n3 : forall p0 p1 p2 p3, 
    @real_roll_back T [p0; p1; p2; p3] 3 =
    (let '(op0, op1, op2, op3) := gen_a_real_roll_back_n3 O p0 p1 p2 p3 in Some [op0; op1; op2; op3]).
  Proof. intros. cbv. reflexivity. Qed.

  Theorem tie_swap__n0l0r2 : 
    @real_swap_ T 0 ([] ++ []) 0 0 0 2 =
    Some ([] ++ []).
  Proof. intros. cbv. reflexivity. Qed.

  Theorem tie_swap__n0l1r2 : 
    @real_swap_ T 0 ([] ++ []) 0 1 0 2 =
    Some ([] ++ []).
  Proof. intros. cbv. reflexivity. Qed.

  Theorem tie_swap__n0l2r2 : 
    @real_swap_ T 0 ([] ++ []) 0 2 0 2 =
    Some ([] ++ []).
  Proof. intros. cbv. reflexivity. Qed.

  Theorem tie_swap__n1l0r2 : forall lhs0 rhs0, 
    @real_swap_ T 1 ([lhs0] ++ [rhs0]) 0 0 1 2 =
    (let '(olhs0, orhs0) := gen_a_real_swap__n1_lc0_rc2 O lhs0 rhs0 in Some ([olhs0] ++ [orhs0])).
  Proof. intros. cbv. reflexivity. Qed.

  Theorem tie_swap__n1l1r2 : forall lhs0 rhs0, 
    @real_swap_ T 1 ([lhs0] ++ [rhs0]) 0 1 1 2 =
    (let '(olhs0, orhs0) := gen_a_real_swap__n1_lc1_rc2 O lhs0 rhs0 in Some ([olhs0] ++ [orhs0])).
  Proof. intros. cbv. reflexivity. Qed.

  Theorem tie_swap__n1l2r2 : forall lhs0 rhs0, 
    @real_swap_ T 1 ([lhs0] ++ [rhs0]) 0 2 1 2 =
    (let '(olhs0, orhs0) := gen_a_real_swap__n1_lc2_rc2 O lhs0 rhs0 in Some ([olhs0] ++ [orhs0])).
  Proof. intros. cbv. reflexivity. Qed.

  Theorem tie_swap__n2l0r2 : forall lhs0 rhs0 rhs1 rhs2, 
    @real_swap_ T 2 ([lhs0] ++ [rhs0; rhs1; rhs2]) 0 0 1 2 =
    (let '(olhs0, orhs0, orhs1, orhs2) := gen_a_real_swap__n2_lc0_rc2 O lhs0 rhs0 rhs1 rhs2 in Some ([olhs0] ++ [orhs0; orhs1; orhs2])).
  Proof. intros. cbv. reflexivity. Qed.

  Theorem tie_swap__n2l1r2 : forall lhs0 lhs1 rhs0 rhs1 rhs2, 
    @real_swap_ T 2 ([lhs0; lhs1] ++ [rhs0; rhs1; rhs2]) 0 1 2 2 =
    (let '(olhs0, olhs1, orhs0, orhs1, orhs2) := gen_a_real_swap__n2_lc1_rc2 O lhs0 lhs1 rhs0 rhs1 rhs2 in Some ([olhs0; olhs1] ++ [orhs0; orhs1; orhs2])).
  Proof. intros. cbv. reflexivity. Qed.

  Theorem tie_swap__n2l2r2 : forall lhs0 lhs1 lhs2 rhs0 rhs1 rhs2, 
    @real_swap_ T 2 ([lhs0; lhs1; lhs2] ++ [rhs0; rhs1; rhs2]) 0 2 3 2 =
    (let '(olhs0, olhs1, olhs2, orhs0, orhs1, orhs2) := gen_a_real_swap__n2_lc2_rc2 O lhs0 lhs1 lhs2 rhs0 rhs1 rhs2 in Some ([olhs0; olhs1; olhs2] ++ [orhs0; orhs1; orhs2])).
  Proof. intros. cbv. reflexivity. Qed.

  Theorem tie_swap__n3l0r2 : forall lhs0 rhs0 rhs1 rhs2 rhs3 rhs4, 
    @real_swap_ T 3 ([lhs0] ++ [rhs0; rhs1; rhs2; rhs3; rhs4]) 0 0 1 2 =
    (let '(olhs0, orhs0, orhs1, orhs2, orhs3, orhs4) := gen_a_real_swap__n3_lc0_rc2 O lhs0 rhs0 rhs1 rhs2 rhs3 rhs4 in Some ([olhs0] ++ [orhs0; orhs1; orhs2; orhs3; orhs4])).
  Proof. intros. cbv. reflexivity. Qed.

  Theorem tie_swap__n3l1r2 : forall lhs0 lhs1 lhs2 rhs0 rhs1 rhs2 rhs3 rhs4, 
    @real_swap_ T 3 ([lhs0; lhs1; lhs2] ++ [rhs0; rhs1; rhs2; rhs3; rhs4]) 0 1 3 2 =
    (let '(olhs0, olhs1, olhs2, orhs0, orhs1, orhs2, orhs3, orhs4) := gen_a_real_swap__n3_lc1_rc2 O lhs0 lhs1 lhs2 rhs0 rhs1 rhs2 rhs3 rhs4 in Some ([olhs0; olhs1; olhs2] ++ [orhs0; orhs1; orhs2; orhs3; orhs4])).
  Proof. intros. cbv. reflexivity. Qed.

  Theorem tie_swap__n3l2r2 : forall lhs0 lhs1 lhs2 lhs3 lhs4 rhs0 rhs1 rhs2 rhs3 rhs4, 
    @real_swap_ T 3 ([lhs0; lhs1; lhs2; lhs3; lhs4] ++ [rhs0; rhs1; rhs2; rhs3; rhs4]) 0 2 5 2 =
    (let '(olhs0, olhs1, olhs2, olhs3, olhs4, orhs0, orhs1, orhs2, orhs3, orhs4) := gen_a_real_swap__n3_lc2_rc2 O lhs0 lhs1 lhs2 lhs3 lhs4 rhs0 rhs1 rhs2 rhs3 rhs4 in Some ([olhs0; olhs1; olhs2; olhs3; olhs4] ++ [orhs0; orhs1; orhs2; orhs3; orhs4])).
  Proof. intros. cbv. reflexivity. Qed.

  Theorem tie_push_back__b0c1 : forall cachep0, 
    @real_push_back_ T [] 0 [cachep0] 1 =
    Some [].
  Proof. intros. cbv. reflexivity. Qed.

  Theorem tie_roll_back__b0s2 : forall shiftp0, 
    @real_roll_back_ T [] 0 [shiftp0] 2 =
    (let oshiftp0 := gen_a_real_roll_back__block_n0_shift_n2 O shiftp0 in Some ([], [oshiftp0])).
  Proof. intros. cbv. reflexivity. Qed.

  Theorem tie_push_back__b1c0 : forall blockp0, 
    @real_push_back_ T [blockp0] 1 [] 0 =
    (let oblockp0 := gen_a_real_push_back__block_n1_cache_n0 O blockp0 in Some [oblockp0]).
  Proof. intros. cbv. reflexivity. Qed.

  Theorem tie_roll_back__b1s1 : forall blockp0 shiftp0, 
    @real_roll_back_ T [blockp0] 1 [shiftp0] 1 =
    (let '(oblockp0, oshiftp0) := gen_a_real_roll_back__block_n1_shift_n1 O blockp0 shiftp0 in Some ([oblockp0], [oshiftp0])).
  Proof. intros. cbv. reflexivity. Qed.

  Theorem tie_push_back__b1c4 : forall blockp0 cachep0 cachep1 cachep2 cachep3, 
    @real_push_back_ T [blockp0] 1 [cachep0; cachep1; cachep2; cachep3] 4 =
    (let oblockp0 := gen_a_real_push_back__block_n1_cache_n4 O blockp0 cachep0 cachep1 cachep2 cachep3 in Some [oblockp0]).
  Proof. intros. cbv. reflexivity. Qed.

  Theorem tie_roll_back__b2s0 : forall blockp0 blockp1 shiftp0, 
    @real_roll_back_ T [blockp0; blockp1] 2 [shiftp0] 0 =
    (let '(oblockp0, oblockp1, oshiftp0) := gen_a_real_roll_back__block_n2_shift_n0 O blockp0 blockp1 shiftp0 in Some ([oblockp0; oblockp1], [oshiftp0])).
  Proof. intros. cbv. reflexivity. Qed.

  Theorem tie_push_back__b2c2 : forall blockp0 blockp1 cachep0 cachep1, 
    @real_push_back_ T [blockp0; blockp1] 2 [cachep0; cachep1] 2 =
    (let '(oblockp0, oblockp1) := gen_a_real_push_back__block_n2_cache_n2 O blockp0 blockp1 cachep0 cachep1 in Some [oblockp0; oblockp1]).
  Proof. intros. cbv. reflexivity. Qed.

  Theorem tie_roll_back__b2s4 : forall blockp0 blockp1 shiftp0, 
    @real_roll_back_ T [blockp0; blockp1] 2 [shiftp0] 4 =
    (let '(oblockp0, oblockp1, oshiftp0) := gen_a_real_roll_back__block_n2_shift_n4 O blockp0 blockp1 shiftp0 in Some ([oblockp0; oblockp1], [oshiftp0])).
  Proof. intros. cbv. reflexivity. Qed.

  Theorem tie_push_back__b3c1 : forall blockp0 blockp1 blockp2 cachep0, 
    @real_push_back_ T [blockp0; blockp1; blockp2] 3 [cachep0] 1 =
    (let '(oblockp0, oblockp1, oblockp2) := gen_a_real_push_back__block_n3_cache_n1 O blockp0 blockp1 blockp2 cachep0 in Some [oblockp0; oblockp1; oblockp2]).
  Proof. intros. cbv. reflexivity. Qed.

  Theorem tie_roll_back__b3s2 : forall blockp0 blockp1 blockp2 shiftp0 shiftp1, 
    @real_roll_back_ T [blockp0; blockp1; blockp2] 3 [shiftp0; shiftp1] 2 =
    (let '(oblockp0, oblockp1, oblockp2, oshiftp0, oshiftp1) := gen_a_real_roll_back__block_n3_shift_n2 O blockp0 blockp1 blockp2 shiftp0 shiftp1 in Some ([oblockp0; oblockp1; oblockp2], [oshiftp0; oshiftp1])).
  Proof. intros. cbv. reflexivity. Qed.
End Tie.
