/* C16 harness: a_tf_*, a_lpf_*, a_hpf_* on bit-pattern inputs. */
#include "a/tf.h"
#include "a/lpf.h"
#include "a/hpf.h"
#include "common/fharness.h"

int main(void)
{
    static char line[1 << 16];
    while (fgets(line, sizeof(line), stdin))
    {
        int i;
        if (!f_read(line)) { continue; }
        double *a = f_arg;
        if (!strcmp(f_fn, "tf"))
        { /* args: nn nd zero_at num[nn] den[nd] u[...] ; prints every output, then both delay lines.
             zero_at >= 0: a_tf_zero is called before that step. Arrays are malloc'ed exactly (ASan guards). */
            int nn = (int)f_raw[0], nd = (int)f_raw[1], zat = (int)f_raw[2] - 1, nu = f_n - 3 - nn - nd;
            double *num = (double *)malloc(sizeof(double) * (size_t)(nn ? nn : 1));
            double *den = (double *)malloc(sizeof(double) * (size_t)(nd ? nd : 1));
            double *in = (double *)malloc(sizeof(double) * (size_t)(nn ? nn : 1));
            double *out = (double *)malloc(sizeof(double) * (size_t)(nd ? nd : 1));
            a_tf tf;
            for (i = 0; i < nn; ++i) { num[i] = a[3 + i]; in[i] = 777; }
            for (i = 0; i < nd; ++i) { den[i] = a[3 + nn + i]; out[i] = 777; }
            a_tf_init(&tf, (unsigned)nn, num, in, (unsigned)nd, den, out);
            for (i = 0; i < nu; ++i)
            {
                if (i == zat) { a_tf_zero(&tf); }
                put(a_tf_iter(&tf, a[3 + nn + nd + i]));
            }
            for (i = 0; i < nn; ++i) { put(in[i]); }
            for (i = 0; i < nd; ++i) { put(out[i]); }
            free(num); free(den); free(in); free(out);
        }
        else if (!strcmp(f_fn, "lpf"))
        { /* alpha x... */
            a_lpf f; a_lpf_init(&f, a[0]);
            for (i = 1; i < f_n; ++i) { put(a_lpf_iter(&f, a[i])); }
        }
        else if (!strcmp(f_fn, "hpf"))
        {
            a_hpf f; a_hpf_init(&f, a[0]);
            for (i = 1; i < f_n; ++i) { put(a_hpf_iter(&f, a[i])); }
        }
        else if (!strcmp(f_fn, "gen"))
        { /* fc ts -> lpf_gen hpf_gen */
            put(a_lpf_gen(a[0], a[1])); put(a_hpf_gen(a[0], a[1]));
        }
        printf("\n");
    }
    return 0;
}
