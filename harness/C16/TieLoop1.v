(* All-lengths translator tie of C16: src/tf.c (a_tf_iter, a_tf_zero, a_tf_set_num, a_tf_set_den, a_tf_init) with a_real_push_fore
   of src/math.c.  Module Gen.GenLoop is regenerated on every run by tools/c2arr.py from the CURRENT sources: the members of
   `a_tf *ctx` the code reads are parameters of the generated function (pointer members: an array `list T` and an offset),
   the members it writes are results; the two dot loops `for (i = 0; i != ctx->num_n; ++i)` are Fixpoints on fuel with `++i`
   checked to fit 32 bits (i is unsigned int), a_zero is the block write of 0 on a byte count, the two a_real_push_fore calls
   are calls of the regenerated a_real_push_fore (memmove as read-all-then-write).
   For EVERY NumOps instance with `zero O = ofZ O 0`, EVERY pair of orders (lengths of num and den), all coefficients, delay
   line contents and inputs, with the delay lines as long as the coefficient vectors (what a_tf_set_num / set_den establish)
   and the orders values of their C type (in32: unsigned int; it makes `++i` and sizeof(a_real) * n exact):
     tie_a_tf_iter      generated = (input, output, y) of the model's tf_iter;
     tie_a_tf_iter_run  the generated function called once per sample on the arrays the previous call left = tf_run,
                        for every input sequence;
     tie_a_tf_zero      = tf_zero;   tie_a_tf_set_num / set_den / init = the delay lines of tf_init, the pointer members
                        set to the arguments (offset 0) and the counts stored. *)
From Coq Require Import ZArith NArith List Bool Arith Lia.
From LibaV Require Import Common.NumOps C11.LoopTieLemmas C15.LoopTieLemmas C16.FilterDefs.
From Gen Require Import GenLoop.
Import ListNotations.

Lemma fits64 (x : nat) : in64 x -> fits 64 x = true.
Proof. unfold in64, fits. intros H. apply N.ltb_lt. exact H. Qed.
Lemma fits32 (x : nat) : in32 x -> fits 32 x = true.
Proof. unfold in32, fits. intros H. apply N.ltb_lt. exact H. Qed.

Lemma skipn_nth {T} (l : list T) : forall i a, nth_error l i = Some a -> skipn i l = a :: skipn (S i) l.
Proof.
  induction l as [|h t IH]; intros [|i] a E; try discriminate E.
  - injection E as ->. reflexivity.
  - cbn [nth_error] in E. cbn [skipn]. rewrite (IH i a E). reflexivity.
Qed.

Lemma map_const_repeat {T} (v : T) (l : list T) : map (fun _ => v) l = repeat v (length l).
Proof. induction l as [|h t IH]; [reflexivity|]. cbn [map length repeat]. rewrite IH. reflexivity. Qed.

Section Tie.
  Context {T : Type} (O : NumOps T).
  (* the model starts its sums and fills its delay lines with [zero O], the C with the literal 0 / memset 0 *)
  Hypothesis zero_law : zero O = ofZ O 0.

  (* ---------------------------------------------------------------- a_real_push_fore on a whole delay line *)
  Lemma push_fore_line (l : list T) (x : T) : in64 (8 * length l) ->   (* for tie_a_tf_iter *)
    gen_a_real_push_fore O l 0 (length l) x = Some (push_fore l x).
  Proof.
    intros Hn. unfold gen_a_real_push_fore, push_fore. destruct l as [|h t]; [reflexivity|].
    destruct (@exists_last T (h :: t)) as (l' & lst & E); [discriminate|]. rewrite E.
    assert (Hl : length t = length l').
    { apply (f_equal (@length T)) in E. rewrite app_length in E. cbn [length] in E. lia. }
    rewrite removelast_last. rewrite app_length. cbn [length Nat.add].
    replace (length l' + 1) with (S (length l')) by lia. cbv zeta.
    rewrite fits64 by (apply in64_le with (8 * length (h :: t)); [cbn [length]; lia|exact Hn]).
    unfold blk_move. rewrite (Nat.mul_comm 8 (length l')), Nat.mod_mul, Nat.div_mul by discriminate. cbn [Nat.eqb].
    pose proof (sub_raw_mid [] l' [lst] 0 (length l') eq_refl eq_refl) as Hs. cbn [app] in Hs. unfold sub_. rewrite Hs. clear Hs.
    rewrite <- E.
    pose proof (blit_raw_mid [h] t l' [] 1 eq_refl Hl) as Hb. cbn [app] in Hb. rewrite app_nil_r in Hb. unfold blit. rewrite Hb. clear Hb.
    pose proof (upd_raw_mid [] h x (l' ++ []) 0 eq_refl) as Hu. cbn [app] in Hu. unfold upd. rewrite Hu. clear Hu.
    rewrite app_nil_r. reflexivity.
  Qed.

  Lemma push_fore_length (l : list T) (x : T) : length (push_fore l x) = length l.
  Proof.
    unfold push_fore. destruct l as [|h t]; [reflexivity|].
    destruct (@exists_last T (h :: t)) as (l' & lst & E); [discriminate|]. rewrite E, removelast_last, app_length. cbn [length]. lia.
  Qed.

  (* ---------------------------------------------------------------- the two dot loops of a_tf_iter *)
  Lemma num_loop (nm inp : list T) (n : nat) : n = length nm -> n = length inp -> in32 n ->   (* for tie_a_tf_iter *)
    forall k i y fuel, i + k = n -> k < fuel ->
      gen_a_tf_iter_loop1 O fuel n 0 0 inp nm i y =
      Some (fold_left (fun y ni => add O y (mul O (fst ni) (snd ni))) (combine (skipn i nm) (skipn i inp)) y).
  Proof.
    intros Hn Hi H32. induction k as [|k IH]; intros i y fuel Hk Hf; (destruct fuel as [|f]; [lia|]); cbn [gen_a_tf_iter_loop1 Nat.add].
    - replace (i =? n) with true by (symmetry; apply Nat.eqb_eq; lia).
      rewrite (skipn_all2 nm) by lia. reflexivity.
    - replace (i =? n) with false by (symmetry; apply Nat.eqb_neq; lia).
      destruct (nth_error nm i) as [a|] eqn:Ea; [|apply nth_error_None in Ea; lia].
      destruct (nth_error inp i) as [b|] eqn:Eb; [|apply nth_error_None in Eb; lia].
      rewrite (skipn_nth nm i a Ea), (skipn_nth inp i b Eb). cbn [combine fold_left fst snd].
      rewrite fits32 by (apply in32_le with n; [lia|exact H32]).
      rewrite Nat.add_1_r. apply IH; lia.
  Qed.

  Lemma den_loop (dn out : list T) (n : nat) : n = length dn -> n = length out -> in32 n ->   (* for tie_a_tf_iter *)
    forall k i y fuel, i + k = n -> k < fuel ->
      gen_a_tf_iter_loop2 O fuel n 0 0 dn out i y =
      Some (fold_left (fun y dj => sub O y (mul O (fst dj) (snd dj))) (combine (skipn i dn) (skipn i out)) y).
  Proof.
    intros Hn Hi H32. induction k as [|k IH]; intros i y fuel Hk Hf; (destruct fuel as [|f]; [lia|]); cbn [gen_a_tf_iter_loop2 Nat.add].
    - replace (i =? n) with true by (symmetry; apply Nat.eqb_eq; lia).
      rewrite (skipn_all2 dn) by lia. reflexivity.
    - replace (i =? n) with false by (symmetry; apply Nat.eqb_neq; lia).
      destruct (nth_error dn i) as [a|] eqn:Ea; [|apply nth_error_None in Ea; lia].
      destruct (nth_error out i) as [b|] eqn:Eb; [|apply nth_error_None in Eb; lia].
      rewrite (skipn_nth dn i a Ea), (skipn_nth out i b Eb). cbn [combine fold_left fst snd].
      rewrite fits32 by (apply in32_le with n; [lia|exact H32]).
      rewrite Nat.add_1_r. apply IH; lia.
  Qed.

  (* ---------------------------------------------------------------- a_tf_iter, every pair of orders *)
  Theorem tie_a_tf_iter : forall (s : tf) (x : T),
    length (input s) = length (num s) -> length (output s) = length (den s) -> in32 (length (num s)) -> in32 (length (den s)) ->
    gen_a_tf_iter O (input s) 0 (length (num s)) (num s) 0 (length (den s)) (den s) 0 (output s) 0 x =
    Some (input (fst (tf_iter O s x)), output (fst (tf_iter O s x)), snd (tf_iter O s x)).
  Proof.
    intros s x Hi Ho Hn Hd. unfold gen_a_tf_iter, tf_iter. cbn [fst snd input output]. cbv zeta.
    rewrite <- Hi. rewrite push_fore_line by (rewrite Hi; apply in32_8_in64; exact Hn). rewrite Hi.
    rewrite (num_loop (num s) (push_fore (input s) x) (length (num s)) eq_refl) with (k := length (num s));
      [|rewrite push_fore_length; symmetry; exact Hi|exact Hn|lia|lia].
    cbn [skipn]. rewrite <- zero_law.
    rewrite (den_loop (den s) (output s) (length (den s)) eq_refl) with (k := length (den s)); [|symmetry; exact Ho|exact Hd|lia|lia].
    cbn [skipn]. rewrite <- Ho. rewrite push_fore_line by (rewrite Ho; apply in32_8_in64; exact Hd). reflexivity.
  Qed.

  (* a_tf_iter called once per input sample on the arrays the previous call left: the model's tf_run, for every input sequence *)
  Fixpoint gen_run (nm dn inp out us : list T) : option (list T * list T * list T) :=
    match us with
    | [] => Some (inp, out, [])
    | u :: r =>
        match gen_a_tf_iter O inp 0 (length nm) nm 0 (length dn) dn 0 out 0 u with
        | None => None
        | Some (inp1, out1, y) =>
            match gen_run nm dn inp1 out1 r with
            | None => None
            | Some (inp2, out2, ys) => Some (inp2, out2, y :: ys)
            end
        end
    end.

  Theorem tie_a_tf_iter_run : forall (us : list T) (s : tf),
    length (input s) = length (num s) -> length (output s) = length (den s) -> in32 (length (num s)) -> in32 (length (den s)) ->
    gen_run (num s) (den s) (input s) (output s) us =
    Some (input (fst (tf_run O s us)), output (fst (tf_run O s us)), snd (tf_run O s us)).
  Proof.
    induction us as [|u r IH]; intros s Hi Ho Hn Hd; [reflexivity|].
    cbn [gen_run tf_run]. rewrite (tie_a_tf_iter s u Hi Ho Hn Hd).
    destruct (tf_iter O s u) as [s1 y] eqn:E1. cbn [fst snd].
    assert (Es : s1 = fst (tf_iter O s u)) by (rewrite E1; reflexivity).
    assert (Hs1 : num s1 = num s /\ den s1 = den s /\ length (input s1) = length (num s) /\ length (output s1) = length (den s)).
    { rewrite Es. unfold tf_iter. cbn [fst num den input output]. rewrite !push_fore_length. repeat split; assumption. }
    destruct Hs1 as (En & Ed & Li & Lo).
    specialize (IH s1). rewrite En, Ed in IH. rewrite IH by assumption.
    destruct (tf_run O s1 r) as [s2 ys]. reflexivity.
  Qed.

  (* ---------------------------------------------------------------- a_tf_zero, a_tf_set_num / set_den / init *)
  Lemma zero_line (l : list T) : in64 (8 * length l) -> blk_set l 0 (ofZ O 0) 8 (8 * length l) = Some (map (fun _ => zero O) l).
  Proof.
    intros Hn. unfold blk_set. rewrite (Nat.mul_comm 8 (length l)), Nat.mod_mul, Nat.div_mul by discriminate. cbn [Nat.eqb].
    pose proof (blit_raw_mid [] l (repeat (ofZ O 0) (length l)) [] 0 eq_refl) as Hb. rewrite repeat_length in Hb. specialize (Hb eq_refl).
    cbn [app] in Hb. rewrite !app_nil_r in Hb. unfold blit. rewrite repeat_length. rewrite Hb. rewrite zero_law, map_const_repeat. reflexivity.
  Qed.

  Theorem tie_a_tf_zero : forall (s : tf),
    length (input s) = length (num s) -> length (output s) = length (den s) -> in32 (length (num s)) -> in32 (length (den s)) ->
    gen_a_tf_zero O (input s) 0 (length (num s)) (output s) 0 (length (den s)) = Some (input (tf_zero O s), output (tf_zero O s)).
  Proof.
    intros s Hi Ho Hn Hd. unfold gen_a_tf_zero, tf_zero. cbn [input output]. cbv zeta.
    rewrite !fits64 by (apply in32_8_in64; assumption).
    rewrite <- Hi, zero_line by (rewrite Hi; apply in32_8_in64; exact Hn).
    rewrite <- Ho, zero_line by (rewrite Ho; apply in32_8_in64; exact Hd). reflexivity.
  Qed.

  (* the struct members written are returned after the arrays: ctx->input, ctx->num_p as offsets (0: the arguments themselves), ctx->num_n *)
  Theorem tie_a_tf_set_num : forall (nm dn buf : list T), length buf = length nm -> in32 (length nm) ->
    gen_a_tf_set_num O (length nm) nm 0 buf 0 = Some (input (tf_init O nm dn), 0, 0, length nm).
  Proof.
    intros nm dn buf Hb Hn. unfold gen_a_tf_set_num, tf_init. cbn [input]. cbv zeta.
    rewrite fits64 by (apply in32_8_in64; exact Hn).
    rewrite <- Hb, zero_line by (rewrite Hb; apply in32_8_in64; exact Hn).
    rewrite !map_const_repeat, Hb. reflexivity.
  Qed.
  Theorem tie_a_tf_set_den : forall (nm dn buf : list T), length buf = length dn -> in32 (length dn) ->
    gen_a_tf_set_den O (length dn) dn 0 buf 0 = Some (output (tf_init O nm dn), 0, 0, length dn).
  Proof.
    intros nm dn buf Hb Hn. unfold gen_a_tf_set_den, tf_init. cbn [output]. cbv zeta.
    rewrite fits64 by (apply in32_8_in64; exact Hn).
    rewrite <- Hb, zero_line by (rewrite Hb; apply in32_8_in64; exact Hn).
    rewrite !map_const_repeat, Hb. reflexivity.
  Qed.
  Theorem tie_a_tf_init : forall (nm dn ibuf obuf : list T), length ibuf = length nm -> length obuf = length dn ->
    in32 (length nm) -> in32 (length dn) ->
    gen_a_tf_init O (length nm) nm 0 ibuf 0 (length dn) dn 0 obuf 0 =
    Some (input (tf_init O nm dn), output (tf_init O nm dn), 0, 0, 0, 0, length nm, length dn).
  Proof.
    intros nm dn ibuf obuf Hi Ho Hn Hd. unfold gen_a_tf_init.
    rewrite (tie_a_tf_set_num nm dn ibuf Hi Hn), (tie_a_tf_set_den nm dn obuf Ho Hd). reflexivity.
  Qed.
End Tie.
