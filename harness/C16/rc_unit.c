/* translation unit handed to tools/c2coq.py: the RC filters are inline functions of the headers */
#include "a/lpf.h"
#include "a/hpf.h"
