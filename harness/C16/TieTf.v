(* Tie between the UNROLLED translation of a_tf_iter / a_tf_zero (src/tf.c with a_real_push_fore of src/math.c inlined; module
   Gen.GenTf, regenerated on every run by tools/c2coq.py with both orders fixed, the coefficient vectors and delay lines exactly
   sized) and the list model C16/FilterDefs.v: for every pair of orders 0..3 x 0..3, ALL coefficients, delay-line contents and
   inputs, and every NumOps instance. *)
From Coq Require Import ZArith List.
From LibaV Require Import Common.NumOps Common.ROps Common.FloatOps C16.FilterDefs.
From Gen Require Import GenTf.
Import ListNotations.

Section Tie.
  Context {T : Type} (O : NumOps T).
  (* the model starts its sums from [zero O], the C from the literal 0 *)
  Hypothesis zero_law : zero O = ofZ O 0.
  Ltac tie := intros; pose proof zero_law as ZL; cbv in *; rewrite ?ZL; reflexivity.

  Theorem tie_a_tf_iter_0x0 : forall  x,
    tf_iter O {| num := []; den := []; input := []; output := [] |} x =
    (let y := gen_a_tf_iter_ctx_num_n0_ctx_den_n0 O  x in ({| num := []; den := []; input := []; output := [] |}, y)).
  Proof. tie. Qed.

  Theorem tie_a_tf_zero_0x0 : 
    tf_zero O (@Build_tf T [] [] [] []) = {| num := []; den := []; input := []; output := [] |}.
  Proof. tie. Qed.

  Theorem tie_a_tf_iter_0x1 : forall o0 d0 x,
    tf_iter O {| num := []; den := [d0]; input := []; output := [o0] |} x =
    (let '(Q0, y) := gen_a_tf_iter_ctx_num_n0_ctx_den_n1 O o0 d0 x in ({| num := []; den := [d0]; input := []; output := [Q0] |}, y)).
  Proof. tie. Qed.

  Theorem tie_a_tf_zero_0x1 : forall o0 d0, 
    tf_zero O {| num := []; den := [d0]; input := []; output := [o0] |} = (let Q0 := gen_a_tf_zero_ctx_num_n0_ctx_den_n1 O o0 d0 in {| num := []; den := [d0]; input := []; output := [Q0] |}).
  Proof. tie. Qed.

  Theorem tie_a_tf_iter_0x2 : forall o0 o1 d0 d1 x,
    tf_iter O {| num := []; den := [d0; d1]; input := []; output := [o0; o1] |} x =
    (let '(Q0, Q1, y) := gen_a_tf_iter_ctx_num_n0_ctx_den_n2 O o0 o1 d0 d1 x in ({| num := []; den := [d0; d1]; input := []; output := [Q0; Q1] |}, y)).
  Proof. tie. Qed.

  Theorem tie_a_tf_zero_0x2 : forall o0 o1 d0 d1, 
    tf_zero O {| num := []; den := [d0; d1]; input := []; output := [o0; o1] |} = (let '(Q0, Q1) := gen_a_tf_zero_ctx_num_n0_ctx_den_n2 O o0 o1 d0 d1 in {| num := []; den := [d0; d1]; input := []; output := [Q0; Q1] |}).
  Proof. tie. Qed.

  Theorem tie_a_tf_iter_0x3 : forall o0 o1 o2 d0 d1 d2 x,
    tf_iter O {| num := []; den := [d0; d1; d2]; input := []; output := [o0; o1; o2] |} x =
    (let '(Q0, Q1, Q2, y) := gen_a_tf_iter_ctx_num_n0_ctx_den_n3 O o0 o1 o2 d0 d1 d2 x in ({| num := []; den := [d0; d1; d2]; input := []; output := [Q0; Q1; Q2] |}, y)).
  Proof. tie. Qed.

  Theorem tie_a_tf_zero_0x3 : forall o0 o1 o2 d0 d1 d2, 
    tf_zero O {| num := []; den := [d0; d1; d2]; input := []; output := [o0; o1; o2] |} = (let '(Q0, Q1, Q2) := gen_a_tf_zero_ctx_num_n0_ctx_den_n3 O o0 o1 o2 d0 d1 d2 in {| num := []; den := [d0; d1; d2]; input := []; output := [Q0; Q1; Q2] |}).
  Proof. tie. Qed.

  Theorem tie_a_tf_iter_1x0 : forall i0 n0 x,
    tf_iter O {| num := [n0]; den := []; input := [i0]; output := [] |} x =
    (let '(I0, y) := gen_a_tf_iter_ctx_num_n1_ctx_den_n0 O i0 n0 x in ({| num := [n0]; den := []; input := [I0]; output := [] |}, y)).
  Proof. tie. Qed.

  Theorem tie_a_tf_zero_1x0 : forall i0 n0, 
    tf_zero O {| num := [n0]; den := []; input := [i0]; output := [] |} = (let I0 := gen_a_tf_zero_ctx_num_n1_ctx_den_n0 O i0 n0 in {| num := [n0]; den := []; input := [I0]; output := [] |}).
  Proof. tie. Qed.

  Theorem tie_a_tf_iter_1x1 : forall i0 o0 n0 d0 x,
    tf_iter O {| num := [n0]; den := [d0]; input := [i0]; output := [o0] |} x =
    (let '(I0, Q0, y) := gen_a_tf_iter_ctx_num_n1_ctx_den_n1 O i0 o0 n0 d0 x in ({| num := [n0]; den := [d0]; input := [I0]; output := [Q0] |}, y)).
  Proof. tie. Qed.

  Theorem tie_a_tf_zero_1x1 : forall i0 o0 n0 d0, 
    tf_zero O {| num := [n0]; den := [d0]; input := [i0]; output := [o0] |} = (let '(I0, Q0) := gen_a_tf_zero_ctx_num_n1_ctx_den_n1 O i0 o0 n0 d0 in {| num := [n0]; den := [d0]; input := [I0]; output := [Q0] |}).
  Proof. tie. Qed.

  Theorem tie_a_tf_iter_1x2 : forall i0 o0 o1 n0 d0 d1 x,
    tf_iter O {| num := [n0]; den := [d0; d1]; input := [i0]; output := [o0; o1] |} x =
    (let '(I0, Q0, Q1, y) := gen_a_tf_iter_ctx_num_n1_ctx_den_n2 O i0 o0 o1 n0 d0 d1 x in ({| num := [n0]; den := [d0; d1]; input := [I0]; output := [Q0; Q1] |}, y)).
  Proof. tie. Qed.

  Theorem tie_a_tf_zero_1x2 : forall i0 o0 o1 n0 d0 d1, 
    tf_zero O {| num := [n0]; den := [d0; d1]; input := [i0]; output := [o0; o1] |} = (let '(I0, Q0, Q1) := gen_a_tf_zero_ctx_num_n1_ctx_den_n2 O i0 o0 o1 n0 d0 d1 in {| num := [n0]; den := [d0; d1]; input := [I0]; output := [Q0; Q1] |}).
  Proof. tie. Qed.

  Theorem tie_a_tf_iter_1x3 : forall i0 o0 o1 o2 n0 d0 d1 d2 x,
    tf_iter O {| num := [n0]; den := [d0; d1; d2]; input := [i0]; output := [o0; o1; o2] |} x =
    (let '(I0, Q0, Q1, Q2, y) := gen_a_tf_iter_ctx_num_n1_ctx_den_n3 O i0 o0 o1 o2 n0 d0 d1 d2 x in ({| num := [n0]; den := [d0; d1; d2]; input := [I0]; output := [Q0; Q1; Q2] |}, y)).
  Proof. tie. Qed.

  Theorem tie_a_tf_zero_1x3 : forall i0 o0 o1 o2 n0 d0 d1 d2, 
    tf_zero O {| num := [n0]; den := [d0; d1; d2]; input := [i0]; output := [o0; o1; o2] |} = (let '(I0, Q0, Q1, Q2) := gen_a_tf_zero_ctx_num_n1_ctx_den_n3 O i0 o0 o1 o2 n0 d0 d1 d2 in {| num := [n0]; den := [d0; d1; d2]; input := [I0]; output := [Q0; Q1; Q2] |}).
  Proof. tie. Qed.

  Theorem tie_a_tf_iter_2x0 : forall i0 i1 n0 n1 x,
    tf_iter O {| num := [n0; n1]; den := []; input := [i0; i1]; output := [] |} x =
    (let '(I0, I1, y) := gen_a_tf_iter_ctx_num_n2_ctx_den_n0 O i0 i1 n0 n1 x in ({| num := [n0; n1]; den := []; input := [I0; I1]; output := [] |}, y)).
  Proof. tie. Qed.

  Theorem tie_a_tf_zero_2x0 : forall i0 i1 n0 n1, 
    tf_zero O {| num := [n0; n1]; den := []; input := [i0; i1]; output := [] |} = (let '(I0, I1) := gen_a_tf_zero_ctx_num_n2_ctx_den_n0 O i0 i1 n0 n1 in {| num := [n0; n1]; den := []; input := [I0; I1]; output := [] |}).
  Proof. tie. Qed.

  Theorem tie_a_tf_iter_2x1 : forall i0 i1 o0 n0 n1 d0 x,
    tf_iter O {| num := [n0; n1]; den := [d0]; input := [i0; i1]; output := [o0] |} x =
    (let '(I0, I1, Q0, y) := gen_a_tf_iter_ctx_num_n2_ctx_den_n1 O i0 i1 o0 n0 n1 d0 x in ({| num := [n0; n1]; den := [d0]; input := [I0; I1]; output := [Q0] |}, y)).
  Proof. tie. Qed.

  Theorem tie_a_tf_zero_2x1 : forall i0 i1 o0 n0 n1 d0, 
    tf_zero O {| num := [n0; n1]; den := [d0]; input := [i0; i1]; output := [o0] |} = (let '(I0, I1, Q0) := gen_a_tf_zero_ctx_num_n2_ctx_den_n1 O i0 i1 o0 n0 n1 d0 in {| num := [n0; n1]; den := [d0]; input := [I0; I1]; output := [Q0] |}).
  Proof. tie. Qed.

  Theorem tie_a_tf_iter_2x2 : forall i0 i1 o0 o1 n0 n1 d0 d1 x,
    tf_iter O {| num := [n0; n1]; den := [d0; d1]; input := [i0; i1]; output := [o0; o1] |} x =
    (let '(I0, I1, Q0, Q1, y) := gen_a_tf_iter_ctx_num_n2_ctx_den_n2 O i0 i1 o0 o1 n0 n1 d0 d1 x in ({| num := [n0; n1]; den := [d0; d1]; input := [I0; I1]; output := [Q0; Q1] |}, y)).
  Proof. tie. Qed.

  Theorem tie_a_tf_zero_2x2 : forall i0 i1 o0 o1 n0 n1 d0 d1, 
    tf_zero O {| num := [n0; n1]; den := [d0; d1]; input := [i0; i1]; output := [o0; o1] |} = (let '(I0, I1, Q0, Q1) := gen_a_tf_zero_ctx_num_n2_ctx_den_n2 O i0 i1 o0 o1 n0 n1 d0 d1 in {| num := [n0; n1]; den := [d0; d1]; input := [I0; I1]; output := [Q0; Q1] |}).
  Proof. tie. Qed.

  Theorem tie_a_tf_iter_2x3 : forall i0 i1 o0 o1 o2 n0 n1 d0 d1 d2 x,
    tf_iter O {| num := [n0; n1]; den := [d0; d1; d2]; input := [i0; i1]; output := [o0; o1; o2] |} x =
    (let '(I0, I1, Q0, Q1, Q2, y) := gen_a_tf_iter_ctx_num_n2_ctx_den_n3 O i0 i1 o0 o1 o2 n0 n1 d0 d1 d2 x in ({| num := [n0; n1]; den := [d0; d1; d2]; input := [I0; I1]; output := [Q0; Q1; Q2] |}, y)).
  Proof. tie. Qed.

  Theorem tie_a_tf_zero_2x3 : forall i0 i1 o0 o1 o2 n0 n1 d0 d1 d2, 
    tf_zero O {| num := [n0; n1]; den := [d0; d1; d2]; input := [i0; i1]; output := [o0; o1; o2] |} = (let '(I0, I1, Q0, Q1, Q2) := gen_a_tf_zero_ctx_num_n2_ctx_den_n3 O i0 i1 o0 o1 o2 n0 n1 d0 d1 d2 in {| num := [n0; n1]; den := [d0; d1; d2]; input := [I0; I1]; output := [Q0; Q1; Q2] |}).
  Proof. tie. Qed.

  Theorem tie_a_tf_iter_3x0 : forall i0 i1 i2 n0 n1 n2 x,
    tf_iter O {| num := [n0; n1; n2]; den := []; input := [i0; i1; i2]; output := [] |} x =
    (let '(I0, I1, I2, y) := gen_a_tf_iter_ctx_num_n3_ctx_den_n0 O i0 i1 i2 n0 n1 n2 x in ({| num := [n0; n1; n2]; den := []; input := [I0; I1; I2]; output := [] |}, y)).
  Proof. tie. Qed.

  Theorem tie_a_tf_zero_3x0 : forall i0 i1 i2 n0 n1 n2, 
    tf_zero O {| num := [n0; n1; n2]; den := []; input := [i0; i1; i2]; output := [] |} = (let '(I0, I1, I2) := gen_a_tf_zero_ctx_num_n3_ctx_den_n0 O i0 i1 i2 n0 n1 n2 in {| num := [n0; n1; n2]; den := []; input := [I0; I1; I2]; output := [] |}).
  Proof. tie. Qed.

  Theorem tie_a_tf_iter_3x1 : forall i0 i1 i2 o0 n0 n1 n2 d0 x,
    tf_iter O {| num := [n0; n1; n2]; den := [d0]; input := [i0; i1; i2]; output := [o0] |} x =
    (let '(I0, I1, I2, Q0, y) := gen_a_tf_iter_ctx_num_n3_ctx_den_n1 O i0 i1 i2 o0 n0 n1 n2 d0 x in ({| num := [n0; n1; n2]; den := [d0]; input := [I0; I1; I2]; output := [Q0] |}, y)).
  Proof. tie. Qed.

  Theorem tie_a_tf_zero_3x1 : forall i0 i1 i2 o0 n0 n1 n2 d0, 
    tf_zero O {| num := [n0; n1; n2]; den := [d0]; input := [i0; i1; i2]; output := [o0] |} = (let '(I0, I1, I2, Q0) := gen_a_tf_zero_ctx_num_n3_ctx_den_n1 O i0 i1 i2 o0 n0 n1 n2 d0 in {| num := [n0; n1; n2]; den := [d0]; input := [I0; I1; I2]; output := [Q0] |}).
  Proof. tie. Qed.

  Theorem tie_a_tf_iter_3x2 : forall i0 i1 i2 o0 o1 n0 n1 n2 d0 d1 x,
    tf_iter O {| num := [n0; n1; n2]; den := [d0; d1]; input := [i0; i1; i2]; output := [o0; o1] |} x =
    (let '(I0, I1, I2, Q0, Q1, y) := gen_a_tf_iter_ctx_num_n3_ctx_den_n2 O i0 i1 i2 o0 o1 n0 n1 n2 d0 d1 x in ({| num := [n0; n1; n2]; den := [d0; d1]; input := [I0; I1; I2]; output := [Q0; Q1] |}, y)).
  Proof. tie. Qed.

  Theorem tie_a_tf_zero_3x2 : forall i0 i1 i2 o0 o1 n0 n1 n2 d0 d1, 
    tf_zero O {| num := [n0; n1; n2]; den := [d0; d1]; input := [i0; i1; i2]; output := [o0; o1] |} = (let '(I0, I1, I2, Q0, Q1) := gen_a_tf_zero_ctx_num_n3_ctx_den_n2 O i0 i1 i2 o0 o1 n0 n1 n2 d0 d1 in {| num := [n0; n1; n2]; den := [d0; d1]; input := [I0; I1; I2]; output := [Q0; Q1] |}).
  Proof. tie. Qed.

  Theorem tie_a_tf_iter_3x3 : forall i0 i1 i2 o0 o1 o2 n0 n1 n2 d0 d1 d2 x,
    tf_iter O {| num := [n0; n1; n2]; den := [d0; d1; d2]; input := [i0; i1; i2]; output := [o0; o1; o2] |} x =
    (let '(I0, I1, I2, Q0, Q1, Q2, y) := gen_a_tf_iter_ctx_num_n3_ctx_den_n3 O i0 i1 i2 o0 o1 o2 n0 n1 n2 d0 d1 d2 x in ({| num := [n0; n1; n2]; den := [d0; d1; d2]; input := [I0; I1; I2]; output := [Q0; Q1; Q2] |}, y)).
  Proof. tie. Qed.

  Theorem tie_a_tf_zero_3x3 : forall i0 i1 i2 o0 o1 o2 n0 n1 n2 d0 d1 d2, 
    tf_zero O {| num := [n0; n1; n2]; den := [d0; d1; d2]; input := [i0; i1; i2]; output := [o0; o1; o2] |} = (let '(I0, I1, I2, Q0, Q1, Q2) := gen_a_tf_zero_ctx_num_n3_ctx_den_n3 O i0 i1 i2 o0 o1 o2 n0 n1 n2 d0 d1 d2 in {| num := [n0; n1; n2]; den := [d0; d1; d2]; input := [I0; I1; I2]; output := [Q0; Q1; Q2] |}).
  Proof. tie. Qed.
End Tie.

Theorem tie_law_zero_R : zero R_ops = ofZ R_ops 0.  Proof. reflexivity. Qed.
Theorem tie_law_zero_F64 : zero F64_ops = ofZ F64_ops 0.  Proof. vm_compute. reflexivity. Qed.
