(* Tie between the model REGENERATED from include/a/lpf.h and include/a/hpf.h by tools/c2coq.py (module Gen.GenRc) and the
   hand-written model C16/FilterDefs.v.  For every NumOps instance, by conversion. *)
From Coq Require Import ZArith Bool.
From LibaV Require Import Common.NumOps C16.FilterDefs.
From Gen Require Import GenRc.

Section Tie.
  Context {T : Type} (O : NumOps T).

  Theorem tie_a_lpf_gen : forall fc ts, gen_a_lpf_gen O fc ts = lpf_gen O fc ts.
  Proof. intros. reflexivity. Qed.

  Theorem tie_a_hpf_gen : forall fc ts, gen_a_hpf_gen O fc ts = hpf_gen O fc ts.
  Proof. intros. reflexivity. Qed.

  (* a_lpf_iter(ctx, x): result = (alpha, output', return value) *)
  Theorem tie_a_lpf_iter : forall alpha out x,
    gen_a_lpf_iter O alpha out x = (alpha, lpf_iter O alpha out x, lpf_iter O alpha out x).
  Proof. intros. reflexivity. Qed.

  (* a_hpf_iter(ctx, x): result = (alpha, output', input', return value) *)
  Theorem tie_a_hpf_iter : forall alpha out inp x,
    gen_a_hpf_iter O alpha out inp x =
    (alpha, fst (hpf_iter O alpha (out, inp) x), snd (hpf_iter O alpha (out, inp) x), fst (hpf_iter O alpha (out, inp) x)).
  Proof. intros. reflexivity. Qed.

  Theorem tie_a_lpf_zero : forall alpha out, gen_a_lpf_zero O alpha out = (alpha, ofZ O 0).
  Proof. intros. reflexivity. Qed.

  Theorem tie_a_hpf_zero : forall alpha out inp, gen_a_hpf_zero O alpha out inp = (alpha, ofZ O 0, ofZ O 0).
  Proof. intros. reflexivity. Qed.
End Tie.
