/* C10 harness: every function of a/complex.h on bit-pattern inputs.
   One input line:  <fn> <hex double>...   ->  one output line: the result components as binary64 bit patterns.
   Inputs and outputs travel as doubles; with A_SIZE_REAL=4 they are converted to/from float (the generated inputs are
   exactly representable).  The same source is built
     - with the libm substitutes linked in (--wrap) for the bit-exact structural tie, and
     - against the real libm for the accuracy tie. */
#include "a/complex.h"
#include "a/math.h"
#include "common/fharness.h"

static a_complex Z(int i) { a_complex z; z.real = (a_real)f_arg[i]; z.imag = (a_real)f_arg[i + 1]; return z; }
/* a_real results: one binary64 value; with A_SIZE_REAL=16 (long double) the value travels as the pair hi, lo of doubles
   with x = hi + lo exactly up to 106 bits, so that the accuracy oracle sees all 64 mantissa bits */
#if defined(A_SIZE_REAL) && (A_SIZE_REAL + 0 == 16)
static void putr(a_real x) { double hi = (double)x; put(hi); put(hi - hi == 0 ? (double)(x - (a_real)hi) : 0.0); }
#else
static void putr(a_real x) { put((double)x); }
#endif
static void putc2(a_complex z) { putr(z.real); putr(z.imag); }

#define C1(NAME) \
    if (!strcmp(f_fn, #NAME)) { a_complex c; c.real = 777; c.imag = 777; a_complex_##NAME(&c, Z(0)); putc2(c); ok = 1; } \
    else if (!strcmp(f_fn, #NAME "_")) { a_complex c = Z(0); a_complex_##NAME##_(&c); putc2(c); ok = 1; }
#define C2(NAME) \
    if (!strcmp(f_fn, #NAME)) { a_complex c; c.real = 777; c.imag = 777; a_complex_##NAME(&c, Z(0), Z(2)); putc2(c); ok = 1; } \
    else if (!strcmp(f_fn, #NAME "_")) { a_complex c = Z(0); a_complex_##NAME##_(&c, Z(2)); putc2(c); ok = 1; }
#define CR(NAME) \
    if (!strcmp(f_fn, #NAME)) { a_complex c; c.real = 777; c.imag = 777; a_complex_##NAME(&c, Z(0), (a_real)f_arg[2]); putc2(c); ok = 1; } \
    else if (!strcmp(f_fn, #NAME "_")) { a_complex c = Z(0); a_complex_##NAME##_(&c, (a_real)f_arg[2]); putc2(c); ok = 1; }
#define RC(NAME) \
    if (!strcmp(f_fn, #NAME)) { a_complex c; c.real = 777; c.imag = 777; a_complex_##NAME(&c, (a_real)f_arg[0]); putc2(c); ok = 1; }
#define R1(NAME) \
    if (!strcmp(f_fn, #NAME)) { putr(a_complex_##NAME(Z(0))); ok = 1; }

int main(void)
{
    static char line[1 << 12];
    while (fgets(line, sizeof(line), stdin))
    {
        int ok = 0;
        if (!f_read(line)) { continue; }
        if (!strcmp(f_fn, "polar")) { a_complex c; a_complex_polar(&c, (a_real)f_arg[0], (a_real)f_arg[1]); putc2(c); ok = 1; }
        if (!strcmp(f_fn, "rect")) { a_complex c; a_complex_rect(&c, (a_real)f_arg[0], (a_real)f_arg[1]); putc2(c); ok = 1; }
        if (!strcmp(f_fn, "const"))
        { /* the constants complex.c uses, as the compiler converts them */
            put((double)A_REAL_SQRT1_2); put((double)A_REAL_PI); put((double)A_REAL_PI_2);
            put((double)A_REAL_LN1_2); put((double)A_REAL_LN1_10); ok = 1;
        }
        R1(logabs) R1(abs2) R1(abs) R1(arg)
        C1(conj) C1(neg) C1(inv) C1(proj)
        C2(add) C2(sub) C2(mul) C2(div) C2(pow) C2(logb)
        CR(add_real) CR(add_imag) CR(sub_real) CR(sub_imag) CR(mul_real) CR(mul_imag) CR(div_real) CR(div_imag) CR(pow_real)
        C1(sqrt) C1(exp) C1(log) C1(log2) C1(log10)
        C1(sin) C1(cos) C1(tan) C1(sec) C1(csc) C1(cot)
        C1(asin) C1(acos) C1(atan) C1(asec) C1(acsc) C1(acot)
        C1(sinh) C1(cosh) C1(tanh) C1(sech) C1(csch) C1(coth)
        C1(asinh) C1(acosh) C1(atanh) C1(asech) C1(acsch) C1(acoth)
        RC(sqrt_real) RC(asin_real) RC(acos_real) RC(asec_real) RC(acsc_real) RC(acosh_real) RC(atanh_real)
        /* documented inverse pairs, composed on the C side (accuracy tie only) */
        if (!strcmp(f_fn, "exp_log")) { a_complex c; a_complex_log(&c, Z(0)); a_complex_exp(&c, c); putc2(c); ok = 1; }
        if (!strcmp(f_fn, "log_exp")) { a_complex c; a_complex_exp(&c, Z(0)); a_complex_log(&c, c); putc2(c); ok = 1; }
        if (!strcmp(f_fn, "inv_inv")) { a_complex c; a_complex_inv(&c, Z(0)); a_complex_inv(&c, c); putc2(c); ok = 1; }
        if (!strcmp(f_fn, "sqrt_sqr")) { a_complex c; a_complex_sqrt(&c, Z(0)); a_complex_mul(&c, c, c); putc2(c); ok = 1; }
        if (!strcmp(f_fn, "mul_div_real")) { a_complex c; a_complex_mul_real(&c, Z(0), (a_real)f_arg[2]); a_complex_div_real(&c, c, (a_real)f_arg[2]); putc2(c); ok = 1; }
        if (!strcmp(f_fn, "div_mul_real")) { a_complex c; a_complex_div_real(&c, Z(0), (a_real)f_arg[2]); a_complex_mul_real(&c, c, (a_real)f_arg[2]); putc2(c); ok = 1; }
        if (!strcmp(f_fn, "mul_div_imag")) { a_complex c; a_complex_mul_imag(&c, Z(0), (a_real)f_arg[2]); a_complex_div_imag(&c, c, (a_real)f_arg[2]); putc2(c); ok = 1; }
        if (!strcmp(f_fn, "div_mul_imag")) { a_complex c = Z(0); a_complex_div_imag_(&c, (a_real)f_arg[2]); a_complex_mul_imag_(&c, (a_real)f_arg[2]); putc2(c); ok = 1; }
        if (!ok) { printf(" unknown:%s", f_fn); }
        printf("\n");
    }
    return 0;
}
