#!/usr/bin/env python3
"""One-off helper that WROTE harness/C10/TieCx.v (since split by hand into TieCx01..10.v, compiled in parallel) (kept for the record; the tie file itself is a committed, static
statement list that coqc re-checks on every run against the regenerated Gen.GenCx)."""
import sys
sys.path.insert(0, "/verif/tools")
import c2coq

CFG = sys.argv[1]
UN = "sqrt exp log log2 log10 sin cos tan sec csc cot asin acos atan asec acsc acot sinh cosh tanh sech csch coth asinh acosh atanh asech acsch acoth conj neg inv".split()
HAND1 = {"sqrt": "csqrt_", "exp": "cexp_", "log": "clog_", "log2": "log2_", "log10": "log10_", "sin": "csin_", "cos": "ccos_",
         "tan": "ctan_", "sec": "sec_", "csc": "csc_", "cot": "cot_", "asin": "casin_", "acos": "cacos_", "atan": "catan_",
         "asec": "asec_", "acsc": "acsc_", "acot": "acot_", "sinh": "csinh_", "cosh": "ccosh_", "tanh": "ctanh_", "sech": "sech_",
         "csch": "csch_", "coth": "coth_", "asinh": "casinh_", "acosh": "cacosh_", "atanh": "catanh_", "asech": "asech_",
         "acsch": "acsch_", "acoth": "acoth_", "conj": "conj", "neg": "neg", "inv": "inv_"}
BIN = {"add": "cadd", "sub": "csub", "mul": "mul_", "div": "div_", "pow": "cpow_", "logb": "logb_"}
SC = ["add_real", "add_imag", "sub_real", "sub_imag", "mul_real", "mul_imag", "div_real", "div_imag", "pow_real"]
HSC = {k: k for k in SC}
HSC["pow_real"] = "pow_real_"
RC = ["sqrt_real", "asin_real", "acos_real", "asec_real", "acsc_real", "acosh_real", "atanh_real"]
names = []
for u in UN:
    names += ["a_complex_%s_" % u, "a_complex_%s" % u]
for b in BIN:
    names += ["a_complex_%s_" % b, "a_complex_%s" % b]
for s in SC:
    names += ["a_complex_%s_" % s, "a_complex_%s" % s]
names += ["a_complex_%s" % r for r in RC] + ["a_complex_polar", "a_complex_logabs", "a_complex_abs2", "a_complex_abs", "a_complex_arg",
                                             "a_complex_eq", "a_complex_ne"]
t, sigs, errs = c2coq.translate_file("/repo/src/complex.c", "/repo/include", CFG, names, externs={"acosh": 1, "atanh": 1, "asinh": 1})
assert not errs, errs
out = []
w = out.append
w("""(* Tie between the model REGENERATED from src/complex.c and include/a/complex.h by tools/c2coq.py (module Gen.GenCx,
   rewritten on every run; configuration: every A_HAVE_C* switch off, so that every fallback body is the code that is
   translated; the real helpers a_real_hypot/atan2/log1p/acosh/atanh bound to libm) and the hand-written model
   C10/CxDefs.v about which the theorems of Properties_C10.v are proved.  Each statement holds for EVERY NumOps instance
   (reals and binary64 alike) and every interpretation xacosh/xatanh of the two libm functions NumOps has no name for;
   the ExtOps record is the one whose constants are the binary64 values of the literals of a/math.h (E_lit) and the
   Binding is the one with all switches off (B_off).  A change of complex.c / complex.h that alters a formula, a
   constant, a branch condition or the function a wrapper forwards to breaks one of these. *)
From Coq Require Import ZArith Bool.
From LibaV Require Import Common.NumOps C10.CxDefs.
From Gen Require Import GenCx.

Section Tie.
  Context {T : Type} (O : NumOps T) (xacosh xatanh : T -> T).

  Definition E_lit : ExtOps T := {|
    x_atan2 := fn2 O Atan2; x_acosh := xacosh; x_atanh := xatanh; x_pow := fn2 O Pow;
    k_sqrt1_2 := ofD O SQRT1_2_m SQRT1_2_e; k_pi := ofD O PI_m PI_e; k_pi_2 := ofD O PI_2_m PI_2_e;
    k_ln1_2 := ofD O LN1_2_m LN1_2_e; k_ln1_10 := ofD O LN1_10_m LN1_10_e |}.
  Definition B_off : Binding T := {| have := fun _ => false; lib1c := fun _ z => z; lib_cpow := fun z _ => z |}.

  Ltac tie := intros; cbv delta -[add sub mul div opp abs sqrt ltb leb eqb ofZ ofD fn1 fn2 negb andb orb] beta iota zeta;
              repeat (match goal with |- context [if ?c then _ else _] => destruct c end; cbn [negb andb orb fst snd]);
              reflexivity.
""")


def ext_args(nm):
    return " ".join({"acosh": "xacosh", "atanh": "xatanh"}[e] for e in sigs[nm]["externs"])


def stmt(nm, binders_desc, rhs):
    sig = sigs[nm]
    nb = len(sig["binders"])
    vs = binders_desc
    assert len(vs) == nb, (nm, vs, sig["binders"])
    uniq = []
    for v in vs:
        if v not in uniq:
            uniq.append(v)
    e = ext_args(nm)
    w("  Theorem tie_%s : forall %s,\n    gen_%s O %s%s = %s.\n  Proof. tie. Qed.\n" % (
        nm, " ".join(uniq), nm, (e + " ") if e else "", " ".join(vs), rhs))


ARGS = {'csqrt_': 'EB', 'cexp_': 'B', 'clog_': 'EB', 'log2_': 'EB', 'log10_': 'EB', 'csin_': 'B', 'ccos_': 'B', 'ctan_': 'EB', 'sec_': 'B', 'csc_': 'B', 'cot_': 'EB', 'casin_': 'EB', 'cacos_': 'EB', 'catan_': 'EB', 'asec_': 'EB', 'acsc_': 'EB', 'acot_': 'EB', 'csinh_': 'B', 'ccosh_': 'B', 'ctanh_': 'EB', 'sech_': 'B', 'csch_': 'B', 'coth_': 'EB', 'casinh_': 'EB', 'cacosh_': 'EB', 'catanh_': 'EB', 'asech_': 'EB', 'acsch_': 'EB', 'acoth_': 'EB', 'conj': '', 'neg': '', 'inv_': '', 'cadd': '', 'csub': '', 'mul_': '', 'div_': '', 'cpow_': 'EB', 'logb_': 'EB', 'add_real': '', 'add_imag': '', 'sub_real': '', 'sub_imag': '', 'mul_real': '', 'mul_imag': '', 'div_real': '', 'div_imag': '', 'pow_real_': 'E', 'sqrt_real': '', 'asin_real': 'E', 'acos_real': 'E', 'asec_real': 'E', 'acsc_real': 'E', 'acosh_real': 'E', 'atanh_real': 'E', 'polar': '', 'logabs': '', 'abs2': '', 'cabs': '', 'arg': 'E'}
H = lambda f: "%s O%s%s" % (f, " E_lit" if "E" in ARGS[f] else "", " B_off" if "B" in ARGS[f] else "")
for u in UN:
    h = HAND1[u]
    stmt("a_complex_%s_" % u, ["cr", "ci"], "%s (cr, ci)" % H(h))
    stmt("a_complex_%s" % u, ["cr", "ci", "zr", "zi"], "%s (zr, zi)" % H(h))
for b, h in BIN.items():
    stmt("a_complex_%s_" % b, ["cr", "ci", "zr", "zi"], "%s (cr, ci) (zr, zi)" % H(h))
    stmt("a_complex_%s" % b, ["cr", "ci", "xr", "xi", "yr", "yi"], "%s (xr, xi) (yr, yi)" % H(h))
for s in SC:
    stmt("a_complex_%s_" % s, ["cr", "ci", "y"], "%s (cr, ci) y" % H(HSC[s]))
    stmt("a_complex_%s" % s, ["cr", "ci", "xr", "xi", "y"], "%s (xr, xi) y" % H(HSC[s]))
for r in RC:
    stmt("a_complex_%s" % r, ["cr", "ci", "x"], "%s x" % H(r))
stmt("a_complex_polar", ["cr", "ci", "rho", "theta"], "%s rho theta" % H("polar"))
stmt("a_complex_logabs", ["zr", "zi"], "%s (zr, zi)" % H("logabs"))
stmt("a_complex_abs2", ["zr", "zi"], "%s (zr, zi)" % H("abs2"))
stmt("a_complex_abs", ["zr", "zi"], "%s (zr, zi)" % H("cabs"))
stmt("a_complex_arg", ["zr", "zi"], "%s (zr, zi)" % H("arg"))
stmt("a_complex_eq", ["xr", "xi", "yr", "yi"], "andb (eqb O xr yr) (eqb O xi yi)")
stmt("a_complex_ne", ["xr", "xi", "yr", "yi"], "orb (negb (eqb O xr yr)) (negb (eqb O xi yi))")
w("End Tie.")
open(sys.argv[2], "w").write("\n".join(out) + "\n")
open(sys.argv[3], "w").write(c2coq.HEADER + t)
print(len(names), "functions")
