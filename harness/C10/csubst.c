/* Substitutes for the libm entry points that harness/common/libm_subst.c does not cover, used only by the bit-exact
   structural tie of C10 (linked with -Wl,--wrap=<fn>).  C twins of x_acosh/x_atanh and csub1/csub2 in
   coq/C10/CxDefs.v: arbitrary fixed functions made of IEEE basic operations, NOT approximations of the real functions. */
#include <complex.h>
static double sub1(double k, double x) { return (x * k + 0x1.8p-1) / (x * x + 0x1.4p+0) + k; }
static double sub2(double k, double x, double y) { return (x * k + y) / (x * x + y * y + 0x1.4p+0) + k * y; }
double __wrap_acosh(double x) { return sub1(0x1.f1p+0, x); }
double __wrap_atanh(double x) { return sub1(0x1.f2p+0, x); }
double __wrap_asinh(double x) { return sub1(0x1.f3p+0, x); }
static double _Complex mk(double re, double im) { double _Complex r; __real__ r = re; __imag__ r = im; return r; }
static double _Complex csub1(double k, double _Complex z)
{
    double x = __real__ z, y = __imag__ z;
    return mk(sub2(k, x, y), sub2(k + 0x1p-4, y, x));
}
double _Complex __wrap_csqrt(double _Complex z) { return csub1(0x1.01p+1, z); }
double _Complex __wrap_cexp(double _Complex z) { return csub1(0x1.02p+1, z); }
double _Complex __wrap_clog(double _Complex z) { return csub1(0x1.03p+1, z); }
double _Complex __wrap_csin(double _Complex z) { return csub1(0x1.04p+1, z); }
double _Complex __wrap_ccos(double _Complex z) { return csub1(0x1.05p+1, z); }
double _Complex __wrap_ctan(double _Complex z) { return csub1(0x1.06p+1, z); }
double _Complex __wrap_csinh(double _Complex z) { return csub1(0x1.07p+1, z); }
double _Complex __wrap_ccosh(double _Complex z) { return csub1(0x1.08p+1, z); }
double _Complex __wrap_ctanh(double _Complex z) { return csub1(0x1.09p+1, z); }
double _Complex __wrap_casin(double _Complex z) { return csub1(0x1.0ap+1, z); }
double _Complex __wrap_cacos(double _Complex z) { return csub1(0x1.0bp+1, z); }
double _Complex __wrap_catan(double _Complex z) { return csub1(0x1.0cp+1, z); }
double _Complex __wrap_casinh(double _Complex z) { return csub1(0x1.0dp+1, z); }
double _Complex __wrap_cacosh(double _Complex z) { return csub1(0x1.0ep+1, z); }
double _Complex __wrap_catanh(double _Complex z) { return csub1(0x1.0fp+1, z); }
double _Complex __wrap_cpow(double _Complex z, double _Complex a)
{
    double x = __real__ z, y = __imag__ z, u = __real__ a, v = __imag__ a;
    return mk(sub2(0x1.1p+1, sub2(0x1.11p+1, x, y), sub2(0x1.12p+1, u, v)),
              sub2(0x1.13p+1, sub2(0x1.14p+1, y, u), sub2(0x1.15p+1, v, x)));
}
