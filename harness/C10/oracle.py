#!/usr/bin/env python3-vt
"""C10 accuracy oracle (run with the tooling interpreter python3-vt: needs mpmath).

The property itself, executable: for one evaluation of a function of a/complex.h on the C side, decide whether the
returned value is the principal value of the mathematical function to within  K * eps * max(1, cond) * |exact|
(normwise: modulus of the complex error), where cond is the condition number of the function at the point.

stdin : one line per evaluation   <real 4|8|16> <K> <fn> <args as hex binary64> : <outputs as hex binary64 | nan>
stdout: one line per evaluation   ok <err/tol>  |  FAIL <err in units of eps*|exact|> <cond> <exact re> <exact im>
                                  |  skip <reason>
On a branch cut (all cuts of these functions lie on the axes) either one-sided limit is accepted: the reference is
evaluated at the point and at the point rotated by +-1e-25 rad.  Poles / overflowing / underflowing references are skipped.
"""
import struct
import sys

import mpmath as mp

mp.mp.dps = 45
DELTA = mp.mpf(10) ** -25
ROT = [mp.mpc(1, 0), mp.mpc(1, DELTA), mp.mpc(1, -DELTA)]
I = mp.mpc(0, 1)
LN2 = mp.log(2)
LN10 = mp.log(10)


def val(h):
    if h == "nan":
        return mp.nan
    d = struct.unpack("<d", struct.pack("<Q", int(h, 16)))[0]
    return mp.mpf(d)


def inv(z):
    return 1 / z


# name -> (f, |f'|-style condition function cond(z, fz))   unary complex -> complex
def sq1(z):   # sqrt(1 - z^2) with no regard for branch: only the modulus is used
    return mp.sqrt(1 - z * z)


UN = {
    "conj": (mp.conj, lambda z, w: 1),
    "neg": (lambda z: -z, lambda z, w: 1),
    "inv": (inv, lambda z, w: 1),
    "proj": (lambda z: z, lambda z, w: 1),          # cproj is the identity on finite values
    "sqrt": (mp.sqrt, lambda z, w: mp.mpf(1) / 2),
    "exp": (mp.exp, lambda z, w: abs(z)),
    "log": (mp.log, lambda z, w: 1 / abs(w)),
    "log2": (lambda z: mp.log(z) / LN2, lambda z, w: 1 / abs(w * LN2)),
    "log10": (lambda z: mp.log(z) / LN10, lambda z, w: 1 / abs(w * LN10)),
    "sin": (mp.sin, lambda z, w: abs(z * mp.cos(z) / w)),
    "cos": (mp.cos, lambda z, w: abs(z * mp.sin(z) / w)),
    "tan": (mp.tan, lambda z, w: abs(z / (mp.cos(z) ** 2 * w))),
    "sec": (mp.sec, lambda z, w: abs(z * mp.tan(z))),
    "csc": (mp.csc, lambda z, w: abs(z * mp.cot(z))),
    "cot": (mp.cot, lambda z, w: abs(z / (mp.sin(z) ** 2 * w))),
    "asin": (mp.asin, lambda z, w: abs(z / (sq1(z) * w))),
    "acos": (mp.acos, lambda z, w: abs(z / (sq1(z) * w))),
    "atan": (mp.atan, lambda z, w: abs(z / ((1 + z * z) * w))),
    "asec": (lambda z: mp.acos(1 / z), lambda z, w: abs(1 / (z * sq1(1 / z) * w))),
    "acsc": (lambda z: mp.asin(1 / z), lambda z, w: abs(1 / (z * sq1(1 / z) * w))),
    "acot": (lambda z: mp.atan(1 / z), lambda z, w: abs(z / ((1 + z * z) * w))),
    "sinh": (mp.sinh, lambda z, w: abs(z * mp.cosh(z) / w)),
    "cosh": (mp.cosh, lambda z, w: abs(z * mp.sinh(z) / w)),
    "tanh": (mp.tanh, lambda z, w: abs(z / (mp.cosh(z) ** 2 * w))),
    "sech": (mp.sech, lambda z, w: abs(z * mp.tanh(z))),
    "csch": (mp.csch, lambda z, w: abs(z * mp.coth(z))),
    "coth": (mp.coth, lambda z, w: abs(z / (mp.sinh(z) ** 2 * w))),
    "asinh": (mp.asinh, lambda z, w: abs(z / (mp.sqrt(1 + z * z) * w))),
    "acosh": (mp.acosh, lambda z, w: abs(z / (mp.sqrt(z - 1) * mp.sqrt(z + 1) * w))),
    "atanh": (mp.atanh, lambda z, w: abs(z / ((1 - z * z) * w))),
    "asech": (lambda z: mp.acosh(1 / z), lambda z, w: abs(1 / (z * mp.sqrt(1 / z - 1) * mp.sqrt(1 / z + 1) * w))),
    "acsch": (lambda z: mp.asinh(1 / z), lambda z, w: abs(1 / (z * mp.sqrt(1 + 1 / (z * z)) * w))),
    "acoth": (lambda z: mp.atanh(1 / z), lambda z, w: abs(z / ((1 - z * z) * w))),
    # documented inverse pairs composed on the C side: the exact result is the argument; the tolerance is the sum of the
    # two stages, 2K eps max(1, amplification of the first stage's error by the second)
    "exp_log": (lambda z: z, lambda z, w: max(1, abs(mp.log(z)))),          # exp(log z)
    "log_exp": (lambda z: z, lambda z, w: max(1, 1 / abs(z))),              # log(exp z), -pi < Im z <= pi
    "inv_inv": (lambda z: z, lambda z, w: 1),
    "sqrt_sqr": (lambda z: z, lambda z, w: 1),                              # sqrt(z)*sqrt(z)
}
PAIR = {"exp_log", "log_exp", "inv_inv", "sqrt_sqr", "mul_div_real", "div_mul_real", "mul_div_imag", "div_mul_imag"}

# complex -> real
R1 = {
    "logabs": (lambda z: mp.log(abs(z)), lambda z, w: 1 / abs(w)),
    "abs2": (lambda z: z.real ** 2 + z.imag ** 2, lambda z, w: 2),
    "abs": (abs, lambda z, w: 1),
    "arg": (lambda z: mp.arg(z) if z != 0 else mp.mpf(0), lambda z, w: 1 / abs(w)),
}

# (complex, complex) -> complex : cond = sum of the two partial condition numbers
C2 = {
    "add": (lambda z, a: z + a, lambda z, a, w: (abs(z) + abs(a)) / abs(w)),
    "sub": (lambda z, a: z - a, lambda z, a, w: (abs(z) + abs(a)) / abs(w)),
    "mul": (lambda z, a: z * a, lambda z, a, w: 2),
    "div": (lambda z, a: z / a, lambda z, a, w: 2),
    "pow": (lambda z, a: mp.power(z, a) if z != 0 else (mp.mpc(1) if a == 0 else mp.mpc(0)),
            lambda z, a, w: abs(a) + abs(a * mp.log(z))),
    "logb": (lambda z, b: mp.log(z) / mp.log(b), lambda z, b, w: 1 / abs(mp.log(z)) + 1 / abs(mp.log(b))),
}

# (complex, real) -> complex
CR = {
    "add_real": (lambda z, y: z + y, lambda z, y, w: (abs(z) + abs(y)) / abs(w)),
    "add_imag": (lambda z, y: z + I * y, lambda z, y, w: (abs(z) + abs(y)) / abs(w)),
    "sub_real": (lambda z, y: z - y, lambda z, y, w: (abs(z) + abs(y)) / abs(w)),
    "sub_imag": (lambda z, y: z - I * y, lambda z, y, w: (abs(z) + abs(y)) / abs(w)),
    "mul_real": (lambda z, y: z * y, lambda z, y, w: 2),
    "mul_imag": (lambda z, y: z * (I * y), lambda z, y, w: 2),
    "div_real": (lambda z, y: z / y, lambda z, y, w: 2),
    "div_imag": (lambda z, y: z / (I * y), lambda z, y, w: 2),
    "pow_real": (lambda z, a: mp.power(z, a) if z != 0 else (mp.mpc(1) if a == 0 else mp.mpc(0)),
                 lambda z, a, w: abs(a) + abs(a * mp.log(z))),
    "mul_div_real": (lambda z, y: z, lambda z, y, w: 1),
    "div_mul_real": (lambda z, y: z, lambda z, y, w: 1),
    "mul_div_imag": (lambda z, y: z, lambda z, y, w: 1),
    "div_mul_imag": (lambda z, y: z, lambda z, y, w: 1),
}

# real -> complex : the real-argument variants equal the complex function on the real axis (either side of a cut)
RC = {
    "sqrt_real": "sqrt", "asin_real": "asin", "acos_real": "acos", "asec_real": "asec", "acsc_real": "acsc",
    "acosh_real": "acosh", "atanh_real": "atanh",
}


def refs(fn, a):
    """list of (exact value, cond) candidates: the point itself and both sides of a possible cut."""
    out = []
    base = fn[:-1] if fn.endswith("_") else fn
    if base in RC:
        f, c = UN[RC[base]]
        for r in ROT:
            z = mp.mpc(a[0], 0) * r
            w = f(z)
            out.append((w, c(z, w) if w != 0 else 0))
    elif base in UN:
        f, c = UN[base]
        z0 = mp.mpc(a[0], a[1])
        for r in ROT:
            z = z0 * r
            w = f(z)
            out.append((w, c(z, w) if w != 0 else 0))
    elif base in R1:
        f, c = R1[base]
        z0 = mp.mpc(a[0], a[1])
        for r in ROT:
            z = z0 * r
            w = f(z)
            out.append((mp.mpc(w, 0), c(z, w) if w != 0 else 0))
    elif base in C2:
        f, c = C2[base]
        z0, a0 = mp.mpc(a[0], a[1]), mp.mpc(a[2], a[3])
        for r in ROT:
            for q in (ROT if base in ("logb",) else ROT[:1]):
                z, b = z0 * r, a0 * q
                w = f(z, b)
                out.append((w, c(z, b, w) if w != 0 else 0))
    elif base in CR:
        f, c = CR[base]
        z0, y = mp.mpc(a[0], a[1]), a[2]
        for r in ROT:
            z = z0 * r
            w = f(z, y)
            out.append((w, c(z, y, w) if w != 0 else 0))
    elif base == "polar":
        w = mp.mpc(a[0] * mp.cos(a[1]), a[0] * mp.sin(a[1]))
        # rho*cos(theta), rho*sin(theta): componentwise the condition is theta*tan / theta*cot; normwise it is |theta|
        out.append((w, 1 + abs(a[1])))
    elif base == "rect":
        out.append((mp.mpc(a[0], a[1]), 1))
    else:
        raise KeyError(fn)
    return out


def judge(real, K, fn, a, o):
    # real == 16: x87 extended precision (64-bit mantissa); arguments and the printed hi/lo pairs are binary64 values, so the
    # range limits of binary64 are kept for the skip rules
    eps = mp.mpf(2) ** {8: -52, 4: -23, 16: -63}[real]
    big = mp.mpf(2) ** (127 if real == 4 else 1023)
    tiny = mp.mpf(2) ** (-149 if real == 4 else -1074)
    small = mp.mpf(2) ** (-126 if real == 4 else -1022)
    try:
        cands = refs(fn, a)
    except (ZeroDivisionError, ValueError, OverflowError):
        return "skip pole"
    best = None
    for w, cond in cands:
        if not (mp.isfinite(w.real) and mp.isfinite(w.imag)) or not mp.isfinite(cond):
            return "skip pole"
        if abs(w) > big / 4:
            return "skip overflow"
        if 0 < abs(w) < small * 4:
            return "skip underflow"
        if any(mp.isnan(v) for v in o):
            err = mp.inf
        else:
            got = mp.mpc(o[0], o[1] if len(o) > 1 else 0)
            err = abs(got - w)
        mult = 2 if (fn[:-1] if fn.endswith("_") else fn) in PAIR else 1
        tol = mult * K * eps * max(1, cond) * abs(w) + 4 * tiny
        q = err / tol
        if best is None or q < best[0]:
            best = (q, err, w, cond)
    q, err, w, cond = best
    if q <= 1:
        return "ok %s" % mp.nstr(q, 4)
    rel = err / (eps * abs(w)) if w != 0 else mp.inf
    return "FAIL %s %s %s %s" % (mp.nstr(rel, 6), mp.nstr(cond, 6), mp.nstr(w.real, 20), mp.nstr(w.imag, 20))


def main():
    for ln in sys.stdin:
        t = ln.split()
        if not t:
            continue
        try:
            k = t.index(":")
            real, K, fn = int(t[0]), mp.mpf(t[1]), t[2]
            a = [val(h) for h in t[3:k]]
            o = [val(h) for h in t[k + 1:]]
            if real == 16:          # hi/lo pairs
                o = [o[i] + o[i + 1] for i in range(0, len(o) - 1, 2)]
            if any(not mp.isfinite(v) for v in a):
                print("skip nonfinite-argument")
                continue
            print(judge(real, K, fn, a, o))
        except Exception as ex:  # an oracle crash must not look like a pass
            print("error %s: %s" % (type(ex).__name__, str(ex)[:100]))
        sys.stdout.flush()


if __name__ == "__main__":
    main()
