(* Tie between the model REGENERATED from src/complex.c and include/a/complex.h by tools/c2coq.py (module Gen.GenCx,
   rewritten on every run; configuration: every A_HAVE_C* switch off, so that every fallback body is the code that is
   translated; the real helpers a_real_hypot/atan2/log1p/acosh/atanh bound to libm) and the hand-written model
   C10/CxDefs.v about which the theorems of Properties_C10.v are proved.  Each statement holds for EVERY NumOps instance
   (reals and binary64 alike) and every interpretation xacosh/xatanh of the two libm functions NumOps has no name for;
   the ExtOps record is the one whose constants are the binary64 values of the literals of a/math.h (E_lit) and the
   Binding is the one with all switches off (B_off).  A change of complex.c / complex.h that alters a formula, a
   constant, a branch condition or the function a wrapper forwards to breaks one of these. *)
From Coq Require Import ZArith Bool.
From LibaV Require Import Common.NumOps Common.ROps Common.FloatOps C10.CxDefs.
From Gen Require Import GenCx.

Section Tie.
  Context {T : Type} (O : NumOps T) (xacosh xatanh : T -> T).

  (* the one law of the instance the ties need: the C literal -1 (an int negated, then converted) is written `- #1` in
     the hand model and `ofZ (-1)` by the translator; both instances satisfy it (end of this file) *)
  Hypothesis ofZ_m1 : ofZ O (-1) = opp O (ofZ O 1).

  Definition E_lit : ExtOps T := {|
    x_atan2 := fn2 O Atan2; x_acosh := xacosh; x_atanh := xatanh; x_pow := fn2 O Pow;
    k_sqrt1_2 := ofD O SQRT1_2_m SQRT1_2_e; k_pi := ofD O PI_m PI_e; k_pi_2 := ofD O PI_2_m PI_2_e;
    k_ln1_2 := ofD O LN1_2_m LN1_2_e; k_ln1_10 := ofD O LN1_10_m LN1_10_e |}.
  Definition B_off : Binding T := {| have := fun _ => false; lib1c := fun _ z => z; lib_cpow := fun z _ => z |}.

  Ltac tie := intros; cbv delta -[add sub mul div opp abs sqrt ltb leb eqb ofZ ofD fn1 fn2 negb andb orb] beta iota zeta; rewrite ?ofZ_m1;
              repeat (match goal with |- context [if ?c then _ else _] => destruct c end; cbn [negb andb orb fst snd]);
              reflexivity.

  Theorem tie_a_complex_proj_ : forall cr ci,
    gen_a_complex_proj_ O cr ci = proj_ O (cr, ci).
  Proof. tie. Qed.

  Theorem tie_a_complex_proj : forall cr ci zr zi,
    gen_a_complex_proj O cr ci zr zi = proj_ O (zr, zi).
  Proof. tie. Qed.

End Tie.
