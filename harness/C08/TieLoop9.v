(* All-orders translator tie of C08, part 9: the routines of src/linalg_plu.c that use the permutation - a_real_plu_P, plu_P_, plu_apply,
   plu_solve, plu_inv (with its scratch vector), plu_inv_ - and the determinant signs a_real_plu_sgndet, a_real_ldl_sgndet.
   Gen.GenLoop is regenerated on every run by tools/c2arr.py from the CURRENT sources.  The callees (plu_P, plu_apply, plu_lower(_),
   plu_upper(_)) are calls in the generated code and are rewritten with their own tie theorems (parts 2, 3 and this file).
   `int sign` is carried in Z; `sign = -sign` is checked to be an int, hence the one hypothesis on sign below (INT_MIN has no negation:
   undefined behaviour in C, None in the generated code, while the model negates in Z).  The `break` on a zero diagonal entry returns
   at once in the generated code and is the sticky state (0, true) in the model's loop.
   For EVERY NumOps instance (through `adapt`), EVERY order n that is an a_uint value (U32), arrays of any length:
     tie_a_real_plu_P / plu_P_ / plu_apply / plu_solve / plu_inv / plu_inv_     generated = model
     tie_a_real_plu_sgndet    for |sign| < 2^31;     tie_a_real_ldl_sgndet    (sign starts at 1) *)
From Coq Require Import ZArith NArith List Bool Arith Lia.
From LibaV Require Import C09.LinalgSpec C09.LinalgLemmas C09.LoopTieLemmas C08.LoopTieLemmas.
From Gen Require Import GenLoop TieLoopBase TieLoop2 TieLoop3.
Import ListNotations.

Section Tie.
  Context {T : Type} (O : G.NumOps T).
  Local Notation A_ := (adapt O).
  Local Notation z := (G.ofZ O 0).
  Local Notation o := (G.ofZ O 1).

  (* ------------------------------------------------------------------------------------------------ a_real_plu_P, a_real_plu_P_ *)
  Definition P_cell (n r i : nat) (c : nat) (P : list T) : option (list T) := M.wr P (n * r + c) (if Nat.eqb c i then o else z).
  Definition P_cell_ (n r : nat) (p : list nat) (c : nat) (P : list T) : option (list T) :=
    match M.rd p c with Some pc => M.wr P (n * r + c) (if Nat.eqb pc r then o else z) | None => None end.

  Lemma plu_P_l2 (n r i : nat) (Hn : U32 n) : forall fg lo P, n - lo < fg ->   (* for tie_a_real_plu_P *)
    gen_a_real_plu_P_loop2 O fg n i P lo (n * r + lo) = omap (fun P : list T => (P, Nat.max lo n, n * r + Nat.max lo n)) (M.for_range lo n (P_cell n r i) P).
  Proof.
    for_simple (@gen_a_real_plu_P_loop2) (fun f c P => gen_a_real_plu_P_loop2 O f n i P c (n * r + c)) n (P_cell n r i) (fun (c : nat) (P : list T) => (P, c, n * r + c)).
  Qed.
  Lemma plu_P_l1 (n : nat) (p : list nat) (Hn : U32 n) : forall fg lo P, n - lo < fg ->   (* for tie_a_real_plu_P *)
    gen_a_real_plu_P_loop1 O fg n 0 p P lo (n * lo) =
    omap (fun P : list T => P) (M.for_range lo n (fun r P => match M.rd p r with Some i => M.for_range 0 n (P_cell n r i) P | None => None end) P).
  Proof.
    intros fg lo P Hf.
    refine (for_tie (fun f r P => gen_a_real_plu_P_loop1 O f n 0 p P r (n * r)) n _ (fun (_ : nat) (P : list T) => P) _ _ fg lo P Hf).
    - intros f r s Hr. cbn [gen_a_real_plu_P_loop1 Nat.add]. cond_true Hr. unfold M.rd. destruct (nth_error p r) as [i|]; [|reflexivity].
      pose proof (plu_P_l2 n r i Hn (S n) 0 s ltac:(lia)) as H. rewrite Nat.add_0_r in H. rewrite H. clear H.
      destruct (M.for_range 0 n (P_cell n r i) s) as [P1|]; cbn [omap]; [|reflexivity].
      repeat arith_step. rewrite Nat.add_1_r. replace (Nat.max 0 n) with n by lia. rewrite <- Nat.mul_succ_r. reflexivity.
    - intros f r s Hr. cbn [gen_a_real_plu_P_loop1]. cond_false Hr. reflexivity.
  Qed.
  Theorem tie_a_real_plu_P : forall (n : nat) (p : list nat) (P : list T), U32 n -> gen_a_real_plu_P O n p 0 P 0 = F.plu_P A_ n p P.
  Proof.
    intros n p P Hn. unfold gen_a_real_plu_P, F.plu_P.
    pose proof (plu_P_l1 n p Hn (S n) 0 P ltac:(lia)) as H. rewrite Nat.mul_0_r in H. rewrite H.
    destruct (M.for_range 0 n _ P); reflexivity.
  Qed.

  Lemma plu_P__l2 (n r : nat) (p : list nat) (Hn : U32 n) : forall fg lo P, n - lo < fg ->   (* for tie_a_real_plu_P_ *)
    gen_a_real_plu_P__loop2 O fg n 0 r p P lo (n * r + lo) = omap (fun P : list T => (P, Nat.max lo n, n * r + Nat.max lo n)) (M.for_range lo n (P_cell_ n r p) P).
  Proof.
    for_simple (@gen_a_real_plu_P__loop2) (fun f c P => gen_a_real_plu_P__loop2 O f n 0 r p P c (n * r + c)) n (P_cell_ n r p) (fun (c : nat) (P : list T) => (P, c, n * r + c)).
  Qed.
  Lemma plu_P__l1 (n : nat) (p : list nat) (Hn : U32 n) : forall fg lo P, n - lo < fg ->   (* for tie_a_real_plu_P_ *)
    gen_a_real_plu_P__loop1 O fg n 0 p P lo (n * lo) = omap (fun P : list T => P) (M.for_range lo n (fun r P => M.for_range 0 n (P_cell_ n r p) P) P).
  Proof.
    intros fg lo P Hf.
    refine (for_tie (fun f r P => gen_a_real_plu_P__loop1 O f n 0 p P r (n * r)) n _ (fun (_ : nat) (P : list T) => P) _ _ fg lo P Hf).
    - intros f r s Hr. cbn [gen_a_real_plu_P__loop1]. cond_true Hr.
      pose proof (plu_P__l2 n r p Hn (S n) 0 s ltac:(lia)) as H. rewrite Nat.add_0_r in H. rewrite H. clear H.
      destruct (M.for_range 0 n (P_cell_ n r p) s) as [P1|]; cbn [omap]; [|reflexivity].
      repeat arith_step. rewrite Nat.add_1_r. replace (Nat.max 0 n) with n by lia. rewrite <- Nat.mul_succ_r. reflexivity.
    - intros f r s Hr. cbn [gen_a_real_plu_P__loop1]. cond_false Hr. reflexivity.
  Qed.
  Theorem tie_a_real_plu_P_ : forall (n : nat) (p : list nat) (P : list T), U32 n -> gen_a_real_plu_P_ O n p 0 P 0 = F.plu_P_ A_ n p P.
  Proof.
    intros n p P Hn. unfold gen_a_real_plu_P_, F.plu_P_.
    pose proof (plu_P__l1 n p Hn (S n) 0 P ltac:(lia)) as H. rewrite Nat.mul_0_r in H. rewrite H.
    destruct (M.for_range 0 n _ P); reflexivity.
  Qed.

  (* ------------------------------------------------------------------------------------------------ a_real_plu_apply, a_real_plu_solve *)
  Lemma plu_apply_l1 (n : nat) (p : list nat) (b : list T) (Hn : U32 n) : forall fg lo Pb, n - lo < fg ->   (* for tie_a_real_plu_apply *)
    gen_a_real_plu_apply_loop1 O fg n 0 0 0 p b Pb lo =
    omap (fun Pb : list T => Pb) (M.for_range lo n (fun i Pb => match M.rd p i with Some pi => match M.rd b pi with Some v => M.wr Pb i v | None => None end | None => None end) Pb).
  Proof.
    for_simple (@gen_a_real_plu_apply_loop1) (fun f i Pb => gen_a_real_plu_apply_loop1 O f n 0 0 0 p b Pb i) n
      (fun i (Pb : list T) => match M.rd p i with Some pi => match M.rd b pi with Some v => M.wr Pb i v | None => None end | None => None end)
      (fun (_ : nat) (Pb : list T) => Pb).
  Qed.
  Theorem tie_a_real_plu_apply : forall (n : nat) (p : list nat) (b Pb : list T), U32 n -> gen_a_real_plu_apply O n p 0 b 0 Pb 0 = F.plu_apply n p b Pb.
  Proof.
    intros n p b Pb Hn. unfold gen_a_real_plu_apply, F.plu_apply. rewrite plu_apply_l1 by (first [lia | u32]).
    destruct (M.for_range 0 n _ Pb); reflexivity.
  Qed.
  Theorem tie_a_real_plu_solve : forall (n : nat) (A : list T) (p : list nat) (b x : list T), U32 n ->
    gen_a_real_plu_solve O n A 0 p 0 b 0 x 0 = F.plu_solve A_ n A p b x.
  Proof.
    intros n A p b x Hn. unfold gen_a_real_plu_solve, F.plu_solve. rewrite (tie_a_real_plu_apply n p b x Hn).
    destruct (F.plu_apply n p b x) as [x1|]; [|reflexivity]. rewrite (tie_a_real_plu_lower O n A x1 Hn).
    destruct (F.plu_lower A_ n A x1) as [x2|]; [|reflexivity]. apply tie_a_real_plu_upper. exact Hn.
  Qed.

  (* ------------------------------------------------------------------------------------------------ a_real_plu_inv, a_real_plu_inv_ *)
  Definition get_col9 (n c : nat) (X : list T) (r : nat) (b : list T) : option (list T) :=
    match M.rd X (c + n * r) with Some v => M.wr b r v | None => None end.
  Definition put_col9 (n c : nat) (b : list T) (r : nat) (X : list T) : option (list T) :=
    match M.rd b r with Some v => M.wr X (c + n * r) v | None => None end.

  Lemma plu_inv_l2 (n c : nat) (X : list T) (Hn : U32 n) : forall fg lo b, n - lo < fg ->   (* for tie_a_real_plu_inv *)
    gen_a_real_plu_inv_loop2 O fg n 0 c X b lo = omap (fun b : list T => (b, Nat.max lo n)) (M.for_range lo n (get_col9 n c X) b).
  Proof.
    for_simple (@gen_a_real_plu_inv_loop2) (fun f r b => gen_a_real_plu_inv_loop2 O f n 0 c X b r) n (get_col9 n c X) (fun (r : nat) (b : list T) => (b, r)).
  Qed.
  Lemma plu_inv_l3 (n c : nat) (b : list T) (Hn : U32 n) : forall fg lo X, n - lo < fg ->   (* for tie_a_real_plu_inv *)
    gen_a_real_plu_inv_loop3 O fg n c 0 b X lo = omap (fun X : list T => (X, Nat.max lo n)) (M.for_range lo n (put_col9 n c b) X).
  Proof.
    for_simple (@gen_a_real_plu_inv_loop3) (fun f r X => gen_a_real_plu_inv_loop3 O f n c 0 b X r) n (put_col9 n c b) (fun (r : nat) (X : list T) => (X, r)).
  Qed.
  Definition plu_inv_body (n : nat) (A : list T) (c : nat) (s : list T * list T) : option (list T * list T) :=
    let '(b, X) := s in
    match M.for_range 0 n (get_col9 n c X) b with Some b1 =>
    match F.plu_lower A_ n A b1 with Some b2 =>
    match F.plu_upper A_ n A b2 with Some b3 =>
    match M.for_range 0 n (put_col9 n c b3) X with Some X2 => Some (b3, X2) | None => None end
    | None => None end | None => None end | None => None end.
  Lemma plu_inv_eq n A p b X : F.plu_inv A_ n A p b X = match F.plu_P A_ n p X with Some X1 => M.for_range 0 n (plu_inv_body n A) (b, X1) | None => None end.
  Proof. reflexivity. Qed.
  Lemma plu_inv_l1 (n : nat) (A : list T) (Hn : U32 n) : forall fg lo s, n - lo < fg ->   (* for tie_a_real_plu_inv *)
    gen_a_real_plu_inv_loop1 O fg n 0 0 A (fst s) (snd s) lo lo = omap (fun s : list T * list T => s) (M.for_range lo n (plu_inv_body n A) s).
  Proof.
    intros fg lo s Hf.
    refine (for_tie (fun f c (s : list T * list T) => gen_a_real_plu_inv_loop1 O f n 0 0 A (fst s) (snd s) c c) n (plu_inv_body n A)
              (fun (_ : nat) (s : list T * list T) => s) _ _ fg lo s Hf).
    - intros f c [b X] Hc. cbn [fst snd gen_a_real_plu_inv_loop1 plu_inv_body]. cond_true Hc.
      rewrite plu_inv_l2 by (first [lia | u32]).
      destruct (M.for_range 0 n (get_col9 n c X) b) as [b1|]; cbn [omap]; [|reflexivity].
      rewrite (tie_a_real_plu_lower O n A b1 Hn). destruct (F.plu_lower A_ n A b1) as [b2|]; [|reflexivity].
      rewrite (tie_a_real_plu_upper O n A b2 Hn). destruct (F.plu_upper A_ n A b2) as [b3|]; [|reflexivity].
      rewrite plu_inv_l3 by (first [lia | u32]).
      destruct (M.for_range 0 n (put_col9 n c b3) X) as [X2|]; cbn [omap fst snd]; [|reflexivity].
      repeat arith_step. rewrite !Nat.add_1_r. reflexivity.
    - intros f c [b X] Hc. cbn [fst snd gen_a_real_plu_inv_loop1]. cond_false Hc. reflexivity.
  Qed.
  Theorem tie_a_real_plu_inv : forall (n : nat) (A : list T) (p : list nat) (b X : list T), U32 n ->
    gen_a_real_plu_inv O n A 0 p 0 b 0 X 0 = F.plu_inv A_ n A p b X.
  Proof.
    intros n A p b X Hn. unfold gen_a_real_plu_inv. rewrite plu_inv_eq, (tie_a_real_plu_P n p X Hn).
    destruct (F.plu_P A_ n p X) as [X1|]; [|reflexivity].
    pose proof (plu_inv_l1 n A Hn (S n) 0 (b, X1) ltac:(lia)) as H. cbn [fst snd] in H. rewrite H.
    destruct (M.for_range 0 n (plu_inv_body n A) (b, X1)); reflexivity.
  Qed.

  Definition plu_inv__body (n : nat) (A : list T) (i : nat) (X : list T) : option (list T) :=
    match F.plu_lower_ A_ n A X i with Some X2 => F.plu_upper_ A_ n A X2 i | None => None end.
  Lemma plu_inv__l1 (n : nat) (A : list T) (Hn : U32 n) : forall fg lo X, n - lo < fg ->   (* for tie_a_real_plu_inv_ *)
    gen_a_real_plu_inv__loop1 O fg n 0 A X lo lo = omap (fun X : list T => X) (M.for_range lo n (plu_inv__body n A) X).
  Proof.
    intros fg lo X Hf.
    refine (for_tie (fun f i X => gen_a_real_plu_inv__loop1 O f n 0 A X i i) n (plu_inv__body n A) (fun (_ : nat) (X : list T) => X) _ _ fg lo X Hf).
    - intros f i s Hi. cbn [gen_a_real_plu_inv__loop1]. unfold plu_inv__body. cond_true Hi.
      rewrite (tie_a_real_plu_lower_ O n i A s Hn). destruct (F.plu_lower_ A_ n A s i) as [X2|]; [|reflexivity].
      rewrite (tie_a_real_plu_upper_ O n i A X2 Hn). destruct (F.plu_upper_ A_ n A X2 i) as [X3|]; [|reflexivity].
      repeat arith_step. rewrite !Nat.add_1_r. reflexivity.
    - intros f i s Hi. cbn [gen_a_real_plu_inv__loop1]. cond_false Hi. reflexivity.
  Qed.
  Theorem tie_a_real_plu_inv_ : forall (n : nat) (A : list T) (p : list nat) (X : list T), U32 n ->
    gen_a_real_plu_inv_ O n A 0 p 0 X 0 = F.plu_inv_ A_ n A p X.
  Proof.
    intros n A p X Hn. unfold gen_a_real_plu_inv_, F.plu_inv_. rewrite (tie_a_real_plu_P n p X Hn).
    destruct (F.plu_P A_ n p X) as [X1|]; [|reflexivity]. rewrite (plu_inv__l1 n A Hn (S n) 0 X1) by lia.
    fold (plu_inv__body n A). destruct (M.for_range 0 n (plu_inv__body n A) X1); reflexivity.
  Qed.

  (* ------------------------------------------------------------------------------------------------ the sign of the determinant *)
  (* `break` on a zero diagonal entry: the generated loop returns 0 there, the model keeps (0, true) to the end *)
  Definition sg_body (n : nat) (A : list T) (i : nat) (s : Z * bool) : option (Z * bool) :=
    if snd s then Some s else
    match M.rd A (n * i + i) with
    | Some x => if M.ltb A_ x (M.zero A_) then Some (Z.opp (fst s), false) else if M.eqb A_ x (M.zero A_) then Some (0%Z, true) else Some s
    | None => None end.
  Lemma sg_sticky (n : nat) (A : list T) (v : Z) : forall cnt lo, M.forM lo cnt (sg_body n A) (v, true) = Some (v, true).
  Proof. induction cnt as [|cnt IH]; intros lo; [reflexivity|]. cbn [M.forM sg_body snd]. apply IH. Qed.

  Ltac sg_loop_proof loop :=
    let k := fresh "k" in let IH := fresh "IH" in
    intros k; induction k as [|k IH]; intros fg i sg Hi Hf Hs; (destruct fg as [|fg]; [lia|]); cbn [loop M.forM omap fst];
    [ replace (i <? _) with false by (symmetry; apply Nat.ltb_ge; lia); reflexivity
    | replace (i <? _) with true by (symmetry; apply Nat.ltb_lt; lia);
      cbn [sg_body snd fst]; unfold M.rd;
      match goal with |- context [nth_error ?A ?j] => destruct (nth_error A j); [|reflexivity] end;
      cbn [M.ltb M.eqb M.zero adapt];
      match goal with |- context [G.ltb O ?x ?zz] => destruct (G.ltb O x zz) end;
      [ replace (zfits 32 (- sg)) with true by (symmetry; unfold zfits; apply andb_true_intro; split; [apply Z.leb_le|apply Z.ltb_lt]; lia);
        rewrite fits32_U by u32; rewrite Nat.add_1_r, <- Nat.mul_succ_r; apply IH; [lia|lia|lia]
      | match goal with |- context [G.eqb O ?x ?zz] => destruct (G.eqb O x zz) end;
        [ rewrite sg_sticky; reflexivity
        | rewrite fits32_U by u32; rewrite Nat.add_1_r, <- Nat.mul_succ_r; apply IH; [lia|lia|lia] ] ] ].

  Lemma plu_sgndet_l1 (n : nat) (A : list T) (Hn : U32 n) : forall k fg i sg, i + k = n -> k < fg -> (Z.abs sg < 2147483648)%Z ->   (* for tie_a_real_plu_sgndet *)
    gen_a_real_plu_sgndet_loop1 O fg n A i sg (n * i) = omap fst (M.forM i k (sg_body n A) (sg, false)).
  Proof. sg_loop_proof (@gen_a_real_plu_sgndet_loop1). Qed.
  Lemma ldl_sgndet_l1 (n : nat) (A : list T) (Hn : U32 n) : forall k fg i sg, i + k = n -> k < fg -> (Z.abs sg < 2147483648)%Z ->   (* for tie_a_real_ldl_sgndet *)
    gen_a_real_ldl_sgndet_loop1 O fg n A i sg (n * i) = omap fst (M.forM i k (sg_body n A) (sg, false)).
  Proof. sg_loop_proof (@gen_a_real_ldl_sgndet_loop1). Qed.

  (* sign: any int but INT_MIN (whose negation is not an int) *)
  Theorem tie_a_real_plu_sgndet : forall (n : nat) (A : list T) (sign : Z), U32 n -> (Z.abs sign < 2147483648)%Z ->
    gen_a_real_plu_sgndet O n A 0 sign = F.plu_sgndet A_ n A sign.
  Proof.
    intros n A sign Hn Hs. unfold gen_a_real_plu_sgndet, F.plu_sgndet, F.sgndet_loop, M.for_range. rewrite Nat.sub_0_r.
    pose proof (plu_sgndet_l1 n A Hn n (S n) 0 sign (eq_refl _) (Nat.lt_succ_diag_r _) Hs) as H. rewrite Nat.mul_0_r in H. rewrite H.
    fold (sg_body n A). destruct (M.forM 0 n (sg_body n A) (sign, false)); reflexivity.
  Qed.
  Theorem tie_a_real_ldl_sgndet : forall (n : nat) (A : list T), U32 n -> gen_a_real_ldl_sgndet O n A 0 = F.ldl_sgndet A_ n A.
  Proof.
    intros n A Hn. unfold gen_a_real_ldl_sgndet, F.ldl_sgndet, F.plu_sgndet, F.sgndet_loop, M.for_range. rewrite Nat.sub_0_r.
    pose proof (ldl_sgndet_l1 n A Hn n (S n) 0 1%Z (eq_refl _) (Nat.lt_succ_diag_r _) ltac:(reflexivity)) as H. rewrite Nat.mul_0_r in H. rewrite H.
    fold (sg_body n A). destruct (M.forM 0 n (sg_body n A) (1%Z, false)); reflexivity.
  Qed.
End Tie.
