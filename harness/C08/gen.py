"""C08 case generators.  Every generator takes a random.Random (derived from ctx.subseed) and an
order n and returns a Case.  The classes are aimed at the case splits of the code and of the
proofs: pivot search (strict '>' : ties keep the first row), row exchange (none / at the last
step / every step), the failure thresholds |pivot| < DBL_MIN (exactly at, just below, zero,
negative zero), exactly singular inputs (zero column/row, duplicated rows), symmetric and
positive definite inputs for LDL^T / LL^T, non-positive Cholesky pivots, bad scaling,
ill-conditioning, overflow."""
import math
from c08lib import Case, d2b, b2d, DBL_MIN_BITS

DBL_MIN = b2d(DBL_MIN_BITS)
SUB_MAX = b2d(DBL_MIN_BITS - 1)      # largest subnormal: just below the threshold
SPECIALS = [DBL_MIN, SUB_MAX, 0.0, -0.0, -DBL_MIN, -SUB_MAX, 2 * DBL_MIN, b2d(DBL_MIN_BITS + 1), 5e-324]

MUST_FAIL_PLU = {"zerocol", "zerorow", "duprow", "dupscaled"}
MUST_FAIL_LDL = {"ldl_zero"}
MUST_FAIL_LLT = {"llt_nonpos"}


def rnd_entry(rng, kind):
    if kind == "int":
        return float(rng.randint(-9, 9))
    if kind == "pm1":
        return float(rng.choice((-1, 0, 1, 1, -1, 2)))
    if kind == "unif":
        return rng.uniform(-1.0, 1.0)
    if kind == "wide":
        return math.ldexp(rng.uniform(-1.0, 1.0), rng.randint(-30, 30))
    if kind == "dyadic":
        return rng.randint(-64, 64) / 16.0
    raise ValueError(kind)


def rnd_vec(rng, n, kind=None):
    kind = kind or rng.choice(("int", "unif", "dyadic"))
    return [rnd_entry(rng, kind) for _ in range(n)]


def rnd_mat(rng, n, kind):
    return [[rnd_entry(rng, kind) for _ in range(n)] for _ in range(n)]


def flat(M):
    return [x for row in M for x in row]


def mk(mask, n, M, b, tag):
    return Case.from_floats(mask, n, flat(M), b, tag)


def g_general(rng, n):
    kind = rng.choice(("int", "pm1", "unif", "wide", "dyadic"))
    M = rnd_mat(rng, n, kind)
    mask = 1 if rng.random() < 0.7 else 7
    return mk(mask, n, M, rnd_vec(rng, n), "general/" + kind)


def symmetrize(M):
    n = len(M)
    for r in range(n):
        for c in range(r + 1, n):
            M[r][c] = M[c][r]
    return M


def g_sym(rng, n):
    kind = rng.choice(("int", "pm1", "unif", "dyadic", "wide"))
    M = symmetrize(rnd_mat(rng, n, kind))
    return mk(7, n, M, rnd_vec(rng, n), "sym/" + kind)


def g_spd(rng, n):
    kind = rng.choice(("int", "unif", "dyadic"))
    B = rnd_mat(rng, n, kind)
    M = [[sum(B[k][r] * B[k][c] for k in range(n)) + (float(n) if r == c else 0.0) for c in range(n)] for r in range(n)]
    if rng.random() < 0.3:          # symmetric diagonal scaling by powers of two keeps it SPD and exact
        s = [math.ldexp(1.0, rng.randint(-20, 20)) for _ in range(n)]
        M = [[M[r][c] * s[r] * s[c] for c in range(n)] for r in range(n)]
    return mk(7, n, symmetrize(M), rnd_vec(rng, n), "spd/" + kind)


def g_scaled(rng, n):
    M = rnd_mat(rng, n, rng.choice(("int", "unif")))
    rs = [math.ldexp(1.0, rng.randint(-40, 40)) for _ in range(n)]
    cs = [math.ldexp(1.0, rng.randint(-40, 40)) for _ in range(n)]
    M = [[M[r][c] * rs[r] * cs[c] for c in range(n)] for r in range(n)]
    return mk(1, n, M, rnd_vec(rng, n), "scaled")


def g_hilbert(rng, n):
    k = rng.randint(0, 3)
    M = [[1.0 / (r + c + 1 + k) for c in range(n)] for r in range(n)]
    return mk(7, n, M, rnd_vec(rng, n), "hilbert")


def g_illcond(rng, n):
    # nearly dependent rows: row j = row i + tiny perturbation
    M = rnd_mat(rng, n, "unif")
    if n >= 2:
        i, j = rng.sample(range(n), 2)
        e = math.ldexp(1.0, -rng.randint(20, 50))
        M[j] = [x + e * rng.uniform(-1, 1) for x in M[i]]
    return mk(1, n, M, rnd_vec(rng, n), "illcond")


def upper_tri(rng, n, kind="int"):
    M = [[0.0] * n for _ in range(n)]
    for r in range(n):
        for c in range(r, n):
            M[r][c] = rnd_entry(rng, kind)
        while M[r][r] == 0.0:
            M[r][r] = rnd_entry(rng, kind)
    return M


def g_lastpivot(rng, n):
    """upper triangular except for the last row, whose entry in column n-2 dominates: the only
    exchange happens at the last step that can exchange (i = n-2, max_i = n-1)."""
    M = upper_tri(rng, n, rng.choice(("int", "dyadic")))
    if n >= 2:
        M[n - 1][n - 2] = 2.0 * M[n - 2][n - 2] * rng.choice((1, -1))
    return mk(1, n, M, rnd_vec(rng, n), "lastpivot")


def g_everyswap(rng, n):
    """a cyclic-shift structure: every step has to exchange"""
    M = [[0.0] * n for _ in range(n)]
    for r in range(n):
        M[r][(r + n - 1) % n] = float(rng.randint(1, 9)) * rng.choice((1, -1))
        for c in range(n):
            if M[r][c] == 0.0 and rng.random() < 0.4:
                M[r][c] = rng.uniform(-0.5, 0.5)
    return mk(1, n, M, rnd_vec(rng, n), "everyswap")


def g_ties(rng, n):
    """pivot candidates of equal magnitude: '>' is strict, the first one must win"""
    v = float(rng.randint(1, 5))
    M = [[v * rng.choice((1, -1)) if rng.random() < 0.7 else float(rng.randint(-5, 5)) for _ in range(n)] for _ in range(n)]
    return mk(1, n, M, rnd_vec(rng, n), "ties")


def g_zerocol(rng, n):
    M = rnd_mat(rng, n, rng.choice(("int", "unif")))
    c = rng.randrange(n)
    for r in range(n):
        M[r][c] = rng.choice((0.0, 0.0, -0.0))
    return mk(1, n, M, rnd_vec(rng, n), "zerocol")


def g_zerorow(rng, n):
    M = rnd_mat(rng, n, rng.choice(("int", "unif")))
    r = rng.randrange(n)
    M[r] = [0.0] * n
    return mk(1, n, M, rnd_vec(rng, n), "zerorow")


def g_duprow(rng, n):
    M = rnd_mat(rng, n, rng.choice(("int", "unif", "wide")))
    if n < 2:
        M[0][0] = 0.0
        return mk(1, n, M, rnd_vec(rng, n), "zerocol")
    i, j = rng.sample(range(n), 2)
    if rng.random() < 0.5:
        M[j] = list(M[i])
        return mk(1, n, M, rnd_vec(rng, n), "duprow")
    s = math.ldexp(rng.choice((1.0, -1.0)), rng.randint(-8, 8))     # exact scaling
    M[j] = [x * s for x in M[i]]
    return mk(1, n, M, rnd_vec(rng, n), "dupscaled")


def g_rank1(rng, n):
    u = [float(rng.randint(-5, 5)) for _ in range(n)]
    v = [float(rng.randint(-5, 5)) for _ in range(n)]
    M = [[u[r] * v[c] for c in range(n)] for r in range(n)]
    return mk(7 if rng.random() < 0.3 else 1, n, M, rnd_vec(rng, n), "rank1")        # may or may not fail after rounding


def g_plu_threshold(rng, n):
    """upper triangular with one diagonal entry (and optionally one entry below it) taken from the
    values around A_REAL_MIN: the pivot test |max| < DBL_MIN sits exactly on its boundary"""
    M = upper_tri(rng, n, "int")
    k = rng.randrange(n)
    M[k][k] = rng.choice(SPECIALS)
    if k + 1 < n and rng.random() < 0.6:
        M[rng.randrange(k + 1, n)][k] = rng.choice(SPECIALS)
    return mk(1, n, M, rnd_vec(rng, n), "plu_threshold")


def g_sym_threshold(rng, n):
    """diagonal-ish symmetric matrix whose k-th pivot is a value around the threshold (LDL: |d| < DBL_MIN,
    LLT: d < DBL_MIN)"""
    M = [[0.0] * n for _ in range(n)]
    for r in range(n):
        M[r][r] = float(rng.randint(1, 9))
    k = rng.randrange(n)
    M[k][k] = rng.choice(SPECIALS)
    if rng.random() < 0.5 and k + 1 < n:       # couple a later row to the pivot
        j = rng.randrange(k + 1, n)
        M[j][k] = M[k][j] = rng.choice((M[k][k], 0.0, SUB_MAX))
    return mk(6, n, M, rnd_vec(rng, n), "sym_threshold")


def g_ldl_zero(rng, n):
    """symmetric integer matrix whose k-th LDL pivot is exactly zero (all arithmetic exact)"""
    if n < 2:
        return mk(2, 1, [[rng.choice((0.0, -0.0))]], rnd_vec(rng, 1), "ldl_zero")
    k = rng.randrange(1, n)
    # L unit lower with small integers, D integers with D_k = 0: A = L D L^T is an exact integer matrix and the
    # algorithm reproduces L, D exactly up to step k
    L = [[float(rng.randint(-2, 2)) if c < r else (1.0 if c == r else 0.0) for c in range(n)] for r in range(n)]
    D = [float(rng.choice((-3, -2, -1, 1, 2, 4))) for _ in range(n)]
    D[k] = 0.0
    M = [[sum(L[r][i] * D[i] * L[c][i] for i in range(n)) for c in range(n)] for r in range(n)]
    return mk(6, n, M, rnd_vec(rng, n), "ldl_zero")


def g_llt_nonpos(rng, n):
    """symmetric integer matrix A = L D L^T with power-of-two L, D > 0 before step k and D_k <= 0:
    every Cholesky quantity up to step k is exact, and the k-th pivot is exactly D_k <= 0"""
    k = rng.randrange(n)
    L = [[float(rng.choice((-2, -1, 0, 1, 2))) if c < r else (1.0 if c == r else 0.0) for c in range(n)] for r in range(n)]
    D = [float(rng.choice((1, 4, 16))) for _ in range(n)]          # squares: sqrt exact
    D[k] = float(rng.choice((0, -1, -4, -3)))
    M = [[sum(L[r][i] * D[i] * L[c][i] for i in range(n)) for c in range(n)] for r in range(n)]
    return mk(4, n, M, rnd_vec(rng, n), "llt_nonpos")


def g_huge(rng, n):
    M = [[math.ldexp(rng.uniform(-1, 1), rng.randint(900, 1023)) for _ in range(n)] for _ in range(n)]
    if rng.random() < 0.5:
        M = symmetrize(M)
    return mk(7, n, M, rnd_vec(rng, n), "huge")


def g_tinyvals(rng, n):
    M = [[math.ldexp(rng.uniform(-1, 1), rng.randint(-1074, -990)) for _ in range(n)] for _ in range(n)]
    if rng.random() < 0.5:
        M = symmetrize(M)
    return mk(7, n, M, rnd_vec(rng, n), "tinyvals")


GENS = [(g_general, 10), (g_sym, 5), (g_spd, 6), (g_scaled, 2), (g_hilbert, 1), (g_illcond, 2),
        (g_lastpivot, 2), (g_everyswap, 2), (g_ties, 2), (g_zerocol, 1), (g_zerorow, 1), (g_duprow, 2),
        (g_rank1, 1), (g_plu_threshold, 3), (g_sym_threshold, 3), (g_ldl_zero, 1), (g_llt_nonpos, 1),
        (g_huge, 1), (g_tinyvals, 1)]


def gen_cases(rng, count, sizes):
    """sizes: list of (n, weight)"""
    gens = [g for g, w in GENS for _ in range(w)]
    ns = [n for n, w in sizes for _ in range(w)]
    return [rng.choice(gens)(rng, rng.choice(ns)) for _ in range(count)]


def fixed_cases():
    """hand-written regression cases that always run first (together with corpus/C08/*.json)"""
    F = Case.from_floats
    cs = [
        F(7, 3, [4, 3, 6, 8, 7, 5, 2, 1, 9], [1, 2, 3], "test/linalg_plu.h"),
        F(7, 3, [4, 2, 1, 2, 5, 3, 1, 3, 6], [1, 2, 3], "fixed/spd3"),
        F(7, 1, [DBL_MIN], [1], "fixed/1x1-min"),
        F(7, 1, [SUB_MAX], [1], "fixed/1x1-submax"),
        F(7, 1, [0.0], [1], "fixed/1x1-zero"),
        F(7, 1, [-2.0], [1], "fixed/1x1-neg"),
        F(7, 2, [0, 1, 1, 0], [3, 4], "fixed/antidiag"),
        F(7, 2, [1, 1, 1, 1], [3, 4], "duprow"),
        F(7, 2, [1, 2, 2, 1], [3, 4], "fixed/indefinite"),
        F(1, 3, [1, 2, 3, -1, 5, 6, 1, 8, 10], [1, 0, 0], "ties"),
        F(1, 4, [2, 1, 0, 0, 0, 0, 3, 1, 0, 5, 1, 1, 0, 0, 0, 7], [1, 2, 3, 4], "fixed/swap-mid"),
    ]
    return cs
