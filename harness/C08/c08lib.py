"""C08 helpers: case encoding, running the C driver, evaluating the Gallina model with
vm_compute inside coqc, canonical line formatting.  Standard library only."""
import re
import struct
from concurrent.futures import ThreadPoolExecutor

DBL_MIN_BITS = 0x0010000000000000
NAN_BITS = 0x7ff8000000000000


def d2b(x):
    """double -> canonical 64-bit pattern"""
    x = float(x)
    if x != x:
        return NAN_BITS
    return struct.unpack("<Q", struct.pack("<d", x))[0]


def b2d(u):
    return struct.unpack("<d", struct.pack("<Q", u))[0]


def hx(u):
    return "%016x" % u


class Case:
    """mask: 1 PLU, 2 LDL, 4 LLT; A: n*n bit patterns (row major); b: n bit patterns; tag: generator class"""
    __slots__ = ("mask", "n", "A", "b", "tag")

    def __init__(self, mask, n, A, b, tag=""):
        self.mask, self.n, self.A, self.b, self.tag = mask, n, list(A), list(b), tag
        assert len(self.A) == n * n and len(self.b) == n

    def line(self):
        return "%d %d %s" % (self.mask, self.n, " ".join(hx(u) for u in self.A + self.b))

    def to_json(self):
        return {"mask": self.mask, "n": self.n, "A_hex": [hx(u) for u in self.A], "b_hex": [hx(u) for u in self.b],
                "A": [b2d(u) for u in self.A], "b": [b2d(u) for u in self.b], "tag": self.tag}

    @staticmethod
    def from_json(o):
        return Case(o["mask"], o["n"], [int(h, 16) for h in o["A_hex"]], [int(h, 16) for h in o["b_hex"]], o.get("tag", ""))

    @staticmethod
    def from_floats(mask, n, A, b, tag=""):
        return Case(mask, n, [d2b(x) for x in A], [d2b(x) for x in b], tag)


def run_c(vlib, cbin, cases, timeout=600):
    """Run the C driver on the cases.  Returns (rc, per-case list of canonical lines (without the
    case number), per-case log table [(argbits, resbits)], raw output tail)."""
    text = "\n".join(c.line() for c in cases) + "\n"
    rc, out = vlib.sh([str(cbin)], stdin=text, timeout=timeout)
    lines = [[] for _ in cases]
    logs = [[] for _ in cases]
    tail = []
    for ln in out.splitlines():
        m = re.match(r"^(\d+) (L?)(\d+)((?: -?[0-9a-f]+)*)$", ln)
        if not m or int(m.group(1)) >= len(cases):
            tail.append(ln)
            continue
        k = int(m.group(1))
        if m.group(2):
            w = m.group(4).split()
            logs[k].extend((int(w[i], 16), int(w[i + 1], 16)) for i in range(0, len(w) - 1, 2))
        else:
            lines[k].append(m.group(3) + m.group(4))
    return rc, lines, logs, "\n".join(tail)


COQ_HEAD = """From Coq Require Import ZArith List Uint63.
Import ListNotations.
From LibaV Require Import C08.Instances.
Local Open Scope Z_scope.
Set Printing Depth 100000000.
Set Printing Width 4000.
Notation "a # b" := (a%uint63, b%uint63) (at level 0, only parsing).
"""


def pr(u):
    """a double's bit pattern as the pair of 32-bit halves the model takes"""
    return "%d#%d" % (u >> 32, u & 0xffffffff)


def coq_case(c, log):
    seen, tbl = set(), []
    for a, r in log:
        if a not in seen:
            seen.add(a)
            tbl.append("(%s, %s)" % (pr(a), pr(r)))
    return "Eval vm_compute in (run_case %d %d%%nat [%s] [%s] [%s]).\n" % (
        c.mask, c.n, "; ".join(pr(u) for u in c.A), "; ".join(pr(u) for u in c.b), "; ".join(tbl))


_SCOPE = re.compile(r"%\w+")
_TUP = re.compile(r"\(\s*(\d+)\s*,\s*\[([^\]]*)\]\s*\)")


def parse_coq(out, ncases):
    """coqc output of ncases Eval commands -> per-case canonical lines; None if malformed."""
    blocks = out.split(": list (Z * list item)")
    if len(blocks) != ncases + 1:
        return None
    res = []
    for blk in blocks[:ncases]:
        lines = []
        for m in _TUP.finditer(blk):
            items = []
            for it in m.group(2).split(";"):
                it = it.strip()
                if not it:
                    continue
                if it == "E":
                    items.append("OOB")
                    continue
                w = _SCOPE.sub("", it).replace("(", " ").replace(")", " ").split()
                if w[0] == "I":
                    items.append("%d" % int("".join(w[1:])))
                else:
                    items.append(hx((int(w[1]) << 32) | int(w[2])))
            lines.append(" ".join([m.group(1)] + items))
        res.append(lines)
    return res


def run_model(ctx, vlib, cases, logs, shards=None, timeout=900):
    """Evaluate run_case (coq/C08/Instances.v) on every case with vm_compute, in parallel coqc
    processes.  Returns per-case lines, or raises CheckError."""
    if not cases:
        return []
    shards = shards or min(vlib.NPROC, max(1, len(cases) // 40))
    # balance by cost ~ n^3
    order = sorted(range(len(cases)), key=lambda i: -cases[i].n)
    buckets = [[] for _ in range(shards)]
    for j, i in enumerate(order):
        buckets[j % shards].append(i)

    def one(k):
        idx = sorted(buckets[k])
        if not idx:
            return idx, []
        txt = COQ_HEAD + "".join(coq_case(cases[i], logs[i]) for i in idx)
        rc, out = ctx.coq_eval("eval_%s_%d" % (ctx.tier, k), txt, timeout=timeout)
        if rc != 0:
            raise vlib.CheckError("coqc failed on model evaluation shard %d: %s" % (k, out[-1500:]))
        r = parse_coq(out, len(idx))
        if r is None:
            raise vlib.CheckError("could not parse coqc output of shard %d: %s" % (k, out[-800:]))
        return idx, r

    res = [None] * len(cases)
    with ThreadPoolExecutor(max_workers=shards) as ex:
        for idx, r in ex.map(one, range(shards)):
            for i, lines in zip(idx, r):
                res[i] = lines
    return res
