(* All-orders translator tie of C08, part 5: the extraction routines a_real_ldl_L / plu_L (a_real_triL1 of linalg.c), llt_L (triL),
   plu_U (triU), ldl_D (diag1).  The C08 model writes one for_range over the columns with a case distinction where the C runs three
   consecutive loops with a running output pointer; *_row_split cuts the model's loop at the same places.
   Theorems tie_a_real_ldl_L, plu_L, llt_L, plu_U, ldl_D: every order with U32, every pair of arrays. *)
From Coq Require Import ZArith NArith List Bool Arith Lia.
From LibaV Require Import C09.LinalgSpec C09.LinalgLemmas C09.LoopTieLemmas C08.LoopTieLemmas.
From Gen Require Import GenLoop TieLoopBase.
Import ListNotations.

Section Tie.
  Context {T : Type} (O : G.NumOps T).
  Local Notation A_ := (adapt O).
  Local Notation z := (G.ofZ O 0).
  Local Notation o := (G.ofZ O 1).

  (* the segments of a row: copy the cells [lo, hi) of row r of A, resp. set them to a constant *)
  Definition cpy (n r : nat) (A : list T) (c : nat) (L : list T) : option (list T) :=
    match M.rd A (n * r + c) with Some v => M.wr L (n * r + c) v | None => None end.
  Definition cst (n r : nat) (v : T) (c : nat) (L : list T) : option (list T) := M.wr L (n * r + c) v.

  (* ------------------------------------------------------------------------------------------------ triL1 *)
  Lemma triL1_l2 (n r : nat) (A : list T) (Hr : U32 r) : forall fg lo L, r - lo < fg ->   (* for tie_a_real_ldl_L *)
    gen_a_real_triL1_loop2 O fg r (n * r) A L lo (n * r + lo) =
    omap (fun L : list T => (L, Nat.max lo r, n * r + Nat.max lo r)) (M.for_range lo r (cpy n r A) L).
  Proof.
    for_simple (@gen_a_real_triL1_loop2) (fun f c L => gen_a_real_triL1_loop2 O f r (n * r) A L c (n * r + c)) r (cpy n r A)
      (fun (c : nat) (L : list T) => (L, c, n * r + c)).
  Qed.
  (* while (++c < n) *L++ = 0: entered by the model with c already incremented *)
  Lemma triL1_l3 (n r : nat) (Hn : U32 n) : forall fg lo L, 1 <= lo <= n -> n - lo < fg ->   (* for tie_a_real_ldl_L *)
    match lo with S c => gen_a_real_triL1_loop3 O fg n L c (n * r + lo) | 0 => None end =
    omap (fun L : list T => (L, n, n * r + n)) (M.for_range lo n (cst n r z) L).
  Proof.
    intros fg lo L Hl Hf.
    refine (for_tie_le (fun f i L => match i with S c => gen_a_real_triL1_loop3 O f n L c (n * r + i) | 0 => None end) 1 n (cst n r z)
              (fun L : list T => (L, n, n * r + n)) _ _ fg lo L Hl Hf).
    - intros f [|c] s [H1 Hi]; [lia|]. cbn [gen_a_real_triL1_loop3]. rewrite !Nat.add_1_r. rewrite fits32_U by u32. cond_true Hi.
      unfold cst. sim. rewrite ?Nat.add_succ_r. reflexivity.
    - intros f s. destruct n as [|c]; [lia|]. cbn [gen_a_real_triL1_loop3]. rewrite !Nat.add_1_r. rewrite fits32_U by u32.
      rewrite Nat.ltb_irrefl. reflexivity.
  Qed.

  (* the model's row: one for_range over the columns with a case distinction = the three consecutive loops of the C *)
  Lemma triL1_row_split (n r : nat) (A L : list T) : r < n ->
    M.for_range 0 n (fun c L => if Nat.ltb c r then match M.rd A (n * r + c) with Some v => M.wr L (n * r + c) v | None => None end
                                else if Nat.eqb c r then M.wr L (n * r + c) (M.one A_) else M.wr L (n * r + c) (M.zero A_)) L =
    match M.for_range 0 r (cpy n r A) L with
    | Some L1 => match M.wr L1 (n * r + r) o with Some L2 => M.for_range (r + 1) n (cst n r z) L2 | None => None end
    | None => None
    end.
  Proof.
    intros Hr. rewrite (for_range_split _ 0 r n) by lia.
    rewrite (for_range_ext _ (cpy n r A) 0 r) by (intros i s Hi; replace (i <? r) with true by (symmetry; apply Nat.ltb_lt; lia); reflexivity).
    destruct (M.for_range 0 r (cpy n r A) L) as [L1|]; [|reflexivity].
    rewrite (for_range_split _ r (r + 1) n) by lia. rewrite for_range_one. rewrite Nat.ltb_irrefl, Nat.eqb_refl.
    cbn [M.one adapt]. destruct (M.wr L1 (n * r + r) o) as [L2|]; [|reflexivity].
    apply for_range_ext. intros i s Hi. replace (i <? r) with false by (symmetry; apply Nat.ltb_ge; lia).
    replace (i =? r) with false by (symmetry; apply Nat.eqb_neq; lia). reflexivity.
  Qed.

  Lemma triL1_l1 (n : nat) (A : list T) (Hn : U32 n) : forall fg lo L, n - lo < fg ->   (* for tie_a_real_ldl_L *)
    gen_a_real_triL1_loop1 O fg n A L lo (n * lo) (n * lo) =
    omap (fun L : list T => L) (M.for_range lo n (fun r L =>
      match M.for_range 0 r (cpy n r A) L with
      | Some L1 => match M.wr L1 (n * r + r) o with Some L2 => M.for_range (r + 1) n (cst n r z) L2 | None => None end
      | None => None end) L).
  Proof.
    intros fg lo L Hf.
    refine (for_tie (fun f r L => gen_a_real_triL1_loop1 O f n A L r (n * r) (n * r)) n _ (fun _ (L : list T) => L) _ _ fg lo L Hf).
    - intros f r s Hi. cbn [gen_a_real_triL1_loop1]. cond_true Hi.
      pose proof (triL1_l2 n r A ltac:(u32) (S r) 0 s ltac:(lia)) as H2. rewrite Nat.add_0_r in H2. rewrite H2. clear H2.
      destruct (M.for_range 0 r (cpy n r A) s) as [L1|]; cbn [omap Nat.max]; [|reflexivity].
      rewrite upd_wr. destruct (M.wr L1 (n * r + r) o) as [L2|]; [|reflexivity].
      pose proof (triL1_l3 n r Hn (S (n - r)) (S r) L2 ltac:(lia) ltac:(lia)) as H3. cbn beta iota in H3.
      rewrite Nat.add_1_r. rewrite Nat.add_succ_r in H3. rewrite H3. clear H3. rewrite Nat.add_1_r.
      destruct (M.for_range (S r) n (cst n r z) L2) as [L3|]; cbn [omap]; [|reflexivity].
      rewrite fits32_U by u32. rewrite <- Nat.mul_succ_r. reflexivity.
    - intros f r s Hi. cbn [gen_a_real_triL1_loop1]. cond_false Hi. reflexivity.
  Qed.

  Lemma triL1_tie : forall (n : nat) (A L : list T), U32 n -> gen_a_real_triL1 O n A 0 L 0 = F.triL1 A_ n A L.   (* for tie_a_real_ldl_L *)
  Proof.
    intros n A L Hn. unfold gen_a_real_triL1, F.triL1.
    pose proof (triL1_l1 n A Hn (S n) 0 L ltac:(lia)) as H. rewrite Nat.mul_0_r in H. rewrite H. clear H.
    symmetry. erewrite for_range_ext; [|intros r s Hr; apply triL1_row_split; lia].
    destruct (M.for_range 0 n _ L); reflexivity.
  Qed.
  Theorem tie_a_real_ldl_L : forall (n : nat) (A L : list T), U32 n -> gen_a_real_ldl_L O n A 0 L 0 = F.ldl_L A_ n A L.
  Proof. intros. unfold gen_a_real_ldl_L, F.ldl_L. apply triL1_tie. assumption. Qed.
  Theorem tie_a_real_plu_L : forall (n : nat) (A L : list T), U32 n -> gen_a_real_plu_L O n A 0 L 0 = F.plu_L A_ n A L.
  Proof. intros. unfold gen_a_real_plu_L, F.plu_L. apply triL1_tie. assumption. Qed.

  (* ------------------------------------------------------------------------------------------------ triL (llt_L) *)
  Lemma triL_l2 (n r : nat) (A : list T) (Hr : U32 (S r)) : forall fg lo L, S r - lo < fg ->   (* for tie_a_real_llt_L *)
    gen_a_real_triL_loop2 O fg r (n * r) A L lo (n * r + lo) =
    omap (fun L : list T => (L, Nat.max lo (S r), n * r + Nat.max lo (S r))) (M.for_range lo (S r) (cpy n r A) L).
  Proof.
    intros fg lo L Hf.
    refine (for_tie (fun f c L => gen_a_real_triL_loop2 O f r (n * r) A L c (n * r + c)) (S r) (cpy n r A)
              (fun (c : nat) (L : list T) => (L, c, n * r + c)) _ _ fg lo L Hf).
    - intros f c s Hi. cbn [gen_a_real_triL_loop2]. replace (c <=? r) with true by (symmetry; apply Nat.leb_le; lia).
      unfold cpy. sim. rewrite ?Nat.add_succ_r. reflexivity.
    - intros f c s Hi. cbn [gen_a_real_triL_loop2]. replace (c <=? r) with false by (symmetry; apply Nat.leb_gt; lia). reflexivity.
  Qed.
  Lemma triL_l3 (n r : nat) (Hn : U32 n) : forall fg lo L, n - lo < fg ->   (* for tie_a_real_llt_L *)
    gen_a_real_triL_loop3 O fg n L lo (n * r + lo) =
    omap (fun L : list T => (L, Nat.max lo n, n * r + Nat.max lo n)) (M.for_range lo n (cst n r z) L).
  Proof.
    for_simple (@gen_a_real_triL_loop3) (fun f c L => gen_a_real_triL_loop3 O f n L c (n * r + c)) n (cst n r z)
      (fun (c : nat) (L : list T) => (L, c, n * r + c)).
  Qed.
  Lemma triL_row_split (n r : nat) (A L : list T) : r < n ->
    M.for_range 0 n (fun c L => if Nat.leb c r then match M.rd A (n * r + c) with Some v => M.wr L (n * r + c) v | None => None end
                                else M.wr L (n * r + c) (M.zero A_)) L =
    match M.for_range 0 (S r) (cpy n r A) L with Some L1 => M.for_range (S r) n (cst n r z) L1 | None => None end.
  Proof.
    intros Hr. rewrite (for_range_split _ 0 (S r) n) by lia.
    rewrite (for_range_ext _ (cpy n r A) 0 (S r)) by (intros i s Hi; replace (i <=? r) with true by (symmetry; apply Nat.leb_le; lia); reflexivity).
    destruct (M.for_range 0 (S r) (cpy n r A) L) as [L1|]; [|reflexivity].
    apply for_range_ext. intros i s Hi. replace (i <=? r) with false by (symmetry; apply Nat.leb_gt; lia). reflexivity.
  Qed.
  Lemma triL_l1 (n : nat) (A : list T) (Hn : U32 n) : forall fg lo L, n - lo < fg ->   (* for tie_a_real_llt_L *)
    gen_a_real_triL_loop1 O fg n A L lo (n * lo) (n * lo) =
    omap (fun L : list T => L) (M.for_range lo n (fun r L =>
      match M.for_range 0 (S r) (cpy n r A) L with Some L1 => M.for_range (S r) n (cst n r z) L1 | None => None end) L).
  Proof.
    intros fg lo L Hf.
    refine (for_tie (fun f r L => gen_a_real_triL_loop1 O f n A L r (n * r) (n * r)) n _ (fun _ (L : list T) => L) _ _ fg lo L Hf).
    - intros f r s Hi. cbn [gen_a_real_triL_loop1]. cond_true Hi.
      pose proof (triL_l2 n r A ltac:(u32) (S (S r)) 0 s ltac:(lia)) as H2. rewrite Nat.add_0_r in H2. rewrite H2. clear H2.
      destruct (M.for_range 0 (S r) (cpy n r A) s) as [L1|]; cbn [omap Nat.max]; [|reflexivity].
      rewrite (triL_l3 n r Hn (S (n - S r)) (S r) L1) by lia.
      destruct (M.for_range (S r) n (cst n r z) L1) as [L2|]; cbn [omap]; [|reflexivity].
      rewrite Nat.add_1_r. rewrite fits32_U by u32. replace (Nat.max (S r) n) with n by lia. rewrite <- Nat.mul_succ_r. reflexivity.
    - intros f r s Hi. cbn [gen_a_real_triL_loop1]. cond_false Hi. reflexivity.
  Qed.
  Theorem tie_a_real_llt_L : forall (n : nat) (A L : list T), U32 n -> gen_a_real_llt_L O n A 0 L 0 = F.llt_L A_ n A L.
  Proof.
    intros n A L Hn. unfold gen_a_real_llt_L, gen_a_real_triL, F.llt_L, F.triL.
    pose proof (triL_l1 n A Hn (S n) 0 L ltac:(lia)) as H. rewrite Nat.mul_0_r in H. rewrite H. clear H.
    symmetry. erewrite for_range_ext; [|intros r s Hr; apply triL_row_split; lia].
    destruct (M.for_range 0 n _ L); reflexivity.
  Qed.

  (* ------------------------------------------------------------------------------------------------ triU (plu_U) *)
  Lemma triU_l2 (n r : nat) (Hr : U32 r) : forall fg lo U, r - lo < fg ->   (* for tie_a_real_plu_U *)
    gen_a_real_triU_loop2 O fg r U lo (n * r + lo) =
    omap (fun U : list T => (U, Nat.max lo r, n * r + Nat.max lo r)) (M.for_range lo r (cst n r z) U).
  Proof.
    for_simple (@gen_a_real_triU_loop2) (fun f c U => gen_a_real_triU_loop2 O f r U c (n * r + c)) r (cst n r z)
      (fun (c : nat) (U : list T) => (U, c, n * r + c)).
  Qed.
  Lemma triU_l3 (n r : nat) (A : list T) (Hn : U32 n) : forall fg lo U, n - lo < fg ->   (* for tie_a_real_plu_U *)
    gen_a_real_triU_loop3 O fg n (n * r) A U lo (n * r + lo) =
    omap (fun U : list T => (U, Nat.max lo n, n * r + Nat.max lo n)) (M.for_range lo n (cpy n r A) U).
  Proof.
    for_simple (@gen_a_real_triU_loop3) (fun f c U => gen_a_real_triU_loop3 O f n (n * r) A U c (n * r + c)) n (cpy n r A)
      (fun (c : nat) (U : list T) => (U, c, n * r + c)).
  Qed.
  Lemma triU_row_split (n r : nat) (A U : list T) : r < n ->
    M.for_range 0 n (fun c U => if Nat.ltb c r then M.wr U (n * r + c) (M.zero A_)
                                else match M.rd A (n * r + c) with Some v => M.wr U (n * r + c) v | None => None end) U =
    match M.for_range 0 r (cst n r z) U with Some U1 => M.for_range r n (cpy n r A) U1 | None => None end.
  Proof.
    intros Hr. rewrite (for_range_split _ 0 r n) by lia.
    rewrite (for_range_ext _ (cst n r z) 0 r) by (intros i s Hi; replace (i <? r) with true by (symmetry; apply Nat.ltb_lt; lia); reflexivity).
    destruct (M.for_range 0 r (cst n r z) U) as [U1|]; [|reflexivity].
    apply for_range_ext. intros i s Hi. replace (i <? r) with false by (symmetry; apply Nat.ltb_ge; lia). reflexivity.
  Qed.
  Lemma triU_l1 (n : nat) (A : list T) (Hn : U32 n) : forall fg lo U, n - lo < fg ->   (* for tie_a_real_plu_U *)
    gen_a_real_triU_loop1 O fg n A U lo (n * lo) (n * lo) =
    omap (fun U : list T => U) (M.for_range lo n (fun r U =>
      match M.for_range 0 r (cst n r z) U with Some U1 => M.for_range r n (cpy n r A) U1 | None => None end) U).
  Proof.
    intros fg lo U Hf.
    refine (for_tie (fun f r U => gen_a_real_triU_loop1 O f n A U r (n * r) (n * r)) n _ (fun _ (U : list T) => U) _ _ fg lo U Hf).
    - intros f r s Hi. cbn [gen_a_real_triU_loop1]. cond_true Hi.
      pose proof (triU_l2 n r ltac:(u32) (S r) 0 s ltac:(lia)) as H2. rewrite Nat.add_0_r in H2. rewrite H2. clear H2.
      destruct (M.for_range 0 r (cst n r z) s) as [U1|]; cbn [omap Nat.max]; [|reflexivity].
      rewrite (triU_l3 n r A Hn (S (n - r)) r U1) by lia.
      destruct (M.for_range r n (cpy n r A) U1) as [U2|]; cbn [omap]; [|reflexivity].
      rewrite Nat.add_1_r. rewrite fits32_U by u32. replace (Nat.max r n) with n by lia. rewrite <- Nat.mul_succ_r. reflexivity.
    - intros f r s Hi. cbn [gen_a_real_triU_loop1]. cond_false Hi. reflexivity.
  Qed.
  Theorem tie_a_real_plu_U : forall (n : nat) (A U : list T), U32 n -> gen_a_real_plu_U O n A 0 U 0 = F.plu_U A_ n A U.
  Proof.
    intros n A U Hn. unfold gen_a_real_plu_U, gen_a_real_triU, F.plu_U, F.triU.
    pose proof (triU_l1 n A Hn (S n) 0 U ltac:(lia)) as H. rewrite Nat.mul_0_r in H. rewrite H. clear H.
    symmetry. erewrite for_range_ext; [|intros r s Hr; apply triU_row_split; lia].
    destruct (M.for_range 0 n _ U); reflexivity.
  Qed.

  (* ------------------------------------------------------------------------------------------------ diag1 (ldl_D) *)
  Lemma diag1_l1 (n : nat) (A : list T) (Hn : U32 n) : forall fg lo d, n - lo < fg ->   (* for tie_a_real_ldl_D *)
    gen_a_real_diag1_loop1 O fg n 0 0 (n + 1) A d lo =
    omap (fun d : list T => d) (M.for_range lo n (fun i d => match M.rd A ((n + 1) * i) with Some v => M.wr d i v | None => None end) d).
  Proof.
    for_simple (@gen_a_real_diag1_loop1) (fun f i d => gen_a_real_diag1_loop1 O f n 0 0 (n + 1) A d i) n
      (fun i (d : list T) => match M.rd A ((n + 1) * i) with Some v => M.wr d i v | None => None end) (fun (_ : nat) (d : list T) => d).
  Qed.
  Theorem tie_a_real_ldl_D : forall (n : nat) (A d : list T), U32 n -> gen_a_real_ldl_D O n A 0 d 0 = F.ldl_D n A d.
  Proof.
    intros n A d Hn. unfold gen_a_real_ldl_D, gen_a_real_diag1, F.ldl_D, F.diag1. cbv zeta. rewrite fits64_succ by exact Hn.
    rewrite diag1_l1 by (first [lia | u32]). destruct (M.for_range 0 n _ d); reflexivity.
  Qed.
End Tie.
