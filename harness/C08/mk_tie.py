#!/usr/bin/env python3
"""Writes harness/C08/TieFac*.v and harness/C08/tie_names.txt: the LDL^T and Cholesky families and the permutation-free PLU
routines of src/linalg_{ldl,llt,plu}.c, UNROLLED by tools/c2coq.py for orders 0..4 with exactly sized arrays (callees inlined,
also across files), against the hand model coq/C08/FactorDefs.v - for ALL matrix entries and every NumOps instance.
(a_real_plu itself, P, P_, apply, solve, inv need run-time pivot indices and are tied by the bit-exact correspondence only;
the sgndet routines leave their loop with `break`.)"""
import sys

NS = (0, 1, 2, 3, 4)
names, thms = [], []


def lst(bs):
    return "[" + "; ".join(bs) + "]"


def add(src, cname, n, arrays, hand, kind, extra_ints=(), tag=""):
    """arrays: [(C name, length, const?)]; kind: 'rc' (returns a status, first array in place), 'out' (arrays), 'val' (returns a real),
    'inv' (two output arrays b, I)"""
    ints = [("n", n)] + list(extra_ints)
    spec = "%s@%s;%s" % (cname, ",".join("%s=%d" % kv for kv in ints), ",".join("%s=%d" % (a, k) for a, k, _ in arrays))
    names.append((src, spec))
    gen = "gen_%s%s" % (cname, "".join("_%s%s" % (k, str(v).replace("-", "m")) for k, v in ints))
    B = {a: ["%s%d" % (a, i) for i in range(k)] for a, k, _ in arrays}
    allb = [b for a, k, _ in arrays for b in B[a]]
    outs = {a: ["o%s%d" % (a, i) for i in range(k)] for a, k, c in arrays if not c}
    flat = [o for a, k, c in arrays if not c for o in outs[a]]
    call = ("%s O %s" % (gen, " ".join(allb))) if allb else ("%s O" % gen)
    q = ("forall %s, " % " ".join(allb)) if allb else ""
    lhs = hand(B)
    name = "tie_%s_n%d%s" % (cname[7:], n, tag)
    if kind == "val":
        thms.append("  Theorem %s : %s\n    %s = Some (%s).\n  Proof. intros. cbv. reflexivity. Qed.\n" % (name, q, lhs, call))
    elif kind == "out":
        if not flat:
            rhs = "Some []" if len(outs) == 1 else "Some (%s)" % ", ".join("[]" for _ in outs)
        else:
            pat = ("'(" + ", ".join(flat) + ")") if len(flat) > 1 else flat[0]
            if len(outs) == 1:
                rhs = "Some (let %s := %s in %s)" % (pat, call, lst(flat))
            else:
                rhs = "Some (let %s := %s in (%s))" % (pat, call, ", ".join(lst(outs[a]) for a in outs))
        thms.append("  Theorem %s : %s\n    %s = %s.\n  Proof. intros. cbv. reflexivity. Qed.\n" % (name, q, lhs, rhs))
    elif kind == "rc":
        a0 = [a for a in outs][0]
        pat = "'(" + ", ".join(flat + ["r"]) + ")" if flat else "r"
        thms.append("  Theorem %s : %s\n    match %s with\n    | Some (rc, A') => let %s := %s in A' = %s /\\ r = G.ofZ O (Z.of_nat rc)\n    | None => False\n    end.\n  Proof. rc_tie. Qed.\n"
                    % (name, q, lhs, pat, call, lst(outs[a0])))


for fam, src in (("ldl", "src/linalg_ldl.c"), ("llt", "src/linalg_llt.c")):
    for n in NS:
        nn = n * n
        add(src, "a_real_%s" % fam, n, [("A", nn, False)], lambda B, fam=fam, n=n: "F.%s adapt %d %s" % (fam, n, lst(B["A"])), "rc")
        add(src, "a_real_%s_L" % fam, n, [("A", nn, True), ("L", nn, False)], lambda B, fam=fam, n=n: "F.%s_L adapt %d %s %s" % (fam, n, lst(B["A"]), lst(B["L"])), "out")
        if fam == "ldl":
            add(src, "a_real_ldl_D", n, [("A", nn, True), ("d", n, False)], lambda B, n=n: "@F.ldl_D T %d %s %s" % (n, lst(B["A"]), lst(B["d"])), "out")
        for f, v in (("lower", "y"), ("upper", "x")):
            add(src, "a_real_%s_%s" % (fam, f), n, [("L", nn, True), (v, n, False)],
                lambda B, fam=fam, f=f, v=v, n=n: "F.%s_%s adapt %d %s %s" % (fam, f, n, lst(B["L"]), lst(B[v])), "out")
            add(src, "a_real_%s_%s_" % (fam, f), n, [("L", nn, True), (v, nn, False)],
                lambda B, fam=fam, f=f, v=v, n=n: "F.%s_%s_ adapt %d %s %s 0" % (fam, f, n, lst(B["L"]), lst(B[v])), "out")
        add(src, "a_real_%s_solve" % fam, n, [("A", nn, True), ("x", n, False)], lambda B, fam=fam, n=n: "F.%s_solve adapt %d %s %s" % (fam, n, lst(B["A"]), lst(B["x"])), "out")
        add(src, "a_real_%s_inv" % fam, n, [("A", nn, True), ("b", n, False), ("I", nn, False)],
            lambda B, fam=fam, n=n: "F.%s_inv adapt %d %s %s %s" % (fam, n, lst(B["A"]), lst(B["b"]), lst(B["I"])), "out")
        add(src, "a_real_%s_inv_" % fam, n, [("A", nn, True), ("I", nn, False)], lambda B, fam=fam, n=n: "F.%s_inv_ adapt %d %s %s" % (fam, n, lst(B["A"]), lst(B["I"])), "out")
        add(src, "a_real_%s_det" % fam, n, [("A", nn, True)], lambda B, fam=fam, n=n: "F.%s_det adapt %d %s" % (fam, n, lst(B["A"])), "val")
        add(src, "a_real_%s_lndet" % fam, n, [("A", nn, True)], lambda B, fam=fam, n=n: "F.%s_lndet adapt %d %s" % (fam, n, lst(B["A"])), "val")
src = "src/linalg_plu.c"
for n in NS:
    nn = n * n
    add(src, "a_real_plu_L", n, [("A", nn, True), ("L", nn, False)], lambda B, n=n: "F.plu_L adapt %d %s %s" % (n, lst(B["A"]), lst(B["L"])), "out")
    add(src, "a_real_plu_U", n, [("A", nn, True), ("U", nn, False)], lambda B, n=n: "F.plu_U adapt %d %s %s" % (n, lst(B["A"]), lst(B["U"])), "out")
    add(src, "a_real_plu_lower", n, [("L", nn, True), ("y", n, False)], lambda B, n=n: "F.plu_lower adapt %d %s %s" % (n, lst(B["L"]), lst(B["y"])), "out")
    add(src, "a_real_plu_lower_", n, [("L", nn, True), ("y", nn, False)], lambda B, n=n: "F.plu_lower_ adapt %d %s %s 0" % (n, lst(B["L"]), lst(B["y"])), "out")
    add(src, "a_real_plu_upper", n, [("U", nn, True), ("x", n, False)], lambda B, n=n: "F.plu_upper adapt %d %s %s" % (n, lst(B["U"]), lst(B["x"])), "out")
    add(src, "a_real_plu_upper_", n, [("U", nn, True), ("x", nn, False)], lambda B, n=n: "F.plu_upper_ adapt %d %s %s 0" % (n, lst(B["U"]), lst(B["x"])), "out")
    for sg in (1, -1):
        add(src, "a_real_plu_det", n, [("A", nn, True)], lambda B, n=n, sg=sg: "F.plu_det adapt %d %s (%d)%%Z" % (n, lst(B["A"]), sg), "val",
            extra_ints=[("sign", sg)], tag="_s%s" % ("p" if sg > 0 else "m"))
    add(src, "a_real_plu_lndet", n, [("A", nn, True)], lambda B, n=n: "F.plu_lndet adapt %d %s" % (n, lst(B["A"])), "val")

HEAD = """(* GENERATED ONCE by harness/C08/mk_tie.py and committed: tie between the UNROLLED translation of the LDL^T / Cholesky families and
   the permutation-free PLU routines (module Gen.GenFac, regenerated on every run by tools/c2coq.py with the order fixed, arrays
   exactly sized, callees inlined) and the hand model C08/FactorDefs.v.  For every routine and every order 0..4: for ALL matrix
   entries and EVERY instance of the numeric interface the model returns exactly what the translated C computes, operation for
   operation; for the factorisations themselves (dynamic failure exits) the statement is by cases on the pivot tests, which
   both sides perform on the same terms. *)
From Coq Require Import ZArith List Bool.
From LibaV Require Common.NumOps C08.NumOps C08.FactorDefs.
From Gen Require Import GenFac.
Import ListNotations.
Module G := LibaV.Common.NumOps.
Module M := LibaV.C08.NumOps.
Module F := LibaV.C08.FactorDefs.

Section Tie.
  Context {T : Type} (O : G.NumOps T).
  (* the numeric interface of the C08 model, read off the common one: A_REAL_MIN = 2^-1022, log = libm *)
  Definition adapt : M.NumOps T :=
    {| M.zero := G.ofZ O 0; M.one := G.ofZ O 1; M.add := G.add O; M.sub := G.sub O; M.mul := G.mul O; M.div := G.div O;
       M.abs := G.abs O; M.sqrt := G.sqrt O; M.ln := G.fn1 O G.Log; M.ltb := G.ltb O; M.eqb := G.eqb O; M.ofZ := G.ofZ O;
       M.tiny := G.ofD O 1 (-1022) |}.

  Ltac rc_tie := intros; cbv;
    repeat (match goal with |- context [if ?c then _ else _] =>
              lazymatch c with context [if _ then _ else _] => fail | _ => destruct c end end; cbv beta iota);
    repeat split; reflexivity.
"""
K = 8
d = sys.argv[1]
for k in range(K):
    open("%s/TieFac%d.v" % (d, k + 1), "w").write(HEAD + "\n" + "\n".join(thms[k::K]) + "End Tie.\n")
open("%s/tie_names.txt" % d, "w").write("\n".join("%s %s" % sn for sn in names) + "\n")
print(len(names), "specialisations")
