(* GENERATED ONCE by harness/C08/mk_tie.py and committed: tie between the UNROLLED translation of the LDL^T / Cholesky families and
   the permutation-free PLU routines (module Gen.GenFac, regenerated on every run by tools/c2coq.py with the order fixed, arrays
   exactly sized, callees inlined) and the hand model C08/FactorDefs.v.  For every routine and every order 0..4: for ALL matrix
   entries and EVERY instance of the numeric interface the model returns exactly what the translated C computes, operation for
   operation; for the factorisations themselves (dynamic failure exits) the statement is by cases on the pivot tests, which
   both sides perform on the same terms. *)
From Coq Require Import ZArith List Bool.
From LibaV Require Common.NumOps C08.NumOps C08.FactorDefs.
From Gen Require Import GenFac.
Import ListNotations.
Module G := LibaV.Common.NumOps.
Module M := LibaV.C08.NumOps.
Module F := LibaV.C08.FactorDefs.

Section Tie.
  Context {T : Type} (O : G.NumOps T).
  (* the numeric interface of the C08 model, read off the common one: A_REAL_MIN = 2^-1022, log = libm *)
  Definition adapt : M.NumOps T :=
    {| M.zero := G.ofZ O 0; M.one := G.ofZ O 1; M.add := G.add O; M.sub := G.sub O; M.mul := G.mul O; M.div := G.div O;
       M.abs := G.abs O; M.sqrt := G.sqrt O; M.ln := G.fn1 O G.Log; M.ltb := G.ltb O; M.eqb := G.eqb O; M.ofZ := G.ofZ O;
       M.tiny := G.ofD O 1 (-1022) |}.

  Ltac rc_tie := intros; cbv;
    repeat (match goal with |- context [if ?c then _ else _] =>
              lazymatch c with context [if _ then _ else _] => fail | _ => destruct c end end; cbv beta iota);
    repeat split; reflexivity.

  Theorem tie_ldl_lower_n0 : 
    F.ldl_lower adapt 0 [] [] = Some [].
  Proof. intros. cbv. reflexivity. Qed.

  Theorem tie_ldl_lndet_n0 : 
    F.ldl_lndet adapt 0 [] = Some (gen_a_real_ldl_lndet_n0 O).
  Proof. intros. cbv. reflexivity. Qed.

  Theorem tie_ldl_solve_n1 : forall A0 x0, 
    F.ldl_solve adapt 1 [A0] [x0] = Some (let ox0 := gen_a_real_ldl_solve_n1 O A0 x0 in [ox0]).
  Proof. intros. cbv. reflexivity. Qed.

  Theorem tie_ldl_lower_n2 : forall L0 L1 L2 L3 y0 y1, 
    F.ldl_lower adapt 2 [L0; L1; L2; L3] [y0; y1] = Some (let '(oy0, oy1) := gen_a_real_ldl_lower_n2 O L0 L1 L2 L3 y0 y1 in [oy0; oy1]).
  Proof. intros. cbv. reflexivity. Qed.

  Theorem tie_ldl_lndet_n2 : forall A0 A1 A2 A3, 
    F.ldl_lndet adapt 2 [A0; A1; A2; A3] = Some (gen_a_real_ldl_lndet_n2 O A0 A1 A2 A3).
  Proof. intros. cbv. reflexivity. Qed.

  Theorem tie_ldl_solve_n3 : forall A0 A1 A2 A3 A4 A5 A6 A7 A8 x0 x1 x2, 
    F.ldl_solve adapt 3 [A0; A1; A2; A3; A4; A5; A6; A7; A8] [x0; x1; x2] = Some (let '(ox0, ox1, ox2) := gen_a_real_ldl_solve_n3 O A0 A1 A2 A3 A4 A5 A6 A7 A8 x0 x1 x2 in [ox0; ox1; ox2]).
  Proof. intros. cbv. reflexivity. Qed.

  Theorem tie_ldl_lower_n4 : forall L0 L1 L2 L3 L4 L5 L6 L7 L8 L9 L10 L11 L12 L13 L14 L15 y0 y1 y2 y3, 
    F.ldl_lower adapt 4 [L0; L1; L2; L3; L4; L5; L6; L7; L8; L9; L10; L11; L12; L13; L14; L15] [y0; y1; y2; y3] = Some (let '(oy0, oy1, oy2, oy3) := gen_a_real_ldl_lower_n4 O L0 L1 L2 L3 L4 L5 L6 L7 L8 L9 L10 L11 L12 L13 L14 L15 y0 y1 y2 y3 in [oy0; oy1; oy2; oy3]).
  Proof. intros. cbv. reflexivity. Qed.

  Theorem tie_ldl_lndet_n4 : forall A0 A1 A2 A3 A4 A5 A6 A7 A8 A9 A10 A11 A12 A13 A14 A15, 
    F.ldl_lndet adapt 4 [A0; A1; A2; A3; A4; A5; A6; A7; A8; A9; A10; A11; A12; A13; A14; A15] = Some (gen_a_real_ldl_lndet_n4 O A0 A1 A2 A3 A4 A5 A6 A7 A8 A9 A10 A11 A12 A13 A14 A15).
  Proof. intros. cbv. reflexivity. Qed.

  Theorem tie_llt_inv_n0 : 
    F.llt_inv adapt 0 [] [] [] = Some ([], []).
  Proof. intros. cbv. reflexivity. Qed.

  Theorem tie_llt_upper_n1 : forall L0 x0, 
    F.llt_upper adapt 1 [L0] [x0] = Some (let ox0 := gen_a_real_llt_upper_n1 O L0 x0 in [ox0]).
  Proof. intros. cbv. reflexivity. Qed.

  Theorem tie_llt_L_n2 : forall A0 A1 A2 A3 L0 L1 L2 L3, 
    F.llt_L adapt 2 [A0; A1; A2; A3] [L0; L1; L2; L3] = Some (let '(oL0, oL1, oL2, oL3) := gen_a_real_llt_L_n2 O A0 A1 A2 A3 L0 L1 L2 L3 in [oL0; oL1; oL2; oL3]).
  Proof. intros. cbv. reflexivity. Qed.

  Theorem tie_llt_det_n2 : forall A0 A1 A2 A3, 
    F.llt_det adapt 2 [A0; A1; A2; A3] = Some (gen_a_real_llt_det_n2 O A0 A1 A2 A3).
  Proof. intros. cbv. reflexivity. Qed.

  Theorem tie_llt_solve_n3 : forall A0 A1 A2 A3 A4 A5 A6 A7 A8 x0 x1 x2, 
    F.llt_solve adapt 3 [A0; A1; A2; A3; A4; A5; A6; A7; A8] [x0; x1; x2] = Some (let '(ox0, ox1, ox2) := gen_a_real_llt_solve_n3 O A0 A1 A2 A3 A4 A5 A6 A7 A8 x0 x1 x2 in [ox0; ox1; ox2]).
  Proof. intros. cbv. reflexivity. Qed.

  Theorem tie_llt_lower__n4 : forall L0 L1 L2 L3 L4 L5 L6 L7 L8 L9 L10 L11 L12 L13 L14 L15 y0 y1 y2 y3 y4 y5 y6 y7 y8 y9 y10 y11 y12 y13 y14 y15, 
    F.llt_lower_ adapt 4 [L0; L1; L2; L3; L4; L5; L6; L7; L8; L9; L10; L11; L12; L13; L14; L15] [y0; y1; y2; y3; y4; y5; y6; y7; y8; y9; y10; y11; y12; y13; y14; y15] 0 = Some (let '(oy0, oy1, oy2, oy3, oy4, oy5, oy6, oy7, oy8, oy9, oy10, oy11, oy12, oy13, oy14, oy15) := gen_a_real_llt_lower__n4 O L0 L1 L2 L3 L4 L5 L6 L7 L8 L9 L10 L11 L12 L13 L14 L15 y0 y1 y2 y3 y4 y5 y6 y7 y8 y9 y10 y11 y12 y13 y14 y15 in [oy0; oy1; oy2; oy3; oy4; oy5; oy6; oy7; oy8; oy9; oy10; oy11; oy12; oy13; oy14; oy15]).
  Proof. intros. cbv. reflexivity. Qed.

  Theorem tie_plu_L_n0 : 
    F.plu_L adapt 0 [] [] = Some [].
  Proof. intros. cbv. reflexivity. Qed.

  Theorem tie_plu_lndet_n0 : 
    F.plu_lndet adapt 0 [] = Some (gen_a_real_plu_lndet_n0 O).
  Proof. intros. cbv. reflexivity. Qed.

  Theorem tie_plu_det_n1_sm : forall A0, 
    F.plu_det adapt 1 [A0] (-1)%Z = Some (gen_a_real_plu_det_n1_signm1 O A0).
  Proof. intros. cbv. reflexivity. Qed.

  Theorem tie_plu_det_n2_sp : forall A0 A1 A2 A3, 
    F.plu_det adapt 2 [A0; A1; A2; A3] (1)%Z = Some (gen_a_real_plu_det_n2_sign1 O A0 A1 A2 A3).
  Proof. intros. cbv. reflexivity. Qed.

  Theorem tie_plu_upper__n3 : forall U0 U1 U2 U3 U4 U5 U6 U7 U8 x0 x1 x2 x3 x4 x5 x6 x7 x8, 
    F.plu_upper_ adapt 3 [U0; U1; U2; U3; U4; U5; U6; U7; U8] [x0; x1; x2; x3; x4; x5; x6; x7; x8] 0 = Some (let '(ox0, ox1, ox2, ox3, ox4, ox5, ox6, ox7, ox8) := gen_a_real_plu_upper__n3 O U0 U1 U2 U3 U4 U5 U6 U7 U8 x0 x1 x2 x3 x4 x5 x6 x7 x8 in [ox0; ox1; ox2; ox3; ox4; ox5; ox6; ox7; ox8]).
  Proof. intros. cbv. reflexivity. Qed.

  Theorem tie_plu_upper_n4 : forall U0 U1 U2 U3 U4 U5 U6 U7 U8 U9 U10 U11 U12 U13 U14 U15 x0 x1 x2 x3, 
    F.plu_upper adapt 4 [U0; U1; U2; U3; U4; U5; U6; U7; U8; U9; U10; U11; U12; U13; U14; U15] [x0; x1; x2; x3] = Some (let '(ox0, ox1, ox2, ox3) := gen_a_real_plu_upper_n4 O U0 U1 U2 U3 U4 U5 U6 U7 U8 U9 U10 U11 U12 U13 U14 U15 x0 x1 x2 x3 in [ox0; ox1; ox2; ox3]).
  Proof. intros. cbv. reflexivity. Qed.
End Tie.
