(* All-orders translator tie of C08, part 8: the factorisation with partial pivoting a_real_plu of src/linalg_plu.c (with a_real_swap of
   src/math.c, which it calls on two rows of A).  Gen.GenLoop is regenerated on every run by tools/c2arr.py from the CURRENT sources.
   What is new against parts 1-7: the pivot search leaves three objects (max_x, abs_x, max_i - the last an integer index) in different
   states in the two arms of `if (abs_r > abs_x)`; c2arr joins them as a tuple-valued `if`, plu_l3 ties that loop to F.plu_maxstep.
   `*sign = -*sign` is integer arithmetic on a signed object: c2arr carries such objects in Z and checks every result to be an int
   (zfits 32); the sign object is a one-cell `list Z`.  The early `return A_FAILURE` on a tiny pivot is carried as in a_real_ldl: one
   column of the generated loop equals F.plu_step (plu_step_tie), a failed state is sticky in the model's loop (plu_sticky).
   For EVERY NumOps instance (through `adapt`), EVERY order n that is an a_uint value (U32), every matrix A and arrays p, sign of any
   length (too short: None on both sides), whatever p and *sign held before:
     tie_a_real_plu   generated (A, p, [sign], return code 0/1) = F.plu (rc, {pA; pp; psign}) *)
From Coq Require Import ZArith NArith List Bool Arith Lia.
From LibaV Require Import C09.LinalgSpec C09.LinalgLemmas C09.LoopTieLemmas C08.LoopTieLemmas.
From Gen Require Import GenLoop TieLoopBase.
Import ListNotations.

Section Tie.
  Context {T : Type} (O : G.NumOps T).
  Local Notation A_ := (adapt O).
  Local Notation "a -- b" := (M.sub A_ a b) (at level 50, left associativity).
  Local Notation "a ** b" := (M.mul A_ a b) (at level 40, left associativity).
  Local Notation "a // b" := (M.div A_ a b) (at level 40, left associativity).

  (* ------------------------------------------------------------------------------------------------ a_real_swap on two rows of A *)
  Lemma swap_loop (ol orr : nat) : forall cnt k A,   (* for tie_a_real_plu *)
    gen_a_real_swap_loop1 O cnt A (ol + k) (orr + k) =
    M.forM k cnt (fun k A => match M.rd A (ol + k) with Some x => match M.rd A (orr + k) with Some y => match M.wr A (ol + k) y with Some A1 =>
      M.wr A1 (orr + k) x | None => None end | None => None end | None => None end) A.
  Proof.
    induction cnt as [|cnt IH]; intros k A; [reflexivity|]. cbn [gen_a_real_swap_loop1 M.forM]. unfold M.rd.
    destruct (nth_error A (ol + k)) as [x|]; [|reflexivity]. destruct (nth_error A (orr + k)) as [y|]; [|reflexivity].
    rewrite upd_wr. destruct (M.wr A (ol + k) y) as [A1|]; [|reflexivity].
    rewrite upd_wr. destruct (M.wr A1 (orr + k) x) as [A2|]; [|reflexivity].
    rewrite !Nat.add_1_r, <- !Nat.add_succ_r. apply IH.
  Qed.
  Lemma swap_tie (n ol orr : nat) (A : list T) : gen_a_real_swap O n A ol orr = F.real_swap n A ol orr.   (* for tie_a_real_plu *)
  Proof.
    unfold gen_a_real_swap, F.real_swap, M.for_range. rewrite Nat.sub_0_r.
    pose proof (swap_loop ol orr n 0 A) as H. rewrite !Nat.add_0_r in H. exact H.
  Qed.

  (* ------------------------------------------------------------------------------------------------ a_real_plu *)
  Lemma plu_l1 (n : nat) (Hn : U32 n) : forall fg lo (p : list nat), n - lo < fg ->   (* for tie_a_real_plu *)
    gen_a_real_plu_loop1 O fg n 0 p lo = omap (fun p : list nat => p) (M.for_range lo n (fun i p => M.wr p i i) p).
  Proof.
    for_simple (@gen_a_real_plu_loop1) (fun f i p => gen_a_real_plu_loop1 O f n 0 p i) n (fun i (p : list nat) => M.wr p i i) (fun (_ : nat) (p : list nat) => p).
  Qed.

  (* the pivot search: state of the model (max_x, abs_x, max_i) *)
  Lemma plu_l3 (n i : nat) (A : list T) (Hn : U32 n) (Hi : i < n) : forall fg lo s, n - lo < fg ->   (* for tie_a_real_plu *)
    gen_a_real_plu_loop3 O fg n 0 i A lo (snd (fst s)) (fst (fst s)) (snd s) =
    omap (fun s : T * T * nat => (Nat.max lo n, snd (fst s), fst (fst s), snd s)) (M.for_range lo n (F.plu_maxstep A_ n i A) s).
  Proof.
    intros fg lo s Hf.
    refine (for_tie (fun f r (s : T * T * nat) => gen_a_real_plu_loop3 O f n 0 i A r (snd (fst s)) (fst (fst s)) (snd s)) n (F.plu_maxstep A_ n i A)
              (fun (r : nat) (s : T * T * nat) => (r, snd (fst s), fst (fst s), snd s)) _ _ fg lo s Hf).
    - intros f r [[mx ax] mi] Hr. cbn [fst snd gen_a_real_plu_loop3]. cond_true Hr. repeat arith_step.
      unfold F.plu_maxstep, M.rd. destruct (nth_error A (n * r + i)) as [v|]; [|reflexivity]. repeat arith_step.
      destruct (G.ltb O ax (G.abs O v)); rewrite Nat.add_1_r; reflexivity.
    - intros f r [[mx ax] mi] Hr. cbn [fst snd gen_a_real_plu_loop3]. cond_false Hr. reflexivity.
  Qed.

  Definition elim_body (n i r : nat) (x : T) (c : nat) (A : list T) : option (list T) :=
    match M.rd A (n * r + c) with Some arc => match M.rd A (n * i + c) with Some aic => M.wr A (n * r + c) (arc -- aic ** x) | None => None end | None => None end.
  Lemma plu_l5 (n i r : nat) (x : T) (Hn : U32 n) : forall fg lo A, n - lo < fg ->   (* for tie_a_real_plu *)
    gen_a_real_plu_loop5 O fg n (n * r) (n * i) x A lo = omap (fun A : list T => (A, Nat.max lo n)) (M.for_range lo n (elim_body n i r x) A).
  Proof.
    for_simple (@gen_a_real_plu_loop5) (fun f c A => gen_a_real_plu_loop5 O f n (n * r) (n * i) x A c) n (elim_body n i r x) (fun (c : nat) (A : list T) => (A, c)).
  Qed.
  Lemma elim_row_eq n i mx r A : F.plu_elim_row A_ n i mx r A =
    match M.rd A (n * r + i) with Some ari => match M.for_range (i + 1) n (elim_body n i r (ari // mx)) A with Some A1 => M.wr A1 (n * r + i) (ari // mx) | None => None end | None => None end.
  Proof. reflexivity. Qed.
  Lemma plu_l4 (n i : nat) (mx : T) (Hn : U32 n) (Hi : i < n) : forall fg lo A, n - lo < fg ->   (* for tie_a_real_plu *)
    gen_a_real_plu_loop4 O fg n 0 i mx (n * i) A lo = omap (fun A : list T => (A, Nat.max lo n)) (M.for_range lo n (F.plu_elim_row A_ n i mx) A).
  Proof.
    intros fg lo A Hf.
    refine (for_tie (fun f r A => gen_a_real_plu_loop4 O f n 0 i mx (n * i) A r) n (F.plu_elim_row A_ n i mx) (fun (r : nat) (A : list T) => (A, r)) _ _ fg lo A Hf).
    - intros f r s Hr. cbn [gen_a_real_plu_loop4]. cond_true Hr. repeat arith_step. rewrite elim_row_eq. unfold M.rd.
      destruct (nth_error s (n * r + i)) as [ari|]; [|reflexivity]. repeat arith_step.
      rewrite plu_l5 by (first [lia | u32]).
      destruct (M.for_range (i + 1) n (elim_body n i r (G.div O ari mx)) s) as [A1|]; cbn [omap]; [|reflexivity]. sim.
    - intros f r s Hr. cbn [gen_a_real_plu_loop4]. cond_false Hr. reflexivity.
  Qed.

  Definition st_of (A : list T) (p : list nat) (sg : Z) : F.plu_st := {| F.pA := A; F.pp := p; F.psign := sg |}.
  Definition plu_out (r : option (nat * F.plu_st (T := T))) : option ((list T * list nat * list Z) + (list T * list nat * list Z * Z)) :=
    match r with
    | Some (0, st) => Some (inl (F.pA st, F.pp st, [F.psign st]))
    | Some (S _, st) => Some (inr (F.pA st, F.pp st, [F.psign st], 1%Z))
    | None => None
    end.

  (* one column: pivot search, failure test, row exchange with its sign flip, elimination - the model's plu_step *)
  Lemma plu_step_tie (n i : nat) (Hn : U32 n) (Hi : i < n) (A : list T) (p : list nat) (sg : Z) (Hsg : sg = 1%Z \/ sg = (-1)%Z) (f : nat) :   (* for tie_a_real_plu *)
    gen_a_real_plu_loop2 O (S f) n 0 0 0 A p [sg] i =
    match F.plu_step A_ n i (st_of A p sg) with
    | Some (0, st) => gen_a_real_plu_loop2 O f n 0 0 0 (F.pA st) (F.pp st) [F.psign st] (S i)
    | Some (S _, st) => Some (inr (F.pA st, F.pp st, [F.psign st], 1%Z))
    | None => None
    end.
  Proof.
    cbn [gen_a_real_plu_loop2]. replace (i <? n) with true by (symmetry; apply Nat.ltb_lt; exact Hi). repeat arith_step.
    unfold F.plu_step, st_of. cbn [F.pA F.pp F.psign]. unfold M.rd.
    destruct (nth_error A (n * i + i)) as [v0|]; [|reflexivity]. repeat arith_step.
    pose proof (plu_l3 n i A Hn Hi (S (n - (i + 1))) (i + 1) (v0, G.abs O v0, i) ltac:(lia)) as H3. cbn [fst snd] in H3. rewrite H3. clear H3.
    destruct (M.for_range (i + 1) n (F.plu_maxstep A_ n i A) (v0, G.abs O v0, i)) as [[[mx ax] mi]|] eqn:Em; cbn [omap fst snd]; [|reflexivity].
    assert (Hmi : mi < n) by (unfold M.for_range in Em; apply (maxstep_index A_ n i A _ _ _ _ _ _ _ _ Em); lia).
    destruct (G.ltb O ax (G.ofD O 1 (-1022))); [reflexivity|].
    destruct (mi =? i) eqn:Emi.
    - cbn [F.pA F.pp F.psign]. rewrite Nat.add_1_r. rewrite plu_l4 by (first [lia | u32 | assumption]). rewrite <- (Nat.add_1_r i).
      destruct (M.for_range (i + 1) n (F.plu_elim_row A_ n i mx) A) as [A2|]; cbn [omap F.pA F.pp F.psign]; [|reflexivity].
      repeat arith_step. rewrite Nat.add_1_r. reflexivity.
    - destruct (nth_error p i) as [u|]; [|reflexivity]. destruct (nth_error p mi) as [w|]; [|reflexivity].
      rewrite upd_wr. destruct (M.wr p i w) as [p1|]; [|reflexivity].
      rewrite upd_wr. destruct (M.wr p1 mi u) as [p2|]; [|reflexivity].
      cbn [nth_error]. replace (zfits 32 (- sg)) with true by (destruct Hsg; subst sg; reflexivity).
      cbn [GenLoop.upd length Nat.ltb Nat.leb firstn skipn app]. repeat arith_step.
      rewrite swap_tie. destruct (F.real_swap n A (n * i) (n * mi)) as [A1|]; [|reflexivity]. cbn [F.pA F.pp F.psign].
      rewrite Nat.add_1_r. rewrite plu_l4 by (first [lia | u32 | assumption]). rewrite <- (Nat.add_1_r i).
      destruct (M.for_range (i + 1) n (F.plu_elim_row A_ n i mx) A1) as [A2|]; cbn [omap F.pA F.pp F.psign]; [|reflexivity].
      repeat arith_step. rewrite Nat.add_1_r. reflexivity.
  Qed.

  Lemma plu_step_sign (n i : nat) (st st' : F.plu_st (T := T)) (rc : nat) :
    F.plu_step A_ n i st = Some (rc, st') -> F.psign st = 1%Z \/ F.psign st = (-1)%Z -> F.psign st' = 1%Z \/ F.psign st' = (-1)%Z.
  Proof.
    unfold F.plu_step. intros H Hs.
    destruct (M.rd (F.pA st) (n * i + i)) as [v0|]; [|discriminate H].
    destruct (M.for_range (i + 1) n _ _) as [[[mx ax] mi]|]; [|discriminate H].
    destruct (M.ltb A_ ax (M.tiny A_)); [injection H as _ <-; exact Hs|].
    destruct (mi =? i).
    - destruct (M.for_range (i + 1) n _ (F.pA st)); [|discriminate H]. injection H as _ <-. exact Hs.
    - destruct (M.rd (F.pp st) i); [|discriminate H]. destruct (M.rd (F.pp st) mi); [|discriminate H].
      destruct (M.wr (F.pp st) i _); [|discriminate H]. destruct (M.wr _ mi _); [|discriminate H].
      destruct (F.real_swap n (F.pA st) (n * i) (n * mi)); [|discriminate H]. cbn [F.pA F.pp F.psign] in H.
      destruct (M.for_range (i + 1) n _ _); [|discriminate H]. injection H as _ <-. cbn [F.psign]. destruct Hs as [-> | ->]; [right|left]; reflexivity.
  Qed.

  Lemma plu_sticky (n : nat) (k : nat) (st : F.plu_st (T := T)) : forall cnt lo,
    M.forM lo cnt (fun i (s : nat * F.plu_st) => if Nat.eqb (fst s) 0 then F.plu_step A_ n i (snd s) else Some s) (S k, st) = Some (S k, st).
  Proof. induction cnt as [|cnt IH]; intros lo; [reflexivity|]. cbn [M.forM fst Nat.eqb]. apply IH. Qed.

  Lemma plu_l2 (n : nat) (Hn : U32 n) : forall k fg i (st : F.plu_st), i + k = n -> k < fg -> F.psign st = 1%Z \/ F.psign st = (-1)%Z ->   (* for tie_a_real_plu *)
    gen_a_real_plu_loop2 O fg n 0 0 0 (F.pA st) (F.pp st) [F.psign st] i =
    plu_out (M.forM i k (fun i (s : nat * F.plu_st) => if Nat.eqb (fst s) 0 then F.plu_step A_ n i (snd s) else Some s) (0, st)).
  Proof.
    induction k as [|k IH]; intros fg i st Hi Hf Hs; (destruct fg as [|fg]; [lia|]).
    - cbn [M.forM plu_out gen_a_real_plu_loop2]. replace (i <? n) with false by (symmetry; apply Nat.ltb_ge; lia). reflexivity.
    - rewrite (plu_step_tie n i Hn ltac:(lia) (F.pA st) (F.pp st) (F.psign st) Hs fg). cbn [M.forM fst snd Nat.eqb].
      replace (st_of (F.pA st) (F.pp st) (F.psign st)) with st by (destruct st; reflexivity).
      destruct (F.plu_step A_ n i st) as [[[|rc] st1]|] eqn:Es; [|rewrite plu_sticky; reflexivity|reflexivity].
      apply IH; [lia|lia|]. apply (plu_step_sign n i st st1 0 Es Hs).
  Qed.

  (* rc: 0 = A_SUCCESS, 1 = A_FAILURE; `int *sign` points to one int, which the function first sets to 1 *)
  Theorem tie_a_real_plu : forall (n : nat) (A : list T) (p0 : list nat) (s0 : Z), U32 n ->
    gen_a_real_plu O n A 0 p0 0 [s0] 0 =
    match F.plu A_ n A p0 with
    | Some (0, st) => Some (F.pA st, F.pp st, [F.psign st], 0%Z)
    | Some (S _, st) => Some (F.pA st, F.pp st, [F.psign st], 1%Z)
    | None => None
    end.
  Proof.
    intros n A p0 s0 Hn. unfold gen_a_real_plu, F.plu. cbv zeta. cbn [GenLoop.upd length Nat.ltb Nat.leb firstn skipn app].
    rewrite plu_l1 by (first [lia | u32]). destruct (M.for_range 0 n (fun i p => M.wr p i i) p0) as [p1|]; cbn [omap]; [|reflexivity].
    unfold M.for_range at 1. rewrite Nat.sub_0_r.
    pose proof (plu_l2 n Hn n (S n) 0 {| F.pA := A; F.pp := p1; F.psign := 1%Z |} (eq_refl _) (Nat.lt_succ_diag_r _) (or_introl eq_refl)) as H.
    cbn [F.pA F.pp F.psign] in H. rewrite H. clear H.
    destruct (M.forM 0 n _ (0, _)) as [[[|rc] st]|]; reflexivity.
  Qed.
End Tie.
