(* All-orders translator tie of C08, part 1: the determinant products of src/linalg_ldl.c, linalg_llt.c, linalg_plu.c.
   Module Gen.GenLoop is regenerated on every run by tools/c2arr.py from the CURRENT sources: every loop is a Fixpoint on fuel, arrays
   are lists with checked access, a_uint counters are nat with `++i` checked to fit 32 bits and the a_size offsets checked to fit 64.
   The hand model C08/FactorDefs.v (the one Properties_C08.v is about) indexes cells in closed form (n * i + i) where the C moves a
   pointer (A += n): the loop lemmas carry the pointer as a function of the counter.  For EVERY NumOps instance (through `adapt`),
   EVERY order n that is an a_uint value (U32) and every array of any length (too short: None on both sides):
     tie_a_real_ldl_det / ldl_lndet / llt_det / llt_lndet / plu_det / plu_lndet  generated = model
   (the `int sign` argument of plu_det is carried in Z: either sign, any int value). *)
From Coq Require Import ZArith NArith List Bool Arith Lia.
From LibaV Require Import C09.LinalgSpec C09.LinalgLemmas C09.LoopTieLemmas C08.LoopTieLemmas.
From Gen Require Import GenLoop TieLoopBase.
Import ListNotations.

Section Tie.
  Context {T : Type} (O : G.NumOps T).
  Local Notation A_ := (adapt O).

  (* r = op(r, A[i]); A += n : the moving pointer is at n * i, the cell read is the diagonal entry n * i + i *)
  Ltac diag_loop loop :=
    let fg := fresh "fg" in let lo := fresh "lo" in let r := fresh "r" in let Hf := fresh "Hf" in
    intros fg lo r Hf;
    match goal with |- _ = omap _ (M.for_range lo ?n ?body r) =>
      refine (for_tie (fun f i r => loop T O f n _ i r (n * i)) n body (fun _ r => r) _ _ fg lo r Hf) end;
    [ intros ? ? ? Hi; cbn [loop]; match goal with |- context [?i <? ?n] => replace (i <? n) with true by (symmetry; apply Nat.ltb_lt; exact Hi) end;
      sim; rewrite <- Nat.mul_succ_r; reflexivity
    | intros ? ? ? Hi; cbn [loop]; match goal with |- context [?i <? ?n] => replace (i <? n) with false by (symmetry; apply Nat.ltb_ge; exact Hi) end;
      reflexivity ].

  Lemma ldl_det_l1 (n : nat) (A : list T) (Hn : U32 n) : forall fg lo r, n - lo < fg ->   (* for tie_a_real_ldl_det *)
    gen_a_real_ldl_det_loop1 O fg n A lo r (n * lo) =
    omap (fun r => r) (M.for_range lo n (fun i r => match M.rd A (n * i + i) with Some a => Some (M.mul A_ r a) | None => None end) r).
  Proof. diag_loop (@gen_a_real_ldl_det_loop1). Qed.
  Theorem tie_a_real_ldl_det : forall (n : nat) (A : list T), U32 n -> gen_a_real_ldl_det O n A 0 = F.ldl_det A_ n A.
  Proof.
    intros n A Hn. unfold gen_a_real_ldl_det, F.ldl_det. cbv zeta.
    pose proof (ldl_det_l1 n A Hn (S n) 0 (G.ofZ O 1) ltac:(lia)) as H. rewrite Nat.mul_0_r in H. rewrite H.
    cbn [M.zero M.one M.ofZ M.mul adapt]. destruct (M.for_range 0 n _ _); reflexivity.
  Qed.

  Lemma ldl_lndet_l1 (n : nat) (A : list T) (Hn : U32 n) : forall fg lo r, n - lo < fg ->   (* for tie_a_real_ldl_lndet *)
    gen_a_real_ldl_lndet_loop1 O fg n A lo r (n * lo) =
    omap (fun r => r) (M.for_range lo n (fun i r => match M.rd A (n * i + i) with Some a => Some (M.add A_ r (M.ln A_ (M.abs A_ a))) | None => None end) r).
  Proof. diag_loop (@gen_a_real_ldl_lndet_loop1). Qed.
  Theorem tie_a_real_ldl_lndet : forall (n : nat) (A : list T), U32 n -> gen_a_real_ldl_lndet O n A 0 = F.ldl_lndet A_ n A.
  Proof.
    intros n A Hn. unfold gen_a_real_ldl_lndet, F.ldl_lndet, F.plu_lndet. cbv zeta.
    pose proof (ldl_lndet_l1 n A Hn (S n) 0 (G.ofZ O 0) ltac:(lia)) as H. rewrite Nat.mul_0_r in H. rewrite H.
    cbn [M.zero M.one M.ofZ M.mul adapt]. destruct (M.for_range 0 n _ _); reflexivity.
  Qed.

  Lemma llt_det_l1 (n : nat) (A : list T) (Hn : U32 n) : forall fg lo r, n - lo < fg ->   (* for tie_a_real_llt_det *)
    gen_a_real_llt_det_loop1 O fg n A lo r (n * lo) =
    omap (fun r => r) (M.for_range lo n (fun i r => match M.rd A (n * i + i) with Some a => Some (M.mul A_ r a) | None => None end) r).
  Proof. diag_loop (@gen_a_real_llt_det_loop1). Qed.
  Theorem tie_a_real_llt_det : forall (n : nat) (A : list T), U32 n -> gen_a_real_llt_det O n A 0 = F.llt_det A_ n A.
  Proof.
    intros n A Hn. unfold gen_a_real_llt_det, F.llt_det. cbv zeta.
    pose proof (llt_det_l1 n A Hn (S n) 0 (G.ofZ O 1) ltac:(lia)) as H. rewrite Nat.mul_0_r in H. rewrite H.
    cbn [M.zero M.one M.ofZ M.mul adapt]. destruct (M.for_range 0 n _ _); reflexivity.
  Qed.

  Lemma llt_lndet_l1 (n : nat) (A : list T) (Hn : U32 n) : forall fg lo r, n - lo < fg ->   (* for tie_a_real_llt_lndet *)
    gen_a_real_llt_lndet_loop1 O fg n A lo r (n * lo) =
    omap (fun r => r) (M.for_range lo n (fun i r => match M.rd A (n * i + i) with Some a => Some (M.add A_ r (M.ln A_ a)) | None => None end) r).
  Proof. diag_loop (@gen_a_real_llt_lndet_loop1). Qed.
  Theorem tie_a_real_llt_lndet : forall (n : nat) (A : list T), U32 n -> gen_a_real_llt_lndet O n A 0 = F.llt_lndet A_ n A.
  Proof.
    intros n A Hn. unfold gen_a_real_llt_lndet, F.llt_lndet. cbv zeta.
    pose proof (llt_lndet_l1 n A Hn (S n) 0 (G.ofZ O 0) ltac:(lia)) as H. rewrite Nat.mul_0_r in H. rewrite H.
    cbn [M.zero M.one M.ofZ M.mul adapt]. destruct (M.for_range 0 n _ _); reflexivity.
  Qed.

  Lemma plu_det_l1 (n : nat) (A : list T) (Hn : U32 n) : forall fg lo r, n - lo < fg ->   (* for tie_a_real_plu_det *)
    gen_a_real_plu_det_loop1 O fg n A lo r (n * lo) =
    omap (fun r => r) (M.for_range lo n (fun i r => match M.rd A (n * i + i) with Some a => Some (M.mul A_ r a) | None => None end) r).
  Proof. diag_loop (@gen_a_real_plu_det_loop1). Qed.
  Theorem tie_a_real_plu_det : forall (n : nat) (A : list T) (sign : Z), U32 n -> gen_a_real_plu_det O n A 0 sign = F.plu_det A_ n A sign.
  Proof.
    intros n A sign Hn. unfold gen_a_real_plu_det, F.plu_det. cbv zeta.
    pose proof (plu_det_l1 n A Hn (S n) 0 (G.ofZ O sign) ltac:(lia)) as H. rewrite Nat.mul_0_r in H. rewrite H.
    cbn [M.zero M.one M.ofZ M.mul adapt]. destruct (M.for_range 0 n _ _); reflexivity.
  Qed.

  Lemma plu_lndet_l1 (n : nat) (A : list T) (Hn : U32 n) : forall fg lo r, n - lo < fg ->   (* for tie_a_real_plu_lndet *)
    gen_a_real_plu_lndet_loop1 O fg n A lo r (n * lo) =
    omap (fun r => r) (M.for_range lo n (fun i r => match M.rd A (n * i + i) with Some a => Some (M.add A_ r (M.ln A_ (M.abs A_ a))) | None => None end) r).
  Proof. diag_loop (@gen_a_real_plu_lndet_loop1). Qed.
  Theorem tie_a_real_plu_lndet : forall (n : nat) (A : list T), U32 n -> gen_a_real_plu_lndet O n A 0 = F.plu_lndet A_ n A.
  Proof.
    intros n A Hn. unfold gen_a_real_plu_lndet, F.plu_lndet. cbv zeta.
    pose proof (plu_lndet_l1 n A Hn (S n) 0 (G.ofZ O 0) ltac:(lia)) as H. rewrite Nat.mul_0_r in H. rewrite H.
    cbn [M.zero M.one M.ofZ M.mul adapt]. destruct (M.for_range 0 n _ _); reflexivity.
  Qed.
End Tie.
