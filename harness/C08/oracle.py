"""C08 search oracle: the property itself, evaluated with exact rational arithmetic on what the
C code returned (never on the model's output).

For a case and the canonical lines the C driver printed for it, check() returns
(failures, stats): failures is a list of (kind, detail) - every item is a violation of a clause of
property C08 - and stats holds the measured rounding-error ratios (observed / textbook bound).

Clauses (u = 2^-53, gamma_k = k u / (1 - k u), Higham, Accuracy and Stability of Numerical
Algorithms, 2nd ed., Thm 8.5, 9.3, 9.4, 10.3, 10.4):
  PLU success : p is a permutation of 0..n-1; sign = parity(p); |l_ij| <= 1; |u_ii| >= DBL_MIN;
                |P A - L U| <= gamma_n |L||U|; P, P_, L, U read-outs; apply; lower/upper residuals
                (gamma_n); solve residual |b - A x| <= gamma_3n P^T|L||U||x|; every column of inv
                likewise; inv_ bit-identical to inv; det vs sign*prod(u_ii) (gamma_n); sgndet =
                sgn of that product; lndet vs sum log|u_ii| (floating tolerance).
  LDL success : |d_i| >= DBL_MIN; |A - L D L^T| <= gamma_{n+2} |L||D||L^T| on the lower triangle; read-outs;
                lower (gamma_n), upper (gamma_{n+1}), solve and inverse columns (gamma_{3n+4}) against the
                symmetric completion of the lower triangle; inv_ = inv; det, sgndet, lndet.
  LLT success : l_ii >= sqrt(DBL_MIN) > 0; |A - L L^T| <= gamma_{n+1} |L||L^T| (lower triangle); lower, upper
                (gamma_n), solve / inverse columns (gamma_{3n+1}); inv_ = inv; det = prod(l_ii)^2; lndet.
  failure     : classes constructed to have an exactly vanishing pivot in floating point as well
                (zero column/row, duplicated or power-of-two scaled rows; exact-integer LDL/LLT
                constructions) must return A_FAILURE.
Underflow: every bound gets an absolute slack (a multiple of the subnormal spacing) so that gradual
underflow is not reported as a violation.  Cases whose outputs contain inf/NaN (overflow) are only
checked for the clauses that do not involve magnitudes and are counted in stats['nonfinite'].
The bounds are MEASURED here, not proved (see Properties_C08.v: *_partial)."""
import math
from fractions import Fraction as Fr
from c08lib import b2d, DBL_MIN_BITS

U = Fr(1, 2 ** 53)
DBL_MIN = Fr(1, 2 ** 1022)
ETA = Fr(1, 2 ** 1074)
ONE_BITS = 0x3ff0000000000000


def gamma(k):
    return k * U / (1 - k * U)


def parse(lines):
    d = {}
    for ln in lines:
        w = ln.split()
        d[int(w[0])] = w[1:]
    return d


def fbits(w):
    return [int(x, 16) for x in w]


def finite(bits):
    return all(((u >> 52) & 0x7ff) != 0x7ff for u in bits)


def fr(bits):
    return [Fr(b2d(u)) for u in bits]


def mat(v, n):
    return [v[n * r:n * r + n] for r in range(n)]


def parity(p):
    n = len(p)
    seen = [False] * n
    s = 1
    for i in range(n):
        if not seen[i]:
            j, ln = i, 0
            while not seen[j]:
                seen[j] = True
                j = p[j]
                ln += 1
            if ln % 2 == 0:
                s = -s
    return s


def _pow2(q):
    """q = +-2^k ?"""
    q = abs(q)
    if q == 0:
        return False
    n, d = q.numerator, q.denominator
    return (n & (n - 1)) == 0 and (d & (d - 1)) == 0


def plu_must_fail(n, A0):
    """Structural classes on which a_real_plu must report failure in binary64 as well (no rounding can hide
    the singularity): a zero column, a zero row, two rows equal up to an exact power-of-two factor (all
    entries far from the overflow/underflow range, so that scaling commutes with rounding)."""
    LO, HI = Fr(1, 2 ** 900), Fr(2 ** 900)
    for c in range(n):
        if all(A0[r][c] == 0 for r in range(n)):
            return "zero column %d" % c
    for r in range(n):
        if all(x == 0 for x in A0[r]):
            return "zero row %d" % r
    safe = [all(x == 0 or LO <= abs(x) <= HI for x in A0[r]) for r in range(n)]
    for r1 in range(n):
        for r2 in range(r1 + 1, n):
            if not (safe[r1] and safe[r2]):
                continue
            k = next((c for c in range(n) if A0[r1][c] != 0), None)
            if k is None or A0[r2][k] == 0:
                continue
            q = A0[r2][k] / A0[r1][k]
            if _pow2(q) and all(A0[r2][c] == q * A0[r1][c] for c in range(n)):
                return "row %d = %s * row %d" % (r2, q, r1)
    return None


class Acc:
    def __init__(self):
        self.fail = []
        self.ratio = {}

    def bad(self, kind, detail):
        self.fail.append((kind, detail))

    def bound(self, kind, err, bnd, slack, where):
        """|err| <= bnd + slack ?  record ratio err/(bnd+slack)"""
        tot = bnd + slack
        e = abs(err)
        if e > tot:
            self.bad(kind, "%s: |error| = %.3e exceeds bound %.3e" % (where, float(e), float(tot)))
        if tot > 0:
            r = float(e / tot)
            if r > self.ratio.get(kind, 0.0):
                self.ratio[kind] = r


def slack_for(n, *arrays):
    m = Fr(1)
    for a in arrays:
        for x in a:
            ax = abs(x)
            if ax > m:
                m = ax
    return 16 * n * n * ETA * m * m


def residual_cols(acc, kind, n, Aex, absprod, X, rhs_of, k, slack):
    """columns x_j of X (n x n, row major list of Fr): |rhs_j - Aex x_j| <= gamma_k absprod |x_j|"""
    g = gamma(k)
    for j in range(n):
        xj = [X[n * r + j] for r in range(n)]
        for r in range(n):
            res = rhs_of(r, j) - sum(Aex[r][c] * xj[c] for c in range(n))
            bnd = g * sum(absprod[r][c] * abs(xj[c]) for c in range(n))
            acc.bound(kind, res, bnd, slack, "column %d row %d" % (j, r))


def lndet_ok(val_bits, diag, scale):
    """val ~ scale * sum log|d_i| up to a small floating tolerance"""
    v = b2d(val_bits)
    logs = [math.log(abs(float(d))) if d != 0 else -math.inf for d in diag]
    try:
        ref = scale * math.fsum(logs)
    except (OverflowError, ValueError):
        return True
    if math.isinf(ref) or math.isnan(ref):
        return (v == ref) or (math.isnan(v) and math.isnan(ref))
    tol = 1e-12 * (1.0 + scale * math.fsum(abs(x) for x in logs))
    return abs(v - ref) <= tol


def check(case, lines):
    from gen import MUST_FAIL_PLU, MUST_FAIL_LDL, MUST_FAIL_LLT
    acc = Acc()
    stats = {"nonfinite": 0, "plu_ok": 0, "ldl_ok": 0, "llt_ok": 0, "plu_fail": 0, "ldl_fail": 0, "llt_fail": 0}
    n = case.n
    d = parse(lines)
    A0b = case.A
    A0 = mat(fr(A0b), n)
    b0 = fr(case.b)
    tag = case.tag.split("/")[0]
    allbits = [u for k, w in d.items() for u in (fbits(w[(2 + n) if k == 100 else (1 if k in (200, 300) else 0):])
                                                  if k not in (113, 210) else [])]
    fin = finite(allbits)
    if not fin:
        stats["nonfinite"] = 1

    # ------------------------------------------------------------------ PLU
    if case.mask & 1:
        w = d.get(100)
        if w is None:
            acc.bad("plu/missing", "no output for a_real_plu")
        else:
            rc, sign = int(w[0]), int(w[1])
            p = [int(x) for x in w[2:2 + n]]
            LUb = fbits(w[2 + n:])
            if rc != 0:
                stats["plu_fail"] = 1
                if rc != 1:
                    acc.bad("plu/rc", "return code %d" % rc)
            else:
                stats["plu_ok"] = 1
                why = plu_must_fail(n, A0)
                if why:
                    acc.bad("plu/singular-accepted", "exactly singular input (%s) reported as success" % why)
                okp = sorted(p) == list(range(n))
                if not okp:
                    acc.bad("plu/perm", "p = %s is not a permutation" % p)
                elif sign != parity(p):
                    acc.bad("plu/sign", "sign = %d but parity(p=%s) = %d" % (sign, p, parity(p)))
                if okp and finite(LUb):
                    LU = mat(fr(LUb), n)
                    L = [[LU[r][c] if c < r else (Fr(1) if c == r else Fr(0)) for c in range(n)] for r in range(n)]
                    Um = [[LU[r][c] if c >= r else Fr(0) for c in range(n)] for r in range(n)]
                    for r in range(n):
                        for c in range(r):
                            if abs(LU[r][c]) > 1:
                                acc.bad("plu/multiplier", "|l[%d][%d]| = %g > 1" % (r, c, float(abs(LU[r][c]))))
                        if abs(LU[r][r]) < DBL_MIN:
                            acc.bad("plu/pivot", "|u[%d][%d]| = %g < DBL_MIN" % (r, r, float(abs(LU[r][r]))))
                    aLU = [[sum(abs(L[r][k]) * abs(Um[k][c]) for k in range(n)) for c in range(n)] for r in range(n)]
                    sl = slack_for(n, [x for row in LU for x in row])
                    g = gamma(n)
                    for r in range(n):
                        for c in range(n):
                            err = A0[p[r]][c] - sum(L[r][k] * Um[k][c] for k in range(n))
                            acc.bound("plu/reconstruct", err, g * aLU[r][c], sl, "(P A - L U)[%d][%d]" % (r, c))
                    # read-outs
                    P = fbits(d.get(101, []))
                    P_ = fbits(d.get(102, []))
                    expP = [ONE_BITS if c == p[r] else 0 for r in range(n) for c in range(n)]
                    if P != expP:
                        acc.bad("plu/P", "a_real_plu_P does not produce the permutation matrix of p")
                    if P_ != [expP[n * c + r] for r in range(n) for c in range(n)]:
                        acc.bad("plu/P_", "a_real_plu_P_ is not the transpose of P")
                    if fbits(d.get(103, [])) != [LUb[n * r + c] if c < r else (ONE_BITS if c == r else 0) for r in range(n) for c in range(n)]:
                        acc.bad("plu/L", "a_real_plu_L is not the unit lower triangle of the factor storage")
                    if fbits(d.get(104, [])) != [LUb[n * r + c] if c >= r else 0 for r in range(n) for c in range(n)]:
                        acc.bad("plu/U", "a_real_plu_U is not the upper triangle of the factor storage")
                    Pbb = fbits(d.get(105, []))
                    if Pbb != [case.b[p[i]] for i in range(n)]:
                        acc.bad("plu/apply", "a_real_plu_apply: Pb[i] != b[p[i]]")
                    yb, xb, sb = fbits(d.get(106, [])), fbits(d.get(107, [])), fbits(d.get(108, []))
                    if finite(yb + xb + sb) and len(yb) == n and len(xb) == n and len(sb) == n:
                        y, x, s = fr(yb), fr(xb), fr(sb)
                        Pb = [b0[p[i]] for i in range(n)]
                        sl2 = slack_for(n, [v for row in LU for v in row], y, x)
                        for r in range(n):
                            acc.bound("plu/lower", Pb[r] - sum(L[r][c] * y[c] for c in range(n)),
                                      g * sum(abs(L[r][c]) * abs(y[c]) for c in range(n)), sl2, "row %d" % r)
                            acc.bound("plu/upper", y[r] - sum(Um[r][c] * x[c] for c in range(n)),
                                      g * sum(abs(Um[r][c]) * abs(x[c]) for c in range(n)), sl2, "row %d" % r)
                        if sb != xb:
                            acc.bad("plu/solve-consistency", "a_real_plu_solve differs from apply+lower+upper")
                        g3 = gamma(3 * n)
                        for r in range(n):
                            res = b0[p[r]] - sum(A0[p[r]][c] * s[c] for c in range(n))
                            acc.bound("plu/solve", res, g3 * sum(aLU[r][c] * abs(s[c]) for c in range(n)), sl2,
                                      "(b - A x)[%d]" % p[r])
                    wi = fbits(d.get(109, []))
                    Xi_ = fbits(d.get(110, []))
                    if len(wi) == n + n * n:
                        Xb = wi[n:]
                        if Xi_ != Xb:
                            acc.bad("plu/inv-consistency", "a_real_plu_inv_ differs from a_real_plu_inv")
                        if wi[:n] != [Xb[n * r + n - 1] for r in range(n)]:
                            acc.bad("plu/inv-scratch", "scratch vector is not the last column of the inverse")
                        if finite(Xb):
                            X = fr(Xb)
                            PA = [A0[p[r]] for r in range(n)]
                            residual_cols(acc, "plu/inv", n, PA, aLU, X, lambda r, j: Fr(1) if p[r] == j else Fr(0),
                                          3 * n, slack_for(n, [v for row in LU for v in row], X))
                    else:
                        acc.bad("plu/missing", "no output for a_real_plu_inv")
                    # determinant family
                    ex = Fr(sign)
                    for i in range(n):
                        ex *= LU[i][i]
                    db = fbits(d.get(111, ["0"]))[0]
                    if finite([db]) and abs(ex) < Fr(2) ** 1023:
                        acc.bound("plu/det", Fr(b2d(db)) - ex, gamma(n) * abs(ex), 4 * n * ETA, "det")
                    sg = int(d.get(113, ["9"])[0])
                    if sg != (0 if ex == 0 else (1 if ex > 0 else -1)):
                        acc.bad("plu/sgndet", "sgndet = %d but sign*prod(u_ii) has sign %s" % (sg, "+" if ex > 0 else "-"))
                    if 112 in d and not lndet_ok(fbits(d[112])[0], [LU[i][i] for i in range(n)], 1.0):
                        acc.bad("plu/lndet", "lndet = %r is not sum log|u_ii|" % b2d(fbits(d[112])[0]))

    # ------------------------------------------------------------------ LDL
    if case.mask & 2:
        w = d.get(200)
        if w is None:
            acc.bad("ldl/missing", "no output for a_real_ldl")
        else:
            rc = int(w[0])
            LDb = fbits(w[1:])
            if rc != 0:
                stats["ldl_fail"] = 1
            else:
                stats["ldl_ok"] = 1
                if tag in MUST_FAIL_LDL:
                    acc.bad("ldl/zero-pivot-accepted", "input constructed with an exactly zero pivot reported as success")
                if n >= 1 and abs(A0[0][0]) < DBL_MIN:
                    acc.bad("ldl/zero-pivot-accepted", "|a[0][0]| < DBL_MIN (first pivot vanishes) reported as success")
                if finite(LDb):
                    LD = mat(fr(LDb), n)
                    L = [[LD[r][c] if c < r else (Fr(1) if c == r else Fr(0)) for c in range(n)] for r in range(n)]
                    D = [LD[i][i] for i in range(n)]
                    As = [[A0[max(r, c)][min(r, c)] for c in range(n)] for r in range(n)]   # what the code reads
                    for i in range(n):
                        if abs(D[i]) < DBL_MIN:
                            acc.bad("ldl/pivot", "|d[%d]| = %g < DBL_MIN" % (i, float(abs(D[i]))))
                    aLDL = [[sum(abs(L[r][k]) * abs(D[k]) * abs(L[c][k]) for k in range(n)) for c in range(n)] for r in range(n)]
                    sl = slack_for(n, [x for row in LD for x in row])
                    g = gamma(n + 2)
                    for r in range(n):
                        for c in range(r + 1):
                            err = As[r][c] - sum(L[r][k] * D[k] * L[c][k] for k in range(n))
                            acc.bound("ldl/reconstruct", err, g * aLDL[r][c], sl, "(A - L D L^T)[%d][%d]" % (r, c))
                    if fbits(d.get(201, [])) != [LDb[n * r + c] if c < r else (ONE_BITS if c == r else 0) for r in range(n) for c in range(n)]:
                        acc.bad("ldl/L", "a_real_ldl_L is not the unit lower triangle of the factor storage")
                    if fbits(d.get(202, [])) != [LDb[n * i + i] for i in range(n)]:
                        acc.bad("ldl/D", "a_real_ldl_D is not the diagonal of the factor storage")
                    yb, xb, sb = fbits(d.get(203, [])), fbits(d.get(204, [])), fbits(d.get(205, []))
                    if finite(yb + xb + sb) and len(yb) == n and len(xb) == n and len(sb) == n:
                        y, x, s = fr(yb), fr(xb), fr(sb)
                        sl2 = slack_for(n, [v for row in LD for v in row], y, x)
                        for r in range(n):
                            acc.bound("ldl/lower", b0[r] - sum(L[r][c] * y[c] for c in range(n)),
                                      gamma(n) * sum(abs(L[r][c]) * abs(y[c]) for c in range(n)), sl2, "row %d" % r)
                            acc.bound("ldl/upper", y[r] - D[r] * sum(L[c][r] * x[c] for c in range(n)),
                                      gamma(n + 1) * abs(D[r]) * sum(abs(L[c][r]) * abs(x[c]) for c in range(n)), sl2, "row %d" % r)
                        if sb != xb:
                            acc.bad("ldl/solve-consistency", "a_real_ldl_solve differs from lower+upper")
                        g3 = gamma(3 * n + 4)
                        for r in range(n):
                            res = b0[r] - sum(As[r][c] * s[c] for c in range(n))
                            acc.bound("ldl/solve", res, g3 * sum(aLDL[r][c] * abs(s[c]) for c in range(n)), sl2, "(b - A x)[%d]" % r)
                    wi = fbits(d.get(206, []))
                    Xi_ = fbits(d.get(207, []))
                    if len(wi) == n + n * n:
                        Xb = wi[n:]
                        if Xi_ != Xb:
                            acc.bad("ldl/inv-consistency", "a_real_ldl_inv_ differs from a_real_ldl_inv")
                        if finite(Xb):
                            X = fr(Xb)
                            residual_cols(acc, "ldl/inv", n, As, aLDL, X, lambda r, j: Fr(1) if r == j else Fr(0),
                                          3 * n + 4, slack_for(n, [v for row in LD for v in row], X))
                    else:
                        acc.bad("ldl/missing", "no output for a_real_ldl_inv")
                    ex = Fr(1)
                    for i in range(n):
                        ex *= D[i]
                    db = fbits(d.get(208, ["0"]))[0]
                    if finite([db]) and abs(ex) < Fr(2) ** 1023:
                        acc.bound("ldl/det", Fr(b2d(db)) - ex, gamma(n) * abs(ex), 4 * n * ETA, "det")
                    sg = int(d.get(210, ["9"])[0])
                    if sg != (0 if ex == 0 else (1 if ex > 0 else -1)):
                        acc.bad("ldl/sgndet", "sgndet = %d but prod(d_i) has the other sign" % sg)
                    if 209 in d and not lndet_ok(fbits(d[209])[0], D, 1.0):
                        acc.bad("ldl/lndet", "lndet = %r is not sum log|d_i|" % b2d(fbits(d[209])[0]))

    # ------------------------------------------------------------------ LLT
    if case.mask & 4:
        w = d.get(300)
        if w is None:
            acc.bad("llt/missing", "no output for a_real_llt")
        else:
            rc = int(w[0])
            LLb = fbits(w[1:])
            if rc != 0:
                stats["llt_fail"] = 1
            else:
                stats["llt_ok"] = 1
                if tag in MUST_FAIL_LLT:
                    acc.bad("llt/nonpositive-accepted", "input constructed with a non-positive Cholesky pivot reported as success")
                for i in range(n):
                    if A0[i][i] < DBL_MIN:
                        acc.bad("llt/nonpositive-accepted", "a[%d][%d] = %g < DBL_MIN (pivot cannot reach the threshold) reported as success" % (i, i, float(A0[i][i])))
                        break
                if finite(LLb):
                    LL = mat(fr(LLb), n)
                    L = [[LL[r][c] if c <= r else Fr(0) for c in range(n)] for r in range(n)]
                    As = [[A0[max(r, c)][min(r, c)] for c in range(n)] for r in range(n)]
                    for i in range(n):
                        if not (L[i][i] >= Fr(1, 2 ** 511)):
                            acc.bad("llt/diagonal", "l[%d][%d] = %g is not a positive root of a pivot >= DBL_MIN" % (i, i, float(L[i][i])))
                    aLL = [[sum(abs(L[r][k]) * abs(L[c][k]) for k in range(n)) for c in range(n)] for r in range(n)]
                    sl = slack_for(n, [x for row in L for x in row])
                    g = gamma(n + 1)
                    for r in range(n):
                        for c in range(r + 1):
                            err = As[r][c] - sum(L[r][k] * L[c][k] for k in range(n))
                            acc.bound("llt/reconstruct", err, g * aLL[r][c], sl, "(A - L L^T)[%d][%d]" % (r, c))
                    if fbits(d.get(301, [])) != [LLb[n * r + c] if c <= r else 0 for r in range(n) for c in range(n)]:
                        acc.bad("llt/L", "a_real_llt_L is not the lower triangle of the factor storage")
                    yb, xb, sb = fbits(d.get(303, [])), fbits(d.get(304, [])), fbits(d.get(305, []))
                    if finite(yb + xb + sb) and len(yb) == n and len(xb) == n and len(sb) == n:
                        y, x, s = fr(yb), fr(xb), fr(sb)
                        sl2 = slack_for(n, [v for row in L for v in row], y, x)
                        for r in range(n):
                            acc.bound("llt/lower", b0[r] - sum(L[r][c] * y[c] for c in range(n)),
                                      gamma(n) * sum(abs(L[r][c]) * abs(y[c]) for c in range(n)), sl2, "row %d" % r)
                            acc.bound("llt/upper", y[r] - sum(L[c][r] * x[c] for c in range(n)),
                                      gamma(n) * sum(abs(L[c][r]) * abs(x[c]) for c in range(n)), sl2, "row %d" % r)
                        if sb != xb:
                            acc.bad("llt/solve-consistency", "a_real_llt_solve differs from lower+upper")
                        g3 = gamma(3 * n + 1)
                        for r in range(n):
                            res = b0[r] - sum(As[r][c] * s[c] for c in range(n))
                            acc.bound("llt/solve", res, g3 * sum(aLL[r][c] * abs(s[c]) for c in range(n)), sl2, "(b - A x)[%d]" % r)
                    wi = fbits(d.get(306, []))
                    Xi_ = fbits(d.get(307, []))
                    if len(wi) == n + n * n:
                        Xb = wi[n:]
                        if Xi_ != Xb:
                            acc.bad("llt/inv-consistency", "a_real_llt_inv_ differs from a_real_llt_inv")
                        if finite(Xb):
                            X = fr(Xb)
                            residual_cols(acc, "llt/inv", n, As, aLL, X, lambda r, j: Fr(1) if r == j else Fr(0),
                                          3 * n + 1, slack_for(n, [v for row in L for v in row], X))
                    else:
                        acc.bad("llt/missing", "no output for a_real_llt_inv")
                    pr = Fr(1)
                    for i in range(n):
                        pr *= L[i][i]
                    ex = pr * pr
                    db = fbits(d.get(308, ["0"]))[0]
                    if finite([db]) and ex < Fr(2) ** 1023:
                        acc.bound("llt/det", Fr(b2d(db)) - ex, gamma(2 * n + 1) * ex, 4 * n * ETA * (1 + pr), "det")
                    if 309 in d and not lndet_ok(fbits(d[309])[0], [L[i][i] for i in range(n)], 2.0):
                        acc.bad("llt/lndet", "lndet = %r is not 2 sum log l_ii" % b2d(fbits(d[309])[0]))
    stats["ratio"] = acc.ratio
    return acc.fail, stats
