(* GENERATED ONCE by harness/C08/mk_tie.py and committed: tie between the UNROLLED translation of the LDL^T / Cholesky families and
   the permutation-free PLU routines (module Gen.GenFac, regenerated on every run by tools/c2coq.py with the order fixed, arrays
   exactly sized, callees inlined) and the hand model C08/FactorDefs.v.  For every routine and every order 0..4: for ALL matrix
   entries and EVERY instance of the numeric interface the model returns exactly what the translated C computes, operation for
   operation; for the factorisations themselves (dynamic failure exits) the statement is by cases on the pivot tests, which
   both sides perform on the same terms. *)
From Coq Require Import ZArith List Bool.
From LibaV Require Common.NumOps C08.NumOps C08.FactorDefs.
From Gen Require Import GenFac.
Import ListNotations.
Module G := LibaV.Common.NumOps.
Module M := LibaV.C08.NumOps.
Module F := LibaV.C08.FactorDefs.

Section Tie.
  Context {T : Type} (O : G.NumOps T).
  (* the numeric interface of the C08 model, read off the common one: A_REAL_MIN = 2^-1022, log = libm *)
  Definition adapt : M.NumOps T :=
    {| M.zero := G.ofZ O 0; M.one := G.ofZ O 1; M.add := G.add O; M.sub := G.sub O; M.mul := G.mul O; M.div := G.div O;
       M.abs := G.abs O; M.sqrt := G.sqrt O; M.ln := G.fn1 O G.Log; M.ltb := G.ltb O; M.eqb := G.eqb O; M.ofZ := G.ofZ O;
       M.tiny := G.ofD O 1 (-1022) |}.

  Ltac rc_tie := intros; cbv;
    repeat (match goal with |- context [if ?c then _ else _] =>
              lazymatch c with context [if _ then _ else _] => fail | _ => destruct c end end; cbv beta iota);
    repeat split; reflexivity.

  Theorem tie_ldl_lower__n0 : 
    F.ldl_lower_ adapt 0 [] [] 0 = Some [].
  Proof. intros. cbv. reflexivity. Qed.

  Theorem tie_ldl_n1 : forall A0, 
    match F.ldl adapt 1 [A0] with
    | Some (rc, A') => let '(oA0, r) := gen_a_real_ldl_n1 O A0 in A' = [oA0] /\ r = G.ofZ O (Z.of_nat rc)
    | None => False
    end.
  Proof. rc_tie. Qed.

  Theorem tie_ldl_inv_n1 : forall A0 b0 I0, 
    F.ldl_inv adapt 1 [A0] [b0] [I0] = Some (let '(ob0, oI0) := gen_a_real_ldl_inv_n1 O A0 b0 I0 in ([ob0], [oI0])).
  Proof. intros. cbv. reflexivity. Qed.

  Theorem tie_ldl_lower__n2 : forall L0 L1 L2 L3 y0 y1 y2 y3, 
    F.ldl_lower_ adapt 2 [L0; L1; L2; L3] [y0; y1; y2; y3] 0 = Some (let '(oy0, oy1, oy2, oy3) := gen_a_real_ldl_lower__n2 O L0 L1 L2 L3 y0 y1 y2 y3 in [oy0; oy1; oy2; oy3]).
  Proof. intros. cbv. reflexivity. Qed.

  Theorem tie_ldl_n3 : forall A0 A1 A2 A3 A4 A5 A6 A7 A8, 
    match F.ldl adapt 3 [A0; A1; A2; A3; A4; A5; A6; A7; A8] with
    | Some (rc, A') => let '(oA0, oA1, oA2, oA3, oA4, oA5, oA6, oA7, oA8, r) := gen_a_real_ldl_n3 O A0 A1 A2 A3 A4 A5 A6 A7 A8 in A' = [oA0; oA1; oA2; oA3; oA4; oA5; oA6; oA7; oA8] /\ r = G.ofZ O (Z.of_nat rc)
    | None => False
    end.
  Proof. rc_tie. Qed.

  Theorem tie_ldl_inv_n3 : forall A0 A1 A2 A3 A4 A5 A6 A7 A8 b0 b1 b2 I0 I1 I2 I3 I4 I5 I6 I7 I8, 
    F.ldl_inv adapt 3 [A0; A1; A2; A3; A4; A5; A6; A7; A8] [b0; b1; b2] [I0; I1; I2; I3; I4; I5; I6; I7; I8] = Some (let '(ob0, ob1, ob2, oI0, oI1, oI2, oI3, oI4, oI5, oI6, oI7, oI8) := gen_a_real_ldl_inv_n3 O A0 A1 A2 A3 A4 A5 A6 A7 A8 b0 b1 b2 I0 I1 I2 I3 I4 I5 I6 I7 I8 in ([ob0; ob1; ob2], [oI0; oI1; oI2; oI3; oI4; oI5; oI6; oI7; oI8])).
  Proof. intros. cbv. reflexivity. Qed.

  Theorem tie_ldl_lower__n4 : forall L0 L1 L2 L3 L4 L5 L6 L7 L8 L9 L10 L11 L12 L13 L14 L15 y0 y1 y2 y3 y4 y5 y6 y7 y8 y9 y10 y11 y12 y13 y14 y15, 
    F.ldl_lower_ adapt 4 [L0; L1; L2; L3; L4; L5; L6; L7; L8; L9; L10; L11; L12; L13; L14; L15] [y0; y1; y2; y3; y4; y5; y6; y7; y8; y9; y10; y11; y12; y13; y14; y15] 0 = Some (let '(oy0, oy1, oy2, oy3, oy4, oy5, oy6, oy7, oy8, oy9, oy10, oy11, oy12, oy13, oy14, oy15) := gen_a_real_ldl_lower__n4 O L0 L1 L2 L3 L4 L5 L6 L7 L8 L9 L10 L11 L12 L13 L14 L15 y0 y1 y2 y3 y4 y5 y6 y7 y8 y9 y10 y11 y12 y13 y14 y15 in [oy0; oy1; oy2; oy3; oy4; oy5; oy6; oy7; oy8; oy9; oy10; oy11; oy12; oy13; oy14; oy15]).
  Proof. intros. cbv. reflexivity. Qed.

  Theorem tie_llt_n0 : 
    match F.llt adapt 0 [] with
    | Some (rc, A') => let r := gen_a_real_llt_n0 O in A' = [] /\ r = G.ofZ O (Z.of_nat rc)
    | None => False
    end.
  Proof. rc_tie. Qed.

  Theorem tie_llt_inv__n0 : 
    F.llt_inv_ adapt 0 [] [] = Some [].
  Proof. intros. cbv. reflexivity. Qed.

  Theorem tie_llt_upper__n1 : forall L0 x0, 
    F.llt_upper_ adapt 1 [L0] [x0] 0 = Some (let ox0 := gen_a_real_llt_upper__n1 O L0 x0 in [ox0]).
  Proof. intros. cbv. reflexivity. Qed.

  Theorem tie_llt_lower_n2 : forall L0 L1 L2 L3 y0 y1, 
    F.llt_lower adapt 2 [L0; L1; L2; L3] [y0; y1] = Some (let '(oy0, oy1) := gen_a_real_llt_lower_n2 O L0 L1 L2 L3 y0 y1 in [oy0; oy1]).
  Proof. intros. cbv. reflexivity. Qed.

  Theorem tie_llt_lndet_n2 : forall A0 A1 A2 A3, 
    F.llt_lndet adapt 2 [A0; A1; A2; A3] = Some (gen_a_real_llt_lndet_n2 O A0 A1 A2 A3).
  Proof. intros. cbv. reflexivity. Qed.

  Theorem tie_llt_inv_n3 : forall A0 A1 A2 A3 A4 A5 A6 A7 A8 b0 b1 b2 I0 I1 I2 I3 I4 I5 I6 I7 I8, 
    F.llt_inv adapt 3 [A0; A1; A2; A3; A4; A5; A6; A7; A8] [b0; b1; b2] [I0; I1; I2; I3; I4; I5; I6; I7; I8] = Some (let '(ob0, ob1, ob2, oI0, oI1, oI2, oI3, oI4, oI5, oI6, oI7, oI8) := gen_a_real_llt_inv_n3 O A0 A1 A2 A3 A4 A5 A6 A7 A8 b0 b1 b2 I0 I1 I2 I3 I4 I5 I6 I7 I8 in ([ob0; ob1; ob2], [oI0; oI1; oI2; oI3; oI4; oI5; oI6; oI7; oI8])).
  Proof. intros. cbv. reflexivity. Qed.

  Theorem tie_llt_upper_n4 : forall L0 L1 L2 L3 L4 L5 L6 L7 L8 L9 L10 L11 L12 L13 L14 L15 x0 x1 x2 x3, 
    F.llt_upper adapt 4 [L0; L1; L2; L3; L4; L5; L6; L7; L8; L9; L10; L11; L12; L13; L14; L15] [x0; x1; x2; x3] = Some (let '(ox0, ox1, ox2, ox3) := gen_a_real_llt_upper_n4 O L0 L1 L2 L3 L4 L5 L6 L7 L8 L9 L10 L11 L12 L13 L14 L15 x0 x1 x2 x3 in [ox0; ox1; ox2; ox3]).
  Proof. intros. cbv. reflexivity. Qed.

  Theorem tie_plu_U_n0 : 
    F.plu_U adapt 0 [] [] = Some [].
  Proof. intros. cbv. reflexivity. Qed.

  Theorem tie_plu_L_n1 : forall A0 L0, 
    F.plu_L adapt 1 [A0] [L0] = Some (let oL0 := gen_a_real_plu_L_n1 O A0 L0 in [oL0]).
  Proof. intros. cbv. reflexivity. Qed.

  Theorem tie_plu_lndet_n1 : forall A0, 
    F.plu_lndet adapt 1 [A0] = Some (gen_a_real_plu_lndet_n1 O A0).
  Proof. intros. cbv. reflexivity. Qed.

  Theorem tie_plu_det_n2_sm : forall A0 A1 A2 A3, 
    F.plu_det adapt 2 [A0; A1; A2; A3] (-1)%Z = Some (gen_a_real_plu_det_n2_signm1 O A0 A1 A2 A3).
  Proof. intros. cbv. reflexivity. Qed.

  Theorem tie_plu_det_n3_sp : forall A0 A1 A2 A3 A4 A5 A6 A7 A8, 
    F.plu_det adapt 3 [A0; A1; A2; A3; A4; A5; A6; A7; A8] (1)%Z = Some (gen_a_real_plu_det_n3_sign1 O A0 A1 A2 A3 A4 A5 A6 A7 A8).
  Proof. intros. cbv. reflexivity. Qed.

  Theorem tie_plu_upper__n4 : forall U0 U1 U2 U3 U4 U5 U6 U7 U8 U9 U10 U11 U12 U13 U14 U15 x0 x1 x2 x3 x4 x5 x6 x7 x8 x9 x10 x11 x12 x13 x14 x15, 
    F.plu_upper_ adapt 4 [U0; U1; U2; U3; U4; U5; U6; U7; U8; U9; U10; U11; U12; U13; U14; U15] [x0; x1; x2; x3; x4; x5; x6; x7; x8; x9; x10; x11; x12; x13; x14; x15] 0 = Some (let '(ox0, ox1, ox2, ox3, ox4, ox5, ox6, ox7, ox8, ox9, ox10, ox11, ox12, ox13, ox14, ox15) := gen_a_real_plu_upper__n4 O U0 U1 U2 U3 U4 U5 U6 U7 U8 U9 U10 U11 U12 U13 U14 U15 x0 x1 x2 x3 x4 x5 x6 x7 x8 x9 x10 x11 x12 x13 x14 x15 in [ox0; ox1; ox2; ox3; ox4; ox5; ox6; ox7; ox8; ox9; ox10; ox11; ox12; ox13; ox14; ox15]).
  Proof. intros. cbv. reflexivity. Qed.
End Tie.
