(* All-orders translator tie of C08, part 7: the inverses a_real_ldl_inv, llt_inv (with the scratch vector b, which is part of the
   result) and the in-place forms ldl_inv_, llt_inv_ (column i of X).  Five resp. four loops each and a call of the regenerated
   backward substitution (tied in TieLoop3.v).  Theorems tie_a_real_ldl_inv, llt_inv, ldl_inv_, llt_inv_: every order with U32. *)
From Coq Require Import ZArith NArith List Bool Arith Lia.
From LibaV Require Import C09.LinalgSpec C09.LinalgLemmas C09.LoopTieLemmas C08.LoopTieLemmas.
From Gen Require Import GenLoop TieLoopBase TieLoop2 TieLoop3.
Import ListNotations.

Section Tie.
  Context {T : Type} (O : G.NumOps T).
  Local Notation A_ := (adapt O).
  Local Notation z := (G.ofZ O 0).
  Local Notation o := (G.ofZ O 1).
  Local Notation "a -- b" := (M.sub A_ a b) (at level 50, left associativity).
  Local Notation "a ** b" := (M.mul A_ a b) (at level 40, left associativity).
  Local Notation "a // b" := (M.div A_ a b) (at level 40, left associativity).

  (* ------------------------------------------------------------------------------------------------ a_real_ldl_inv *)
  Definition put_col (n i : nat) (b : list T) (r : nat) (X : list T) : option (list T) :=
    match M.rd b r with Some v => M.wr X (i + n * r) v | None => None end.

  Lemma ldl_inv_l2 (n : nat) (Hn : U32 n) : forall fg lo b, n - lo < fg ->   (* for tie_a_real_ldl_inv *)
    gen_a_real_ldl_inv_loop2 O fg n 0 b lo = omap (fun b : list T => (b, Nat.max lo n)) (M.for_range lo n (fun r b => M.wr b r z) b).
  Proof.
    for_simple (@gen_a_real_ldl_inv_loop2) (fun f r b => gen_a_real_ldl_inv_loop2 O f n 0 b r) n (fun r (b : list T) => M.wr b r z) (fun (r : nat) (b : list T) => (b, r)).
  Qed.
  Lemma ldl_inv_l4 (n r : nat) (A : list T) (Hr : U32 r) : forall fg lo b, r - lo < fg ->   (* for tie_a_real_ldl_inv *)
    gen_a_real_ldl_inv_loop4 O fg r 0 (n * r) A b lo = omap (fun b : list T => (b, Nat.max lo r)) (M.for_range lo r (lower_body O n r A) b).
  Proof.
    for_simple (@gen_a_real_ldl_inv_loop4) (fun f c b => gen_a_real_ldl_inv_loop4 O f r 0 (n * r) A b c) r (lower_body O n r A) (fun (c : nat) (b : list T) => (b, c)).
  Qed.
  Lemma ldl_inv_l3 (n i : nat) (A : list T) (Hn : U32 n) : forall fg lo b, n - lo < fg ->   (* for tie_a_real_ldl_inv *)
    gen_a_real_ldl_inv_loop3 O fg n 0 i 0 A b lo = omap (fun b : list T => (b, Nat.max lo n)) (M.for_range lo n (fun r b => M.for_range i r (lower_body O n r A) b) b).
  Proof.
    intros fg lo b Hf.
    refine (for_tie (fun f r b => gen_a_real_ldl_inv_loop3 O f n 0 i 0 A b r) n _ (fun (r : nat) (b : list T) => (b, r)) _ _ fg lo b Hf).
    - intros f r s Hi. cbn [gen_a_real_ldl_inv_loop3]. cond_true Hi. repeat arith_step.
      rewrite ldl_inv_l4 by (first [lia | u32]).
      destruct (M.for_range i r (lower_body O n r A) s); cbn [omap]; [|reflexivity]. sim.
    - intros f r s Hi. cbn [gen_a_real_ldl_inv_loop3]. cond_false Hi. reflexivity.
  Qed.
  Lemma ldl_inv_l5 (n i : nat) (b : list T) (Hn : U32 n) : forall fg lo X, n - lo < fg ->   (* for tie_a_real_ldl_inv *)
    gen_a_real_ldl_inv_loop5 O fg n i 0 b X lo = omap (fun X : list T => (X, Nat.max lo n)) (M.for_range lo n (put_col n i b) X).
  Proof.
    for_simple (@gen_a_real_ldl_inv_loop5) (fun f r X => gen_a_real_ldl_inv_loop5 O f n i 0 b X r) n (put_col n i b) (fun (r : nat) (X : list T) => (X, r)).
  Qed.

  Definition ldl_inv_body (n : nat) (A : list T) (i : nat) (s : list T * list T) : option (list T * list T) :=
    let '(b, X) := s in
    match M.for_range 0 n (fun r b => M.wr b r z) b with Some b0 =>
    match M.wr b0 i o with Some b1 =>
    match M.for_range i n (fun r b => M.for_range i r (lower_body O n r A) b) b1 with Some b2 =>
    match F.ldl_upper A_ n A b2 with Some b3 =>
    match M.for_range 0 n (put_col n i b3) X with Some X2 => Some (b3, X2) | None => None end
    | None => None end | None => None end | None => None end | None => None end.
  Lemma ldl_inv_eq n A b X : F.ldl_inv A_ n A b X = M.for_range 0 n (ldl_inv_body n A) (b, X).
  Proof. reflexivity. Qed.

  Lemma ldl_inv_l1 (n : nat) (A : list T) (Hn : U32 n) : forall fg lo s, n - lo < fg ->   (* for tie_a_real_ldl_inv *)
    gen_a_real_ldl_inv_loop1 O fg n 0 0 A (fst s) (snd s) lo lo = omap (fun s : list T * list T => s) (M.for_range lo n (ldl_inv_body n A) s).
  Proof.
    intros fg lo s Hf.
    refine (for_tie (fun f i (s : list T * list T) => gen_a_real_ldl_inv_loop1 O f n 0 0 A (fst s) (snd s) i i) n (ldl_inv_body n A)
              (fun (_ : nat) (s : list T * list T) => s) _ _ fg lo s Hf).
    - intros f i [b X] Hi. cbn [fst snd gen_a_real_ldl_inv_loop1 ldl_inv_body]. cond_true Hi.
      rewrite ldl_inv_l2 by (first [lia | u32]).
      destruct (M.for_range 0 n (fun r b => M.wr b r z) b) as [b0|]; cbn [omap]; [|reflexivity].
      cbn [Nat.add]. rewrite upd_wr. destruct (M.wr b0 i o) as [b1|]; [|reflexivity].
      rewrite ldl_inv_l3 by (first [lia | u32]).
      destruct (M.for_range i n (fun r b => M.for_range i r (lower_body O n r A) b) b1) as [b2|]; cbn [omap]; [|reflexivity].
      rewrite (tie_a_real_ldl_upper O n A b2 Hn). destruct (F.ldl_upper A_ n A b2) as [b3|]; [|reflexivity].
      rewrite ldl_inv_l5 by (first [lia | u32]).
      destruct (M.for_range 0 n (put_col n i b3) X) as [X2|]; cbn [omap fst snd]; [|reflexivity].
      repeat arith_step. rewrite !Nat.add_1_r. reflexivity.
    - intros f i [b X] Hi. cbn [fst snd gen_a_real_ldl_inv_loop1]. cond_false Hi. reflexivity.
  Qed.
  Theorem tie_a_real_ldl_inv : forall (n : nat) (A b X : list T), U32 n -> gen_a_real_ldl_inv O n A 0 b 0 X 0 = F.ldl_inv A_ n A b X.
  Proof.
    intros n A b X Hn. unfold gen_a_real_ldl_inv. rewrite ldl_inv_eq.
    pose proof (ldl_inv_l1 n A Hn (S n) 0 (b, X) ltac:(lia)) as H. cbn [fst snd] in H. rewrite H.
    destruct (M.for_range 0 n (ldl_inv_body n A) (b, X)); reflexivity.
  Qed.

  (* ------------------------------------------------------------------------------------------------ a_real_llt_inv *)
  Definition llt_row (n i : nat) (A : list T) (r : nat) (b : list T) : option (list T) :=
    match M.for_range i r (lower_body O n r A) b with Some b' => match M.rd b' r with Some br => match M.rd A (n * r + r) with Some a =>
      M.wr b' r (br // a) | None => None end | None => None end | None => None end.

  Lemma llt_inv_l2 (n : nat) (Hn : U32 n) : forall fg lo b, n - lo < fg ->   (* for tie_a_real_llt_inv *)
    gen_a_real_llt_inv_loop2 O fg n 0 b lo = omap (fun b : list T => (b, Nat.max lo n)) (M.for_range lo n (fun r b => M.wr b r z) b).
  Proof.
    for_simple (@gen_a_real_llt_inv_loop2) (fun f r b => gen_a_real_llt_inv_loop2 O f n 0 b r) n (fun r (b : list T) => M.wr b r z) (fun (r : nat) (b : list T) => (b, r)).
  Qed.
  Lemma llt_inv_l4 (n r : nat) (A : list T) (Hr : U32 r) : forall fg lo b, r - lo < fg ->   (* for tie_a_real_llt_inv *)
    gen_a_real_llt_inv_loop4 O fg r 0 (n * r) A b lo = omap (fun b : list T => (b, Nat.max lo r)) (M.for_range lo r (lower_body O n r A) b).
  Proof.
    for_simple (@gen_a_real_llt_inv_loop4) (fun f c b => gen_a_real_llt_inv_loop4 O f r 0 (n * r) A b c) r (lower_body O n r A) (fun (c : nat) (b : list T) => (b, c)).
  Qed.
  Lemma llt_inv_l3 (n i : nat) (A : list T) (Hn : U32 n) : forall fg lo b, n - lo < fg ->   (* for tie_a_real_llt_inv *)
    gen_a_real_llt_inv_loop3 O fg n 0 i 0 A b lo = omap (fun b : list T => (b, Nat.max lo n)) (M.for_range lo n (llt_row n i A) b).
  Proof.
    intros fg lo b Hf.
    refine (for_tie (fun f r b => gen_a_real_llt_inv_loop3 O f n 0 i 0 A b r) n (llt_row n i A) (fun (r : nat) (b : list T) => (b, r)) _ _ fg lo b Hf).
    - intros f r s Hi. cbn [gen_a_real_llt_inv_loop3]. cond_true Hi. repeat arith_step.
      rewrite llt_inv_l4 by (first [lia | u32]). unfold llt_row.
      destruct (M.for_range i r (lower_body O n r A) s); cbn [omap]; [|reflexivity]. sim.
    - intros f r s Hi. cbn [gen_a_real_llt_inv_loop3]. cond_false Hi. reflexivity.
  Qed.
  Lemma llt_inv_l5 (n i : nat) (b : list T) (Hn : U32 n) : forall fg lo X, n - lo < fg ->   (* for tie_a_real_llt_inv *)
    gen_a_real_llt_inv_loop5 O fg n i 0 b X lo = omap (fun X : list T => (X, Nat.max lo n)) (M.for_range lo n (put_col n i b) X).
  Proof.
    for_simple (@gen_a_real_llt_inv_loop5) (fun f r X => gen_a_real_llt_inv_loop5 O f n i 0 b X r) n (put_col n i b) (fun (r : nat) (X : list T) => (X, r)).
  Qed.
  Definition llt_inv_body (n : nat) (A : list T) (i : nat) (s : list T * list T) : option (list T * list T) :=
    let '(b, X) := s in
    match M.for_range 0 n (fun r b => M.wr b r z) b with Some b0 =>
    match M.wr b0 i o with Some b1 =>
    match M.for_range i n (llt_row n i A) b1 with Some b2 =>
    match F.llt_upper A_ n A b2 with Some b3 =>
    match M.for_range 0 n (put_col n i b3) X with Some X2 => Some (b3, X2) | None => None end
    | None => None end | None => None end | None => None end | None => None end.
  Lemma llt_inv_eq n A b X : F.llt_inv A_ n A b X = M.for_range 0 n (llt_inv_body n A) (b, X).
  Proof. reflexivity. Qed.
  Lemma llt_inv_l1 (n : nat) (A : list T) (Hn : U32 n) : forall fg lo s, n - lo < fg ->   (* for tie_a_real_llt_inv *)
    gen_a_real_llt_inv_loop1 O fg n 0 0 A (fst s) (snd s) lo lo = omap (fun s : list T * list T => s) (M.for_range lo n (llt_inv_body n A) s).
  Proof.
    intros fg lo s Hf.
    refine (for_tie (fun f i (s : list T * list T) => gen_a_real_llt_inv_loop1 O f n 0 0 A (fst s) (snd s) i i) n (llt_inv_body n A)
              (fun (_ : nat) (s : list T * list T) => s) _ _ fg lo s Hf).
    - intros f i [b X] Hi. cbn [fst snd gen_a_real_llt_inv_loop1 llt_inv_body]. cond_true Hi.
      rewrite llt_inv_l2 by (first [lia | u32]).
      destruct (M.for_range 0 n (fun r b => M.wr b r z) b) as [b0|]; cbn [omap]; [|reflexivity].
      cbn [Nat.add]. rewrite upd_wr. destruct (M.wr b0 i o) as [b1|]; [|reflexivity].
      rewrite llt_inv_l3 by (first [lia | u32]).
      destruct (M.for_range i n (llt_row n i A) b1) as [b2|]; cbn [omap]; [|reflexivity].
      rewrite (tie_a_real_llt_upper O n A b2 Hn). destruct (F.llt_upper A_ n A b2) as [b3|]; [|reflexivity].
      rewrite llt_inv_l5 by (first [lia | u32]).
      destruct (M.for_range 0 n (put_col n i b3) X) as [X2|]; cbn [omap fst snd]; [|reflexivity].
      repeat arith_step. rewrite !Nat.add_1_r. reflexivity.
    - intros f i [b X] Hi. cbn [fst snd gen_a_real_llt_inv_loop1]. cond_false Hi. reflexivity.
  Qed.
  Theorem tie_a_real_llt_inv : forall (n : nat) (A b X : list T), U32 n -> gen_a_real_llt_inv O n A 0 b 0 X 0 = F.llt_inv A_ n A b X.
  Proof.
    intros n A b X Hn. unfold gen_a_real_llt_inv. rewrite llt_inv_eq.
    pose proof (llt_inv_l1 n A Hn (S n) 0 (b, X) ltac:(lia)) as H. cbn [fst snd] in H. rewrite H.
    destruct (M.for_range 0 n (llt_inv_body n A) (b, X)); reflexivity.
  Qed.

  (* ------------------------------------------------------------------------------------------------ a_real_ldl_inv_, a_real_llt_inv_ (in place, column i of X) *)
  Definition unit_col (n i : nat) (r : nat) (X : list T) : option (list T) := M.wr X (i + n * r) (if Nat.eqb r i then o else z).
  Definition llt_row_ (n i : nat) (A : list T) (r : nat) (X : list T) : option (list T) :=
    match M.for_range i r (lower_body_ O n r i A) X with Some X' => match M.rd X' (i + n * r) with Some yr => match M.rd A (n * r + r) with Some a =>
      M.wr X' (i + n * r) (yr // a) | None => None end | None => None end | None => None end.

  Lemma ldl_inv__l2 (n i : nat) (Hn : U32 n) : forall fg lo X, n - lo < fg ->   (* for tie_a_real_ldl_inv_ *)
    gen_a_real_ldl_inv__loop2 O fg n i i X lo = omap (fun X : list T => (X, Nat.max lo n)) (M.for_range lo n (unit_col n i) X).
  Proof.
    for_simple (@gen_a_real_ldl_inv__loop2) (fun f r X => gen_a_real_ldl_inv__loop2 O f n i i X r) n (unit_col n i) (fun (r : nat) (X : list T) => (X, r)).
  Qed.
  Lemma ldl_inv__l4 (n r i : nat) (A : list T) (Hn : U32 n) (Hr : r < n) : forall fg lo X, r - lo < fg ->   (* for tie_a_real_ldl_inv_ *)
    gen_a_real_ldl_inv__loop4 O fg r (i + n * r) (n * r) i n A X lo = omap (fun X : list T => (X, Nat.max lo r)) (M.for_range lo r (lower_body_ O n r i A) X).
  Proof.
    for_simple (@gen_a_real_ldl_inv__loop4) (fun f c X => gen_a_real_ldl_inv__loop4 O f r (i + n * r) (n * r) i n A X c) r (lower_body_ O n r i A) (fun (c : nat) (X : list T) => (X, c)).
  Qed.
  Lemma ldl_inv__l3 (n i : nat) (A : list T) (Hn : U32 n) : forall fg lo X, n - lo < fg ->   (* for tie_a_real_ldl_inv_ *)
    gen_a_real_ldl_inv__loop3 O fg n 0 i i A X lo = omap (fun X : list T => (X, Nat.max lo n)) (M.for_range lo n (fun r X => M.for_range i r (lower_body_ O n r i A) X) X).
  Proof.
    intros fg lo X Hf.
    refine (for_tie (fun f r X => gen_a_real_ldl_inv__loop3 O f n 0 i i A X r) n _ (fun (r : nat) (X : list T) => (X, r)) _ _ fg lo X Hf).
    - intros f r s Hi. cbn [gen_a_real_ldl_inv__loop3]. cond_true Hi. repeat arith_step.
      rewrite (ldl_inv__l4 n r i A Hn Hi) by lia.
      destruct (M.for_range i r (lower_body_ O n r i A) s); cbn [omap]; [|reflexivity]. sim.
    - intros f r s Hi. cbn [gen_a_real_ldl_inv__loop3]. cond_false Hi. reflexivity.
  Qed.
  Definition ldl_inv__body (n : nat) (A : list T) (i : nat) (X : list T) : option (list T) :=
    match M.for_range 0 n (unit_col n i) X with Some X0 =>
    match M.for_range i n (fun r X => M.for_range i r (lower_body_ O n r i A) X) X0 with Some X1 => F.ldl_upper_ A_ n A X1 i
    | None => None end | None => None end.
  Lemma ldl_inv__eq n A X : F.ldl_inv_ A_ n A X = M.for_range 0 n (ldl_inv__body n A) X.
  Proof. reflexivity. Qed.
  Lemma ldl_inv__l1 (n : nat) (A : list T) (Hn : U32 n) : forall fg lo X, n - lo < fg ->   (* for tie_a_real_ldl_inv_ *)
    gen_a_real_ldl_inv__loop1 O fg n 0 A X lo lo = omap (fun X : list T => X) (M.for_range lo n (ldl_inv__body n A) X).
  Proof.
    intros fg lo X Hf.
    refine (for_tie (fun f i X => gen_a_real_ldl_inv__loop1 O f n 0 A X i i) n (ldl_inv__body n A) (fun (_ : nat) (X : list T) => X) _ _ fg lo X Hf).
    - intros f i s Hi. cbn [gen_a_real_ldl_inv__loop1]. unfold ldl_inv__body. cond_true Hi.
      rewrite ldl_inv__l2 by (first [lia | u32]).
      destruct (M.for_range 0 n (unit_col n i) s) as [X0|]; cbn [omap]; [|reflexivity].
      rewrite ldl_inv__l3 by (first [lia | u32]).
      destruct (M.for_range i n (fun r X => M.for_range i r (lower_body_ O n r i A) X) X0) as [X1|]; cbn [omap]; [|reflexivity].
      rewrite (tie_a_real_ldl_upper_ O n i A X1 Hn). destruct (F.ldl_upper_ A_ n A X1 i) as [X2|]; [|reflexivity].
      repeat arith_step. rewrite !Nat.add_1_r. reflexivity.
    - intros f i s Hi. cbn [gen_a_real_ldl_inv__loop1]. cond_false Hi. reflexivity.
  Qed.
  Theorem tie_a_real_ldl_inv_ : forall (n : nat) (A X : list T), U32 n -> gen_a_real_ldl_inv_ O n A 0 X 0 = F.ldl_inv_ A_ n A X.
  Proof.
    intros n A X Hn. unfold gen_a_real_ldl_inv_. rewrite ldl_inv__eq, (ldl_inv__l1 n A Hn (S n) 0 X) by lia.
    destruct (M.for_range 0 n (ldl_inv__body n A) X); reflexivity.
  Qed.

  Lemma llt_inv__l2 (n i : nat) (Hn : U32 n) : forall fg lo X, n - lo < fg ->   (* for tie_a_real_llt_inv_ *)
    gen_a_real_llt_inv__loop2 O fg n i i X lo = omap (fun X : list T => (X, Nat.max lo n)) (M.for_range lo n (unit_col n i) X).
  Proof.
    for_simple (@gen_a_real_llt_inv__loop2) (fun f r X => gen_a_real_llt_inv__loop2 O f n i i X r) n (unit_col n i) (fun (r : nat) (X : list T) => (X, r)).
  Qed.
  Lemma llt_inv__l4 (n r i : nat) (A : list T) (Hn : U32 n) (Hr : r < n) : forall fg lo X, r - lo < fg ->   (* for tie_a_real_llt_inv_ *)
    gen_a_real_llt_inv__loop4 O fg r (i + n * r) (n * r) i n A X lo = omap (fun X : list T => (X, Nat.max lo r)) (M.for_range lo r (lower_body_ O n r i A) X).
  Proof.
    for_simple (@gen_a_real_llt_inv__loop4) (fun f c X => gen_a_real_llt_inv__loop4 O f r (i + n * r) (n * r) i n A X c) r (lower_body_ O n r i A) (fun (c : nat) (X : list T) => (X, c)).
  Qed.
  Lemma llt_inv__l3 (n i : nat) (A : list T) (Hn : U32 n) : forall fg lo X, n - lo < fg ->   (* for tie_a_real_llt_inv_ *)
    gen_a_real_llt_inv__loop3 O fg n 0 i i A X lo = omap (fun X : list T => (X, Nat.max lo n)) (M.for_range lo n (llt_row_ n i A) X).
  Proof.
    intros fg lo X Hf.
    refine (for_tie (fun f r X => gen_a_real_llt_inv__loop3 O f n 0 i i A X r) n (llt_row_ n i A) (fun (r : nat) (X : list T) => (X, r)) _ _ fg lo X Hf).
    - intros f r s Hi. cbn [gen_a_real_llt_inv__loop3]. cond_true Hi. repeat arith_step.
      rewrite (llt_inv__l4 n r i A Hn Hi) by lia. unfold llt_row_.
      destruct (M.for_range i r (lower_body_ O n r i A) s); cbn [omap]; [|reflexivity]. sim.
    - intros f r s Hi. cbn [gen_a_real_llt_inv__loop3]. cond_false Hi. reflexivity.
  Qed.
  Definition llt_inv__body (n : nat) (A : list T) (i : nat) (X : list T) : option (list T) :=
    match M.for_range 0 n (unit_col n i) X with Some X0 =>
    match M.for_range i n (llt_row_ n i A) X0 with Some X1 => F.llt_upper_ A_ n A X1 i
    | None => None end | None => None end.
  Lemma llt_inv__eq n A X : F.llt_inv_ A_ n A X = M.for_range 0 n (llt_inv__body n A) X.
  Proof. reflexivity. Qed.
  Lemma llt_inv__l1 (n : nat) (A : list T) (Hn : U32 n) : forall fg lo X, n - lo < fg ->   (* for tie_a_real_llt_inv_ *)
    gen_a_real_llt_inv__loop1 O fg n 0 A X lo lo = omap (fun X : list T => X) (M.for_range lo n (llt_inv__body n A) X).
  Proof.
    intros fg lo X Hf.
    refine (for_tie (fun f i X => gen_a_real_llt_inv__loop1 O f n 0 A X i i) n (llt_inv__body n A) (fun (_ : nat) (X : list T) => X) _ _ fg lo X Hf).
    - intros f i s Hi. cbn [gen_a_real_llt_inv__loop1]. unfold llt_inv__body. cond_true Hi.
      rewrite llt_inv__l2 by (first [lia | u32]).
      destruct (M.for_range 0 n (unit_col n i) s) as [X0|]; cbn [omap]; [|reflexivity].
      rewrite llt_inv__l3 by (first [lia | u32]).
      destruct (M.for_range i n (llt_row_ n i A) X0) as [X1|]; cbn [omap]; [|reflexivity].
      rewrite (tie_a_real_llt_upper_ O n i A X1 Hn). destruct (F.llt_upper_ A_ n A X1 i) as [X2|]; [|reflexivity].
      repeat arith_step. rewrite !Nat.add_1_r. reflexivity.
    - intros f i s Hi. cbn [gen_a_real_llt_inv__loop1]. cond_false Hi. reflexivity.
  Qed.
  Theorem tie_a_real_llt_inv_ : forall (n : nat) (A X : list T), U32 n -> gen_a_real_llt_inv_ O n A 0 X 0 = F.llt_inv_ A_ n A X.
  Proof.
    intros n A X Hn. unfold gen_a_real_llt_inv_. rewrite llt_inv__eq, (llt_inv__l1 n A Hn (S n) 0 X) by lia.
    destruct (M.for_range 0 n (llt_inv__body n A) X); reflexivity.
  Qed.
End Tie.
