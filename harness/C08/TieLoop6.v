(* All-orders translator tie of C08, part 6: the factorisations a_real_ldl and a_real_llt, early `return A_FAILURE` included: the
   generated row / column loop returns `inr (A, 1)` from inside the Fixpoint at the failed pivot test, the model keeps (1, A) to the
   end of its for_range (ldl_sticky / llt_sticky).  Theorems tie_a_real_ldl, tie_a_real_llt: every order with U32, every array:
   generated = (A', 0 | 1) of the model's (rc, A'), None on the same runs. *)
From Coq Require Import ZArith NArith List Bool Arith Lia.
From LibaV Require Import C09.LinalgSpec C09.LinalgLemmas C09.LoopTieLemmas C08.LoopTieLemmas.
From Gen Require Import GenLoop TieLoopBase.
Import ListNotations.

Section Tie.
  Context {T : Type} (O : G.NumOps T).
  Local Notation A_ := (adapt O).
  Local Notation "a -- b" := (M.sub A_ a b) (at level 50, left associativity).
  Local Notation "a ** b" := (M.mul A_ a b) (at level 40, left associativity).
  Local Notation "a // b" := (M.div A_ a b) (at level 40, left associativity).

  (* ------------------------------------------------------------------------------------------------ a_real_ldl *)
  Definition ldl_b2 (n c : nat) (i : nat) (A : list T) : option (list T) :=
    match M.rd A (n * c + c) with Some acc => match M.rd A (n * c + i) with Some aci => match M.rd A (n * i + i) with Some d =>
      M.wr A (n * c + c) (acc -- aci ** aci ** d) | None => None end | None => None end | None => None end.
  Definition ldl_b4 (n c r : nat) (i : nat) (A : list T) : option (list T) :=
    match M.rd A (n * r + c) with Some arc => match M.rd A (n * r + i) with Some ari => match M.rd A (n * c + i) with Some aci =>
      match M.rd A (n * i + i) with Some d => M.wr A (n * r + c) (arc -- ari ** aci ** d) | None => None end | None => None end | None => None end | None => None end.
  Definition ldl_b3 (n c : nat) (r : nat) (A : list T) : option (list T) :=
    match M.for_range 0 c (ldl_b4 n c r) A with Some A' => match M.rd A' (n * r + c) with Some arc => match M.rd A' (n * c + c) with Some acc =>
      M.wr A' (n * r + c) (arc // acc) | None => None end | None => None end | None => None end.

  Lemma ldl_l2 (n c : nat) (Hn : U32 n) (Hc : c < n) : forall fg lo A, c - lo < fg ->   (* for tie_a_real_ldl *)
    gen_a_real_ldl_loop2 O fg c (n * c) 0 n A lo = omap (fun A : list T => (A, Nat.max lo c)) (M.for_range lo c (ldl_b2 n c) A).
  Proof.
    for_simple (@gen_a_real_ldl_loop2) (fun f i A => gen_a_real_ldl_loop2 O f c (n * c) 0 n A i) c (ldl_b2 n c) (fun (i : nat) (A : list T) => (A, i)).
  Qed.
  Lemma ldl_l4 (n c r : nat) (Hn : U32 n) (Hc : c < n) : forall fg lo A, c - lo < fg ->   (* for tie_a_real_ldl *)
    gen_a_real_ldl_loop4 O fg c (n * r) (n * c) 0 n A lo = omap (fun A : list T => (A, Nat.max lo c)) (M.for_range lo c (ldl_b4 n c r) A).
  Proof.
    for_simple (@gen_a_real_ldl_loop4) (fun f i A => gen_a_real_ldl_loop4 O f c (n * r) (n * c) 0 n A i) c (ldl_b4 n c r) (fun (i : nat) (A : list T) => (A, i)).
  Qed.
  Lemma ldl_l3 (n c : nat) (Hn : U32 n) (Hc : c < n) : forall fg lo A, n - lo < fg ->   (* for tie_a_real_ldl *)
    gen_a_real_ldl_loop3 O fg n 0 c (n * c) A lo c = omap (fun A : list T => (A, Nat.max lo n, c)) (M.for_range lo n (ldl_b3 n c) A).
  Proof.
    intros fg lo A Hf.
    refine (for_tie (fun f r A => gen_a_real_ldl_loop3 O f n 0 c (n * c) A r c) n (ldl_b3 n c) (fun (r : nat) (A : list T) => (A, r, c)) _ _ fg lo A Hf).
    - intros f r s Hi. cbn [gen_a_real_ldl_loop3]. cond_true Hi. repeat arith_step.
      rewrite (ldl_l4 n c r Hn Hc (S c) 0 s) by lia. unfold ldl_b3.
      destruct (M.for_range 0 c (ldl_b4 n c r) s) as [A1|]; cbn [omap Nat.max]; [|reflexivity]. sim.
    - intros f r s Hi. cbn [gen_a_real_ldl_loop3]. cond_false Hi. reflexivity.
  Qed.

  (* the model's ldl_step, with its loop bodies named *)
  Definition ldl_step' (n c : nat) (A : list T) : option (nat * list T) :=
    match M.for_range 0 c (ldl_b2 n c) A with
    | Some A1 => match M.rd A1 (n * c + c) with
                 | Some acc => if M.ltb A_ (M.abs A_ acc) (M.tiny A_) then Some (1, A1)
                               else match M.for_range (c + 1) n (ldl_b3 n c) A1 with Some A2 => Some (0, A2) | None => None end
                 | None => None end
    | None => None end.
  Lemma ldl_step_eq n c A : F.ldl_step A_ n c A = ldl_step' n c A.
  Proof. reflexivity. Qed.

  (* one column of the factorisation; rc 1 = the pivot test failed (the arrays as they are at that moment) *)
  Lemma ldl_step_tie (n c : nat) (Hn : U32 n) (Hc : c < n) (A : list T) (f : nat) :   (* for tie_a_real_ldl *)
    gen_a_real_ldl_loop1 O (S f) n 0 A c =
    match F.ldl_step A_ n c A with
    | Some (0, A2) => gen_a_real_ldl_loop1 O f n 0 A2 (S c)
    | Some (S _, A1) => Some (inr (A1, 1))
    | None => None
    end.
  Proof.
    rewrite ldl_step_eq. unfold ldl_step'.
    cbn [gen_a_real_ldl_loop1]. replace (c <? n) with true by (symmetry; apply Nat.ltb_lt; exact Hc). repeat arith_step.
    rewrite (ldl_l2 n c Hn Hc (S c) 0 A) by lia.
    destruct (M.for_range 0 c (ldl_b2 n c) A) as [A1|]; cbn [omap Nat.max]; [|reflexivity].
    unfold M.rd. destruct (nth_error A1 (n * c + c)) as [acc|]; [|reflexivity]. repeat arith_step.
    destruct (G.ltb O (G.abs O acc) (G.ofD O 1 (-1022))); [reflexivity|]. repeat arith_step.
    rewrite (ldl_l3 n c Hn Hc (S (n - (c + 1))) (c + 1) A1) by lia.
    destruct (M.for_range (c + 1) n (ldl_b3 n c) A1) as [A2|]; cbn [omap]; [|reflexivity].
    rewrite Nat.add_1_r. reflexivity.
  Qed.

  (* after a failed pivot test the model's loop keeps its state to the end *)
  Lemma ldl_sticky (n : nat) (k : nat) (A : list T) : forall cnt lo,
    M.forM lo cnt (fun c (s : nat * list T) => if Nat.eqb (fst s) 0 then F.ldl_step A_ n c (snd s) else Some s) (S k, A) = Some (S k, A).
  Proof. induction cnt as [|cnt IH]; intros lo; [reflexivity|]. cbn [M.forM fst Nat.eqb]. apply IH. Qed.

  Definition rc_out (r : option (nat * list T)) : option (list T + list T * nat) :=
    match r with Some (0, A') => Some (inl A') | Some (S _, A') => Some (inr (A', 1)) | None => None end.

  Lemma ldl_l1 (n : nat) (Hn : U32 n) : forall k fg c A, c + k = n -> k < fg ->   (* for tie_a_real_ldl *)
    gen_a_real_ldl_loop1 O fg n 0 A c =
    rc_out (M.forM c k (fun c (s : nat * list T) => if Nat.eqb (fst s) 0 then F.ldl_step A_ n c (snd s) else Some s) (0, A)).
  Proof.
    induction k as [|k IH]; intros fg c A Hc Hf; (destruct fg as [|fg]; [lia|]).
    - cbn [M.forM rc_out gen_a_real_ldl_loop1]. replace (c <? n) with false by (symmetry; apply Nat.ltb_ge; lia). reflexivity.
    - rewrite (ldl_step_tie n c Hn ltac:(lia) A fg). cbn [M.forM fst snd Nat.eqb].
      destruct (F.ldl_step A_ n c A) as [[[|rc] A1]|]; [apply IH; lia| |reflexivity].
      rewrite ldl_sticky. reflexivity.
  Qed.

  (* rc: 0 = A_SUCCESS, 1 = A_FAILURE *)
  Theorem tie_a_real_ldl : forall (n : nat) (A : list T), U32 n ->
    gen_a_real_ldl O n A 0 = match F.ldl A_ n A with Some (0, A') => Some (A', 0) | Some (S _, A') => Some (A', 1) | None => None end.
  Proof.
    intros n A Hn. unfold gen_a_real_ldl, F.ldl, M.for_range. rewrite Nat.sub_0_r.
    rewrite (ldl_l1 n Hn n (S n) 0 A) by lia.
    destruct (M.forM 0 n _ (0, A)) as [[[|rc] A1]|]; reflexivity.
  Qed.

  (* ------------------------------------------------------------------------------------------------ a_real_llt *)
  Definition llt_b3 (n r c : nat) (i : nat) (A : list T) : option (list T) :=
    match M.rd A (n * r + c) with Some arc => match M.rd A (n * r + i) with Some ari => match M.rd A (n * c + i) with Some aci =>
      M.wr A (n * r + c) (arc -- ari ** aci) | None => None end | None => None end | None => None end.
  Definition llt_b2 (n r : nat) (c : nat) (A : list T) : option (list T) :=
    match M.for_range 0 c (llt_b3 n r c) A with Some A' => match M.rd A' (n * r + c) with Some arc => match M.rd A' (n * c + c) with Some acc =>
      M.wr A' (n * r + c) (arc // acc) | None => None end | None => None end | None => None end.
  Definition llt_b4 (n r : nat) (i : nat) (A : list T) : option (list T) :=
    match M.rd A (n * r + r) with Some arr => match M.rd A (n * r + i) with Some ari => M.wr A (n * r + r) (arr -- ari ** ari)
    | None => None end | None => None end.
  Definition llt_step' (n r : nat) (A : list T) : option (nat * list T) :=
    match M.for_range 0 r (llt_b2 n r) A with
    | Some A1 => match M.for_range 0 r (llt_b4 n r) A1 with
                 | Some A2 => match M.rd A2 (n * r + r) with
                              | Some arr => if M.ltb A_ arr (M.tiny A_) then Some (1, A2)
                                            else match M.wr A2 (n * r + r) (M.sqrt A_ arr) with Some A3 => Some (0, A3) | None => None end
                              | None => None end
                 | None => None end
    | None => None end.
  Lemma llt_step_eq n r A : F.llt_step A_ n r A = llt_step' n r A.
  Proof. reflexivity. Qed.

  Lemma llt_l3 (n r c : nat) (Hn : U32 n) (Hc : c < n) : forall fg lo A, c - lo < fg ->   (* for tie_a_real_llt *)
    gen_a_real_llt_loop3 O fg c (n * r) (n * c) A lo = omap (fun A : list T => (A, Nat.max lo c)) (M.for_range lo c (llt_b3 n r c) A).
  Proof.
    for_simple (@gen_a_real_llt_loop3) (fun f i A => gen_a_real_llt_loop3 O f c (n * r) (n * c) A i) c (llt_b3 n r c) (fun (i : nat) (A : list T) => (A, i)).
  Qed.
  Lemma llt_l2 (n r : nat) (Hn : U32 n) (Hr : r < n) : forall fg lo A, r - lo < fg ->   (* for tie_a_real_llt *)
    gen_a_real_llt_loop2 O fg r 0 n (n * r) A lo = omap (fun A : list T => (A, Nat.max lo r)) (M.for_range lo r (llt_b2 n r) A).
  Proof.
    intros fg lo A Hf.
    refine (for_tie (fun f c A => gen_a_real_llt_loop2 O f r 0 n (n * r) A c) r (llt_b2 n r) (fun (c : nat) (A : list T) => (A, c)) _ _ fg lo A Hf).
    - intros f c s Hi. cbn [gen_a_real_llt_loop2]. cond_true Hi. repeat arith_step.
      rewrite (llt_l3 n r c Hn ltac:(lia) (S c) 0 s) by lia. unfold llt_b2.
      destruct (M.for_range 0 c (llt_b3 n r c) s) as [A1|]; cbn [omap Nat.max]; [|reflexivity]. sim.
    - intros f c s Hi. cbn [gen_a_real_llt_loop2]. cond_false Hi. reflexivity.
  Qed.
  Lemma llt_l4 (n r : nat) (Hn : U32 n) (Hr : r < n) : forall fg lo A, r - lo < fg ->   (* for tie_a_real_llt *)
    gen_a_real_llt_loop4 O fg r (n * r) A lo = omap (fun A : list T => (A, Nat.max lo r)) (M.for_range lo r (llt_b4 n r) A).
  Proof.
    for_simple (@gen_a_real_llt_loop4) (fun f i A => gen_a_real_llt_loop4 O f r (n * r) A i) r (llt_b4 n r) (fun (i : nat) (A : list T) => (A, i)).
  Qed.

  Lemma llt_step_tie (n r : nat) (Hn : U32 n) (Hr : r < n) (A : list T) (f : nat) :   (* for tie_a_real_llt *)
    gen_a_real_llt_loop1 O (S f) n 0 A r =
    match F.llt_step A_ n r A with
    | Some (0, A3) => gen_a_real_llt_loop1 O f n 0 A3 (S r)
    | Some (S _, A2) => Some (inr (A2, 1))
    | None => None
    end.
  Proof.
    rewrite llt_step_eq. unfold llt_step'.
    cbn [gen_a_real_llt_loop1]. replace (r <? n) with true by (symmetry; apply Nat.ltb_lt; exact Hr). repeat arith_step.
    rewrite (llt_l2 n r Hn Hr (S r) 0 A) by lia.
    destruct (M.for_range 0 r (llt_b2 n r) A) as [A1|]; cbn [omap Nat.max]; [|reflexivity].
    rewrite (llt_l4 n r Hn Hr (S r) 0 A1) by lia.
    destruct (M.for_range 0 r (llt_b4 n r) A1) as [A2|]; cbn [omap Nat.max]; [|reflexivity].
    unfold M.rd. destruct (nth_error A2 (n * r + r)) as [arr|]; [|reflexivity]. repeat arith_step.
    destruct (G.ltb O arr (G.ofD O 1 (-1022))); [reflexivity|]. rewrite upd_wr.
    destruct (M.wr A2 (n * r + r) (G.sqrt O arr)) as [A3|]; [|reflexivity]. repeat arith_step. rewrite Nat.add_1_r. reflexivity.
  Qed.
  Lemma llt_sticky (n : nat) (k : nat) (A : list T) : forall cnt lo,
    M.forM lo cnt (fun r (s : nat * list T) => if Nat.eqb (fst s) 0 then F.llt_step A_ n r (snd s) else Some s) (S k, A) = Some (S k, A).
  Proof. induction cnt as [|cnt IH]; intros lo; [reflexivity|]. cbn [M.forM fst Nat.eqb]. apply IH. Qed.
  Lemma llt_l1 (n : nat) (Hn : U32 n) : forall k fg r A, r + k = n -> k < fg ->   (* for tie_a_real_llt *)
    gen_a_real_llt_loop1 O fg n 0 A r =
    rc_out (M.forM r k (fun r (s : nat * list T) => if Nat.eqb (fst s) 0 then F.llt_step A_ n r (snd s) else Some s) (0, A)).
  Proof.
    induction k as [|k IH]; intros fg r A Hr Hf; (destruct fg as [|fg]; [lia|]).
    - cbn [M.forM rc_out gen_a_real_llt_loop1]. replace (r <? n) with false by (symmetry; apply Nat.ltb_ge; lia). reflexivity.
    - rewrite (llt_step_tie n r Hn ltac:(lia) A fg). cbn [M.forM fst snd Nat.eqb].
      destruct (F.llt_step A_ n r A) as [[[|rc] A1]|]; [apply IH; lia| |reflexivity].
      rewrite llt_sticky. reflexivity.
  Qed.
  Theorem tie_a_real_llt : forall (n : nat) (A : list T), U32 n ->
    gen_a_real_llt O n A 0 = match F.llt A_ n A with Some (0, A') => Some (A', 0) | Some (S _, A') => Some (A', 1) | None => None end.
  Proof.
    intros n A Hn. unfold gen_a_real_llt, F.llt, M.for_range. rewrite Nat.sub_0_r.
    rewrite (llt_l1 n Hn n (S n) 0 A) by lia.
    destruct (M.forM 0 n _ (0, A)) as [[[|rc] A1]|]; reflexivity.
  Qed.
End Tie.
