(* All-orders translator tie of C08, part 3: the backward substitutions a_real_ldl_upper, llt_upper, plu_upper and their strided
   forms.  The outer loop `for (c = n; c;) { .. --c ..}` is the model's for_down; in ldl/llt the pointer Lc walks down column c of L
   (Lc += n), the model reads cell (n+1)*c + n*(r-c): the inner loop lemma carries Lc as that function of r.
   Theorems tie_a_real_{ldl,llt,plu}_upper and _upper_: every order with U32, every offset, every pair of arrays. *)
From Coq Require Import ZArith NArith List Bool Arith Lia.
From LibaV Require Import C09.LinalgSpec C09.LinalgLemmas C09.LoopTieLemmas C08.LoopTieLemmas.
From Gen Require Import GenLoop TieLoopBase.
Import ListNotations.

Section Tie.
  Context {T : Type} (O : G.NumOps T).
  Local Notation A_ := (adapt O).
  Local Notation "a -- b" := (M.sub A_ a b) (at level 50, left associativity).
  Local Notation "a ** b" := (M.mul A_ a b) (at level 40, left associativity).
  Local Notation "a // b" := (M.div A_ a b) (at level 40, left associativity).

  (* x[c] -= *Lc * x[r] with Lc walking down column c of L: Lc = (n+1)*c + n*(r-c) when row r is read *)
  Definition upL_body (n c : nat) (L : list T) (r : nat) (x : list T) : option (list T) :=
    match M.rd x c with Some xc => match M.rd L ((n + 1) * c + n * (r - c)) with Some l => match M.rd x r with Some xr => M.wr x c (xc -- l ** xr)
    | None => None end | None => None end | None => None end.

  (* ------------------------------------------------------------------------------------------------ ldl_upper *)
  Lemma ldl_upper_l2 (n c : nat) (L : list T) (Hn : U32 n) : forall fg lo x, S c <= lo -> n - lo < fg ->   (* for tie_a_real_ldl_upper *)
    gen_a_real_ldl_upper_loop2 O fg n 0 c L x lo ((n + 1) * c + n * (lo - S c)) =
    omap (fun x : list T => (x, Nat.max lo n, (n + 1) * c + n * (Nat.max lo n - S c))) (M.for_range lo n (upL_body n c L) x).
  Proof.
    intros fg lo x Hl Hf.
    refine (for_tie_from (fun f r x => gen_a_real_ldl_upper_loop2 O f n 0 c L x r ((n + 1) * c + n * (r - S c))) (S c) n (upL_body n c L)
              (fun (r : nat) (x : list T) => (x, r, (n + 1) * c + n * (r - S c))) _ _ fg lo x Hl Hf).
    - intros f r s [Hc Hi]. cbn [gen_a_real_ldl_upper_loop2]. cond_true Hi.
      replace ((n + 1) * c + n * (r - S c) + n) with ((n + 1) * c + n * (r - c)) by nia. unfold upL_body. sim.
    - intros f r s Hc Hi. cbn [gen_a_real_ldl_upper_loop2]. cond_false Hi. reflexivity.
  Qed.

  Lemma ldl_upper_l1 (n : nat) (L : list T) (Hn : U32 n) : forall c fg x, c <= n -> c < fg ->   (* for tie_a_real_ldl_upper *)
    gen_a_real_ldl_upper_loop1 O fg 0 n 0 L x c =
    omap (fun x : list T => x) (M.for_down c (fun c x =>
      match M.rd x c with Some xc => match M.rd L ((n + 1) * c) with Some d => match M.wr x c (xc // d) with Some x1 =>
        M.for_range (c + 1) n (upL_body n c L) x1 | None => None end | None => None end | None => None end) x).
  Proof.
    refine (down_tie (fun f c x => gen_a_real_ldl_upper_loop1 O f 0 n 0 L x c) n _ (fun x : list T => x) _ _).
    - intros f k s Hk. cbn [gen_a_real_ldl_upper_loop1 Nat.eqb]. rewrite fits64_succ by exact Hn. repeat arith_step.
      unfold M.rd. destruct (nth_error s k) as [xc|]; [|reflexivity]. destruct (nth_error L ((n + 1) * k)) as [d|]; [|reflexivity].
      rewrite upd_wr. destruct (M.wr s k (G.div O xc d)) as [x1|]; [|reflexivity]. repeat arith_step.
      pose proof (ldl_upper_l2 n k L Hn (S (n - (k + 1))) (k + 1) x1 ltac:(lia) ltac:(lia)) as H.
      replace (k + 1 - S k) with 0 in H by lia. rewrite Nat.mul_0_r, Nat.add_0_r in H. rewrite H. clear H.
      destruct (M.for_range (k + 1) n (upL_body n k L) x1); reflexivity.
    - intros f s. reflexivity.
  Qed.

  Theorem tie_a_real_ldl_upper : forall (n : nat) (L x : list T), U32 n -> gen_a_real_ldl_upper O n L 0 x 0 = F.ldl_upper A_ n L x.
  Proof.
    intros n L x Hn. unfold gen_a_real_ldl_upper. rewrite (ldl_upper_l1 n L Hn n (S n) x) by lia.
    unfold F.ldl_upper. fold (upL_body n). destruct (M.for_down n _ x); reflexivity.
  Qed.

  (* ------------------------------------------------------------------------------------------------ ldl_upper_ (column `off`) *)
  Definition upL_body_ (n c off : nat) (L : list T) (r : nat) (x : list T) : option (list T) :=
    match M.rd x (off + n * c) with Some xc => match M.rd L ((n + 1) * c + n * (r - c)) with Some l => match M.rd x (off + n * r) with Some xr =>
      M.wr x (off + n * c) (xc -- l ** xr) | None => None end | None => None end | None => None end.

  Lemma ldl_upper__l2 (n c off : nat) (L : list T) (Hn : U32 n) : forall fg lo x, S c <= lo -> n - lo < fg ->   (* for tie_a_real_ldl_upper_ *)
    gen_a_real_ldl_upper__loop2 O fg n (off + n * c) off L x lo ((n + 1) * c + n * (lo - S c)) =
    omap (fun x : list T => (x, Nat.max lo n, (n + 1) * c + n * (Nat.max lo n - S c))) (M.for_range lo n (upL_body_ n c off L) x).
  Proof.
    intros fg lo x Hl Hf.
    refine (for_tie_from (fun f r x => gen_a_real_ldl_upper__loop2 O f n (off + n * c) off L x r ((n + 1) * c + n * (r - S c))) (S c) n (upL_body_ n c off L)
              (fun (r : nat) (x : list T) => (x, r, (n + 1) * c + n * (r - S c))) _ _ fg lo x Hl Hf).
    - intros f r s [Hc Hi]. cbn [gen_a_real_ldl_upper__loop2]. cond_true Hi.
      replace ((n + 1) * c + n * (r - S c) + n) with ((n + 1) * c + n * (r - c)) by nia. unfold upL_body_. sim.
    - intros f r s Hc Hi. cbn [gen_a_real_ldl_upper__loop2]. cond_false Hi. reflexivity.
  Qed.

  Lemma ldl_upper__l1 (n off : nat) (L : list T) (Hn : U32 n) : forall c fg x, c <= n -> c < fg ->   (* for tie_a_real_ldl_upper_ *)
    gen_a_real_ldl_upper__loop1 O fg 0 n off L x c =
    omap (fun x : list T => x) (M.for_down c (fun c x =>
      match M.rd x (off + n * c) with Some xc => match M.rd L ((n + 1) * c) with Some d => match M.wr x (off + n * c) (xc // d) with Some x1 =>
        M.for_range (c + 1) n (upL_body_ n c off L) x1 | None => None end | None => None end | None => None end) x).
  Proof.
    refine (down_tie (fun f c x => gen_a_real_ldl_upper__loop1 O f 0 n off L x c) n _ (fun x : list T => x) _ _).
    - intros f k s Hk. cbn [gen_a_real_ldl_upper__loop1 Nat.eqb]. rewrite fits64_succ by exact Hn. repeat arith_step.
      unfold M.rd. destruct (nth_error s (off + n * k)) as [xc|]; [|reflexivity]. destruct (nth_error L ((n + 1) * k)) as [d|]; [|reflexivity].
      rewrite upd_wr. destruct (M.wr s (off + n * k) (G.div O xc d)) as [x1|]; [|reflexivity]. repeat arith_step.
      pose proof (ldl_upper__l2 n k off L Hn (S (n - (k + 1))) (k + 1) x1 ltac:(lia) ltac:(lia)) as H.
      replace (k + 1 - S k) with 0 in H by lia. rewrite Nat.mul_0_r, Nat.add_0_r in H. rewrite H. clear H.
      destruct (M.for_range (k + 1) n (upL_body_ n k off L) x1); reflexivity.
    - intros f s. reflexivity.
  Qed.

  Theorem tie_a_real_ldl_upper_ : forall (n off : nat) (L x : list T), U32 n -> gen_a_real_ldl_upper_ O n L 0 x off = F.ldl_upper_ A_ n L x off.
  Proof.
    intros n off L x Hn. unfold gen_a_real_ldl_upper_. rewrite (ldl_upper__l1 n off L Hn n (S n) x) by lia.
    unfold F.ldl_upper_. fold (upL_body_ n). destruct (M.for_down n _ x); reflexivity.
  Qed.

  (* ------------------------------------------------------------------------------------------------ llt_upper *)
  Lemma llt_upper_l2 (n c : nat) (L : list T) (Hn : U32 n) : forall fg lo x, S c <= lo -> n - lo < fg ->   (* for tie_a_real_llt_upper *)
    gen_a_real_llt_upper_loop2 O fg n 0 c L x lo ((n + 1) * c + n * (lo - S c)) =
    omap (fun x : list T => (x, Nat.max lo n, (n + 1) * c + n * (Nat.max lo n - S c))) (M.for_range lo n (upL_body n c L) x).
  Proof.
    intros fg lo x Hl Hf.
    refine (for_tie_from (fun f r x => gen_a_real_llt_upper_loop2 O f n 0 c L x r ((n + 1) * c + n * (r - S c))) (S c) n (upL_body n c L)
              (fun (r : nat) (x : list T) => (x, r, (n + 1) * c + n * (r - S c))) _ _ fg lo x Hl Hf).
    - intros f r s [Hc Hi]. cbn [gen_a_real_llt_upper_loop2]. cond_true Hi.
      replace ((n + 1) * c + n * (r - S c) + n) with ((n + 1) * c + n * (r - c)) by nia. unfold upL_body. sim.
    - intros f r s Hc Hi. cbn [gen_a_real_llt_upper_loop2]. cond_false Hi. reflexivity.
  Qed.

  Lemma llt_upper_l1 (n : nat) (L : list T) (Hn : U32 n) : forall c fg x, c <= n -> c < fg ->   (* for tie_a_real_llt_upper *)
    gen_a_real_llt_upper_loop1 O fg 0 n 0 L x c =
    omap (fun x : list T => x) (M.for_down c (fun c x =>
      match M.rd L ((n + 1) * c) with Some lcc => match M.for_range (c + 1) n (upL_body n c L) x with Some x1 =>
        match M.rd x1 c with Some xc => M.wr x1 c (xc // lcc) | None => None end | None => None end | None => None end) x).
  Proof.
    refine (down_tie (fun f c x => gen_a_real_llt_upper_loop1 O f 0 n 0 L x c) n _ (fun x : list T => x) _ _).
    - intros f k s Hk. cbn [gen_a_real_llt_upper_loop1 Nat.eqb]. rewrite fits64_succ by exact Hn. repeat arith_step.
      unfold M.rd. destruct (nth_error L ((n + 1) * k)) as [lcc|]; [|reflexivity]. repeat arith_step.
      pose proof (llt_upper_l2 n k L Hn (S (n - (k + 1))) (k + 1) s ltac:(lia) ltac:(lia)) as H.
      replace (k + 1 - S k) with 0 in H by lia. rewrite Nat.mul_0_r, Nat.add_0_r in H. rewrite H. clear H.
      destruct (M.for_range (k + 1) n (upL_body n k L) s) as [x1|]; cbn [omap]; [|reflexivity]. sim.
    - intros f s. reflexivity.
  Qed.

  Theorem tie_a_real_llt_upper : forall (n : nat) (L x : list T), U32 n -> gen_a_real_llt_upper O n L 0 x 0 = F.llt_upper A_ n L x.
  Proof.
    intros n L x Hn. unfold gen_a_real_llt_upper. rewrite (llt_upper_l1 n L Hn n (S n) x) by lia.
    unfold F.llt_upper. fold (upL_body n). destruct (M.for_down n _ x); reflexivity.
  Qed.

  (* ------------------------------------------------------------------------------------------------ llt_upper_ *)
  Lemma llt_upper__l2 (n c off : nat) (L : list T) (Hn : U32 n) : forall fg lo x, S c <= lo -> n - lo < fg ->   (* for tie_a_real_llt_upper_ *)
    gen_a_real_llt_upper__loop2 O fg n (off + n * c) off L x lo ((n + 1) * c + n * (lo - S c)) =
    omap (fun x : list T => (x, Nat.max lo n, (n + 1) * c + n * (Nat.max lo n - S c))) (M.for_range lo n (upL_body_ n c off L) x).
  Proof.
    intros fg lo x Hl Hf.
    refine (for_tie_from (fun f r x => gen_a_real_llt_upper__loop2 O f n (off + n * c) off L x r ((n + 1) * c + n * (r - S c))) (S c) n (upL_body_ n c off L)
              (fun (r : nat) (x : list T) => (x, r, (n + 1) * c + n * (r - S c))) _ _ fg lo x Hl Hf).
    - intros f r s [Hc Hi]. cbn [gen_a_real_llt_upper__loop2]. cond_true Hi.
      replace ((n + 1) * c + n * (r - S c) + n) with ((n + 1) * c + n * (r - c)) by nia. unfold upL_body_. sim.
    - intros f r s Hc Hi. cbn [gen_a_real_llt_upper__loop2]. cond_false Hi. reflexivity.
  Qed.

  Lemma llt_upper__l1 (n off : nat) (L : list T) (Hn : U32 n) : forall c fg x, c <= n -> c < fg ->   (* for tie_a_real_llt_upper_ *)
    gen_a_real_llt_upper__loop1 O fg 0 n off L x c =
    omap (fun x : list T => x) (M.for_down c (fun c x =>
      match M.rd L ((n + 1) * c) with Some lcc => match M.for_range (c + 1) n (upL_body_ n c off L) x with Some x1 =>
        match M.rd x1 (off + n * c) with Some xc => M.wr x1 (off + n * c) (xc // lcc) | None => None end | None => None end | None => None end) x).
  Proof.
    refine (down_tie (fun f c x => gen_a_real_llt_upper__loop1 O f 0 n off L x c) n _ (fun x : list T => x) _ _).
    - intros f k s Hk. cbn [gen_a_real_llt_upper__loop1 Nat.eqb]. rewrite fits64_succ by exact Hn. repeat arith_step.
      unfold M.rd. destruct (nth_error L ((n + 1) * k)) as [lcc|]; [|reflexivity]. repeat arith_step.
      pose proof (llt_upper__l2 n k off L Hn (S (n - (k + 1))) (k + 1) s ltac:(lia) ltac:(lia)) as H.
      replace (k + 1 - S k) with 0 in H by lia. rewrite Nat.mul_0_r, Nat.add_0_r in H. rewrite H. clear H.
      destruct (M.for_range (k + 1) n (upL_body_ n k off L) s) as [x1|]; cbn [omap]; [|reflexivity]. sim.
    - intros f s. reflexivity.
  Qed.

  Theorem tie_a_real_llt_upper_ : forall (n off : nat) (L x : list T), U32 n -> gen_a_real_llt_upper_ O n L 0 x off = F.llt_upper_ A_ n L x off.
  Proof.
    intros n off L x Hn. unfold gen_a_real_llt_upper_. rewrite (llt_upper__l1 n off L Hn n (S n) x) by lia.
    unfold F.llt_upper_. fold (upL_body_ n). destruct (M.for_down n _ x); reflexivity.
  Qed.

  (* ------------------------------------------------------------------------------------------------ plu_upper, plu_upper_ *)
  Definition upU_body (n r : nat) (U : list T) (c : nat) (x : list T) : option (list T) :=
    match M.rd x r with Some xr => match M.rd U (n * r + c) with Some u => match M.rd x c with Some xc => M.wr x r (xr -- u ** xc)
    | None => None end | None => None end | None => None end.
  Definition upU_body_ (n r off : nat) (U : list T) (c : nat) (x : list T) : option (list T) :=
    match M.rd x (off + n * r) with Some xr => match M.rd U (n * r + c) with Some u => match M.rd x (off + n * c) with Some xc =>
      M.wr x (off + n * r) (xr -- u ** xc) | None => None end | None => None end | None => None end.

  Lemma plu_upper_l2 (n r : nat) (U : list T) (Hn : U32 n) : forall fg lo x, n - lo < fg ->   (* for tie_a_real_plu_upper *)
    gen_a_real_plu_upper_loop2 O fg n 0 r (n * r) U x lo = omap (fun x : list T => (x, Nat.max lo n)) (M.for_range lo n (upU_body n r U) x).
  Proof.
    for_simple (@gen_a_real_plu_upper_loop2) (fun f c x => gen_a_real_plu_upper_loop2 O f n 0 r (n * r) U x c) n (upU_body n r U)
      (fun (c : nat) (x : list T) => (x, c)).
  Qed.
  Lemma plu_upper_l1 (n : nat) (U : list T) (Hn : U32 n) : forall r fg x, r <= n -> r < fg ->   (* for tie_a_real_plu_upper *)
    gen_a_real_plu_upper_loop1 O fg 0 n 0 U x r =
    omap (fun x : list T => x) (M.for_down r (fun r x =>
      match M.for_range (r + 1) n (upU_body n r U) x with Some x1 => match M.rd x1 r with Some xr => match M.rd U (n * r + r) with Some u =>
        M.wr x1 r (xr // u) | None => None end | None => None end | None => None end) x).
  Proof.
    refine (down_tie (fun f r x => gen_a_real_plu_upper_loop1 O f 0 n 0 U x r) n _ (fun x : list T => x) _ _).
    - intros f k s Hk. cbn [gen_a_real_plu_upper_loop1 Nat.eqb]. repeat arith_step.
      rewrite plu_upper_l2 by (first [lia | u32]).
      destruct (M.for_range (k + 1) n (upU_body n k U) s) as [x1|]; cbn [omap]; [|reflexivity]. sim.
    - intros f s. reflexivity.
  Qed.
  Theorem tie_a_real_plu_upper : forall (n : nat) (U x : list T), U32 n -> gen_a_real_plu_upper O n U 0 x 0 = F.plu_upper A_ n U x.
  Proof.
    intros n U x Hn. unfold gen_a_real_plu_upper. rewrite (plu_upper_l1 n U Hn n (S n) x) by lia.
    unfold F.plu_upper. fold (upU_body n). destruct (M.for_down n _ x); reflexivity.
  Qed.

  Lemma plu_upper__l2 (n r off : nat) (U : list T) (Hn : U32 n) : forall fg lo x, n - lo < fg ->   (* for tie_a_real_plu_upper_ *)
    gen_a_real_plu_upper__loop2 O fg n (off + n * r) (n * r) off U x lo = omap (fun x : list T => (x, Nat.max lo n)) (M.for_range lo n (upU_body_ n r off U) x).
  Proof.
    for_simple (@gen_a_real_plu_upper__loop2) (fun f c x => gen_a_real_plu_upper__loop2 O f n (off + n * r) (n * r) off U x c) n (upU_body_ n r off U)
      (fun (c : nat) (x : list T) => (x, c)).
  Qed.
  Lemma plu_upper__l1 (n off : nat) (U : list T) (Hn : U32 n) : forall r fg x, r <= n -> r < fg ->   (* for tie_a_real_plu_upper_ *)
    gen_a_real_plu_upper__loop1 O fg 0 n off U x r =
    omap (fun x : list T => x) (M.for_down r (fun r x =>
      match M.for_range (r + 1) n (upU_body_ n r off U) x with Some x1 => match M.rd x1 (off + n * r) with Some xr => match M.rd U (n * r + r) with Some u =>
        M.wr x1 (off + n * r) (xr // u) | None => None end | None => None end | None => None end) x).
  Proof.
    refine (down_tie (fun f r x => gen_a_real_plu_upper__loop1 O f 0 n off U x r) n _ (fun x : list T => x) _ _).
    - intros f k s Hk. cbn [gen_a_real_plu_upper__loop1 Nat.eqb]. repeat arith_step.
      rewrite plu_upper__l2 by (first [lia | u32]).
      destruct (M.for_range (k + 1) n (upU_body_ n k off U) s) as [x1|]; cbn [omap]; [|reflexivity]. sim.
    - intros f s. reflexivity.
  Qed.
  Theorem tie_a_real_plu_upper_ : forall (n off : nat) (U x : list T), U32 n -> gen_a_real_plu_upper_ O n U 0 x off = F.plu_upper_ A_ n U x off.
  Proof.
    intros n off U x Hn. unfold gen_a_real_plu_upper_. rewrite (plu_upper__l1 n off U Hn n (S n) x) by lia.
    unfold F.plu_upper_. fold (upU_body_ n). destruct (M.for_down n _ x); reflexivity.
  Qed.
End Tie.
