/* C08 correspondence driver: runs the PLU / LDL^T / LL^T routines of liba (compiled from
   $VERIF_REPO/src/linalg_plu.c, linalg_ldl.c, linalg_llt.c, linalg.c, math.c) on the cases
   read from stdin and prints one canonical line per call:
       <case> <opcode> <items...>       ints in decimal, doubles as 16 hex digits
   The call sequence, the buffers and their initial contents (-7.0 in every output cell,
   99 in the permutation buffer) are exactly those of run_case in coq/C08/Instances.v.
   Every buffer is an exactly-sized malloc block so that ASan sees any overrun.
   libm's log is interposed with the linker's --wrap=log; the (argument,result) pairs of
   the lndet calls are printed on an extra line  <case> L<opcode> ...  which is fed to the
   model as its log oracle and is not part of the comparison.
   Input line:  <mask> <n> <n*n hex words of A> <n hex words of b>      mask: 1 PLU, 2 LDL, 4 LLT */
#include "a/a.h"
#include "a/linalg.h"
#include "a/math.h"
#include <stdio.h>
#include <stdlib.h>
#include <string.h>
#include <stdint.h>
#include <inttypes.h>

double __real_log(double x);
static double log_arg[4096], log_res[4096];
static unsigned log_n;
double __wrap_log(double x)
{
    double r = __real_log(x);
    if (log_n < 4096)
    {
        log_arg[log_n] = x;
        log_res[log_n] = r;
        ++log_n;
    }
    return r;
}

static uint64_t bits(double x)
{
    uint64_t u;
    if (x != x) { return UINT64_C(0x7ff8000000000000); }
    memcpy(&u, &x, 8);
    return u;
}
static double frombits(uint64_t u)
{
    double x;
    memcpy(&x, &u, 8);
    return x;
}

static long caseno;
static void head(int op) { printf("%ld %d", caseno, op); }
static void pf(double const *p, size_t n)
{
    size_t i;
    for (i = 0; i < n; ++i) { printf(" %016" PRIx64, bits(p[i])); }
}
static void endl(void) { putchar('\n'); }
static void line_f(int op, double const *p, size_t n)
{
    head(op);
    pf(p, n);
    endl();
}
static void line_log(int op)
{
    unsigned i;
    printf("%ld L%d", caseno, op);
    for (i = 0; i < log_n; ++i) { printf(" %016" PRIx64 " %016" PRIx64, bits(log_arg[i]), bits(log_res[i])); }
    endl();
}

static double *newv(size_t n, double const *init)
{
    size_t i;
    double *p = (double *)malloc(n ? n * sizeof(double) : 1);
    for (i = 0; i < n; ++i) { p[i] = init ? init[i] : -7.0; }
    return p;
}

int main(void)
{
    static char tok[64];
    unsigned mask, n;
    while (scanf("%u %u", &mask, &n) == 2)
    {
        size_t const nn = (size_t)n * n;
        size_t i;
        double *A0 = newv(nn, NULL), *b0 = newv(n, NULL);
        for (i = 0; i < nn; ++i)
        {
            if (scanf("%63s", tok) != 1) { return 2; }
            A0[i] = frombits(strtoull(tok, NULL, 16));
        }
        for (i = 0; i < n; ++i)
        {
            if (scanf("%63s", tok) != 1) { return 2; }
            b0[i] = frombits(strtoull(tok, NULL, 16));
        }
        if (mask & 1)
        {
            double *A = newv(nn, A0);
            a_uint *p = (a_uint *)malloc(n ? n * sizeof(a_uint) : 1);
            int sign = 12345;
            int rc;
            for (i = 0; i < n; ++i) { p[i] = 99; }
            rc = a_real_plu(n, A, p, &sign);
            head(100);
            printf(" %d %d", rc, sign);
            for (i = 0; i < n; ++i) { printf(" %u", (unsigned)p[i]); }
            pf(A, nn);
            endl();
            if (rc == 0)
            {
                double *m, *v, *w;
                m = newv(nn, NULL); a_real_plu_P(n, p, m); line_f(101, m, nn); free(m);
                m = newv(nn, NULL); a_real_plu_P_(n, p, m); line_f(102, m, nn); free(m);
                m = newv(nn, NULL); a_real_plu_L(n, A, m); line_f(103, m, nn); free(m);
                m = newv(nn, NULL); a_real_plu_U(n, A, m); line_f(104, m, nn); free(m);
                v = newv(n, NULL);
                a_real_plu_apply(n, p, b0, v); line_f(105, v, n);
                a_real_plu_lower(n, A, v); line_f(106, v, n);
                a_real_plu_upper(n, A, v); line_f(107, v, n);
                free(v);
                v = newv(n, NULL); a_real_plu_solve(n, A, p, b0, v); line_f(108, v, n); free(v);
                w = newv(n, NULL); m = newv(nn, NULL);
                a_real_plu_inv(n, A, p, w, m);
                head(109); pf(w, n); pf(m, nn); endl();
                free(w); free(m);
                m = newv(nn, NULL); a_real_plu_inv_(n, A, p, m); line_f(110, m, nn); free(m);
                { double d = a_real_plu_det(n, A, sign); line_f(111, &d, 1); }
                { double d; log_n = 0; d = a_real_plu_lndet(n, A); line_log(112); line_f(112, &d, 1); }
                head(113); printf(" %d", a_real_plu_sgndet(n, A, sign)); endl();
            }
            free(A);
            free(p);
        }
        if (mask & 2)
        {
            double *A = newv(nn, A0);
            int rc = a_real_ldl(n, A);
            head(200); printf(" %d", rc); pf(A, nn); endl();
            if (rc == 0)
            {
                double *m, *v, *w;
                m = newv(nn, NULL); a_real_ldl_L(n, A, m); line_f(201, m, nn); free(m);
                v = newv(n, NULL); a_real_ldl_D(n, A, v); line_f(202, v, n); free(v);
                v = newv(n, b0);
                a_real_ldl_lower(n, A, v); line_f(203, v, n);
                a_real_ldl_upper(n, A, v); line_f(204, v, n);
                free(v);
                v = newv(n, b0); a_real_ldl_solve(n, A, v); line_f(205, v, n); free(v);
                w = newv(n, NULL); m = newv(nn, NULL);
                a_real_ldl_inv(n, A, w, m);
                head(206); pf(w, n); pf(m, nn); endl();
                free(w); free(m);
                m = newv(nn, NULL); a_real_ldl_inv_(n, A, m); line_f(207, m, nn); free(m);
                { double d = a_real_ldl_det(n, A); line_f(208, &d, 1); }
                { double d; log_n = 0; d = a_real_ldl_lndet(n, A); line_log(209); line_f(209, &d, 1); }
                head(210); printf(" %d", a_real_ldl_sgndet(n, A)); endl();
            }
            free(A);
        }
        if (mask & 4)
        {
            double *A = newv(nn, A0);
            int rc = a_real_llt(n, A);
            head(300); printf(" %d", rc); pf(A, nn); endl();
            if (rc == 0)
            {
                double *m, *v, *w;
                m = newv(nn, NULL); a_real_llt_L(n, A, m); line_f(301, m, nn); free(m);
                v = newv(n, b0);
                a_real_llt_lower(n, A, v); line_f(303, v, n);
                a_real_llt_upper(n, A, v); line_f(304, v, n);
                free(v);
                v = newv(n, b0); a_real_llt_solve(n, A, v); line_f(305, v, n); free(v);
                w = newv(n, NULL); m = newv(nn, NULL);
                a_real_llt_inv(n, A, w, m);
                head(306); pf(w, n); pf(m, nn); endl();
                free(w); free(m);
                m = newv(nn, NULL); a_real_llt_inv_(n, A, m); line_f(307, m, nn); free(m);
                { double d = a_real_llt_det(n, A); line_f(308, &d, 1); }
                { double d; log_n = 0; d = a_real_llt_lndet(n, A); line_log(309); line_f(309, &d, 1); }
            }
            free(A);
        }
        free(A0);
        free(b0);
        ++caseno;
    }
    return 0;
}
