(* GENERATED ONCE by harness/C08/mk_tie.py and committed: tie between the UNROLLED translation of the LDL^T / Cholesky families and
   the permutation-free PLU routines (module Gen.GenFac, regenerated on every run by tools/c2coq.py with the order fixed, arrays
   exactly sized, callees inlined) and the hand model C08/FactorDefs.v.  For every routine and every order 0..4: for ALL matrix
   entries and EVERY instance of the numeric interface the model returns exactly what the translated C computes, operation for
   operation; for the factorisations themselves (dynamic failure exits) the statement is by cases on the pivot tests, which
   both sides perform on the same terms. *)
From Coq Require Import ZArith List Bool.
From LibaV Require Common.NumOps C08.NumOps C08.FactorDefs.
From Gen Require Import GenFac.
Import ListNotations.
Module G := LibaV.Common.NumOps.
Module M := LibaV.C08.NumOps.
Module F := LibaV.C08.FactorDefs.

Section Tie.
  Context {T : Type} (O : G.NumOps T).
  (* the numeric interface of the C08 model, read off the common one: A_REAL_MIN = 2^-1022, log = libm *)
  Definition adapt : M.NumOps T :=
    {| M.zero := G.ofZ O 0; M.one := G.ofZ O 1; M.add := G.add O; M.sub := G.sub O; M.mul := G.mul O; M.div := G.div O;
       M.abs := G.abs O; M.sqrt := G.sqrt O; M.ln := G.fn1 O G.Log; M.ltb := G.ltb O; M.eqb := G.eqb O; M.ofZ := G.ofZ O;
       M.tiny := G.ofD O 1 (-1022) |}.

  Ltac rc_tie := intros; cbv;
    repeat (match goal with |- context [if ?c then _ else _] =>
              lazymatch c with context [if _ then _ else _] => fail | _ => destruct c end end; cbv beta iota);
    repeat split; reflexivity.

  Theorem tie_ldl_n0 : 
    match F.ldl adapt 0 [] with
    | Some (rc, A') => let r := gen_a_real_ldl_n0 O in A' = [] /\ r = G.ofZ O (Z.of_nat rc)
    | None => False
    end.
  Proof. rc_tie. Qed.

  Theorem tie_ldl_inv_n0 : 
    F.ldl_inv adapt 0 [] [] [] = Some ([], []).
  Proof. intros. cbv. reflexivity. Qed.

  Theorem tie_ldl_lower__n1 : forall L0 y0, 
    F.ldl_lower_ adapt 1 [L0] [y0] 0 = Some (let oy0 := gen_a_real_ldl_lower__n1 O L0 y0 in [oy0]).
  Proof. intros. cbv. reflexivity. Qed.

  Theorem tie_ldl_n2 : forall A0 A1 A2 A3, 
    match F.ldl adapt 2 [A0; A1; A2; A3] with
    | Some (rc, A') => let '(oA0, oA1, oA2, oA3, r) := gen_a_real_ldl_n2 O A0 A1 A2 A3 in A' = [oA0; oA1; oA2; oA3] /\ r = G.ofZ O (Z.of_nat rc)
    | None => False
    end.
  Proof. rc_tie. Qed.

  Theorem tie_ldl_inv_n2 : forall A0 A1 A2 A3 b0 b1 I0 I1 I2 I3, 
    F.ldl_inv adapt 2 [A0; A1; A2; A3] [b0; b1] [I0; I1; I2; I3] = Some (let '(ob0, ob1, oI0, oI1, oI2, oI3) := gen_a_real_ldl_inv_n2 O A0 A1 A2 A3 b0 b1 I0 I1 I2 I3 in ([ob0; ob1], [oI0; oI1; oI2; oI3])).
  Proof. intros. cbv. reflexivity. Qed.

  Theorem tie_ldl_lower__n3 : forall L0 L1 L2 L3 L4 L5 L6 L7 L8 y0 y1 y2 y3 y4 y5 y6 y7 y8, 
    F.ldl_lower_ adapt 3 [L0; L1; L2; L3; L4; L5; L6; L7; L8] [y0; y1; y2; y3; y4; y5; y6; y7; y8] 0 = Some (let '(oy0, oy1, oy2, oy3, oy4, oy5, oy6, oy7, oy8) := gen_a_real_ldl_lower__n3 O L0 L1 L2 L3 L4 L5 L6 L7 L8 y0 y1 y2 y3 y4 y5 y6 y7 y8 in [oy0; oy1; oy2; oy3; oy4; oy5; oy6; oy7; oy8]).
  Proof. intros. cbv. reflexivity. Qed.

  Theorem tie_ldl_n4 : forall A0 A1 A2 A3 A4 A5 A6 A7 A8 A9 A10 A11 A12 A13 A14 A15, 
    match F.ldl adapt 4 [A0; A1; A2; A3; A4; A5; A6; A7; A8; A9; A10; A11; A12; A13; A14; A15] with
    | Some (rc, A') => let '(oA0, oA1, oA2, oA3, oA4, oA5, oA6, oA7, oA8, oA9, oA10, oA11, oA12, oA13, oA14, oA15, r) := gen_a_real_ldl_n4 O A0 A1 A2 A3 A4 A5 A6 A7 A8 A9 A10 A11 A12 A13 A14 A15 in A' = [oA0; oA1; oA2; oA3; oA4; oA5; oA6; oA7; oA8; oA9; oA10; oA11; oA12; oA13; oA14; oA15] /\ r = G.ofZ O (Z.of_nat rc)
    | None => False
    end.
  Proof. rc_tie. Qed.

  Theorem tie_ldl_inv_n4 : forall A0 A1 A2 A3 A4 A5 A6 A7 A8 A9 A10 A11 A12 A13 A14 A15 b0 b1 b2 b3 I0 I1 I2 I3 I4 I5 I6 I7 I8 I9 I10 I11 I12 I13 I14 I15, 
    F.ldl_inv adapt 4 [A0; A1; A2; A3; A4; A5; A6; A7; A8; A9; A10; A11; A12; A13; A14; A15] [b0; b1; b2; b3] [I0; I1; I2; I3; I4; I5; I6; I7; I8; I9; I10; I11; I12; I13; I14; I15] = Some (let '(ob0, ob1, ob2, ob3, oI0, oI1, oI2, oI3, oI4, oI5, oI6, oI7, oI8, oI9, oI10, oI11, oI12, oI13, oI14, oI15) := gen_a_real_ldl_inv_n4 O A0 A1 A2 A3 A4 A5 A6 A7 A8 A9 A10 A11 A12 A13 A14 A15 b0 b1 b2 b3 I0 I1 I2 I3 I4 I5 I6 I7 I8 I9 I10 I11 I12 I13 I14 I15 in ([ob0; ob1; ob2; ob3], [oI0; oI1; oI2; oI3; oI4; oI5; oI6; oI7; oI8; oI9; oI10; oI11; oI12; oI13; oI14; oI15])).
  Proof. intros. cbv. reflexivity. Qed.

  Theorem tie_llt_upper_n0 : 
    F.llt_upper adapt 0 [] [] = Some [].
  Proof. intros. cbv. reflexivity. Qed.

  Theorem tie_llt_L_n1 : forall A0 L0, 
    F.llt_L adapt 1 [A0] [L0] = Some (let oL0 := gen_a_real_llt_L_n1 O A0 L0 in [oL0]).
  Proof. intros. cbv. reflexivity. Qed.

  Theorem tie_llt_det_n1 : forall A0, 
    F.llt_det adapt 1 [A0] = Some (gen_a_real_llt_det_n1 O A0).
  Proof. intros. cbv. reflexivity. Qed.

  Theorem tie_llt_solve_n2 : forall A0 A1 A2 A3 x0 x1, 
    F.llt_solve adapt 2 [A0; A1; A2; A3] [x0; x1] = Some (let '(ox0, ox1) := gen_a_real_llt_solve_n2 O A0 A1 A2 A3 x0 x1 in [ox0; ox1]).
  Proof. intros. cbv. reflexivity. Qed.

  Theorem tie_llt_lower__n3 : forall L0 L1 L2 L3 L4 L5 L6 L7 L8 y0 y1 y2 y3 y4 y5 y6 y7 y8, 
    F.llt_lower_ adapt 3 [L0; L1; L2; L3; L4; L5; L6; L7; L8] [y0; y1; y2; y3; y4; y5; y6; y7; y8] 0 = Some (let '(oy0, oy1, oy2, oy3, oy4, oy5, oy6, oy7, oy8) := gen_a_real_llt_lower__n3 O L0 L1 L2 L3 L4 L5 L6 L7 L8 y0 y1 y2 y3 y4 y5 y6 y7 y8 in [oy0; oy1; oy2; oy3; oy4; oy5; oy6; oy7; oy8]).
  Proof. intros. cbv. reflexivity. Qed.

  Theorem tie_llt_n4 : forall A0 A1 A2 A3 A4 A5 A6 A7 A8 A9 A10 A11 A12 A13 A14 A15, 
    match F.llt adapt 4 [A0; A1; A2; A3; A4; A5; A6; A7; A8; A9; A10; A11; A12; A13; A14; A15] with
    | Some (rc, A') => let '(oA0, oA1, oA2, oA3, oA4, oA5, oA6, oA7, oA8, oA9, oA10, oA11, oA12, oA13, oA14, oA15, r) := gen_a_real_llt_n4 O A0 A1 A2 A3 A4 A5 A6 A7 A8 A9 A10 A11 A12 A13 A14 A15 in A' = [oA0; oA1; oA2; oA3; oA4; oA5; oA6; oA7; oA8; oA9; oA10; oA11; oA12; oA13; oA14; oA15] /\ r = G.ofZ O (Z.of_nat rc)
    | None => False
    end.
  Proof. rc_tie. Qed.

  Theorem tie_llt_inv__n4 : forall A0 A1 A2 A3 A4 A5 A6 A7 A8 A9 A10 A11 A12 A13 A14 A15 I0 I1 I2 I3 I4 I5 I6 I7 I8 I9 I10 I11 I12 I13 I14 I15, 
    F.llt_inv_ adapt 4 [A0; A1; A2; A3; A4; A5; A6; A7; A8; A9; A10; A11; A12; A13; A14; A15] [I0; I1; I2; I3; I4; I5; I6; I7; I8; I9; I10; I11; I12; I13; I14; I15] = Some (let '(oI0, oI1, oI2, oI3, oI4, oI5, oI6, oI7, oI8, oI9, oI10, oI11, oI12, oI13, oI14, oI15) := gen_a_real_llt_inv__n4 O A0 A1 A2 A3 A4 A5 A6 A7 A8 A9 A10 A11 A12 A13 A14 A15 I0 I1 I2 I3 I4 I5 I6 I7 I8 I9 I10 I11 I12 I13 I14 I15 in [oI0; oI1; oI2; oI3; oI4; oI5; oI6; oI7; oI8; oI9; oI10; oI11; oI12; oI13; oI14; oI15]).
  Proof. intros. cbv. reflexivity. Qed.

  Theorem tie_plu_upper__n0 : 
    F.plu_upper_ adapt 0 [] [] 0 = Some [].
  Proof. intros. cbv. reflexivity. Qed.

  Theorem tie_plu_upper_n1 : forall U0 x0, 
    F.plu_upper adapt 1 [U0] [x0] = Some (let ox0 := gen_a_real_plu_upper_n1 O U0 x0 in [ox0]).
  Proof. intros. cbv. reflexivity. Qed.

  Theorem tie_plu_lower__n2 : forall L0 L1 L2 L3 y0 y1 y2 y3, 
    F.plu_lower_ adapt 2 [L0; L1; L2; L3] [y0; y1; y2; y3] 0 = Some (let '(oy0, oy1, oy2, oy3) := gen_a_real_plu_lower__n2 O L0 L1 L2 L3 y0 y1 y2 y3 in [oy0; oy1; oy2; oy3]).
  Proof. intros. cbv. reflexivity. Qed.

  Theorem tie_plu_lower_n3 : forall L0 L1 L2 L3 L4 L5 L6 L7 L8 y0 y1 y2, 
    F.plu_lower adapt 3 [L0; L1; L2; L3; L4; L5; L6; L7; L8] [y0; y1; y2] = Some (let '(oy0, oy1, oy2) := gen_a_real_plu_lower_n3 O L0 L1 L2 L3 L4 L5 L6 L7 L8 y0 y1 y2 in [oy0; oy1; oy2]).
  Proof. intros. cbv. reflexivity. Qed.

  Theorem tie_plu_U_n4 : forall A0 A1 A2 A3 A4 A5 A6 A7 A8 A9 A10 A11 A12 A13 A14 A15 U0 U1 U2 U3 U4 U5 U6 U7 U8 U9 U10 U11 U12 U13 U14 U15, 
    F.plu_U adapt 4 [A0; A1; A2; A3; A4; A5; A6; A7; A8; A9; A10; A11; A12; A13; A14; A15] [U0; U1; U2; U3; U4; U5; U6; U7; U8; U9; U10; U11; U12; U13; U14; U15] = Some (let '(oU0, oU1, oU2, oU3, oU4, oU5, oU6, oU7, oU8, oU9, oU10, oU11, oU12, oU13, oU14, oU15) := gen_a_real_plu_U_n4 O A0 A1 A2 A3 A4 A5 A6 A7 A8 A9 A10 A11 A12 A13 A14 A15 U0 U1 U2 U3 U4 U5 U6 U7 U8 U9 U10 U11 U12 U13 U14 U15 in [oU0; oU1; oU2; oU3; oU4; oU5; oU6; oU7; oU8; oU9; oU10; oU11; oU12; oU13; oU14; oU15]).
  Proof. intros. cbv. reflexivity. Qed.
End Tie.
