(* Helper of the all-orders translator tie of C08 (no tie theorem here): the numeric interface `adapt` of the C08 model read off the
   common NumOps (as harness/C08/TieFac*.v), the generated prelude of Gen.GenLoop related to the model's checked read / write, and the
   tactics that line one pass of a generated loop Fixpoint up with the step function of the model's for_range / for_down. *)
From Coq Require Import ZArith NArith List Bool Arith Lia.
From LibaV Require Common.NumOps C08.NumOps C08.FactorDefs.
From LibaV Require Import C09.LinalgSpec C09.LinalgLemmas C09.LoopTieLemmas C08.LoopTieLemmas.
From Gen Require Import GenLoop.
Import ListNotations.
Module G := LibaV.Common.NumOps.
Module M := LibaV.C08.NumOps.
Module F := LibaV.C08.FactorDefs.

(* the numeric interface of the C08 model, read off the common one: A_REAL_MIN = 2^-1022, log = libm (as harness/C08/TieFac*.v) *)
Definition adapt {T} (O : G.NumOps T) : M.NumOps T :=
  {| M.zero := G.ofZ O 0; M.one := G.ofZ O 1; M.add := G.add O; M.sub := G.sub O; M.mul := G.mul O; M.div := G.div O;
     M.abs := G.abs O; M.sqrt := G.sqrt O; M.ln := G.fn1 O G.Log; M.ltb := G.ltb O; M.eqb := G.eqb O; M.ofZ := G.ofZ O;
     M.tiny := G.ofD O 1 (-1022) |}.

Lemma fits32_U (x : nat) : U32 x -> fits 32 x = true.
Proof. unfold U32, fits. intros H. apply N.ltb_lt. exact H. Qed.
Lemma fits64_lt (x : nat) : (N.of_nat x < 18446744073709551616)%N -> fits 64 x = true.
Proof. unfold fits. intros H. apply N.ltb_lt. exact H. Qed.
Lemma fits64_mul a b : U32 a -> U32 b -> fits 64 (a * b) = true.
Proof. intros. apply fits64_lt, U32_mul_64; assumption. Qed.
Lemma fits64_muladd a b c : U32 a -> U32 b -> U32 c -> fits 64 (a * b + c) = true.
Proof. intros. apply fits64_lt, U32_muladd_64; assumption. Qed.
Lemma fits64_succ n : U32 n -> fits 64 (n + 1) = true.
Proof. intros H. apply fits64_lt. unfold U32 in H. lia. Qed.
Lemma fits64_succ_mul n r : U32 n -> U32 r -> fits 64 ((n + 1) * r) = true.
Proof. intros. apply fits64_lt, U32_succ_mul_64; assumption. Qed.

(* the generated checked store is the model's checked write *)
Lemma upd_wr {T} (m : list T) (i : nat) (v : T) : GenLoop.upd m i v = M.wr m i v.
Proof. rewrite wr_splice. reflexivity. Qed.

Ltac u32 :=
  solve [ assumption
        | match goal with H : U32 ?b |- U32 ?a => apply (U32_mono a b); [lia | exact H] end ].

(* one pass of a generated loop against the step function of the model's for_range / for_down *)
Ltac sim_step :=
  first
  [ progress cbn [Nat.add M.zero M.one M.add M.sub M.mul M.div M.abs M.sqrt M.ln M.ltb M.eqb M.ofZ M.tiny adapt fst snd]
  | rewrite upd_wr
  | rewrite fits64_mul by u32
  | rewrite fits64_muladd by u32
  | rewrite fits64_succ_mul by u32
  | rewrite fits32_U by u32
  | match goal with |- context [match nth_error ?l ?i with Some _ => _ | None => _ end] => destruct (nth_error l i) end
  | match goal with |- context [match M.wr ?l ?i ?v with Some _ => _ | None => _ end] => destruct (M.wr l i v) end ].
(* only the index arithmetic and its checks (used in front of a call of an inner loop) *)
Ltac arith_step :=
  first
  [ progress cbn [Nat.add M.zero M.one M.add M.sub M.mul M.div M.abs M.sqrt M.ln M.ltb M.eqb M.ofZ M.tiny adapt fst snd]
  | rewrite fits64_mul by u32
  | rewrite fits64_muladd by u32
  | rewrite fits64_succ_mul by u32
  | rewrite fits32_U by u32 ].
Ltac sim := unfold M.rd; repeat sim_step; rewrite ?Nat.add_1_r; try reflexivity.

(* a generated `for (i = lo; i < hi; ++i)` loop against the model's for_range: G is the generated loop as a function of
   (fuel, i, model state); the two equations are one pass and the exit *)
Ltac cond_true Hi := match goal with |- context [?i <? ?n] => replace (i <? n) with true by (symmetry; apply Nat.ltb_lt; exact Hi) end.
Ltac cond_false Hi := match goal with |- context [?i <? ?n] => replace (i <? n) with false by (symmetry; apply Nat.ltb_ge; exact Hi) end.
Ltac head_of t := lazymatch t with ?f _ => head_of f | _ => t end.
Ltac for_simple loop G hi body rho :=
  let hd := head_of body in
  let fg := fresh "fg" in let lo := fresh "lo" in let s := fresh "s" in let Hf := fresh "Hf" in let Hi := fresh "Hi" in
  intros fg lo s Hf;
  refine (for_tie G hi body rho _ _ fg lo s Hf);
  [ intros ? ? ? Hi; cbn [loop]; cond_true Hi; try unfold hd; sim; rewrite ?Nat.add_succ_r; try reflexivity
  | intros ? ? ? Hi; cbn [loop]; cond_false Hi; reflexivity ].
