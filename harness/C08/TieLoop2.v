(* All-orders translator tie of C08, part 2: the forward substitutions a_real_ldl_lower, plu_lower, llt_lower and their strided
   forms `_` (the vector is column `off` of a row-major matrix: the C is handed y + off) - see TieLoop1.v for the conventions.
   Theorems tie_a_real_{ldl,plu,llt}_lower and _lower_: every order with U32, every offset, every pair of arrays. *)
From Coq Require Import ZArith NArith List Bool Arith Lia.
From LibaV Require Import C09.LinalgSpec C09.LinalgLemmas C09.LoopTieLemmas C08.LoopTieLemmas.
From Gen Require Import GenLoop TieLoopBase.
Import ListNotations.

Section Tie.
  Context {T : Type} (O : G.NumOps T).
  Local Notation A_ := (adapt O).
  Local Notation "a -- b" := (M.sub A_ a b) (at level 50, left associativity).
  Local Notation "a ** b" := (M.mul A_ a b) (at level 40, left associativity).
  Local Notation "a // b" := (M.div A_ a b) (at level 40, left associativity).

  (* ------------------------------------------------------------------------------------------------ ldl_lower, ldl_lower_ *)
  Definition lower_body (n r : nat) (L : list T) (c : nat) (y : list T) : option (list T) :=
    match M.rd y r with Some yr => match M.rd L (n * r + c) with Some l => match M.rd y c with Some yc => M.wr y r (yr -- l ** yc)
    | None => None end | None => None end | None => None end.
  Definition lower_body_ (n r off : nat) (L : list T) (c : nat) (y : list T) : option (list T) :=
    match M.rd y (off + n * r) with Some yr => match M.rd L (n * r + c) with Some l => match M.rd y (off + n * c) with Some yc =>
      M.wr y (off + n * r) (yr -- l ** yc) | None => None end | None => None end | None => None end.


  (* ------------------------------------------------------------------------------------------------ ldl_lower *)
  Lemma ldl_lower_l2 (n r : nat) (L : list T) (Hr : U32 r) : forall fg lo y, r - lo < fg ->   (* for tie_a_real_ldl_lower *)
    gen_a_real_ldl_lower_loop2 O fg r 0 (n * r) L y lo = omap (fun y : list T => (y, Nat.max lo r)) (M.for_range lo r (lower_body n r L) y).
  Proof.
    for_simple (@gen_a_real_ldl_lower_loop2) (fun f c y => gen_a_real_ldl_lower_loop2 O f r 0 (n * r) L y c) r (lower_body n r L)
      (fun (c : nat) (y : list T) => (y, c)).
  Qed.
  Lemma ldl_lower_l1 (n : nat) (L : list T) (Hn : U32 n) : forall fg lo y, n - lo < fg ->   (* for tie_a_real_ldl_lower *)
    gen_a_real_ldl_lower_loop1 O fg n 0 0 L y lo = omap (fun y : list T => y) (M.for_range lo n (fun r y => M.for_range 0 r (lower_body n r L) y) y).
  Proof.
    intros fg lo y Hf.
    refine (for_tie (fun f r y => gen_a_real_ldl_lower_loop1 O f n 0 0 L y r) n _ (fun _ (y : list T) => y) _ _ fg lo y Hf).
    - intros f r s Hi. cbn [gen_a_real_ldl_lower_loop1]. cond_true Hi. repeat arith_step.
      rewrite ldl_lower_l2 by (first [lia | u32]).
      destruct (M.for_range 0 r (lower_body n r L) s); cbn [omap]; [|reflexivity]. sim.
    - intros f r s Hi. cbn [gen_a_real_ldl_lower_loop1]. cond_false Hi. reflexivity.
  Qed.
  Theorem tie_a_real_ldl_lower : forall (n : nat) (L y : list T), U32 n -> gen_a_real_ldl_lower O n L 0 y 0 = F.ldl_lower A_ n L y.
  Proof.
    intros n L y Hn. unfold gen_a_real_ldl_lower. rewrite ldl_lower_l1 by (first [lia | u32]).
    unfold F.ldl_lower, F.plu_lower. fold (lower_body n). destruct (M.for_range 0 n _ y); reflexivity.
  Qed.

  (* ------------------------------------------------------------------------------------------------ ldl_lower_ (column `off` of a row-major matrix) *)
  Lemma ldl_lower__l2 (n r off : nat) (L : list T) (Hn : U32 n) (Hr : r < n) : forall fg lo y, r - lo < fg ->   (* for tie_a_real_ldl_lower_ *)
    gen_a_real_ldl_lower__loop2 O fg r (off + n * r) (n * r) off n L y lo = omap (fun y : list T => (y, Nat.max lo r)) (M.for_range lo r (lower_body_ n r off L) y).
  Proof.
    for_simple (@gen_a_real_ldl_lower__loop2) (fun f c y => gen_a_real_ldl_lower__loop2 O f r (off + n * r) (n * r) off n L y c) r (lower_body_ n r off L)
      (fun (c : nat) (y : list T) => (y, c)).
  Qed.
  Lemma ldl_lower__l1 (n off : nat) (L : list T) (Hn : U32 n) : forall fg lo y, n - lo < fg ->   (* for tie_a_real_ldl_lower_ *)
    gen_a_real_ldl_lower__loop1 O fg n 0 off L y lo = omap (fun y : list T => y) (M.for_range lo n (fun r y => M.for_range 0 r (lower_body_ n r off L) y) y).
  Proof.
    intros fg lo y Hf.
    refine (for_tie (fun f r y => gen_a_real_ldl_lower__loop1 O f n 0 off L y r) n _ (fun _ (y : list T) => y) _ _ fg lo y Hf).
    - intros f r s Hi. cbn [gen_a_real_ldl_lower__loop1]. cond_true Hi. repeat arith_step.
      rewrite (ldl_lower__l2 n r off L Hn Hi) by lia.
      destruct (M.for_range 0 r (lower_body_ n r off L) s); cbn [omap]; [|reflexivity]. sim.
    - intros f r s Hi. cbn [gen_a_real_ldl_lower__loop1]. cond_false Hi. reflexivity.
  Qed.
  Theorem tie_a_real_ldl_lower_ : forall (n off : nat) (L y : list T), U32 n -> gen_a_real_ldl_lower_ O n L 0 y off = F.ldl_lower_ A_ n L y off.
  Proof.
    intros n off L y Hn. unfold gen_a_real_ldl_lower_. rewrite ldl_lower__l1 by (first [lia | u32]).
    unfold F.ldl_lower_, F.plu_lower_. fold (lower_body_ n). destruct (M.for_range 0 n _ y); reflexivity.
  Qed.

  (* ------------------------------------------------------------------------------------------------ plu_lower *)
  Lemma plu_lower_l2 (n r : nat) (L : list T) (Hr : U32 r) : forall fg lo y, r - lo < fg ->   (* for tie_a_real_plu_lower *)
    gen_a_real_plu_lower_loop2 O fg r 0 (n * r) L y lo = omap (fun y : list T => (y, Nat.max lo r)) (M.for_range lo r (lower_body n r L) y).
  Proof.
    for_simple (@gen_a_real_plu_lower_loop2) (fun f c y => gen_a_real_plu_lower_loop2 O f r 0 (n * r) L y c) r (lower_body n r L)
      (fun (c : nat) (y : list T) => (y, c)).
  Qed.
  Lemma plu_lower_l1 (n : nat) (L : list T) (Hn : U32 n) : forall fg lo y, n - lo < fg ->   (* for tie_a_real_plu_lower *)
    gen_a_real_plu_lower_loop1 O fg n 0 0 L y lo = omap (fun y : list T => y) (M.for_range lo n (fun r y => M.for_range 0 r (lower_body n r L) y) y).
  Proof.
    intros fg lo y Hf.
    refine (for_tie (fun f r y => gen_a_real_plu_lower_loop1 O f n 0 0 L y r) n _ (fun _ (y : list T) => y) _ _ fg lo y Hf).
    - intros f r s Hi. cbn [gen_a_real_plu_lower_loop1]. cond_true Hi. repeat arith_step.
      rewrite plu_lower_l2 by (first [lia | u32]).
      destruct (M.for_range 0 r (lower_body n r L) s); cbn [omap]; [|reflexivity]. sim.
    - intros f r s Hi. cbn [gen_a_real_plu_lower_loop1]. cond_false Hi. reflexivity.
  Qed.
  Theorem tie_a_real_plu_lower : forall (n : nat) (L y : list T), U32 n -> gen_a_real_plu_lower O n L 0 y 0 = F.plu_lower A_ n L y.
  Proof.
    intros n L y Hn. unfold gen_a_real_plu_lower. rewrite plu_lower_l1 by (first [lia | u32]).
    unfold F.plu_lower. fold (lower_body n). destruct (M.for_range 0 n _ y); reflexivity.
  Qed.

  (* ------------------------------------------------------------------------------------------------ plu_lower_ (column `off` of a row-major matrix) *)
  Lemma plu_lower__l2 (n r off : nat) (L : list T) (Hn : U32 n) (Hr : r < n) : forall fg lo y, r - lo < fg ->   (* for tie_a_real_plu_lower_ *)
    gen_a_real_plu_lower__loop2 O fg r (off + n * r) (n * r) off n L y lo = omap (fun y : list T => (y, Nat.max lo r)) (M.for_range lo r (lower_body_ n r off L) y).
  Proof.
    for_simple (@gen_a_real_plu_lower__loop2) (fun f c y => gen_a_real_plu_lower__loop2 O f r (off + n * r) (n * r) off n L y c) r (lower_body_ n r off L)
      (fun (c : nat) (y : list T) => (y, c)).
  Qed.
  Lemma plu_lower__l1 (n off : nat) (L : list T) (Hn : U32 n) : forall fg lo y, n - lo < fg ->   (* for tie_a_real_plu_lower_ *)
    gen_a_real_plu_lower__loop1 O fg n 0 off L y lo = omap (fun y : list T => y) (M.for_range lo n (fun r y => M.for_range 0 r (lower_body_ n r off L) y) y).
  Proof.
    intros fg lo y Hf.
    refine (for_tie (fun f r y => gen_a_real_plu_lower__loop1 O f n 0 off L y r) n _ (fun _ (y : list T) => y) _ _ fg lo y Hf).
    - intros f r s Hi. cbn [gen_a_real_plu_lower__loop1]. cond_true Hi. repeat arith_step.
      rewrite (plu_lower__l2 n r off L Hn Hi) by lia.
      destruct (M.for_range 0 r (lower_body_ n r off L) s); cbn [omap]; [|reflexivity]. sim.
    - intros f r s Hi. cbn [gen_a_real_plu_lower__loop1]. cond_false Hi. reflexivity.
  Qed.
  Theorem tie_a_real_plu_lower_ : forall (n off : nat) (L y : list T), U32 n -> gen_a_real_plu_lower_ O n L 0 y off = F.plu_lower_ A_ n L y off.
  Proof.
    intros n off L y Hn. unfold gen_a_real_plu_lower_. rewrite plu_lower__l1 by (first [lia | u32]).
    unfold F.plu_lower_. fold (lower_body_ n). destruct (M.for_range 0 n _ y); reflexivity.
  Qed.

  (* ------------------------------------------------------------------------------------------------ llt_lower *)
  Lemma llt_lower_l2 (n r : nat) (L : list T) (Hr : U32 r) : forall fg lo y, r - lo < fg ->   (* for tie_a_real_llt_lower *)
    gen_a_real_llt_lower_loop2 O fg r 0 (n * r) L y lo = omap (fun y : list T => (y, Nat.max lo r)) (M.for_range lo r (lower_body n r L) y).
  Proof.
    for_simple (@gen_a_real_llt_lower_loop2) (fun f c y => gen_a_real_llt_lower_loop2 O f r 0 (n * r) L y c) r (lower_body n r L)
      (fun (c : nat) (y : list T) => (y, c)).
  Qed.
  Lemma llt_lower_l1 (n : nat) (L : list T) (Hn : U32 n) : forall fg lo y, n - lo < fg ->   (* for tie_a_real_llt_lower *)
    gen_a_real_llt_lower_loop1 O fg n 0 0 L y lo = omap (fun y : list T => y) (M.for_range lo n (fun r y => match M.for_range 0 r (lower_body n r L) y with Some y1 => match M.rd y1 r with Some yr => match M.rd L (n * r + r) with Some l => M.wr y1 r (yr // l) | None => None end | None => None end | None => None end) y).
  Proof.
    intros fg lo y Hf.
    refine (for_tie (fun f r y => gen_a_real_llt_lower_loop1 O f n 0 0 L y r) n _ (fun _ (y : list T) => y) _ _ fg lo y Hf).
    - intros f r s Hi. cbn [gen_a_real_llt_lower_loop1]. cond_true Hi. repeat arith_step.
      rewrite llt_lower_l2 by (first [lia | u32]).
      destruct (M.for_range 0 r (lower_body n r L) s); cbn [omap]; [|reflexivity]. sim.
    - intros f r s Hi. cbn [gen_a_real_llt_lower_loop1]. cond_false Hi. reflexivity.
  Qed.
  Theorem tie_a_real_llt_lower : forall (n : nat) (L y : list T), U32 n -> gen_a_real_llt_lower O n L 0 y 0 = F.llt_lower A_ n L y.
  Proof.
    intros n L y Hn. unfold gen_a_real_llt_lower. rewrite llt_lower_l1 by (first [lia | u32]).
    unfold F.llt_lower. fold (lower_body n). destruct (M.for_range 0 n _ y); reflexivity.
  Qed.

  (* ------------------------------------------------------------------------------------------------ llt_lower_ (column `off` of a row-major matrix) *)
  Lemma llt_lower__l2 (n r off : nat) (L : list T) (Hn : U32 n) (Hr : r < n) : forall fg lo y, r - lo < fg ->   (* for tie_a_real_llt_lower_ *)
    gen_a_real_llt_lower__loop2 O fg r (off + n * r) (n * r) off n L y lo = omap (fun y : list T => (y, Nat.max lo r)) (M.for_range lo r (lower_body_ n r off L) y).
  Proof.
    for_simple (@gen_a_real_llt_lower__loop2) (fun f c y => gen_a_real_llt_lower__loop2 O f r (off + n * r) (n * r) off n L y c) r (lower_body_ n r off L)
      (fun (c : nat) (y : list T) => (y, c)).
  Qed.
  Lemma llt_lower__l1 (n off : nat) (L : list T) (Hn : U32 n) : forall fg lo y, n - lo < fg ->   (* for tie_a_real_llt_lower_ *)
    gen_a_real_llt_lower__loop1 O fg n 0 off L y lo = omap (fun y : list T => y) (M.for_range lo n (fun r y => match M.for_range 0 r (lower_body_ n r off L) y with Some y1 => match M.rd y1 (off + n * r) with Some yr => match M.rd L (n * r + r) with Some l => M.wr y1 (off + n * r) (yr // l) | None => None end | None => None end | None => None end) y).
  Proof.
    intros fg lo y Hf.
    refine (for_tie (fun f r y => gen_a_real_llt_lower__loop1 O f n 0 off L y r) n _ (fun _ (y : list T) => y) _ _ fg lo y Hf).
    - intros f r s Hi. cbn [gen_a_real_llt_lower__loop1]. cond_true Hi. repeat arith_step.
      rewrite (llt_lower__l2 n r off L Hn Hi) by lia.
      destruct (M.for_range 0 r (lower_body_ n r off L) s); cbn [omap]; [|reflexivity]. sim.
    - intros f r s Hi. cbn [gen_a_real_llt_lower__loop1]. cond_false Hi. reflexivity.
  Qed.
  Theorem tie_a_real_llt_lower_ : forall (n off : nat) (L y : list T), U32 n -> gen_a_real_llt_lower_ O n L 0 y off = F.llt_lower_ A_ n L y off.
  Proof.
    intros n off L y Hn. unfold gen_a_real_llt_lower_. rewrite llt_lower__l1 by (first [lia | u32]).
    unfold F.llt_lower_. fold (lower_body_ n). destruct (M.for_range 0 n _ y); reflexivity.
  Qed.
End Tie.
