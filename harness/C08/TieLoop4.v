(* All-orders translator tie of C08, part 4: a_real_ldl_solve and a_real_llt_solve - calls of the regenerated lower and upper. *)
From Coq Require Import ZArith NArith List Bool Arith Lia.
From LibaV Require Import C09.LinalgSpec C09.LinalgLemmas C09.LoopTieLemmas C08.LoopTieLemmas.
From Gen Require Import GenLoop TieLoopBase TieLoop2 TieLoop3.
Import ListNotations.

Section Tie.
  Context {T : Type} (O : G.NumOps T).
  Local Notation A_ := (adapt O).

  (* forward then backward substitution on the same right-hand side: two calls of regenerated functions *)
  Theorem tie_a_real_ldl_solve : forall (n : nat) (A x : list T), U32 n -> gen_a_real_ldl_solve O n A 0 x 0 = F.ldl_solve A_ n A x.
  Proof.
    intros n A x Hn. unfold gen_a_real_ldl_solve, F.ldl_solve. rewrite (tie_a_real_ldl_lower O n A x Hn).
    destruct (F.ldl_lower A_ n A x) as [x1|]; [|reflexivity]. apply tie_a_real_ldl_upper. exact Hn.
  Qed.
  Theorem tie_a_real_llt_solve : forall (n : nat) (A x : list T), U32 n -> gen_a_real_llt_solve O n A 0 x 0 = F.llt_solve A_ n A x.
  Proof.
    intros n A x Hn. unfold gen_a_real_llt_solve, F.llt_solve. rewrite (tie_a_real_llt_lower O n A x Hn).
    destruct (F.llt_lower A_ n A x) as [x1|]; [|reflexivity]. apply tie_a_real_llt_upper. exact Hn.
  Qed.
End Tie.
