(* C05 model driver: runs the extracted Gallina model (C05model) on a case file read from stdin
   and prints one canonical line per input line.  The C driver drv.c prints the same format:

     dlist   L|ok <i>:<next>,<prev> ... w=<c>:<fwd>/<bwd> acc=ok          | fault | dead
             w = l_each_next / l_each_prev (AccDefs.v: what the a_list_foreach macros visit) from
             ctx = node c (first argument of the operation, node 1 in the header, "w=-" without nodes),
             BROKEN when the walk does not come back to c
     slist   S|ok 1:<next>,<tail> 2:<next>,<tail> <i>:<next> ... w=<l1>/<l2> acc=ok
             w = s_each (what a_slist_foreach visits) on list 1 / list 2, BROKEN when endless
     queue   Q|r=<result> A:n=,z=,m=,f=[..],b=[..],p=[..],e=<F>/<K> B:... v=[..] t=[..] acc=ok
             e = q_ends (AccDefs.v): q_fore_ / q_back_ (a_que_fore_ / a_que_back_) where the ring is
             not empty, '-' otherwise
   acc: the C driver compares every accessor, alias and iteration macro with the fields after every
   line and prints "ok" or "BAD:..."; the model has nothing to compare and prints the constant "ok"
   (what the accessors return on the model is AccProofs.v).
   Operations beyond the histories of the C05 theorems: dlist ctor / dtor (lx_step), slist init /
   dtor / link (sx_step); queue reset is q_reset for both objects (B: a_que_die + a_que_new =
   q_die_new = q_reset). *)
open C05model

let rec pos_of_int i = if i <= 1 then XH else if i land 1 = 0 then XO (pos_of_int (i lsr 1)) else XI (pos_of_int (i lsr 1))
let n_of_int i = if i <= 0 then N0 else Npos (pos_of_int i)
let rec int_of_pos = function XH -> 1 | XO p -> 2 * int_of_pos p | XI p -> 2 * int_of_pos p + 1
let int_of_n = function N0 -> 0 | Npos p -> int_of_pos p
let int_of_z = function Z0 -> 0 | Zpos p -> int_of_pos p | Zneg p -> - (int_of_pos p)
let z_of_int i = if i = 0 then Z0 else if i > 0 then Zpos (pos_of_int i) else Zneg (pos_of_int (-i))
let rec nat_of_int i = if i <= 0 then O else S (nat_of_int (i - 1))

(* 64-bit unsigned magnitude -> positive (x <> 0) *)
let rec pos_of_u64 (x : int64) =
  if Int64.equal x 1L then XH
  else
    let rest = Int64.shift_right_logical x 1 in
    if Int64.equal (Int64.logand x 1L) 0L then XO (pos_of_u64 rest) else XI (pos_of_u64 rest)
let n_of_u64 x = if Int64.equal x 0L then N0 else Npos (pos_of_u64 x)
(* a_size index given in decimal (0 .. 2^64-1) *)
let n_of_size s = n_of_u64 (Int64.of_string ("0u" ^ s))
(* a_diff index given in decimal (-2^63 .. 2^63-1) *)
let z_of_diff s =
  let x = Int64.of_string s in
  if Int64.equal x 0L then Z0
  else if Int64.compare x 0L > 0 then Zpos (pos_of_u64 x)
  else Zneg (pos_of_u64 (Int64.neg x))   (* Int64.neg min_int = min_int: as unsigned it is 2^63, right *)

let ids l = "[" ^ String.concat "," (List.map (fun x -> string_of_int (int_of_n x)) l) ^ "]"

type st =
  | Dead                       (* model faulted earlier in this history *)
  | L of int * dheap
  | S of int * sworld
  | Q of qworld
  | Nothing

let seq = function Some l -> ids l | None -> "BROKEN"

let dump_l n h c =
  let b = Buffer.create 64 in
  for i = 1 to n do
    (match dget h (n_of_int i) with
     | Some d -> Buffer.add_string b (Printf.sprintf " %d:%d,%d" i (int_of_n d.nxt) (int_of_n d.prv))
     | None -> Buffer.add_string b (Printf.sprintf " %d:?" i))
  done;
  (if c < 1 || c > n then Buffer.add_string b " w=-"
   else
     (* a ring holds at most n-1 other nodes: fuel n decides exactly whether the walk comes back *)
     Buffer.add_string b
       (Printf.sprintf " w=%d:%s/%s" c (seq (l_each_next h (n_of_int c) (nat_of_int n)))
          (seq (l_each_prev h (n_of_int c) (nat_of_int n)))));
  Buffer.add_string b " acc=ok";
  Buffer.contents b

let dump_s n w =
  let b = Buffer.create 64 in
  let g = function Some x -> string_of_int (int_of_n x) | None -> "?" in
  for i = 1 to 2 do
    Buffer.add_string b (Printf.sprintf " %d:%s,%s" i (g (s_rd w (n_of_int i))) (g (t_rd w (n_of_int i))))
  done;
  for i = 3 to n + 2 do
    Buffer.add_string b (Printf.sprintf " %d:%s" i (g (s_rd w (n_of_int i))))
  done;
  (* at most n+2 distinct nodes (both heads included) can be met before NULL: fuel n+3 is exact *)
  Buffer.add_string b
    (Printf.sprintf " w=%s/%s acc=ok" (seq (s_each w (n_of_int 1) (nat_of_int (n + 3))))
       (seq (s_each w (n_of_int 2) (nat_of_int (n + 3)))));
  Buffer.contents b

let dump_q (w : qworld) =
  let b = Buffer.create 128 in
  let fuel = fuel_of w in
  let vals = ref [] in
  List.iter (fun s ->
      let q = getq w s in
      let f = ring_of w.w_h (qaddr s) fuel and bk = ring_of_back w.w_h (qaddr s) fuel in
      let sh = function Some l -> ids l | None -> "BROKEN" in
      (match f with Some l -> vals := !vals @ l | None -> ());
      let e = function Some x -> string_of_int (int_of_n x) | None -> "-" in
      let ends = match q_ends w s with Ok (fo, ba) -> e fo ^ "/" ^ e ba | _ -> "?/?" in
      Buffer.add_string b
        (Printf.sprintf " %s:n=%d,z=%d,m=%d,f=%s,b=%s,p=%s,e=%s" (if s then "B" else "A")
           (int_of_n q.q_num) (int_of_n q.q_siz) (int_of_n q.q_mem) (sh f) (sh bk) (ids q.q_pool) ends))
    [false; true];
  Buffer.add_string b " v=[";
  Buffer.add_string b
    (String.concat ","
       (List.map (fun x -> Printf.sprintf "%d:%s" (int_of_n x)
                     (match vget w.w_val x with Some v -> string_of_int (int_of_z v) | None -> "?")) !vals));
  Buffer.add_string b "] t=[";
  Buffer.add_string b
    (String.concat ","
       (List.rev_map (function
            | RNode (sz, ok) -> Printf.sprintf "N%d:%d" (int_of_n sz) (if ok then 1 else 0)
            | RPool (sz, ok) -> Printf.sprintf "P%d:%d" (int_of_n sz) (if ok then 1 else 0)
            | RResize (sz, ok) -> Printf.sprintf "R%d:%d" (int_of_n sz) (if ok then 1 else 0)) w.w_trace));
  Buffer.add_string b "] acc=ok";
  Buffer.contents b

let parse_lop op (a : n list) =
  match op, a with
  | "init", [ c ] -> LInit c
  | "link", [ a; b ] -> LLink (a, b)
  | "loop", [ a; b ] -> LLoop (a, b)
  | "add_", [ a; b; c; d ] -> LAdd_ (a, b, c, d)
  | "add_node", [ a; b; c ] -> LAddNode (a, b, c)
  | "add_next", [ a; b ] -> LAddNext (a, b)
  | "add_prev", [ a; b ] -> LAddPrev (a, b)
  | "del_", [ a; b ] -> LDel_ (a, b)
  | "del_node", [ a ] -> LDelNode a
  | "del_next", [ a ] -> LDelNext a
  | "del_prev", [ a ] -> LDelPrev a
  | "set_", [ a; b; c; d ] -> LSet_ (a, b, c, d)
  | "set_node", [ a; b ] -> LSetNode (a, b)
  | "mov_next", [ a; b ] -> LMovNext (a, b)
  | "mov_prev", [ a; b ] -> LMovPrev (a, b)
  | "rot_next", [ a ] -> LRotNext a
  | "rot_prev", [ a ] -> LRotPrev a
  | "swap_", [ a; b; c; d ] -> LSwap_ (a, b, c, d)
  | "swap_node", [ a; b ] -> LSwapNode (a, b)
  | _ -> failwith ("bad dlist op " ^ op)

let parse_lxop op (a : n list) =
  match op, a with
  | "ctor", [ c ] -> LCtor c
  | "dtor", [ c ] -> LDtor c
  | _ -> LOp (parse_lop op a)

let parse_sop op (a : n list) =
  match op, a with
  | "ctor", [ l ] -> SCtor l
  | "add", [ l; p; n ] -> SAdd (l, p, n)
  | "add_head", [ l; n ] -> SAddHead (l, n)
  | "add_tail", [ l; n ] -> SAddTail (l, n)
  | "del", [ l; p ] -> SDel (l, p)
  | "del_head", [ l ] -> SDelHead l
  | "mov", [ l; t; a ] -> SMov (l, t, a)
  | "rot", [ l ] -> SRot l
  | _ -> failwith ("bad slist op " ^ op)

let parse_sxop op (a : n list) =
  match op, a with
  | "init", [ l ] -> SInit l
  | "dtor", [ l ] -> SDtor l
  | "link", [ a; b ] -> SLink (a, b)
  | _ -> SOp (parse_sop op a)

let sel s = (s = "1" || s = "B")
let flag s = (s = "1")
let ni s = n_of_int (int_of_string s)
let zi s = z_of_int (int_of_string s)

let parse_qop op a =
  match op, a with
  | "sched", l -> QSched (List.map flag l)
  | "reset", [ s; z ] -> QReset (sel s, ni z)
  | "push_fore", [ s; v ] -> QPushFore (sel s, zi v)
  | "push_back", [ s; v ] -> QPushBack (sel s, zi v)
  | "pull_fore", [ s ] -> QPullFore (sel s)
  | "pull_back", [ s ] -> QPullBack (sel s)
  | "insert", [ s; i; v ] -> QInsert (sel s, n_of_size i, zi v)
  | "remove", [ s; i ] -> QRemove (sel s, n_of_size i)
  | "at", [ s; i ] -> QAt (sel s, z_of_diff i)
  | "fore", [ s ] -> QFore (sel s)
  | "back", [ s ] -> QBack (sel s)
  | "sort_fore", [ s; c ] -> QSortFore (sel s, flag c)
  | "sort_back", [ s; c ] -> QSortBack (sel s, flag c)
  | "push_sort", [ s; c; k ] -> QPushSort (sel s, flag c, zi k)
  | "swap_e", [ l; r ] -> QSwapElem (ni l, ni r)
  | "swap", [ s1; s2 ] -> QSwap (sel s1, sel s2)
  | "drop", [ s ] -> QDrop (sel s)
  | "setz", [ s; z ] -> QSetz (sel s, ni z)
  | _ -> failwith ("bad queue op " ^ op)

let () =
  let st = ref Nothing in
  let out = Buffer.create (1 lsl 16) in
  let flush_out () = print_string (Buffer.contents out); Buffer.clear out in
  (try
     while true do
       let line = input_line stdin in
       let toks = List.filter (fun s -> s <> "") (String.split_on_char ' ' (String.trim line)) in
       (match toks with
        | [] -> Buffer.add_string out "\n"
        | [ "L"; n ] ->
            let n = int_of_string n in
            let h = l_world (nat_of_int n) in
            st := L (n, h);
            Buffer.add_string out ("L" ^ dump_l n h 1 ^ "\n")
        | [ "S"; n ] ->
            let n = int_of_string n in
            let w = s_world (nat_of_int n) in
            st := S (n, w);
            Buffer.add_string out ("S" ^ dump_s n w ^ "\n")
        | [ "Q" ] ->
            st := Q q_world0;
            Buffer.add_string out ("Q" ^ dump_q q_world0 ^ "\n")
        | op :: args -> (
            match !st with
            | Dead | Nothing -> Buffer.add_string out "dead\n"
            | L (n, h) -> (
                let c = match args with a :: _ -> int_of_string a | [] -> 0 in
                match lx_step h (parse_lxop op (List.map ni args)) with
                | Some h' -> st := L (n, h'); Buffer.add_string out ("ok" ^ dump_l n h' c ^ "\n")
                | None -> st := Dead; Buffer.add_string out "fault\n")
            | S (n, w) -> (
                (* the C driver rejects a link target outside 1..n+2 before it calls a_slist_link *)
                let in_range = List.for_all (fun a -> let i = int_of_string a in i >= 1 && i <= n + 2) args in
                match (if in_range then sx_step w (parse_sxop op (List.map ni args)) else None) with
                | Some w' -> st := S (n, w'); Buffer.add_string out ("ok" ^ dump_s n w' ^ "\n")
                | None -> st := Dead; Buffer.add_string out "fault\n")
            | Q w -> (
                match q_step w (parse_qop op args) with
                | Ok (w', r) ->
                    st := Q w';
                    Buffer.add_string out (Printf.sprintf "r=%d%s\n" (int_of_z r) (dump_q w'))
                | Fault -> st := Dead; Buffer.add_string out "fault\n"
                | NoFuel -> st := Dead; Buffer.add_string out "nofuel\n")));
       if Buffer.length out > 60000 then flush_out ()
     done
   with End_of_file -> ());
  flush_out ()
