(* Tie between the queue functions REGENERATED from src/que.c and include/a/que.h by tools/c2que.py (module Gen.QueGen,
   rewritten on every run: the C statement by statement over a concrete queue state whose recycle pool is an array with a fill
   count and a capacity) and the hand-written model C05/QueDefs.v about which the theorems of Properties_C05.v are proved (its
   pool is a list).  The tie is a SIMULATION under the abstraction relation R of TieQueR.v:

       Theorem tie_<f> : forall c m args, R c m -> simw (Gen.<f> c args) (QueDefs.<f> m args)

   simw g m: both Ok with R-related worlds and EQUAL results, or both Fault, or both NoFuel (simu: the same without a result;
   readers: equal outcomes).  Every statement is for ALL states related by R (no ring invariant, null and dangling addresses
   included) and all arguments, except tie_a_que_insert (here) and tie_a_que_setz (TieQue3.v), which need the queue invariant
   QInv of QueSpec.v, proved to hold along every history by QueProofs.step_refines / run_refines (see at the two theorems why). *)
From Coq Require Import NArith ZArith List Bool Lia FMapPositive.
From LibaV Require Import C05.DListDefs C05.DListProofs C05.QueDefs C05.AccDefs C05.QueSpec C05.QueProofs.
From Gen Require Import QueGen TieQueR.
Import ListNotations.
Local Open Scope N_scope.

(* unfold the state vocabulary of both sides *)
Ltac kred :=
  cbn [kgetq ksetq kseth set_ptr set_siz set_num set_cur set_mem c_ptr c_siz c_num c_cur c_mem
       k_h k_val k_fresh k_qa k_qb k_sched k_trace getq setq seth setv w_h w_val w_fresh w_qa w_qb w_sched w_trace
       q_pool q_siz q_num q_mem fst snd bind lift own_ptr store_ptr p_null].
Ltac kred_in H :=
  cbn [kgetq ksetq kseth set_ptr set_siz set_num set_cur set_mem c_ptr c_siz c_num c_cur c_mem
       k_h k_val k_fresh k_qa k_qb k_sched k_trace getq setq seth setv w_h w_val w_fresh w_qa w_qb w_sched w_trace
       q_pool q_siz q_num q_mem fst snd bind lift own_ptr store_ptr p_null] in H.

(* take the two worlds apart, identify the shared components, split on the queue object, name the parts of the active queue
   and of its abstraction: cp csz cnum ccur cmem / pool msz mnum mmem, array l *)
Ltac setup HR s :=
  let Q := fresh "Q" in
  match type of HR with
  | R ?c ?m =>
      pose proof (R_getq c m s HR) as Q;
      destruct c as [h v f qa qb sc tr]; destruct m as [mh mv mf mqa mqb msc mtr];
      destruct HR as (E1 & E2 & E3 & E4 & E5 & Efr & QA & QB);
      cbn [k_h k_val k_fresh k_sched k_trace k_qa k_qb w_h w_val w_fresh w_sched w_trace w_qa w_qb] in E1, E2, E3, E4, E5, Efr, QA, QB;
      subst mh mv mf msc mtr;
      destruct s; cbn [kgetq getq k_qa k_qb w_qa w_qb] in Q;
      match type of Q with
      | Rq ?a ?b => destruct a as [cp csz cnum ccur cmem]; destruct b as [pool msz mnum mmem]
      end;
      destruct Q as (l & Hc & Hl & Hcur & Hle & Hf & Hs & Hn & Hm);
      cbn [c_ptr c_siz c_num c_cur c_mem q_pool q_siz q_num q_mem] in Hc, Hl, Hcur, Hle, Hf, Hs, Hn, Hm;
      (match type of Hs with ?x = _ => subst x end); (match type of Hn with ?x = _ => subst x end)
  end.

(* a goal R (mkK ..) (mkW ..): everything but the Rq of the queue that changed is at hand *)
Ltac Rsplit := unfold R; kred; repeat match goal with |- _ /\ _ => split end; try assumption; try reflexivity; try lia.
Ltac Rqsplit l' := exists l'; cbn [c_ptr c_siz c_num c_cur c_mem q_pool q_siz q_num q_mem cells_of];
                   repeat match goal with |- _ /\ _ => split end; try assumption; try reflexivity; try lia;
                   try (cbn [length] in *; lia).

(* ---------------------------------------------------------------- a_que_ctor *)
Theorem tie_a_que_ctor : forall c m s size, R c m -> simu (a_que_ctor c s size) (q_ctor m s size).
Proof.
  intros c m s size HR. unfold a_que_ctor, q_ctor, simu.
  setup HR s; kred; (destruct (l_init h _) as [h1|]; [|exact I]); kred; Rsplit; Rqsplit (@nil cell).
Qed.

(* ---------------------------------------------------------------- a_que_new_ *)
Theorem tie_a_que_new_ : forall c m s, R c m -> simw (a_que_new_ c s) (q_new_ m s).
Proof.
  intros c m s HR. unfold a_que_new_, q_new_, simw.
  setup HR s; kred.
  all: destruct pool as [|n rest]; cbn [length] in *.
  all: try (subst ccur; cbn [N.of_nat N.eqb];
            unfold node_alloc; replace (N.eqb (16 + msz) 0) with false by (symmetry; apply N.eqb_neq; lia);
            rewrite kask_eq, ask_eq; kred;
            destruct (match sc with [] => true | b :: _ => b end);
            [ replace (N.eqb f 0) with false by (symmetry; apply N.eqb_neq; lia); kred; Rsplit; Rqsplit l
            | cbn [N.eqb]; Rsplit; Rqsplit l ]).
  all: replace (N.eqb ccur 0) with false by (symmetry; apply N.eqb_neq; lia);
       replace (N.ltb mmem (N.of_nat (S (length rest)))) with false by (symmetry; apply N.ltb_ge; lia);
       (destruct cp as [|l0|]; cbn [cells_of] in Hc; [inversion Hc; subst l; cbn in Hl; lia| |discriminate]);
       inversion Hc; subst l0; clear Hc; unfold pool_ld; kred;
       cbn [rev map] in Hf; rewrite map_app in Hf; cbn [map] in Hf;
       (destruct (firstn_snoc_nth l (length rest) (map Some (rev rest)) (Some n) Hf) as [Enth Efst];
        [rewrite map_length, rev_length; reflexivity|]);
       replace (N.to_nat (0 + (ccur - 1))) with (length rest) by lia;
       rewrite Enth; kred; Rsplit; Rqsplit l.
Qed.

(* ---------------------------------------------------------------- a_que_die_ *)
Theorem tie_a_que_die_ : forall c m s node, R c m -> simw (a_que_die_ c s node) (q_die_ m s node).
Proof.
  intros c m s node HR. unfold a_que_die_, q_die_, simw.
  destruct (N.eqb node 0) eqn:Hnode; [split; [exact HR|reflexivity]|].
  setup HR s; kred.
  all: rewrite Hm in *; clear Hm; rewrite <- Hcur.
  all: destruct (N.leb mmem ccur) eqn:Hgrow.
  all: try (apply N.leb_le in Hgrow; assert (Hcm : ccur = mmem) by lia;
            rewrite size_up_eq, shiftr1, N.add_assoc;
            pose proof (grow_gt mmem) as Hup;
            set (mem' := size_up8 (mmem + N.div2 mmem + 1)) in *; clearbody mem';
            replace (N.ltb ccur mem') with true by (symmetry; apply N.ltb_lt; lia);
            destruct cp as [|l0|]; cbn [cells_of] in Hc; [| |discriminate]; inversion Hc; subst l; clear Hc; cbn [length] in *;
            unfold pool_realloc; kred;
            replace (N.eqb (8 * mem') 0) with false by (symmetry; apply N.eqb_neq; lia);
            rewrite kask_eq, ask_eq; kred;
            destruct (match sc with [] => true | b :: _ => b end); kred).
  all: try (split; [Rsplit; (Rqsplit (@nil cell) || Rqsplit l0)|reflexivity]).
  all: try (unfold pool_st; kred; rewrite mul8_div8; replace (N.to_nat (0 + ccur)) with (length pool) by lia;
            match goal with |- context [upd (resize ?L ?n) _ _] =>
              destruct (push_resized L pool node n) as (l'' & Eu & Ll & Ff); [assumption|cbn [length]; lia|cbn [length]; lia|lia|]; cbn [length] in *
            end; rewrite Eu; kred; split; [Rsplit; Rqsplit l''|reflexivity]).
  all: apply N.leb_gt in Hgrow;
       (destruct cp as [|l0|]; cbn [cells_of] in Hc; [inversion Hc; subst l; cbn [length] in *; lia| |discriminate]);
       inversion Hc; subst l0; clear Hc; unfold pool_st; kred;
       replace (N.to_nat (0 + ccur)) with (length pool) by lia;
       (destruct (push_cell l pool node) as (l'' & Eu & Ll & Ff); [assumption|lia|]);
       rewrite Eu; kred; split; [Rsplit; Rqsplit l''|reflexivity].
Qed.

(* ---------------------------------------------------------------- readers: a_que_siz, a_que_num, a_que_fore_, a_que_back_, a_que_fore, a_que_back *)
Theorem tie_a_que_siz : forall c m s, R c m -> a_que_siz c s = Ok (q_siz (getq m s)).
Proof.
  intros c m s HR. destruct (R_getq c m s HR) as (l & _ & _ & _ & _ & _ & Hs & _). unfold a_que_siz. rewrite Hs. reflexivity.
Qed.
Theorem tie_a_que_num : forall c m s, R c m -> a_que_num c s = Ok (q_num (getq m s)).
Proof.
  intros c m s HR. destruct (R_getq c m s HR) as (l & _ & _ & _ & _ & _ & _ & Hn & _). unfold a_que_num. rewrite Hn. reflexivity.
Qed.
Theorem tie_a_que_fore_ : forall c m s, R c m -> a_que_fore_ c s = q_fore_ m s.
Proof.
  intros c m s HR. unfold a_que_fore_, q_fore_. rewrite (R_heap c m HR).
  destruct (rd_next (w_h m) (qaddr s)); reflexivity.
Qed.
Theorem tie_a_que_back_ : forall c m s, R c m -> a_que_back_ c s = q_back_ m s.
Proof.
  intros c m s HR. unfold a_que_back_, q_back_. rewrite (R_heap c m HR).
  destruct (rd_prev (w_h m) (qaddr s)); reflexivity.
Qed.
Theorem tie_a_que_fore : forall c m s, R c m -> a_que_fore c s = q_fore m s.
Proof.
  intros c m s HR. unfold a_que_fore, q_fore. rewrite (tie_a_que_fore_ c m s HR). unfold q_fore_. rewrite (R_heap c m HR).
  destruct (rd_next (w_h m) (qaddr s)) as [n|]; [|reflexivity]. cbn [lift bind].
  destruct (N.eqb n (qaddr s)); reflexivity.
Qed.
Theorem tie_a_que_back : forall c m s, R c m -> a_que_back c s = q_back m s.
Proof.
  intros c m s HR. unfold a_que_back, q_back. rewrite (tie_a_que_back_ c m s HR). unfold q_back_. rewrite (R_heap c m HR).
  destruct (rd_prev (w_h m) (qaddr s)) as [n|]; [|reflexivity]. cbn [lift bind].
  destruct (N.eqb n (qaddr s)); reflexivity.
Qed.

(* ---------------------------------------------------------------- a_que_at: the two walks are the model's seek *)
Definition at_end (r : id + unit) : outcome id := match r with inl v => Ok v | inr _ => Ok 0 end.
Lemma at_loop1_seek c s idx : forall fuel cur it, (cur <= idx)%Z ->
  bind (a_que_at_loop1 fuel c s idx cur it) at_end = seek true (k_h c) (qaddr s) it (Z.to_N (idx - cur)) fuel.
Proof.
  induction fuel as [|fuel IH]; intros cur it Hle; [reflexivity|].
  cbn [a_que_at_loop1 seek]. destruct (N.eqb it (qaddr s)); [reflexivity|].
  destruct (Z.eqb cur idx) eqn:E.
  - apply Z.eqb_eq in E. subst cur. rewrite Z.sub_diag. reflexivity.
  - apply Z.eqb_neq in E. replace (N.eqb (Z.to_N (idx - cur)) 0) with false by (symmetry; apply N.eqb_neq; lia).
    destruct (rd_next (k_h c) it) as [n|]; [|reflexivity]. cbn [lift bind].
    rewrite IH by lia. f_equal. lia.
Qed.
Lemma at_loop2_seek c s idx : forall fuel cur it, (idx < cur)%Z ->
  bind (a_que_at_loop2 fuel c s idx cur it) at_end = seek false (k_h c) (qaddr s) it (Z.to_N (cur - idx - 1)) fuel.
Proof.
  induction fuel as [|fuel IH]; intros cur it Hle; [reflexivity|].
  cbn [a_que_at_loop2 seek]. destruct (N.eqb it (qaddr s)); [reflexivity|].
  destruct (Z.eqb (cur - 1) idx) eqn:E.
  - apply Z.eqb_eq in E. replace (cur - idx - 1)%Z with 0%Z by lia. reflexivity.
  - apply Z.eqb_neq in E. replace (N.eqb (Z.to_N (cur - idx - 1)) 0) with false by (symmetry; apply N.eqb_neq; lia).
    destruct (rd_prev (k_h c) it) as [n|]; [|reflexivity]. cbn [lift bind].
    rewrite IH by lia. f_equal. lia.
Qed.
Theorem tie_a_que_at : forall c m s idx, R c m -> a_que_at c s idx = q_at m s idx.
Proof.
  intros c m s idx HR. unfold a_que_at, q_at. rewrite <- (R_fuel c m HR), <- (R_heap c m HR).
  destruct (Z.leb 0 idx) eqn:E.
  - apply Z.leb_le in E. destruct (rd_next (k_h c) (qaddr s)) as [n|]; [|reflexivity]. cbn [lift bind].
    pose proof (at_loop1_seek c s idx (kfuel c) 0 n E) as L. rewrite Z.sub_0_r in L. rewrite <- L. reflexivity.
  - apply Z.leb_gt in E. destruct (rd_prev (k_h c) (qaddr s)) as [n|]; [|reflexivity]. cbn [lift bind].
    pose proof (at_loop2_seek c s idx (kfuel c) 0 n E) as L. replace (0 - idx - 1)%Z with (- idx - 1)%Z in L by lia.
    rewrite <- L. reflexivity.
Qed.

(* ---------------------------------------------------------------- a_que_push_fore / a_que_push_back *)
(* use the tie of a callee: both sides Ok with related worlds and the same result, or both the same failure *)
Ltac use_tie T :=
  let H := fresh "HT" in
  pose proof T as H; unfold simw in H;
  match type of H with
  | match ?g with _ => _ end =>
      destruct g as [[c1 r1]| |];
      match type of H with
      | match ?mm with _ => _ end => destruct mm as [[m1 r1']| |]; try contradiction; try exact I
      end
  end.

Theorem tie_a_que_push_fore : forall c m s v, R c m ->
  simw (then_store (a_que_push_fore c s) v) (q_push true m s v).
Proof.
  intros c m s v HR. unfold a_que_push_fore, q_push.
  use_tie (tie_a_que_new_ c m s HR). destruct HT as [HR1 <-]. cbn [bind].
  destruct (N.eqb r1 0) eqn:Hz; [cbn; split; [exact HR1|reflexivity]|].
  rewrite (R_heap c1 m1 HR1). destruct (l_add_next (w_h m1) (qaddr s) r1) as [h1|]; [|exact I].
  cbn [lift bind then_store simw]. rewrite Hz. split; [apply R_setv, R_seth; exact HR1|reflexivity].
Qed.
Theorem tie_a_que_push_back : forall c m s v, R c m ->
  simw (then_store (a_que_push_back c s) v) (q_push false m s v).
Proof.
  intros c m s v HR. unfold a_que_push_back, q_push.
  use_tie (tie_a_que_new_ c m s HR). destruct HT as [HR1 <-]. cbn [bind].
  destruct (N.eqb r1 0) eqn:Hz; [cbn; split; [exact HR1|reflexivity]|].
  rewrite (R_heap c1 m1 HR1). destruct (l_add_prev (w_h m1) (qaddr s) r1) as [h1|]; [|exact I].
  cbn [lift bind then_store simw]. rewrite Hz. split; [apply R_setv, R_seth; exact HR1|reflexivity].
Qed.

(* ---------------------------------------------------------------- the common tail of pull_fore / pull_back / remove *)
Definition take_tail (c : cworld) (s : bool) (node : id) : outcome (cworld * id) :=
  bind (a_que_die_ c s node) (fun '(w1, rc) =>
  if Z.eqb rc 0%Z
  then bind (lift (l_del_node (k_h w1) node)) (fun h1 =>
       let w2 := kseth w1 h1 in
       bind (lift (l_init (k_h w2) node)) (fun h2 =>
       let w3 := kseth w2 h2 in Ok (w3, node)))
  else Ok (w1, 0)).
Lemma take_tail_sim c m s node : R c m -> simw (take_tail c s node) (q_take m s node).
Proof.
  intros HR. unfold take_tail, q_take, q_take_rc.
  use_tie (tie_a_que_die_ c m s node HR). destruct HT as [HR1 <-]. cbn [bind].
  destruct (Z.eqb r1 0) eqn:Hz; [|cbn [simw fst snd]; rewrite Hz; split; [exact HR1|reflexivity]].
  rewrite (R_heap c1 m1 HR1). destruct (l_del_node (w_h m1) node) as [h1|]; [|exact I]. cbn [lift bind k_h kseth].
  destruct (l_init h1 node) as [h2|]; [|exact I]. cbn [lift bind simw fst snd Z.eqb].
  split; [|reflexivity]. change (R (kseth c1 h2) (seth m1 h2)). apply R_seth. exact HR1.
Qed.

Theorem tie_a_que_pull_fore : forall c m s, R c m -> simw (a_que_pull_fore c s) (q_pull true m s).
Proof.
  intros c m s HR. unfold a_que_pull_fore, q_pull. rewrite (R_heap c m HR).
  destruct (rd_next (w_h m) (qaddr s)) as [n|]; [|exact I]. cbn [lift bind].
  destruct (N.eqb n (qaddr s)); [split; [exact HR|reflexivity]|].
  exact (take_tail_sim c m s n HR).
Qed.
Theorem tie_a_que_pull_back : forall c m s, R c m -> simw (a_que_pull_back c s) (q_pull false m s).
Proof.
  intros c m s HR. unfold a_que_pull_back, q_pull. rewrite (R_heap c m HR).
  destruct (rd_prev (w_h m) (qaddr s)) as [n|]; [|exact I]. cbn [lift bind].
  destruct (N.eqb n (qaddr s)); [split; [exact HR|reflexivity]|].
  exact (take_tail_sim c m s n HR).
Qed.

(* ---------------------------------------------------------------- a_que_remove: the walk is the model's seek *)
Lemma remove_loop_seek c s idx : forall fuel cur it, cur <= idx ->
  a_que_remove_loop1 fuel c s idx cur it 0 = seek true (k_h c) (qaddr s) it (idx - cur) fuel.
Proof.
  induction fuel as [|fuel IH]; intros cur it Hle; [reflexivity|].
  cbn [a_que_remove_loop1 seek]. destruct (N.eqb it (qaddr s)); [reflexivity|].
  destruct (N.eqb cur idx) eqn:E.
  - apply N.eqb_eq in E. subst cur. rewrite N.sub_diag. reflexivity.
  - apply N.eqb_neq in E. replace (N.eqb (idx - cur) 0) with false by (symmetry; apply N.eqb_neq; lia).
    destruct (rd_next (k_h c) it) as [n|]; [|reflexivity]. cbn [lift bind].
    rewrite IH by lia. f_equal. lia.
Qed.
Theorem tie_a_que_remove : forall c m s idx, R c m -> simw (a_que_remove c s idx) (q_remove m s idx).
Proof.
  intros c m s idx HR. unfold a_que_remove, q_remove.
  destruct (R_getq c m s HR) as (l & _ & _ & _ & _ & _ & _ & Hn & _). rewrite Hn.
  destruct (N.ltb idx (q_num (getq m s))).
  - rewrite <- (R_fuel c m HR), <- (R_heap c m HR).
    destruct (rd_next (k_h c) (qaddr s)) as [n|]; [|exact I]. cbn [lift bind].
    rewrite (remove_loop_seek c s idx (kfuel c) 0 n) by lia. rewrite N.sub_0_r.
    destruct (seek true (k_h c) (qaddr s) n idx (kfuel c)) as [node| |]; [|exact I|exact I]. cbn [bind].
    exact (take_tail_sim c m s node HR).
  - rewrite bind_eta. exact (tie_a_que_pull_back c m s HR).
Qed.

(* ---------------------------------------------------------------- a_que_insert *)
(* the model's seek returns 0 both when the walk reaches the head and when the node it stops at is the null address; the C
   stops the walk at the head without linking, and links before whatever node it stops at: the two are told apart here *)
Fixpoint seeko (h : dheap) (head it : id) (k : N) (fuel : nat) : outcome (option id) :=
  match fuel with
  | O => NoFuel
  | S f => if N.eqb it head then Ok None
           else if N.eqb k 0 then Ok (Some it)
           else match rd_next h it with Some n => seeko h head n (k - 1) f | None => Fault end
  end.
Lemma seek_seeko h head : forall fuel it k,
  seek true h head it k fuel = match seeko h head it k fuel with
                               | Ok None => Ok 0 | Ok (Some x) => Ok x | Fault => Fault | NoFuel => NoFuel end.
Proof.
  induction fuel as [|fuel IH]; intros it k; [reflexivity|]. cbn [seek seeko].
  destruct (N.eqb it head); [reflexivity|]. destruct (N.eqb k 0); [reflexivity|].
  destruct (rd_next h it) as [n|]; [|reflexivity]. cbn [lift]. apply IH.
Qed.
Lemma insert_loop_seeko c s idx node : forall fuel cur it, cur <= idx ->
  a_que_insert_loop1 fuel c s idx cur node it =
  match seeko (k_h c) (qaddr s) it (idx - cur) fuel with
  | Ok None => Ok c
  | Ok (Some x) => match l_add_prev (k_h c) x node with Some h1 => Ok (kseth c h1) | None => Fault end
  | Fault => Fault
  | NoFuel => NoFuel
  end.
Proof.
  induction fuel as [|fuel IH]; intros cur it Hle; [reflexivity|].
  cbn [a_que_insert_loop1 seeko]. destruct (N.eqb it (qaddr s)); [reflexivity|].
  destruct (N.eqb cur idx) eqn:E.
  - apply N.eqb_eq in E. subst cur. rewrite N.sub_diag. cbn [N.eqb].
    destruct (l_add_prev (k_h c) it node); reflexivity.
  - apply N.eqb_neq in E. replace (N.eqb (idx - cur) 0) with false by (symmetry; apply N.eqb_neq; lia).
    destruct (rd_next (k_h c) it) as [n|]; [|reflexivity]. cbn [lift bind].
    rewrite IH by lia. replace (idx - (cur + 1)) with (idx - cur - 1) by lia. reflexivity.
Qed.

(* the simulation of the walk-and-link part, for every state, GIVEN that the model's seek does not stop at the null address *)
Lemma insert_walk_sim c m s idx node it0 v : R c m -> node <> 0 ->
  (forall x, seeko (w_h m) (qaddr s) it0 idx (fuel_of m) = Ok (Some x) -> x <> 0) ->
  simw (then_store (bind (a_que_insert_loop1 (kfuel c) c s idx 0 node it0) (fun w2 => Ok (w2, node))) v)
       (doo it <- seek true (w_h m) (qaddr s) it0 idx (fuel_of m) ;
        if N.eqb it 0 then Ok (setv m node v, node)
        else doo h <- lift (l_add_prev (w_h m) it node) ; Ok (setv (seth m h) node v, node)).
Proof.
  intros HR Hnode Hnz. rewrite insert_loop_seeko by lia. rewrite N.sub_0_r, seek_seeko.
  rewrite (R_fuel c m HR), (R_heap c m HR).
  destruct (seeko (w_h m) (qaddr s) it0 idx (fuel_of m)) as [[x|]| |]; try exact I.
  - specialize (Hnz x eq_refl). replace (N.eqb x 0) with false by (symmetry; apply N.eqb_neq; exact Hnz).
    destruct (l_add_prev (w_h m) x node) as [h1|]; [|exact I]. cbn [lift bind then_store simw].
    replace (N.eqb node 0) with false by (symmetry; apply N.eqb_neq; exact Hnode).
    split; [apply R_setv, R_seth; exact HR|reflexivity].
  - cbn [bind then_store simw N.eqb]. replace (N.eqb node 0) with false by (symmetry; apply N.eqb_neq; exact Hnode).
    split; [apply R_setv; exact HR|reflexivity].
Qed.

(* under the queue invariant QInv (QueSpec.v; proved to hold along every history by QueProofs.step_refines / run_refines,
   Properties_C05.que_history) the node at which the walk of a_que_insert stops is an element of the ring, not the null address *)
Lemma insert_stops_on_node m X s idx m1 n : QInv m X -> q_new_ m s = Ok (m1, n) -> n <> 0 ->
  idx < q_num (getq m s) ->
  exists it0, rd_next (w_h m1) (qaddr s) = Some it0 /\
              forall x, seeko (w_h m1) (qaddr s) it0 idx (fuel_of m1) = Ok (Some x) -> x <> 0.
Proof.
  intros I E Hn Hidx. rewrite (qi_num _ _ I s) in Hidx.
  destruct (new_spec m X s I) as (w1 & n' & E' & [(Hn' & _)|(_ & M & _)]); rewrite E in E'; inversion E'; subst w1 n'.
  - contradiction.
  - pose proof (mn_ring _ _ _ _ M s) as Rg.
    exists (hd (qaddr s) (sel s X)). split; [exact (Ring_next _ [] (qaddr s) (sel s X) Rg)|].
    assert (Hfuel : (length (sel s X) < fuel_of m1)%nat).
    { pose proof (mn_fresh _ _ _ _ M) as F. unfold fuel_of.
      assert (length (sel s X) <= length (allnodes m1 X))%nat.
      { unfold allnodes. rewrite !app_length. destruct s; simpl; lia. }
      simpl length in F. lia. }
    pose proof (seek_fwd_spec (w_h m1) (qaddr s) [] (sel s X) idx (fuel_of m1) Rg Hfuel) as Sk.
    intros x Ex. rewrite seek_seeko, Ex in Sk. inversion Sk as [Hx].
    assert (Hin : In x (sel s X)) by (rewrite Hx; apply nth_In; lia).
    assert (3 <= x). { apply (mn_node _ _ _ _ M). right. eapply allnodes_sel; eauto. }
    lia.
Qed.

Theorem tie_a_que_insert : forall c m s idx v X, R c m -> QInv m X ->
  simw (then_store (a_que_insert c s idx) v) (q_insert m s idx v).
Proof.
  intros c m s idx v X HR I. unfold a_que_insert, q_insert.
  destruct (R_getq c m s HR) as (l & _ & _ & _ & _ & _ & _ & Hn & _). rewrite Hn.
  destruct (N.ltb idx (q_num (getq m s))) eqn:Hidx.
  - apply N.ltb_lt in Hidx.
    pose proof (insert_stops_on_node m X s idx) as Hstop.
    use_tie (tie_a_que_new_ c m s HR). destruct HT as [HR1 <-]. cbn [bind].
    destruct (N.eqb r1 0) eqn:Hz; [cbn; split; [exact HR1|reflexivity]|].
    apply N.eqb_neq in Hz.
    destruct (Hstop m1 r1 I eq_refl Hz Hidx) as (it0 & Eit & Hnz).
    rewrite (R_heap c1 m1 HR1), Eit. cbn [lift bind].
    exact (insert_walk_sim c1 m1 s idx r1 it0 v HR1 Hz Hnz).
  - rewrite bind_eta. exact (tie_a_que_push_back c m s v HR).
Qed.
