/* translation unit handed to tools/c2heap.py: the list primitives are inline functions of the headers */
#include "a/list.h"
#include "a/slist.h"
