/* C05 implementation driver: runs include/a/list.h, include/a/slist.h and src/que.c (compiled
   from the CURRENT tree) on a case file read from stdin and prints one canonical line per input
   line, in the same format as the model driver mdrv.ml.

   Node identities are small integers: dlist nodes 1..n and slist objects 1,2 / nodes 3..n+2 are
   slots of static arrays (each node is a member of a larger structure, so that the a_list_entry /
   a_slist_entry macros can be evaluated); queue objects are 1 (A) and 2 (B) and every block a_alloc
   hands out for a node is named 3,4,5,... in allocation order (the name follows the block through
   realloc and is retired by free).  Addresses are never printed; an address that has no name
   prints as '?'.

   Line format (identical in mdrv.ml):
     dlist   header  L <i>:<next>,<prev> ...  w=<c>:<fwd>/<bwd> acc=<A>
             op      ok <i>:<next>,<prev> ... w=<c>:<fwd>/<bwd> acc=<A>     | fault | dead
                     w = the nodes a_list_foreach_next / a_list_foreach_prev visit from ctx = node c
                     (c = first argument of the operation, node 1 in the header, "w=-" without nodes);
                     a walk that does not come back to c prints BROKEN
     slist   header  S 1:<next>,<tail> 2:<next>,<tail> <i>:<next> ... w=<l1>/<l2> acc=<A>
             op      ok ... (the same)                                       | fault | dead
                     w = the nodes a_slist_foreach visits on list 1 / list 2 (BROKEN: endless)
     queue   header  Q A:n=,z=,m=,f=[..],b=[..],p=[..],e=<F>/<K> B:... v=[id:val,..] t=[requests] acc=<A>
             op      r=<result> A:... B:... v=[..] t=[..] acc=<A>            | fault | dead
                     e = node of a_que_fore_ / a_que_back_ where their precondition holds (ring not
                     empty), '-' otherwise; the returned pointer must be exactly <block> + sizeof(a_list)
     <A> is "ok" or "BAD:<function or macro>:<got>:<want>" (no blanks): the first accessor, alias,
     iteration macro or allocation-ledger comparison that failed inside this driver on this line.

   What is evaluated for <A> after EVERY line (first failure wins):
     dlist  from every node as ctx: a_list_foreach_next/prev, A_LIST_FOREACH_NEXT/PREV,
            a_list_forsafe_next/prev, A_LIST_FORSAFE_NEXT/PREV against a walk over the fields (the
            forsafe variants also: at == it->next / it->prev in every round); a_list_entry,
            a_list_entry_next, a_list_entry_prev of every node against the array slot.
            Header: nodes are constructed in turn by a_list_ctor, a_list_init, a_list_dtor and the
            A_LIST_INIT initializer (each checked at once: next == prev == the node); the four forsafe
            macros run once on a scratch ring while the body unlinks the visited node (by hand).
            Operations ctor / dtor call a_list_ctor / a_list_dtor (init: a_list_init).
     slist  on both lists: a_slist_foreach, A_SLIST_FOREACH, a_slist_forsafe, A_SLIST_FORSAFE
            against a walk over the fields (forsafe: at->next == it); a_slist_entry / a_slist_entry_next.
            Header: list 1 by a_slist_ctor, list 2 by the A_SLIST_INIT initializer, nodes by
            A_SLIST_NODE (each checked at once); both forsafe macros run once on a scratch list while
            the body deletes the visited node (by hand).  Operations init / dtor / link call a_slist_init / a_slist_dtor / a_slist_link.
     queue  on both queues while their rings are intact: a_que_fore, a_que_back, A_QUE_FORE, A_QUE_BACK,
            a_que_fore_, a_que_back_, A_QUE_FORE_, A_QUE_BACK_ (non-empty only), a_que_at / A_QUE_AT at
            0 and -1, a_que_num, a_que_siz against the fields / the walked ring; a_que_foreach,
            A_QUE_FOREACH, a_que_foreach_reverse, A_QUE_FOREACH_REVERSE against the walked ring;
            allocation ledger: live node blocks = num_ + cur_ of both queues, live pool arrays = the
            ptr_ fields, one live a_que structure (B).
            Queue A lives in static storage (a_que_ctor / a_que_dtor), queue B on the heap
            (a_que_new / a_que_die; reset B = a_que_die + a_que_new; the request for the structure is
            answered by the driver itself, outside schedule and trace).  Every second reset passes a
            counting element destructor.  Header: a_que_new under a refused request must return NULL,
            a_que_die(NULL) must be harmless; the A_QUE_FOREACH macros run once on a scratch queue
            while the body removes the visited element.
            Every second queue operation goes through the typed alias macro (A_QUE_PUSH_FORE, ...,
            A_QUE_PULL_BACK, A_QUE_INSERT, A_QUE_REMOVE, A_QUE_AT, A_QUE_FORE, A_QUE_BACK,
            A_QUE_PUSH_SORT) instead of the function.

   The list walks run only while every link designates a slot of the driver's arrays (a link
   that does not - NULL from a constructor defect, say - gives acc=BAD:a_list:wild-link /
   a_slist:wild-link and "w=-" instead of a crash of the driver).

   After a broken ring has been seen in a queue history the rest of that history is skipped
   ("dead"), so that a defect cannot make the driver loop or touch freed memory. */
#define _POSIX_C_SOURCE 200809L /* alarm(): a library loop that does not terminate must end the run, not hang the check */
#include "a/list.h"
#include "a/slist.h"
#include "a/que.h"
#include <stdio.h>
#include <stdlib.h>
#include <string.h>
#include <unistd.h>

#define MAXN 64

/* ------------------------------------------------------------------ accessor verdict */
static char acc[200];

static void seq_str(char *dst, size_t cap, int const *ids, int n)
{
    size_t k = 0;
    int i;
    if (n < 0)
    {
        snprintf(dst, cap, "BROKEN");
        return;
    }
    dst[k++] = '[';
    for (i = 0; i < n && k + 16 < cap; ++i)
    {
        if (ids[i] < 0) { k += (size_t)snprintf(dst + k, cap - k, "%s?", i ? "," : ""); }
        else { k += (size_t)snprintf(dst + k, cap - k, "%s%d", i ? "," : "", ids[i]); }
    }
    dst[k++] = ']';
    dst[k] = 0;
}

static void bad(char const *fn, long got, long want)
{
    if (!acc[0]) { snprintf(acc, sizeof(acc), "BAD:%s:%ld:%ld", fn, got, want); }
}

static void bad_seq(char const *fn, int ctx, int const *got, int ngot, int const *want, int nwant)
{
    char g[64], w[64];
    if (acc[0]) { return; }
    seq_str(g, sizeof(g), got, ngot);
    seq_str(w, sizeof(w), want, nwant);
    snprintf(acc, sizeof(acc), "BAD:%s:%d%s:%s", fn, ctx, g, w);
}

static int same_seq(int const *a, int na, int const *b, int nb)
{
    int i;
    if (na != nb) { return 0; }
    for (i = 0; i < na; ++i)
    {
        if (a[i] != b[i]) { return 0; }
    }
    return 1;
}

static void put_acc(void)
{
    printf(" acc=%s\n", acc[0] ? acc : "ok");
    acc[0] = 0;
}

static void pid_(int id)
{
    if (id < 0) { (void)putchar('?'); }
    else { printf("%d", id); }
}

static void put_seq(int const *ids, int n)
{
    char s[16 * (MAXN + 4)];
    seq_str(s, sizeof(s), ids, n);
    fputs(s, stdout);
}

/* ------------------------------------------------------------------ dlist */
struct lobj
{
    long tag;
    a_list node;
};
static struct lobj lobj[MAXN + 1];
static int ln;

static int lid(a_list const *p)
{
    a_uptr const base = (a_uptr)&lobj[0].node, x = (a_uptr)p;
    if (x >= base && (x - base) % sizeof(struct lobj) == 0)
    {
        a_uptr const i = (x - base) / sizeof(struct lobj);
        if (i >= 1 && i <= (a_uptr)ln) { return (int)i; }
    }
    return -1;
}

/* walk over the fields; -1: the walk does not come back to ctx (more than ln-1 other nodes) */
static int walk_l(a_list const *ctx, int fwd, int *ids)
{
    a_list const *it = fwd ? ctx->next : ctx->prev;
    int n = 0;
    while (it != ctx)
    {
        if (n >= ln - 1) { return -1; }
        ids[n++] = lid(it);
        it = fwd ? it->next : it->prev;
    }
    return n;
}

#define L_BODY(buf, cnt, it)  \
    if ((cnt) >= ln - 1)      \
    {                         \
        (cnt) = -1;           \
        break;                \
    }                         \
    (buf)[(cnt)++] = lid(it)

/* the eight iteration macros from ctx; which: 0..3 next variants, 4..7 prev variants */
static int macro_l(a_list *ctx, int which, int *ids)
{
    int n = 0, okat = 1;
    a_list *it_, *at_;
    switch (which)
    {
    case 0:
        a_list_foreach_next(it, ctx) { L_BODY(ids, n, it); }
        break;
    case 1:
        A_LIST_FOREACH_NEXT(it_, ctx) { L_BODY(ids, n, it_); }
        break;
    case 2:
        a_list_forsafe_next(it, at, ctx)
        {
            if (at != it->next) { okat = 0; }
            L_BODY(ids, n, it);
        }
        break;
    case 3:
        A_LIST_FORSAFE_NEXT(it_, at_, ctx)
        {
            if (at_ != it_->next) { okat = 0; }
            L_BODY(ids, n, it_);
        }
        break;
    case 4:
        a_list_foreach_prev(it, ctx) { L_BODY(ids, n, it); }
        break;
    case 5:
        A_LIST_FOREACH_PREV(it_, ctx) { L_BODY(ids, n, it_); }
        break;
    case 6:
        a_list_forsafe_prev(it, at, ctx)
        {
            if (at != it->prev) { okat = 0; }
            L_BODY(ids, n, it);
        }
        break;
    default:
        A_LIST_FORSAFE_PREV(it_, at_, ctx)
        {
            if (at_ != it_->prev) { okat = 0; }
            L_BODY(ids, n, it_);
        }
        break;
    }
    return okat ? n : -2;
}

static char const *const lmacro[8] = {"a_list_foreach_next", "A_LIST_FOREACH_NEXT", "a_list_forsafe_next", "A_LIST_FORSAFE_NEXT",
                                      "a_list_foreach_prev", "A_LIST_FOREACH_PREV", "a_list_forsafe_prev", "A_LIST_FORSAFE_PREV"};

/* every link designates a slot of the node array (slot 0 included): the walks cannot leave it */
static int safe_l(void)
{
    int i;
    a_uptr const base = (a_uptr)&lobj[0].node;
    for (i = 1; i <= ln; ++i)
    {
        a_uptr const n = (a_uptr)lobj[i].node.next, p = (a_uptr)lobj[i].node.prev;
        if (n < base || (n - base) % sizeof(struct lobj) || (n - base) / sizeof(struct lobj) > (a_uptr)ln) { return 0; }
        if (p < base || (p - base) % sizeof(struct lobj) || (p - base) / sizeof(struct lobj) > (a_uptr)ln) { return 0; }
    }
    return 1;
}

static void acc_l(void)
{
    int c, k;
    static int want[MAXN + 2], got[MAXN + 2];
    if (!safe_l())
    {
        bad("a_list:wild-link", 0, 0);
        return;
    }
    for (c = 1; c <= ln; ++c)
    {
        a_list *const ctx = &lobj[c].node;
        for (k = 0; k < 8; ++k)
        {
            int const nw = walk_l(ctx, k < 4, want);
            int const ng = macro_l(ctx, k, got);
            if (ng == -2) { bad(lmacro[k], c, -2); }
            else if (!same_seq(got, ng, want, nw)) { bad_seq(lmacro[k], c, got, ng, want, nw); }
        }
        if ((void *)a_list_entry(ctx, struct lobj, node) != (void *)&lobj[c]) { bad("a_list_entry", c, 0); }
        k = lid(ctx->next);
        if (k > 0 && (void *)a_list_entry_next(ctx, struct lobj, node) != (void *)&lobj[k]) { bad("a_list_entry_next", c, k); }
        k = lid(ctx->prev);
        if (k > 0 && (void *)a_list_entry_prev(ctx, struct lobj, node) != (void *)&lobj[k]) { bad("a_list_entry_prev", c, k); }
    }
}

/* the forsafe macros while the body takes the visited node off the ring */
static void selftest_l(void)
{
    int k, i;
    for (k = 0; k < 4; ++k)
    {
        struct lobj o[4];
        int seen[8], n = 0, okseq = 1;
        a_list *it_, *at_;
        a_list *const head = &o[0].node;
        /* the ring head-1-2-3 and the removal are written out by hand: only the macro is under test */
        for (i = 0; i < 4; ++i)
        {
            o[i].tag = i;
            o[i].node.next = &o[(i + 1) & 3].node;
            o[i].node.prev = &o[(i + 3) & 3].node;
        }
#define T_BODY(it)                                                      \
    if (n >= 6) { break; }                                              \
    seen[n++] = (int)(((char *)(it) - (char *)&o[0].node) / (long)sizeof(struct lobj)); \
    (it)->prev->next = (it)->next;                                      \
    (it)->next->prev = (it)->prev;                                      \
    (it)->next = (it)->prev = (it)
        switch (k)
        {
        case 0:
            a_list_forsafe_next(it, at, head) { T_BODY(it); }
            break;
        case 1:
            A_LIST_FORSAFE_NEXT(it_, at_, head) { T_BODY(it_); }
            break;
        case 2:
            a_list_forsafe_prev(it, at, head) { T_BODY(it); }
            break;
        default:
            A_LIST_FORSAFE_PREV(it_, at_, head) { T_BODY(it_); }
            break;
        }
#undef T_BODY
        for (i = 0; i < 3; ++i)
        {
            if (n != 3 || seen[i] != (k < 2 ? i + 1 : 3 - i)) { okseq = 0; }
        }
        if (!okseq || head->next != head || head->prev != head) { bad(lmacro[k < 2 ? 2 + k : 4 + k], -n, 3); }
    }
}

/* the w= token: what a_list_foreach_next / a_list_foreach_prev visit from node c */
static void put_w_l(int c)
{
    static int ids[MAXN + 2];
    int n;
    if (c < 1 || c > ln || !safe_l())
    {
        printf(" w=-");
        return;
    }
    printf(" w=%d:", c);
    n = macro_l(&lobj[c].node, 0, ids);
    put_seq(ids, n);
    (void)putchar('/');
    n = macro_l(&lobj[c].node, 4, ids);
    put_seq(ids, n);
}

static void dump_l(int c)
{
    int i;
    for (i = 1; i <= ln; ++i)
    {
        printf(" %d:", i);
        pid_(lid(lobj[i].node.next));
        (void)putchar(',');
        pid_(lid(lobj[i].node.prev));
    }
    put_w_l(c);
    acc_l();
    put_acc();
}

#define LN(k) (&lobj[a[k]].node)

static int run_l(char const *op, int const *a, int n)
{
    int i;
    for (i = 0; i < n; ++i)
    {
        if (a[i] < 1 || a[i] > ln) { return 0; }
    }
    if (!strcmp(op, "init") && n == 1) { a_list_init(LN(0)); }
    else if (!strcmp(op, "ctor") && n == 1) { a_list_ctor(LN(0)); }
    else if (!strcmp(op, "dtor") && n == 1) { a_list_dtor(LN(0)); }
    else if (!strcmp(op, "link") && n == 2) { a_list_link(LN(0), LN(1)); }
    else if (!strcmp(op, "loop") && n == 2) { a_list_loop(LN(0), LN(1)); }
    else if (!strcmp(op, "add_") && n == 4) { a_list_add_(LN(0), LN(1), LN(2), LN(3)); }
    else if (!strcmp(op, "add_node") && n == 3) { a_list_add_node(LN(0), LN(1), LN(2)); }
    else if (!strcmp(op, "add_next") && n == 2) { a_list_add_next(LN(0), LN(1)); }
    else if (!strcmp(op, "add_prev") && n == 2) { a_list_add_prev(LN(0), LN(1)); }
    else if (!strcmp(op, "del_") && n == 2) { a_list_del_(LN(0), LN(1)); }
    else if (!strcmp(op, "del_node") && n == 1) { a_list_del_node(LN(0)); }
    else if (!strcmp(op, "del_next") && n == 1) { a_list_del_next(LN(0)); }
    else if (!strcmp(op, "del_prev") && n == 1) { a_list_del_prev(LN(0)); }
    else if (!strcmp(op, "set_") && n == 4) { a_list_set_(LN(0), LN(1), LN(2), LN(3)); }
    else if (!strcmp(op, "set_node") && n == 2) { a_list_set_node(LN(0), LN(1)); }
    else if (!strcmp(op, "mov_next") && n == 2) { a_list_mov_next(LN(0), LN(1)); }
    else if (!strcmp(op, "mov_prev") && n == 2) { a_list_mov_prev(LN(0), LN(1)); }
    else if (!strcmp(op, "rot_next") && n == 1) { a_list_rot_next(LN(0)); }
    else if (!strcmp(op, "rot_prev") && n == 1) { a_list_rot_prev(LN(0)); }
    else if (!strcmp(op, "swap_") && n == 4) { a_list_swap_(LN(0), LN(1), LN(2), LN(3)); }
    else if (!strcmp(op, "swap_node") && n == 2) { a_list_swap_node(LN(0), LN(1)); }
    else { return 0; }
    return 1;
}

static void begin_l(void)
{
    int i;
    lobj[0].node.next = lobj[0].node.prev = &lobj[0].node; /* slot 0 is no node of the case: prints as '?' */
    for (i = 1; i <= ln; ++i)
    {
        lobj[i].tag = i;
        lobj[i].node.next = lobj[i].node.prev = &lobj[0].node; /* garbage for the constructor to overwrite */
        switch (i & 3)
        {
        case 1:
            a_list_ctor(&lobj[i].node);
            break;
        case 2:
            a_list_init(&lobj[i].node);
            break;
        case 3:
            a_list_dtor(&lobj[i].node);
            break;
        default:
        {
            a_list const tmp = A_LIST_INIT(lobj[i].node);
            lobj[i].node = tmp;
        }
        break;
        }
        if (lobj[i].node.next != &lobj[i].node || lobj[i].node.prev != &lobj[i].node)
        {
            static char const *const how[4] = {"A_LIST_INIT", "a_list_ctor", "a_list_init", "a_list_dtor"};
            bad(how[i & 3], lid(lobj[i].node.next) * 100 + lid(lobj[i].node.prev), i * 100 + i);
        }
    }
    selftest_l();
}

/* ------------------------------------------------------------------ slist */
struct sobj
{
    long tag;
    a_slist_node node;
};
static a_slist slist[3];
static struct sobj sobj[MAXN + 3];
static int sn;

/* address -> name: list objects (their embedded head) 1,2; nodes 3..sn+2; NULL 0 */
static int sid(a_slist_node const *p)
{
    a_uptr const base = (a_uptr)&sobj[0].node, x = (a_uptr)p;
    if (!p) { return 0; }
    if (p == &slist[1].head) { return 1; }
    if (p == &slist[2].head) { return 2; }
    if (x >= base && (x - base) % sizeof(struct sobj) == 0)
    {
        a_uptr const i = (x - base) / sizeof(struct sobj);
        if (i >= 3 && i <= (a_uptr)sn + 2) { return (int)i; }
    }
    return -1;
}

static a_slist_node *sptr(int id)
{
    if (id == 1 || id == 2) { return &slist[id].head; }
    return a_slist_(*, &sobj[id].node);
}

/* walk over the fields; -1: more than sn+2 nodes, the chain is endless */
static int walk_s(a_slist const *l, int *ids)
{
    a_slist_node const *it = l->head.next;
    int n = 0;
    while (it)
    {
        if (n >= sn + 2) { return -1; }
        ids[n++] = sid(it);
        it = it->next;
    }
    return n;
}

#define S_BODY(buf, cnt, it)  \
    if ((cnt) >= sn + 2)      \
    {                         \
        (cnt) = -1;           \
        break;                \
    }                         \
    (buf)[(cnt)++] = sid(it)

static int macro_s(a_slist *l, int which, int *ids)
{
    int n = 0, okat = 1;
    a_slist_node *it_, *at_;
    switch (which)
    {
    case 0:
        a_slist_foreach(it, l) { S_BODY(ids, n, it); }
        break;
    case 1:
        A_SLIST_FOREACH(it_, l) { S_BODY(ids, n, it_); }
        break;
    case 2:
        a_slist_forsafe(it, at, l)
        {
            if (at->next != it) { okat = 0; }
            S_BODY(ids, n, it);
        }
        break;
    default:
        A_SLIST_FORSAFE(it_, at_, l)
        {
            if (at_->next != it_) { okat = 0; }
            S_BODY(ids, n, it_);
        }
        break;
    }
    return okat ? n : -2;
}

static char const *const smacro[4] = {"a_slist_foreach", "A_SLIST_FOREACH", "a_slist_forsafe", "A_SLIST_FORSAFE"};

/* every next pointer is NULL, a list head or a node of the array: the walks cannot leave them */
static int safe_s(void)
{
    int i;
    if (sid(slist[1].head.next) < 0 || sid(slist[2].head.next) < 0) { return 0; }
    for (i = 3; i <= sn + 2; ++i)
    {
        if (sid(sobj[i].node.next) < 0) { return 0; }
    }
    return 1;
}

static void acc_s(void)
{
    static int want[MAXN + 4], got[MAXN + 4];
    int l, k, i;
    if (!safe_s())
    {
        bad("a_slist:wild-link", 0, 0);
        return;
    }
    for (l = 1; l <= 2; ++l)
    {
        int const nw = walk_s(&slist[l], want);
        for (k = 0; k < 4; ++k)
        {
            int const ng = macro_s(&slist[l], k, got);
            if (ng == -2) { bad(smacro[k], l, -2); }
            else if (!same_seq(got, ng, want, nw)) { bad_seq(smacro[k], l, got, ng, want, nw); }
        }
    }
    for (i = 3; i <= sn + 2; ++i)
    {
        a_slist_node *const p = &sobj[i].node;
        if ((void *)a_slist_entry(p, struct sobj, node) != (void *)&sobj[i]) { bad("a_slist_entry", i, 0); }
        k = sid(p->next);
        if (k >= 3 && (void *)a_slist_entry_next(p, struct sobj, node) != (void *)&sobj[k]) { bad("a_slist_entry_next", i, k); }
    }
}

/* the forsafe macros while the body deletes the visited node (protocol: delete behind `at`, clear `it`) */
static void selftest_s(void)
{
    int k, i;
    for (k = 0; k < 2; ++k)
    {
        a_slist l;
        struct sobj o[4];
        int seen[8], n = 0, okseq = 1;
        a_slist_node *it_, *at_;
        /* the list 1-2-3 and the deletion are written out by hand: only the macro is under test */
        for (i = 1; i < 4; ++i)
        {
            o[i].tag = i;
            o[i].node.next = i < 3 ? &o[i + 1].node : A_NULL;
        }
        l.head.next = &o[1].node;
        l.tail = &o[3].node;
#define T_BODY(it, at)                                                   \
    if (n >= 6) { break; }                                               \
    seen[n++] = (int)(((char *)(it) - (char *)&o[0].node) / (long)sizeof(struct sobj)); \
    (at)->next = (it)->next;                                             \
    if (!(it)->next) { l.tail = (at); }                                  \
    it = A_NULL
        if (k == 0)
        {
            a_slist_forsafe(it, at, &l) { T_BODY(it, at); }
        }
        else
        {
            A_SLIST_FORSAFE(it_, at_, &l) { T_BODY(it_, at_); }
        }
#undef T_BODY
        for (i = 0; i < 3; ++i)
        {
            if (n != 3 || seen[i] != i + 1) { okseq = 0; }
        }
        if (!okseq || l.head.next || l.tail != &l.head) { bad(smacro[2 + k], -n, 3); }
    }
}

static void dump_s(void)
{
    static int ids[MAXN + 4];
    int i, n;
    for (i = 1; i <= 2; ++i)
    {
        printf(" %d:", i);
        pid_(sid(slist[i].head.next));
        (void)putchar(',');
        pid_(sid(slist[i].tail));
    }
    for (i = 3; i <= sn + 2; ++i)
    {
        printf(" %d:", i);
        pid_(sid(sobj[i].node.next));
    }
    if (safe_s())
    {
        printf(" w=");
        n = macro_s(&slist[1], 0, ids);
        put_seq(ids, n);
        (void)putchar('/');
        n = macro_s(&slist[2], 0, ids);
        put_seq(ids, n);
    }
    else { printf(" w=-/-"); }
    acc_s();
    put_acc();
}

static int run_s(char const *op, int const *a, int n)
{
    int i;
    for (i = 0; i < n; ++i)
    {
        if (a[i] < 1 || a[i] > sn + 2) { return 0; }
    }
    if (!strcmp(op, "link") && n == 2)
    {
        a_slist_link(sptr(a[0]), sptr(a[1]));
        return 1;
    }
    if (a[0] > 2) { return 0; } /* first argument is always a list object */
    if (!strcmp(op, "ctor") && n == 1) { a_slist_ctor(&slist[a[0]]); }
    else if (!strcmp(op, "init") && n == 1) { a_slist_init(&slist[a[0]]); }
    else if (!strcmp(op, "dtor") && n == 1) { a_slist_dtor(&slist[a[0]]); }
    else if (!strcmp(op, "add") && n == 3 && a[2] > 2) { a_slist_add(&slist[a[0]], sptr(a[1]), sptr(a[2])); }
    else if (!strcmp(op, "add_head") && n == 2 && a[1] > 2) { a_slist_add_head(&slist[a[0]], sptr(a[1])); }
    else if (!strcmp(op, "add_tail") && n == 2 && a[1] > 2) { a_slist_add_tail(&slist[a[0]], sptr(a[1])); }
    else if (!strcmp(op, "del") && n == 2) { a_slist_del(&slist[a[0]], sptr(a[1])); }
    else if (!strcmp(op, "del_head") && n == 1) { a_slist_del_head(&slist[a[0]]); }
    else if (!strcmp(op, "mov") && n == 3 && a[1] <= 2) { a_slist_mov(&slist[a[0]], &slist[a[1]], sptr(a[2])); }
    else if (!strcmp(op, "rot") && n == 1) { a_slist_rot(&slist[a[0]]); }
    else { return 0; }
    return 1;
}

static void begin_s(void)
{
    int i;
    a_slist const tmp = A_SLIST_INIT(slist[2]);
    slist[1].head.next = &slist[1].head; /* garbage for the constructor to overwrite */
    slist[1].tail = A_NULL;
    a_slist_ctor(&slist[1]);
    slist[2] = tmp;
    if (slist[1].head.next || slist[1].tail != &slist[1].head) { bad("a_slist_ctor", sid(slist[1].tail), 1); }
    if (slist[2].head.next || slist[2].tail != &slist[2].head) { bad("A_SLIST_INIT", sid(slist[2].tail), 2); }
    for (i = 3; i <= sn + 2; ++i)
    {
        a_slist_node const nn = A_SLIST_NODE;
        sobj[i].tag = i;
        sobj[i].node.next = &sobj[i].node;
        sobj[i].node = nn;
        if (sobj[i].node.next) { bad("A_SLIST_NODE", sid(sobj[i].node.next), 0); }
    }
    selftest_s();
}

/* ------------------------------------------------------------------ queue */
#define MAXB 4096
static struct
{
    void *addr;
    int id;
} blk[MAXB];
static int nblk, next_id;
static void *parr[16]; /* live pool arrays */
static int nparr;
static void *sblk[16]; /* live a_que structures */
static int nsblk, struct_frees;
static void *last_struct_freed;
static int sched[256], nsched, isched;
static char trace[4096];
static int expect_node;   /* the running operation is one that calls a_que_new_ */
static int expect_struct; /* the running call is a_que_new: the request is for the structure */
static int force_fail;    /* refuse the request for the structure */
static a_que que0;
static a_que *que[2];
static int que_live;
static unsigned long opno;
static int dtor_calls, dtor_bad;
static char fn_buf[48] = "a_que_ctor";
static char const *cur_fn = fn_buf;

static int bfind(void const *p)
{
    int i;
    for (i = 0; i < nblk; ++i)
    {
        if (blk[i].addr == p) { return i; }
    }
    return -1;
}

static int qid(a_list const *p)
{
    int i;
    if (p == &que[0]->head_) { return 1; }
    if (p == &que[1]->head_) { return 2; }
    i = bfind(p);
    return i < 0 ? -1 : blk[i].id;
}

static a_list *qptr(int id)
{
    int i;
    for (i = 0; i < nblk; ++i)
    {
        if (blk[i].id == id) { return (a_list *)blk[i].addr; }
    }
    return A_NULL;
}

static void *shim(void *addr, a_size size)
{
    int ok, i;
    char kind;
    void *p;
    if (size == 0)
    {
        if (addr)
        {
            i = bfind(addr);
            if (i >= 0) { blk[i] = blk[--nblk]; }
            for (i = 0; i < nparr; ++i)
            {
                if (parr[i] == addr)
                {
                    parr[i] = parr[--nparr];
                    break;
                }
            }
            for (i = 0; i < nsblk; ++i)
            {
                if (sblk[i] == addr)
                {
                    sblk[i] = sblk[--nsblk];
                    ++struct_frees;
                    last_struct_freed = addr;
                    break;
                }
            }
            free(addr);
        }
        return A_NULL;
    }
    if (expect_struct)
    {
        /* the a_que structure of a_que_new: answered outside schedule and trace */
        if (force_fail || addr || nsblk >= 16) { return A_NULL; }
        p = malloc(size);
        if (!p) { abort(); }
        sblk[nsblk++] = p;
        return p;
    }
    ok = isched < nsched ? sched[isched++] : 1;
    i = addr ? bfind(addr) : -1;
    if (!addr) { kind = expect_node ? 'N' : 'P'; }
    else { kind = i >= 0 ? 'R' : 'P'; }
    sprintf(trace + strlen(trace), "%s%c%lu:%d", trace[0] ? "," : "", kind, (unsigned long)size, ok);
    if (!ok) { return A_NULL; }
    p = realloc(addr, size);
    if (!p) { abort(); }
    if (kind == 'N')
    {
        if (nblk >= MAXB) { abort(); }
        blk[nblk].addr = p;
        blk[nblk].id = next_id++;
        ++nblk;
    }
    else if (kind == 'R') { blk[i].addr = p; }
    else
    {
        for (i = 0; i < nparr; ++i)
        {
            if (parr[i] == addr && addr) { break; }
        }
        if (i < nparr) { parr[i] = p; }
        else if (nparr < 16) { parr[nparr++] = p; }
    }
    return p;
}

/* walk one ring in one direction, bounded; returns 0 when it is broken */
static int walk(a_que const *q, int fwd, int *ids, int *cnt)
{
    a_list const *const head = &q->head_;
    a_list const *it = fwd ? head->next : head->prev;
    int n = 0;
    while (it != head)
    {
        int const id = qid(it);
        if (id < 3 || n > nblk) { return 0; }
        ids[n++] = id;
        it = fwd ? it->next : it->prev;
    }
    *cnt = n;
    return 1;
}

static long ret_id(void *p)
{
    if (!p) { return 0; }
    return qid(a_list_(*, p) - 1);
}

#define Q_BODY(buf, cnt, it)          \
    if ((cnt) > nblk)                 \
    {                                 \
        (cnt) = -1;                   \
        break;                        \
    }                                 \
    (buf)[(cnt)++] = (int)ret_id(it)

static char const *const qmacro[4] = {"a_que_foreach", "A_QUE_FOREACH", "a_que_foreach_reverse", "A_QUE_FOREACH_REVERSE"};

static int macro_q(a_que *q, int which, int *ids)
{
    int n = 0;
    unsigned char *it_, *at_;
    switch (which)
    {
    case 0:
        a_que_foreach(unsigned char, *, it, q) { Q_BODY(ids, n, it); }
        break;
    case 1:
        A_QUE_FOREACH(unsigned char *, it_, at_, q) { Q_BODY(ids, n, it_); }
        break;
    case 2:
        a_que_foreach_reverse(unsigned char, *, it, q) { Q_BODY(ids, n, it); }
        break;
    default:
        A_QUE_FOREACH_REVERSE(unsigned char *, it_, at_, q) { Q_BODY(ids, n, it_); }
        break;
    }
    return n;
}

/* accessors and iteration macros of one queue whose ring was walked as f (forwards) / b (backwards) */
static void acc_q(a_que *q, int s, int const *f, int nf, int const *b, int nb)
{
    static int got[MAXB + 4];
    void *const fo = a_que_fore(q), *const ba = a_que_back(q);
    long const wf = nf ? f[0] : 0, wb = nb ? b[0] : 0;
    int k;
    if (q->head_.next != &q->head_)
    {
        void *const p = a_que_fore_(q);
        if (ret_id(p) != wf) { bad("a_que_fore_", ret_id(p), wf); }
        if ((void *)A_QUE_FORE_(unsigned char, q) != p) { bad("A_QUE_FORE_", s, 0); }
    }
    if (q->head_.prev != &q->head_)
    {
        void *const p = a_que_back_(q);
        if (ret_id(p) != wb) { bad("a_que_back_", ret_id(p), wb); }
        if ((void *)A_QUE_BACK_(unsigned char, q) != p) { bad("A_QUE_BACK_", s, 0); }
    }
    if (ret_id(fo) != wf) { bad("a_que_fore", ret_id(fo), wf); }
    if (ret_id(ba) != wb) { bad("a_que_back", ret_id(ba), wb); }
    if ((void *)A_QUE_FORE(unsigned char, q) != fo) { bad("A_QUE_FORE", s, 0); }
    if ((void *)A_QUE_BACK(unsigned char, q) != ba) { bad("A_QUE_BACK", s, 0); }
    if (ret_id(a_que_at(q, 0)) != wf) { bad("a_que_at", ret_id(a_que_at(q, 0)), wf); }
    if (ret_id(a_que_at(q, -1)) != wb) { bad("a_que_at", ret_id(a_que_at(q, -1)), wb); }
    if (ret_id(A_QUE_AT(unsigned char, q, 0)) != wf) { bad("A_QUE_AT", ret_id(A_QUE_AT(unsigned char, q, 0)), wf); }
    if (ret_id(A_QUE_AT(unsigned char, q, -1)) != wb) { bad("A_QUE_AT", ret_id(A_QUE_AT(unsigned char, q, -1)), wb); }
    if (a_que_num(q) != q->num_) { bad("a_que_num", (long)a_que_num(q), (long)q->num_); }
    if (a_que_siz(q) != q->siz_) { bad("a_que_siz", (long)a_que_siz(q), (long)q->siz_); }
    for (k = 0; k < 4; ++k)
    {
        int const ng = macro_q(q, k, got);
        if (k < 2 ? !same_seq(got, ng, f, nf) : !same_seq(got, ng, b, nb))
        {
            bad_seq(qmacro[k], s + 1, got, ng, k < 2 ? f : b, k < 2 ? nf : nb);
        }
    }
}

/* allocation ledger: every live block is accounted for by the two queues */
static void acc_ledger(void)
{
    long want = 0, arrays = 0;
    int s, i;
    for (s = 0; s < 2; ++s)
    {
        want += (long)que[s]->num_ + (long)que[s]->cur_;
        if (que[s]->ptr_)
        {
            ++arrays;
            for (i = 0; i < nparr; ++i)
            {
                if (parr[i] == (void *)que[s]->ptr_) { break; }
            }
            if (i >= nparr) { bad(cur_fn, -1, s); } /* ptr_ is not a live pool array */
        }
    }
    if (nblk != want)
    {
        char fn[64];
        snprintf(fn, sizeof(fn), "%s:live-nodes", cur_fn);
        bad(fn, nblk, want);
    }
    if (nparr != arrays)
    {
        char fn[64];
        snprintf(fn, sizeof(fn), "%s:live-pool-arrays", cur_fn);
        bad(fn, nparr, arrays);
    }
    if (nsblk != 1 || sblk[0] != (void *)que[1])
    {
        char fn[64];
        snprintf(fn, sizeof(fn), "%s:live-structures", cur_fn);
        bad(fn, nsblk, 1);
    }
}

static int dump_q(void)
{
    static int f[MAXB + 2], b[MAXB + 2], all[2 * MAXB + 4];
    int s, i, nall = 0, good = 1;
    for (s = 0; s < 2; ++s)
    {
        a_que *q = que[s];
        int nf = 0, nb = 0;
        int const okf = walk(q, 1, f, &nf), okb = walk(q, 0, b, &nb);
        printf(" %c:n=%lu,z=%lu,m=%lu,f=", s ? 'B' : 'A', (unsigned long)a_que_num(q),
               (unsigned long)a_que_siz(q), (unsigned long)q->mem_);
        if (okf)
        {
            (void)putchar('[');
            for (i = 0; i < nf; ++i)
            {
                printf("%s%d", i ? "," : "", f[i]);
                all[nall++] = f[i];
            }
            (void)putchar(']');
        }
        else
        {
            printf("BROKEN");
            good = 0;
        }
        printf(",b=");
        if (okb)
        {
            (void)putchar('[');
            for (i = 0; i < nb; ++i) { printf("%s%d", i ? "," : "", b[i]); }
            (void)putchar(']');
        }
        else
        {
            printf("BROKEN");
            good = 0;
        }
        printf(",p=[");
        for (i = (int)q->cur_; i-- > 0;)
        {
            int const id = qid(q->ptr_[i]);
            if (id < 0) { good = 0; }
            pid_(id);
            if (i) { (void)putchar(','); }
        }
        printf("],e=");
        if (q->head_.next != &q->head_) { pid_((int)ret_id(a_que_fore_(q))); }
        else { (void)putchar('-'); }
        (void)putchar('/');
        if (q->head_.prev != &q->head_) { pid_((int)ret_id(a_que_back_(q))); }
        else { (void)putchar('-'); }
        if (okf && okb) { acc_q(q, s, f, nf, b, nb); }
    }
    printf(" v=[");
    for (i = 0; i < nall; ++i)
    {
        a_list *p = qptr(all[i]);
        printf("%s%d:%d", i ? "," : "", all[i], p ? (int)*(unsigned char *)(p + 1) : -1);
    }
    printf("] t=[%s]", trace);
    if (good) { acc_ledger(); }
    put_acc();
    return good;
}

static int cmp_small(void const *lhs, void const *rhs)
{
    int const a = *(unsigned char const *)lhs, b = *(unsigned char const *)rhs;
    return (a > b) - (a < b);
}

static int cmp_large(void const *lhs, void const *rhs)
{
    int const a = *(unsigned char const *)lhs, b = *(unsigned char const *)rhs;
    return (a < b) - (a > b);
}

/* the value lives in byte 0; the rest of the element is written too, so that a node smaller than the queue's current
   element size (seeded change C05-17) is an ASan report at the push that received it */
static a_que *put_q;
static void put(void *p, long v)
{
    if (p)
    {
        if (put_q && put_q->siz_ > 1) { memset((unsigned char *)p + 1, 0xA5, put_q->siz_ - 1); }
        *(unsigned char *)p = (unsigned char)v;
    }
}

/* element destructor handed to a_que_dtor / a_que_die on every second reset */
static void count_dtor(void *p)
{
    ++dtor_calls;
    if (ret_id(p) < 3) { ++dtor_bad; }
}

static a_que *new_que(a_size size)
{
    a_que *q;
    expect_struct = 1;
    q = a_que_new(size);
    expect_struct = 0;
    if (!q) { abort(); }
    if (q->siz_ != (size ? size : 1) || q->num_ || q->cur_ || q->mem_ || q->ptr_ ||
        q->head_.next != &q->head_ || q->head_.prev != &q->head_)
    {
        bad("a_que_new", (long)q->siz_, (long)(size ? size : 1));
    }
    return q;
}

/* returns 0 for a malformed line; *res receives the printed result */
static int run_q(char const *op, char **t, int n, long *res)
{
    int const s = n > 0 ? (t[0][0] == '1' || t[0][0] == 'B') : 0;
    int const alt = (int)(++opno & 1); /* every second operation through the alias macro */
    a_que *const q = que[s];
    put_q = q;
    *res = 0;
    trace[0] = 0;
    expect_node = 0;
    snprintf(fn_buf, sizeof(fn_buf), "a_que_%.30s", !strcmp(op, "swap_e") ? "swap_" : op);
    cur_fn = fn_buf;
    if (!strcmp(op, "sched"))
    {
        int i;
        nsched = 0;
        isched = 0;
        for (i = 0; i < n && i < 256; ++i) { sched[nsched++] = t[i][0] == '1'; }
    }
    else if (!strcmp(op, "reset") && n == 2)
    {
        a_size const z = (a_size)strtoull(t[1], A_NULL, 10);
        long const lo = (long)q->num_, hi = (long)q->num_ + (long)q->cur_;
        void (*const dt)(void *) = alt ? count_dtor : A_NULL;
        dtor_calls = dtor_bad = 0;
        if (s == 0)
        {
            cur_fn = "a_que_dtor";
            a_que_dtor(q, dt);
            a_que_ctor(q, z);
        }
        else
        {
            int const frees = struct_frees;
            cur_fn = "a_que_die";
            a_que_die(q, dt);
            if (struct_frees != frees + 1 || last_struct_freed != (void *)q) { bad("a_que_die:structure-released", struct_frees - frees, 1); }
            que[1] = new_que(z);
        }
        if (dt && (dtor_bad || dtor_calls < lo || dtor_calls > hi)) { bad(s ? "a_que_die:dtor-calls" : "a_que_dtor:dtor-calls", dtor_calls, lo); }
    }
    else if (!strcmp(op, "push_fore") && n == 2)
    {
        void *p;
        expect_node = 1;
        p = alt ? (void *)A_QUE_PUSH_FORE(unsigned char, q) : a_que_push_fore(q);
        put(p, atol(t[1]));
        *res = ret_id(p);
    }
    else if (!strcmp(op, "push_back") && n == 2)
    {
        void *p;
        expect_node = 1;
        p = alt ? (void *)A_QUE_PUSH_BACK(unsigned char, q) : a_que_push_back(q);
        put(p, atol(t[1]));
        *res = ret_id(p);
    }
    else if (!strcmp(op, "pull_fore") && n == 1) { *res = ret_id(alt ? (void *)A_QUE_PULL_FORE(unsigned char, q) : a_que_pull_fore(q)); }
    else if (!strcmp(op, "pull_back") && n == 1) { *res = ret_id(alt ? (void *)A_QUE_PULL_BACK(unsigned char, q) : a_que_pull_back(q)); }
    else if (!strcmp(op, "insert") && n == 3)
    {
        a_size const idx = (a_size)strtoull(t[1], A_NULL, 10);
        void *p;
        expect_node = 1;
        p = alt ? (void *)A_QUE_INSERT(unsigned char, q, idx) : a_que_insert(q, idx);
        put(p, atol(t[2]));
        *res = ret_id(p);
    }
    else if (!strcmp(op, "remove") && n == 2)
    {
        a_size const idx = (a_size)strtoull(t[1], A_NULL, 10);
        *res = ret_id(alt ? (void *)A_QUE_REMOVE(unsigned char, q, idx) : a_que_remove(q, idx));
    }
    else if (!strcmp(op, "at") && n == 2)
    {
        a_diff const idx = (a_diff)strtoll(t[1], A_NULL, 10);
        *res = ret_id(alt ? (void *)A_QUE_AT(unsigned char, q, idx) : a_que_at(q, idx));
    }
    else if (!strcmp(op, "fore") && n == 1) { *res = ret_id(alt ? (void *)A_QUE_FORE(unsigned char, q) : a_que_fore(q)); }
    else if (!strcmp(op, "back") && n == 1) { *res = ret_id(alt ? (void *)A_QUE_BACK(unsigned char, q) : a_que_back(q)); }
    else if (!strcmp(op, "sort_fore") && n == 2) { a_que_sort_fore(q, t[1][0] == '1' ? cmp_small : cmp_large); }
    else if (!strcmp(op, "sort_back") && n == 2) { a_que_sort_back(q, t[1][0] == '1' ? cmp_small : cmp_large); }
    else if (!strcmp(op, "push_sort") && n == 3)
    {
        unsigned char const key = (unsigned char)atol(t[2]);
        int (*const cmp)(void const *, void const *) = t[1][0] == '1' ? cmp_small : cmp_large;
        void *p;
        expect_node = 1;
        p = alt ? (void *)A_QUE_PUSH_SORT(unsigned char, q, &key, cmp) : a_que_push_sort(q, &key, cmp);
        put(p, key);
        *res = ret_id(p);
    }
    else if (!strcmp(op, "swap_e") && n == 2)
    {
        a_list *const l = qptr(atoi(t[0])), *const r = qptr(atoi(t[1]));
        if (!l || !r) { return 0; }
        a_que_swap_(l + 1, r + 1);
    }
    else if (!strcmp(op, "swap") && n == 2)
    {
        a_que_swap(que[t[0][0] == '1' || t[0][0] == 'B'], que[t[1][0] == '1' || t[1][0] == 'B']);
    }
    else if (!strcmp(op, "drop") && n == 1) { *res = a_que_drop(q, A_NULL); }
    else if (!strcmp(op, "setz") && n == 2) { *res = a_que_setz(q, (a_size)strtoull(t[1], A_NULL, 10), A_NULL); }
    else { return 0; }
    return 1;
}

/* A_QUE_FOREACH / A_QUE_FOREACH_REVERSE / a_que_foreach(_reverse) while the body removes the visited element */
static void selftest_q(void)
{
    int k, i;
    for (k = 0; k < 4; ++k)
    {
        int seen[8], n = 0, okseq = 1;
        unsigned char *it_, *at_;
        a_que *const q = que[0];
        int f[8], nf = 0;
        for (i = 1; i <= 3; ++i)
        {
            expect_node = 1;
            put_q = q;
            put(a_que_push_back(q), i);
            expect_node = 0;
        }
        /* a push that does not build the ring 1-2-3 is judged by the histories, not here */
        if (!walk(q, 1, f, &nf) || nf != 3) { break; }
        for (i = 0; i < 3; ++i)
        {
            a_list *const p = qptr(f[i]);
            if (!p || *(unsigned char *)(p + 1) != i + 1) { nf = 0; }
        }
        if (nf != 3) { break; }
#define T_BODY(it)                                        \
    if (n >= 6) { break; }                                \
    seen[n++] = *it;                                      \
    if (a_que_remove(q, k < 2 ? 0 : q->num_ - 1) != (void *)it) { okseq = 0; }
        switch (k)
        {
        case 0:
            a_que_foreach(unsigned char, *, it, q) { T_BODY(it) }
            break;
        case 1:
            A_QUE_FOREACH(unsigned char *, it_, at_, q) { T_BODY(it_) }
            break;
        case 2:
            a_que_foreach_reverse(unsigned char, *, it, q) { T_BODY(it) }
            break;
        default:
            A_QUE_FOREACH_REVERSE(unsigned char *, it_, at_, q) { T_BODY(it_) }
            break;
        }
#undef T_BODY
        for (i = 0; i < 3; ++i)
        {
            if (n != 3 || seen[i] != (k < 2 ? i + 1 : 3 - i)) { okseq = 0; }
        }
        if (!okseq || q->num_) { bad(qmacro[k], -n, 3); }
    }
    /* leave no trace: the scratch elements are given back, names start at 3 again */
    a_que_dtor(que[0], A_NULL);
    a_que_ctor(que[0], 8);
}

static void q_begin(void)
{
    int i;
    a_que *p;
    if (que_live)
    {
        /* give everything back by name: blocks that are no longer reachable after a defect included */
        for (i = 0; i < nblk; ++i) { free(blk[i].addr); }
        for (i = 0; i < nparr; ++i) { free(parr[i]); }
        for (i = 0; i < nsblk; ++i) { free(sblk[i]); }
    }
    nblk = nparr = nsblk = 0;
    next_id = 3;
    nsched = isched = 0;
    trace[0] = 0;
    opno = 0;
    cur_fn = "a_que_new";
    /* a refused request for the structure: a_que_new must return NULL; a_que_die(NULL) must do nothing */
    force_fail = 1;
    expect_struct = 1;
    p = a_que_new(8);
    expect_struct = 0;
    force_fail = 0;
    if (p) { bad("a_que_new:refused", 1, 0); }
    a_que_die(A_NULL, A_NULL);
    que[0] = &que0;
    a_que_ctor(que[0], 8);
    que[1] = new_que(8);
    que_live = 1;
    selftest_q();
    next_id = 3;
    trace[0] = 0;
}

int main(void)
{
    static char line[8192];
    char mode = 0;
    int dead = 0;
    a_alloc = shim;
    que[0] = que[1] = &que0;
    if (getenv("C05_FLUSH")) { setvbuf(stdout, A_NULL, _IOLBF, 0); }
    while (fgets(line, sizeof(line), stdin))
    {
        alarm(10); /* watchdog per input line: SIGALRM ends the process, the check restarts after the case */
        char *tok[300];
        int nt = 0, i;
        char *p = strtok(line, " \t\r\n");
        while (p && nt < 300)
        {
            tok[nt++] = p;
            p = strtok(A_NULL, " \t\r\n");
        }
        if (nt == 0)
        {
            (void)putchar('\n');
            continue;
        }
        acc[0] = 0;
        if (!strcmp(tok[0], "L") && nt == 2)
        {
            mode = 'L';
            dead = 0;
            ln = atoi(tok[1]);
            if (ln > MAXN) { ln = MAXN; }
            if (ln < 0) { ln = 0; }
            begin_l();
            (void)putchar('L');
            dump_l(1);
            continue;
        }
        if (!strcmp(tok[0], "S") && nt == 2)
        {
            mode = 'S';
            dead = 0;
            sn = atoi(tok[1]);
            if (sn > MAXN) { sn = MAXN; }
            if (sn < 0) { sn = 0; }
            begin_s();
            (void)putchar('S');
            dump_s();
            continue;
        }
        if (!strcmp(tok[0], "Q") && nt == 1)
        {
            mode = 'Q';
            dead = 0;
            q_begin();
            (void)putchar('Q');
            dump_q();
            continue;
        }
        if (dead || !mode)
        {
            puts("dead");
            continue;
        }
        if (mode == 'L' || mode == 'S')
        {
            int a[8], n = 0;
            for (i = 1; i < nt && n < 8; ++i) { a[n++] = atoi(tok[i]); }
            if (mode == 'L' ? run_l(tok[0], a, n) : run_s(tok[0], a, n))
            {
                printf("ok");
                if (mode == 'L') { dump_l(n ? a[0] : 0); }
                else { dump_s(); }
            }
            else
            {
                puts("fault");
                dead = 1;
            }
        }
        else
        {
            long res;
            if (run_q(tok[0], tok + 1, nt - 1, &res))
            {
                printf("r=%ld", res);
                if (!dump_q()) { dead = 1; }
            }
            else
            {
                puts("fault");
                dead = 1;
            }
        }
        if (ferror(stdout)) { return 2; }
    }
    return 0;
}
