/* C05 implementation driver: runs include/a/list.h, include/a/slist.h and src/que.c (compiled
   from the CURRENT tree) on a case file read from stdin and prints one canonical line per input
   line, in the same format as the model driver mdrv.ml.

   Node identities are small integers: dlist nodes 1..n and slist objects 1,2 / nodes 3..n+2 are
   slots of static arrays; queue objects are 1 (A) and 2 (B) and every block a_alloc hands out for
   a node is named 3,4,5,... in allocation order (the name follows the block through realloc and
   is retired by free).  Addresses are never printed; an address that has no name prints as '?'.

   After a broken ring has been seen in a queue history the rest of that history is skipped
   ("dead"), so that a defect cannot make the driver loop or touch freed memory. */
#include "a/list.h"
#include "a/slist.h"
#include "a/que.h"
#include <stdio.h>
#include <stdlib.h>
#include <string.h>

#define MAXN 64

/* ------------------------------------------------------------------ dlist */
static a_list lnode[MAXN + 1];
static int ln;

static int lid(a_list const *p)
{
    if (p >= lnode + 1 && p <= lnode + ln && ((char const *)p - (char const *)lnode) % sizeof(a_list) == 0)
    {
        return (int)(p - lnode);
    }
    return -1;
}

static void pid_(int id)
{
    if (id < 0) { (void)putchar('?'); }
    else { printf("%d", id); }
}

static void dump_l(void)
{
    int i;
    for (i = 1; i <= ln; ++i)
    {
        printf(" %d:", i);
        pid_(lid(lnode[i].next));
        (void)putchar(',');
        pid_(lid(lnode[i].prev));
    }
    (void)putchar('\n');
}

#define LN(k) (&lnode[a[k]])

static int run_l(char const *op, int const *a, int n)
{
    int i;
    for (i = 0; i < n; ++i)
    {
        if (a[i] < 1 || a[i] > ln) { return 0; }
    }
    if (!strcmp(op, "init") && n == 1) { a_list_init(LN(0)); }
    else if (!strcmp(op, "link") && n == 2) { a_list_link(LN(0), LN(1)); }
    else if (!strcmp(op, "loop") && n == 2) { a_list_loop(LN(0), LN(1)); }
    else if (!strcmp(op, "add_") && n == 4) { a_list_add_(LN(0), LN(1), LN(2), LN(3)); }
    else if (!strcmp(op, "add_node") && n == 3) { a_list_add_node(LN(0), LN(1), LN(2)); }
    else if (!strcmp(op, "add_next") && n == 2) { a_list_add_next(LN(0), LN(1)); }
    else if (!strcmp(op, "add_prev") && n == 2) { a_list_add_prev(LN(0), LN(1)); }
    else if (!strcmp(op, "del_") && n == 2) { a_list_del_(LN(0), LN(1)); }
    else if (!strcmp(op, "del_node") && n == 1) { a_list_del_node(LN(0)); }
    else if (!strcmp(op, "del_next") && n == 1) { a_list_del_next(LN(0)); }
    else if (!strcmp(op, "del_prev") && n == 1) { a_list_del_prev(LN(0)); }
    else if (!strcmp(op, "set_") && n == 4) { a_list_set_(LN(0), LN(1), LN(2), LN(3)); }
    else if (!strcmp(op, "set_node") && n == 2) { a_list_set_node(LN(0), LN(1)); }
    else if (!strcmp(op, "mov_next") && n == 2) { a_list_mov_next(LN(0), LN(1)); }
    else if (!strcmp(op, "mov_prev") && n == 2) { a_list_mov_prev(LN(0), LN(1)); }
    else if (!strcmp(op, "rot_next") && n == 1) { a_list_rot_next(LN(0)); }
    else if (!strcmp(op, "rot_prev") && n == 1) { a_list_rot_prev(LN(0)); }
    else if (!strcmp(op, "swap_") && n == 4) { a_list_swap_(LN(0), LN(1), LN(2), LN(3)); }
    else if (!strcmp(op, "swap_node") && n == 2) { a_list_swap_node(LN(0), LN(1)); }
    else { return 0; }
    return 1;
}

/* ------------------------------------------------------------------ slist */
static a_slist slist[3];
static a_slist_node snode[MAXN + 3];
static int sn;

/* address -> name: list objects (their embedded head) 1,2; nodes 3..sn+2; NULL 0 */
static int sid(a_slist_node const *p)
{
    if (!p) { return 0; }
    if (p == &slist[1].head) { return 1; }
    if (p == &slist[2].head) { return 2; }
    if (p >= snode + 3 && p <= snode + sn + 2 && ((char const *)p - (char const *)snode) % sizeof(a_slist_node) == 0)
    {
        return (int)(p - snode);
    }
    return -1;
}

static a_slist_node *sptr(int id)
{
    if (id == 1 || id == 2) { return &slist[id].head; }
    return &snode[id];
}

static void dump_s(void)
{
    int i;
    for (i = 1; i <= 2; ++i)
    {
        printf(" %d:", i);
        pid_(sid(slist[i].head.next));
        (void)putchar(',');
        pid_(sid(slist[i].tail));
    }
    for (i = 3; i <= sn + 2; ++i)
    {
        printf(" %d:", i);
        pid_(sid(snode[i].next));
    }
    (void)putchar('\n');
}

static int run_s(char const *op, int const *a, int n)
{
    int i;
    for (i = 0; i < n; ++i)
    {
        if (a[i] < 1 || a[i] > sn + 2) { return 0; }
    }
    if (a[0] > 2) { return 0; } /* first argument is always a list object */
    if (!strcmp(op, "ctor") && n == 1) { a_slist_ctor(&slist[a[0]]); }
    else if (!strcmp(op, "add") && n == 3 && a[2] > 2) { a_slist_add(&slist[a[0]], sptr(a[1]), sptr(a[2])); }
    else if (!strcmp(op, "add_head") && n == 2 && a[1] > 2) { a_slist_add_head(&slist[a[0]], sptr(a[1])); }
    else if (!strcmp(op, "add_tail") && n == 2 && a[1] > 2) { a_slist_add_tail(&slist[a[0]], sptr(a[1])); }
    else if (!strcmp(op, "del") && n == 2) { a_slist_del(&slist[a[0]], sptr(a[1])); }
    else if (!strcmp(op, "del_head") && n == 1) { a_slist_del_head(&slist[a[0]]); }
    else if (!strcmp(op, "mov") && n == 3 && a[1] <= 2) { a_slist_mov(&slist[a[0]], &slist[a[1]], sptr(a[2])); }
    else if (!strcmp(op, "rot") && n == 1) { a_slist_rot(&slist[a[0]]); }
    else { return 0; }
    return 1;
}

/* ------------------------------------------------------------------ queue */
#define MAXB 4096
static struct
{
    void *addr;
    int id;
} blk[MAXB];
static int nblk, next_id;
static int sched[256], nsched, isched;
static char trace[4096];
static int expect_node; /* the running operation is one that calls a_que_new_ */
static a_que que[2];
static int que_live;

static int bfind(void const *p)
{
    int i;
    for (i = 0; i < nblk; ++i)
    {
        if (blk[i].addr == p) { return i; }
    }
    return -1;
}

static int qid(a_list const *p)
{
    int i;
    if (p == &que[0].head_) { return 1; }
    if (p == &que[1].head_) { return 2; }
    i = bfind(p);
    return i < 0 ? -1 : blk[i].id;
}

static a_list *qptr(int id)
{
    int i;
    for (i = 0; i < nblk; ++i)
    {
        if (blk[i].id == id) { return (a_list *)blk[i].addr; }
    }
    return A_NULL;
}

static void *shim(void *addr, a_size size)
{
    int ok, i;
    char kind;
    void *p;
    if (size == 0)
    {
        if (addr)
        {
            i = bfind(addr);
            if (i >= 0) { blk[i] = blk[--nblk]; }
            free(addr);
        }
        return A_NULL;
    }
    ok = isched < nsched ? sched[isched++] : 1;
    i = addr ? bfind(addr) : -1;
    if (!addr) { kind = expect_node ? 'N' : 'P'; }
    else { kind = i >= 0 ? 'R' : 'P'; }
    sprintf(trace + strlen(trace), "%s%c%lu:%d", trace[0] ? "," : "", kind, (unsigned long)size, ok);
    if (!ok) { return A_NULL; }
    p = realloc(addr, size);
    if (!p) { abort(); }
    if (kind == 'N')
    {
        if (nblk >= MAXB) { abort(); }
        blk[nblk].addr = p;
        blk[nblk].id = next_id++;
        ++nblk;
    }
    else if (kind == 'R') { blk[i].addr = p; }
    return p;
}

/* walk one ring in one direction, bounded; returns 0 when it is broken */
static int walk(a_que const *q, int fwd, int *ids, int *cnt)
{
    a_list const *const head = &q->head_;
    a_list const *it = fwd ? head->next : head->prev;
    int n = 0;
    while (it != head)
    {
        int const id = qid(it);
        if (id < 3 || n > nblk) { return 0; }
        ids[n++] = id;
        it = fwd ? it->next : it->prev;
    }
    *cnt = n;
    return 1;
}

static int dump_q(void)
{
    static int f[MAXB + 2], b[MAXB + 2], all[2 * MAXB + 4];
    int s, i, nall = 0, good = 1;
    for (s = 0; s < 2; ++s)
    {
        a_que const *q = &que[s];
        int nf = 0, nb = 0;
        int const okf = walk(q, 1, f, &nf), okb = walk(q, 0, b, &nb);
        printf(" %c:n=%lu,z=%lu,m=%lu,f=", s ? 'B' : 'A', (unsigned long)a_que_num(q),
               (unsigned long)a_que_siz(q), (unsigned long)q->mem_);
        if (okf)
        {
            (void)putchar('[');
            for (i = 0; i < nf; ++i)
            {
                printf("%s%d", i ? "," : "", f[i]);
                all[nall++] = f[i];
            }
            (void)putchar(']');
        }
        else
        {
            printf("BROKEN");
            good = 0;
        }
        printf(",b=");
        if (okb)
        {
            (void)putchar('[');
            for (i = 0; i < nb; ++i) { printf("%s%d", i ? "," : "", b[i]); }
            (void)putchar(']');
        }
        else
        {
            printf("BROKEN");
            good = 0;
        }
        printf(",p=[");
        for (i = (int)q->cur_; i-- > 0;)
        {
            int const id = qid(q->ptr_[i]);
            if (id < 0) { good = 0; }
            pid_(id);
            if (i) { (void)putchar(','); }
        }
        (void)putchar(']');
    }
    printf(" v=[");
    for (i = 0; i < nall; ++i)
    {
        a_list *p = qptr(all[i]);
        printf("%s%d:%d", i ? "," : "", all[i], p ? (int)*(unsigned char *)(p + 1) : -1);
    }
    printf("] t=[%s]\n", trace);
    return good;
}

static int cmp_small(void const *lhs, void const *rhs)
{
    int const a = *(unsigned char const *)lhs, b = *(unsigned char const *)rhs;
    return (a > b) - (a < b);
}

static int cmp_large(void const *lhs, void const *rhs)
{
    int const a = *(unsigned char const *)lhs, b = *(unsigned char const *)rhs;
    return (a < b) - (a > b);
}

static void put(void *p, long v)
{
    if (p) { *(unsigned char *)p = (unsigned char)v; }
}

static long ret_id(void *p)
{
    if (!p) { return 0; }
    return qid((a_list *)p - 1);
}

/* returns 0 for a malformed line; *res receives the printed result */
static int run_q(char const *op, char **t, int n, long *res)
{
    int const s = n > 0 ? (t[0][0] == '1' || t[0][0] == 'B') : 0;
    a_que *const q = &que[s];
    *res = 0;
    trace[0] = 0;
    expect_node = 0;
    if (!strcmp(op, "sched"))
    {
        int i;
        nsched = 0;
        isched = 0;
        for (i = 0; i < n && i < 256; ++i) { sched[nsched++] = t[i][0] == '1'; }
    }
    else if (!strcmp(op, "reset") && n == 2)
    {
        a_que_dtor(q, A_NULL);
        a_que_ctor(q, (a_size)strtoull(t[1], A_NULL, 10));
    }
    else if (!strcmp(op, "push_fore") && n == 2)
    {
        void *p;
        expect_node = 1;
        p = a_que_push_fore(q);
        put(p, atol(t[1]));
        *res = ret_id(p);
    }
    else if (!strcmp(op, "push_back") && n == 2)
    {
        void *p;
        expect_node = 1;
        p = a_que_push_back(q);
        put(p, atol(t[1]));
        *res = ret_id(p);
    }
    else if (!strcmp(op, "pull_fore") && n == 1) { *res = ret_id(a_que_pull_fore(q)); }
    else if (!strcmp(op, "pull_back") && n == 1) { *res = ret_id(a_que_pull_back(q)); }
    else if (!strcmp(op, "insert") && n == 3)
    {
        void *p;
        expect_node = 1;
        p = a_que_insert(q, (a_size)strtoull(t[1], A_NULL, 10));
        put(p, atol(t[2]));
        *res = ret_id(p);
    }
    else if (!strcmp(op, "remove") && n == 2) { *res = ret_id(a_que_remove(q, (a_size)strtoull(t[1], A_NULL, 10))); }
    else if (!strcmp(op, "at") && n == 2) { *res = ret_id(a_que_at(q, (a_diff)strtoll(t[1], A_NULL, 10))); }
    else if (!strcmp(op, "fore") && n == 1) { *res = ret_id(a_que_fore(q)); }
    else if (!strcmp(op, "back") && n == 1) { *res = ret_id(a_que_back(q)); }
    else if (!strcmp(op, "sort_fore") && n == 2) { a_que_sort_fore(q, t[1][0] == '1' ? cmp_small : cmp_large); }
    else if (!strcmp(op, "sort_back") && n == 2) { a_que_sort_back(q, t[1][0] == '1' ? cmp_small : cmp_large); }
    else if (!strcmp(op, "push_sort") && n == 3)
    {
        unsigned char const key = (unsigned char)atol(t[2]);
        void *p;
        expect_node = 1;
        p = a_que_push_sort(q, &key, t[1][0] == '1' ? cmp_small : cmp_large);
        put(p, key);
        *res = ret_id(p);
    }
    else if (!strcmp(op, "swap_e") && n == 2)
    {
        a_list *const l = qptr(atoi(t[0])), *const r = qptr(atoi(t[1]));
        if (!l || !r) { return 0; }
        a_que_swap_(l + 1, r + 1);
    }
    else if (!strcmp(op, "swap") && n == 2)
    {
        a_que_swap(&que[t[0][0] == '1' || t[0][0] == 'B'], &que[t[1][0] == '1' || t[1][0] == 'B']);
    }
    else if (!strcmp(op, "drop") && n == 1) { *res = a_que_drop(q, A_NULL); }
    else if (!strcmp(op, "setz") && n == 2) { *res = a_que_setz(q, (a_size)strtoull(t[1], A_NULL, 10), A_NULL); }
    else { return 0; }
    return 1;
}

static void q_begin(void)
{
    if (que_live)
    {
        /* give everything back; blocks that are no longer reachable after a defect are freed by name */
        int i;
        for (i = 0; i < nblk; ++i) { free(blk[i].addr); }
        free((void *)que[0].ptr_);
        if (que[1].ptr_ != que[0].ptr_) { free((void *)que[1].ptr_); }
    }
    nblk = 0;
    next_id = 3;
    nsched = isched = 0;
    trace[0] = 0;
    a_que_ctor(&que[0], 8);
    a_que_ctor(&que[1], 8);
    que_live = 1;
}

int main(void)
{
    static char line[8192];
    char mode = 0;
    int dead = 0;
    a_alloc = shim;
    if (getenv("C05_FLUSH")) { setvbuf(stdout, A_NULL, _IOLBF, 0); }
    while (fgets(line, sizeof(line), stdin))
    {
        char *tok[300];
        int nt = 0, i;
        char *p = strtok(line, " \t\r\n");
        while (p && nt < 300)
        {
            tok[nt++] = p;
            p = strtok(A_NULL, " \t\r\n");
        }
        if (nt == 0)
        {
            (void)putchar('\n');
            continue;
        }
        if (!strcmp(tok[0], "L") && nt == 2)
        {
            mode = 'L';
            dead = 0;
            ln = atoi(tok[1]);
            if (ln > MAXN) { ln = MAXN; }
            for (i = 1; i <= ln; ++i) { a_list_ctor(&lnode[i]); }
            (void)putchar('L');
            dump_l();
            continue;
        }
        if (!strcmp(tok[0], "S") && nt == 2)
        {
            mode = 'S';
            dead = 0;
            sn = atoi(tok[1]);
            if (sn > MAXN) { sn = MAXN; }
            a_slist_ctor(&slist[1]);
            a_slist_ctor(&slist[2]);
            for (i = 3; i <= sn + 2; ++i) { snode[i].next = A_NULL; }
            (void)putchar('S');
            dump_s();
            continue;
        }
        if (!strcmp(tok[0], "Q") && nt == 1)
        {
            mode = 'Q';
            dead = 0;
            q_begin();
            (void)putchar('Q');
            dump_q();
            continue;
        }
        if (dead || !mode)
        {
            puts("dead");
            continue;
        }
        if (mode == 'L' || mode == 'S')
        {
            int a[8], n = 0;
            for (i = 1; i < nt && n < 8; ++i) { a[n++] = atoi(tok[i]); }
            if (mode == 'L' ? run_l(tok[0], a, n) : run_s(tok[0], a, n))
            {
                printf("ok");
                if (mode == 'L') { dump_l(); }
                else { dump_s(); }
            }
            else
            {
                puts("fault");
                dead = 1;
            }
        }
        else
        {
            long res;
            if (run_q(tok[0], tok + 1, nt - 1, &res))
            {
                printf("r=%ld", res);
                if (!dump_q()) { dead = 1; }
            }
            else
            {
                puts("fault");
                dead = 1;
            }
        }
        if (ferror(stdout)) { return 2; }
    }
    return 0;
}
